/- C21 helper lemmas (core tactics only) -/
import TornadoModel.C21.Spec
set_option linter.unusedSimpArgs false
set_option linter.unusedVariables false
namespace TornadoModel.C21

/-! ### html.escape as a single pass -/

/-- what `html.escape` does to one character -/
def escC (c : Nat) : Str :=
  if c = 38 then ampE else if c = 60 then ltE else if c = 62 then gtE
  else if c = 34 then quotE else if c = 39 then aposE else [c]

theorem replaceC_nil (c : Nat) (r : Str) : replaceC c r [] = [] := rfl
theorem replaceC_cons (c : Nat) (r : Str) (x : Nat) (s : Str) :
    replaceC c r (x :: s) = (if x = c then r else [x]) ++ replaceC c r s := by
  simp [replaceC, List.flatMap_cons]
theorem replaceC_append (c : Nat) (r : Str) (a b : Str) :
    replaceC c r (a ++ b) = replaceC c r a ++ replaceC c r b := by
  simp [replaceC, List.flatMap_append]

theorem htmlEscape_nil : htmlEscape [] = [] := rfl

theorem htmlEscape_cons (x : Nat) (s : Str) : htmlEscape (x :: s) = escC x ++ htmlEscape s := by
  unfold htmlEscape escC
  by_cases h38 : x = 38
  · subst h38; simp [replaceC_cons, replaceC_append, ampE, replaceC_nil]
  by_cases h60 : x = 60
  · subst h60; simp [replaceC_cons, replaceC_append, ltE, replaceC_nil]
  by_cases h62 : x = 62
  · subst h62; simp [replaceC_cons, replaceC_append, gtE, replaceC_nil]
  by_cases h34 : x = 34
  · subst h34; simp [replaceC_cons, replaceC_append, quotE, replaceC_nil]
  by_cases h39 : x = 39
  · subst h39; simp [replaceC_cons, replaceC_append, aposE, replaceC_nil]
  simp [replaceC_cons, replaceC_append, replaceC_nil, h38, h60, h62, h34, h39]

theorem htmlEscape_eq_flatMap (s : Str) : htmlEscape s = s.flatMap escC := by
  induction s with
  | nil => rfl
  | cons x s ih => rw [htmlEscape_cons, ih, List.flatMap_cons]

theorem htmlEscape_append (a b : Str) : htmlEscape (a ++ b) = htmlEscape a ++ htmlEscape b := by
  simp [htmlEscape_eq_flatMap, List.flatMap_append]


/-! ### escape_safe -/

theorem escapeSafe_escC (c : Nat) (rest : Str) (h : Spec.escapeSafe rest = true) :
    Spec.escapeSafe (escC c ++ rest) = true := by
  unfold escC
  by_cases h38 : c = 38
  · subst h38; simp [ampE, Spec.escapeSafe, Spec.entityBodies, Spec.startsWith, h]
  by_cases h60 : c = 60
  · subst h60; simp [ltE, Spec.escapeSafe, Spec.entityBodies, Spec.startsWith, h]
  by_cases h62 : c = 62
  · subst h62; simp [gtE, Spec.escapeSafe, Spec.entityBodies, Spec.startsWith, h]
  by_cases h34 : c = 34
  · subst h34; simp [quotE, Spec.escapeSafe, Spec.entityBodies, Spec.startsWith, h]
  by_cases h39 : c = 39
  · subst h39; simp [aposE, Spec.escapeSafe, Spec.entityBodies, Spec.startsWith, h]
  simp [h38, h60, h62, h34, h39, Spec.escapeSafe, h]

/-! ### unescape ∘ escape -/

/-- the table knows the four named entities `html.escape` emits (`&#x27;` is numeric) -/
def HasBasicEntities (T : Table) : Prop :=
  T [97, 109, 112, 59] = some [38] ∧ T [108, 116, 59] = some [60] ∧ T [103, 116, 59] = some [62]
    ∧ T [113, 117, 111, 116, 59] = some [34]

theorem unescGo_skip (T : Table) (k : Nat) (p rest : Str) (h : p.length = k) :
    unescGo T k (p ++ rest) = unescGo T 0 rest := by
  induction p generalizing k with
  | nil => simp at h; subst h; rfl
  | cons x p ih =>
    cases k with
    | zero => simp at h
    | succ k => simp at h; simp [unescGo]; exact ih k h

theorem unescGo_escC (T : Table) (hT : HasBasicEntities T) (c : Nat) (rest : Str) :
    unescGo T 0 (escC c ++ rest) = c :: unescGo T 0 rest := by
  obtain ⟨hamp, hlt, hgt, hquot⟩ := hT
  unfold escC
  by_cases h38 : c = 38
  · subst h38
    simp [ampE, unescGo, matchRef, isNameChar, List.takeWhile, optSemi, namedRepl, hamp]
  by_cases h60 : c = 60
  · subst h60
    simp [ltE, unescGo, matchRef, isNameChar, List.takeWhile, optSemi, namedRepl, hlt]
  by_cases h62 : c = 62
  · subst h62
    simp [gtE, unescGo, matchRef, isNameChar, List.takeWhile, optSemi, namedRepl, hgt]
  by_cases h34 : c = 34
  · subst h34
    simp [quotE, unescGo, matchRef, isNameChar, List.takeWhile, optSemi, namedRepl, hquot]
  by_cases h39 : c = 39
  · subst h39
    simp [aposE, unescGo, matchRef, isDigit, isHex, List.takeWhile, optSemi, numericRepl, hexValS, hexVal,
      invalidCharref, invalidCodepoint]
  simp [h38, h60, h62, h34, h39, unescGo]

/-! ### json: no `</` after the replacement -/

theorem jsonEscapeSlash_head (s : Str) :
    (jsonEscapeSlash s).head? = s.head? := by
  match s with
  | [] => rfl
  | [c] => simp [jsonEscapeSlash]
  | c :: d :: rest =>
    simp only [jsonEscapeSlash]
    split <;> simp_all

theorem hasSub2_jsonEscapeSlash (s : Str) : Spec.hasSub2 60 47 (jsonEscapeSlash s) = false := by
  match s with
  | [] => rfl
  | [c] => simp [jsonEscapeSlash, Spec.hasSub2]
  | c :: d :: rest =>
    have ih1 := hasSub2_jsonEscapeSlash rest
    have ih2 := hasSub2_jsonEscapeSlash (d :: rest)
    have hd := jsonEscapeSlash_head (d :: rest)
    simp only [jsonEscapeSlash]
    split
    · simp [Spec.hasSub2, ih1]
    · rename_i hne
      simp only [Spec.hasSub2, ih2, Bool.or_false]
      cases hj : jsonEscapeSlash (d :: rest) with
      | nil => simp
      | cons e t =>
        rw [hj] at hd
        simp at hd
        subst hd
        simp
        intro h1 h2
        exact hne ⟨h1, h2⟩
termination_by s.length


/-! ### UTF-8 -/

theorem isCont_iff (b : Nat) : isCont b = true ↔ 0x80 ≤ b ∧ b ≤ 0xBF := by simp [isCont]
theorem okSecond_iff (b0 b1 : Nat) : okSecond b0 b1 = true ↔ lo2 b0 ≤ b1 ∧ b1 ≤ hi2 b0 := by simp [okSecond]
theorem isScalar_iff (c : Nat) : isScalar c = true ↔ (c < 0xD800 ∨ (0xDFFF < c ∧ c ≤ 0x10FFFF)) := by simp [isScalar]

theorem decodeG_1 (b0 : Nat) (rest : Bytes) (h : b0 < 0x80) : decodeG (b0 :: rest) = some b0 :: decodeG rest := by
  rw [decodeG.eq_def]; simp [h]

theorem decodeG_2 (b0 b1 : Nat) (rest : Bytes) (h0 : 0xC2 ≤ b0) (h0' : b0 < 0xE0) (h1 : isCont b1 = true) :
    decodeG (b0 :: b1 :: rest) = some ((b0 - 0xC0) * 64 + (b1 - 0x80)) :: decodeG rest := by
  rw [decodeG.eq_def]
  simp [show ¬ b0 < 0x80 by omega, show ¬ b0 < 0xC2 by omega, h0', h1]

theorem decodeG_3 (b0 b1 b2 : Nat) (rest : Bytes) (h0 : 0xE0 ≤ b0) (h0' : b0 < 0xF0) (h1 : okSecond b0 b1 = true)
    (h2 : isCont b2 = true) :
    decodeG (b0 :: b1 :: b2 :: rest) = some ((b0 - 0xE0) * 4096 + (b1 - 0x80) * 64 + (b2 - 0x80)) :: decodeG rest := by
  rw [decodeG.eq_def]
  simp [show ¬ b0 < 0x80 by omega, show ¬ b0 < 0xC2 by omega, show ¬ b0 < 0xE0 by omega, h0', h1, h2]

theorem decodeG_4 (b0 b1 b2 b3 : Nat) (rest : Bytes) (h0 : 0xF0 ≤ b0) (h0' : b0 < 0xF5) (h1 : okSecond b0 b1 = true)
    (h2 : isCont b2 = true) (h3 : isCont b3 = true) :
    decodeG (b0 :: b1 :: b2 :: b3 :: rest)
      = some ((b0 - 0xF0) * 262144 + (b1 - 0x80) * 4096 + (b2 - 0x80) * 64 + (b3 - 0x80)) :: decodeG rest := by
  rw [decodeG.eq_def]
  simp [show ¬ b0 < 0x80 by omega, show ¬ b0 < 0xC2 by omega, show ¬ b0 < 0xE0 by omega, show ¬ b0 < 0xF0 by omega,
    h0', h1, h2, h3]

/-- decoding the encoding of one scalar value gives it back -/
theorem decodeG_encC (c : Nat) (hc : isScalar c = true) (rest : Bytes) :
    decodeG (encC c ++ rest) = some c :: decodeG rest := by
  rw [isScalar_iff] at hc
  unfold encC
  by_cases h1 : c < 0x80
  · simp [h1, decodeG_1]
  by_cases h2 : c < 0x800
  · rw [if_neg h1, if_pos h2]
    simp only [List.cons_append, List.nil_append]
    rw [decodeG_2 _ _ _ (by omega) (by omega) (by rw [isCont_iff]; omega)]
    simp only [List.cons.injEq, Option.some.injEq, and_true]; omega
  by_cases h3 : c < 0x10000
  · rw [if_neg h1, if_neg h2, if_pos h3]
    simp only [List.cons_append, List.nil_append]
    rw [decodeG_3 _ _ _ _ (by omega) (by omega) (by rw [okSecond_iff]; unfold lo2 hi2; (repeat' split) <;> omega)
      (by rw [isCont_iff]; omega)]
    simp only [List.cons.injEq, Option.some.injEq, and_true]; omega
  · rw [if_neg h1, if_neg h2, if_neg h3]
    simp only [List.cons_append, List.nil_append]
    rw [decodeG_4 _ _ _ _ _ (by omega) (by omega) (by rw [okSecond_iff]; unfold lo2 hi2; (repeat' split) <;> omega)
      (by rw [isCont_iff]; omega) (by rw [isCont_iff]; omega)]
    simp only [List.cons.injEq, Option.some.injEq, and_true]; omega

theorem decodeG_flatMap_encC (s : Str) (hs : s.all isScalar = true) :
    decodeG (s.flatMap encC) = s.map some := by
  induction s with
  | nil => simp [decodeG]
  | cons c s ih =>
    simp only [List.all_cons, Bool.and_eq_true] at hs
    rw [List.flatMap_cons, decodeG_encC c hs.1, ih hs.2, List.map_cons]

theorem allSome_map_some (s : Str) : allSome (s.map some) = some s := by
  induction s with
  | nil => rfl
  | cons c s ih => simp [allSome, ih]

theorem map_replC_map_some (s : Str) : (s.map some).map replC = s := by
  induction s with
  | nil => rfl
  | cons c s ih => simp only [List.map_cons, replC, ih]

theorem utf8Decode_flatMap_encC (s : Str) (hs : s.all isScalar = true) : utf8Decode (s.flatMap encC) = .ok s := by
  simp [utf8Decode, decodeG_flatMap_encC s hs, allSome_map_some]

theorem utf8DecodeReplace_flatMap_encC (s : Str) (hs : s.all isScalar = true) :
    utf8DecodeReplace (s.flatMap encC) = s := by
  simp only [utf8DecodeReplace, decodeG_flatMap_encC s hs, map_replC_map_some]

theorem allSome_none_cons (l : List (Option Nat)) (s : Str) : allSome (none :: l) = some s ↔ False := by
  simp [allSome]
theorem allSome_some_cons (c : Nat) (l : List (Option Nat)) (s : Str) :
    allSome (some c :: l) = some s ↔ ∃ s', allSome l = some s' ∧ s = c :: s' := by
  simp only [allSome]
  cases h : allSome l with
  | none => simp
  | some l' => simp [eq_comm]

theorem okSecond_bounds (b0 b1 : Nat) (h : okSecond b0 b1 = true) :
    0x80 ≤ b1 ∧ b1 ≤ 0xBF ∧ (b0 = 0xE0 → 0xA0 ≤ b1) ∧ (b0 = 0xED → b1 ≤ 0x9F) ∧ (b0 = 0xF0 → 0x90 ≤ b1)
      ∧ (b0 = 0xF4 → b1 ≤ 0x8F) := by
  rw [okSecond_iff] at h; unfold lo2 hi2 at h
  (repeat' split at h) <;> omega

theorem encode_of_decodeG (b : Bytes) :
    ∀ s, allSome (decodeG b) = some s → s.all isScalar = true ∧ s.flatMap encC = b := by
  fun_induction decodeG b
  all_goals intro s h
  all_goals try (simp only [allSome_none_cons] at h)
  all_goals try (simp [allSome] at h; done)
  case case1 => simp [allSome] at h; subst h; simp
  case case2 b0 r0 hb ih =>
    rw [allSome_some_cons] at h
    obtain ⟨s', hs', rfl⟩ := h
    have := ih s' hs'
    refine ⟨?_, ?_⟩
    · simp only [List.all_cons, this.1, Bool.and_true, isScalar_iff]; omega
    · rw [List.flatMap_cons, this.2]; simp [encC, hb]
  case case5 b0 h1 h2 h3 b1 r1 hc ih =>
    rw [allSome_some_cons] at h
    obtain ⟨s', hs', rfl⟩ := h
    have := ih s' hs'
    rw [isCont_iff] at hc
    refine ⟨?_, ?_⟩
    · simp only [List.all_cons, this.1, Bool.and_true, isScalar_iff]; omega
    · rw [List.flatMap_cons, this.2]; unfold encC
      rw [if_neg (by omega), if_pos (by omega)]
      simp only [List.cons_append, List.nil_append, List.cons.injEq, and_true]; omega
  case case9 b0 h1 h2 h3 h4 b1 hs b2 r2 hc ih =>
    rw [allSome_some_cons] at h
    obtain ⟨s', hs', rfl⟩ := h
    have := ih s' hs'
    rw [isCont_iff] at hc
    obtain ⟨k1, k2, k3, k4, k5, k6⟩ := okSecond_bounds b0 b1 hs
    refine ⟨?_, ?_⟩
    · simp only [List.all_cons, this.1, Bool.and_true, isScalar_iff]; omega
    · rw [List.flatMap_cons, this.2]; unfold encC
      rw [if_neg (by omega), if_neg (by omega), if_pos (by omega)]
      simp only [List.cons_append, List.nil_append, List.cons.injEq, and_true]; omega
  case case15 b0 h1 h2 h3 h4 h5 b1 hs b2 hc2 b3 r3 hc ih =>
    rw [allSome_some_cons] at h
    obtain ⟨s', hs', rfl⟩ := h
    have := ih s' hs'
    rw [isCont_iff] at hc hc2
    obtain ⟨k1, k2, k3, k4, k5, k6⟩ := okSecond_bounds b0 b1 hs
    refine ⟨?_, ?_⟩
    · simp only [List.all_cons, this.1, Bool.and_true, isScalar_iff]; omega
    · rw [List.flatMap_cons, this.2]; unfold encC
      rw [if_neg (by omega), if_neg (by omega), if_neg (by omega)]
      simp only [List.cons_append, List.nil_append, List.cons.injEq, and_true]; omega


/-! ### quote / unquote -/

theorem hexDigitU_facts : ∀ n, n < 16 → isHex (hexDigitU n) = true ∧ hexVal (hexDigitU n) = n ∧ hexDigitU n ≠ 43
    ∧ hexDigitU n ≠ 37 ∧ hexDigitU n < 128 ∧ hexDigitU n ≠ 32 := by decide

theorem alwaysSafe_facts (b : Nat) (h : alwaysSafe b = true) : b < 128 ∧ b ≠ 37 ∧ b ≠ 43 ∧ b ≠ 32 ∧ b ≠ 38 ∧ b ≠ 61 := by
  simp [alwaysSafe, isAlnum] at h; omega

/-- extra `safe` characters that keep quoting invertible -/
def GoodSafe (safe : List Nat) : Prop := ∀ x ∈ safe, x < 128 ∧ x ≠ 37 ∧ x ≠ 43

theorem goodSafe_nil : GoodSafe [] := by simp [GoodSafe]
theorem goodSafe_slash : GoodSafe [47] := by simp [GoodSafe]
theorem goodSafe_space : GoodSafe [32] := by simp [GoodSafe]

theorem unq_cons_ne (c : Nat) (rest : Bytes) (h : c ≠ 37) : unq (c :: rest) = c :: unq rest := by
  rw [unq.eq_def]; simp [h]

theorem unq_pct (a b : Nat) (rest : Bytes) (ha : isHex a = true) (hb : isHex b = true) :
    unq (37 :: a :: b :: rest) = (16 * hexVal a + hexVal b) :: unq rest := by
  rw [unq.eq_def]; simp [ha, hb]

theorem unq_quoteByte (safe : List Nat) (hs : GoodSafe safe) (b : Nat) (hb : b < 256) (rest : Bytes) :
    unq (quoteByte safe b ++ rest) = b :: unq rest := by
  unfold quoteByte
  split
  · rename_i h
    have hne : b ≠ 37 := by
      simp only [Bool.or_eq_true] at h
      rcases h with h | h
      · exact (alwaysSafe_facts b h).2.1
      · have := hs b (by simpa using h); exact this.2.1
    simp [unq_cons_ne _ _ hne]
  · have h1 := hexDigitU_facts (b / 16) (by omega)
    have h2 := hexDigitU_facts (b % 16) (by omega)
    simp only [List.cons_append, List.nil_append]
    rw [unq_pct _ _ _ h1.1 h2.1, h1.2.1, h2.2.1]
    congr 1; omega

theorem unq_quoteFromBytes (safe : List Nat) (hs : GoodSafe safe) (bs : Bytes) (hb : bs.all (· < 256) = true) :
    unq (quoteFromBytes safe bs) = bs := by
  induction bs with
  | nil => simp [quoteFromBytes, unq]
  | cons b bs ih =>
    simp only [List.all_cons, Bool.and_eq_true, decide_eq_true_eq] at hb
    simp only [quoteFromBytes, List.flatMap_cons] at ih ⊢
    rw [unq_quoteByte safe hs b hb.1, ih (by simpa using hb.2)]

theorem quoteByte_chars (safe : List Nat) (hs : GoodSafe safe) (b : Nat) (hb : b < 256) :
    ∀ x ∈ quoteByte safe b, x < 128 ∧ x ≠ 43 := by
  unfold quoteByte
  split
  · rename_i h
    simp only [Bool.or_eq_true] at h
    intro x hx; simp at hx; subst hx
    rcases h with h | h
    · have := alwaysSafe_facts x h; omega
    · have := hs x (by simpa using h); omega
  · have h1 := hexDigitU_facts (b / 16) (by omega)
    have h2 := hexDigitU_facts (b % 16) (by omega)
    intro x hx; simp at hx
    rcases hx with rfl | rfl | rfl <;> omega

theorem quoteFromBytes_chars (safe : List Nat) (hs : GoodSafe safe) (bs : Bytes) (hb : bs.all (· < 256) = true) :
    ∀ x ∈ quoteFromBytes safe bs, x < 128 ∧ x ≠ 43 := by
  intro x hx
  simp only [quoteFromBytes, List.mem_flatMap] at hx
  obtain ⟨b, hbm, hx⟩ := hx
  have : b < 256 := by simpa using List.all_eq_true.mp hb b hbm
  exact quoteByte_chars safe hs b this x hx

theorem replaceC_id (c : Nat) (r : Str) (t : Str) (h : ∀ x ∈ t, x ≠ c) : replaceC c r t = t := by
  induction t with
  | nil => rfl
  | cons x t ih =>
    rw [replaceC_cons, if_neg (h x (by simp)), ih (fun y hy => h y (by simp [hy]))]; rfl

theorem replaceC_inv (t : Str) (h : ∀ x ∈ t, x ≠ 43) : replaceC 43 [32] (replaceC 32 [43] t) = t := by
  induction t with
  | nil => rfl
  | cons x t ih =>
    have hx := h x (by simp)
    rw [replaceC_cons, replaceC_append, ih (fun y hy => h y (by simp [hy]))]
    by_cases h32 : x = 32
    · subst h32; simp [replaceC]
    · simp [h32, replaceC, hx]

theorem replaceC_chars (c d : Nat) (t : Str) (P : Nat → Prop) (hd : P d) (h : ∀ x ∈ t, P x) :
    ∀ x ∈ replaceC c [d] t, P x := by
  induction t with
  | nil => simp [replaceC]
  | cons y t ih =>
    rw [replaceC_cons]
    intro x hx
    simp only [List.mem_append] at hx
    rcases hx with hx | hx
    · split at hx
      · simp at hx; rw [hx]; exact hd
      · simp at hx; rw [hx]; exact h y (by simp)
    · exact ih (fun z hz => h z (by simp [hz])) x hx

/-- what `url_unescape` percent-decodes after undoing the `+` convention, for both plus modes -/
theorem unq_urlEscape_bytes (plus : Bool) (bs : Bytes) (hb : bs.all (· < 256) = true) :
    ∃ q, urlEscape plus (.b bs) = .ok q ∧ (∀ x ∈ q, x < 128) ∧
      unq (if plus then replaceC 43 [32] q else q) = bs := by
  cases plus with
  | false =>
    refine ⟨quoteFromBytes [47] bs, by simp [urlEscape, quote, toBytes, Except.map], ?_, ?_⟩
    · intro x hx; exact (quoteFromBytes_chars _ goodSafe_slash bs hb x hx).1
    · simpa using unq_quoteFromBytes _ goodSafe_slash bs hb
  | true =>
    by_cases h32 : 32 ∈ bs
    · refine ⟨replaceC 32 [43] (quoteFromBytes [32] bs), by simp [urlEscape, quotePlus, sbContains, h32, quote, toBytes, Except.map], ?_, ?_⟩
      · exact replaceC_chars 32 43 _ (· < 128) (by omega) (fun x hx => (quoteFromBytes_chars _ goodSafe_space bs hb x hx).1)
      · simp only [if_true]
        rw [replaceC_inv _ (fun x hx => (quoteFromBytes_chars _ goodSafe_space bs hb x hx).2)]
        exact unq_quoteFromBytes _ goodSafe_space bs hb
    · refine ⟨quoteFromBytes [] bs, by simp [urlEscape, quotePlus, sbContains, h32, quote, toBytes, Except.map], ?_, ?_⟩
      · intro x hx; exact (quoteFromBytes_chars _ goodSafe_nil bs hb x hx).1
      · simp only [if_true]
        rw [replaceC_id _ _ _ (fun x hx => (quoteFromBytes_chars _ goodSafe_nil bs hb x hx).2)]
        exact unq_quoteFromBytes _ goodSafe_nil bs hb


theorem unq_no_pct (s : Bytes) (h : ∀ x ∈ s, x ≠ 37) : unq s = s := by
  induction s with
  | nil => simp [unq]
  | cons c s ih => rw [unq_cons_ne _ _ (h c (by simp)), ih (fun y hy => h y (by simp [hy]))]

theorem decodeG_ascii (s : Bytes) (h : ∀ x ∈ s, x < 128) : decodeG s = s.map some := by
  induction s with
  | nil => simp [decodeG]
  | cons c s ih => rw [decodeG_1 _ _ (h c (by simp)), ih (fun y hy => h y (by simp [hy]))]; rfl

theorem utf8DecodeReplace_ascii (s : Bytes) (h : ∀ x ∈ s, x < 128) : utf8DecodeReplace s = s := by
  simp only [utf8DecodeReplace, decodeG_ascii s h, map_replC_map_some]

theorem encC_ascii (c : Nat) (h : c < 128) : encC c = [c] := by simp [encC, h]

theorem flatMap_encC_ascii (s : Str) (h : ∀ x ∈ s, x < 128) : s.flatMap encC = s := by
  induction s with
  | nil => rfl
  | cons c s ih =>
    rw [List.flatMap_cons, encC_ascii c (h c (by simp)), ih (fun y hy => h y (by simp [hy]))]; rfl

theorem utf8Encode_ascii (s : Str) (h : ∀ x ∈ s, x < 128) : utf8Encode s = .ok s := by
  have hs : s.all isScalar = true := by
    rw [List.all_eq_true]; intro x hx; have := h x hx; rw [isScalar_iff]; omega
  simp [utf8Encode, hs, flatMap_encC_ascii s h]

theorem unqRuns_ascii (dec : Bytes → Str) (acc s : Str) (h : ∀ x ∈ s, x < 128) :
    unqRuns dec acc s = dec (unq (acc ++ s)) := by
  induction s generalizing acc with
  | nil => simp [unqRuns]
  | cons c s ih =>
    rw [unqRuns, if_pos (h c (by simp)), ih _ (fun y hy => h y (by simp [hy]))]
    simp

theorem unquoteStr_ascii (s : Str) (h : ∀ x ∈ s, x < 128) :
    unquoteStr utf8DecodeReplace s = utf8DecodeReplace (unq s) := by
  unfold unquoteStr
  split
  · rename_i hc
    have : ∀ x ∈ s, x ≠ 37 := by
      intro x hx hx37; subst hx37; simp at hc; exact hc hx
    rw [unq_no_pct s this, utf8DecodeReplace_ascii s h]
  · simpa using unqRuns_ascii utf8DecodeReplace [] s h

theorem encC_lt (c : Nat) (hc : isScalar c = true) : ∀ x ∈ encC c, x < 256 := by
  rw [isScalar_iff] at hc
  unfold encC
  intro x hx
  (repeat' split at hx) <;> simp at hx <;> omega

theorem mem32_encC (c : Nat) : 32 ∈ encC c ↔ c = 32 := by
  unfold encC
  (repeat' split) <;> simp <;> omega

theorem mem32_flatMap_encC (s : Str) : 32 ∈ s.flatMap encC ↔ 32 ∈ s := by
  simp only [List.mem_flatMap]
  constructor
  · rintro ⟨c, hc, h⟩; rw [mem32_encC] at h; subst h; exact hc
  · intro h; exact ⟨32, h, by rw [mem32_encC]⟩

theorem flatMap_encC_lt (s : Str) (hs : s.all isScalar = true) : (s.flatMap encC).all (· < 256) = true := by
  rw [List.all_eq_true]
  intro x hx
  simp only [List.mem_flatMap] at hx
  obtain ⟨c, hc, hx⟩ := hx
  simpa using encC_lt c (List.all_eq_true.mp hs c hc) x hx

/-- quoting text = quoting its UTF-8 bytes -/
theorem urlEscape_str (plus : Bool) (s : Str) (hs : s.all isScalar = true) :
    urlEscape plus (.s s) = urlEscape plus (.b (s.flatMap encC)) := by
  cases plus with
  | false => simp [urlEscape, quote, toBytes, utf8Encode, hs]
  | true =>
    by_cases h : 32 ∈ s
    · have c1 : s.contains 32 = true := by simpa using h
      have c2 : (s.flatMap encC).contains 32 = true := by simpa using (mem32_flatMap_encC s).mpr h
      simp [urlEscape, quotePlus, sbContains, c1, c2, quote, toBytes, utf8Encode, hs, -List.contains_eq_mem]
    · have c1 : s.contains 32 = false := by simpa using h
      have c2 : (s.flatMap encC).contains 32 = false := by
        simpa using fun hh => h ((mem32_flatMap_encC s).mp hh)
      simp [urlEscape, quotePlus, sbContains, c1, c2, quote, toBytes, utf8Encode, hs, -List.contains_eq_mem]


section QS
open Spec (qp qpByte encodeQs joinWith)
/-! ### query strings -/

theorem qpByte_chars (b : Nat) (hb : b < 256) : ∀ x ∈ qpByte b, x < 128 ∧ x ≠ 38 ∧ x ≠ 61 := by
  unfold qpByte
  intro x hx
  split at hx
  · simp at hx; omega
  · split at hx
    · rename_i h; simp at hx; subst hx; have := alwaysSafe_facts x h; omega
    · have h1 := hexDigitU_facts (b / 16) (by omega)
      have h2 := hexDigitU_facts (b % 16) (by omega)
      have g1 : ∀ n, n < 16 → hexDigitU n ≠ 38 ∧ hexDigitU n ≠ 61 := by decide
      have g11 := g1 (b / 16) (by omega)
      have g12 := g1 (b % 16) (by omega)
      simp at hx
      rcases hx with rfl | rfl | rfl <;> omega

theorem qp_chars (bs : Bytes) (hb : bs.all (· < 256) = true) : ∀ x ∈ qp bs, x < 128 ∧ x ≠ 38 ∧ x ≠ 61 := by
  intro x hx
  simp only [qp, List.mem_flatMap] at hx
  obtain ⟨b, hbm, hx⟩ := hx
  exact qpByte_chars b (by simpa using List.all_eq_true.mp hb b hbm) x hx

theorem replace_qpByte (b : Nat) (hb : b < 256) : replaceC 43 [32] (qpByte b) = quoteByte [32] b := by
  unfold qpByte quoteByte
  by_cases h32 : b = 32
  · subst h32; simp [replaceC, alwaysSafe, isAlnum]
  · simp only [h32, if_false]
    by_cases hs : alwaysSafe b = true
    · have := alwaysSafe_facts b hs
      simp [hs, replaceC]; omega
    · have h1 := hexDigitU_facts (b / 16) (by omega)
      have h2 := hexDigitU_facts (b % 16) (by omega)
      simp only [hs, Bool.false_eq_true, if_false, Bool.false_or]
      have : ([32] : List Nat).contains b = false := by simp; omega
      simp only [this, Bool.false_eq_true, if_false]
      apply replaceC_id
      intro x hx; simp at hx; rcases hx with rfl | rfl | rfl <;> omega

theorem replace_qp (bs : Bytes) (hb : bs.all (· < 256) = true) : replaceC 43 [32] (qp bs) = quoteFromBytes [32] bs := by
  induction bs with
  | nil => rfl
  | cons b bs ih =>
    simp only [List.all_cons, Bool.and_eq_true, decide_eq_true_eq] at hb
    simp only [qp, quoteFromBytes, List.flatMap_cons, replaceC_append] at ih ⊢
    rw [replace_qpByte b hb.1, ih (by simpa using hb.2)]

theorem unquoteStr_id_ascii (s : Str) (h : ∀ x ∈ s, x < 128) : unquoteStr (fun b => b) s = unq s := by
  unfold unquoteStr
  split
  · rename_i hc
    have : ∀ x ∈ s, x ≠ 37 := by
      intro x hx hx37; subst hx37; simp at hc; exact hc hx
    rw [unq_no_pct s this]
  · simpa using unqRuns_ascii (fun b => b) [] s h

/-- decoding one form-encoded component gives the bytes back -/
theorem unquoteLatin1Plus_qp (bs : Bytes) (hb : bs.all (· < 256) = true) : unquoteLatin1Plus (qp bs) = bs := by
  unfold unquoteLatin1Plus
  rw [unquoteStr_id_ascii, replace_qp bs hb, unq_quoteFromBytes _ goodSafe_space bs hb]
  rw [replace_qp bs hb]
  intro x hx
  exact (quoteFromBytes_chars _ goodSafe_space bs hb x hx).1

theorem split1_append (sep : Nat) (a b : Str) (h : ∀ x ∈ a, x ≠ sep) : split1 sep (a ++ sep :: b) = some (a, b) := by
  induction a with
  | nil => simp [split1]
  | cons x a ih =>
    have hx := h x (by simp)
    simp only [List.cons_append, split1, hx, if_false, ih (fun y hy => h y (by simp [hy]))]

theorem splitOnC_noSep (sep : Nat) (a : Str) (h : ∀ x ∈ a, x ≠ sep) : splitOnC sep a = [a] := by
  induction a with
  | nil => rfl
  | cons x a ih =>
    have hx := h x (by simp)
    simp only [splitOnC, hx, if_false, ih (fun y hy => h y (by simp [hy]))]

theorem splitOnC_append (sep : Nat) (a b : Str) (h : ∀ x ∈ a, x ≠ sep) :
    splitOnC sep (a ++ sep :: b) = a :: splitOnC sep b := by
  induction a with
  | nil => simp [splitOnC]
  | cons x a ih =>
    have hx := h x (by simp)
    simp only [List.cons_append, splitOnC, hx, if_false, ih (fun y hy => h y (by simp [hy]))]

theorem splitOnC_joinWith (sep : Nat) (items : List Str) (hne : items ≠ [])
    (h : ∀ it ∈ items, ∀ x ∈ it, x ≠ sep) : splitOnC sep (joinWith [sep] items) = items := by
  induction items with
  | nil => exact absurd rfl hne
  | cons it rest ih =>
    cases rest with
    | nil => simp only [joinWith]; exact splitOnC_noSep sep it (h it (by simp))
    | cons it2 rest2 =>
      simp only [joinWith, List.append_assoc, List.singleton_append]
      rw [splitOnC_append sep it _ (h it (by simp)), ih (by simp) (fun i hi => h i (by simp [hi]))]

/-- a pair list of byte strings -/
def BytePairs (pairs : List (Bytes × Bytes)) : Prop :=
  ∀ p ∈ pairs, p.1.all (· < 256) = true ∧ p.2.all (· < 256) = true

def encItem (p : Bytes × Bytes) : Str := qp p.1 ++ [61] ++ qp p.2

theorem encItem_noAmp (p : Bytes × Bytes) (h1 : p.1.all (· < 256) = true) (h2 : p.2.all (· < 256) = true) :
    ∀ x ∈ encItem p, x ≠ 38 := by
  intro x hx
  simp only [encItem, List.mem_append, List.mem_cons, List.mem_nil_iff, or_false] at hx
  rcases hx with (hx | hx) | hx
  · exact (qp_chars _ h1 x hx).2.1
  · omega
  · exact (qp_chars _ h2 x hx).2.1

theorem parseItem_encItem (keep : Bool) (p : Bytes × Bytes) (h1 : p.1.all (· < 256) = true)
    (h2 : p.2.all (· < 256) = true) :
    parseItem keep false (encItem p) = .ok (if !p.2.isEmpty || keep then some p else none) := by
  have hsplit : split1 61 (encItem p) = some (qp p.1, qp p.2) := by
    simp only [encItem, List.append_assoc, List.singleton_append]
    exact split1_append 61 _ _ (fun x hx => (qp_chars _ h1 x hx).2.2)
  have hne : (encItem p).isEmpty = false := by simp [encItem]
  have hv : (qp p.2).isEmpty = p.2.isEmpty := by
    cases hp : p.2 with
    | nil => rfl
    | cons b bs =>
      simp only [qp, List.flatMap_cons, List.isEmpty_cons]
      unfold qpByte; (repeat' split) <;> rfl
  unfold parseItem
  simp only [hne, Bool.false_and, Bool.false_eq_true, if_false, hsplit, hv]
  split
  · simp [unquoteLatin1Plus_qp _ h1, unquoteLatin1Plus_qp _ h2]
  · rfl

theorem parseItems_map (keep : Bool) (pairs : List (Bytes × Bytes)) (h : BytePairs pairs) :
    parseItems keep false (pairs.map encItem) = .ok (pairs.filter (fun p => !p.2.isEmpty || keep)) := by
  induction pairs with
  | nil => rfl
  | cons p rest ih =>
    have hp := h p (by simp)
    have ih' := ih (fun q hq => h q (by simp [hq]))
    simp only [List.map_cons, parseItems, parseItem_encItem keep p hp.1 hp.2, ih', List.filter_cons]
    by_cases hc : (!p.2.isEmpty || keep) = true
    · simp only [hc, if_true]
    · simp [hc]

theorem encodeQs_eq (pairs : List (Bytes × Bytes)) : encodeQs pairs = joinWith [38] (pairs.map encItem) := rfl

theorem parseQsl_encodeQs (keep : Bool) (pairs : List (Bytes × Bytes)) (h : BytePairs pairs) :
    parseQsl keep false (encodeQs pairs) = .ok (pairs.filter (fun p => !p.2.isEmpty || keep)) := by
  cases pairs with
  | nil => rfl
  | cons p rest =>
    have hne : (encodeQs (p :: rest)).isEmpty = false := by
      rw [encodeQs_eq]
      cases rest with
      | nil => simp [joinWith, encItem]
      | cons q r => simp [joinWith, encItem]
    unfold parseQsl
    simp only [hne, Bool.false_eq_true, if_false]
    rw [encodeQs_eq, splitOnC_joinWith 38 _ (by simp)]
    · exact parseItems_map keep (p :: rest) h
    · intro it hit
      simp only [List.mem_map] at hit
      obtain ⟨q, hq, rfl⟩ := hit
      exact encItem_noAmp q (h q hq).1 (h q hq).2

theorem dictAppend_vals (P : Str → Prop) (k v : Str) (hv : P v) (d : List (Str × List Str))
    (hd : ∀ kv ∈ d, ∀ x ∈ kv.2, P x) : ∀ kv ∈ dictAppend k v d, ∀ x ∈ kv.2, P x := by
  induction d with
  | nil => intro kv hkv x hx; simp [dictAppend] at hkv; subst hkv; simp at hx; subst hx; exact hv
  | cons e rest ih =>
    obtain ⟨k', vs⟩ := e
    intro kv hkv x hx
    simp only [dictAppend] at hkv
    split at hkv
    · simp only [List.mem_cons] at hkv
      rcases hkv with rfl | hkv
      · simp only [List.mem_append, List.mem_cons, List.mem_nil_iff, or_false] at hx
        rcases hx with hx | rfl
        · exact hd (k', vs) (by simp) x hx
        · exact hv
      · exact hd kv (by simp [hkv]) x hx
    · simp only [List.mem_cons] at hkv
      rcases hkv with rfl | hkv
      · exact hd (k', vs) (by simp) x hx
      · exact ih (fun kv' h' => hd kv' (by simp [h'])) kv hkv x hx

theorem foldl_dictAppend_vals (P : Str → Prop) (ps : List (Str × Str)) (hp : ∀ p ∈ ps, P p.2)
    (d : List (Str × List Str)) (hd : ∀ kv ∈ d, ∀ x ∈ kv.2, P x) :
    ∀ kv ∈ ps.foldl (fun d p => dictAppend p.1 p.2 d) d, ∀ x ∈ kv.2, P x := by
  induction ps generalizing d with
  | nil => exact hd
  | cons p rest ih =>
    simp only [List.foldl_cons]
    exact ih (fun q hq => hp q (by simp [hq])) _ (dictAppend_vals P p.1 p.2 (hp p (by simp)) d hd)

theorem groupPairs_latin1 (ps : List (Bytes × Bytes)) (h : ∀ p ∈ ps, p.2.all (· < 256) = true) :
    (groupPairs ps).all (fun kv => kv.2.all isLatin1) = true := by
  have := foldl_dictAppend_vals (fun v => isLatin1 v = true) ps (by intro p hp; exact h p hp) [] (by simp)
  rw [List.all_eq_true]
  intro kv hkv
  rw [List.all_eq_true]
  intro x hx
  exact this kv hkv x hx


end QS

end TornadoModel.C21
