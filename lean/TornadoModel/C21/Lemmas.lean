import TornadoModel.C21.Spec
namespace TornadoModel.C21
end TornadoModel.C21
