/-
C21 — specification side: what the property demands of the helpers' *outputs* (core Lean only).
Everything here is executable through the driver and is applied by the harness to the real outputs.
-/
import TornadoModel.C21.Model
namespace TornadoModel.C21.Spec
open TornadoModel.C21

/-- the five entities `html.escape` may introduce, as text after the `&` -/
def entityBodies : List Str :=
  [[97, 109, 112, 59], [108, 116, 59], [103, 116, 59], [113, 117, 111, 116, 59], [35, 120, 50, 55, 59]]

def startsWith : Str → Str → Bool
  | [], _ => true
  | _ :: _, [] => false
  | a :: p, b :: s => a = b && startsWith p s

/-- escaped text: no `<`, `>`, `"`, `'`, and every `&` starts one of the five introduced entities -/
def escapeSafe : Str → Bool
  | [] => true
  | c :: cs =>
    (c != 60 && c != 62 && c != 34 && c != 39)
      && (c != 38 || entityBodies.any (fun e => startsWith e cs))
      && escapeSafe cs

/-- does `s` contain the two-character sequence `a b`? -/
def hasSub2 (a b : Nat) : Str → Bool
  | [] => false
  | c :: cs => (c = a && (match cs with | d :: _ => d = b | [] => false)) || hasSub2 a b cs

/-- JSON output must not contain `</` -/
def noCloseTag (s : Str) : Bool := !hasSub2 60 47 s

/-- form-encoding of one byte (`quote_plus`) -/
def qpByte (b : Nat) : Str :=
  if b = 32 then [43] else if alwaysSafe b then [b] else [37, hexDigitU (b / 16), hexDigitU (b % 16)]
def qp (bs : Bytes) : Str := bs.flatMap qpByte

def joinWith (sep : Str) : List Str → Str
  | [] => []
  | [w] => w
  | w :: ws => w ++ sep ++ joinWith sep ws

/-- `urlencode`-style encoder for byte pairs: `name=value&name=value…` -/
def encodeQs (pairs : List (Bytes × Bytes)) : Str :=
  joinWith [38] (pairs.map (fun p => qp p.1 ++ [61] ++ qp p.2))

/-- the dict a lossless query parser must return: keys in order of first occurrence, each with all of its
values in order -/
def group (pairs : List (Bytes × Bytes)) : List (Bytes × List Bytes) :=
  (pairs.map (·.1)).eraseDups.map (fun k => (k, (pairs.filter (fun p => p.1 = k)).map (·.2)))

def isByteString (b : Bytes) : Bool := b.all (· < 256)

end TornadoModel.C21.Spec
