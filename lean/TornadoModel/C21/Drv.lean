/- C21 driver: line-protocol access to the model and the specification predicates -/
import TornadoModel.Base.Wire
import TornadoModel.C21.Spec
namespace TornadoModel.C21.Drv
open TornadoModel TornadoModel.Wire TornadoModel.C21

def decSB : V → Option SB
  | .str s => some (.s (s.toList.map Char.toNat))
  | .bytes b => some (.b (b.map UInt8.toNat))
  | .list l => (l.mapM V.nat?).map SB.s
  | _ => none

def encErr : Err → V
  | .encodeError => .atom "UnicodeEncodeError"
  | .decodeError => .atom "UnicodeDecodeError"
  | .valueError => .atom "ValueError"
  | .typeError => .atom "TypeError"

def encStrE : Except Err Str → V
  | .ok s => V.ofCps s
  | .error e => encErr e
def encBytesE : Except Err Bytes → V
  | .ok s => V.ofByteNats s
  | .error e => encErr e

def decPyVal : V → Option PyVal
  | .none => some .none
  | .str s => some (.str (s.toList.map Char.toNat))
  | .bytes b => some (.bytes (b.map UInt8.toNat))
  | .list l => (l.mapM V.nat?).map PyVal.str
  | .atom _ => some .other
  | _ => none

def encPyValE : Except Err PyVal → V
  | .ok .none => .none
  | .ok (.str s) => V.ofCps s
  | .ok (.bytes b) => V.ofByteNats b
  | .ok .other => .atom "other"
  | .error e => encErr e

def decTable (v : V) : Option (List (Str × Str)) := do
  let l ← v.list?
  l.mapM (fun e => do
    let p ← e.list?
    match p with
    | [k, x] => pure ((← k.cps?), (← x.cps?))
    | _ => none)

def decPairs (v : V) : Option (List (Bytes × Bytes)) := do
  let l ← v.list?
  l.mapM (fun e => do
    let p ← e.list?
    match p with
    | [k, x] => pure ((← k.byteNats?), (← x.byteNats?))
    | _ => none)

def encDict (d : List (Str × List Bytes)) : V :=
  .list (d.map (fun kv => .list [V.ofCps kv.1, .list (kv.2.map V.ofByteNats)]))

def handle (toks : List String) : String :=
  match toks.mapM V.parse with
  | none => err "bad-arg"
  | some args =>
    match args with
    | [.atom "escape", a] => match decSB a with
      | some v => ok [encStrE (xhtmlEscapeSB v)]
      | none => err "bad-arg"
    | [.atom "unescape", a, t] => match decSB a, decTable t with
      | some v, some tb => ok [encStrE (xhtmlUnescapeSB (tableOf tb) v)]
      | _, _ => err "bad-arg"
    | [.atom "urlescape", p, a] => match p.bool?, decSB a with
      | some plus, some v => ok [encStrE (urlEscape plus v)]
      | _, _ => err "bad-arg"
    | [.atom "urlunescape", p, a] => match p.bool?, decSB a with
      | some plus, some v => ok [encStrE (urlUnescape plus v)]
      | _, _ => err "bad-arg"
    | [.atom "urlunescapeb", p, a] => match p.bool?, decSB a with
      | some plus, some v => ok [encBytesE (urlUnescapeBytes plus v)]
      | _, _ => err "bad-arg"
    | [.atom "json", a] => match a.cps? with
      | some s => ok [V.ofCps (jsonEscapeSlash s)]
      | none => err "bad-arg"
    | [.atom "utf8", a] => match decPyVal a with
      | some v => ok [encPyValE (utf8 v)]
      | none => err "bad-arg"
    | [.atom "tounicode", a] => match decPyVal a with
      | some v => ok [encPyValE (toUnicode v)]
      | none => err "bad-arg"
    | [.atom "decodeReplace", a] => match a.byteNats? with
      | some b => ok [V.ofCps (utf8DecodeReplace b)]
      | none => err "bad-arg"
    | [.atom "qs", k, s, a] => match k.bool?, s.bool?, decSB a with
      | some keep, some strict, some v =>
        let qs := match v with | .s x => x | .b x => x
        match parseQsBytes keep strict qs with
        | .ok d => ok [encDict d]
        | .error e => ok [encErr e]
      | _, _, _ => err "bad-arg"
    -- specification side
    | [.atom "escapeSafe", a] => match a.cps? with
      | some s => ok [V.ofBool (Spec.escapeSafe s)]
      | none => err "bad-arg"
    | [.atom "noCloseTag", a] => match a.cps? with
      | some s => ok [V.ofBool (Spec.noCloseTag s)]
      | none => err "bad-arg"
    | [.atom "encodeQs", a] => match decPairs a with
      | some ps => ok [V.ofCps (Spec.encodeQs ps)]
      | none => err "bad-arg"
    | [.atom "group", a] => match decPairs a with
      | some ps => ok [encDict (Spec.group ps)]
      | none => err "bad-arg"
    | _ => err "bad-cmd"

end TornadoModel.C21.Drv
