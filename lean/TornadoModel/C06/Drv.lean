/- C06 driver: `C06 run|spec [op,…]`, `C06 parse <text>`, `C06 copy [op,…]`, `C06 normalize <name>` -/
import TornadoModel.Base.Wire
import TornadoModel.C06.Spec
namespace TornadoModel.C06.Drv
open TornadoModel TornadoModel.Wire TornadoModel.C06

def decOp (v : V) : Option Op := do
  let l ← v.list?
  match l with
  | [.atom "add", n, x] => pure (.add (← n.cps?) (← x.cps?))
  | [.atom "set", n, x] => pure (.set (← n.cps?) (← x.cps?))
  | [.atom "del", n] => pure (.del (← n.cps?))
  | [.atom "get", n] => pure (.get (← n.cps?))
  | [.atom "getList", n] => pure (.getList (← n.cps?))
  | [.atom "contains", n] => pure (.contains (← n.cps?))
  | [.atom "keys"] => pure .keys
  | [.atom "getAll"] => pure .getAll
  | [.atom "len"] => pure .len
  | [.atom "parseLine", l] => pure (.parseLine (← l.cps?))
  | [.atom "str"] => pure .str
  | _ => none

def encErr : Err → V
  | .httpInput => .atom "HTTPInputError"
  | .keyError => .atom "KeyError"

def encPairs (ps : List (Str × Str)) : V := .list (ps.map (fun (k, v) => .list [V.ofCps k, V.ofCps v]))

def encOut : Out → V
  | .unit => .atom "U"
  | .err e => encErr e
  | .val v => V.ofCps v
  | .vals vs => .list (vs.map V.ofCps)
  | .bool b => V.ofBool b
  | .pairs ps => encPairs ps
  | .nat n => .int n

def handle (toks : List String) : String :=
  match toks with
  | [cmd, arg] =>
    match V.parse arg with
    | none => err "bad-arg"
    | some a =>
      match cmd with
      | "run" => match a.list? >>= (·.mapM decOp) with
        | some ops => ok [.list ((run empty ops).2.map encOut)]
        | none => err "bad-op"
      | "spec" => match a.list? >>= (·.mapM decOp) with
        | some ops => ok [.list ((Spec.run Spec.empty ops).2.map encOut)]
        | none => err "bad-op"
      | "copy" => match a.list? >>= (·.mapM decOp) with
        | some ops =>
          match copy (run empty ops).1 with
          | .ok c => ok [encPairs (getAll c)]
          | .error e => ok [encErr e]
        | none => err "bad-op"
      -- `copyrun [[op…],[after…],[after2…],via,target]`: copy the state after `ops` (`via` = ctor: the copy
      -- constructor; deep: deepcopy/pickle = the identical state), run `after` on `target` (copy|orig) and THEN
      -- `after2` on the other object → [pairs of the copy, outputs of after, outputs of after2]
      | "copyrun" => match a.list? with
        | some [o, af, af2, .atom via, .atom tgt] =>
          match o.list? >>= (·.mapM decOp), af.list? >>= (·.mapM decOp), af2.list? >>= (·.mapM decOp) with
          | some ops, some after, some after2 =>
            let h := (run empty ops).1
            match (if via == "deep" then Except.ok h else copy h) with
            | .error e => ok [encErr e]
            | .ok c =>
              let t := if tgt == "copy" then c else h
              let o := if tgt == "copy" then h else c
              ok [encPairs (getAll c), .list ((run t after).2.map encOut), .list ((run o after2).2.map encOut)]
          | _, _, _ => err "bad-op"
        | _ => err "bad-arg"
      | "speccopyrun" => match a.list? with
        | some [o, af, af2, .atom via, .atom tgt] =>
          match o.list? >>= (·.mapM decOp), af.list? >>= (·.mapM decOp), af2.list? >>= (·.mapM decOp) with
          | some ops, some after, some after2 =>
            let m := (Spec.run Spec.empty ops).1
            let c := if via == "deep" then m else Spec.copy m
            let t := if tgt == "copy" then c else m
            let o := if tgt == "copy" then m else c
            ok [encPairs (Spec.getAll c), .list ((Spec.run t after).2.map encOut), .list ((Spec.run o after2).2.map encOut)]
          | _, _, _ => err "bad-op"
        | _ => err "bad-arg"
      | "parse" => match a.cps? with
        | some t => match parse t with
          | .ok h => ok [encPairs (getAll h)]
          | .error e => ok [encErr e]
        | none => err "bad-arg"
      -- `HTTPHeaders.parse(text, _chars_are_bytes=False)` (multipart/form-data part headers)
      | "parseU" => match a.cps? with
        | some t => match parse t false with
          | .ok h => ok [encPairs (getAll h)]
          | .error e => ok [encErr e]
        | none => err "bad-arg"
      | "normalize" => match a.cps? with
        | some t => ok [V.ofCps (normalize t)]
        | none => err "bad-arg"
      | _ => err "bad-cmd"
  | _ => err "bad-line"

end TornadoModel.C06.Drv
