import TornadoModel.C06.Roundtrip
/-!
"Any name reported present can be deleted" — helper lemmas for the run-level theorems in `Props.lean`.

`Reported h n`: SOME public read API reports the name `n` as present — membership (`n in h`), iteration
(`n in list(h)`), `get_all()` (a pair with that name), `get_list(n)` non-empty, or `h[n]` returning a value
(this one reads the combined-value cache first, so it depends on the cache being sound).
None of this is definitional: `keys`/`get_all` need the "stored keys are normalised" invariant, `h[n]` needs
cache soundness; both hold only in reachable states.
-/
namespace TornadoModel.C06
open TornadoModel.C06.Norm

def Reported (h : Headers) (n : Str) : Prop :=
  contains h n = true ∨ n ∈ keys h ∨ (∃ v, (n, v) ∈ getAll h) ∨ getList h n ≠ [] ∨
    (∃ v h', getItem h n = .ok (v, h'))

theorem dhas_of_mem_fst {β} (l : List (Str × β)) (e : Str × β) (he : e ∈ l) : dhas e.1 l = true := by
  unfold dhas
  cases hg : dget e.1 l with
  | some v => rfl
  | none =>
    exfalso
    exact not_mem_of_dget_none _ _ hg (by simp only [dkeys, List.mem_map]; exact ⟨e, he, rfl⟩)

/-- in a state related to a multimap (⇐ reachable), whatever API reports the name, the entry exists -/
theorem reported_has {h : Headers} {m : Spec.M} (r : R h m) (n : Str) (hr : Reported h n) :
    dhas (normalize n) h.asList = true := by
  rcases hr with hc | hk | ⟨v, hp⟩ | hl | ⟨v, h', hg⟩
  · exact hc
  · simp only [keys, List.mem_map] at hk
    obtain ⟨e, he, rfl⟩ := hk
    rw [r.normed e he]
    exact dhas_of_mem_fst _ e he
  · simp only [getAll, List.mem_flatMap, List.mem_map] at hp
    obtain ⟨e, he, w, _, hw⟩ := hp
    have : e.1 = n := by cases hw; rfl
    subst this
    rw [r.normed e he]
    exact dhas_of_mem_fst _ e he
  · unfold getList at hl
    unfold dhas
    cases hg : dget (normalize n) h.asList with
    | some vs => rfl
    | none => simp [hg] at hl
  · unfold getItem at hg
    unfold dhas
    cases hc : dget (normalize n) h.cache with
    | some v' =>
      obtain ⟨vs, h1, _⟩ := r.cache _ _ hc
      simp [h1]
    | none =>
      cases ha : dget (normalize n) h.asList with
      | some vs => rfl
      | none => simp [hc, ha] at hg

/-- conversely an existing entry is reported by membership (so all five reports agree on reachable states) -/
theorem has_reported (h : Headers) (n : Str) (hh : dhas (normalize n) h.asList = true) : Reported h n :=
  Or.inl hh

theorem getItem_err (h : Headers) (n : Str) (e : Err) (hg : getItem h n = .error e) : e = .keyError := by
  unfold getItem at hg
  cases hc : dget (normalize n) h.cache <;> cases ha : dget (normalize n) h.asList <;> simp [hc, ha] at hg
  exact hg.symm

theorem run_append (h : Headers) (a b : List Op) :
    run h (a ++ b) = ((run (run h a).1 b).1, (run h a).2 ++ (run (run h a).1 b).2) := by
  induction a generalizing h with
  | nil => simp [run]
  | cons op a ih =>
    simp only [List.cons_append, run]
    rw [ih]

/-- the `__delitem__` of the code BEFORE the fix (`del self._combined_cache[n]; del self._as_list[n]`):
    only used to show that the present⇒deletable statement discriminates. -/
def delItemPreFix (h : Headers) (name : Str) : Except Err Headers :=
  let n := normalize name
  if dhas n h.cache && dhas n h.asList then .ok { h with cache := ddel n h.cache, asList := ddel n h.asList }
  else .error .keyError

end TornadoModel.C06
