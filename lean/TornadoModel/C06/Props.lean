import TornadoModel.C06.Roundtrip
/-!
C06 — property theorems: HTTP header maps behave as a case-insensitive insertion-ordered multimap.
Only property theorems and non-vacuity examples live here; helper lemmas are in `Lemmas`, `Norm`, `Refine`.
`run empty ops` is the state/outputs of the implementation model after an arbitrary operation history,
`Spec.run Spec.empty ops` the same history on the multimap specification (`Spec.lean`).
-/
namespace TornadoModel.C06

/-- `_normalize_header` is idempotent: stored keys are fixed points. -/
theorem normalize_idem (s : Str) : normalize (normalize s) = normalize s := Norm.normalize_idem s

/-- the stored key depends only on the ASCII-lower-cased name -/
theorem normalize_lower (s : Str) : normalize (s.map lowerC) = normalize s := Norm.normalize_lower s

/-- **Case-insensitive keying**: two names address the same entry iff they are equal up to ASCII case. -/
theorem normalize_eq_iff_lower_eq (a b : Str) :
    normalize a = normalize b ↔ a.map lowerC = b.map lowerC := Norm.normalize_eq_iff_lower_eq a b

/-- **Stored key, closed form, for every name** (letters, digits, `_ . ! ~ ' …` alike): `_normalize_header`
    upper-cases exactly the first character of each `-`-separated word and lower-cases all others, so e.g.
    `P3P`, `p3p` ↦ `P3p` and `X_Forwarded_For` ↦ `X_forwarded_for` — a letter after a non-letter other than `-`
    is never kept in upper case. -/
theorem normalize_eq_headerCase (s : Str) : normalize s = Spec.headerCase true s :=
  (Norm.normalize_headerCase_aux s).1

/-- all spellings of a name — in particular its upper-, lower- and header-cased forms — address one key -/
theorem normalize_case_variants (s : Str) :
    normalize (s.map upperC) = normalize s ∧ normalize (Spec.headerCase true s) = normalize s := by
  refine ⟨?_, ?_⟩
  · rw [Norm.normalize_eq_iff_lower_eq]; simp [List.map_map, Function.comp_def, lowerC_upperC]
  · rw [← normalize_eq_headerCase, Norm.normalize_idem]

/-- **Cache soundness, one step**: if every cached combined value equals the comma-join of the current value
    list (and the state is related to some multimap), the same holds after any operation. -/
theorem cache_sound_step (h : Headers) (m : Spec.M) (r : R h m) (op : Op) : CacheSound (step h op).1 :=
  (step_refines r op).2.cache

/-- **Cache soundness, every reachable state**: after any history, a cached combined value is never stale. -/
theorem cache_sound_run (ops : List Op) : CacheSound (run empty ops).1 :=
  (run_refines R_empty ops).2.cache

/-- **Refinement**: for every operation history (add, set, delete, get, get_list, membership, iteration,
    get_all, len, line parsing incl. continuation lines, serialisation) the implementation model produces
    exactly the outputs of the insertion-ordered multimap keyed by lower-cased name — in particular reading a
    name returns its values joined by commas (`Spec.get`). -/
theorem refines_multimap (ops : List Op) : (run empty ops).2 = (Spec.run Spec.empty ops).2 :=
  (run_refines R_empty ops).1

/-- **Present ⇒ deletable**: in every reachable state, a name reported present can be deleted
    (this is the clause the pre-fix code violated: `del` raised `KeyError` from the cache dict). -/
theorem present_deletable (ops : List Op) (n : Str) :
    contains (run empty ops).1 n = true → ∃ h', delItem (run empty ops).1 n = .ok h' := by
  intro hc
  unfold contains at hc
  unfold delItem
  simp [hc]

/-- … and the deletion really removes it, in every reachable state. -/
theorem deleted_absent (ops : List Op) (n : Str) (h' : Headers) :
    delItem (run empty ops).1 n = .ok h' → contains h' n = false := by
  unfold delItem
  intro hd
  simp only at hd
  split at hd
  · cases hd
    simp [contains, dhas, dget_ddel_same]
  · cases hd

/-- **Copy**: in every reachable state whose names/values are ones `add` accepts (they always are unless
    `__setitem__` stored something `add` would reject), the copy constructor succeeds and yields a map with
    exactly the same entries, in the same order.  (Independence of the two objects is an aliasing question the
    immutable model cannot express; it is decided by the correspondence stream.) -/
theorem copy_equal (ops : List Op) (hv : Valid (run empty ops).1.asList) :
    ∃ c, copy (run empty ops).1 = .ok c ∧ c.asList = (run empty ops).1.asList := by
  have r := (run_refines R_empty ops).2
  have w := WF_run WF_empty ops
  obtain ⟨c, h1, h2⟩ := copy_fold (run empty ops).1.asList empty r.normed w.nodup w.nonempty hv
    (by simp [empty, dkeys])
  exact ⟨c, h1, by simpa [empty] using h2⟩

theorem validPairs_getAll (l : List (Str × List Str)) (hv : Valid l) :
    ValidPairs (l.flatMap (fun (k, vs) => vs.map (fun v => (k, v)))) := by
  intro p hp
  simp only [List.mem_flatMap, List.mem_map] at hp
  obtain ⟨e, he, v, hvm, rfl⟩ := hp
  exact ⟨(hv e he).1, (hv e he).2 v hvm⟩

/-- **Serialise-then-parse round trip**: in every reachable state holding only valid names and values,
    `HTTPHeaders.parse(str(h))` succeeds and has exactly the entries of `h`, in the same order. -/
theorem parse_str_roundtrip (ops : List Op) (hv : Valid (run empty ops).1.asList) :
    ∃ p, parse (toStr (run empty ops).1) = .ok p ∧ p.asList = (run empty ops).1.asList := by
  obtain ⟨c, h1, h2⟩ := copy_equal ops hv
  refine ⟨c, ?_, h2⟩
  have hvp : ValidPairs (getAll (run empty ops).1) := validPairs_getAll _ hv
  have hs : toStr (run empty ops).1 = (getAll (run empty ops).1).flatMap lineOf := rfl
  unfold parse
  rw [hs, splitKeepLf_lines _ hvp]
  have := parse_fold _ hvp empty
  rw [show (fun acc l => parseLine acc l true) = (fun a l => parseLine a l) from rfl, this]
  exact h1

/-! non-vacuity: a reachable state with a multi-valued header whose cache entry was dropped -/
example :
    let ops := [Op.add [65] [49], Op.get [65], Op.add [97] [50]]
    contains (run empty ops).1 [65] = true ∧ (run empty ops).1.cache = [] ∧
      (step (run empty ops).1 (.del [65])).2 = .unit := by decide

/-! non-vacuity of `Valid`: a reachable multi-valued, multi-name state satisfies it -/
example : Valid (run empty [Op.add [65] [49], Op.add [97] [50], Op.set [66, 45, 99] [51, 32, 52]]).1.asList := by
  intro e he
  have : (run empty [Op.add [65] [49], Op.add [97] [50], Op.set [66, 45, 99] [51, 32, 52]]).1.asList
      = [([65], [[49], [50]]), ([66, 45, 67], [[51, 32, 52]])] := by decide
  rw [this] at he
  simp at he
  rcases he with rfl | rfl <;> decide

end TornadoModel.C06
