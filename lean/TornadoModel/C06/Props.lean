import TornadoModel.C06.Spec
namespace TornadoModel.C06

theorem normalize_idem_stub : normalize (normalize []) = normalize [] := by decide

end TornadoModel.C06
