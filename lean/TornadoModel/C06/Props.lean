import TornadoModel.C06.Refine
/-!
C06 — property theorems: HTTP header maps behave as a case-insensitive insertion-ordered multimap.
Only property theorems and non-vacuity examples live here; helper lemmas are in `Lemmas`, `Norm`, `Refine`.
`run empty ops` is the state/outputs of the implementation model after an arbitrary operation history,
`Spec.run Spec.empty ops` the same history on the multimap specification (`Spec.lean`).
-/
namespace TornadoModel.C06

/-- `_normalize_header` is idempotent: stored keys are fixed points. -/
theorem normalize_idem (s : Str) : normalize (normalize s) = normalize s := Norm.normalize_idem s

/-- the stored key depends only on the ASCII-lower-cased name -/
theorem normalize_lower (s : Str) : normalize (s.map lowerC) = normalize s := Norm.normalize_lower s

/-- **Case-insensitive keying**: two names address the same entry iff they are equal up to ASCII case. -/
theorem normalize_eq_iff_lower_eq (a b : Str) :
    normalize a = normalize b ↔ a.map lowerC = b.map lowerC := Norm.normalize_eq_iff_lower_eq a b

/-- **Cache soundness, one step**: if every cached combined value equals the comma-join of the current value
    list (and the state is related to some multimap), the same holds after any operation. -/
theorem cache_sound_step (h : Headers) (m : Spec.M) (r : R h m) (op : Op) : CacheSound (step h op).1 :=
  (step_refines r op).2.cache

/-- **Cache soundness, every reachable state**: after any history, a cached combined value is never stale. -/
theorem cache_sound_run (ops : List Op) : CacheSound (run empty ops).1 :=
  (run_refines R_empty ops).2.cache

/-- **Refinement**: for every operation history (add, set, delete, get, get_list, membership, iteration,
    get_all, len, line parsing incl. continuation lines, serialisation) the implementation model produces
    exactly the outputs of the insertion-ordered multimap keyed by lower-cased name — in particular reading a
    name returns its values joined by commas (`Spec.get`). -/
theorem refines_multimap (ops : List Op) : (run empty ops).2 = (Spec.run Spec.empty ops).2 :=
  (run_refines R_empty ops).1

/-- **Present ⇒ deletable**: in every reachable state, a name reported present can be deleted
    (this is the clause the pre-fix code violated: `del` raised `KeyError` from the cache dict). -/
theorem present_deletable (ops : List Op) (n : Str) :
    contains (run empty ops).1 n = true → ∃ h', delItem (run empty ops).1 n = .ok h' := by
  intro hc
  unfold contains at hc
  unfold delItem
  simp [hc]

/-- … and the deletion really removes it, in every reachable state. -/
theorem deleted_absent (ops : List Op) (n : Str) (h' : Headers) :
    delItem (run empty ops).1 n = .ok h' → contains h' n = false := by
  unfold delItem
  intro hd
  simp only at hd
  split at hd
  · cases hd
    simp [contains, dhas, dget_ddel_same]
  · cases hd

/-! non-vacuity: a reachable state with a multi-valued header whose cache entry was dropped -/
example :
    let ops := [Op.add [65] [49], Op.get [65], Op.add [97] [50]]
    contains (run empty ops).1 [65] = true ∧ (run empty ops).1.cache = [] ∧
      (step (run empty ops).1 (.del [65])).2 = .unit := by decide

end TornadoModel.C06
