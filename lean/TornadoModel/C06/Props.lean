import TornadoModel.C06.Grammar
/-!
C06 — property theorems: HTTP header maps behave as a case-insensitive insertion-ordered multimap.
Only property theorems and non-vacuity examples live here; helper lemmas are in `Lemmas`, `Norm`, `Refine`.
`run empty ops` is the state/outputs of the implementation model after an arbitrary operation history,
`Spec.run Spec.empty ops` the same history on the multimap specification (`Spec.lean`).
-/
namespace TornadoModel.C06

/-- `_normalize_header` is idempotent: stored keys are fixed points. -/
theorem normalize_idem (s : Str) : normalize (normalize s) = normalize s := Norm.normalize_idem s

/-- the stored key depends only on the ASCII-lower-cased name -/
theorem normalize_lower (s : Str) : normalize (s.map lowerC) = normalize s := Norm.normalize_lower s

/-- **Case-insensitive keying**: two names address the same entry iff they are equal up to ASCII case. -/
theorem normalize_eq_iff_lower_eq (a b : Str) :
    normalize a = normalize b ↔ a.map lowerC = b.map lowerC := Norm.normalize_eq_iff_lower_eq a b

/-- **Stored key, closed form, for every name** (letters, digits, `_ . ! ~ ' …` alike): `_normalize_header`
    upper-cases exactly the first character of each `-`-separated word and lower-cases all others, so e.g.
    `P3P`, `p3p` ↦ `P3p` and `X_Forwarded_For` ↦ `X_forwarded_for` — a letter after a non-letter other than `-`
    is never kept in upper case. -/
theorem normalize_eq_headerCase (s : Str) : normalize s = Spec.headerCase true s :=
  (Norm.normalize_headerCase_aux s).1

/-- all spellings of a name — in particular its upper-, lower- and header-cased forms — address one key -/
theorem normalize_case_variants (s : Str) :
    normalize (s.map upperC) = normalize s ∧ normalize (Spec.headerCase true s) = normalize s := by
  refine ⟨?_, ?_⟩
  · rw [Norm.normalize_eq_iff_lower_eq]; simp [List.map_map, Function.comp_def, lowerC_upperC]
  · rw [← normalize_eq_headerCase, Norm.normalize_idem]

/-- **Cache soundness, one step**: if every cached combined value equals the comma-join of the current value
    list (and the state is related to some multimap), the same holds after any operation. -/
theorem cache_sound_step (h : Headers) (m : Spec.M) (r : R h m) (op : Op) : CacheSound (step h op).1 :=
  (step_refines r op).2.cache

/-- **Cache soundness, every reachable state**: after any history, a cached combined value is never stale. -/
theorem cache_sound_run (ops : List Op) : CacheSound (run empty ops).1 :=
  (run_refines R_empty ops).2.cache

/-- **Refinement**: for every operation history (add, set, delete, get, get_list, membership, iteration,
    get_all, len, line parsing incl. continuation lines, serialisation) the implementation model produces
    exactly the outputs of the insertion-ordered multimap keyed by lower-cased name — in particular reading a
    name returns its values joined by commas (`Spec.get`). -/
theorem refines_multimap (ops : List Op) : (run empty ops).2 = (Spec.run Spec.empty ops).2 :=
  (run_refines R_empty ops).1

/-- **Reading a name returns its values joined by commas** — stated on the implementation model alone: after any
    history, whenever `h[n]` returns a value (from the combined-value cache or freshly joined), that value is the
    comma-join of what `get_list(n)` returns at that moment, the list is non-empty, and the read changes nothing that
    `get_list`/`get_all`/iteration can see. -/
theorem get_is_joined_list (ops : List Op) (n v : Str) (h' : Headers)
    (hg : getItem (run empty ops).1 n = .ok (v, h')) :
    v = joinWith [cComma] (getList (run empty ops).1 n) ∧ getList (run empty ops).1 n ≠ [] ∧
      h'.asList = (run empty ops).1.asList := by
  obtain ⟨_, r⟩ := run_refines R_empty ops
  have w := WF_run WF_empty ops
  unfold getItem at hg
  unfold getList
  cases hc : dget (normalize n) (run empty ops).1.cache with
  | some v' =>
    obtain ⟨vs, h1, h2⟩ := r.cache _ _ hc
    simp only [hc] at hg
    cases hg
    simp only [h1, Option.getD_some]
    exact ⟨h2, w.nonempty _ (mem_of_dget _ _ _ h1), trivial⟩
  | none =>
    cases ha : dget (normalize n) (run empty ops).1.asList with
    | some vs =>
      simp only [hc, ha] at hg
      cases hg
      simp only [Option.getD_some]
      exact ⟨trivial, w.nonempty _ (mem_of_dget _ _ _ ha), trivial⟩
    | none => simp [hc, ha] at hg

/-- **Line parsing, field line** (grammar stated from the outside: `field-name ":" OWS field-value OWS`, terminated by
    nothing, LF or CR LF): after any history, parsing such a line is exactly `add(name, value)` — same output, same
    state.  (`AllWs` = only SP/HTAB; `IsEol e` = `e ∈ {"", "\n", "\r\n"}`.) -/
theorem field_line_is_add (ops : List Op) (k v a b e : Str) (hk : isToken k = true) (hv : isFieldValue v = true)
    (ha : AllWs a) (hb : AllWs b) (he : IsEol e) :
    step (run empty ops).1 (.parseLine ((k ++ cColon :: (a ++ v ++ b)) ++ e)) = step (run empty ops).1 (.add k v) := by
  simp only [step, parseLine_field_line _ k v a b e hk hv ha hb he]

/-- **Line parsing, continuation line**: after any history, `add(k, v)` followed by a continuation line
    (`(SP|HTAB)+ text OWS`, terminated by nothing, LF or CR LF) makes `get_list(k)` end in `v + " " + text` (earlier
    values untouched) and `h[k]` return the comma-join of that list — the combined-value cache does not keep the
    value from before the fold. -/
theorem obs_fold_extends_last_value (ops : List Op) (k v a body b e : Str) (hk : isToken k = true)
    (hv : isFieldValue v = true) (ha : AllWs a) (hane : a ≠ []) (hb : AllWs b) (hbody : isFieldValue body = true)
    (he : IsEol e) :
    (run empty (ops ++ [.add k v, .parseLine ((a ++ body ++ b) ++ e), .getList k, .get k])).2
      = (run empty ops).2 ++ [.unit, .unit, .vals (getList (run empty ops).1 k ++ [v ++ cSp :: body]),
          .val (joinWith [cComma] (getList (run empty ops).1 k ++ [v ++ cSp :: body]))] := by
  rw [run_append]
  simp only [List.append_cancel_left_eq]
  obtain ⟨h1, ha1, hl1, hg1⟩ := add_ok_shape (run empty ops).1 k v hk hv
  have hf := parseLine_obs_fold h1 a body b e (normalize k) _ ha hane hb hbody he hl1 hg1
  simp only [List.append_assoc] at hf
  simp [run, step, ha1, hf, getList, getItem, dget_dset_same, dget_ddel_same, appendToLast_snoc]

/-- **Line parsing, field line, character mode** (`_chars_are_bytes=False`, multipart part headers): the value may be
    any text without control characters — code points ≥ 0x100 included; the line is `add(name, value,
    _chars_are_bytes=False)`, which succeeds and appends the value: `get_list(name)` afterwards = before ++ [value]. -/
theorem field_line_is_add_chars (ops : List Op) (k v a b e : Str) (hk : isToken k = true)
    (hv : hasForbidden v = false) (h1 : ∀ c ∈ v.head?, isWs c = false) (h2 : ∀ c ∈ v.reverse.head?, isWs c = false)
    (ha : AllWs a) (hb : AllWs b) (he : IsEol e) :
    ∃ h', parseLine (run empty ops).1 ((k ++ cColon :: (a ++ v ++ b)) ++ e) false = .ok h' ∧
      add (run empty ops).1 k v false = .ok h' ∧ getList h' k = getList (run empty ops).1 k ++ [v] := by
  rw [parseLine_field_line_chars _ k v a b e hk hv h1 h2 ha hb he]
  unfold add getList
  simp only [hk, hv, Bool.not_true, Bool.false_eq_true, if_false, Bool.and_false, Bool.true_and, Bool.false_and,
    Bool.not_false, Bool.and_true]
  cases hg : dget (normalize k) (run empty ops).1.asList with
  | some vs => exact ⟨_, rfl, rfl, by simp [dget_dset_same]⟩
  | none => exact ⟨_, rfl, rfl, by simp [setItem, normalize_idem, dget_dset_same]⟩

/-- **Line parsing, malformed lines**: after any history, a line that is neither a field line nor a continuation
    line (`Malformed`: no colon / the text before the colon is not a token / the value without its surrounding blanks is
    not a field-value), terminated by nothing, LF or CR LF, is rejected with `HTTPInputError` and leaves the map as it
    was. -/
theorem malformed_line_rejected (ops : List Op) (l e : Str) (hm : Malformed l) (he : IsEol e) :
    step (run empty ops).1 (.parseLine (l ++ e)) = ((run empty ops).1, .err .httpInput) := by
  simp only [step, parseLine_malformed _ l e hm he]

/-- **Line parsing, bad continuation lines**: a continuation line whose text is not a field-value is rejected after
    any history, and ANY (non-blank) continuation line is rejected as the first line; the map stays as it was. -/
theorem bad_continuation_rejected (ops : List Op) (a body b e : Str) (ha : AllWs a) (hane : a ≠ []) (hb : AllWs b)
    (h1 : ∀ c ∈ body.head?, isWs c = false) (h2 : ∀ c ∈ body.reverse.head?, isWs c = false)
    (hw : NoEolChar body) (he : IsEol e) :
    (isFieldValue body = false →
      step (run empty ops).1 (.parseLine ((a ++ body ++ b) ++ e)) = ((run empty ops).1, .err .httpInput)) ∧
    step empty (.parseLine ((a ++ body ++ b) ++ e)) = (empty, .err .httpInput) := by
  have hnb : a ++ body ++ b ≠ [] := by
    cases a with
    | nil => exact absurd rfl hane
    | cons c cs => simp
  refine ⟨fun hv => ?_, ?_⟩
  · have : parseLine (run empty ops).1 ((a ++ body ++ b) ++ e) = .error .httpInput := by
      apply parseLine_bad_fold _ a body b e ha hane hb h1 h2 hw he _ hnb
      cases hl : (run empty ops).1.lastKey with
      | none => exact Or.inl rfl
      | some k => exact Or.inr ⟨hv, by simp⟩
    simp only [step, this]
  · have : parseLine empty ((a ++ body ++ b) ++ e) = .error .httpInput :=
      parseLine_bad_fold _ a body b e ha hane hb h1 h2 hw he (Or.inl rfl) hnb
    simp only [step, this]

/-- **Present ⇒ deletable**: in every reachable state, a name reported present can be deleted
    (this is the clause the pre-fix code violated: `del` raised `KeyError` from the cache dict). -/
theorem present_deletable (ops : List Op) (n : Str) :
    contains (run empty ops).1 n = true → ∃ h', delItem (run empty ops).1 n = .ok h' := by
  intro hc
  unfold contains at hc
  unfold delItem
  simp [hc]

/-- … and the deletion really removes it, in every reachable state. -/
theorem deleted_absent (ops : List Op) (n : Str) (h' : Headers) :
    delItem (run empty ops).1 n = .ok h' → contains h' n = false := by
  unfold delItem
  intro hd
  simp only at hd
  split at hd
  · cases hd
    simp [contains, dhas, dget_ddel_same]
  · cases hd

/-- a successful delete from a state related to a multimap lands in a state related to a multimap -/
theorem delItem_related {h : Headers} {m : Spec.M} (r : R h m) (n : Str) (h' : Headers)
    (hd : delItem h n = .ok h') : ∃ m', R h' m' := by
  have := del_refines r n
  rw [hd] at this
  unfold Agree at this
  cases hs : Spec.del m n with
  | ok m' => rw [hs] at this; exact ⟨m', this⟩
  | error e => rw [hs] at this; exact this.elim

/-- **Present ⇒ deletable — every way of reporting, every spelling** (uses reachability: stored keys are
    normalised, the cache is sound).  After any history, if ANY read API reports the name `n` — `n in h`, iteration,
    `get_all()`, a non-empty `get_list(n)`, or `h[n]` returning a value (answered from the combined-value cache
    when one is there) — then `del h[n']` succeeds for every spelling `n'` of the name, and afterwards NO read
    API reports either spelling any more (in particular the cache entry is gone: `h[n]` raises `KeyError`). -/
theorem reported_deletable (ops : List Op) (n n' : Str) (hn : n.map lowerC = n'.map lowerC)
    (hr : Reported (run empty ops).1 n) :
    ∃ h', delItem (run empty ops).1 n' = .ok h' ∧ ¬ Reported h' n ∧ ¬ Reported h' n' := by
  obtain ⟨_, r⟩ := run_refines R_empty ops
  have hh := reported_has r n hr
  have hk : normalize n' = normalize n := (normalize_eq_iff_lower_eq _ _).2 hn.symm
  have hd : delItem (run empty ops).1 n' = .ok { (run empty ops).1 with
      cache := ddel (normalize n') (run empty ops).1.cache, asList := ddel (normalize n') (run empty ops).1.asList } := by
    unfold delItem
    simp only [hk, hh, if_true]
  obtain ⟨m', r'⟩ := delItem_related r n' _ hd
  refine ⟨_, hd, ?_, ?_⟩
  · intro hrep
    have := reported_has r' n hrep
    simp [dhas, hk, dget_ddel_same] at this
  · intro hrep
    have := reported_has r' n' hrep
    simp [dhas, dget_ddel_same] at this

/-- **Present ⇒ deletable, stated on the outputs of a run**: append `n in h`, `del h[n']`, `n in h`, `h[n]` to
    any history (`n'` any spelling of `n`).  The four outputs are `True, None, False, KeyError` or
    `False, KeyError, False, KeyError` — never `True` followed by a failing delete, and a deleted name is gone for
    membership and for the (cached) read alike. -/
theorem present_deletable_run (ops : List Op) (n n' : Str) (hn : n.map lowerC = n'.map lowerC) :
    (run empty (ops ++ [.contains n, .del n', .contains n, .get n])).2
        = (run empty ops).2 ++ [.bool true, .unit, .bool false, .err .keyError] ∨
    (run empty (ops ++ [.contains n, .del n', .contains n, .get n])).2
        = (run empty ops).2 ++ [.bool false, .err .keyError, .bool false, .err .keyError] := by
  obtain ⟨_, r⟩ := run_refines R_empty ops
  have hk : normalize n' = normalize n := (normalize_eq_iff_lower_eq _ _).2 hn.symm
  rw [run_append]
  simp only [List.append_cancel_left_eq]
  cases hc : contains (run empty ops).1 n with
  | true =>
    left
    obtain ⟨h', hd, hnr, _⟩ := reported_deletable ops n n' hn (Or.inl hc)
    have h1 : contains h' n = false := by
      cases hb : contains h' n with
      | false => rfl
      | true => exact (hnr (Or.inl hb)).elim
    have h2 : getItem h' n = .error .keyError := by
      cases hg : getItem h' n with
      | ok p => exact (hnr (Or.inr (Or.inr (Or.inr (Or.inr ⟨p.1, p.2, hg⟩))))).elim
      | error e => rw [getItem_err _ _ _ hg]
    simp [run, step, hc, hd, h1, h2]
  | false =>
    right
    have hd : delItem (run empty ops).1 n' = .error .keyError := by
      unfold delItem
      unfold contains at hc
      simp [hk, hc]
    have h2 : getItem (run empty ops).1 n = .error .keyError := by
      cases hg : getItem (run empty ops).1 n with
      | ok p =>
        have := reported_has r n (Or.inr (Or.inr (Or.inr (Or.inr ⟨p.1, p.2, hg⟩))))
        unfold contains at hc
        rw [hc] at this
        cases this
      | error e => rw [getItem_err _ _ _ hg]
    simp [run, step, hc, hd, h2]

/-- the statement of `reported_deletable` discriminates: with the `__delitem__` of the code before the fix
    (`del self._combined_cache[n]` first) it is FALSE on a reachable state — `add A 1; h["A"]; add a 2` leaves
    `A` present with its cache entry dropped. -/
theorem present_deletable_prefix_refuted :
    ¬ (∀ (ops : List Op) (n : Str), contains (run empty ops).1 n = true →
        ∃ h', delItemPreFix (run empty ops).1 n = .ok h') := by
  intro hall
  obtain ⟨h', hd⟩ := hall [Op.add [65] [49], Op.get [65], Op.add [97] [50]] [65] (by decide)
  have : delItemPreFix (run empty [Op.add [65] [49], Op.get [65], Op.add [97] [50]]).1 [65] = .error .keyError := by
    rfl
  rw [this] at hd
  cases hd

/-- **Copy**: in every reachable state whose names/values are ones `add` accepts (they always are unless
    `__setitem__` stored something `add` would reject), the copy constructor succeeds and yields a map with
    exactly the same entries, in the same order.  (Independence of the two objects is an aliasing question the
    immutable model cannot express; it is decided by the correspondence stream.) -/
theorem copy_equal (ops : List Op) (hv : Valid (run empty ops).1.asList) :
    ∃ c, copy (run empty ops).1 = .ok c ∧ c.asList = (run empty ops).1.asList := by
  have r := (run_refines R_empty ops).2
  have w := WF_run WF_empty ops
  obtain ⟨c, h1, h2⟩ := copy_fold (run empty ops).1.asList empty r.normed w.nodup w.nonempty hv
    (by simp [empty, dkeys])
  exact ⟨c, h1, by simpa [empty] using h2⟩

/-- **A copy is a multimap of its own**: after any history, if the copy constructor succeeds, then EVERY further
    history run on the copy produces exactly the outputs of the multimap copy (`Spec.copy`: a fresh multimap holding the
    same pairs) — the copy's cache and `_last_key` are consistent, whatever the original's were — while every
    further history on the original produces the outputs of the multimap it was.  (That the two Python objects
    share no mutable list is an aliasing fact outside this immutable model: correspondence stream, `copy` cases.) -/
theorem copy_behaves_as_multimap (ops after : List Op) (c : Headers) (hc : copy (run empty ops).1 = .ok c) :
    (run c after).2 = (Spec.run (Spec.copy (Spec.run Spec.empty ops).1) after).2 ∧
    ∀ after2, (run (run empty ops).1 after2).2 = (Spec.run (Spec.run Spec.empty ops).1 after2).2 := by
  obtain ⟨_, r⟩ := run_refines R_empty ops
  exact ⟨(run_refines (copy_related r hc) after).1, fun after2 => (run_refines r after2).1⟩

theorem validPairs_getAll (l : List (Str × List Str)) (hv : Valid l) :
    ValidPairs (l.flatMap (fun (k, vs) => vs.map (fun v => (k, v)))) := by
  intro p hp
  simp only [List.mem_flatMap, List.mem_map] at hp
  obtain ⟨e, he, v, hvm, rfl⟩ := hp
  exact ⟨(hv e he).1, (hv e he).2 v hvm⟩

/-- **Serialise-then-parse round trip**: in every reachable state holding only valid names and values,
    `HTTPHeaders.parse(str(h))` succeeds and has exactly the entries of `h`, in the same order. -/
theorem parse_str_roundtrip (ops : List Op) (hv : Valid (run empty ops).1.asList) :
    ∃ p, parse (toStr (run empty ops).1) = .ok p ∧ p.asList = (run empty ops).1.asList := by
  obtain ⟨c, h1, h2⟩ := copy_equal ops hv
  refine ⟨c, ?_, h2⟩
  have hvp : ValidPairs (getAll (run empty ops).1) := validPairs_getAll _ hv
  have hs : toStr (run empty ops).1 = (getAll (run empty ops).1).flatMap lineOf := rfl
  unfold parse
  rw [hs, splitKeepLf_lines _ hvp]
  have := parse_fold _ hvp empty
  rw [show (fun acc l => parseLine acc l true) = (fun a l => parseLine a l) from rfl, this]
  exact h1

/-! non-vacuity: a reachable state with a multi-valued header whose cache entry was dropped -/
example :
    let ops := [Op.add [65] [49], Op.get [65], Op.add [97] [50]]
    contains (run empty ops).1 [65] = true ∧ (run empty ops).1.cache = [] ∧
      (step (run empty ops).1 (.del [65])).2 = .unit := by decide

/-! non-vacuity of `reported_deletable`: a reachable state where iteration and the cached read report the name
    under the stored spelling, and another spelling is deleted -/
example :
    let h := (run empty [Op.add [97, 45, 98] [49], Op.get [65, 45, 66]]).1
    [65, 45, 66] ∈ keys h ∧ h.cache ≠ [] ∧ Reported h [65, 45, 66] ∧
      [65, 45, 66].map lowerC = [97, 45, 66].map lowerC := by
  refine ⟨by decide, by decide, Or.inr (Or.inl (by decide)), by decide⟩

/-! non-vacuity of `copy_behaves_as_multimap`: a reachable state with a stale-prone cache whose copy succeeds -/
example : ∃ c, copy (run empty [Op.add [65] [49], Op.get [65], Op.add [97] [50], Op.set [66] [51]]).1 = .ok c :=
  ⟨_, rfl⟩

/-! non-vacuity of `get_is_joined_list`: a cached two-value read -/
example : ∃ h', getItem (run empty [Op.add [65] [49], Op.add [97] [50], Op.get [65]]).1 [97] = .ok ([49, 44, 50], h') :=
  ⟨_, rfl⟩

/-! non-vacuity of the line-grammar theorems: `"X-y:\t v w  \r\n"` and the continuation `" \tz \n"` -/
example : isToken [88, 45, 121] = true ∧ isFieldValue [118, 32, 119] = true ∧ AllWs [9, 32] ∧ AllWs [32, 32] ∧
    IsEol [cCr, cLf] ∧ isFieldValue [122] = true ∧ IsEol [cLf] := by
  refine ⟨by decide, by decide, ?_, ?_, Or.inr (Or.inr rfl), by decide, Or.inr (Or.inl rfl)⟩ <;>
    (intro c hc; simp at hc; rcases hc with rfl | rfl <;> decide)

/-! non-vacuity of `Malformed`: `"nocolon"`-like, `"a b: c"`-like and `"a: x\x00"`-like lines -/
example : Malformed [110, 111] ∧ Malformed ([97, 32, 98] ++ cColon :: [32, 99]) ∧
    Malformed ([97] ++ cColon :: ([32] ++ [120, 0] ++ [])) := by
  refine ⟨.noColon _ (by decide) (by intro c hc; simp at hc; subst hc; decide) (by decide) ?_,
    .badName _ _ (by decide) (by intro c hc; simp at hc; subst hc; decide) (by decide) ?_,
    .badValue _ _ _ _ (by decide) ?_ (by intro c hc; simp at hc) (by intro c hc; simp at hc; subst hc; decide)
      (by intro c hc; simp at hc; subst hc; decide) (by decide) ?_⟩
  all_goals (intro c hc; simp [cColon] at hc; rcases hc with rfl | rfl | rfl | rfl | rfl | rfl <;> decide)

/-! non-vacuity of `Valid`: a reachable multi-valued, multi-name state satisfies it -/
example : Valid (run empty [Op.add [65] [49], Op.add [97] [50], Op.set [66, 45, 99] [51, 32, 52]]).1.asList := by
  intro e he
  have : (run empty [Op.add [65] [49], Op.add [97] [50], Op.set [66, 45, 99] [51, 32, 52]]).1.asList
      = [([65], [[49], [50]]), ([66, 45, 67], [[51, 32, 52]])] := by decide
  rw [this] at he
  simp at he
  rcases he with rfl | rfl <;> decide

end TornadoModel.C06
