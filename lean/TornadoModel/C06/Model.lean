/-
C06 — model of `tornado.httputil.HTTPHeaders` (core Lean only).

Anchors: `_normalize_header`, `HTTPHeaders.add/get_list/get_all/parse_line/parse/__setitem__/
__contains__/__getitem__/__delitem__/__len__/__iter__/copy/__str__`, `_ABNF.field_name`,
`_ABNF.field_value`, `_FORBIDDEN_HEADER_CHARS_RE`.

Header text is a list of Unicode code points (`List Nat`, Python `str`); arithmetic on code points
is then plain `Nat` arithmetic, which keeps the proofs within reach of `omega`/`simp`.  Python dicts are insertion-ordered association lists with
unique keys (`dset` keeps the position of an existing key, `ddel` removes it).
-/
namespace TornadoModel.C06

abbrev Str := List Nat

def cDash : Nat := 45   -- '-'
def cColon : Nat := 58  -- ':'
def cComma : Nat := 44  -- ','
def cSp : Nat := 32
def cTab : Nat := 9
def cLf : Nat := 10
def cCr : Nat := 13

/-! ### Python primitives -/

def upperC (c : Nat) : Nat := if 97 ≤ c ∧ c ≤ 122 then c - 32 else c
def lowerC (c : Nat) : Nat := if 65 ≤ c ∧ c ≤ 90 then c + 32 else c

/-- `str.capitalize()` restricted to ASCII letters (names are validated/generated as ASCII). -/
def capitalize : Str → Str
  | [] => []
  | c :: cs => upperC c :: cs.map lowerC

/-- `s.split(sep)` for a one-character separator: always at least one piece. -/
def splitOnC (sep : Nat) : Str → List Str
  | [] => [[]]
  | c :: cs =>
    if c = sep then [] :: splitOnC sep cs
    else match splitOnC sep cs with
      | [] => [[c]]          -- unreachable
      | w :: ws => (c :: w) :: ws

def joinWith (sep : Str) : List Str → Str
  | [] => []
  | [w] => w
  | w :: ws => w ++ sep ++ joinWith sep ws

/-- `_normalize_header` -/
def normalize (name : Str) : Str := joinWith [cDash] ((splitOnC cDash name).map capitalize)

def isAlnum (c : Nat) : Bool := (48 ≤ c && c ≤ 57) || (65 ≤ c && c ≤ 90) || (97 ≤ c && c ≤ 122)

/-- `_ABNF.tchar`: ``[!#$%&'*+\-.^_`|~0-9A-Za-z]`` -/
def isTchar (c : Nat) : Bool :=
  isAlnum c || [33, 35, 36, 37, 38, 39, 42, 43, 45, 46, 94, 95, 96, 124, 126].contains c

/-- `_ABNF.field_name.fullmatch` (= token) -/
def isToken (s : Str) : Bool := !s.isEmpty && s.all isTchar

def isFieldVchar (c : Nat) : Bool := (0x21 ≤ c && c ≤ 0x7E) || (0x80 ≤ c && c ≤ 0xFF)

/-- `_ABNF.field_value.fullmatch`: empty, or vchars with inner SP/HTAB, first and last a vchar. -/
def isFieldValue (s : Str) : Bool :=
  match s with
  | [] => true
  | c :: cs =>
    isFieldVchar c && (c :: cs).all (fun x => isFieldVchar x || x = cSp || x = cTab)
      && isFieldVchar ((c :: cs).getLast?.getD c)

/-- `_FORBIDDEN_HEADER_CHARS_RE.search` -/
def hasForbidden (s : Str) : Bool :=
  s.any (fun c => c ≤ 0x08 || (0x0A ≤ c && c ≤ 0x1F) || c = 0x7F)

def isWs (c : Nat) : Bool := c = cSp || c = cTab
def lstripWs (s : Str) : Str := s.dropWhile isWs
def rstripWs (s : Str) : Str := (s.reverse.dropWhile isWs).reverse
/-- `s.strip(HTTP_WHITESPACE)` -/
def stripWs (s : Str) : Str := rstripWs (lstripWs s)

/-! ### insertion-ordered dict -/

def dget {β} (k : Str) : List (Str × β) → Option β
  | [] => none
  | (k', v) :: r => if k' = k then some v else dget k r

def dset {β} (k : Str) (v : β) : List (Str × β) → List (Str × β)
  | [] => [(k, v)]
  | (k', v') :: r => if k' = k then (k', v) :: r else (k', v') :: dset k v r

/-- `del d[k]` / `d.pop(k, None)`: keys are unique in a Python dict, so removing every entry with the key
    is the same as removing the entry. -/
def ddel {β} (k : Str) : List (Str × β) → List (Str × β)
  | [] => []
  | (k', v') :: r => if k' = k then ddel k r else (k', v') :: ddel k r

def dhas {β} (k : Str) (d : List (Str × β)) : Bool := (dget k d).isSome

/-! ### the object -/

structure Headers where
  asList : List (Str × List Str) := []
  cache : List (Str × Str) := []
  lastKey : Option Str := none
  deriving Repr, BEq, DecidableEq

inductive Err where
  | httpInput   -- HTTPInputError
  | keyError    -- KeyError
  deriving Repr, BEq, DecidableEq

def empty : Headers := {}

/-- `__setitem__` -/
def setItem (h : Headers) (name value : Str) : Headers :=
  let n := normalize name
  { h with cache := dset n value h.cache, asList := dset n [value] h.asList }

/-- `__contains__` -/
def contains (h : Headers) (name : Str) : Bool := dhas (normalize name) h.asList

/-- `add` (`charsAreBytes` = the `_chars_are_bytes` flag) -/
def add (h : Headers) (name value : Str) (charsAreBytes : Bool := true) : Except Err Headers :=
  if !isToken name then .error .httpInput
  else if charsAreBytes && !isFieldValue value then .error .httpInput
  else if !charsAreBytes && hasForbidden value then .error .httpInput
  else
    let n := normalize name
    let h := { h with lastKey := some n }
    match dget n h.asList with
    | some vs => .ok { h with cache := ddel n h.cache, asList := dset n (vs ++ [value]) h.asList }
    | none => .ok (setItem h n value)

/-- `get_list` -/
def getList (h : Headers) (name : Str) : List Str := (dget (normalize name) h.asList).getD []

/-- `get_all` -/
def getAll (h : Headers) : List (Str × Str) :=
  h.asList.flatMap (fun (k, vs) => vs.map (fun v => (k, v)))

/-- `__getitem__`: returns the value and the (cache-updated) object -/
def getItem (h : Headers) (name : Str) : Except Err (Str × Headers) :=
  let n := normalize name
  match dget n h.cache with
  | some v => .ok (v, h)
  | none =>
    match dget n h.asList with
    | some vs => let v := joinWith [cComma] vs; .ok (v, { h with cache := dset n v h.cache })
    | none => .error .keyError

/-- `__delitem__` (after the `fix:` commit: the cache entry is popped if present) -/
def delItem (h : Headers) (name : Str) : Except Err Headers :=
  let n := normalize name
  if dhas n h.asList then .ok { h with cache := ddel n h.cache, asList := ddel n h.asList }
  else .error .keyError

def len (h : Headers) : Nat := h.asList.length
def keys (h : Headers) : List Str := h.asList.map (·.1)

/-- the copy constructor: `for k, v in other.get_all(): self.add(k, v)`.
    (`add` can fail here only if the source holds a name/value `add` would reject.) -/
def copy (h : Headers) : Except Err Headers :=
  (getAll h).foldlM (fun acc (k, v) => add acc k v) empty

/-- `__str__` -/
def toStr (h : Headers) : Str :=
  (getAll h).flatMap (fun (k, v) => k ++ [cColon, cSp] ++ v ++ [cLf])

/-- `re.search(r"\r?\n$", line)` then `line[:m.start()]`: leftmost match; `$` also matches just before a
    final newline, hence the first two cases. -/
def stripEol (line : Str) : Str :=
  match line.reverse with
  | 10 :: 10 :: 13 :: r => r.reverse
  | 10 :: 10 :: r => r.reverse
  | 10 :: 13 :: r => r.reverse
  | 10 :: r => r.reverse
  | _ => line

/-- `line.split(":", 1)` → none when there is no colon -/
def splitColon : Str → Option (Str × Str)
  | [] => none
  | c :: cs => if c = cColon then some ([], cs) else (splitColon cs).map (fun (a, b) => (c :: a, b))

def appendToLast (vs : List Str) (part : Str) : List Str :=
  match vs.reverse with
  | [] => []
  | l :: r => (r.reverse) ++ [l ++ part]

/-- `parse_line` -/
def parseLine (h : Headers) (line0 : Str) (charsAreBytes : Bool := true) : Except Err Headers :=
  let line := stripEol line0
  match line with
  | [] => .ok h
  | c :: _ =>
    if isWs c then
      match h.lastKey with
      | none => .error .httpInput
      | some k =>
        let body := stripWs line
        let newPart := cSp :: body
        if charsAreBytes && !isFieldValue body then .error .httpInput
        else if !charsAreBytes && hasForbidden newPart then .error .httpInput
        else
          match dget k h.asList with
          | none => .error .keyError      -- `_last_key` was deleted meanwhile: Python raises KeyError
          | some vs => .ok { h with asList := dset k (appendToLast vs newPart) h.asList, cache := ddel k h.cache }
    else
      match splitColon line with
      | none => .error .httpInput
      | some (name, value) => add h name (stripWs value) charsAreBytes

/-- split text into lines, each keeping its terminating LF; the last piece has none (may be empty). -/
def splitKeepLf : Str → List Str
  | [] => [[]]
  | c :: cs =>
    if c = cLf then [cLf] :: splitKeepLf cs
    else match splitKeepLf cs with
      | [] => [[c]]
      | w :: ws => (c :: w) :: ws

/-- `HTTPHeaders.parse` -/
def parse (text : Str) (charsAreBytes : Bool := true) : Except Err Headers :=
  (splitKeepLf text).foldlM (fun acc l => parseLine acc l charsAreBytes) empty

/-! ### operations as data (for histories) -/

inductive Op where
  | add (n v : Str)
  | set (n v : Str)
  | del (n : Str)
  | get (n : Str)
  | getList (n : Str)
  | contains (n : Str)
  | keys
  | getAll
  | len
  | parseLine (l : Str)
  | str
  deriving Repr, BEq, DecidableEq

inductive Out where
  | unit
  | err (e : Err)
  | val (v : Str)
  | vals (vs : List Str)
  | bool (b : Bool)
  | pairs (ps : List (Str × Str))
  | nat (n : Nat)
  deriving Repr, BEq, DecidableEq

def step (h : Headers) : Op → Headers × Out
  | .add n v => match add h n v with | .ok h' => (h', .unit) | .error e => (h, .err e)
  | .set n v => (setItem h n v, .unit)
  | .del n => match delItem h n with | .ok h' => (h', .unit) | .error e => (h, .err e)
  | .get n => match getItem h n with | .ok (v, h') => (h', .val v) | .error e => (h, .err e)
  | .getList n => (h, .vals (getList h n))
  | .contains n => (h, .bool (contains h n))
  | .keys => (h, .vals (keys h))
  | .getAll => (h, .pairs (getAll h))
  | .len => (h, .nat (len h))
  | .parseLine l => match parseLine h l with | .ok h' => (h', .unit) | .error e => (h, .err e)
  | .str => (h, .val (toStr h))

def run (h : Headers) : List Op → Headers × List Out
  | [] => (h, [])
  | op :: ops => let (h', o) := step h op; let (h'', os) := run h' ops; (h'', o :: os)

end TornadoModel.C06
