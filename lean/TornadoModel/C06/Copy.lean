import TornadoModel.C06.Refine
/-! Structural invariant (unique keys, non-empty value lists) and the copy constructor. -/
namespace TornadoModel.C06
open TornadoModel.C06.Norm

def dkeys {β} (d : List (Str × β)) : List Str := d.map (·.1)

theorem dget_none_of_not_mem {β} (k : Str) (d : List (Str × β)) (h : k ∉ dkeys d) : dget k d = none := by
  induction d with
  | nil => rfl
  | cons e r ih =>
    obtain ⟨k', v'⟩ := e
    simp [dkeys] at h
    have h1 : ¬ k' = k := fun e => h.1 e.symm
    simp only [dget, h1, if_false]
    exact ih (by simpa [dkeys] using h.2)

theorem not_mem_of_dget_none {β} (k : Str) (d : List (Str × β)) (h : dget k d = none) : k ∉ dkeys d := by
  induction d with
  | nil => simp [dkeys]
  | cons e r ih =>
    obtain ⟨k', v'⟩ := e
    simp only [dget] at h
    by_cases h1 : k' = k
    · simp [h1] at h
    · simp only [h1, if_false] at h
      have := ih h
      simp [dkeys] at this ⊢
      exact ⟨fun e => h1 e.symm, this⟩

theorem dset_absent {β} (k : Str) (v : β) (d : List (Str × β)) (h : k ∉ dkeys d) : dset k v d = d ++ [(k, v)] := by
  induction d with
  | nil => rfl
  | cons e r ih =>
    obtain ⟨k', v'⟩ := e
    simp [dkeys] at h
    have h1 : ¬ k' = k := fun e => h.1 e.symm
    simp only [dset, h1, if_false, List.cons_append]
    rw [ih (by simpa [dkeys] using h.2)]

theorem dset_last {β} (k : Str) (v w : β) (d : List (Str × β)) (h : k ∉ dkeys d) :
    dset k w (d ++ [(k, v)]) = d ++ [(k, w)] := by
  induction d with
  | nil => simp [dset]
  | cons e r ih =>
    obtain ⟨k', v'⟩ := e
    simp [dkeys] at h
    have h1 : ¬ k' = k := fun e => h.1 e.symm
    simp only [List.cons_append, dset, h1, if_false]
    rw [ih (by simpa [dkeys] using h.2)]

theorem dget_last {β} (k : Str) (v : β) (d : List (Str × β)) (h : k ∉ dkeys d) : dget k (d ++ [(k, v)]) = some v := by
  induction d with
  | nil => simp [dget]
  | cons e r ih =>
    obtain ⟨k', v'⟩ := e
    simp [dkeys] at h
    have h1 : ¬ k' = k := fun e => h.1 e.symm
    simp only [List.cons_append, dget, h1, if_false]
    exact ih (by simpa [dkeys] using h.2)

theorem dkeys_dset {β} (k : Str) (v : β) (d : List (Str × β)) :
    dkeys (dset k v d) = if k ∈ dkeys d then dkeys d else dkeys d ++ [k] := by
  induction d with
  | nil => simp [dset, dkeys]
  | cons e r ih =>
    obtain ⟨k', v'⟩ := e
    by_cases h1 : k' = k
    · simp [dset, h1, dkeys]
    · simp only [dset, h1, if_false]
      have h2 : ¬ k = k' := fun e => h1 e.symm
      simp only [dkeys, List.map_cons, List.mem_cons, h2, false_or] at ih ⊢
      rw [ih]
      by_cases hm : k ∈ List.map (fun x => x.fst) r <;> simp [hm]

theorem dkeys_ddel_sub {β} (k : Str) (d : List (Str × β)) : ∀ x ∈ dkeys (ddel k d), x ∈ dkeys d := by
  induction d with
  | nil => simp [ddel, dkeys]
  | cons e r ih =>
    obtain ⟨k', v'⟩ := e
    intro x hx
    by_cases h1 : k' = k
    · simp only [ddel, h1, if_true] at hx
      simp [dkeys]; right; simpa [dkeys] using ih x hx
    · simp only [ddel, h1, if_false] at hx
      simp [dkeys] at hx ⊢
      rcases hx with rfl | hx
      · left; rfl
      · right; simpa [dkeys] using ih x (by simpa [dkeys] using hx)

theorem nodup_ddel {β} (k : Str) (d : List (Str × β)) (h : (dkeys d).Nodup) : (dkeys (ddel k d)).Nodup := by
  induction d with
  | nil => simp [ddel, dkeys]
  | cons e r ih =>
    obtain ⟨k', v'⟩ := e
    simp only [dkeys, List.map_cons, List.nodup_cons] at h
    by_cases h1 : k' = k
    · simp only [ddel, h1, if_true]; exact ih h.2
    · simp only [ddel, h1, if_false, dkeys, List.map_cons, List.nodup_cons]
      exact ⟨fun hm => h.1 (dkeys_ddel_sub k r k' hm), ih h.2⟩

theorem nodup_dset {β} (k : Str) (v : β) (d : List (Str × β)) (h : (dkeys d).Nodup) : (dkeys (dset k v d)).Nodup := by
  rw [dkeys_dset]
  split
  · exact h
  · rename_i hk
    rw [List.nodup_append]
    exact ⟨h, by simp, by intro a ha b hb; simp at hb; subst hb; intro e; exact hk (e ▸ ha)⟩

/-- values stored under `k` after `dset`: either the new value or an old one -/
theorem mem_dset {β} (k : Str) (v : β) (d : List (Str × β)) (e : Str × β) (he : e ∈ dset k v d) : e = (k, v) ∨ e ∈ d := by
  induction d with
  | nil => simp [dset] at he; exact Or.inl he
  | cons e' r ih =>
    obtain ⟨k', v'⟩ := e'
    by_cases h1 : k' = k
    · simp only [dset, h1, if_true, List.mem_cons] at he
      rcases he with rfl | he
      · exact Or.inl rfl
      · exact Or.inr (by simp [he])
    · simp only [dset, h1, if_false, List.mem_cons] at he
      rcases he with rfl | he
      · exact Or.inr (by simp)
      · rcases ih he with h | h
        · exact Or.inl h
        · exact Or.inr (by simp [h])

theorem mem_ddel {β} (k : Str) (d : List (Str × β)) (e : Str × β) (he : e ∈ ddel k d) : e ∈ d := by
  induction d with
  | nil => simp [ddel] at he
  | cons e' r ih =>
    obtain ⟨k', v'⟩ := e'
    by_cases h1 : k' = k
    · simp only [ddel, h1, if_true] at he; simp [ih he]
    · simp only [ddel, h1, if_false, List.mem_cons] at he
      rcases he with rfl | he
      · simp
      · simp [ih he]

theorem mem_of_dget {β} (k : Str) (v : β) (d : List (Str × β)) (h : dget k d = some v) : (k, v) ∈ d := by
  induction d with
  | nil => simp [dget] at h
  | cons e r ih =>
    obtain ⟨k', v'⟩ := e
    by_cases h1 : k' = k
    · simp [dget, h1] at h; simp [h1, h]
    · simp only [dget, h1, if_false] at h; simp [ih h]

/-- structural well-formedness of the value table: unique keys, no empty value list -/
structure WF (h : Headers) : Prop where
  nodup : (dkeys h.asList).Nodup
  nonempty : ∀ e ∈ h.asList, e.2 ≠ []

theorem WF_empty : WF empty := ⟨by simp [empty, dkeys], by simp [empty]⟩

theorem WF_touch {h : Headers} (w : WF h) (k : Str) (vs : List Str) (hvs : vs ≠ []) (c : List (Str × Str)) (lk : Option Str) :
    WF { asList := dset k vs h.asList, cache := c, lastKey := lk } :=
  ⟨nodup_dset _ _ _ w.nodup, by
    intro e he
    rcases mem_dset _ _ _ _ he with rfl | he
    · exact hvs
    · exact w.nonempty e he⟩

theorem appendToLast_ne_nil (vs : List Str) (p : Str) (h : vs ≠ []) : appendToLast vs p ≠ [] := by
  unfold appendToLast
  cases hr : vs.reverse with
  | nil => simp at hr; exact absurd hr h
  | cons l r => simp

theorem WF_add {h h' : Headers} (w : WF h) (n v : Str) (ha : add h n v = .ok h') : WF h' := by
  unfold add at ha
  split at ha
  · cases ha
  · split at ha
    · cases ha
    · split at ha
      · cases ha
      · simp only at ha
        split at ha
        · cases ha; exact WF_touch w _ _ (by simp) _ _
        · cases ha; exact WF_touch w _ _ (by simp) _ _

theorem WF_step {h : Headers} (w : WF h) (op : Op) : WF (step h op).1 := by
  cases op with
  | add n v =>
    simp only [step]
    cases ha : add h n v with
    | error e => exact w
    | ok h' => exact WF_add w n v ha
  | set n v => exact WF_touch w _ _ (by simp) _ _
  | del n =>
    simp only [step]
    cases hd : delItem h n with
    | error e => exact w
    | ok h' =>
      simp only
      unfold delItem at hd
      simp only at hd
      split at hd
      · cases hd
        exact ⟨nodup_ddel _ _ w.nodup, fun e he => w.nonempty e (mem_ddel _ _ _ he)⟩
      · cases hd
  | get n =>
    simp only [step]
    cases hg : getItem h n with
    | error e => exact w
    | ok p =>
      obtain ⟨v, h'⟩ := p
      simp only
      unfold getItem at hg
      simp only at hg
      split at hg
      · cases hg; exact w
      · split at hg
        · cases hg; exact ⟨w.nodup, w.nonempty⟩
        · cases hg
  | getList n => exact w
  | contains n => exact w
  | keys => exact w
  | getAll => exact w
  | len => exact w
  | str => exact w
  | parseLine l =>
    simp only [step]
    cases hp : parseLine h l with
    | error e => exact w
    | ok h' =>
      simp only
      unfold parseLine at hp
      simp only at hp
      split at hp
      · cases hp; exact w
      · split at hp
        · split at hp
          · cases hp
          · split at hp
            · cases hp
            · split at hp
              · cases hp
              · split at hp
                · cases hp
                · rename_i vs hvs
                  cases hp
                  exact WF_touch w _ _ (appendToLast_ne_nil _ _ (w.nonempty _ (mem_of_dget _ _ _ hvs))) _ _
        · split at hp
          · cases hp
          · exact WF_add w _ _ hp

end TornadoModel.C06

namespace TornadoModel.C06
open TornadoModel.C06.Norm

theorem WF_run {h : Headers} (w : WF h) (ops : List Op) : WF (run h ops).1 := by
  induction ops generalizing h with
  | nil => exact w
  | cons op ops ih => simp only [run]; exact ih (WF_step w op)

/-- names are tokens and values are field values (what `add` accepts) -/
def Valid (l : List (Str × List Str)) : Prop :=
  ∀ e ∈ l, isToken e.1 = true ∧ ∀ v ∈ e.2, isFieldValue v = true

theorem add_absent (h : Headers) (n v : Str) (ht : isToken n = true) (hv : isFieldValue v = true)
    (hg : dget (normalize n) h.asList = none) :
    ∃ h', add h n v = .ok h' ∧ h'.asList = h.asList ++ [(normalize n, [v])] := by
  unfold add
  simp only [ht, hv, hg, setItem, normalize_idem]
  refine ⟨_, rfl, ?_⟩
  exact dset_absent _ _ _ (not_mem_of_dget_none _ _ hg)

theorem add_present (h : Headers) (n v : Str) (cur : List Str) (ht : isToken n = true) (hv : isFieldValue v = true)
    (hg : dget (normalize n) h.asList = some cur) :
    ∃ h', add h n v = .ok h' ∧ h'.asList = dset (normalize n) (cur ++ [v]) h.asList := by
  unfold add
  simp only [ht, hv, hg]
  exact ⟨_, rfl, rfl⟩

def addPair (a : Headers) (p : Str × Str) : Except Err Headers := add a p.1 p.2

theorem fold_same_key (k : Str) (hk : normalize k = k) (ht : isToken k = true) (vs : List Str)
    (hvs : ∀ v ∈ vs, isFieldValue v = true) (acc : Headers) (a : List (Str × List Str)) (cur : List Str)
    (hacc : acc.asList = a ++ [(k, cur)]) (hka : k ∉ dkeys a) :
    ∃ c, (vs.map (fun v => (k, v))).foldlM addPair acc = .ok c ∧ c.asList = a ++ [(k, cur ++ vs)] := by
  induction vs generalizing acc cur with
  | nil => exact ⟨acc, rfl, by simp [hacc]⟩
  | cons v vs ih =>
    have hg : dget (normalize k) acc.asList = some cur := by rw [hk, hacc]; exact dget_last _ _ _ hka
    obtain ⟨h', h1, h2⟩ := add_present acc k v cur ht (hvs v (by simp)) hg
    rw [hk, hacc, dset_last _ _ _ _ hka] at h2
    obtain ⟨c, hc1, hc2⟩ := ih (fun x hx => hvs x (by simp [hx])) h' (cur ++ [v]) h2
    refine ⟨c, ?_, by rw [hc2]; simp⟩
    simp only [List.map_cons, List.foldlM_cons, addPair, h1]
    exact hc1

theorem copy_fold (l : List (Str × List Str)) (acc : Headers)
    (hn : KeysNormed l) (hd : (dkeys l).Nodup) (hne : ∀ e ∈ l, e.2 ≠ []) (hv : Valid l)
    (hdis : ∀ k ∈ dkeys l, k ∉ dkeys acc.asList) :
    ∃ c, (l.flatMap (fun (k, vs) => vs.map (fun v => (k, v)))).foldlM addPair acc = .ok c
      ∧ c.asList = acc.asList ++ l := by
  induction l generalizing acc with
  | nil => exact ⟨acc, rfl, by simp⟩
  | cons e r ih =>
    obtain ⟨k, vs⟩ := e
    have hk : normalize k = k := hn (k, vs) (by simp)
    obtain ⟨ht, hvv⟩ := hv (k, vs) (by simp)
    simp only at ht hvv
    cases vs with
    | nil => exact absurd rfl (hne (k, []) (by simp))
    | cons v vs =>
      have hkacc : k ∉ dkeys acc.asList := hdis k (by simp [dkeys])
      have hg : dget (normalize k) acc.asList = none := by rw [hk]; exact dget_none_of_not_mem _ _ hkacc
      obtain ⟨h1, ha1, ha2⟩ := add_absent acc k v ht (hvv v (by simp)) hg
      rw [hk] at ha2
      obtain ⟨h2, hb1, hb2⟩ := fold_same_key k hk ht vs (fun x hx => hvv x (by simp [hx])) h1 acc.asList [v] ha2 hkacc
      simp only [dkeys, List.map_cons, List.nodup_cons] at hd
      have hdis2 : ∀ k' ∈ dkeys r, k' ∉ dkeys h2.asList := by
        intro k' hk'
        rw [hb2]
        simp only [dkeys, List.map_append, List.map_cons, List.map_nil, List.mem_append, List.mem_singleton, not_or]
        refine ⟨hdis k' (by simp [dkeys] at hk' ⊢; exact Or.inr hk'), ?_⟩
        intro e; subst e; exact hd.1 hk'
      obtain ⟨c, hc1, hc2⟩ := ih h2 (fun e he => hn e (by simp [he])) hd.2 (fun e he => hne e (by simp [he]))
        (fun e he => hv e (by simp [he])) hdis2
      refine ⟨c, ?_, by rw [hc2, hb2]; simp⟩
      simp only [List.flatMap_cons, List.map_cons, List.foldlM_append, List.foldlM_cons, addPair, ha1]
      simp only [bind, Except.bind]
      rw [hb1]
      exact hc1

end TornadoModel.C06
