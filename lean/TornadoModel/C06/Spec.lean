/-
C06 — the specification: an insertion-ordered multimap keyed by the ASCII-lower-cased field name.
No cache, no normalised keys: names are *displayed* through `normalize`, which depends only on the key.
-/
import TornadoModel.C06.Model
namespace TornadoModel.C06.Spec
open TornadoModel.C06

def key (n : Str) : Str := n.map lowerC

/-- the display form of a field name, character by character ("Http-Header-Case"): a character is upper-cased
    iff it is the first one or directly follows a `-`; every other character is lower-cased — in particular a
    letter after a digit, `_`, `.`, `!`, `~`, `'` … is LOWER case (`P3p`, `X_forwarded_for`, `File.name`).
    `start` = "the previous character was a `-` (or there is none)". -/
def headerCase (start : Bool) : Str → Str
  | [] => []
  | c :: cs =>
    if c = cDash then cDash :: headerCase true cs
    else (if start then upperC c else lowerC c) :: headerCase false cs

structure M where
  entries : List (Str × List Str) := []   -- key ↦ values; order = first insertion of the key
  last : Option Str := none               -- key of the last added field line (for obs-fold)
  deriving Repr, BEq, DecidableEq

def empty : M := {}

def addRaw (m : M) (n v : Str) : M :=
  let k := key n
  match dget k m.entries with
  | some vs => { entries := dset k (vs ++ [v]) m.entries, last := some k }
  | none => { entries := dset k [v] m.entries, last := some k }

def add (m : M) (n v : Str) : Except Err M :=
  if !isToken n || !isFieldValue v then .error .httpInput else .ok (addRaw m n v)

def set (m : M) (n v : Str) : M := { m with entries := dset (key n) [v] m.entries }

def del (m : M) (n : Str) : Except Err M :=
  if dhas (key n) m.entries then .ok { m with entries := ddel (key n) m.entries } else .error .keyError

def get (m : M) (n : Str) : Except Err Str :=
  match dget (key n) m.entries with
  | some vs => .ok (joinWith [cComma] vs)
  | none => .error .keyError

def getList (m : M) (n : Str) : List Str := (dget (key n) m.entries).getD []
def contains (m : M) (n : Str) : Bool := dhas (key n) m.entries
def keys (m : M) : List Str := m.entries.map (fun e => normalize e.1)
def getAll (m : M) : List (Str × Str) :=
  m.entries.flatMap (fun (k, vs) => vs.map (fun v => (normalize k, v)))
def len (m : M) : Nat := m.entries.length
def toStr (m : M) : Str := (getAll m).flatMap (fun (k, v) => k ++ [cColon, cSp] ++ v ++ [cLf])

def parseLine (m : M) (line0 : Str) : Except Err M :=
  let line := stripEol line0
  match line with
  | [] => .ok m
  | c :: _ =>
    if isWs c then
      match m.last with
      | none => .error .httpInput
      | some k =>
        let body := stripWs line
        if !isFieldValue body then .error .httpInput
        else match dget k m.entries with
          | none => .error .keyError
          | some vs => .ok { m with entries := dset k (appendToLast vs (cSp :: body)) m.entries }
    else
      match splitColon line with
      | none => .error .httpInput
      | some (name, value) => add m name (stripWs value)

def step (m : M) : Op → M × Out
  | .add n v => match add m n v with | .ok m' => (m', .unit) | .error e => (m, .err e)
  | .set n v => (set m n v, .unit)
  | .del n => match del m n with | .ok m' => (m', .unit) | .error e => (m, .err e)
  | .get n => match get m n with | .ok v => (m, .val v) | .error e => (m, .err e)
  | .getList n => (m, .vals (getList m n))
  | .contains n => (m, .bool (contains m n))
  | .keys => (m, .vals (keys m))
  | .getAll => (m, .pairs (getAll m))
  | .len => (m, .nat (len m))
  | .parseLine l => match parseLine m l with | .ok m' => (m', .unit) | .error e => (m, .err e)
  | .str => (m, .val (toStr m))

def run (m : M) : List Op → M × List Out
  | [] => (m, [])
  | op :: ops => let (m', o) := step m op; let (m'', os) := run m' ops; (m'', o :: os)

/-- copying a multimap: a fresh multimap holding the same (name, value) pairs, added in order
    (a continuation line after the copy therefore folds into the last pair) -/
def copy (m : M) : M := (getAll m).foldl (fun a p => addRaw a p.1 p.2) empty

end TornadoModel.C06.Spec
