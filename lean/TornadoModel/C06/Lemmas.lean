import TornadoModel.C06.Spec
/-! Helper lemmas for C06 (core Lean only). -/
namespace TornadoModel.C06

/-! ### characters -/
theorem upperC_upperC (c : Nat) : upperC (upperC c) = upperC c := by unfold upperC; split <;> (try split) <;> omega
theorem lowerC_lowerC (c : Nat) : lowerC (lowerC c) = lowerC c := by unfold lowerC; split <;> (try split) <;> omega
theorem upperC_lowerC (c : Nat) : upperC (lowerC c) = upperC c := by
  unfold upperC lowerC; split <;> split <;> (try split) <;> omega
theorem lowerC_upperC (c : Nat) : lowerC (upperC c) = lowerC c := by
  unfold upperC lowerC; split <;> split <;> (try split) <;> omega
theorem upperC_eq_dash (c : Nat) : upperC c = cDash ↔ c = cDash := by unfold upperC cDash; split <;> omega
theorem lowerC_eq_dash (c : Nat) : lowerC c = cDash ↔ c = cDash := by unfold lowerC cDash; split <;> omega

/-! ### split / join -/
theorem splitOnC_ne_nil (sep : Nat) (s : Str) : splitOnC sep s ≠ [] := by
  cases s with
  | nil => simp [splitOnC]
  | cons c cs =>
    unfold splitOnC
    split
    · simp
    · split <;> simp

theorem join_split (sep : Nat) (s : Str) : joinWith [sep] (splitOnC sep s) = s := by
  induction s with
  | nil => simp [splitOnC, joinWith]
  | cons c cs ih =>
    unfold splitOnC
    split
    · rename_i h
      have hne := splitOnC_ne_nil sep cs
      cases hsp : splitOnC sep cs with
      | nil => exact absurd hsp hne
      | cons w ws => rw [hsp] at ih; simp [joinWith, h]; exact ih
    · cases hsp : splitOnC sep cs with
      | nil => exact absurd hsp (splitOnC_ne_nil sep cs)
      | cons w ws =>
        rw [hsp] at ih
        cases ws with
        | nil => simp [joinWith] at ih ⊢; exact ih
        | cons w2 ws2 => simp [joinWith] at ih ⊢; exact ih

theorem split_map (sep : Nat) (f : Nat → Nat) (hf : ∀ c, f c = sep ↔ c = sep) (s : Str) :
    splitOnC sep (s.map f) = (splitOnC sep s).map (List.map f) := by
  induction s with
  | nil => simp [splitOnC]
  | cons c cs ih =>
    simp only [List.map_cons]
    unfold splitOnC
    by_cases h : c = sep
    · subst h
      have hfc : f c = c := (hf c).2 rfl
      simp only [hfc, if_true, List.map_cons, List.map_nil]
      rw [← ih]
    · have : f c ≠ sep := fun e => h ((hf c).1 e)
      simp only [h, this, if_false]
      rw [ih]
      cases hsp : splitOnC sep cs with
      | nil => exact absurd hsp (splitOnC_ne_nil sep cs)
      | cons w ws => simp

/-- every piece produced by `splitOnC` is free of the separator -/
theorem split_pieces_nosep (sep : Nat) (s : Str) : ∀ w ∈ splitOnC sep s, sep ∉ w := by
  induction s with
  | nil => simp [splitOnC]
  | cons c cs ih =>
    unfold splitOnC
    split
    · intro w hw
      simp at hw
      rcases hw with rfl | hw
      · simp
      · exact ih w hw
    · rename_i h
      cases hsp : splitOnC sep cs with
      | nil => exact absurd hsp (splitOnC_ne_nil sep cs)
      | cons w ws =>
        rw [hsp] at ih
        intro x hx
        simp at hx
        rcases hx with rfl | hx
        · have := ih w (by simp)
          simp; exact ⟨fun e => h e.symm, this⟩
        · exact ih x (by simp [hx])

theorem split_nosep (sep : Nat) (w : Str) (h : sep ∉ w) : splitOnC sep w = [w] := by
  induction w with
  | nil => simp [splitOnC]
  | cons c cs ih =>
    simp at h
    unfold splitOnC
    have : ¬ c = sep := fun e => h.1 e.symm
    simp [this, ih h.2]

theorem split_append_sep (sep : Nat) (w rest : Str) (h : sep ∉ w) :
    splitOnC sep (w ++ sep :: rest) = w :: splitOnC sep rest := by
  induction w with
  | nil => simp [splitOnC]
  | cons c cs ih =>
    simp at h
    have hc : ¬ c = sep := fun e => h.1 e.symm
    simp only [List.cons_append]
    rw [splitOnC]
    simp [hc, ih h.2]

theorem split_join (sep : Nat) (ws : List Str) (hne : ws ≠ []) (h : ∀ w ∈ ws, sep ∉ w) :
    splitOnC sep (joinWith [sep] ws) = ws := by
  induction ws with
  | nil => exact absurd rfl hne
  | cons w ws ih =>
    cases ws with
    | nil => simp [joinWith]; exact split_nosep sep w (h w (by simp))
    | cons w2 ws2 =>
      simp only [joinWith]
      have : w ++ [sep] ++ joinWith [sep] (w2 :: ws2) = w ++ sep :: joinWith [sep] (w2 :: ws2) := by simp
      rw [this, split_append_sep sep w _ (h w (by simp))]
      rw [ih (by simp) (fun x hx => h x (by simp [hx]))]

theorem map_joinWith (f : Nat → Nat) (sep : Nat) (ws : List Str) :
    (joinWith [sep] ws).map f = joinWith [f sep] (ws.map (List.map f)) := by
  induction ws with
  | nil => simp [joinWith]
  | cons w ws ih =>
    cases ws with
    | nil => simp [joinWith]
    | cons w2 ws2 => simp only [joinWith, List.map_append, List.map_cons, List.map_nil] at ih ⊢; rw [ih]

/-! ### capitalize -/
theorem capitalize_capitalize (w : Str) : capitalize (capitalize w) = capitalize w := by
  cases w with
  | nil => rfl
  | cons c cs => simp [capitalize, upperC_upperC, lowerC_lowerC]

theorem capitalize_map_lower (w : Str) : capitalize (w.map lowerC) = capitalize w := by
  cases w with
  | nil => rfl
  | cons c cs => simp [capitalize, upperC_lowerC, lowerC_lowerC]

theorem map_lower_capitalize (w : Str) : (capitalize w).map lowerC = w.map lowerC := by
  cases w with
  | nil => rfl
  | cons c cs => simp [capitalize, lowerC_upperC, lowerC_lowerC]

theorem capitalize_nodash (w : Str) (h : cDash ∉ w) : cDash ∉ capitalize w := by
  cases w with
  | nil => simp [capitalize]
  | cons c cs =>
    simp [capitalize] at h ⊢
    refine ⟨fun e => h.1 ((upperC_eq_dash c).1 e.symm).symm, fun x hx e => ?_⟩
    exact h.2 (by rw [(lowerC_eq_dash x).1 e] at hx; exact hx)

/-! ### insertion-ordered dict -/
section dict
variable {β : Type}

theorem dget_dset_same (k : Str) (v : β) (d : List (Str × β)) : dget k (dset k v d) = some v := by
  induction d with
  | nil => simp [dset, dget]
  | cons e r ih =>
    obtain ⟨k', v'⟩ := e
    unfold dset
    by_cases h : k' = k <;> simp [h, dget, ih]

theorem dget_dset_other (k k2 : Str) (v : β) (d : List (Str × β)) (h : k2 ≠ k) :
    dget k2 (dset k v d) = dget k2 d := by
  induction d with
  | nil => simp [dset, dget]; intro e; exact absurd e.symm h
  | cons e r ih =>
    obtain ⟨k', v'⟩ := e
    unfold dset
    by_cases h1 : k' = k
    · subst h1
      have : ¬ k' = k2 := fun e => h e.symm
      simp [dget, this]
    · simp [h1, dget, ih]

theorem dget_ddel_same (k : Str) (d : List (Str × β)) : dget k (ddel k d) = none := by
  induction d with
  | nil => simp [ddel, dget]
  | cons e r ih =>
    obtain ⟨k', v'⟩ := e
    unfold ddel
    by_cases h : k' = k <;> simp [h, dget, ih]

theorem dget_ddel_other (k k2 : Str) (d : List (Str × β)) (h : k2 ≠ k) :
    dget k2 (ddel k d) = dget k2 d := by
  induction d with
  | nil => simp [ddel, dget]
  | cons e r ih =>
    obtain ⟨k', v'⟩ := e
    unfold ddel
    by_cases h1 : k' = k
    · subst h1; simp [dget, ih]; intro e; exact absurd e.symm h
    · simp [h1, dget, ih]

end dict

end TornadoModel.C06
