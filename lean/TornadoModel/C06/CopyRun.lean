import TornadoModel.C06.Present
/-!
The copy constructor re-`add`s every pair to a fresh object, so a copy is a *reachable* state in its own right and
is related (refinement relation `R`) to the multimap copy `Spec.copy` (a fresh multimap with the same pairs).
-/
namespace TornadoModel.C06
open TornadoModel.C06.Norm

theorem spec_add_ok {m m' : Spec.M} {n v : Str} (h : Spec.add m n v = .ok m') : m' = Spec.addRaw m n v := by
  unfold Spec.add at h
  split at h
  · cases h
  · cases h; rfl

theorem fold_add_refines (ps : List (Str × Str)) :
    ∀ (acc : Headers) (macc : Spec.M) (c : Headers), R acc macc → ps.foldlM addPair acc = .ok c →
      R c (ps.foldl (fun a p => Spec.addRaw a p.1 p.2) macc) := by
  induction ps with
  | nil =>
    intro acc macc c r hc
    simp only [List.foldlM_nil, pure, Except.pure] at hc
    cases hc
    exact r
  | cons p ps ih =>
    intro acc macc c r hc
    simp only [List.foldlM_cons, addPair, bind, Except.bind] at hc
    have hr := add_refines r p.1 p.2
    cases h1 : add acc p.1 p.2 with
    | error e => rw [h1] at hc; cases hc
    | ok acc' =>
      rw [h1] at hc hr
      cases h2 : Spec.add macc p.1 p.2 with
      | error e => rw [h2] at hr; exact hr.elim
      | ok m' =>
        rw [h2] at hr
        have hm := spec_add_ok h2
        subst hm
        simp only [List.foldl_cons]
        exact ih acc' _ c hr hc

/-- the copy of a state related to a multimap `m` is related to the multimap copy of `m` -/
theorem copy_related {h : Headers} {m : Spec.M} {c : Headers} (r : R h m) (hc : copy h = .ok c) :
    R c (Spec.copy m) := by
  have hg : getAll h = Spec.getAll m := by
    have := (step_refines r .getAll).1
    simp only [step, Spec.step, Out.pairs.injEq] at this
    exact this
  have hc' : (getAll h).foldlM addPair empty = .ok c := hc
  have := fold_add_refines (getAll h) empty Spec.empty c R_empty hc'
  unfold Spec.copy
  rw [← hg]
  exact this

end TornadoModel.C06
