import TornadoModel.C06.Norm
open TornadoModel.C06.Norm
/-! Refinement of the multimap specification by the cached, normalised-key implementation model. -/
namespace TornadoModel.C06

open Spec (key)

theorem key_normalize (n : Str) : key (normalize n) = key n := lower_normalize n

theorem key_inj_on_normed {a b : Str} (ha : normalize a = a) (hb : normalize b = b) :
    key a = key b ↔ a = b := by
  constructor
  · intro h
    have := (normalize_eq_iff_lower_eq a b).2 h
    rw [ha, hb] at this; exact this
  · intro h; rw [h]

def KeysNormed (l : List (Str × List Str)) : Prop := ∀ e ∈ l, normalize e.1 = e.1

def absEntries (l : List (Str × List Str)) : List (Str × List Str) := l.map (fun e => (key e.1, e.2))

theorem dget_abs (l : List (Str × List Str)) (hl : KeysNormed l) (k : Str) (hk : normalize k = k) :
    dget (key k) (absEntries l) = dget k l := by
  induction l with
  | nil => simp [absEntries, dget]
  | cons e r ih =>
    obtain ⟨k', v'⟩ := e
    have hk' : normalize k' = k' := hl (k', v') (by simp)
    have hr : KeysNormed r := fun e he => hl e (by simp [he])
    simp only [absEntries, List.map_cons, dget] at ih ⊢
    by_cases h : k' = k
    · simp [h]
    · have : ¬ key k' = key k := fun e => h ((key_inj_on_normed hk' hk).1 e)
      simp only [h, this, if_false]
      exact ih hr

theorem dset_abs (l : List (Str × List Str)) (hl : KeysNormed l) (k : Str) (hk : normalize k = k) (v : List Str) :
    absEntries (dset k v l) = dset (key k) v (absEntries l) := by
  induction l with
  | nil => simp [absEntries, dset]
  | cons e r ih =>
    obtain ⟨k', v'⟩ := e
    have hk' : normalize k' = k' := hl (k', v') (by simp)
    have hr : KeysNormed r := fun e he => hl e (by simp [he])
    simp only [absEntries, List.map_cons, dset] at ih ⊢
    by_cases h : k' = k
    · simp [h]
    · have : ¬ key k' = key k := fun e => h ((key_inj_on_normed hk' hk).1 e)
      simp only [h, this, if_false, List.map_cons]
      rw [ih hr]

theorem ddel_abs (l : List (Str × List Str)) (hl : KeysNormed l) (k : Str) (hk : normalize k = k) :
    absEntries (ddel k l) = ddel (key k) (absEntries l) := by
  induction l with
  | nil => simp [absEntries, ddel]
  | cons e r ih =>
    obtain ⟨k', v'⟩ := e
    have hk' : normalize k' = k' := hl (k', v') (by simp)
    have hr : KeysNormed r := fun e he => hl e (by simp [he])
    simp only [absEntries, List.map_cons, ddel] at ih ⊢
    by_cases h : k' = k
    · simp [h]; exact ih hr
    · have : ¬ key k' = key k := fun e => h ((key_inj_on_normed hk' hk).1 e)
      simp only [h, this, if_false, List.map_cons]
      rw [ih hr]

theorem keysNormed_dset (l : List (Str × List Str)) (hl : KeysNormed l) (k : Str) (hk : normalize k = k) (v : List Str) :
    KeysNormed (dset k v l) := by
  induction l with
  | nil => intro e he; simp [dset] at he; subst he; exact hk
  | cons e r ih =>
    obtain ⟨k', v'⟩ := e
    have hr : KeysNormed r := fun e he => hl e (by simp [he])
    unfold dset
    by_cases h : k' = k
    · simp only [h, if_true]
      intro e he
      simp at he
      rcases he with rfl | he
      · exact hk
      · exact hr e he
    · simp only [h, if_false]
      intro e he
      simp at he
      rcases he with rfl | he
      · exact hl (k', v') (by simp)
      · exact ih hr e he

theorem keysNormed_ddel (l : List (Str × List Str)) (hl : KeysNormed l) (k : Str) : KeysNormed (ddel k l) := by
  induction l with
  | nil => intro e he; simp [ddel] at he
  | cons e r ih =>
    obtain ⟨k', v'⟩ := e
    have hr : KeysNormed r := fun e he => hl e (by simp [he])
    unfold ddel
    by_cases h : k' = k
    · simp only [h, if_true]; exact ih hr
    · simp only [h, if_false]
      intro e he
      simp at he
      rcases he with rfl | he
      · exact hl (k', v') (by simp)
      · exact ih hr e he

/-- every cached combined value is the comma-join of the current value list -/
def CacheSound (h : Headers) : Prop :=
  ∀ k v, dget k h.cache = some v → ∃ vs, dget k h.asList = some vs ∧ v = joinWith [cComma] vs

/-- the refinement relation between an implementation state and a multimap -/
structure R (h : Headers) (m : Spec.M) : Prop where
  normed : KeysNormed h.asList
  lastNormed : ∀ k, h.lastKey = some k → normalize k = k
  cache : CacheSound h
  entries : m.entries = absEntries h.asList
  last : m.last = h.lastKey.map key

theorem R_empty : R empty Spec.empty :=
  ⟨by intro e he; simp [empty] at he, by intro k hk; simp [empty] at hk,
   by intro k v hk; simp [empty, dget] at hk, by simp [Spec.empty, empty, absEntries], by simp [Spec.empty, empty]⟩

theorem R.lookup {h m} (r : R h m) (n : Str) : dget (key n) m.entries = dget (normalize n) h.asList := by
  rw [r.entries, ← key_normalize n]
  exact dget_abs _ r.normed _ (normalize_idem n)

end TornadoModel.C06

namespace TornadoModel.C06
open Spec (key)

/-! ### one step of every operation preserves `R` and produces the multimap's output -/

theorem cacheSound_of_touch {h : Headers} (hc : CacheSound h) (n : Str) (vs : List Str) :
    CacheSound { h with cache := ddel n h.cache, asList := dset n vs h.asList } := by
  intro k v hk
  by_cases hkn : k = n
  · subst hkn; simp [dget_ddel_same] at hk
  · simp only [dget_ddel_other _ _ _ hkn] at hk
    obtain ⟨vs', h1, h2⟩ := hc k v hk
    exact ⟨vs', by simp only [dget_dset_other _ _ _ _ hkn]; exact h1, h2⟩

theorem R_setItem {h m} (r : R h m) (n v : Str) : R (setItem h n v) (Spec.set m n v) := by
  have hn := normalize_idem n
  refine ⟨keysNormed_dset _ r.normed _ hn _, r.lastNormed, ?_, ?_, r.last⟩
  · intro k v' hk
    simp only [setItem] at hk ⊢
    by_cases hkn : k = normalize n
    · subst hkn
      rw [dget_dset_same] at hk
      exact ⟨[v], dget_dset_same _ _ _, by cases hk; simp [joinWith]⟩
    · rw [dget_dset_other _ _ _ _ hkn] at hk
      obtain ⟨vs', h1, h2⟩ := r.cache k v' hk
      exact ⟨vs', by rw [dget_dset_other _ _ _ _ hkn]; exact h1, h2⟩
  · simp only [Spec.set, setItem, r.entries]
    rw [dset_abs _ r.normed _ hn, key_normalize]

/-- outcome agreement: both fail with the same error, or both succeed in related states -/
def Agree (a : Except Err Headers) (b : Except Err Spec.M) : Prop :=
  match a, b with
  | .ok h', .ok m' => R h' m'
  | .error e, .error e' => e = e'
  | _, _ => False

theorem add_refines {h m} (r : R h m) (n v : Str) : Agree (add h n v) (Spec.add m n v) := by
  unfold add Spec.add
  by_cases ht : isToken n <;> by_cases hv : isFieldValue v <;> simp [ht, hv, Agree]
  -- valid name and value
  have hn := normalize_idem n
  have hlook := r.lookup n
  cases hg : dget (normalize n) h.asList with
  | some vs =>
    simp only [Spec.addRaw, hlook, hg]
    refine ⟨keysNormed_dset _ r.normed _ hn _, ?_, ?_, ?_, ?_⟩
    · intro k hk; simp at hk; rw [← hk]; exact hn
    · exact cacheSound_of_touch (h := { h with lastKey := some (normalize n) }) r.cache _ _
    · simp only [r.entries]; rw [dset_abs _ r.normed _ hn, key_normalize]
    · simp [key_normalize]
  | none =>
    simp only [Spec.addRaw, hlook, hg]
    have r1 : R { h with lastKey := some (normalize n) } { m with last := some (key n) } :=
      ⟨r.normed, by intro k hk; simp at hk; rw [← hk]; exact hn, r.cache, r.entries, by simp [key_normalize]⟩
    have := R_setItem r1 (normalize n) v
    simp only [Spec.set, key_normalize] at this
    exact this

theorem del_refines {h m} (r : R h m) (n : Str) : Agree (delItem h n) (Spec.del m n) := by
  unfold delItem Spec.del dhas
  rw [r.lookup n]
  cases hg : dget (normalize n) h.asList with
  | none => simp [Agree, hg]
  | some vs =>
    simp only [hg, Option.isSome_some, if_true, Agree]
    refine ⟨keysNormed_ddel _ r.normed _, r.lastNormed, ?_, ?_, r.last⟩
    · intro k v hk
      simp only at hk ⊢
      by_cases hkn : k = normalize n
      · subst hkn; simp [dget_ddel_same] at hk
      · rw [dget_ddel_other _ _ _ hkn] at hk
        obtain ⟨vs', h1, h2⟩ := r.cache k v hk
        exact ⟨vs', by rw [dget_ddel_other _ _ _ hkn]; exact h1, h2⟩
    · simp only [r.entries]
      rw [ddel_abs _ r.normed _ (normalize_idem n), key_normalize]

/-- `__getitem__` returns the multimap's combined value and only touches the cache -/
theorem get_refines {h m} (r : R h m) (n : Str) :
    match getItem h n, Spec.get m n with
    | .ok (v, h'), .ok v' => v = v' ∧ R h' m
    | .error e, .error e' => e = e'
    | _, _ => False := by
  unfold getItem Spec.get
  rw [r.lookup n]
  cases hc : dget (normalize n) h.cache with
  | some v =>
    obtain ⟨vs, h1, h2⟩ := r.cache _ _ hc
    simp only [h1, hc]
    exact ⟨h2, r⟩
  | none =>
    cases hg : dget (normalize n) h.asList with
    | none => simp [hc, hg]
    | some vs =>
      simp only [hc, hg]
      refine ⟨trivial, r.normed, r.lastNormed, ?_, r.entries, r.last⟩
      intro k v hk
      simp only at hk ⊢
      by_cases hkn : k = normalize n
      · subst hkn
        rw [dget_dset_same] at hk
        exact ⟨vs, hg, by cases hk; rfl⟩
      · rw [dget_dset_other _ _ _ _ hkn] at hk
        exact r.cache k v hk

theorem parseLine_refines {h m} (r : R h m) (l : Str) : Agree (parseLine h l) (Spec.parseLine m l) := by
  unfold parseLine Spec.parseLine
  cases hl : stripEol l with
  | nil => simp [Agree]; exact r
  | cons c cs =>
    simp only
    by_cases hw : isWs c
    · simp only [hw, if_true]
      cases hk : h.lastKey with
      | none => simp [r.last, hk, Agree]
      | some k =>
        have hkn := r.lastNormed k hk
        simp only [r.last, hk, Option.map_some]
        by_cases hv : isFieldValue (stripWs (c :: cs))
        · simp only [hv, Bool.not_true, Bool.and_false, Bool.false_eq_true, if_false]
          have hlook : dget (key k) m.entries = dget k h.asList := by
            rw [r.entries]; exact dget_abs _ r.normed _ hkn
          rw [hlook]
          cases hg : dget k h.asList with
          | none => simp [Agree]
          | some vs =>
            simp only [Agree]
            refine ⟨keysNormed_dset _ r.normed _ hkn _, ?_, ?_, ?_, ?_⟩
            · intro k' hk'; simp only at hk'; exact r.lastNormed k' (by rw [hk]; exact hk')
            · have := cacheSound_of_touch r.cache k (appendToLast vs (cSp :: stripWs (c :: cs)))
              intro k' v' hk'
              exact this k' v' hk'
            · simp only [r.entries]; rw [dset_abs _ r.normed _ hkn]
            · simp [r.last, hk]
        · simp [hv, Agree]
    · simp only [hw, Bool.false_eq_true, if_false]
      cases hs : splitColon (c :: cs) with
      | none => simp [Agree]
      | some p =>
        obtain ⟨name, value⟩ := p
        simp only
        exact add_refines r name (stripWs value)

theorem getAll_abs (l : List (Str × List Str)) (hl : KeysNormed l) :
    (absEntries l).flatMap (fun (k, vs) => vs.map (fun v => (normalize k, v)))
      = l.flatMap (fun (k, vs) => vs.map (fun v => (k, v))) := by
  induction l with
  | nil => simp [absEntries]
  | cons e rst ih =>
    obtain ⟨k, vs⟩ := e
    have hk : normalize k = k := hl (k, vs) (by simp)
    have hr : KeysNormed rst := fun e he => hl e (by simp [he])
    simp only [absEntries, List.map_cons, List.flatMap_cons] at ih ⊢
    rw [ih hr]
    have : normalize (key k) = k := by rw [show key k = k.map lowerC from rfl, normalize_lower, hk]
    simp [this]

/-- **One step**: every operation yields the multimap's output and re-establishes the relation. -/
theorem step_refines {h m} (r : R h m) (op : Op) :
    (step h op).2 = (Spec.step m op).2 ∧ R (step h op).1 (Spec.step m op).1 := by
  cases op with
  | add n v =>
    have := add_refines r n v
    simp only [step, Spec.step]
    cases h1 : add h n v <;> cases h2 : Spec.add m n v <;> simp [h1, h2, Agree] at this ⊢
    · exact ⟨this, r⟩
    · exact this
  | set n v => exact ⟨rfl, R_setItem r n v⟩
  | del n =>
    have := del_refines r n
    simp only [step, Spec.step]
    cases h1 : delItem h n <;> cases h2 : Spec.del m n <;> simp [h1, h2, Agree] at this ⊢
    · exact ⟨this, r⟩
    · exact this
  | get n =>
    have := get_refines r n
    simp only [step, Spec.step]
    cases h1 : getItem h n <;> cases h2 : Spec.get m n <;> simp [h1, h2] at this ⊢
    · exact ⟨this, r⟩
    · exact this
  | getList n =>
    refine ⟨?_, r⟩
    simp [step, Spec.step, getList, Spec.getList, r.lookup n]
  | contains n =>
    refine ⟨?_, r⟩
    simp [step, Spec.step, contains, Spec.contains, dhas, r.lookup n]
  | keys =>
    refine ⟨?_, r⟩
    simp only [step, Spec.step, keys, Spec.keys, r.entries, absEntries, List.map_map, Out.vals.injEq]
    apply List.map_congr_left
    intro e he
    have hk := r.normed e he
    simp only [Function.comp]
    rw [show key e.1 = e.1.map lowerC from rfl, normalize_lower, hk]
  | getAll =>
    refine ⟨?_, r⟩
    simp only [step, Spec.step, getAll, Spec.getAll, r.entries, Out.pairs.injEq]
    exact (getAll_abs _ r.normed).symm
  | len =>
    refine ⟨?_, r⟩
    simp [step, Spec.step, len, Spec.len, r.entries, absEntries]
  | parseLine l =>
    have := parseLine_refines r l
    simp only [step, Spec.step]
    cases h1 : parseLine h l <;> cases h2 : Spec.parseLine m l <;> simp [h1, h2, Agree] at this ⊢
    · exact ⟨this, r⟩
    · exact this
  | str =>
    refine ⟨?_, r⟩
    simp only [step, Spec.step, toStr, Spec.toStr, getAll, Spec.getAll, r.entries, Out.val.injEq]
    rw [getAll_abs _ r.normed]

theorem run_refines {h m} (r : R h m) (ops : List Op) :
    (run h ops).2 = (Spec.run m ops).2 ∧ R (run h ops).1 (Spec.run m ops).1 := by
  induction ops generalizing h m with
  | nil => exact ⟨rfl, r⟩
  | cons op ops ih =>
    obtain ⟨h1, h2⟩ := step_refines r op
    obtain ⟨h3, h4⟩ := ih h2
    simp only [run, Spec.run]
    exact ⟨by rw [h1, h3], h4⟩

end TornadoModel.C06
