import TornadoModel.C06.CopyRun
/-!
The line grammar of `parse_line`, stated from the outside (RFC 9112 §5: `field-name ":" OWS field-value OWS`,
obs-fold lines, optional CR LF / LF), independent of the lexical helpers that `Spec.parseLine` shares with the model:
a grammatical field line IS `add(name, value)`; a grammatical continuation line extends the last value.
-/
namespace TornadoModel.C06
open TornadoModel.C06.Norm

def AllWs (s : Str) : Prop := ∀ c ∈ s, isWs c = true
def NoEolChar (s : Str) : Prop := ∀ c ∈ s, c ≠ cLf ∧ c ≠ cCr
/-- the line terminators `parse_line` accepts: none, LF, CR LF -/
def IsEol (e : Str) : Prop := e = [] ∨ e = [cLf] ∨ e = [cCr, cLf]

theorem mem_of_rev_head {w : Str} {c : Nat} (hc : c ∈ w.reverse.head?) : c ∈ w := by
  have : c ∈ w.reverse := List.mem_of_mem_head? hc
  simpa using this

theorem stripEol_none (w : Str) (hw : NoEolChar w) : stripEol w = w := by
  unfold stripEol
  cases hr : w.reverse with
  | nil => rfl
  | cons x r =>
    have hx := hw x (mem_of_rev_head (by simp [hr]))
    have h10 : x ≠ 10 := hx.1
    split
    · rename_i heq; simp at heq; exact absurd heq.1 h10
    · rename_i heq; simp at heq; exact absurd heq.1 h10
    · rename_i heq; simp at heq; exact absurd heq.1 h10
    · rename_i heq; simp at heq; exact absurd heq.1 h10
    · rfl

theorem stripEol_crlf (w : Str) : stripEol (w ++ [cCr, cLf]) = w := by
  unfold stripEol
  have hr : (w ++ [cCr, cLf]).reverse = 10 :: 13 :: w.reverse := by simp [cLf, cCr]
  rw [hr]
  split
  · rename_i heq; simp at heq
  · rename_i heq; simp at heq
  · rename_i heq; simp at heq; rw [← heq]; simp
  · rename_i h3 heq; simp at heq; exact (h3 _ heq.symm).elim
  · rename_i hne; exact absurd rfl (hne _)

theorem stripEol_eol (w e : Str) (hw : NoEolChar w) (he : IsEol e) : stripEol (w ++ e) = w := by
  rcases he with rfl | rfl | rfl
  · simpa using stripEol_none w hw
  · exact stripEol_line w (fun c hc => hw c (mem_of_rev_head hc))
  · exact stripEol_crlf w

theorem ws_noEol (c : Nat) (h : isWs c = true) : c ≠ cLf ∧ c ≠ cCr := by
  unfold isWs cSp cTab at h
  simp only [Bool.or_eq_true, decide_eq_true_eq] at h
  unfold cLf cCr
  omega

theorem tchar_ne_cr (c : Nat) (h : isTchar c = true) : c ≠ cCr := by
  unfold isTchar isAlnum at h
  simp only [Bool.or_eq_true, Bool.and_eq_true, decide_eq_true_eq, List.contains_eq_mem, List.mem_cons,
    List.not_mem_nil, or_false] at h
  unfold cCr
  omega

theorem token_noEol (k : Str) (h : isToken k = true) : NoEolChar k := by
  unfold isToken at h
  simp only [Bool.and_eq_true, Bool.not_eq_true', List.isEmpty_eq_false_iff, List.all_eq_true] at h
  intro c hc
  exact ⟨(tchar_props _ (h.2 _ hc)).1, tchar_ne_cr _ (h.2 _ hc)⟩

theorem fieldValue_noEol (v : Str) (h : isFieldValue v = true) : NoEolChar v := by
  cases v with
  | nil => intro c hc; simp at hc
  | cons a r =>
    unfold isFieldValue at h
    simp only [Bool.and_eq_true, List.all_eq_true, Bool.or_eq_true, decide_eq_true_eq] at h
    obtain ⟨⟨_, h2⟩, _⟩ := h
    intro c hc
    rcases h2 _ hc with (hv | hs) | ht
    · exact ⟨(vchar_props _ hv).1, (vchar_props _ hv).2.1⟩
    · subst hs; decide
    · subst ht; decide

theorem lstrip_allWs_append (a x : Str) (ha : AllWs a) : lstripWs (a ++ x) = lstripWs x := by
  induction a with
  | nil => rfl
  | cons c cs ih =>
    have hc : isWs c = true := ha c (by simp)
    unfold lstripWs
    rw [List.cons_append, List.dropWhile_cons_of_pos hc]
    exact ih (fun d hd => ha d (by simp [hd]))

theorem lstrip_allWs (a : Str) (ha : AllWs a) : lstripWs a = [] := by
  have := lstrip_allWs_append a [] ha
  simpa [lstripWs] using this

theorem lstrip_head (x : Str) (h : ∀ c ∈ x.head?, isWs c = false) : lstripWs x = x := by
  cases x with
  | nil => rfl
  | cons a r => exact List.dropWhile_cons_of_neg (by simp [h a (by simp)])

/-- `OWS value OWS` strips to the value -/
theorem stripWs_ows (a v b : Str) (ha : AllWs a) (hb : AllWs b) (h1 : ∀ c ∈ v.head?, isWs c = false)
    (h2 : ∀ c ∈ v.reverse.head?, isWs c = false) : stripWs (a ++ v ++ b) = v := by
  unfold stripWs
  rw [List.append_assoc, lstrip_allWs_append a _ ha]
  cases v with
  | nil =>
    simp only [List.nil_append]
    rw [lstrip_allWs b hb]
    rfl
  | cons c r =>
    rw [lstrip_head ((c :: r) ++ b) (by intro d hd; simp at hd; subst hd; exact h1 _ (by simp))]
    unfold rstripWs
    rw [List.reverse_append, ← lstripWs, lstrip_allWs_append b.reverse _ (fun d hd => hb d (by simpa using hd)),
      lstrip_head _ h2]
    simp

theorem noEol_append {a b : Str} (ha : NoEolChar a) (hb : NoEolChar b) : NoEolChar (a ++ b) := by
  intro c hc
  rcases List.mem_append.1 hc with h | h
  · exact ha c h
  · exact hb c h

theorem allWs_noEol {a : Str} (ha : AllWs a) : NoEolChar a := fun c hc => ws_noEol c (ha c hc)

/-- **field line**: `name ":" OWS value OWS [CR] LF?` is `add(name, value)` — in any state -/
theorem parseLine_field_line (h : Headers) (k v a b e : Str) (hk : isToken k = true) (hv : isFieldValue v = true)
    (ha : AllWs a) (hb : AllWs b) (he : IsEol e) :
    parseLine h ((k ++ cColon :: (a ++ v ++ b)) ++ e) = add h k v := by
  obtain ⟨hkne, _, hkcol, hkws⟩ := token_props k hk
  obtain ⟨_, hvhead, hvlast⟩ := fieldValue_props v hv
  have hne : NoEolChar (k ++ cColon :: (a ++ v ++ b)) := by
    apply noEol_append (token_noEol k hk)
    intro c hc
    rcases List.mem_cons.1 hc with rfl | hc
    · decide
    · exact noEol_append (noEol_append (allWs_noEol ha) (fieldValue_noEol v hv)) (allWs_noEol hb) c hc
  unfold parseLine
  simp only [stripEol_eol _ e hne he]
  cases k with
  | nil => exact absurd rfl hkne
  | cons c cs =>
    have hc : isWs c = false := hkws c (by simp)
    simp only [List.cons_append, hc, Bool.false_eq_true, if_false]
    have := splitColon_line (c :: cs) (a ++ v ++ b) hkcol
    simp only [List.cons_append] at this
    rw [this]
    simp only
    rw [stripWs_ows a v b ha hb hvhead (fun c hc => (hvlast c hc).1)]

/-- **continuation (obs-fold) line**: `(SP|HTAB)+ text OWS [CR] LF?` appends one SP and the text to the last value of
    the field line added last -/
theorem parseLine_obs_fold (h : Headers) (a body b e k : Str) (vs : List Str)
    (ha : AllWs a) (hane : a ≠ []) (hb : AllWs b) (hbody : isFieldValue body = true) (he : IsEol e)
    (hl : h.lastKey = some k) (hg : dget k h.asList = some vs) :
    parseLine h ((a ++ body ++ b) ++ e)
      = .ok { h with asList := dset k (appendToLast vs (cSp :: body)) h.asList, cache := ddel k h.cache } := by
  obtain ⟨_, hvhead, hvlast⟩ := fieldValue_props body hbody
  have hne : NoEolChar (a ++ body ++ b) :=
    noEol_append (noEol_append (allWs_noEol ha) (fieldValue_noEol body hbody)) (allWs_noEol hb)
  have hstrip := stripWs_ows a body b ha hb hvhead (fun c hc => (hvlast c hc).1)
  unfold parseLine
  simp only [stripEol_eol _ e hne he]
  cases a with
  | nil => exact absurd rfl hane
  | cons c cs =>
    have hc : isWs c = true := ha c (by simp)
    simp only [List.cons_append] at hstrip ⊢
    simp only [hc, if_true, hl, hstrip, hbody, Bool.not_true, Bool.and_false, Bool.false_eq_true, if_false, hg,
      Bool.true_and, Bool.false_and]

theorem appendToLast_snoc (vs : List Str) (v p : Str) : appendToLast (vs ++ [v]) p = vs ++ [v ++ p] := by
  unfold appendToLast
  simp

/-- after a successful `add`, the name's list ends with the new value and `_last_key` is its key -/
theorem add_ok_shape (h : Headers) (k v : Str) (hk : isToken k = true) (hv : isFieldValue v = true) :
    ∃ h', add h k v = .ok h' ∧ h'.lastKey = some (normalize k) ∧
      dget (normalize k) h'.asList = some (getList h k ++ [v]) := by
  unfold add getList
  simp only [hk, hv, Bool.not_true, Bool.false_eq_true, if_false, Bool.and_false, Bool.true_and, Bool.false_and]
  cases hg : dget (normalize k) h.asList with
  | some vs => exact ⟨_, rfl, rfl, by simp [dget_dset_same]⟩
  | none => exact ⟨_, rfl, rfl, by simp [setItem, normalize_idem, dget_dset_same]⟩

/-! ### malformed lines are rejected -/

theorem splitColon_none (w : Str) (h : cColon ∉ w) : splitColon w = none := by
  induction w with
  | nil => rfl
  | cons c cs ih =>
    simp at h
    have hc : ¬ c = cColon := fun e => h.1 e.symm
    simp only [splitColon, hc, if_false, ih h.2, Option.map_none]

/-- a line that is not a field line (`name ":" OWS value OWS`) nor a continuation line, stated from the outside:
    (1) starts with a non-blank and has no colon; (2) the text before the first colon is not a token (and does not start
    with a blank); (3) the name is a token but the value, with its surrounding blanks removed, is not a field-value. -/
inductive Malformed : Str → Prop where
  | noColon (w : Str) (hne : w ≠ []) (hhead : ∀ c ∈ w.head?, isWs c = false) (hcol : cColon ∉ w)
      (hw : NoEolChar w) : Malformed w
  | badName (k rest : Str) (hcol : cColon ∉ k) (hhead : ∀ c ∈ k.head?, isWs c = false) (hk : isToken k = false)
      (hw : NoEolChar (k ++ cColon :: rest)) : Malformed (k ++ cColon :: rest)
  | badValue (k a v b : Str) (hk : isToken k = true) (ha : AllWs a) (hb : AllWs b)
      (h1 : ∀ c ∈ v.head?, isWs c = false) (h2 : ∀ c ∈ v.reverse.head?, isWs c = false)
      (hv : isFieldValue v = false) (hw : NoEolChar v) : Malformed (k ++ cColon :: (a ++ v ++ b))

theorem parseLine_malformed (h : Headers) (l e : Str) (hm : Malformed l) (he : IsEol e) :
    parseLine h (l ++ e) = .error .httpInput := by
  cases hm with
  | noColon _ hne hhead hcol hw =>
    unfold parseLine
    simp only [stripEol_eol _ e hw he]
    cases l with
    | nil => exact absurd rfl hne
    | cons c cs =>
      have hc : isWs c = false := hhead c (by simp)
      simp only [hc, Bool.false_eq_true, if_false, splitColon_none _ hcol]
  | badName k rest hcol hhead hk hw =>
    unfold parseLine
    simp only [stripEol_eol _ e hw he]
    cases k with
    | nil =>
      have : isWs cColon = false := by decide
      simp only [List.nil_append, this, Bool.false_eq_true, if_false, splitColon, if_true]
      unfold add
      simp [hk]
    | cons c cs =>
      have hc : isWs c = false := hhead c (by simp)
      have := splitColon_line (c :: cs) rest hcol
      simp only [List.cons_append] at this
      simp only [List.cons_append, hc, Bool.false_eq_true, if_false, this]
      unfold add
      simp [hk]
  | badValue k a v b hk ha hb h1 h2 hv hw =>
    obtain ⟨hkne, _, hkcol, hkws⟩ := token_props k hk
    have hne : NoEolChar (k ++ cColon :: (a ++ v ++ b)) := by
      apply noEol_append (token_noEol k hk)
      intro c hc
      rcases List.mem_cons.1 hc with rfl | hc
      · decide
      · exact noEol_append (noEol_append (allWs_noEol ha) hw) (allWs_noEol hb) c hc
    unfold parseLine
    simp only [stripEol_eol _ e hne he]
    cases k with
    | nil => exact absurd rfl hkne
    | cons c cs =>
      have hc : isWs c = false := hkws c (by simp)
      have := splitColon_line (c :: cs) (a ++ v ++ b) hkcol
      simp only [List.cons_append] at this
      simp only [List.cons_append, hc, Bool.false_eq_true, if_false, this]
      rw [stripWs_ows a v b ha hb h1 h2]
      unfold add
      simp [hk, hv]

/-- a continuation line cannot come first, and its text must be a field-value -/
theorem parseLine_bad_fold (h : Headers) (a body b e : Str) (ha : AllWs a) (hane : a ≠ []) (hb : AllWs b)
    (h1 : ∀ c ∈ body.head?, isWs c = false) (h2 : ∀ c ∈ body.reverse.head?, isWs c = false)
    (hw : NoEolChar body) (he : IsEol e) (hbad : h.lastKey = none ∨ (isFieldValue body = false ∧ h.lastKey ≠ none))
    (hnonblank : a ++ body ++ b ≠ []) :
    parseLine h ((a ++ body ++ b) ++ e) = .error .httpInput := by
  have hne : NoEolChar (a ++ body ++ b) := noEol_append (noEol_append (allWs_noEol ha) hw) (allWs_noEol hb)
  have hstrip := stripWs_ows a body b ha hb h1 h2
  unfold parseLine
  simp only [stripEol_eol _ e hne he]
  cases a with
  | nil => exact absurd rfl hane
  | cons c cs =>
    have hc : isWs c = true := ha c (by simp)
    simp only [List.cons_append] at hstrip ⊢
    rcases hbad with hl | ⟨hv, hl⟩
    · simp only [hc, if_true, hl]
    · cases hk : h.lastKey with
      | none => exact absurd hk hl
      | some k => simp only [hc, if_true, hstrip, hv, Bool.not_false, Bool.and_true, Bool.true_and, if_true]

/-! ### the `_chars_are_bytes=False` mode (multipart/form-data part headers) -/

theorem notForbidden_noEol (v : Str) (h : hasForbidden v = false) : NoEolChar v := by
  unfold hasForbidden at h
  rw [List.any_eq_false] at h
  intro c hc
  have := h c hc
  simp only [Bool.or_eq_true, Bool.and_eq_true, decide_eq_true_eq, not_or, not_and] at this
  unfold cLf cCr
  omega

/-- field line in the character mode: the value may be any text without control characters (any code point ≥ 0x80
    included); the line is `add(name, value, _chars_are_bytes=False)` -/
theorem parseLine_field_line_chars (h : Headers) (k v a b e : Str) (hk : isToken k = true)
    (hv : hasForbidden v = false) (h1 : ∀ c ∈ v.head?, isWs c = false) (h2 : ∀ c ∈ v.reverse.head?, isWs c = false)
    (ha : AllWs a) (hb : AllWs b) (he : IsEol e) :
    parseLine h ((k ++ cColon :: (a ++ v ++ b)) ++ e) false = add h k v false := by
  obtain ⟨hkne, _, hkcol, hkws⟩ := token_props k hk
  have hne : NoEolChar (k ++ cColon :: (a ++ v ++ b)) := by
    apply noEol_append (token_noEol k hk)
    intro c hc
    rcases List.mem_cons.1 hc with rfl | hc
    · decide
    · exact noEol_append (noEol_append (allWs_noEol ha) (notForbidden_noEol v hv)) (allWs_noEol hb) c hc
  unfold parseLine
  simp only [stripEol_eol _ e hne he]
  cases k with
  | nil => exact absurd rfl hkne
  | cons c cs =>
    have hc : isWs c = false := hkws c (by simp)
    simp only [List.cons_append, hc, Bool.false_eq_true, if_false]
    have := splitColon_line (c :: cs) (a ++ v ++ b) hkcol
    simp only [List.cons_append] at this
    rw [this]
    simp only
    rw [stripWs_ows a v b ha hb h1 h2]

end TornadoModel.C06
