import TornadoModel.C06.Lemmas
/-! `_normalize_header` lemmas (restated as property theorems in `Props.lean`). -/
namespace TornadoModel.C06.Norm
open TornadoModel.C06

/-- `_normalize_header` is idempotent (every stored key is a fixed point). -/
theorem normalize_idem (s : Str) : normalize (normalize s) = normalize s := by
  unfold normalize
  rw [split_join]
  · simp [List.map_map, Function.comp_def, capitalize_capitalize]
  · simp; exact splitOnC_ne_nil _ _
  · intro w hw
    simp at hw
    obtain ⟨a, ha, rfl⟩ := hw
    exact capitalize_nodash a (split_pieces_nosep cDash s a ha)

/-- the normal form depends only on the ASCII-lower-cased name … -/
theorem normalize_lower (s : Str) : normalize (s.map lowerC) = normalize s := by
  unfold normalize
  rw [split_map cDash lowerC lowerC_eq_dash]
  simp [List.map_map, Function.comp_def, capitalize_map_lower]

/-- … and determines it. -/
theorem lower_normalize (s : Str) : (normalize s).map lowerC = s.map lowerC := by
  unfold normalize
  rw [map_joinWith]
  have h45 : lowerC cDash = cDash := by decide
  rw [h45]
  simp only [List.map_map, Function.comp_def, map_lower_capitalize]
  have := split_map cDash lowerC lowerC_eq_dash s
  rw [show (List.map (fun x => List.map lowerC x) (splitOnC cDash s)) = splitOnC cDash (s.map lowerC) from this.symm]
  exact join_split _ _

/-- Case-insensitivity: two names address the same entry iff they are equal up to ASCII case. -/
theorem normalize_eq_iff_lower_eq (a b : Str) : normalize a = normalize b ↔ a.map lowerC = b.map lowerC := by
  constructor
  · intro h
    rw [← lower_normalize a, ← lower_normalize b, h]
  · intro h
    rw [← normalize_lower a, ← normalize_lower b, h]

theorem joinWith_cons_cons (sep : Str) (a : Nat) (w : Str) (rest : List Str) :
    joinWith sep ((a :: w) :: rest) = a :: joinWith sep (w :: rest) := by
  cases rest <;> simp [joinWith]

/-- `_normalize_header` written out character by character, for EVERY name (no restriction to letters and
    hyphens): the split/capitalize/join pipeline upper-cases exactly the first character of each `-`-separated
    word and lower-cases everything else (second component: the same for a word already begun). -/
theorem normalize_headerCase_aux (s : Str) :
    normalize s = Spec.headerCase true s ∧
    (∀ w ws, splitOnC cDash s = w :: ws →
      joinWith [cDash] (w.map lowerC :: ws.map capitalize) = Spec.headerCase false s) := by
  induction s with
  | nil =>
    refine ⟨by simp [normalize, splitOnC, joinWith, Spec.headerCase, capitalize], ?_⟩
    intro w ws h
    simp [splitOnC] at h
    obtain ⟨rfl, rfl⟩ := h
    simp [joinWith, Spec.headerCase]
  | cons c cs ih =>
    obtain ⟨ih1, ih2⟩ := ih
    cases hs : splitOnC cDash cs with
    | nil => exact absurd hs (splitOnC_ne_nil _ _)
    | cons w0 ws0 =>
      by_cases hc : c = cDash
      · subst hc
        have hn : normalize cs = joinWith [cDash] (capitalize w0 :: ws0.map capitalize) := by
          simp [normalize, hs]
        have hsplit : splitOnC cDash (cDash :: cs) = [] :: w0 :: ws0 := by simp [splitOnC, hs]
        have hh : ∀ b, Spec.headerCase b (cDash :: cs) = cDash :: Spec.headerCase true cs := by
          intro b; simp [Spec.headerCase]
        refine ⟨?_, ?_⟩
        · rw [hh, ← ih1, hn]
          simp [normalize, hsplit, capitalize, joinWith]
        · intro w ws h
          rw [hsplit] at h
          obtain ⟨rfl, rfl⟩ := List.cons.inj h
          rw [hh, ← ih1, hn]
          simp [joinWith]
      · have hsplit : splitOnC cDash (c :: cs) = (c :: w0) :: ws0 := by simp [splitOnC, hc, hs]
        have ht := ih2 w0 ws0 hs
        refine ⟨?_, ?_⟩
        · have : Spec.headerCase true (c :: cs) = upperC c :: Spec.headerCase false cs := by
            simp [Spec.headerCase, hc]
          rw [this, ← ht]
          simp only [normalize, hsplit, List.map, capitalize]
          rw [joinWith_cons_cons]
        · intro w ws h
          rw [hsplit] at h
          obtain ⟨rfl, rfl⟩ := List.cons.inj h
          have : Spec.headerCase false (c :: cs) = lowerC c :: Spec.headerCase false cs := by
            simp [Spec.headerCase, hc]
          rw [this, ← ht]
          simp only [List.map]
          rw [joinWith_cons_cons]

example : normalize ("coNtent-TYPE".toList.map Char.toNat) = "Content-Type".toList.map Char.toNat := by decide

example : normalize ("P3P".toList.map Char.toNat) = "P3p".toList.map Char.toNat := by decide
example : normalize ("x_FORWARDED_for-a.B".toList.map Char.toNat) = "X_forwarded_for-A.b".toList.map Char.toNat := by decide

end TornadoModel.C06.Norm
