import TornadoModel.C06.Lemmas
/-! `_normalize_header` lemmas (restated as property theorems in `Props.lean`). -/
namespace TornadoModel.C06.Norm
open TornadoModel.C06

/-- `_normalize_header` is idempotent (every stored key is a fixed point). -/
theorem normalize_idem (s : Str) : normalize (normalize s) = normalize s := by
  unfold normalize
  rw [split_join]
  · simp [List.map_map, Function.comp_def, capitalize_capitalize]
  · simp; exact splitOnC_ne_nil _ _
  · intro w hw
    simp at hw
    obtain ⟨a, ha, rfl⟩ := hw
    exact capitalize_nodash a (split_pieces_nosep cDash s a ha)

/-- the normal form depends only on the ASCII-lower-cased name … -/
theorem normalize_lower (s : Str) : normalize (s.map lowerC) = normalize s := by
  unfold normalize
  rw [split_map cDash lowerC lowerC_eq_dash]
  simp [List.map_map, Function.comp_def, capitalize_map_lower]

/-- … and determines it. -/
theorem lower_normalize (s : Str) : (normalize s).map lowerC = s.map lowerC := by
  unfold normalize
  rw [map_joinWith]
  have h45 : lowerC cDash = cDash := by decide
  rw [h45]
  simp only [List.map_map, Function.comp_def, map_lower_capitalize]
  have := split_map cDash lowerC lowerC_eq_dash s
  rw [show (List.map (fun x => List.map lowerC x) (splitOnC cDash s)) = splitOnC cDash (s.map lowerC) from this.symm]
  exact join_split _ _

/-- Case-insensitivity: two names address the same entry iff they are equal up to ASCII case. -/
theorem normalize_eq_iff_lower_eq (a b : Str) : normalize a = normalize b ↔ a.map lowerC = b.map lowerC := by
  constructor
  · intro h
    rw [← lower_normalize a, ← lower_normalize b, h]
  · intro h
    rw [← normalize_lower a, ← normalize_lower b, h]

example : normalize ("coNtent-TYPE".toList.map Char.toNat) = "Content-Type".toList.map Char.toNat := by decide

end TornadoModel.C06.Norm
