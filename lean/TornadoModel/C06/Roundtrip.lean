import TornadoModel.C06.Copy
/-! `parse (str h) = h`: serialising and parsing back. -/
namespace TornadoModel.C06
open TornadoModel.C06.Norm

theorem tchar_props (c : Nat) (h : isTchar c = true) : c ≠ cLf ∧ c ≠ cColon ∧ isWs c = false := by
  unfold isTchar isAlnum at h
  simp only [Bool.or_eq_true, Bool.and_eq_true, decide_eq_true_eq, List.contains_eq_mem, List.mem_cons,
    List.not_mem_nil, or_false] at h
  unfold cLf cColon isWs cSp cTab
  simp only [ne_eq, Bool.or_eq_false_iff, decide_eq_false_iff_not]
  omega

theorem token_props (k : Str) (h : isToken k = true) :
    k ≠ [] ∧ cLf ∉ k ∧ cColon ∉ k ∧ (∀ c ∈ k.head?, isWs c = false) := by
  unfold isToken at h
  simp only [Bool.and_eq_true, Bool.not_eq_true', List.isEmpty_eq_false_iff, List.all_eq_true] at h
  refine ⟨h.1, fun hm => (tchar_props _ (h.2 _ hm)).1 rfl, fun hm => (tchar_props _ (h.2 _ hm)).2.1 rfl, ?_⟩
  intro c hc
  cases k with
  | nil => simp at hc
  | cons a r => simp at hc; subst hc; exact (tchar_props _ (h.2 _ (by simp))).2.2

theorem vchar_props (c : Nat) (h : isFieldVchar c = true) : c ≠ cLf ∧ c ≠ cCr ∧ isWs c = false := by
  unfold isFieldVchar at h
  simp only [Bool.or_eq_true, Bool.and_eq_true, decide_eq_true_eq] at h
  unfold cLf cCr isWs cSp cTab
  simp only [ne_eq, Bool.or_eq_false_iff, decide_eq_false_iff_not]
  omega

/-- what a valid field value looks like: no LF, and (when non-empty) first and last characters are visible -/
theorem fieldValue_props (v : Str) (h : isFieldValue v = true) :
    cLf ∉ v ∧ (∀ c ∈ v.head?, isWs c = false) ∧ (∀ c ∈ v.reverse.head?, isWs c = false ∧ c ≠ cLf ∧ c ≠ cCr) := by
  cases v with
  | nil => simp
  | cons a r =>
    unfold isFieldValue at h
    simp only [Bool.and_eq_true, List.all_eq_true, Bool.or_eq_true, decide_eq_true_eq] at h
    obtain ⟨⟨h1, h2⟩, h3⟩ := h
    refine ⟨?_, ?_, ?_⟩
    · intro hm
      rcases h2 _ hm with (hv | hs) | ht
      · exact (vchar_props _ hv).1 rfl
      · simp [cLf, cSp] at hs
      · simp [cLf, cTab] at ht
    · intro c hc; simp at hc; subst hc; exact (vchar_props _ h1).2.2
    · intro c hc
      rw [List.head?_reverse] at hc
      have : (a :: r).getLast? = some c := hc
      rw [this] at h3
      simp only [Option.getD_some] at h3
      have := vchar_props _ h3
      exact ⟨this.2.2, this.1, this.2.1⟩

theorem splitKeepLf_ne_nil (s : Str) : splitKeepLf s ≠ [] := by
  cases s with
  | nil => simp [splitKeepLf]
  | cons c cs => unfold splitKeepLf; split <;> (try split) <;> simp

theorem splitKeepLf_line (w rest : Str) (hw : cLf ∉ w) :
    splitKeepLf (w ++ cLf :: rest) = (w ++ [cLf]) :: splitKeepLf rest := by
  induction w with
  | nil => simp [splitKeepLf]
  | cons c cs ih =>
    simp at hw
    have hc : ¬ c = cLf := fun e => hw.1 e.symm
    simp only [List.cons_append]
    rw [splitKeepLf]
    simp only [hc, if_false]
    rw [ih hw.2]

theorem stripEol_line (w : Str) (hlast : ∀ c ∈ w.reverse.head?, c ≠ cLf ∧ c ≠ cCr) : stripEol (w ++ [cLf]) = w := by
  unfold stripEol
  have hr : (w ++ [cLf]).reverse = 10 :: w.reverse := by simp [cLf]
  rw [hr]
  cases hw : w.reverse with
  | nil =>
    have : w = [] := by simpa using hw
    simp [this]
  | cons x r =>
    have hx := hlast x (by simp [hw])
    have h10 : x ≠ 10 := hx.1
    have h13 : x ≠ 13 := hx.2
    have hwr : w = (x :: r).reverse := by rw [← hw]; simp
    split
    · rename_i heq; simp at heq; exact absurd heq.1 h10
    · rename_i heq; simp at heq; exact absurd heq.1 h10
    · rename_i heq; simp at heq; exact absurd heq.1 h13
    · rename_i r' _ _ _ heq; simp at heq; rw [hwr, ← heq]
    · rename_i hne; exact absurd rfl (hne _)

theorem splitColon_line (k rest : Str) (hk : cColon ∉ k) : splitColon (k ++ cColon :: rest) = some (k, rest) := by
  induction k with
  | nil => simp [splitColon]
  | cons c cs ih =>
    simp at hk
    have hc : ¬ c = cColon := fun e => hk.1 e.symm
    simp only [List.cons_append, splitColon, hc, if_false]
    rw [ih hk.2]; rfl

theorem stripWs_sp_value (v : Str) (h1 : ∀ c ∈ v.head?, isWs c = false) (h2 : ∀ c ∈ v.reverse.head?, isWs c = false) :
    stripWs (cSp :: v) = v := by
  unfold stripWs lstripWs rstripWs
  have hl : List.dropWhile isWs (cSp :: v) = v := by
    have : isWs cSp = true := by decide
    rw [List.dropWhile_cons_of_pos this]
    cases v with
    | nil => rfl
    | cons a r => exact List.dropWhile_cons_of_neg (by simp [h1 a (by simp)])
  rw [hl]
  cases hv : v.reverse with
  | nil => have : v = [] := by simpa using hv
           simp [this]
  | cons a r =>
    have := h2 a (by simp [hv])
    rw [List.dropWhile_cons_of_neg (by simp [this]), ← hv]; simp

def lineOf (p : Str × Str) : Str := p.1 ++ [cColon, cSp] ++ p.2 ++ [cLf]

/-- one serialised line parses back to the `add` of its name and value -/
theorem parseLine_lineOf (acc : Headers) (k v : Str) (hk : isToken k = true) (hv : isFieldValue v = true) :
    parseLine acc (lineOf (k, v)) = add acc k v := by
  obtain ⟨hkne, hklf, hkcol, hkws⟩ := token_props k hk
  obtain ⟨hvlf, hvhead, hvlast⟩ := fieldValue_props v hv
  have hstrip : stripEol (lineOf (k, v)) = k ++ cColon :: cSp :: v := by
    have : lineOf (k, v) = (k ++ cColon :: cSp :: v) ++ [cLf] := by simp [lineOf]
    rw [this]
    apply stripEol_line
    intro c hc
    cases hvr : v.reverse with
    | nil =>
      have : v = [] := by simpa using hvr
      subst this
      simp at hc; subst hc; decide
    | cons a r =>
      simp [hvr] at hc
      subst hc
      have := hvlast a (by simp [hvr])
      exact ⟨this.2.1, this.2.2⟩
  unfold parseLine
  simp only [hstrip]
  cases k with
  | nil => exact absurd rfl hkne
  | cons c cs =>
    have hc : isWs c = false := hkws c (by simp)
    simp only [List.cons_append, hc, Bool.false_eq_true, if_false]
    have := splitColon_line (c :: cs) (cSp :: v) hkcol
    simp only [List.cons_append] at this
    rw [this]
    simp only
    rw [stripWs_sp_value v hvhead (fun c hc => (hvlast c hc).1)]

theorem lineOf_noLf (k v : Str) (hk : isToken k = true) (hv : isFieldValue v = true) :
    ∃ w, lineOf (k, v) = w ++ [cLf] ∧ cLf ∉ w := by
  refine ⟨k ++ cColon :: cSp :: v, by simp [lineOf], ?_⟩
  have h1 := (token_props k hk).2.1
  have h2 := (fieldValue_props v hv).1
  simp only [List.mem_append, List.mem_cons, not_or]
  exact ⟨h1, by decide, by decide, h2⟩

def ValidPairs (ps : List (Str × Str)) : Prop := ∀ p ∈ ps, isToken p.1 = true ∧ isFieldValue p.2 = true

theorem splitKeepLf_lines (ps : List (Str × Str)) (hps : ValidPairs ps) :
    splitKeepLf (ps.flatMap lineOf) = ps.map lineOf ++ [[]] := by
  induction ps with
  | nil => simp [splitKeepLf]
  | cons p r ih =>
    obtain ⟨k, v⟩ := p
    obtain ⟨hk, hv⟩ := hps (k, v) (by simp)
    obtain ⟨w, hw1, hw2⟩ := lineOf_noLf k v hk hv
    simp only [List.flatMap_cons, List.map_cons, List.cons_append]
    rw [hw1]
    have : w ++ [cLf] ++ List.flatMap lineOf r = w ++ cLf :: List.flatMap lineOf r := by simp
    rw [this, splitKeepLf_line w _ hw2, ih (fun p hp => hps p (by simp [hp]))]

theorem parse_fold (ps : List (Str × Str)) (hps : ValidPairs ps) (acc : Headers) :
    (ps.map lineOf ++ [[]]).foldlM (fun a l => parseLine a l) acc = ps.foldlM addPair acc := by
  induction ps generalizing acc with
  | nil => simp [parseLine, stripEol]; rfl
  | cons p r ih =>
    obtain ⟨k, v⟩ := p
    obtain ⟨hk, hv⟩ := hps (k, v) (by simp)
    simp only [List.map_cons, List.cons_append, List.foldlM_cons, parseLine_lineOf acc k v hk hv, addPair]
    cases add acc k v with
    | error e => rfl
    | ok a => simp only [bind, Except.bind]; exact ih (fun p hp => hps p (by simp [hp])) a

end TornadoModel.C06
