/-
C37 — both drivers preserve `Inv` (Inv2.lean) along every schedule that settles futures according to `oc`
(core Lean only).
-/
import TornadoModel.C37.Inv2
namespace TornadoModel.C37
open TornadoModel.C36

variable {G : Type}

/-! ## the decorated driver -/

theorem Runner.runLoop_succ (gen : G → Input → Step G) (n : Nat) (w : W G) :
    Runner.runLoop gen (n + 1) w =
      if !isDone w w.aw then w else afterGen gen (Runner.runLoop gen n) w (feedOf w w.aw) := by
  rw [Runner.runLoop]; rfl

theorem Runner.start_eq (gen : G → Input → Step G) (fuel : Nat) (w : W G) :
    Runner.start gen fuel w = afterGen gen (Runner.run gen fuel) w (.send .none) := rfl

theorem inv_fuelOut (gen : G → Input → Step G) (oc : Nat → Outcome) (g0 : G) (w : W G)
    (h : Inv gen oc g0 w) : Inv gen oc g0 { w with fuelOut := true } :=
  ⟨⟨h.s.con, h.s.toks, h.s.mi⟩, h.trF, h.trU⟩

theorem inv_runLoop (gen : G → Input → Step G) (oc : Nat → Outcome) (g0 : G) (n : Nat) (w : W G)
    (h : Inv gen oc g0 w) (hf : w.finished = false) : Inv gen oc g0 (Runner.runLoop gen n w) := by
  induction n generalizing w with
  | zero => exact inv_fuelOut gen oc g0 w h
  | succ n ih =>
    rw [Runner.runLoop_succ]
    split
    · exact h
    · rename_i hd
      have hd' : isDone w w.aw = true := by simpa using hd
      rw [feed_expect oc w h.s hd']
      exact inv_afterGen gen oc g0 _ (fun w' hw' hf' _ => ih w' hw' hf') w h hf

theorem inv_run (gen : G → Input → Step G) (oc : Nat → Outcome) (g0 : G) (fuel : Nat) (w : W G)
    (h : Inv gen oc g0 w) : Inv gen oc g0 (Runner.run gen fuel w) := by
  unfold Runner.run
  split
  · exact h
  · rename_i hf
    exact inv_runLoop gen oc g0 fuel w h (by simpa using hf)

theorem inv_start (gen : G → Input → Step G) (oc : Nat → Outcome) (g0 : G) (fuel : Nat) (w : W G)
    (h : Inv gen oc g0 w) (hf : w.finished = false) (ha : w.aw = .null) :
    Inv gen oc g0 (Runner.start gen fuel w) := by
  rw [Runner.start_eq]
  have e : expect oc w = .send .none := by simp only [expect, ha]
  rw [← e]
  exact inv_afterGen gen oc g0 _ (fun w' hw' _ _ => inv_run gen oc g0 fuel w' hw') w h hf

/-! ## the native driver -/

theorem Native.handleAwait_eq (w : W G) (y : Y) : Native.handleAwait w y = Runner.handleYield w y := by
  cases y <;> rfl

theorem Native.stepLoop_succ (gen : G → Input → Step G) (n : Nat) (w : W G) :
    Native.stepLoop gen (n + 1) w = afterGen gen (Native.stepLoop gen n) w (feedOf w w.aw) := by
  rw [Native.stepLoop]
  unfold afterGen
  simp only [Native.handleAwait_eq]
  rfl

theorem inv_stepLoop (gen : G → Input → Step G) (oc : Nat → Outcome) (g0 : G) (n : Nat) (w : W G)
    (h : Inv gen oc g0 w) (hf : w.finished = false) (hd : isDone w w.aw = true) :
    Inv gen oc g0 (Native.stepLoop gen n w) := by
  induction n generalizing w with
  | zero => exact inv_fuelOut gen oc g0 w h
  | succ n ih =>
    rw [Native.stepLoop_succ, feed_expect oc w h.s hd]
    exact inv_afterGen gen oc g0 _ (fun w' hw' hf' hd' => ih w' hw' hf' hd') w h hf

theorem inv_nstep (gen : G → Input → Step G) (oc : Nat → Outcome) (g0 : G) (fuel : Nat) (w : W G)
    (h : Inv gen oc g0 w) : Inv gen oc g0 (Native.step gen fuel w) := by
  unfold Native.step
  split
  · exact h
  · rename_i hc
    simp only [Bool.or_eq_true, Bool.not_eq_true', not_or, Bool.not_eq_false] at hc
    exact inv_stepLoop gen oc g0 fuel w h (by simpa using hc.1) hc.2

/-! ## the loop -/

theorem inv_settle (gen : G → Input → Step G) (oc : Nat → Outcome) (g0 : G) (f : Nat) (w : W G)
    (h : Inv gen oc g0 w) : Inv gen oc g0 (settle f (oc f) w) := by
  unfold settle
  split
  · rename_i hl
    split
    · exact h
    · rename_i hg
      have mono : ∀ g, get w.st g ≠ none → get (w.st.set f (some (oc f))) g ≠ none :=
        fun g hg' => get_set_mono w.st f g _ hg hg'
      dsimp only
      refine ⟨⟨con_set oc w.st f hl h.s.con, ?_, ?_⟩, h.trF, h.trU⟩
      · intro t ht
        simp only [List.mem_append] at ht
        rcases ht with (ht | ht) | ht
        · have := h.s.toks t ht
          cases t with
          | env f' o => exact this
          | mcb f' => exact mono f' this
          | wake => trivial
          | runCb => trivial
        · cases hm : w.m with
          | none => rw [hm] at ht; cases ht
          | some m =>
            rw [hm] at ht
            simp only [List.mem_map, List.mem_filter] at ht
            obtain ⟨a, ⟨_, ha⟩, rfl⟩ := ht
            have : a = f := by simpa using ha
            subst this
            show C36.get _ a ≠ none
            rw [get_set_self w.st a _ hl]
            exact Option.some_ne_none _
        · split at ht
          · simp only [List.mem_singleton] at ht; subst ht; trivial
          · cases ht
      · intro m hm
        have := h.s.mi m hm
        exact ⟨fun g hg => (this.cover g hg).imp id (mono g), this.settled, this.val⟩
  · exact h

theorem inv_multiCb (gen : G → Input → Step G) (oc : Nat → Outcome) (g0 : G) (f : Nat) (w : W G)
    (h : Inv gen oc g0 w) (hf : get w.st f ≠ none) : Inv gen oc g0 (multiCb f w) := by
  unfold multiCb
  split
  · exact h
  · rename_i m hm
    have h0 := h.s.mi m hm
    have hm' : MInv oc w.st (Multi.callback f { m with st := w.st }) :=
      minv_callback oc f { m with st := w.st } h.s.con ⟨h0.cover, h0.settled, h0.val⟩ hf
    have hch : (Multi.callback f { m with st := w.st }).children = m.children := callback_children _ _
    have hexp : ∀ w' : W G, w'.aw = w.aw → w'.m = some (Multi.callback f { m with st := w.st }) →
        expect oc w' = expect oc w := by
      intro w' ha hm2
      simp only [expect, ha, hm2, hm, hch]
    dsimp only
    split
    · refine ⟨⟨h.s.con, ?_, ?_⟩, h.trF, ?_⟩
      · intro t ht
        simp only [List.mem_append, List.mem_singleton] at ht
        rcases ht with ht | ht
        · exact h.s.toks t ht
        · subst ht; trivial
      · intro m2 e
        simp only [Option.some.injEq] at e
        subst e
        exact hm'
      · intro hfin
        show TrU gen oc g0 w.log w.g (expect oc _)
        rw [hexp]
        · exact h.trU hfin
        · rfl
        · rfl
    · refine ⟨⟨h.s.con, h.s.toks, ?_⟩, h.trF, ?_⟩
      · intro m2 e
        simp only [Option.some.injEq] at e
        subst e
        exact hm'
      · intro hfin
        show TrU gen oc g0 w.log w.g (expect oc _)
        rw [hexp]
        · exact h.trU hfin
        · rfl
        · rfl

theorem inv_exec (gen : G → Input → Step G) (oc : Nat → Outcome) (g0 : G) (resume : W G → W G)
    (hres : ∀ w, Inv gen oc g0 w → Inv gen oc g0 (resume w))
    (t : Tok) (w : W G) (h : Inv gen oc g0 w) (ht : TokOk oc w.st t) : Inv gen oc g0 (exec resume t w) := by
  cases t with
  | env f o =>
    have : o = oc f := ht
    subst this
    exact inv_settle gen oc g0 f w h
  | mcb f => exact inv_multiCb gen oc g0 f w h ht
  | wake => exact hres w h
  | runCb => exact hres w h

theorem inv_tickN (gen : G → Input → Step G) (oc : Nat → Outcome) (g0 : G) (resume : W G → W G)
    (hres : ∀ w, Inv gen oc g0 w → Inv gen oc g0 (resume w))
    (n : Nat) (w : W G) (h : Inv gen oc g0 w) : Inv gen oc g0 (tickN resume n w) := by
  induction n generalizing w with
  | zero => exact h
  | succ n ih =>
    unfold tickN
    split
    · exact h
    · rename_i t r hr
      apply ih
      have h' : Inv gen oc g0 ({ w with ready := r } : W G) :=
        ⟨⟨h.s.con, fun t' ht' => h.s.toks t' (by rw [hr]; exact List.mem_cons_of_mem _ ht'), h.s.mi⟩,
          h.trF, h.trU⟩
      exact inv_exec gen oc g0 resume hres t _ h' (h.s.toks t (by rw [hr]; exact List.mem_cons_self))

/-- the schedule settles futures according to `oc` -/
def OpOk (oc : Nat → Outcome) : Op → Prop
  | .set f o => o = oc f
  | .soon f o => o = oc f
  | .tick => True

theorem inv_step (gen : G → Input → Step G) (oc : Nat → Outcome) (g0 : G) (resume : W G → W G)
    (hres : ∀ w, Inv gen oc g0 w → Inv gen oc g0 (resume w))
    (w : W G) (op : Op) (h : Inv gen oc g0 w) (hop : OpOk oc op) : Inv gen oc g0 (step resume w op) := by
  cases op with
  | set f o =>
    have : o = oc f := hop
    subst this
    exact inv_settle gen oc g0 f w h
  | soon f o =>
    refine ⟨⟨h.s.con, ?_, h.s.mi⟩, h.trF, h.trU⟩
    intro t ht
    simp only [step, List.mem_append, List.mem_singleton] at ht
    rcases ht with ht | ht
    · exact h.s.toks t ht
    · subst ht; exact hop
  | tick => exact inv_tickN gen oc g0 resume hres _ w h

theorem inv_runOps (gen : G → Input → Step G) (oc : Nat → Outcome) (g0 : G) (resume : W G → W G)
    (hres : ∀ w, Inv gen oc g0 w → Inv gen oc g0 (resume w))
    (ops : List Op) (w : W G) (h : Inv gen oc g0 w) (hops : ∀ op ∈ ops, OpOk oc op) :
    Inv gen oc g0 (runOps resume w ops) := by
  induction ops generalizing w with
  | nil => exact h
  | cons op ops ih =>
    exact ih _ (inv_step gen oc g0 resume hres w op h (hops op List.mem_cons_self))
      (fun o ho => hops o (List.mem_cons_of_mem _ ho))

theorem inv_init (gen : G → Input → Step G) (oc : Nat → Outcome) (st : List FState) (g : G)
    (hst : ∀ f o, st[f]? = some (some o) → o = oc f) : Inv gen oc g (init st g) := by
  refine ⟨⟨?_, ?_, ?_⟩, ?_, ?_⟩
  · intro f o hg
    apply hst f o
    have hg' : (st[f]?).join = some o := hg
    cases h : st[f]? with
    | none => rw [h] at hg'; cases hg'
    | some x => rw [h] at hg'; simp only [Option.join_some] at hg'; rw [hg']
  · intro t ht; cases ht
  · intro m hm; cases hm
  · intro hf; cases hf
  · intro _ k
    simp only [init, expect, List.length_nil, Nat.zero_add, List.nil_append]

theorem opOk_of (oc : Nat → Outcome) (ops : List Op)
    (h : ∀ f o, Op.set f o ∈ ops ∨ Op.soon f o ∈ ops → o = oc f) : ∀ op ∈ ops, OpOk oc op := by
  intro op hop
  cases op with
  | set f o => exact h f o (Or.inl hop)
  | soon f o => exact h f o (Or.inr hop)
  | tick => trivial

/-- the decorated driver keeps the invariant along every `oc`-schedule -/
theorem inv_runner_exec (gen : G → Input → Step G) (oc : Nat → Outcome) (fuel : Nat) (st : List FState) (g : G)
    (ops : List Op) (hops : ∀ f o, Op.set f o ∈ ops ∨ Op.soon f o ∈ ops → o = oc f)
    (hst : ∀ f o, st[f]? = some (some o) → o = oc f) : Inv gen oc g (Runner.exec gen fuel st g ops) := by
  unfold Runner.exec
  exact inv_runOps gen oc g _ (fun w hw => inv_run gen oc g fuel w hw) ops _
    (inv_start gen oc g fuel _ (inv_init gen oc st g hst) rfl rfl) (opOk_of oc ops hops)

/-- the native driver keeps the invariant along every `oc`-schedule -/
theorem inv_native_exec (gen : G → Input → Step G) (oc : Nat → Outcome) (fuel : Nat) (st : List FState) (g : G)
    (ops : List Op) (hops : ∀ f o, Op.set f o ∈ ops ∨ Op.soon f o ∈ ops → o = oc f)
    (hst : ∀ f o, st[f]? = some (some o) → o = oc f) : Inv gen oc g (Native.exec gen fuel st g ops) := by
  unfold Native.exec
  have h0 := inv_init gen oc st g hst
  have h1 : Inv gen oc g (Native.start (init st g)) := by
    refine ⟨⟨h0.s.con, ?_, h0.s.mi⟩, h0.trF, h0.trU⟩
    intro t ht
    simp only [Native.start, List.mem_append, List.mem_singleton] at ht
    rcases ht with ht | ht
    · exact h0.s.toks t ht
    · subst ht; trivial
  exact inv_runOps gen oc g _ (fun w hw => inv_nstep gen oc g fuel w hw) ops _ h1 (opOk_of oc ops hops)

/-! ## consequences -/

theorem canon_len (gen : G → Input → Step G) (oc : Nat → Outcome) (k : Nat) (g : G) (inp : Input)
    (l : List Ev) (r : ROut) (h : canon gen oc k g inp = (l, some r)) :
    canon gen oc l.length g inp = (l, some r) := by
  induction k generalizing g inp l with
  | zero => simp [canon] at h
  | succ k ih =>
    simp only [canon] at h
    cases hg : gen g inp with
    | ret effs v =>
      simp only [hg] at h
      obtain ⟨rfl, hr⟩ := Prod.mk.inj h
      simp only [List.length_singleton, canon, hg, hr]
    | raise effs e =>
      simp only [hg] at h
      obtain ⟨rfl, hr⟩ := Prod.mk.inj h
      simp only [List.length_singleton, canon, hg, hr]
    | yield effs y g' =>
      simp only [hg] at h
      obtain ⟨rfl, h2⟩ := Prod.mk.inj h
      have := ih g' (awaitVal oc y) _ (Prod.ext rfl h2)
      simp only [List.length_cons, canon, hg, this]

theorem canon_prefix (gen : G → Input → Step G) (oc : Nat → Outcome) (k k' : Nat) (hk : k ≤ k') (g : G) (inp : Input) :
    (canon gen oc k g inp).1 <+: (canon gen oc k' g inp).1 := by
  induction k generalizing g inp k' with
  | zero => simp [canon]
  | succ k ih =>
    obtain ⟨k', rfl⟩ : ∃ j, k' = j + 1 := ⟨k' - 1, by omega⟩
    simp only [canon]
    cases hg : gen g inp with
    | ret effs v => exact List.prefix_refl _
    | raise effs e => exact List.prefix_refl _
    | yield effs y g' =>
      simp only []
      exact (List.prefix_cons_inj _).mpr (ih k' (by omega) g' (awaitVal oc y))

/-- the log is exactly the first `log.length` resumptions of the untimed meaning — at every point of the run -/
theorem inv_log (gen : G → Input → Step G) (oc : Nat → Outcome) (g0 : G) (w : W G) (h : Inv gen oc g0 w) :
    (canon gen oc w.log.length g0 (.send .none)).1 = w.log := by
  cases hf : w.finished with
  | true =>
    obtain ⟨k, r, _, hc⟩ := h.trF hf
    rw [canon_len gen oc k g0 _ w.log r hc]
  | false =>
    have := h.trU hf 0
    rw [Nat.add_zero] at this
    rw [this]
    simp [canon]

theorem logs_comparable (gen : G → Input → Step G) (oc : Nat → Outcome) (g0 : G) (w1 w2 : W G)
    (h1 : Inv gen oc g0 w1) (h2 : Inv gen oc g0 w2) : w1.log <+: w2.log ∨ w2.log <+: w1.log := by
  rw [← inv_log gen oc g0 w1 h1, ← inv_log gen oc g0 w2 h2]
  rcases Nat.le_total w1.log.length w2.log.length with h | h
  · exact Or.inl (canon_prefix gen oc _ _ h g0 _)
  · exact Or.inr (canon_prefix gen oc _ _ h g0 _)

end TornadoModel.C37
