/-
C37 — specification side.
* `Native.*`: an `async def` coroutine run as an asyncio Task (`Task.__step` / `__wakeup`): first step by
  `call_soon`, `await fut` returns at once when the future is done and otherwise registers a wake-up,
  `await asyncio.sleep(0)` reschedules the step with `call_soon`.
* `canon`: the untimed meaning of a coroutine body — every awaited thing evaluates to its outcome.
-/
import TornadoModel.C37.Model
import TornadoModel.C36.Spec
namespace TornadoModel.C37
open TornadoModel.C36

variable {G : Type}

namespace Native

/-- `await y` inside the coroutine; the Bool says the value is available without suspending -/
def handleAwait (w : W G) : Y → W G × Bool
  | .moment => ({ w with aw := .moment, ready := w.ready ++ [Tok.runCb] }, false)
  | .fut f =>
    let w := { w with aw := Aw.fut f }
    if isDone w (.fut f) then (w, true) else ({ w with wakeFut := some f }, false)
  | .list fs =>
    let w := { w with m := some (mkMulti w fs), aw := Aw.multi }
    if isDone w .multi then (w, true) else ({ w with wakeMulti := true }, false)

def finish (w : W G) (r : ROut) : W G :=
  { w with finished := true, aw := .null, result := some r }

/-- `Task.__step`: resume the coroutine until it suspends or ends -/
def stepLoop (gen : G → Input → Step G) : Nat → W G → W G
  | 0, w => { w with fuelOut := true }
  | n + 1, w =>
    let inp := feedOf w w.aw
    match gen w.g inp with
    | .ret effs v => finish { w with log := w.log ++ [⟨inp, effs, .returned v⟩] } (.result v)
    | .raise effs e => finish { w with log := w.log ++ [⟨inp, effs, .raised e⟩] } (.exc e)
    | .yield effs y g' =>
      let w := { w with g := g', log := w.log ++ [⟨inp, effs, .yielded y⟩] }
      let (w, go) := handleAwait w y
      if go then stepLoop gen n w else w

/-- wake-up / step callback of the task (a finished task has no callbacks left; a wake-up only comes from the
    future the task is blocked on, which is then done) -/
def step (gen : G → Input → Step G) (fuel : Nat) (w : W G) : W G :=
  if w.finished || !isDone w w.aw then w else stepLoop gen fuel w

/-- `asyncio.ensure_future(coro())`: the first step is scheduled, not run -/
def start (w : W G) : W G := { w with ready := w.ready ++ [Tok.runCb] }

def exec (gen : G → Input → Step G) (fuel : Nat) (st : List FState) (g : G) (ops : List Op) : W G :=
  runOps (step gen fuel) (start (init st g)) ops

end Native

/-- the outcome of an awaited thing under the outcome assignment `oc` of the input futures -/
def awaitVal (oc : Nat → Outcome) : Y → Input
  | .moment => .send .none
  | .fut f => match oc f with
    | .result v => .send (.n v)
    | .exc e => .throw e
    | .cancelled => .throw C36.cancelledErr
  | .list fs => match C36.Spec.multi (fs.map oc) with
    | .vals vs => .send (.l vs)
    | .exc e => .throw e

/-- untimed run of the body: the sequence of resumptions and the final outcome (`none`: fuel exhausted) -/
def canon (gen : G → Input → Step G) (oc : Nat → Outcome) : Nat → G → Input → List Ev × Option ROut
  | 0, _, _ => ([], none)
  | n + 1, g, inp =>
    match gen g inp with
    | .ret effs v => ([⟨inp, effs, .returned v⟩], some (.result v))
    | .raise effs e => ([⟨inp, effs, .raised e⟩], some (.exc e))
    | .yield effs y g' =>
      let r := canon gen oc n g' (awaitVal oc y)
      (⟨inp, effs, .yielded y⟩ :: r.1, r.2)

end TornadoModel.C37
