/- C37 — property theorems. -/
import TornadoModel.C37.Lemmas
import TornadoModel.C37.Refine
import TornadoModel.C37.Live
namespace TornadoModel.C37
open TornadoModel.C36

variable {G : Type}

/-- the decorator's inlined first `next(gen)` + `Runner.__init__` is exactly `Runner.run` started on
    `_null_future` (its first `send(None)`), for EVERY generator -/
theorem fast_path_eq (gen : G → Input → Step G) (fuel : Nat) (w : W G)
    (hf : w.finished = false) (ha : w.aw = .null) :
    Runner.start gen fuel w = Runner.run gen (fuel + 1) w := by
  have e : Runner.run gen (fuel + 1) w = Runner.runLoop gen (fuel + 1) w := by
    simp [Runner.run, hf]
  rw [e, Runner.runLoop]
  unfold Runner.start Runner.run
  simp only [ha, isDone, feedOf, Bool.not_true, Bool.false_eq_true, ↓reduceIte]
  split
  · rfl
  · rfl
  · simp only [Runner.handleYield_finished, hf, Bool.false_eq_true, ↓reduceIte]

example : (init [none] (Code.load [.yld (.fut 0)])).finished = false ∧
    (init [none] (Code.load [.yld (.fut 0)])).aw = .null := ⟨rfl, rfl⟩

/-- the result future is settled once: after it is set, no schedule changes it, and the generator is never
    resumed again (the log of resumptions is frozen) — for every generator and every schedule -/
theorem result_settled_once (gen : G → Input → Step G) (fuel : Nat) (st : List FState) (g : G)
    (ops1 ops2 : List Op) (r : ROut)
    (h : (Runner.exec gen fuel st g ops1).result = some r) :
    (Runner.exec gen fuel st g (ops1 ++ ops2)).result = some r ∧
    (Runner.exec gen fuel st g (ops1 ++ ops2)).log = (Runner.exec gen fuel st g ops1).log := by
  unfold Runner.exec at *
  rw [runOps_append]
  have hs0 : Runner.Sync (Runner.start gen fuel (init st g)) :=
    Runner.sync_start gen fuel _ (by simp [Runner.Sync, init]) (by simp [init])
  have hs := sync_runOps (Runner.run gen fuel) (fun w hw => Runner.sync_run gen fuel w hw) ops1 _ hs0
  have hfin : (runOps (Runner.run gen fuel) (Runner.start gen fuel (init st g)) ops1).finished = true := by
    have := hs; simp only [Runner.Sync, h, Option.isSome_some] at this; exact this.symm
  have fr := frozen_runOps gen fuel (some r) _ ops2 _ ⟨hfin, h, rfl⟩
  exact ⟨fr.2.1, fr.2.2⟩

example : (Runner.exec Code.gen 9 [none] (Code.load [.yld (.fut 0), .retLast]) [.set 0 (.result 5), .tick]).result
    = some (.result (.n 5)) := by decide

/-- `yield gen.moment` / `yield None`: the generator is not resumed in this iteration, exactly one callback is
    queued behind everything already ready, and when it runs the generator is resumed with `send(None)`
    whatever the state of any future -/
theorem moment_yields_one_iteration (gen : G → Input → Step G) (fuel : Nat) (w : W G) :
    (Runner.handleYield w .moment).2 = false ∧
    (Runner.handleYield w .moment).1.ready = w.ready ++ [Tok.runCb] ∧
    (Runner.handleYield w .moment).1.log = w.log ∧
    (Runner.handleYield w .moment).1.aw = .moment ∧
    (∀ w2 : W G, w2.aw = .moment → w2.finished = false →
      ∃ ev rest, (exec (Runner.run gen (fuel + 1)) Tok.runCb w2).log = w2.log ++ ev :: rest ∧
        ev.inp = .send .none) := by
  refine ⟨rfl, rfl, rfl, rfl, ?_⟩
  intro w2 ha hf
  simp only [exec, Runner.run, hf, Bool.false_eq_true, ↓reduceIte]
  unfold Runner.runLoop
  simp only [ha, isDone, feedOf, Bool.not_true, Bool.false_eq_true, ↓reduceIte]
  split
  · exact ⟨_, [], rfl, rfl⟩
  · exact ⟨_, [], rfl, rfl⟩
  · split
    · obtain ⟨rest, hr⟩ := Runner.runLoop_log gen fuel (Runner.handleYield _ _).1
      rw [hr, Runner.handleYield_log]
      exact ⟨⟨_, _, _⟩, rest, by rw [List.append_assoc]; rfl, rfl⟩
    · rw [Runner.handleYield_log]
      exact ⟨_, [], rfl, rfl⟩

/-! Context variable in the flat-code instance (tie only; the examples pin the modelled behaviour): every
    resumption runs in the coroutine's one context, so what the body wrote before a suspension on a PENDING
    future or a moment it reads back afterwards, a `Token` taken before a suspension resets afterwards, and the
    caller's value (77) is visible until the body overwrites it — for the decorated and the native driver. -/
example : effects (Runner.exec Code.gen 9 [none]
      (Code.load [.cread, .yld (.fut 0), .cset 80, .yld .moment, .cread] 77) [.set 0 (.result 10), .tick, .tick])
    = [.k 77, .got (.n 10), .got .none, .k 80] := by decide
example : effects (Native.exec Code.gen 9 [none]
      (Code.load [.cread, .yld (.fut 0), .cset 80, .yld .moment, .cread] 77) [.tick, .set 0 (.result 10), .tick, .tick])
    = [.k 77, .got (.n 10), .got .none, .k 80] := by decide
example : effects (Runner.exec Code.gen 9 [none]
      (Code.load [.tset 83, .cread, .yld (.fut 0), .treset, .treset] 77) [.set 0 (.result 10), .tick])
    = [.k 83, .got (.n 10), .k 77, .k Code.noToken] := by decide

/-- THE principal theorem (full statement: futures, lists/dicts through `multi`, moment/None, return, raise; no
    side condition on the generator).  For every generator `gen` over every state type (an arbitrary resumable
    object), every outcome assignment `oc` of the input futures and every schedule `ops` (any interleaving of
    settle-now / settle-by-call_soon / loop iterations, i.e. every completion order) that settles futures according
    to `oc`, from any initial state `st` of the futures consistent with `oc`: when the decorated driver (`Runner`,
    the model of `@gen.coroutine`) and the native driver (`Native`, the specification: `async def` run as a task)
    have both finished, they have fed the generator the same sequence of inputs and observed the same
    effects/outputs (`log`), settled the result future with the same outcome, and both equal the untimed meaning
    `canon` of the body.  How many loop iterations a step takes is not compared.  (The `fuelOut` hypotheses of
    the stated goal are kept but not needed by the proof.) -/
theorem runner_refines_native (gen : G → Input → Step G) (oc : Nat → Outcome) (fuel : Nat) (st : List FState)
    (g : G) (ops : List Op) :
    (∀ f o, Op.set f o ∈ ops ∨ Op.soon f o ∈ ops → o = oc f) → (∀ f o, st[f]? = some (some o) → o = oc f) →
    let d := Runner.exec gen fuel st g ops
    let n := Native.exec gen fuel st g ops
    d.fuelOut = false → n.fuelOut = false → d.finished = true → n.finished = true →
      d.log = n.log ∧ d.result = n.result ∧
      ∃ k, canon gen oc k g (.send .none) = (d.log, d.result) := by
  intro hops hst d n _ _ hd hn
  have id := inv_runner_exec gen oc fuel st g ops hops hst
  have inn := inv_native_exec gen oc fuel st g ops hops hst
  have fd := id.trF hd
  have fn := inn.trF hn
  obtain ⟨e1, e2⟩ := trF_unique gen oc g _ _ _ _ fd fn
  obtain ⟨k, r, hr, hc⟩ := fd
  exact ⟨e1, e2, k, by rw [hc]; exact Prod.ext rfl hr.symm⟩

/-- the goal as it was stated (generator state type fixed to the flat-code state) is an instance -/
theorem runner_refines_native_flat :
    ∀ (gen : Code.PS → Input → Step Code.PS) (oc : Nat → Outcome) (fuel : Nat) (st : List FState) (g : Code.PS)
      (ops : List Op),
      (∀ f o, Op.set f o ∈ ops ∨ Op.soon f o ∈ ops → o = oc f) → (∀ f o, st[f]? = some (some o) → o = oc f) →
      let d := Runner.exec gen fuel st g ops
      let n := Native.exec gen fuel st g ops
      d.fuelOut = false → n.fuelOut = false → d.finished = true → n.finished = true →
        d.log = n.log ∧ d.result = n.result ∧
        ∃ k, canon gen oc k g (.send .none) = (d.log, d.result) :=
  fun gen oc fuel st g ops => runner_refines_native gen oc fuel st g ops

/-- non-vacuity: a body that awaits a pending future, a list (one child already failed), a moment, catches the
    exception and returns — both drivers finish under this schedule, within the fuel, with a 5-event log -/
example :
    let ops := [Op.soon 1 (.result 7), .tick, .set 0 (.result 5), .tick, .tick, .tick, .tick, .tick]
    let oc : Nat → Outcome := fun f => if f = 0 then .result 5 else if f = 1 then .result 7 else .exc 9
    let st : List FState := [none, none, some (.exc 9)]
    let code := [Code.Instr.push 5, .yld (.fut 0), .eff 1, .yld (.list [1, 2, 0]), .eff 2, .caught, .yld .moment,
                 .yld (.list [0, 1]), .retLast]
    let d := Runner.exec Code.gen 9 st (Code.load code) ops
    let n := Native.exec Code.gen 9 st (Code.load code) ops
    (∀ f o, Op.set f o ∈ ops ∨ Op.soon f o ∈ ops → o = oc f) ∧ (∀ f o, st[f]? = some (some o) → o = oc f) ∧
    d.fuelOut = false ∧ n.fuelOut = false ∧ d.finished = true ∧ n.finished = true ∧
    d.result = some (.result (.l [5, 7])) ∧ d.log.length = 5 := by
  refine ⟨?_, ?_, by decide, by decide, by decide, by decide, by decide, by decide⟩
  · intro f o h
    simp only [List.mem_cons, Op.set.injEq, Op.soon.injEq, reduceCtorEq, List.not_mem_nil, or_false, false_or] at h
    rcases h with ⟨rfl, rfl⟩ | ⟨rfl, rfl⟩ <;> rfl
  · intro f o h
    match f, h with
    | 2, h => simp at h; subst h; rfl

/-- CANCELLED outcomes (the hypotheses of `runner_refines_native` admit `oc f = .cancelled`): `CancelledError` is
    thrown into the body by both drivers; a list with a cancelled child fails with `CancelledError` -/
example : (Runner.exec Code.gen 9 [none] (Code.load [.yld (.fut 0), .retLast]) [.set 0 .cancelled, .tick]).result
    = some (.exc cancelledErr) := by decide
example : (Native.exec Code.gen 9 [none] (Code.load [.yld (.fut 0), .retLast]) [.tick, .set 0 .cancelled, .tick]).result
    = some (.exc cancelledErr) := by decide
example : (Runner.exec Code.gen 9 [some .cancelled, some (.result 7)]
      (Code.load [.yld (.list [1, 0]), .retLast]) []).result = some (.exc cancelledErr) := by decide

/-- LIVENESS of the decorated driver, for every generator, every initial state of the futures and every schedule
    (no assumption on outcomes: results, exceptions, cancellations, spurious settles): whenever the event loop is
    idle (`ready = []`) and the coroutine has not finished (and the model's fuel bound was not hit), the driver is
    blocked on an input future that is still PENDING, or on a `multi` future that is still unsettled, and its
    wake-up callback is registered there.  Contrapositive: once the future it awaits has completed — with a result,
    an exception or by CANCELLATION — and the loop has drained, the coroutine has finished; it can never be left
    hanging on a completed future (which is what the code did for a cancelled future before the fix recorded in
    known_findings/C37.json).  That a `multi` future whose children have all completed settles once the loop has
    drained is C36's `multi_settles`/`multi_never_pending` (stated for the stand-alone multi machine) and the tie. -/
theorem runner_live (gen : G → Input → Step G) (fuel : Nat) (st : List FState) (g : G) (ops : List Op) :
    let d := Runner.exec gen fuel st g ops
    d.ready = [] → d.finished = false → d.fuelOut = false →
      (∃ f, d.aw = .fut f ∧ get d.st f = none ∧ d.wakeFut = some f) ∨
      (d.aw = .multi ∧ (∀ m, d.m = some m → m.out = none) ∧ d.wakeMulti = true) := by
  intro d hr hf hfo
  exact live_idle d (live_runner_exec gen fuel st g ops) hr hf hfo

/-- non-vacuity: an idle loop with an unfinished coroutine blocked on a list whose child 1 is pending … -/
example :
    let d := Runner.exec Code.gen 9 [none, none] (Code.load [.yld (.fut 0), .yld (.list [0, 1]), .retLast])
      [.set 0 (.result 4), .tick, .tick]
    d.ready = [] ∧ d.finished = false ∧ d.fuelOut = false ∧ d.aw = .multi ∧ get d.st 1 = none := by decide
/-- … and the cancelled awaited future does not leave it hanging -/
example :
    let d := Runner.exec Code.gen 9 [none, none] (Code.load [.yld (.fut 0), .yld (.list [0, 1]), .retLast])
      [.set 0 .cancelled, .tick, .tick]
    d.ready = [] ∧ d.finished = true ∧ d.result = some (.exc cancelledErr) := by decide

/-- the same at EVERY point of every schedule (nothing need have finished): each driver's log of resumptions is
    exactly the first `log.length` resumptions of the untimed meaning, so at any moment one driver's log is a
    prefix of the other's — the faster one has only got further in the same sequence of inputs fed / effects
    and outputs observed -/
theorem runner_native_prefix (gen : G → Input → Step G) (oc : Nat → Outcome) (fuel : Nat) (st : List FState)
    (g : G) (ops : List Op)
    (hops : ∀ f o, Op.set f o ∈ ops ∨ Op.soon f o ∈ ops → o = oc f)
    (hst : ∀ f o, st[f]? = some (some o) → o = oc f) :
    let d := Runner.exec gen fuel st g ops
    let n := Native.exec gen fuel st g ops
    (canon gen oc d.log.length g (.send .none)).1 = d.log ∧
    (canon gen oc n.log.length g (.send .none)).1 = n.log ∧
    (d.log <+: n.log ∨ n.log <+: d.log) := by
  intro d n
  have id := inv_runner_exec gen oc fuel st g ops hops hst
  have inn := inv_native_exec gen oc fuel st g ops hops hst
  exact ⟨inv_log gen oc g _ id, inv_log gen oc g _ inn, logs_comparable gen oc g _ _ id inn⟩

/-- non-vacuity: mid-run the decorated driver (first step inline) is strictly ahead of the native one -/
example :
    let ops := [Op.set 0 (.result 5)]
    let d := Runner.exec Code.gen 9 [none] (Code.load [.yld (.fut 0), .retLast]) ops
    let n := Native.exec Code.gen 9 [none] (Code.load [.yld (.fut 0), .retLast]) ops
    d.log.length = 1 ∧ n.log.length = 0 ∧ d.finished = false := by decide

end TornadoModel.C37
