/- C37 — property theorems (proved ones) and the goals left to the tie (`*_goal : Prop`). -/
import TornadoModel.C37.Lemmas
namespace TornadoModel.C37
open TornadoModel.C36

variable {G : Type}

/-- the decorator's inlined first `next(gen)` + `Runner.__init__` is exactly `Runner.run` started on
    `_null_future` (its first `send(None)`), for EVERY generator -/
theorem fast_path_eq (gen : G → Input → Step G) (fuel : Nat) (w : W G)
    (hf : w.finished = false) (ha : w.aw = .null) :
    Runner.start gen fuel w = Runner.run gen (fuel + 1) w := by
  have e : Runner.run gen (fuel + 1) w = Runner.runLoop gen (fuel + 1) w := by
    simp [Runner.run, hf]
  rw [e, Runner.runLoop]
  unfold Runner.start Runner.run
  simp only [ha, isDone, feedOf, Bool.not_true, Bool.false_eq_true, ↓reduceIte]
  split
  · rfl
  · rfl
  · simp only [Runner.handleYield_finished, hf, Bool.false_eq_true, ↓reduceIte]

example : (init [none] (Code.load [.yld (.fut 0)])).finished = false ∧
    (init [none] (Code.load [.yld (.fut 0)])).aw = .null := ⟨rfl, rfl⟩

/-- the result future is settled once: after it is set, no schedule changes it, and the generator is never
    resumed again (the log of resumptions is frozen) — for every generator and every schedule -/
theorem result_settled_once (gen : G → Input → Step G) (fuel : Nat) (st : List FState) (g : G)
    (ops1 ops2 : List Op) (r : ROut)
    (h : (Runner.exec gen fuel st g ops1).result = some r) :
    (Runner.exec gen fuel st g (ops1 ++ ops2)).result = some r ∧
    (Runner.exec gen fuel st g (ops1 ++ ops2)).log = (Runner.exec gen fuel st g ops1).log := by
  unfold Runner.exec at *
  rw [runOps_append]
  have hs0 : Runner.Sync (Runner.start gen fuel (init st g)) :=
    Runner.sync_start gen fuel _ (by simp [Runner.Sync, init]) (by simp [init])
  have hs := sync_runOps (Runner.run gen fuel) (fun w hw => Runner.sync_run gen fuel w hw) ops1 _ hs0
  have hfin : (runOps (Runner.run gen fuel) (Runner.start gen fuel (init st g)) ops1).finished = true := by
    have := hs; simp only [Runner.Sync, h, Option.isSome_some] at this; exact this.symm
  have fr := frozen_runOps gen fuel (some r) _ ops2 _ ⟨hfin, h, rfl⟩
  exact ⟨fr.2.1, fr.2.2⟩

example : (Runner.exec Code.gen 9 [none] (Code.load [.yld (.fut 0), .retLast]) [.set 0 (.result 5), .tick]).result
    = some (.result (.n 5)) := by decide

/-- `yield gen.moment` / `yield None`: the generator is not resumed in this iteration, exactly one callback is
    queued behind everything already ready, and when it runs the generator is resumed with `send(None)`
    whatever the state of any future -/
theorem moment_yields_one_iteration (gen : G → Input → Step G) (fuel : Nat) (w : W G) :
    (Runner.handleYield w .moment).2 = false ∧
    (Runner.handleYield w .moment).1.ready = w.ready ++ [Tok.runCb] ∧
    (Runner.handleYield w .moment).1.log = w.log ∧
    (Runner.handleYield w .moment).1.aw = .moment ∧
    (∀ w2 : W G, w2.aw = .moment → w2.finished = false →
      ∃ ev rest, (exec (Runner.run gen (fuel + 1)) Tok.runCb w2).log = w2.log ++ ev :: rest ∧
        ev.inp = .send .none) := by
  refine ⟨rfl, rfl, rfl, rfl, ?_⟩
  intro w2 ha hf
  simp only [exec, Runner.run, hf, Bool.false_eq_true, ↓reduceIte]
  unfold Runner.runLoop
  simp only [ha, isDone, feedOf, Bool.not_true, Bool.false_eq_true, ↓reduceIte]
  split
  · exact ⟨_, [], rfl, rfl⟩
  · exact ⟨_, [], rfl, rfl⟩
  · split
    · obtain ⟨rest, hr⟩ := Runner.runLoop_log gen fuel (Runner.handleYield _ _).1
      rw [hr, Runner.handleYield_log]
      exact ⟨⟨_, _, _⟩, rest, by rw [List.append_assoc]; rfl, rfl⟩
    · rw [Runner.handleYield_log]
      exact ⟨_, [], rfl, rfl⟩

/-! Context variable in the flat-code instance (tie only; the examples pin the modelled behaviour): every
    resumption runs in the coroutine's one context, so what the body wrote before a suspension on a PENDING
    future or a moment it reads back afterwards, a `Token` taken before a suspension resets afterwards, and the
    caller's value (77) is visible until the body overwrites it — for the decorated and the native driver. -/
example : effects (Runner.exec Code.gen 9 [none]
      (Code.load [.cread, .yld (.fut 0), .cset 80, .yld .moment, .cread] 77) [.set 0 (.result 10), .tick, .tick])
    = [.k 77, .got (.n 10), .got .none, .k 80] := by decide
example : effects (Native.exec Code.gen 9 [none]
      (Code.load [.cread, .yld (.fut 0), .cset 80, .yld .moment, .cread] 77) [.tick, .set 0 (.result 10), .tick, .tick])
    = [.k 77, .got (.n 10), .got .none, .k 80] := by decide
example : effects (Runner.exec Code.gen 9 [none]
      (Code.load [.tset 83, .cread, .yld (.fut 0), .treset, .treset] 77) [.set 0 (.result 10), .tick])
    = [.k 83, .got (.n 10), .k 77, .k Code.noToken] := by decide

/-- goal (tie only): for every generator, outcome assignment `oc` and schedule that settles futures according
    to `oc`, the decorated driver and the native driver have both fed the generator a prefix of the untimed
    meaning `canon`, and once finished they agree with it (hence with each other) in log and outcome -/
def runner_refines_native_goal : Prop :=
  ∀ (gen : Code.PS → Input → Step Code.PS) (oc : Nat → Outcome) (fuel : Nat) (st : List FState) (g : Code.PS)
    (ops : List Op),
    (∀ f o, Op.set f o ∈ ops ∨ Op.soon f o ∈ ops → o = oc f) → (∀ f o, st[f]? = some (some o) → o = oc f) →
    let d := Runner.exec gen fuel st g ops
    let n := Native.exec gen fuel st g ops
    d.fuelOut = false → n.fuelOut = false → d.finished = true → n.finished = true →
      d.log = n.log ∧ d.result = n.result ∧
      ∃ k, canon gen oc k g (.send .none) = (d.log, d.result)

end TornadoModel.C37
