import TornadoModel.C37.Spec
namespace TornadoModel.C37
end TornadoModel.C37
