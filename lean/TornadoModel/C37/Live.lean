/-
C37 — liveness of the decorated driver (core Lean only).

`Live` is kept by `Runner.start` and by every op of every schedule (no assumption on outcomes): the driver has
finished, or it is blocked on something that is NOT done and has its wake-up registered there, or what it awaits
IS done and a callback that resumes it (`wake` / `runCb`) is queued.  Hence: whenever the loop is idle and the
coroutine has not finished, the future it awaits is still pending (`runner_live` in Props.lean) — a settled
(result, exception or CANCELLED) awaited future never leaves the coroutine hanging.
-/
import TornadoModel.C37.Inv2
namespace TornadoModel.C37
open TornadoModel.C36

variable {G : Type}

/-- the driver's wake-up is registered on what it awaits -/
def Reg (w : W G) : Prop :=
  match w.aw with
  | .fut f => w.wakeFut = some f
  | .multi => w.wakeMulti = true
  | _ => False

/-- a loop callback that re-enters `Runner.run` -/
def ResumeTok (t : Tok) : Prop := t = Tok.wake ∨ t = Tok.runCb

def Live (w : W G) : Prop :=
  w.finished = true ∨ w.fuelOut = true ∨ (isDone w w.aw = false ∧ Reg w) ∨
  (isDone w w.aw = true ∧ ∃ t ∈ w.ready, ResumeTok t)

theorem isDone_mono (w w' : W G) (a : Aw) (hm : w'.m = w.m)
    (hs : ∀ g, get w.st g ≠ none → get w'.st g ≠ none) (h : isDone w a = true) : isDone w' a = true := by
  cases a with
  | null => rfl
  | moment => rfl
  | fut f =>
    simp only [isDone, Option.isSome_iff_ne_none] at h ⊢
    exact hs f h
  | multi =>
    simp only [isDone, hm] at h ⊢
    exact h

theorem callback_out_isSome (f : Nat) (s : Multi.S) (h : s.out.isSome = true) :
    (Multi.callback f s).out.isSome = true := by
  obtain ⟨x, hx⟩ := Option.isSome_iff_exists.mp h
  simp only [Multi.callback]
  split
  · rw [Multi.finish_keeps { s with unfinished := s.unfinished.erase f } x hx]; rfl
  · simp [hx]

namespace Runner

theorem handleYield_live (w : W G) (y : Y) :
    ((handleYield w y).2 = true → isDone (handleYield w y).1 (handleYield w y).1.aw = true) ∧
    ((handleYield w y).2 = false → Live (handleYield w y).1) := by
  cases y with
  | moment =>
    refine ⟨fun h => by simp [handleYield] at h, fun _ => ?_⟩
    exact Or.inr (Or.inr (Or.inr ⟨rfl, Tok.runCb, by simp [handleYield], Or.inr rfl⟩))
  | fut f =>
    simp only [handleYield]
    split
    · rename_i hd
      exact ⟨fun _ => hd, fun h => by simp at h⟩
    · rename_i hd
      refine ⟨fun h => by simp at h, fun _ => ?_⟩
      refine Or.inr (Or.inr (Or.inl ⟨?_, rfl⟩))
      simpa [isDone] using hd
  | list fs =>
    simp only [handleYield]
    split
    · rename_i hd
      exact ⟨fun _ => hd, fun h => by simp at h⟩
    · rename_i hd
      refine ⟨fun h => by simp at h, fun _ => ?_⟩
      refine Or.inr (Or.inr (Or.inl ⟨?_, rfl⟩))
      simpa [isDone] using hd

theorem live_runLoop (gen : G → Input → Step G) (n : Nat) (w : W G)
    (h : isDone w w.aw = false → Live w) : Live (runLoop gen n w) := by
  induction n generalizing w with
  | zero => exact Or.inr (Or.inl (by simp [runLoop]))
  | succ n ih =>
    unfold runLoop
    split
    · rename_i hnd
      exact h (by simpa using hnd)
    · dsimp only
      split
      · exact Or.inl rfl
      · exact Or.inl rfl
      · rename_i effs y g' _
        split
        · rename_i hgo
          apply ih
          intro hnd
          rw [(handleYield_live _ y).1 hgo] at hnd
          cases hnd
        · rename_i hgo
          exact (handleYield_live _ y).2 (by simpa using hgo)

theorem live_run (gen : G → Input → Step G) (fuel : Nat) (w : W G)
    (h : w.finished = true ∨ w.fuelOut = true ∨ (isDone w w.aw = false ∧ Reg w) ∨ isDone w w.aw = true) :
    Live (run gen fuel w) := by
  unfold run
  split
  · rename_i hf
    exact Or.inl hf
  · apply live_runLoop
    intro hnd
    rcases h with h | h | h | h
    · exact Or.inl h
    · exact Or.inr (Or.inl h)
    · exact Or.inr (Or.inr (Or.inl h))
    · rw [h] at hnd; cases hnd

theorem live_start (gen : G → Input → Step G) (fuel : Nat) (w : W G) : Live (start gen fuel w) := by
  unfold start
  dsimp only
  split
  · exact Or.inl rfl
  · exact Or.inl rfl
  · split
    · rename_i hgo
      exact live_run gen fuel _ (Or.inr (Or.inr (Or.inr ((handleYield_live _ _).1 hgo))))
    · rename_i hgo
      exact (handleYield_live _ _).2 (by simpa using hgo)

end Runner

theorem live_settle (f : Nat) (o : Outcome) (w : W G) (h : Live w) : Live (settle f o w) := by
  unfold settle
  split
  · rename_i hl
    split
    · exact h
    · rename_i hn
      dsimp only
      have hmono : ∀ g, get w.st g ≠ none → get (w.st.set f (some o)) g ≠ none :=
        fun g hg => get_set_mono w.st f g o hn hg
      rcases h with h | h | ⟨hd, hr⟩ | ⟨hd, t, ht, hrt⟩
      · exact Or.inl h
      · exact Or.inr (Or.inl h)
      · cases ha : w.aw with
        | null => simp [Reg, ha] at hr
        | moment => simp [Reg, ha] at hr
        | multi =>
          refine Or.inr (Or.inr (Or.inl ⟨?_, ?_⟩))
          · simpa [isDone, ha] using hd
          · simpa [Reg, ha] using hr
        | fut f' =>
          simp only [Reg, ha] at hr
          by_cases e : f' = f
          · subst e
            refine Or.inr (Or.inr (Or.inr ⟨?_, Tok.wake, ?_, Or.inl rfl⟩))
            · simp [isDone, get_set_self w.st f' o hl]
            · simp [hr]
          · refine Or.inr (Or.inr (Or.inl ⟨?_, ?_⟩))
            · simp only [ha, isDone] at hd ⊢
              rw [get_set_ne w.st f f' _ e]
              exact hd
            · have hne : ¬ (f' = f) := e
              simp [Reg, hr, hne]
      · refine Or.inr (Or.inr (Or.inr ⟨?_, t, ?_, hrt⟩))
        · exact isDone_mono w _ w.aw rfl hmono hd
        · simp [ht]
  · exact h

theorem live_multiCb (f : Nat) (w : W G) (h : Live w) : Live (multiCb f w) := by
  unfold multiCb
  split
  · exact h
  · rename_i m hm
    dsimp only
    split
    · rename_i hc
      simp only [Bool.and_eq_true] at hc
      obtain ⟨⟨hc1, hc2⟩, _⟩ := hc
      rcases h with h | h | ⟨hd, hr⟩ | ⟨hd, t, ht, hrt⟩
      · exact Or.inl h
      · exact Or.inr (Or.inl h)
      · cases ha : w.aw with
        | null => simp [Reg, ha] at hr
        | moment => simp [Reg, ha] at hr
        | fut f' =>
          refine Or.inr (Or.inr (Or.inl ⟨?_, ?_⟩))
          · simpa [isDone, ha] using hd
          · simpa [Reg, ha] using hr
        | multi =>
          refine Or.inr (Or.inr (Or.inr ⟨?_, Tok.wake, by simp, Or.inl rfl⟩))
          simpa [isDone, ha] using hc2
      · cases ha : w.aw with
        | multi =>
          simp only [isDone, ha, hm] at hd
          simp [Option.isNone_iff_eq_none.mp hc1] at hd
        | null => exact Or.inr (Or.inr (Or.inr ⟨by simp [isDone], t, by simp [ht], hrt⟩))
        | moment => exact Or.inr (Or.inr (Or.inr ⟨by simp [isDone], t, by simp [ht], hrt⟩))
        | fut f' =>
          refine Or.inr (Or.inr (Or.inr ⟨?_, t, by simp [ht], hrt⟩))
          simpa [isDone, ha] using hd
    · rename_i hc
      rcases h with h | h | ⟨hd, hr⟩ | ⟨hd, t, ht, hrt⟩
      · exact Or.inl h
      · exact Or.inr (Or.inl h)
      · cases ha : w.aw with
        | null => simp [Reg, ha] at hr
        | moment => simp [Reg, ha] at hr
        | fut f' =>
          refine Or.inr (Or.inr (Or.inl ⟨?_, ?_⟩))
          · simpa [isDone, ha] using hd
          · simpa [Reg, ha] using hr
        | multi =>
          simp only [Reg, ha] at hr
          simp only [isDone, ha, hm] at hd
          refine Or.inr (Or.inr (Or.inl ⟨?_, by simpa [Reg, ha] using hr⟩))
          simp only [isDone]
          cases hx : (Multi.callback f { m with st := w.st }).out.isSome with
          | false => rfl
          | true =>
            exfalso
            apply hc
            have h1 : m.out.isNone = true := by
              cases hmo : m.out with
              | none => rfl
              | some x => simp [hmo] at hd
            simp only [Bool.and_eq_true]
            exact ⟨⟨h1, hx⟩, hr⟩
      · cases ha : w.aw with
        | multi =>
          simp only [isDone, ha, hm] at hd
          refine Or.inr (Or.inr (Or.inr ⟨?_, t, ht, hrt⟩))
          simp only [isDone]
          exact callback_out_isSome f { m with st := w.st } hd
        | null => exact Or.inr (Or.inr (Or.inr ⟨by simp [isDone], t, ht, hrt⟩))
        | moment => exact Or.inr (Or.inr (Or.inr ⟨by simp [isDone], t, ht, hrt⟩))
        | fut f' =>
          refine Or.inr (Or.inr (Or.inr ⟨?_, t, ht, hrt⟩))
          simpa [isDone, ha] using hd

/-- consuming the first queued callback -/
theorem live_exec (gen : G → Input → Step G) (fuel : Nat) (t : Tok) (r : List Tok) (w : W G)
    (hr : w.ready = t :: r) (h : Live w) : Live (exec (Runner.run gen fuel) t { w with ready := r }) := by
  have resume : Live (Runner.run gen fuel { w with ready := r }) := by
    apply Runner.live_run
    rcases h with h | h | h | ⟨hd, _⟩
    · exact Or.inl h
    · exact Or.inr (Or.inl h)
    · exact Or.inr (Or.inr (Or.inl h))
    · exact Or.inr (Or.inr (Or.inr hd))
  have keep : t ≠ Tok.wake → t ≠ Tok.runCb → Live { w with ready := r } := by
    intro h1 h2
    rcases h with h | h | h | ⟨hd, t', ht', hrt'⟩
    · exact Or.inl h
    · exact Or.inr (Or.inl h)
    · exact Or.inr (Or.inr (Or.inl h))
    · refine Or.inr (Or.inr (Or.inr ⟨hd, t', ?_, hrt'⟩))
      rw [hr] at ht'
      rcases List.mem_cons.mp ht' with e | e
      · subst e
        rcases hrt' with e | e
        · exact absurd e h1
        · exact absurd e h2
      · exact e
  cases t with
  | env f o => exact live_settle f o _ (keep (by simp) (by simp))
  | mcb f => exact live_multiCb f _ (keep (by simp) (by simp))
  | wake => exact resume
  | runCb => exact resume

theorem live_tickN (gen : G → Input → Step G) (fuel : Nat) (n : Nat) (w : W G) (h : Live w) :
    Live (tickN (Runner.run gen fuel) n w) := by
  induction n generalizing w with
  | zero => exact h
  | succ n ih =>
    unfold tickN
    split
    · exact h
    · rename_i t r hr
      exact ih _ (live_exec gen fuel t r w hr h)

theorem live_step (gen : G → Input → Step G) (fuel : Nat) (w : W G) (op : Op) (h : Live w) :
    Live (step (Runner.run gen fuel) w op) := by
  cases op with
  | set f o => exact live_settle f o w h
  | soon f o =>
    simp only [step]
    rcases h with h | h | h | ⟨hd, t, ht, hrt⟩
    · exact Or.inl h
    · exact Or.inr (Or.inl h)
    · exact Or.inr (Or.inr (Or.inl h))
    · exact Or.inr (Or.inr (Or.inr ⟨hd, t, by simp [ht], hrt⟩))
  | tick => exact live_tickN gen fuel _ w h

theorem live_runOps (gen : G → Input → Step G) (fuel : Nat) (ops : List Op) (w : W G) (h : Live w) :
    Live (runOps (Runner.run gen fuel) w ops) := by
  induction ops generalizing w with
  | nil => exact h
  | cons op ops ih => exact ih _ (live_step gen fuel w op h)

theorem live_runner_exec (gen : G → Input → Step G) (fuel : Nat) (st : List FState) (g : G) (ops : List Op) :
    Live (Runner.exec gen fuel st g ops) :=
  live_runOps gen fuel ops _ (Runner.live_start gen fuel _)

/-- an idle loop and an unfinished driver: the awaited thing is not done (and the wake-up is registered on it) -/
theorem live_idle (w : W G) (h : Live w) (hr : w.ready = []) (hf : w.finished = false) (hfo : w.fuelOut = false) :
    (∃ f, w.aw = .fut f ∧ get w.st f = none ∧ w.wakeFut = some f) ∨
    (w.aw = .multi ∧ (∀ m, w.m = some m → m.out = none) ∧ w.wakeMulti = true) := by
  rcases h with h | h | ⟨hd, hreg⟩ | ⟨_, t, ht, _⟩
  · rw [hf] at h; cases h
  · rw [hfo] at h; cases h
  · cases ha : w.aw with
    | null => simp [Reg, ha] at hreg
    | moment => simp [Reg, ha] at hreg
    | fut f =>
      simp only [Reg, ha] at hreg
      simp only [ha, isDone] at hd
      exact Or.inl ⟨f, rfl, by simpa using hd, hreg⟩
    | multi =>
      simp only [Reg, ha] at hreg
      simp only [ha, isDone] at hd
      refine Or.inr ⟨rfl, ?_, hreg⟩
      intro m hm
      simpa [hm] using hd
  · rw [hr] at ht; cases ht

end TornadoModel.C37
