/- C37 driver.
   `C37 run dec|nat <code> [st…] [op,…] <fuel> <cv>` → per-op [effects so far, result] + all effects + fuelOut
   `C37 canon <code> [outcome…] <fuel> <cv>` → effects + result of the untimed specification
   (`cv` = the caller's value of the context variable)
   code: [[eff,k],[yf,i],[yl,[i,…]],[ym],[ret,v],[retlast],[raise,e],[push,h],[pop],[jmp,l],[caught],[reraise],
          [cread],[cset,v],[tset,v],[treset],[onlye,l]] -/
import TornadoModel.Base.Wire
import TornadoModel.C36.Drv
import TornadoModel.C37.Spec
namespace TornadoModel.C37.Drv
open TornadoModel TornadoModel.Wire TornadoModel.C37
open TornadoModel.C36.Drv (decOutcome decF decList)

def decVal : V → Option Val
  | .none => some .none
  | .int i => if 0 ≤ i then some (.n i.toNat) else none
  | .list l => (l.mapM V.nat?).map Val.l
  | _ => none

def encVal : Val → V
  | .none => .none
  | .n v => .int v
  | .l vs => .list (vs.map V.ofNat)

def decInstr : V → Option Code.Instr
  | .list [.atom "eff", k] => k.nat?.map .eff
  | .list [.atom "yf", i] => i.nat?.map (fun i => .yld (.fut i))
  | .list [.atom "yl", is] => (decList V.nat? is).map (fun is => .yld (.list is))
  | .list [.atom "ym"] => some (.yld .moment)
  | .list [.atom "ret", v] => (decVal v).map .ret
  | .list [.atom "retlast"] => some .retLast
  | .list [.atom "raise", e] => e.nat?.map .raise
  | .list [.atom "push", h] => h.nat?.map .push
  | .list [.atom "pop"] => some .pop
  | .list [.atom "jmp", l] => l.nat?.map .jmp
  | .list [.atom "caught"] => some .caught
  | .list [.atom "reraise"] => some .reraise
  | .list [.atom "cread"] => some .cread
  | .list [.atom "cset", v] => v.nat?.map .cset
  | .list [.atom "tset", v] => v.nat?.map .tset
  | .list [.atom "treset"] => some .treset
  | .list [.atom "onlye", l] => l.nat?.map .onlyE
  | _ => none

def decOp : V → Option Op
  | .list [.atom "set", f, o] => do pure (.set (← f.nat?) (← decOutcome o))
  | .list [.atom "soon", f, o] => do pure (.soon (← f.nat?) (← decOutcome o))
  | .list [.atom "tick"] => some .tick
  | _ => none

def encEff : Eff → V
  | .k n => .list [.atom "k", .int n]
  | .got v => .list [.atom "g", encVal v]
  | .caught e => .list [.atom "xc", .int e]

def encRes : Option ROut → V
  | none => .atom "p"
  | some (.result v) => .list [.atom "r", encVal v]
  | some (.exc e) => .list [.atom "e", .int e]

def handle (toks : List String) : String :=
  match toks.head?, parseArgs toks.tail with
  | some cmd, some args =>
    match cmd, args with
    | "run", [.atom mode, code, st, ops, fuel, cv] =>
      match decList decInstr code, decList decF st, decList decOp ops, fuel.nat?, cv.nat? with
      | some code, some st, some ops, some fuel, some cv =>
        let g := Code.load code cv
        let res := match mode with
          | "dec" =>
            some (traceOps (Runner.run Code.gen fuel) (Runner.start Code.gen fuel (init st g)) ops,
                  Runner.exec Code.gen fuel st g ops)
          | "nat" =>
            some (traceOps (Native.step Code.gen fuel) (Native.start (init st g)) ops,
                  Native.exec Code.gen fuel st g ops)
          | _ => none
        match res with
        | some (tr, fin) =>
          ok [.list (tr.map (fun (n, r) => .list [.int n, encRes r])), .list ((effects fin).map encEff),
              V.ofBool fin.fuelOut]
        | none => err "bad-mode"
      | _, _, _, _, _ => err "bad-arg"
    | "canon", [code, os, fuel, cv] =>
      match decList decInstr code, decList decOutcome os, fuel.nat?, cv.nat? with
      | some code, some os, some fuel, some cv =>
        let oc : Nat → C36.Outcome := fun f => (os[f]?).getD .cancelled
        let r := canon Code.gen oc fuel (Code.load code cv) (.send .none)
        ok [.list ((r.1.flatMap (·.effs)).map encEff), encRes r.2]
      | _, _, _, _ => err "bad-arg"
    | _, _ => err "bad-cmd"
  | _, _ => err "bad-line"

end TornadoModel.C37.Drv
