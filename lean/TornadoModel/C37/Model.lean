/-
C37 — `@gen.coroutine` (tornado.gen: `coroutine` wrapper, `Runner`, `convert_yielded`, `moment`) over the
future/loop abstraction of C36 (core Lean only).

A generator is an ARBITRARY resumable object `gen : G → Input → Step G` (Python's generator semantics is the
parameter, not something the model claims to know).  `Runner.*` is the decorator's driver as it is written:
the wrapper's inlined first `next`, `Runner.__init__`, `handle_yield`, `run` with its `finished` flag,
`add_future` / `add_callback` rescheduling.  Callbacks are atomic (asyncio never runs a done-callback
synchronously), so `self.running` is false whenever a callback starts and is not represented.

For the tie the generator is instantiated by an interpreter of flat code (`Code.gen`) to which the harness
compiles its program grammar.
-/
import TornadoModel.C36.Model
namespace TornadoModel.C37
open TornadoModel.C36

/-- values sent into / returned by a coroutine -/
inductive Val where
  | none
  | n (v : Nat)
  | l (vs : List Nat)
  deriving DecidableEq, Repr

inductive Input where
  | send (v : Val)
  | throw (e : Nat)
  deriving DecidableEq, Repr

/-- what a coroutine yields / awaits -/
inductive Y where
  | fut (f : Nat)            -- an input future
  | list (fs : List Nat)     -- a list (or dict) of input futures: `multi`
  | moment                   -- `gen.moment` / `None`   (native: `asyncio.sleep(0)`)
  deriving DecidableEq, Repr

/-- side effects a coroutine body performs between two suspension points -/
inductive Eff where
  | k (n : Nat)              -- a plain effect
  | got (v : Val)            -- the body observed the value sent in
  | caught (e : Nat)         -- the body caught the exception thrown in / raised
  deriving DecidableEq, Repr

inductive Step (G : Type) where
  | yield (effs : List Eff) (y : Y) (g : G)
  | ret (effs : List Eff) (v : Val)
  | raise (effs : List Eff) (e : Nat)

/-- outcome of the coroutine's result future -/
inductive ROut where
  | result (v : Val)
  | exc (e : Nat)
  deriving DecidableEq, Repr

inductive Obs where
  | yielded (y : Y) | returned (v : Val) | raised (e : Nat)
  deriving DecidableEq, Repr

/-- one resumption of the generator: what was fed, what it did -/
structure Ev where
  inp : Input
  effs : List Eff
  obs : Obs
  deriving DecidableEq, Repr

/-- what the driver is waiting on (`Runner.future`) -/
inductive Aw where
  | null                     -- `_null_future`
  | moment
  | fut (f : Nat)
  | multi                    -- the live `multi` future `W.m`
  deriving DecidableEq, Repr

inductive Tok where
  | env (f : Nat) (o : Outcome)   -- harness: call_soon(settle)
  | mcb (f : Nat)                 -- multi_future's `callback` for child `f`
  | wake                          -- `inner` (add_future callback) → `run`   /  Task.__wakeup
  | runCb                         -- `add_callback(run)` after `moment`      /  Task.__step after sleep(0)
  deriving DecidableEq, Repr

inductive Op where
  | set (f : Nat) (o : Outcome) | soon (f : Nat) (o : Outcome) | tick
  deriving DecidableEq, Repr

/-- loop + futures + driver state; `G` is the generator's state -/
structure W (G : Type) where
  st : List FState
  m : Option Multi.S          -- the multi future created for the last yielded list (its `st` is synchronised)
  wakeFut : Option Nat        -- `wake` registered on this input future
  wakeMulti : Bool            -- `wake` registered on the multi future
  ready : List Tok
  g : G
  aw : Aw
  finished : Bool
  result : Option ROut
  log : List Ev
  fuelOut : Bool              -- the generator kept yielding ready futures beyond the fuel (never for flat code)

variable {G : Type}

def isDone (w : W G) : Aw → Bool
  | .null => true
  | .moment => true
  | .fut f => (get w.st f).isSome
  | .multi => match w.m with
    | some m => m.out.isSome
    | none => false

/-- `future.result()` turned into what is fed to the generator.  A cancelled future raises `CancelledError`
    (a BaseException): `Runner.run` catches it explicitly (`except (Exception, asyncio.CancelledError)`, the fix
    recorded in known_findings/C37.json — before it the exception escaped `run`, was swallowed by
    `IOLoop._run_callback` and the coroutine stayed pending for ever) and throws it into the generator, as a Task
    does for a native coroutine.  A `multi` future with a cancelled child carries `CancelledError` as its exception. -/
def feedOf (w : W G) : Aw → Input
  | .null => .send .none
  | .moment => .send .none
  | .fut f => match get w.st f with
    | some (.result v) => .send (.n v)
    | some (.exc e) => .throw e
    | some .cancelled => .throw C36.cancelledErr
    | none => .throw C36.invalidState
  | .multi => match w.m.bind (·.out) with
    | some (.vals vs) => .send (.l vs)
    | some (.exc e) => .throw e
    | none => .throw C36.invalidState

/-- `multi(children)` on the current futures -/
def mkMulti (w : W G) (fs : List Nat) : Multi.S := Multi.init w.st fs

namespace Runner

/-- `handle_yield(yielded)`; the Bool is its return value (`True` = ready now, keep looping) -/
def handleYield (w : W G) : Y → W G × Bool
  | .moment => ({ w with aw := .moment, ready := w.ready ++ [Tok.runCb] }, false)
  | .fut f =>
    let w := { w with aw := Aw.fut f }
    if isDone w (.fut f) then (w, true) else ({ w with wakeFut := some f }, false)
  | .list fs =>
    let w := { w with m := some (mkMulti w fs), aw := Aw.multi }
    if isDone w .multi then (w, true) else ({ w with wakeMulti := true }, false)

def finish (w : W G) (r : ROut) : W G :=
  { w with finished := true, aw := .null, result := some r }

/-- the `while True:` loop of `Runner.run` -/
def runLoop (gen : G → Input → Step G) : Nat → W G → W G
  | 0, w => { w with fuelOut := true }
  | n + 1, w =>
    if !isDone w w.aw then w            -- `if not future.done(): return`
    else
      let inp := feedOf w w.aw
      match gen w.g inp with
      | .ret effs v => finish { w with log := w.log ++ [⟨inp, effs, .returned v⟩] } (.result v)
      | .raise effs e => finish { w with log := w.log ++ [⟨inp, effs, .raised e⟩] } (.exc e)
      | .yield effs y g' =>
        let w := { w with g := g', log := w.log ++ [⟨inp, effs, .yielded y⟩] }
        let (w, go) := handleYield w y
        if go then runLoop gen n w else w

/-- `Runner.run` -/
def run (gen : G → Input → Step G) (fuel : Nat) (w : W G) : W G :=
  if w.finished then w else runLoop gen fuel w

/-- the `coroutine` wrapper: inlined first `next(result)`, then `Runner(ctx_run, result, future, yielded)` -/
def start (gen : G → Input → Step G) (fuel : Nat) (w : W G) : W G :=
  let inp := Input.send .none
  match gen w.g inp with
  | .ret effs v => finish { w with log := w.log ++ [⟨inp, effs, .returned v⟩] } (.result v)
  | .raise effs e => finish { w with log := w.log ++ [⟨inp, effs, .raised e⟩] } (.exc e)
  | .yield effs y g' =>
    let w := { w with g := g', log := w.log ++ [⟨inp, effs, .yielded y⟩] }
    let (w, go) := handleYield w y
    if go then run gen fuel w else w

end Runner

/-! the loop: shared by the decorated and the native driver; `resume` is what `wake` / `runCb` call -/

def settle (f : Nat) (o : Outcome) (w : W G) : W G :=
  if f < w.st.length then
    match get w.st f with
    | some _ => w
    | none =>
      let cbs := (match w.m with
        | some m => (m.listening.filter (· == f)).map Tok.mcb
        | none => [])
      let wk := if w.wakeFut == some f then [Tok.wake] else []
      { w with st := w.st.set f (some o), ready := w.ready ++ cbs ++ wk,
               wakeFut := if w.wakeFut == some f then none else w.wakeFut }
  else w

/-- multi's `callback(f)`; if the multi future settles, its done-callback (`wake`) is scheduled -/
def multiCb (f : Nat) (w : W G) : W G :=
  match w.m with
  | none => w
  | some m =>
    let m' := Multi.callback f { m with st := w.st }
    if m.out.isNone && m'.out.isSome && w.wakeMulti then
      { w with m := some m', ready := w.ready ++ [Tok.wake], wakeMulti := false }
    else { w with m := some m' }

def exec (resume : W G → W G) : Tok → W G → W G
  | .env f o, w => settle f o w
  | .mcb f, w => multiCb f w
  | .wake, w => resume w
  | .runCb, w => resume w

def tickN (resume : W G → W G) : Nat → W G → W G
  | 0, w => w
  | n + 1, w =>
    match w.ready with
    | [] => w
    | t :: r => tickN resume n (exec resume t { w with ready := r })

def tick (resume : W G → W G) (w : W G) : W G := tickN resume w.ready.length w

def step (resume : W G → W G) (w : W G) : Op → W G
  | .set f o => settle f o w
  | .soon f o => { w with ready := w.ready ++ [Tok.env f o] }
  | .tick => tick resume w

def runOps (resume : W G → W G) (w : W G) : List Op → W G
  | [] => w
  | op :: ops => runOps resume (step resume w op) ops

def init (st : List FState) (g : G) : W G :=
  { st := st, m := none, wakeFut := none, wakeMulti := false, ready := [], g := g, aw := .null,
    finished := false, result := none, log := [], fuelOut := false }

/-- all effects performed so far, in order -/
def effects (w : W G) : List Eff := w.log.flatMap (·.effs)

/-- per-op observation: number of effects so far and the result future -/
def traceOps (resume : W G → W G) (w : W G) : List Op → List (Nat × Option ROut)
  | [] => [((effects w).length, w.result)]
  | op :: ops => ((effects w).length, w.result) :: traceOps resume (step resume w op) ops

/-- the decorated coroutine called with the futures in state `st`, then the schedule -/
def Runner.exec (gen : G → Input → Step G) (fuel : Nat) (st : List FState) (g : G) (ops : List Op) : W G :=
  runOps (Runner.run gen fuel) (Runner.start gen fuel (init st g)) ops

/-! ## flat code: the generator instance used by the tie -/
namespace Code

inductive Instr where
  | eff (k : Nat)
  | yld (y : Y)
  | ret (v : Val)
  | retLast
  | raise (e : Nat)
  | push (h : Nat)
  | pop
  | jmp (l : Nat)
  | caught
  | reraise
  | cread                -- `T.append(CV.get())`: the body reads the context variable (effect = its value)
  | cset (v : Nat)       -- `CV.set(v)`
  | tset (v : Nat)       -- `tok = CV.set(v)`
  | treset               -- `CV.reset(tok); tok = None` + read   (no token held: effect `noToken`)
  | onlyE (l : Nat)      -- head of an `except E:` clause: the exception being handled is not an `E`
                         -- (`CancelledError` is a BaseException) → not caught, continue at `l` (finally + re-raise)
  deriving DecidableEq, Repr

/-- the body's own exception class `E` (codes ≥ 3); 0/1/2 are CancelledError / TimeoutError / InvalidStateError,
    which `except E:` does not catch -/
def isE (e : Nat) : Bool := 3 ≤ e

/-- effect recorded by `treset` when the body holds no token (the harness renders the same constant) -/
def noToken : Nat := 998

structure PS where
  code : List Instr
  pc : Nat
  started : Bool
  hs : List Nat          -- handler stack (pcs)
  cur : Nat              -- exception being handled
  last : Val             -- last value received
  cv : Nat               -- the context variable as the body sees it.  Every resumption of the generator runs in
                         -- the ONE `contextvars.Context` captured by the decorator (`ctx_run`; natively: the
                         -- Task's context), so the variable is simply part of the body's own state
  tok : Option Nat       -- the live `Token` (= the value to restore), if any
  deriving DecidableEq, Repr

mutual
/-- run from `ps.pc` until the next suspension; `fuel` bounds the straight-line steps -/
def go : Nat → PS → List Eff → Step PS
  | 0, _, effs => .raise effs C36.invalidState      -- unreachable for fuel > code length (no backward jumps)
  | n + 1, ps, effs =>
    match ps.code[ps.pc]? with
    | none => .ret effs .none
    | some (.eff k) => go n { ps with pc := ps.pc + 1 } (effs ++ [Eff.k k])
    | some (.yld y) => .yield effs y ps
    | some (.ret v) => .ret effs v
    | some .retLast => .ret effs ps.last
    | some (.raise e) => unwind n ps effs e
    | some (.push h) => go n { ps with pc := ps.pc + 1, hs := h :: ps.hs } effs
    | some .pop => go n { ps with pc := ps.pc + 1, hs := ps.hs.tail } effs
    | some (.jmp l) => go n { ps with pc := l } effs
    | some .caught => go n { ps with pc := ps.pc + 1 } (effs ++ [Eff.caught ps.cur])
    | some .reraise => unwind n ps effs ps.cur
    | some .cread => go n { ps with pc := ps.pc + 1 } (effs ++ [Eff.k ps.cv])
    | some (.cset v) => go n { ps with pc := ps.pc + 1, cv := v } effs
    | some (.tset v) => go n { ps with pc := ps.pc + 1, cv := v, tok := some ps.cv } effs
    | some .treset =>
      match ps.tok with
      | some old => go n { ps with pc := ps.pc + 1, cv := old, tok := none } (effs ++ [Eff.k old])
      | none => go n { ps with pc := ps.pc + 1 } (effs ++ [Eff.k noToken])
    | some (.onlyE l) => go n { ps with pc := if isE ps.cur then ps.pc + 1 else l } effs
def unwind : Nat → PS → List Eff → Nat → Step PS
  | 0, _, effs, _ => .raise effs C36.invalidState
  | n + 1, ps, effs, e =>
    match ps.hs with
    | [] => .raise effs e
    | h :: rest => go n { ps with pc := h, hs := rest, cur := e } effs
end

/-- the generator: resume at the `yld` where it is suspended (or start) -/
def gen (ps : PS) (inp : Input) : Step PS :=
  let fuel := 2 * ps.code.length + 4
  if !ps.started then go fuel { ps with started := true } []
  else match inp with
    | .send v => go fuel { ps with pc := ps.pc + 1, last := v } [Eff.got v]
    | .throw e => unwind fuel ps [] e

/-- `cv`: the value the CALLER gave the context variable before calling the coroutine (default of the
    variable: 0) — it is what the body sees until it sets the variable itself -/
def load (code : List Instr) (cv : Nat := 0) : PS :=
  { code := code, pc := 0, started := false, hs := [], cur := 0, last := .none, cv := cv, tok := none }

end Code

end TornadoModel.C37
