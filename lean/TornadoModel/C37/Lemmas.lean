/- C37 helper lemmas (core Lean only). -/
import TornadoModel.C37.Spec
namespace TornadoModel.C37
open TornadoModel.C36

variable {G : Type}

namespace Runner

theorem handleYield_finished (w : W G) (y : Y) : (handleYield w y).1.finished = w.finished := by
  cases y <;> simp only [handleYield] <;> (try split) <;> rfl

theorem handleYield_result (w : W G) (y : Y) : (handleYield w y).1.result = w.result := by
  cases y <;> simp only [handleYield] <;> (try split) <;> rfl

theorem handleYield_log (w : W G) (y : Y) : (handleYield w y).1.log = w.log := by
  cases y <;> simp only [handleYield] <;> (try split) <;> rfl

/-- `result` is set exactly when `finished` is -/
def Sync (w : W G) : Prop := w.result.isSome = w.finished

theorem sync_runLoop (gen : G → Input → Step G) (n : Nat) (w : W G) (h : Sync w) (hf : w.finished = false) :
    Sync (runLoop gen n w) := by
  induction n generalizing w with
  | zero => exact h
  | succ n ih =>
    unfold runLoop
    split
    · exact h
    · dsimp only
      split
      · simp [Sync, finish]
      · simp [Sync, finish]
      · rename_i effs y g' _
        split
        · apply ih
          · simp only [Sync, handleYield_finished, handleYield_result]; exact h
          · simp only [handleYield_finished]; exact hf
        · simp only [Sync, handleYield_finished, handleYield_result]; exact h

theorem sync_run (gen : G → Input → Step G) (fuel : Nat) (w : W G) (h : Sync w) : Sync (run gen fuel w) := by
  unfold run
  split
  · exact h
  · rename_i hf
    exact sync_runLoop gen fuel w h (by simpa using hf)

theorem sync_start (gen : G → Input → Step G) (fuel : Nat) (w : W G) (h : Sync w) (hf : w.finished = false) :
    Sync (start gen fuel w) := by
  unfold start
  dsimp only
  split
  · simp [Sync, finish]
  · simp [Sync, finish]
  · split
    · apply sync_run
      simp only [Sync, handleYield_finished, handleYield_result]; exact h
    · simp only [Sync, handleYield_finished, handleYield_result]; exact h

end Runner

theorem sync_settle (f : Nat) (o : Outcome) (w : W G) (h : Runner.Sync w) : Runner.Sync (settle f o w) := by
  unfold settle
  split
  · split <;> exact h
  · exact h

theorem sync_multiCb (f : Nat) (w : W G) (h : Runner.Sync w) : Runner.Sync (multiCb f w) := by
  unfold multiCb
  split
  · exact h
  · dsimp only
    split <;> exact h

theorem sync_exec (resume : W G → W G) (hres : ∀ w, Runner.Sync w → Runner.Sync (resume w))
    (t : Tok) (w : W G) (h : Runner.Sync w) : Runner.Sync (exec resume t w) := by
  cases t with
  | env f o => exact sync_settle f o w h
  | mcb f => exact sync_multiCb f w h
  | wake => exact hres w h
  | runCb => exact hres w h

theorem sync_tickN (resume : W G → W G) (hres : ∀ w, Runner.Sync w → Runner.Sync (resume w))
    (n : Nat) (w : W G) (h : Runner.Sync w) : Runner.Sync (tickN resume n w) := by
  induction n generalizing w with
  | zero => exact h
  | succ n ih =>
    unfold tickN
    split
    · exact h
    · exact ih _ (sync_exec resume hres _ _ h)

theorem sync_step (resume : W G → W G) (hres : ∀ w, Runner.Sync w → Runner.Sync (resume w))
    (w : W G) (op : Op) (h : Runner.Sync w) : Runner.Sync (step resume w op) := by
  cases op with
  | set f o => exact sync_settle f o w h
  | soon f o => exact h
  | tick => exact sync_tickN resume hres _ w h

theorem sync_runOps (resume : W G → W G) (hres : ∀ w, Runner.Sync w → Runner.Sync (resume w))
    (ops : List Op) (w : W G) (h : Runner.Sync w) : Runner.Sync (runOps resume w ops) := by
  induction ops generalizing w with
  | nil => exact h
  | cons op ops ih => exact ih _ (sync_step resume hres w op h)

/-! a finished coroutine: nothing the loop does changes its result or its log -/
def Frozen (r : Option ROut) (l : List Ev) (w : W G) : Prop := w.finished = true ∧ w.result = r ∧ w.log = l

theorem frozen_exec (gen : G → Input → Step G) (fuel : Nat) (r : Option ROut) (l : List Ev)
    (t : Tok) (w : W G) (h : Frozen r l w) : Frozen r l (exec (Runner.run gen fuel) t w) := by
  obtain ⟨h1, h2, h3⟩ := h
  cases t with
  | env f o =>
    simp only [exec, settle]
    split
    · split <;> exact ⟨h1, h2, h3⟩
    · exact ⟨h1, h2, h3⟩
  | mcb f =>
    simp only [exec, multiCb]
    split
    · exact ⟨h1, h2, h3⟩
    · split <;> exact ⟨h1, h2, h3⟩
  | wake => simp only [exec, Runner.run, h1]; exact ⟨h1, h2, h3⟩
  | runCb => simp only [exec, Runner.run, h1]; exact ⟨h1, h2, h3⟩

theorem frozen_tickN (gen : G → Input → Step G) (fuel : Nat) (r : Option ROut) (l : List Ev)
    (n : Nat) (w : W G) (h : Frozen r l w) : Frozen r l (tickN (Runner.run gen fuel) n w) := by
  induction n generalizing w with
  | zero => exact h
  | succ n ih =>
    unfold tickN
    split
    · exact h
    · exact ih _ (frozen_exec gen fuel r l _ _ h)

theorem frozen_runOps (gen : G → Input → Step G) (fuel : Nat) (r : Option ROut) (l : List Ev)
    (ops : List Op) (w : W G) (h : Frozen r l w) : Frozen r l (runOps (Runner.run gen fuel) w ops) := by
  induction ops generalizing w with
  | nil => exact h
  | cons op ops ih =>
    apply ih
    cases op with
    | set f o => exact frozen_exec gen fuel r l (.env f o) w h
    | soon f o => exact h
    | tick => exact frozen_tickN gen fuel r l _ w h

theorem runOps_append (resume : W G → W G) (w : W G) (a b : List Op) :
    runOps resume w (a ++ b) = runOps resume (runOps resume w a) b := by
  induction a generalizing w with
  | nil => rfl
  | cons op a ih => exact ih _

end TornadoModel.C37

namespace TornadoModel.C37
variable {G : Type}

/-- `Runner.run`'s loop only appends to the log -/
theorem Runner.runLoop_log (gen : G → Input → Step G) (n : Nat) (w : W G) :
    ∃ rest, (Runner.runLoop gen n w).log = w.log ++ rest := by
  induction n generalizing w with
  | zero => exact ⟨[], by simp [Runner.runLoop]⟩
  | succ n ih =>
    unfold Runner.runLoop
    split
    · exact ⟨[], by simp⟩
    · dsimp only
      split
      · exact ⟨_, rfl⟩
      · exact ⟨_, rfl⟩
      · split
        · obtain ⟨rest, hr⟩ := ih (Runner.handleYield _ _).1
          rw [hr, Runner.handleYield_log]
          exact ⟨⟨_, _, _⟩ :: rest, by rw [List.append_assoc]; rfl⟩
        · rw [Runner.handleYield_log]
          exact ⟨_, rfl⟩

end TornadoModel.C37
