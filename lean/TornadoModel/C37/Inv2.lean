/-
C37 — the invariant behind `runner_refines_native` (core Lean only).

Both drivers keep, at every point of every schedule that settles futures according to the outcome assignment
`oc`, a state in which
* every settled future carries `oc`'s outcome, every queued settle-token too, every queued multi-callback is for a
  settled future, the live `multi` future (if any) obeys `MInv` (its outcome, once set, is `Spec.multi`);
* the log of resumptions is a prefix of the untimed meaning `canon` and the next input the driver will feed
  (`expect`) is the one `canon` feeds next; once finished, log and result are exactly `canon`'s.
The invariant does not mention which callbacks are queued for the driver itself, so it holds however many loop
iterations a step takes and for spurious wake-ups.
-/
import TornadoModel.C37.Lemmas
import TornadoModel.C36.Lemmas
namespace TornadoModel.C37
open TornadoModel.C36

variable {G : Type}

/-! ## futures agree with the outcome assignment -/

def Con (oc : Nat → Outcome) (st : List FState) : Prop := ∀ f o, get st f = some o → o = oc f

theorem get_set_self (st : List FState) (f : Nat) (o : Outcome) (h : f < st.length) :
    get (st.set f (some o)) f = some o := by
  simp [C36.get, h]

theorem get_set_ne (st : List FState) (f g : Nat) (x : FState) (h : g ≠ f) :
    get (st.set f x) g = get st g := by
  simp [C36.get, List.getElem?_set_ne (Ne.symm h)]

theorem get_set_mono (st : List FState) (f g : Nat) (o : Outcome) (hf : get st f = none) (h : get st g ≠ none) :
    get (st.set f (some o)) g ≠ none := by
  by_cases e : g = f
  · subst e; exact absurd hf h
  · rw [get_set_ne st f g _ e]; exact h

theorem con_set (oc : Nat → Outcome) (st : List FState) (f : Nat) (hl : f < st.length)
    (h : Con oc st) : Con oc (st.set f (some (oc f))) := by
  intro g o hg
  by_cases e : g = f
  · subst e; rw [get_set_self st g _ hl] at hg; exact (Option.some.inj hg).symm
  · rw [get_set_ne st f g _ e] at hg; exact h g o hg

/-! ## the `multi` future -/

structure MInv (oc : Nat → Outcome) (st : List FState) (m : Multi.S) : Prop where
  cover : ∀ f ∈ m.children, f ∈ m.unfinished ∨ get st f ≠ none
  settled : m.unfinished = [] → m.out ≠ none
  val : ∀ o, m.out = some o → o = Spec.multi (m.children.map oc)

theorem filterMap_get_eq (oc : Nat → Outcome) (st : List FState) (hc : Con oc st) (ch : List Nat)
    (hd : ∀ f ∈ ch, get st f ≠ none) : ch.filterMap (get st) = ch.map oc := by
  induction ch with
  | nil => rfl
  | cons f fs ih =>
    have hfs : ∀ g ∈ fs, get st g ≠ none := fun g hg => hd g (List.mem_cons_of_mem _ hg)
    cases hg : get st f with
    | none => exact absurd hg (hd f List.mem_cons_self)
    | some o =>
      rw [List.filterMap_cons_some hg, List.map_cons, ih hfs, hc f o hg]

theorem finish_val (oc : Nat → Outcome) (s : Multi.S) (hc : Con oc s.st)
    (hd : ∀ f ∈ s.children, get s.st f ≠ none) (ho : s.out = none) :
    (Multi.finish s).out = some (Spec.multi (s.children.map oc)) := by
  have h := Multi.fold_spec s.st s.children hd [] s.logs
  rw [filterMap_get_eq oc s.st hc s.children hd] at h
  simp only [Multi.finish, ho]
  refine h.trans ?_
  unfold Spec.multi
  cases Spec.firstFailure (s.children.map oc) <;> simp

theorem finish_out_ne (s : Multi.S) : (Multi.finish s).out ≠ none := by
  simp only [Multi.finish]
  split <;> simp

theorem minv_callback (oc : Nat → Outcome) (f : Nat) (s : Multi.S) (hc : Con oc s.st)
    (h : MInv oc s.st s) (hf : get s.st f ≠ none) : MInv oc s.st (Multi.callback f s) := by
  have cover' : ∀ g ∈ s.children, g ∈ s.unfinished.erase f ∨ get s.st g ≠ none := by
    intro g hg
    by_cases e : g = f
    · subst e; exact Or.inr hf
    · rcases h.cover g hg with h1 | h1
      · exact Or.inl ((List.mem_erase_of_ne e).mpr h1)
      · exact Or.inr h1
  simp only [Multi.callback]
  split
  · rename_i hemp
    have hnil : s.unfinished.erase f = [] := by simpa using hemp
    have hd : ∀ g ∈ s.children, get s.st g ≠ none := by
      intro g hg
      rcases cover' g hg with h1 | h1
      · rw [hnil] at h1; cases h1
      · exact h1
    refine ⟨fun g hg => Or.inr (hd g hg), fun _ => finish_out_ne _, ?_⟩
    intro o ho
    cases hout : s.out with
    | some x =>
      have := Multi.finish_keeps { s with unfinished := s.unfinished.erase f } x hout
      rw [this] at ho
      rw [← Option.some.inj ho]
      exact h.val x hout
    | none =>
      have := finish_val oc { s with unfinished := s.unfinished.erase f } hc hd hout
      rw [this] at ho
      exact (Option.some.inj ho).symm
  · rename_i hemp
    refine ⟨cover', ?_, h.val⟩
    intro hnil
    exact absurd (by simpa using hnil) hemp

theorem callback_st (f : Nat) (s : Multi.S) : (Multi.callback f s).st = s.st := by
  simp only [Multi.callback]; split <;> rfl

theorem callback_children (f : Nat) (s : Multi.S) : (Multi.callback f s).children = s.children := by
  simp only [Multi.callback]; split <;> rfl

theorem register_st (s : Multi.S) (f : Nat) : (Multi.register s f).st = s.st := by
  simp only [Multi.register]; split
  · exact callback_st _ _
  · rfl

theorem register_children (s : Multi.S) (f : Nat) : (Multi.register s f).children = s.children := by
  simp only [Multi.register]; split
  · exact callback_children _ _
  · rfl

theorem minv_register (oc : Nat → Outcome) (f : Nat) (s : Multi.S) (hc : Con oc s.st)
    (h : MInv oc s.st s) : MInv oc s.st (Multi.register s f) := by
  simp only [Multi.register]
  split
  · rename_i o hg
    exact minv_callback oc f s hc h (by rw [hg]; exact Option.some_ne_none _)
  · exact ⟨h.cover, h.settled, h.val⟩

theorem foldl_register (oc : Nat → Outcome) (d : List Nat) (s : Multi.S) (hc : Con oc s.st)
    (h : MInv oc s.st s) :
    (d.foldl Multi.register s).st = s.st ∧ (d.foldl Multi.register s).children = s.children ∧
    MInv oc s.st (d.foldl Multi.register s) := by
  induction d generalizing s with
  | nil => exact ⟨rfl, rfl, h⟩
  | cons f d ih =>
    have h1 := minv_register oc f s hc h
    have e := register_st s f
    have e2 := register_children s f
    have := ih (Multi.register s f) (by rw [e]; exact hc) (by rw [e]; exact h1)
    rw [e, e2] at this
    exact this

theorem init_spec (oc : Nat → Outcome) (st : List FState) (fs : List Nat) (hc : Con oc st) :
    (Multi.init st fs).children = fs ∧ MInv oc st (Multi.init st fs) := by
  have h0 : MInv oc st
      { st := st, children := fs, listening := [], unfinished := fs.eraseDups,
        out := if fs.isEmpty then some (.vals []) else none, logs := 0, ready := [] } := by
    refine ⟨fun f hf => Or.inl (List.mem_eraseDups.mpr hf), ?_, ?_⟩
    · intro hn
      have : fs = [] := by
        cases fs with
        | nil => rfl
        | cons a r =>
          have : a ∈ (a :: r).eraseDups := List.mem_eraseDups.mpr List.mem_cons_self
          rw [show (a :: r).eraseDups = [] from hn] at this
          cases this
      subst this
      simp
    · intro o ho
      cases fs with
      | nil =>
        simp at ho
        subst ho
        rfl
      | cons a r => simp at ho
  have := foldl_register oc fs.eraseDups
    ({ st := st, children := fs, listening := [], unfinished := fs.eraseDups,
       out := if fs.isEmpty then some (.vals []) else none, logs := 0, ready := [] } : Multi.S) hc h0
  exact ⟨this.2.1, this.2.2⟩

/-! ## the loop state -/

def TokOk (oc : Nat → Outcome) (st : List FState) : Tok → Prop
  | .env f o => o = oc f
  | .mcb f => get st f ≠ none
  | .wake => True
  | .runCb => True

/-- the part of the invariant that does not mention the generator -/
structure SInv (oc : Nat → Outcome) (w : W G) : Prop where
  con : Con oc w.st
  toks : ∀ t ∈ w.ready, TokOk oc w.st t
  mi : ∀ m, w.m = some m → MInv oc w.st m

/-- the input the untimed meaning feeds next, given what the driver waits on -/
def expect (oc : Nat → Outcome) (w : W G) : Input :=
  match w.aw with
  | .null => .send .none
  | .moment => .send .none
  | .fut f => awaitVal oc (.fut f)
  | .multi => match w.m with
    | some m => awaitVal oc (.list m.children)
    | none => .send .none

/-- `log` is a prefix of the untimed meaning, which continues from generator state `g` with input `inp` -/
def TrU (gen : G → Input → Step G) (oc : Nat → Outcome) (g0 : G) (log : List Ev) (g : G) (inp : Input) : Prop :=
  ∀ k, canon gen oc (log.length + k) g0 (.send .none) =
    (log ++ (canon gen oc k g inp).1, (canon gen oc k g inp).2)

/-- `log`, `res` are the complete untimed meaning -/
def TrF (gen : G → Input → Step G) (oc : Nat → Outcome) (g0 : G) (log : List Ev) (res : Option ROut) : Prop :=
  ∃ k r, res = some r ∧ canon gen oc k g0 (.send .none) = (log, some r)

structure Inv (gen : G → Input → Step G) (oc : Nat → Outcome) (g0 : G) (w : W G) : Prop where
  s : SInv oc w
  trF : w.finished = true → TrF gen oc g0 w.log w.result
  trU : w.finished = false → TrU gen oc g0 w.log w.g (expect oc w)

/-! ### `canon` -/

theorem trU_ret (gen : G → Input → Step G) (oc : Nat → Outcome) (g0 : G) (log : List Ev) (g : G) (inp : Input)
    (effs : List Eff) (v : Val) (h : TrU gen oc g0 log g inp) (hg : gen g inp = .ret effs v) :
    TrF gen oc g0 (log ++ [⟨inp, effs, .returned v⟩]) (some (.result v)) := by
  refine ⟨log.length + 1, .result v, rfl, ?_⟩
  rw [h 1]
  simp only [canon, hg]

theorem trU_raise (gen : G → Input → Step G) (oc : Nat → Outcome) (g0 : G) (log : List Ev) (g : G) (inp : Input)
    (effs : List Eff) (e : Nat) (h : TrU gen oc g0 log g inp) (hg : gen g inp = .raise effs e) :
    TrF gen oc g0 (log ++ [⟨inp, effs, .raised e⟩]) (some (.exc e)) := by
  refine ⟨log.length + 1, .exc e, rfl, ?_⟩
  rw [h 1]
  simp only [canon, hg]

theorem trU_yield (gen : G → Input → Step G) (oc : Nat → Outcome) (g0 : G) (log : List Ev) (g : G) (inp : Input)
    (effs : List Eff) (y : Y) (g' : G) (h : TrU gen oc g0 log g inp) (hg : gen g inp = .yield effs y g') :
    TrU gen oc g0 (log ++ [⟨inp, effs, .yielded y⟩]) g' (awaitVal oc y) := by
  intro k
  have := h (k + 1)
  rw [List.length_append, List.length_singleton, Nat.add_assoc, Nat.add_comm 1 k, this]
  simp only [canon, hg, List.append_assoc, List.singleton_append]

theorem canon_mono (gen : G → Input → Step G) (oc : Nat → Outcome) (k : Nat) (g : G) (inp : Input)
    (l : List Ev) (r : ROut) (h : canon gen oc k g inp = (l, some r)) (k' : Nat) (hk : k ≤ k') :
    canon gen oc k' g inp = (l, some r) := by
  induction k generalizing g inp l k' with
  | zero => simp [canon] at h
  | succ k ih =>
    obtain ⟨k', rfl⟩ : ∃ j, k' = j + 1 := ⟨k' - 1, by omega⟩
    simp only [canon] at h ⊢
    cases hg : gen g inp with
    | ret effs v => simpa only [hg] using h
    | raise effs e => simpa only [hg] using h
    | yield effs y g' =>
      simp only [hg] at h ⊢
      have h2 : (canon gen oc k g' (awaitVal oc y)).2 = some r := congrArg Prod.snd h
      have h1 : _ :: (canon gen oc k g' (awaitVal oc y)).1 = l := congrArg Prod.fst h
      have := ih g' (awaitVal oc y) _ (Prod.ext rfl h2) k' (by omega)
      rw [this]
      exact Prod.ext h1 rfl

/-- two complete meanings coincide -/
theorem trF_unique (gen : G → Input → Step G) (oc : Nat → Outcome) (g0 : G) (l1 l2 : List Ev) (r1 r2 : Option ROut)
    (h1 : TrF gen oc g0 l1 r1) (h2 : TrF gen oc g0 l2 r2) : l1 = l2 ∧ r1 = r2 := by
  obtain ⟨k1, x1, e1, c1⟩ := h1
  obtain ⟨k2, x2, e2, c2⟩ := h2
  have a := canon_mono gen oc k1 g0 _ l1 x1 c1 (max k1 k2) (Nat.le_max_left _ _)
  have b := canon_mono gen oc k2 g0 _ l2 x2 c2 (max k1 k2) (Nat.le_max_right _ _)
  rw [a] at b
  have hl : l1 = l2 := congrArg Prod.fst b
  have hr : some x1 = some x2 := congrArg Prod.snd b
  exact ⟨hl, by rw [e1, e2, hr]⟩

/-! ### what the driver feeds is what `canon` feeds -/

theorem feed_expect (oc : Nat → Outcome) (w : W G) (h : SInv oc w) (hd : isDone w w.aw = true) :
    feedOf w w.aw = expect oc w := by
  unfold expect
  cases ha : w.aw with
  | null => rfl
  | moment => rfl
  | fut f =>
    rw [ha] at hd
    simp only [isDone] at hd
    cases hg : get w.st f with
    | none => rw [hg] at hd; cases hd
    | some o =>
      have := h.con f o hg
      simp only [feedOf, hg, awaitVal, ← this]
      cases o <;> rfl
  | multi =>
    rw [ha] at hd
    simp only [isDone] at hd
    cases hm : w.m with
    | none => rw [hm] at hd; cases hd
    | some m =>
      rw [hm] at hd
      simp only at hd
      cases ho : m.out with
      | none => rw [ho] at hd; cases hd
      | some o =>
        have := (h.mi m hm).val o ho
        simp only [feedOf, hm, Option.bind_some, ho, awaitVal, ← this]
        cases o <;> rfl

/-! ### `handle_yield` -/

theorem handleYield_g (w : W G) (y : Y) : (Runner.handleYield w y).1.g = w.g := by
  cases y <;> simp only [Runner.handleYield] <;> (try split) <;> rfl

theorem handleYield_done (w : W G) (y : Y) (h : (Runner.handleYield w y).2 = true) :
    isDone (Runner.handleYield w y).1 (Runner.handleYield w y).1.aw = true := by
  cases y with
  | moment => simp [Runner.handleYield] at h
  | fut f =>
    simp only [Runner.handleYield] at h ⊢
    split
    · rename_i hd; exact hd
    · rename_i hd; rw [if_neg hd] at h; cases h
  | list fs =>
    simp only [Runner.handleYield] at h ⊢
    split
    · rename_i hd; exact hd
    · rename_i hd; rw [if_neg hd] at h; cases h

theorem handleYield_expect (oc : Nat → Outcome) (w : W G) (y : Y) (h : SInv oc w) :
    expect oc (Runner.handleYield w y).1 = awaitVal oc y := by
  cases y with
  | moment => rfl
  | fut f => simp only [Runner.handleYield]; split <;> rfl
  | list fs =>
    have := (init_spec oc w.st fs h.con).1
    simp only [Runner.handleYield]
    split <;> simp only [expect, mkMulti, this]

theorem sinv_handleYield (oc : Nat → Outcome) (w : W G) (y : Y) (h : SInv oc w) :
    SInv oc (Runner.handleYield w y).1 := by
  cases y with
  | moment =>
    refine ⟨h.con, ?_, h.mi⟩
    intro t ht
    simp only [Runner.handleYield, List.mem_append, List.mem_singleton] at ht
    rcases ht with ht | ht
    · exact h.toks t ht
    · subst ht; trivial
  | fut f =>
    simp only [Runner.handleYield]
    split <;> exact ⟨h.con, h.toks, h.mi⟩
  | list fs =>
    have hm := (init_spec oc w.st fs h.con).2
    simp only [Runner.handleYield]
    split
    · refine ⟨h.con, h.toks, ?_⟩
      intro m e
      simp only [Option.some.injEq] at e
      subst e
      exact hm
    · refine ⟨h.con, h.toks, ?_⟩
      intro m e
      simp only [Option.some.injEq] at e
      subst e
      exact hm

/-! ### one resumption (shared by `Runner.runLoop`, `Runner.start`, `Native.stepLoop`) -/

/-- feed `inp`, record the event, end or handle the yielded thing and continue with `k` if it is ready -/
def afterGen (gen : G → Input → Step G) (k : W G → W G) (w : W G) (inp : Input) : W G :=
  match gen w.g inp with
  | .ret effs v => Runner.finish { w with log := w.log ++ [⟨inp, effs, .returned v⟩] } (.result v)
  | .raise effs e => Runner.finish { w with log := w.log ++ [⟨inp, effs, .raised e⟩] } (.exc e)
  | .yield effs y g' =>
    let w := { w with g := g', log := w.log ++ [⟨inp, effs, .yielded y⟩] }
    let (w, go) := Runner.handleYield w y
    if go then k w else w

theorem inv_afterGen (gen : G → Input → Step G) (oc : Nat → Outcome) (g0 : G) (k : W G → W G)
    (hk : ∀ w', Inv gen oc g0 w' → w'.finished = false → isDone w' w'.aw = true → Inv gen oc g0 (k w'))
    (w : W G) (h : Inv gen oc g0 w) (hf : w.finished = false) :
    Inv gen oc g0 (afterGen gen k w (expect oc w)) := by
  have tu := h.trU hf
  unfold afterGen
  split
  · rename_i effs v hg
    exact ⟨⟨h.s.con, h.s.toks, h.s.mi⟩, fun _ => trU_ret gen oc g0 _ _ _ effs v tu hg,
      fun hc => by simp [Runner.finish] at hc⟩
  · rename_i effs e hg
    exact ⟨⟨h.s.con, h.s.toks, h.s.mi⟩, fun _ => trU_raise gen oc g0 _ _ _ effs e tu hg,
      fun hc => by simp [Runner.finish] at hc⟩
  · rename_i effs y g' hg
    have s1 : SInv oc ({ w with g := g', log := w.log ++ [⟨expect oc w, effs, .yielded y⟩] } : W G) :=
      ⟨h.s.con, h.s.toks, h.s.mi⟩
    have tu' := trU_yield gen oc g0 _ _ _ effs y g' tu hg
    have hI : Inv gen oc g0 (Runner.handleYield
        ({ w with g := g', log := w.log ++ [⟨expect oc w, effs, .yielded y⟩] } : W G) y).1 := by
      refine ⟨sinv_handleYield oc _ y s1, ?_, ?_⟩
      · intro hc; rw [Runner.handleYield_finished] at hc; rw [hf] at hc; cases hc
      · intro _
        rw [Runner.handleYield_log, handleYield_g, handleYield_expect oc _ y s1]
        exact tu'
    have hf' : (Runner.handleYield
        ({ w with g := g', log := w.log ++ [⟨expect oc w, effs, .yielded y⟩] } : W G) y).1.finished = false := by
      rw [Runner.handleYield_finished]; exact hf
    dsimp only
    split
    · rename_i hgo
      exact hk _ hI hf' (handleYield_done _ y hgo)
    · exact hI

end TornadoModel.C37
