/-
C14/C15 — executable model of the WebSocket frame codec and receive machine of
`tornado.websocket.WebSocketProtocol13` (core Lean only).

  encodeFrame   = `_write_frame`  (FIN/RSV/opcode byte, 7/16/64-bit length forms, mask bit, mask ‖ masked payload)
  parseFrame    = the reads of `_receive_frame` (2 bytes, extended length, mask, payload, unmasking)
  stepFrame     = `_receive_frame` after the reads + `_handle_message`, on one parsed frame
  stepBytes     = `_receive_frame` as written: checks interleaved with the reads (early aborts need no payload)
  runFrames / runBytes = `_receive_frame_loop`

Bytes are `Nat`s (< 256 on the wire).  The permessage-deflate decompressor is a *parameter*:
`decomp hist z` is the result of the `len hist + 1`-th call of `_PerMessageDeflateDecompressor.decompress`
when the earlier calls had the inputs `hist` (this covers context takeover on and off).  The driver
instantiates it with the table of calls recorded from the real zlib object.

The model follows the code after the three `fix:` commits of this property (see docs/C14.md):
control frames neither touch `_frame_compressed` nor count against the size of a partial message,
and a reserved data opcode is refused at its first frame.
-/
namespace TornadoModel.C14

abbrev Bytes := List Nat

/-! ## masking (`tornado.util._websocket_mask_python`) -/

/-- the 4-byte masking key -/
structure Mask where
  k0 : Nat
  k1 : Nat
  k2 : Nat
  k3 : Nat
  deriving Repr, BEq, DecidableEq

def Mask.at (m : Mask) (i : Nat) : Nat :=
  match i % 4 with
  | 0 => m.k0
  | 1 => m.k1
  | 2 => m.k2
  | _ => m.k3

def Mask.bytes (m : Mask) : Bytes := [m.k0, m.k1, m.k2, m.k3]

/-- `data[i] ^ mask[(off + i) % 4]` -/
def xorFrom (m : Mask) : Nat → Bytes → Bytes
  | _, [] => []
  | off, b :: bs => (b ^^^ m.at off) :: xorFrom m (off + 1) bs

def xorMask (m : Mask) (data : Bytes) : Bytes := xorFrom m 0 data

def applyMask : Option Mask → Bytes → Bytes
  | none, d => d
  | some m, d => xorMask m d

/-! ## frames -/

structure Frame where
  fin : Bool
  rsv : Nat            -- RSV1 = 4, RSV2 = 2, RSV3 = 1
  opcode : Nat
  ext : Nat            -- length form: 0 = 7-bit, 1 = 16-bit, 2 = 64-bit
  mask : Option Mask
  payload : Bytes      -- unmasked
  deriving Repr, BEq, DecidableEq

/-- the length fits the length form (`struct.pack` would raise otherwise), the bit fields fit their bits -/
def extOk (ext n : Nat) : Prop :=
  (ext = 0 ∧ n < 126) ∨ (ext = 1 ∧ n < 65536) ∨ (ext = 2 ∧ n < 18446744073709551616)

def Frame.wf (f : Frame) : Prop := f.rsv < 8 ∧ f.opcode < 16 ∧ extOk f.ext f.payload.length

/-- the length form `_write_frame` chooses -/
def minExt (n : Nat) : Nat := if n < 126 then 0 else if n ≤ 0xFFFF then 1 else 2

def be2 (n : Nat) : Bytes := [n / 256 % 256, n % 256]
def be8 (n : Nat) : Bytes :=
  [n / 72057594037927936 % 256, n / 281474976710656 % 256, n / 1099511627776 % 256, n / 4294967296 % 256,
   n / 16777216 % 256, n / 65536 % 256, n / 256 % 256, n % 256]

def b2n (b : Bool) : Nat := if b then 1 else 0

def lenBytes (ext maskBit n : Nat) : Bytes :=
  match ext with
  | 0 => [maskBit * 128 + n]
  | 1 => (maskBit * 128 + 126) :: be2 n
  | _ => (maskBit * 128 + 127) :: be8 n

def encodeFrame (f : Frame) : Bytes :=
  (b2n f.fin * 128 + f.rsv * 16 + f.opcode)
    :: lenBytes f.ext (b2n f.mask.isSome) f.payload.length
    ++ (match f.mask with
        | none => f.payload
        | some m => m.bytes ++ xorMask m f.payload)

/-- what `_write_frame(fin, opcode, data, flags)` puts on the wire -/
def writeFrame (fin : Bool) (opcode : Nat) (data : Bytes) (rsv : Nat) (mask : Option Mask) : Bytes :=
  encodeFrame { fin, rsv, opcode, ext := minExt data.length, mask, payload := data }

/-- extended length: `(length, rest)`; `none` = more bytes needed -/
def readLen (len7 : Nat) (r : Bytes) : Option (Nat × Bytes) :=
  if len7 < 126 then some (len7, r)
  else if len7 = 126 then
    match r with
    | a :: b :: r' => some (a * 256 + b, r')
    | _ => none
  else
    match r with
    | a :: b :: c :: d :: e :: f :: g :: h :: r' =>
      some (a * 72057594037927936 + b * 281474976710656 + c * 1099511627776 + d * 4294967296
            + e * 16777216 + f * 65536 + g * 256 + h, r')
    | _ => none

def readMask (masked : Bool) (r : Bytes) : Option (Option Mask × Bytes) :=
  if masked then
    match r with
    | a :: b :: c :: d :: r' => some (some ⟨a, b, c, d⟩, r')
    | _ => none
  else some (none, r)

def extOf (len7 : Nat) : Nat := if len7 < 126 then 0 else if len7 = 126 then 1 else 2

/-- one complete frame from the front of the stream (`none` = incomplete) -/
def parseFrame : Bytes → Option (Frame × Bytes)
  | b0 :: b1 :: r =>
    match readLen (b1 % 128) r with
    | none => none
    | some (len, r2) =>
      match readMask (b1 / 128 % 2 == 1) r2 with
      | none => none
      | some (mk, r3) =>
        if r3.length < len then none
        else some ({ fin := b0 / 128 % 2 == 1, rsv := b0 / 16 % 8, opcode := b0 % 16, ext := extOf (b1 % 128),
                     mask := mk, payload := applyMask mk (r3.take len) }, r3.drop len)
  | _ => none

/-! ## strict UTF-8 (CPython's `bytes.decode("utf-8")`) -/

def isCont (b : Nat) : Bool := 0x80 ≤ b && b ≤ 0xBF

def validUtf8 : Bytes → Bool
  | [] => true
  | b :: r =>
    if b < 0x80 then validUtf8 r
    else if b < 0xC2 then false
    else if b < 0xE0 then
      match r with
      | c1 :: r' => isCont c1 && validUtf8 r'
      | _ => false
    else if b < 0xF0 then
      match r with
      | c1 :: c2 :: r' =>
        (if b = 0xE0 then 0xA0 ≤ c1 && c1 ≤ 0xBF else if b = 0xED then 0x80 ≤ c1 && c1 ≤ 0x9F else isCont c1)
          && isCont c2 && validUtf8 r'
      | _ => false
    else if b < 0xF5 then
      match r with
      | c1 :: c2 :: c3 :: r' =>
        (if b = 0xF0 then 0x90 ≤ c1 && c1 ≤ 0xBF else if b = 0xF4 then 0x80 ≤ c1 && c1 ≤ 0x8F else isCont c1)
          && isCont c2 && isCont c3 && validUtf8 r'
      | _ => false
    else false

/-! ## the receive machine -/

/-- result of one `_PerMessageDeflateDecompressor.decompress` call -/
inductive DRes where
  | ok (d : Bytes)
  | tooLarge            -- `_DecompressTooLargeError`
  | error               -- `zlib.error` (not caught anywhere in websocket.py)
  deriving Repr, BEq, DecidableEq

/-- `decomp hist z`: history of earlier inputs, this input -/
abbrev Decomp := List Bytes → Bytes → DRes

structure Cfg where
  deflate : Bool        -- `_decompressor is not None`
  maxSize : Nat         -- `params.max_message_size`
  decomp : Decomp

inductive Status where
  | open
  | closed      -- a close frame was received (`client_terminated`, loop left normally)
  | aborted     -- `_abort()`
  | crashed     -- an exception other than StreamClosedError left `_receive_frame_loop`
  deriving Repr, BEq, DecidableEq

inductive Abort where
  | plain        -- the socket is closed, nothing is written
  | big          -- after `close(1009, "message too big")`
  | bigAfter     -- after `close(1009, "message too big after decompression")`
  deriving Repr, BEq, DecidableEq

inductive Event where
  | message (text : Bool) (data : Bytes)      -- `on_message` (text: the UTF-8 encoding of the delivered str)
  | ping (data : Bytes)                       -- `on_ping`, after the pong was written
  | pong (data : Bytes)                       -- `on_pong`
  | close (code : Option Nat) (reason : Bytes) -- close frame received, echo written, stream closed
  | abort (why : Abort)                       -- `_abort()`
  | uncaught                                  -- exception escaping the loop
  deriving Repr, BEq, DecidableEq

structure State where
  status : Status := .open
  fragBuf : Option Bytes := none     -- `_fragmented_message_buffer`
  fragOp : Nat := 0                  -- `_fragmented_message_opcode`
  compressed : Bool := false         -- `_frame_compressed`
  dhist : List Bytes := []           -- inputs of the decompress calls so far
  deriving Repr, BEq, DecidableEq

def init : State := {}

def isCtl (opcode : Nat) : Bool := 8 ≤ opcode

def abortWith (st : State) (code : Abort) : State × List Event :=
  ({ st with status := .aborted }, [.abort code])

/-- RSV handling at the top of `_receive_frame`: `none` = reserved bits left → abort;
`some c` = the new value of `_frame_compressed`. -/
def rsvCheck (cfg : Cfg) (st : State) (rsv opcode : Nat) : Option Bool :=
  if cfg.deflate && opcode != 0 && !isCtl opcode then
    (if rsv % 4 != 0 then none else some (rsv / 4 % 2 == 1))
  else if rsv != 0 then none else some st.compressed

/-- `new_len > max_message_size` -/
def tooBig (cfg : Cfg) (st : State) (opcode len : Nat) : Bool :=
  match st.fragBuf with
  | some buf => if isCtl opcode then cfg.maxSize < len else cfg.maxSize < len + buf.length
  | none => cfg.maxSize < len

def be16 (n : Nat) : Bytes := be2 n

/-- the opcode dispatch of `_handle_message` (after decompression) -/
def deliver (st : State) (opcode : Nat) (d : Bytes) : State × List Event :=
  if opcode = 1 then
    if validUtf8 d then (st, [.message true d]) else abortWith st .plain
  else if opcode = 2 then (st, [.message false d])
  else if opcode = 8 then
    let code := match d with
      | a :: b :: _ => some (a * 256 + b)
      | _ => none
    let reason := d.drop 2
    if validUtf8 reason then ({ st with status := .closed }, [.close code reason])
    else ({ st with status := .crashed }, [.uncaught])
  else if opcode = 9 then (st, [.ping d])
  else if opcode = 10 then (st, [.pong d])
  else abortWith st .plain

/-- `_handle_message(opcode, data)` -/
def handle (cfg : Cfg) (st : State) (opcode : Nat) (data : Bytes) : State × List Event :=
  if st.compressed && !isCtl opcode then
    match cfg.decomp st.dhist data with
    | .ok d => deliver { st with dhist := st.dhist ++ [data] } opcode d
    | .tooLarge => abortWith { st with dhist := st.dhist ++ [data] } .bigAfter
    | .error => ({ st with status := .crashed, dhist := st.dhist ++ [data] }, [.uncaught])
  else deliver st opcode data

/-- the part of `_receive_frame` after the payload has been read -/
def dispatch (cfg : Cfg) (st : State) (fin : Bool) (opcode : Nat) (data : Bytes) : State × List Event :=
  if isCtl opcode then
    if !fin then abortWith st .plain else handle cfg st opcode data
  else if opcode = 0 then
    match st.fragBuf with
    | none => abortWith st .plain
    | some buf =>
      if fin then handle cfg { st with fragBuf := none } st.fragOp (buf ++ data)
      else ({ st with fragBuf := some (buf ++ data) }, [])
  else
    match st.fragBuf with
    | some _ => abortWith st .plain
    | none =>
      if opcode != 1 && opcode != 2 then abortWith st .plain
      else if !fin then ({ st with fragBuf := some data, fragOp := opcode }, [])
      else handle cfg st opcode data

/-- `_receive_frame` on one complete frame -/
def stepFrame (cfg : Cfg) (st : State) (f : Frame) : State × List Event :=
  match rsvCheck cfg st f.rsv f.opcode with
  | none => abortWith st .plain
  | some c =>
    let st1 := { st with compressed := c }
    if isCtl f.opcode && 1 ≤ f.ext then abortWith st1 .plain
    else if tooBig cfg st1 f.opcode f.payload.length then abortWith st1 .big
    else dispatch cfg st1 f.fin f.opcode f.payload

/-- `_receive_frame_loop` over complete frames -/
def runFrames (cfg : Cfg) : State → List Frame → State × List Event
  | st, [] => (st, [])
  | st, f :: fs =>
    if st.status != .open then (st, [])
    else
      let r := stepFrame cfg st f
      let r2 := runFrames cfg r.1 fs
      (r2.1, r.2 ++ r2.2)

inductive StepRes where
  | more                                           -- a read is pending
  | done (st : State) (evs : List Event) (rest : Bytes)
  deriving Repr

/-- `_receive_frame` as written, on the bytes available: the checks sit between the reads, so an abort can
happen before the payload (or even the extended length) has arrived.  After an abort the rest is dropped. -/
def stepBytes (cfg : Cfg) (st : State) : Bytes → StepRes
  | b0 :: b1 :: r =>
    let opcode := b0 % 16
    match rsvCheck cfg st (b0 / 16 % 8) opcode with
    | none => let a := abortWith st .plain; .done a.1 a.2 []
    | some c =>
      let st1 := { st with compressed := c }
      if isCtl opcode && 126 ≤ b1 % 128 then let a := abortWith st1 .plain; .done a.1 a.2 []
      else
        match readLen (b1 % 128) r with
        | none => .more
        | some (len, r2) =>
          if tooBig cfg st1 opcode len then let a := abortWith st1 .big; .done a.1 a.2 []
          else
            match readMask (b1 / 128 % 2 == 1) r2 with
            | none => .more
            | some (mk, r3) =>
              if r3.length < len then .more
              else
                let a := dispatch cfg st1 (b0 / 128 % 2 == 1) opcode (applyMask mk (r3.take len))
                .done a.1 a.2 (if a.1.status == .aborted then [] else r3.drop len)
  | _ => .more

/-- `_receive_frame_loop` over the bytes that arrived; returns the unread rest -/
def runBytes (cfg : Cfg) : Nat → State → Bytes → State × List Event × Bytes
  | 0, st, bs => (st, [], bs)
  | fuel + 1, st, bs =>
    if st.status != .open then (st, [], bs)
    else
      match stepBytes cfg st bs with
      | .more => (st, [], bs)
      | .done st' evs rest =>
        let r := runBytes cfg fuel st' rest
        (r.1, evs ++ r.2.1, r.2.2)

/-- the stream reaches EOF / is cut: a pending read fails with StreamClosedError → `_abort()` -/
def finish (eof : Bool) (r : State × List Event × Bytes) : State × List Event :=
  if eof && r.1.status == .open then ({ r.1 with status := .aborted }, r.2.1 ++ [.abort .plain])
  else (r.1, r.2.1)

/-- what the receiving side writes (server side, unmasked): a pong per ping, the close echo, the 1009 close -/
def closeBody (code : Option Nat) (reason : Bytes) : Bytes :=
  match code with
  | none => reason
  | some c => be16 c ++ reason

/-- "message too big" -/
def tooBigText : Bytes := [109,101,115,115,97,103,101,32,116,111,111,32,98,105,103]
/-- " after decompression" -/
def afterText : Bytes := [32,97,102,116,101,114,32,100,101,99,111,109,112,114,101,115,115,105,111,110]

def written : List Event → Bytes
  | [] => []
  | .ping d :: es => writeFrame true 10 d 0 none ++ written es
  | .close code _ :: es => writeFrame true 8 (closeBody code []) 0 none ++ written es
  | .abort .big :: es => writeFrame true 8 (be16 1009 ++ tooBigText) 0 none ++ written es
  | .abort .bigAfter :: es => writeFrame true 8 (be16 1009 ++ tooBigText ++ afterText) 0 none ++ written es
  | _ :: es => written es

def messagesOf : List Event → List (Bool × Bytes)
  | [] => []
  | .message t d :: es => (t, d) :: messagesOf es
  | _ :: es => messagesOf es

end TornadoModel.C14
