/- C14 driver.
   C14 enc [frame,…]                      → x<bytes>             frame = [fin,rsv,opcode,ext,mask|~,payload]
   C14 parse x<bytes>                     → [frame,x<rest>] | ~
   C14 recv [deflate,max] x<bytes> eof [[x<in>,x<out>|TOOLARGE|ERROR],…]   → [event,…] STATUS x<written> leftover
   C14 frames [deflate,max] [frame,…] eof table                            → [event,…] STATUS x<written>
   C14 mask x<key> x<data> | C14 utf8 x<data> | C14 write fin opcode x<data> rsv mask|~
   C14 send [msg,…]    → [frame,…]        msg = [text,x<data>,z,[part,…]]  part = [[ctl,…],x<chunk>,mask|~,ext]  ctl = [opcode,x<data>,mask|~]
   C14 expect [msg,…]  → [[text,x<data>],…]
-/
import TornadoModel.Base.Wire
import TornadoModel.C14.Spec
namespace TornadoModel.C14.Drv
open TornadoModel TornadoModel.Wire TornadoModel.C14

def decMask (v : V) : Option (Option Mask) :=
  if v.isNone then some none
  else match v.byteNats? with
    | some [a, b, c, d] => some (some ⟨a, b, c, d⟩)
    | _ => none

def encMask : Option Mask → V
  | none => .none
  | some m => V.ofByteNats m.bytes

def decFrame (v : V) : Option Frame := do
  match ← v.list? with
  | [fin, rsv, op, ext, mk, pl] =>
    pure { fin := ← fin.bool?, rsv := ← rsv.nat?, opcode := ← op.nat?, ext := ← ext.nat?, mask := ← decMask mk,
           payload := ← pl.byteNats? }
  | _ => none

def encFrame (f : Frame) : V :=
  .list [V.ofBool f.fin, V.ofNat f.rsv, V.ofNat f.opcode, V.ofNat f.ext, encMask f.mask, V.ofByteNats f.payload]

def decDRes (v : V) : Option DRes :=
  match v with
  | .atom "TOOLARGE" => some .tooLarge
  | .atom "ERROR" => some .error
  | _ => (v.byteNats?).map DRes.ok

def decTable (v : V) : Option (List (Bytes × DRes)) := do
  (← v.list?).mapM (fun e => do
    match ← e.list? with
    | [i, o] => pure (← i.byteNats?, ← decDRes o)
    | _ => none)

/-- the recorded calls of the real decompressor as a `Decomp`; an unexpected call is an `.error` -/
def tableDecomp (tbl : List (Bytes × DRes)) : Decomp := fun hist z =>
  match tbl[hist.length]? with
  | some (i, r) => if i == z then r else .error
  | none => .error

def decCfg (v : V) (tbl : List (Bytes × DRes)) : Option Cfg := do
  match ← v.list? with
  | [d, m] => pure { deflate := ← d.bool?, maxSize := ← m.nat?, decomp := tableDecomp tbl }
  | _ => none

def encAbort : Abort → V
  | .plain => .atom "PLAIN"
  | .big => .atom "BIG"
  | .bigAfter => .atom "BIGAFTER"

def encEvent : Event → V
  | .message t d => .list [.atom "M", V.ofBool t, V.ofByteNats d]
  | .ping d => .list [.atom "PING", V.ofByteNats d]
  | .pong d => .list [.atom "PONG", V.ofByteNats d]
  | .close c r => .list [.atom "CLOSE", V.ofOpt V.ofNat c, V.ofByteNats r]
  | .abort w => .list [.atom "ABORT", encAbort w]
  | .uncaught => .list [.atom "UNCAUGHT"]

def encStatus : Status → V
  | .open => .atom "OPEN"
  | .closed => .atom "CLOSED"
  | .aborted => .atom "ABORTED"
  | .crashed => .atom "CRASHED"

def decCtl (v : V) : Option Spec.Ctl := do
  match ← v.list? with
  | [op, d, mk] => pure { opcode := ← op.nat?, data := ← d.byteNats?, mask := ← decMask mk }
  | _ => none

def decPart (v : V) : Option Spec.Part := do
  match ← v.list? with
  | [pre, ch, mk, ext] =>
    pure { pre := ← (← pre.list?).mapM decCtl, chunk := ← ch.byteNats?, mask := ← decMask mk, ext := ← ext.nat? }
  | _ => none

def decMsg (v : V) : Option Spec.SMsg := do
  match ← v.list? with
  | [t, d, z, parts] =>
    match ← (← parts.list?).mapM decPart with
    | h :: tl => pure { text := ← t.bool?, data := ← d.byteNats?, z := ← z.bool?, head := h, tail := tl }
    | [] => none
  | _ => none

def result (r : State × List Event) : List V :=
  [.list (r.2.map encEvent), encStatus r.1.status, V.ofByteNats (written r.2)]

def handle (toks : List String) : String :=
  match parseArgs (toks.drop 1) with
  | none => err "bad-arg"
  | some args =>
    match toks.head?, args with
    | some "enc", [fs] =>
      match fs.list? >>= (·.mapM decFrame) with
      | some l => ok [V.ofByteNats (l.flatMap encodeFrame)]
      | none => err "bad-frame"
    | some "parse", [b] =>
      match b.byteNats? with
      | some bs => match parseFrame bs with
        | some (f, rest) => ok [.list [encFrame f, V.ofByteNats rest]]
        | none => ok [.none]
      | none => err "bad-arg"
    | some "recv", [c, b, eof, t] =>
      match decTable t with
      | none => err "bad-table"
      | some tbl =>
        match decCfg c tbl, b.byteNats?, eof.bool? with
        | some cfg, some bs, some e =>
          let r := runBytes cfg (bs.length + 1) init bs
          ok (result (finish e r) ++ [V.ofNat r.2.2.length])
        | _, _, _ => err "bad-arg"
    | some "frames", [c, fs, eof, t] =>
      match decTable t with
      | none => err "bad-table"
      | some tbl =>
        match decCfg c tbl, fs.list? >>= (·.mapM decFrame), eof.bool? with
        | some cfg, some l, some e =>
          let r := runFrames cfg init l
          ok (result (finish e (r.1, r.2, [])))
        | _, _, _ => err "bad-arg"
    | some "mask", [k, d] =>
      match decMask k, d.byteNats? with
      | some (some m), some bs => ok [V.ofByteNats (xorMask m bs)]
      | _, _ => err "bad-arg"
    | some "utf8", [d] =>
      match d.byteNats? with
      | some bs => ok [V.ofBool (validUtf8 bs)]
      | none => err "bad-arg"
    | some "write", [fin, op, d, rsv, mk] =>
      match fin.bool?, op.nat?, d.byteNats?, rsv.nat?, decMask mk with
      | some f, some o, some bs, some r, some m => ok [V.ofByteNats (writeFrame f o bs r m)]
      | _, _, _, _, _ => err "bad-arg"
    | some "send", [ms] =>
      match ms.list? >>= (·.mapM decMsg) with
      | some l => ok [.list ((Spec.scriptFrames l).map encFrame)]
      | none => err "bad-msg"
    | some "expect", [ms] =>
      match ms.list? >>= (·.mapM decMsg) with
      | some l => ok [.list ((Spec.expected l).map (fun (t, d) => .list [V.ofBool t, V.ofByteNats d]))]
      | none => err "bad-msg"
    | _, _ => err "bad-cmd"

end TornadoModel.C14.Drv
