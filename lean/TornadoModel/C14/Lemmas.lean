/- C14 — helper lemmas: masking, the frame codec round trip, bytes ↔ frames. -/
import TornadoModel.C14.Spec
namespace TornadoModel.C14

/-! ### masking -/

theorem xor_cancel (b k : Nat) : (b ^^^ k) ^^^ k = b := by
  rw [Nat.xor_assoc, Nat.xor_self, Nat.xor_zero]

theorem xorFrom_involution (m : Mask) (off : Nat) (d : Bytes) : xorFrom m off (xorFrom m off d) = d := by
  induction d generalizing off with
  | nil => rfl
  | cons b bs ih => simp [xorFrom, ih, xor_cancel]

theorem xorFrom_length (m : Mask) (off : Nat) (d : Bytes) : (xorFrom m off d).length = d.length := by
  induction d generalizing off with
  | nil => rfl
  | cons b bs ih => simp [xorFrom, ih]

theorem xorMask_length (m : Mask) (d : Bytes) : (xorMask m d).length = d.length := xorFrom_length m 0 d

theorem applyMask_involution (mk : Option Mask) (d : Bytes) : applyMask mk (applyMask mk d) = d := by
  cases mk with
  | none => rfl
  | some m => exact xorFrom_involution m 0 d

/-! ### header bytes -/

theorem b0_fin (fin : Bool) (rsv opcode : Nat) (h1 : rsv < 8) (h2 : opcode < 16) :
    ((b2n fin * 128 + rsv * 16 + opcode) / 128 % 2 == 1) = fin := by
  cases fin <;> simp [b2n] <;> omega

theorem b0_rsv (fin : Bool) (rsv opcode : Nat) (h1 : rsv < 8) (h2 : opcode < 16) :
    (b2n fin * 128 + rsv * 16 + opcode) / 16 % 8 = rsv := by
  cases fin <;> simp [b2n] <;> omega

theorem b0_opcode (fin : Bool) (rsv opcode : Nat) (h2 : opcode < 16) :
    (b2n fin * 128 + rsv * 16 + opcode) % 16 = opcode := by
  cases fin <;> simp [b2n] <;> omega

theorem be8_decode (n : Nat) (h : n < 18446744073709551616) :
    (n / 72057594037927936 % 256) * 72057594037927936 + (n / 281474976710656 % 256) * 281474976710656
      + (n / 1099511627776 % 256) * 1099511627776 + (n / 4294967296 % 256) * 4294967296
      + (n / 16777216 % 256) * 16777216 + (n / 65536 % 256) * 65536 + (n / 256 % 256) * 256 + n % 256 = n := by
  omega

/-- the length bytes written for form `ext` are read back by `readLen` -/
theorem parse_lenBytes (ext mb n : Nat) (tail : Bytes) (hmb : mb ≤ 1) (hext : extOk ext n) :
    ∃ b1 lb, lenBytes ext mb n = b1 :: lb ∧ b1 / 128 % 2 = mb ∧ extOf (b1 % 128) = ext
      ∧ readLen (b1 % 128) (lb ++ tail) = some (n, tail) := by
  rcases hext with ⟨he, hn⟩ | ⟨he, hn⟩ | ⟨he, hn⟩
  · subst he
    refine ⟨mb * 128 + n, [], rfl, by omega, ?_, ?_⟩
    · have : (mb * 128 + n) % 128 = n := by omega
      simp [extOf, this, hn]
    · have : (mb * 128 + n) % 128 = n := by omega
      simp [readLen, this, hn]
  · subst he
    refine ⟨mb * 128 + 126, be2 n, rfl, by omega, ?_, ?_⟩
    · have : (mb * 128 + 126) % 128 = 126 := by omega
      simp [extOf, this]
    · have : (mb * 128 + 126) % 128 = 126 := by omega
      have h2 : n / 256 % 256 * 256 + n % 256 = n := by omega
      simp [readLen, this, be2, h2]
  · subst he
    refine ⟨mb * 128 + 127, be8 n, rfl, by omega, ?_, ?_⟩
    · have : (mb * 128 + 127) % 128 = 127 := by omega
      simp [extOf, this]
    · have : (mb * 128 + 127) % 128 = 127 := by omega
      simp [readLen, this, be8, be8_decode n hn]


/-! ### the codec round trip -/

theorem take_xor (m : Mask) (p rest : Bytes) : (xorMask m p ++ rest).take p.length = xorMask m p :=
  List.take_left' (xorMask_length m p)

theorem drop_xor (m : Mask) (p rest : Bytes) : (xorMask m p ++ rest).drop p.length = rest :=
  List.drop_left' (xorMask_length m p)

theorem b2n_false : b2n false = 0 := rfl
theorem b2n_true : b2n true = 1 := rfl

theorem parse_encode (f : Frame) (rest : Bytes) (h : f.wf) :
    parseFrame (encodeFrame f ++ rest) = some (f, rest) := by
  obtain ⟨hr, ho, he⟩ := h
  obtain ⟨fin, rsv, opcode, ext, mask, payload⟩ := f
  simp only at hr ho he
  have h1 := b0_fin fin rsv opcode hr ho
  have h2 := b0_rsv fin rsv opcode hr ho
  have h3 := b0_opcode fin rsv opcode ho
  cases mask with
  | none =>
    obtain ⟨b1, lb, e1, e2, e3, e4⟩ := parse_lenBytes ext 0 payload.length (payload ++ rest) (by omega) he
    have hm : (b1 / 128 % 2 == 1) = false := by simp [e2]
    simp only [encodeFrame, Option.isSome_none, b2n_false, e1, List.cons_append,
      List.append_assoc, parseFrame, e4, hm, readMask, h1, h2, h3, e3]
    simp [applyMask]
  | some m =>
    obtain ⟨b1, lb, e1, e2, e3, e4⟩ :=
      parse_lenBytes ext 1 payload.length (m.bytes ++ (xorMask m payload ++ rest)) (by omega) he
    have hm : (b1 / 128 % 2 == 1) = true := by simp [e2]
    have hmk : readMask true (m.bytes ++ (xorMask m payload ++ rest)) = some (some m, xorMask m payload ++ rest) := by
      simp [readMask, Mask.bytes]
    simp only [encodeFrame, Option.isSome_some, b2n_true, e1, List.cons_append,
      List.append_assoc, parseFrame, e4, hm, hmk, h1, h2, h3, e3]
    simp [applyMask, xorMask_length]
    exact xorFrom_involution m 0 payload

/-! ### `_receive_frame` on bytes = `_receive_frame` on the parsed frame -/

theorem applyMask_length (mk : Option Mask) (d : Bytes) : (applyMask mk d).length = d.length := by
  cases mk with
  | none => rfl
  | some m => exact xorMask_length m d

theorem one_le_extOf (x : Nat) : (1 ≤ extOf x) ↔ (126 ≤ x) := by
  unfold extOf; split <;> (try split) <;> omega

theorem aborted_beq : (Status.aborted == Status.aborted) = true := rfl

/-- the result of `stepBytes` once a whole frame is available -/
def afterFrame (cfg : Cfg) (st : State) (f : Frame) (rest : Bytes) : StepRes :=
  .done (stepFrame cfg st f).1 (stepFrame cfg st f).2
    (if (stepFrame cfg st f).1.status == .aborted then [] else rest)

theorem stepBytes_of_parse (cfg : Cfg) (st : State) (bs : Bytes) (f : Frame) (rest : Bytes)
    (h : parseFrame bs = some (f, rest)) : stepBytes cfg st bs = afterFrame cfg st f rest := by
  match bs, h with
  | b0 :: b1 :: r, h =>
    simp only [parseFrame] at h
    split at h
    · contradiction
    · rename_i len r2 hlen
      split at h
      · contradiction
      · rename_i mk r3 hmk
        split at h
        · contradiction
        · rename_i hl
          simp only [Option.some.injEq, Prod.mk.injEq] at h
          obtain ⟨rfl, rfl⟩ := h
          have hlen' : (applyMask mk (List.take len r3)).length = len := by
            rw [applyMask_length, List.length_take]; omega
          simp only [stepBytes, afterFrame, stepFrame, hlen, hmk, hlen', one_le_extOf]
          cases rsvCheck cfg st (b0 / 16 % 8) (b0 % 16) with
          | none => simp [abortWith, aborted_beq]
          | some c =>
            simp only
            split
            · simp [abortWith, aborted_beq]
            · split
              · simp [abortWith, aborted_beq]
              · simp

theorem stepBytes_encode' (cfg : Cfg) (st : State) (f : Frame) (rest : Bytes) (h : f.wf) :
    stepBytes cfg st (encodeFrame f ++ rest) = afterFrame cfg st f rest :=
  stepBytes_of_parse cfg st _ f rest (parse_encode f rest h)

theorem runFrames_not_open (cfg : Cfg) (st : State) (fs : List Frame) (h : (st.status != .open) = true) :
    runFrames cfg st fs = (st, []) := by
  cases fs with
  | nil => rfl
  | cons f fs => simp [runFrames, h]

theorem encodeFrame_length_pos (f : Frame) : 0 < (encodeFrame f).length := by
  simp [encodeFrame]

theorem status_ne_open_of_aborted (s : Status) (h : (s == .aborted) = true) : (s != .open) = true := by
  cases s <;> first | rfl | (exact absurd h (by decide))

theorem runBytes_flatMap (cfg : Cfg) (frames : List Frame) (hwf : ∀ f ∈ frames, f.wf) :
    ∀ (fuel : Nat) (st : State), (frames.flatMap encodeFrame).length < fuel →
      (runBytes cfg fuel st (frames.flatMap encodeFrame)).1 = (runFrames cfg st frames).1
      ∧ (runBytes cfg fuel st (frames.flatMap encodeFrame)).2.1 = (runFrames cfg st frames).2 := by
  induction frames with
  | nil =>
    intro fuel st _
    cases fuel with
    | zero => simp [runBytes, runFrames]
    | succ k =>
      by_cases ho : (st.status != .open) = true
      · simp [runBytes, runFrames, ho]
      · simp [runBytes, runFrames, ho, stepBytes]
  | cons f fs ih =>
    intro fuel st hfuel
    have hf : f.wf := hwf f (by simp)
    have hfs : ∀ g ∈ fs, g.wf := fun g hg => hwf g (by simp [hg])
    cases fuel with
    | zero => simp at hfuel
    | succ k =>
      by_cases ho : (st.status != .open) = true
      · simp [runBytes, runFrames, ho]
      · have hpos := encodeFrame_length_pos f
        simp only [List.flatMap_cons, List.length_append] at hfuel
        simp only [List.flatMap_cons, runBytes, runFrames, ho, stepBytes_encode' cfg st f _ hf, afterFrame,
          Bool.false_eq_true, if_false]
        by_cases ha : ((stepFrame cfg st f).1.status == .aborted) = true
        · have hno := status_ne_open_of_aborted _ ha
          simp only [ha, if_true]
          rw [runFrames_not_open cfg _ fs hno]
          cases k with
          | zero => simp [runBytes]
          | succ k' => simp [runBytes, hno]
        · simp only [ha, Bool.false_eq_true, if_false]
          obtain ⟨h1, h2⟩ := ih hfs k (stepFrame cfg st f).1 (by omega)
          simp [h1, h2]

/-! ### fuel: `bs.length + 1` steps are always enough -/

theorem readLen_le (x : Nat) (r : Bytes) (n : Nat) (r2 : Bytes) (h : readLen x r = some (n, r2)) :
    r2.length ≤ r.length := by
  unfold readLen at h
  split at h
  · simp only [Option.some.injEq, Prod.mk.injEq] at h; rw [← h.2]; omega
  · split at h
    · split at h
      · simp only [Option.some.injEq, Prod.mk.injEq] at h; rw [← h.2]; simp; omega
      · contradiction
    · split at h
      · simp only [Option.some.injEq, Prod.mk.injEq] at h; rw [← h.2]; simp; omega
      · contradiction

theorem readMask_le (b : Bool) (r : Bytes) (mk : Option Mask) (r2 : Bytes) (h : readMask b r = some (mk, r2)) :
    r2.length ≤ r.length := by
  unfold readMask at h
  split at h
  · split at h
    · simp only [Option.some.injEq, Prod.mk.injEq] at h; rw [← h.2]; simp; omega
    · contradiction
  · simp only [Option.some.injEq, Prod.mk.injEq] at h; rw [← h.2]; omega

theorem stepBytes_progress (cfg : Cfg) (st : State) (bs : Bytes) (st' : State) (evs : List Event) (rest : Bytes)
    (h : stepBytes cfg st bs = .done st' evs rest) : rest.length < bs.length := by
  match bs, h with
  | b0 :: b1 :: r, h =>
    simp only [stepBytes] at h
    split at h
    · simp only [StepRes.done.injEq] at h; rw [← h.2.2]; simp
    · split at h
      · simp only [StepRes.done.injEq] at h; rw [← h.2.2]; simp
      · split at h
        · contradiction
        · rename_i len r2 hlen
          have l1 := readLen_le _ _ _ _ hlen
          split at h
          · simp only [StepRes.done.injEq] at h; rw [← h.2.2]; simp
          · split at h
            · contradiction
            · rename_i mk r3 hmk
              have l2 := readMask_le _ _ _ _ hmk
              split at h
              · contradiction
              · simp only [StepRes.done.injEq] at h
                rw [← h.2.2]
                split
                · simp
                · simp only [List.length_drop, List.length_cons]; omega

theorem runBytes_fuel (cfg : Cfg) : ∀ (fuel1 fuel2 : Nat) (st : State) (bs : Bytes),
    bs.length < fuel1 → bs.length < fuel2 → runBytes cfg fuel1 st bs = runBytes cfg fuel2 st bs := by
  intro fuel1
  induction fuel1 with
  | zero => intro _ _ _ h; omega
  | succ k ih =>
    intro fuel2 st bs h1 h2
    cases fuel2 with
    | zero => omega
    | succ k2 =>
      simp only [runBytes]
      split
      · rfl
      · cases hs : stepBytes cfg st bs with
        | more => rfl
        | done st' evs rest =>
          have := stepBytes_progress cfg st bs st' evs rest hs
          simp only
          rw [ih k2 st' rest (by omega) (by omega)]

end TornadoModel.C14
