/-
C14 — the specification side.

What the property demands is one line: the receiving application gets exactly the messages the sending
application sent, in the same order (`expected`).  The rest of this file says what "any fragmentation, any
interleaving of control frames, compression on or off, either masking direction" means: a *script* is a list
of messages, each cut into arbitrary chunks of its wire payload, each chunk preceded by arbitrary
ping/pong frames, each frame with an arbitrary mask and length form (`scriptFrames`).  The compressor is
an arbitrary function `comp hist d` (history of the payloads compressed before, this payload) that the
receiving side's decompressor inverts (`Codec`).
-/
import TornadoModel.C14.Model
namespace TornadoModel.C14.Spec
open TornadoModel.C14

/-- a ping or pong the sender interleaves -/
structure Ctl where
  opcode : Nat
  data : Bytes
  mask : Option Mask
  deriving Repr, BEq, DecidableEq

def Ctl.frame (c : Ctl) : Frame :=
  { fin := true, rsv := 0, opcode := c.opcode, ext := 0, mask := c.mask, payload := c.data }

/-- one fragment of a message, with the control frames sent just before it -/
structure Part where
  pre : List Ctl
  chunk : Bytes
  mask : Option Mask
  ext : Nat
  deriving Repr, BEq, DecidableEq

/-- a message as the sending application hands it over (`text`, `data`), plus how the sender puts it on the
wire: compressed or not (`z`), and the fragmentation of the wire payload. -/
structure SMsg where
  text : Bool
  data : Bytes
  z : Bool
  head : Part
  tail : List Part
  deriving Repr, BEq, DecidableEq

def chunksOf : List Part → Bytes
  | [] => []
  | p :: ps => p.chunk ++ chunksOf ps

/-- the wire payload of the message = concatenation of its chunks -/
def SMsg.wire (m : SMsg) : Bytes := m.head.chunk ++ chunksOf m.tail

def dataOp (text : Bool) : Nat := if text then 1 else 2

/-- continuation frames; the last one carries FIN -/
def contFrames : List Part → List Frame
  | [] => []
  | p :: ps =>
    p.pre.map Ctl.frame
      ++ { fin := ps.isEmpty, rsv := 0, opcode := 0, ext := p.ext, mask := p.mask, payload := p.chunk } :: contFrames ps

def msgFrames (m : SMsg) : List Frame :=
  m.head.pre.map Ctl.frame
    ++ { fin := m.tail.isEmpty, rsv := if m.z then 4 else 0, opcode := dataOp m.text, ext := m.head.ext,
         mask := m.head.mask, payload := m.head.chunk } :: contFrames m.tail

def scriptFrames : List SMsg → List Frame
  | [] => []
  | m :: ms => msgFrames m ++ scriptFrames ms

/-- THE SPECIFICATION: what the receiving application must see -/
def expected (ms : List SMsg) : List (Bool × Bytes) := ms.map (fun m => (m.text, m.data))

/-! the compressor as the sender uses it -/

abbrev Comp := List Bytes → Bytes → Bytes

/-- compressed forms of `ds` when `pre` was compressed before them -/
def compFrom (comp : Comp) (pre : List Bytes) : List Bytes → List Bytes
  | [] => []
  | d :: ds => comp pre d :: compFrom comp (pre ++ [d]) ds

/-- contract of the opaque zlib pair: the receiver's decompressor, having seen the compressed forms of
`hist`, maps the compressed form of `d` back to `d` (for payloads within the size limit). -/
def Codec (cfg : Cfg) (comp : Comp) : Prop :=
  ∀ hist d, d.length ≤ cfg.maxSize → cfg.decomp (compFrom comp [] hist) (comp hist d) = .ok d

def ctlOk (cfg : Cfg) (c : Ctl) : Prop :=
  (c.opcode = 9 ∨ c.opcode = 10) ∧ c.data.length ≤ 125 ∧ c.data.length ≤ cfg.maxSize

def partsOk (cfg : Cfg) : List Part → Prop
  | [] => True
  | p :: ps => (∀ c ∈ p.pre, ctlOk cfg c) ∧ partsOk cfg ps

/-- a message the sender may legitimately put on the wire under `cfg`, after compressing `hist` -/
def msgOk (cfg : Cfg) (comp : Comp) (hist : List Bytes) (m : SMsg) : Prop :=
  partsOk cfg (m.head :: m.tail)
  ∧ m.wire = (if m.z then comp hist m.data else m.data)
  ∧ m.wire.length ≤ cfg.maxSize
  ∧ (m.text = true → validUtf8 m.data = true)
  ∧ (m.z = true → cfg.deflate = true ∧ m.data.length ≤ cfg.maxSize)

def histAfter (hist : List Bytes) (m : SMsg) : List Bytes := if m.z then hist ++ [m.data] else hist

def scriptOk (cfg : Cfg) (comp : Comp) : List Bytes → List SMsg → Prop
  | _, [] => True
  | hist, m :: ms => msgOk cfg comp hist m ∧ scriptOk cfg comp (histAfter hist m) ms

end TornadoModel.C14.Spec
