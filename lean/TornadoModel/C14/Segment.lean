/- C14 — the frame receive loop does not depend on how TCP cut the byte stream into segments. -/
import TornadoModel.C14.Lemmas
namespace TornadoModel.C14

/-- the receive loop fed segment by segment: `_receive_frame_loop` consumes what it can of the bytes that have
arrived; the bytes of an incomplete frame stay pending (in the IOStream read buffer) until the next segment -/
def runSegs (cfg : Cfg) : State → Bytes → List Bytes → State × List Event × Bytes
  | st, pend, [] => (st, [], pend)
  | st, pend, seg :: segs =>
    let r := runBytes cfg ((pend ++ seg).length + 1) st (pend ++ seg)
    let r2 := runSegs cfg r.1 r.2.2 segs
    (r2.1, r.2.1 ++ r2.2.1, r2.2.2)

/-- after `_abort()` the stream is closed: whatever was left unread is gone -/
def normRest (r : State × List Event × Bytes) : State × List Event × Bytes :=
  (r.1, r.2.1, if r.1.status == .aborted then [] else r.2.2)

/-- `runBytes` with the canonical (always sufficient) fuel -/
def runB (cfg : Cfg) (st : State) (bs : Bytes) : State × List Event × Bytes := runBytes cfg (bs.length + 1) st bs

theorem runBytes_eq_runB (cfg : Cfg) (fuel : Nat) (st : State) (bs : Bytes) (h : bs.length < fuel) :
    runBytes cfg fuel st bs = runB cfg st bs :=
  runBytes_fuel cfg fuel (bs.length + 1) st bs h (by omega)

theorem runB_not_open (cfg : Cfg) (st : State) (bs : Bytes) (h : (st.status != .open) = true) :
    runB cfg st bs = (st, [], bs) := by
  simp [runB, runBytes, h]

theorem runB_more (cfg : Cfg) (st : State) (bs : Bytes) (h : stepBytes cfg st bs = .more) :
    runB cfg st bs = (st, [], bs) := by
  by_cases ho : (st.status != .open) = true
  · exact runB_not_open cfg st bs ho
  · simp [runB, runBytes, ho, h]

theorem runB_done (cfg : Cfg) (st : State) (bs : Bytes) (st' : State) (evs : List Event) (rest : Bytes)
    (ho : ¬ (st.status != .open) = true) (h : stepBytes cfg st bs = .done st' evs rest) :
    runB cfg st bs = ((runB cfg st' rest).1, evs ++ (runB cfg st' rest).2.1, (runB cfg st' rest).2.2) := by
  have hp := stepBytes_progress cfg st bs st' evs rest h
  have e : runBytes cfg (bs.length + 1) st bs
      = ((runBytes cfg bs.length st' rest).1, evs ++ (runBytes cfg bs.length st' rest).2.1,
         (runBytes cfg bs.length st' rest).2.2) := by
    simp [runBytes, ho, h]
  rw [runB, e, runBytes_eq_runB cfg bs.length st' rest hp]

/-! ### more bytes behind a complete frame change nothing -/

theorem readLen_append (x : Nat) (r more : Bytes) (n : Nat) (r2 : Bytes) (h : readLen x r = some (n, r2)) :
    readLen x (r ++ more) = some (n, r2 ++ more) := by
  unfold readLen at h ⊢
  split at h
  · rename_i h1
    simp only [Option.some.injEq, Prod.mk.injEq] at h
    obtain ⟨rfl, rfl⟩ := h
    simp [h1]
  · rename_i h1
    split at h
    · rename_i h2
      split at h
      · simp only [Option.some.injEq, Prod.mk.injEq] at h
        obtain ⟨rfl, rfl⟩ := h
        simp [h2]
      · contradiction
    · rename_i h2
      split at h
      · simp only [Option.some.injEq, Prod.mk.injEq] at h
        obtain ⟨rfl, rfl⟩ := h
        simp [h1, h2]
      · contradiction

theorem readMask_append (b : Bool) (r more : Bytes) (mk : Option Mask) (r2 : Bytes)
    (h : readMask b r = some (mk, r2)) : readMask b (r ++ more) = some (mk, r2 ++ more) := by
  unfold readMask at h ⊢
  split at h
  · rename_i hb
    split at h
    · simp only [Option.some.injEq, Prod.mk.injEq] at h
      obtain ⟨rfl, rfl⟩ := h
      simp [hb]
    · contradiction
  · rename_i hb
    simp only [Option.some.injEq, Prod.mk.injEq] at h
    obtain ⟨rfl, rfl⟩ := h
    simp [hb]

/-- once `_receive_frame` has finished a frame on the bytes available, it does exactly the same when more bytes
are already there; the extra bytes are left unread (or dropped with the stream after an abort) -/
theorem stepBytes_append (cfg : Cfg) (st : State) (bs more : Bytes) (st' : State) (evs : List Event) (rest : Bytes)
    (h : stepBytes cfg st bs = .done st' evs rest) :
    stepBytes cfg st (bs ++ more) = .done st' evs (if st'.status == .aborted then [] else rest ++ more) := by
  match bs, h with
  | b0 :: b1 :: r, h =>
    simp only [List.cons_append, stepBytes] at h ⊢
    split at h
    · rename_i hr
      simp only [StepRes.done.injEq] at h
      obtain ⟨rfl, rfl, rfl⟩ := h
      simp [abortWith, aborted_beq]
    · rename_i c hr
      split at h
      · rename_i hctl
        simp only [StepRes.done.injEq] at h
        obtain ⟨rfl, rfl, rfl⟩ := h
        simp [hctl, abortWith, aborted_beq]
      · rename_i hctl
        simp only [hctl, Bool.false_eq_true, if_false]
        split at h
        · contradiction
        · rename_i len r2 hlen
          simp only [readLen_append _ _ more _ _ hlen]
          split at h
          · rename_i hbig
            simp only [StepRes.done.injEq] at h
            obtain ⟨rfl, rfl, rfl⟩ := h
            simp [hbig, abortWith, aborted_beq]
          · rename_i hbig
            simp only [hbig, Bool.false_eq_true, if_false]
            split at h
            · contradiction
            · rename_i mk r3 hmk
              simp only [readMask_append _ _ more _ _ hmk]
              split at h
              · contradiction
              · rename_i hl
                have hle : len ≤ r3.length := by omega
                have hl' : ¬ (r3 ++ more).length < len := by simp only [List.length_append]; omega
                simp only [StepRes.done.injEq] at h
                obtain ⟨rfl, rfl, rfl⟩ := h
                simp only [hl', if_false, List.take_append_of_le_length hle, List.drop_append_of_le_length hle,
                  StepRes.done.injEq, true_and]
                split <;> simp

theorem normRest_prefix (evs : List Event) (a b : State × List Event × Bytes) (h : normRest a = normRest b) :
    normRest (a.1, evs ++ a.2.1, a.2.2) = normRest (b.1, evs ++ b.2.1, b.2.2) := by
  simp only [normRest, Prod.mk.injEq] at h ⊢
  obtain ⟨h1, h2, h3⟩ := h
  rw [h1] at h3 ⊢
  exact ⟨rfl, by rw [h2], h3⟩

/-- running on `a ++ b` = running on `a`, then on what `a` left unread followed by `b` -/
theorem runB_append (cfg : Cfg) (b : Bytes) : ∀ (n : Nat) (st : State) (a : Bytes), a.length ≤ n →
    normRest (runB cfg st (a ++ b))
      = normRest ((runB cfg (runB cfg st a).1 ((runB cfg st a).2.2 ++ b)).1,
                  (runB cfg st a).2.1 ++ (runB cfg (runB cfg st a).1 ((runB cfg st a).2.2 ++ b)).2.1,
                  (runB cfg (runB cfg st a).1 ((runB cfg st a).2.2 ++ b)).2.2) := by
  intro n
  induction n with
  | zero =>
    intro st a ha
    have : a = [] := List.length_eq_zero_iff.mp (by omega)
    subst this
    have : runB cfg st [] = (st, [], []) := runB_more cfg st [] rfl
    simp [this]
  | succ n ih =>
    intro st a ha
    by_cases ho : (st.status != .open) = true
    · simp [runB_not_open cfg st _ ho]
    · cases hs : stepBytes cfg st a with
      | more => simp [runB_more cfg st a hs]
      | done st' evs rest =>
        have hp := stepBytes_progress cfg st a st' evs rest hs
        rw [runB_done cfg st a st' evs rest ho hs,
          runB_done cfg st (a ++ b) st' evs _ ho (stepBytes_append cfg st a b st' evs rest hs)]
        by_cases hab : (st'.status == .aborted) = true
        · have hno := status_ne_open_of_aborted _ hab
          simp [runB_not_open cfg st' _ hno, normRest, hab]
        · simp only [hab, Bool.false_eq_true, if_false]
          have := normRest_prefix evs _ _ (ih st' rest (by omega))
          simpa [List.append_assoc] using this

/-- what a run leaves unread stays unread when the loop is entered again without new bytes -/
theorem runB_idem (cfg : Cfg) : ∀ (n : Nat) (st : State) (bs : Bytes), bs.length ≤ n →
    runB cfg (runB cfg st bs).1 (runB cfg st bs).2.2 = ((runB cfg st bs).1, [], (runB cfg st bs).2.2) := by
  intro n
  induction n with
  | zero =>
    intro st bs hb
    have : bs = [] := List.length_eq_zero_iff.mp (by omega)
    subst this
    have : runB cfg st [] = (st, [], []) := runB_more cfg st [] rfl
    simp [this]
  | succ n ih =>
    intro st bs hb
    by_cases ho : (st.status != .open) = true
    · simp [runB_not_open cfg st _ ho]
    · cases hs : stepBytes cfg st bs with
      | more => simp [runB_more cfg st bs hs]
      | done st' evs rest =>
        have hp := stepBytes_progress cfg st bs st' evs rest hs
        rw [runB_done cfg st bs st' evs rest ho hs]
        exact ih st' rest (by omega)

theorem runSegs_runB (cfg : Cfg) (segs : List Bytes) : ∀ (st : State) (pend : Bytes),
    runB cfg st pend = (st, [], pend) →
    normRest (runSegs cfg st pend segs) = normRest (runB cfg st (pend ++ segs.flatten)) := by
  induction segs with
  | nil => intro st pend h; simp [runSegs, h]
  | cons seg segs ih =>
    intro st pend _
    have hidem := runB_idem cfg _ st (pend ++ seg) (Nat.le_refl _)
    have h1 := ih (runB cfg st (pend ++ seg)).1 (runB cfg st (pend ++ seg)).2.2 hidem
    have h2 := runB_append cfg segs.flatten _ st (pend ++ seg) (Nat.le_refl _)
    have h3 := normRest_prefix (runB cfg st (pend ++ seg)).2.1 _ _ h1
    simp only [runSegs, List.flatten_cons, ← List.append_assoc]
    rw [h2]
    exact h3

end TornadoModel.C14
