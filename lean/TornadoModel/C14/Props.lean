/-
C14 — WebSocket messages arrive intact and in order under every configuration: the property theorems.
(Model: C14/Model.lean; what a "script" is: C14/Spec.lean; proofs: C14/Lemmas.lean, C14/Intact.lean.)
-/
import TornadoModel.C14.Intact
import TornadoModel.C14.Segment
namespace TornadoModel.C14
open Spec

/-- masking is an involution: unmasking what `_write_frame` masked gives the data back (any key, any length) -/
theorem mask_involution (m : Mask) (data : Bytes) : xorMask m (xorMask m data) = data :=
  xorFrom_involution m 0 data

/-- decoding an encoded frame yields the frame and leaves the rest of the stream: every payload length
below 2^64 in any length form that can hold it, masked or not, any FIN/RSV/opcode. -/
theorem frame_roundtrip (f : Frame) (rest : Bytes) (h : f.wf) :
    parseFrame (encodeFrame f ++ rest) = some (f, rest) :=
  parse_encode f rest h

/-- the same for exactly what `_write_frame(fin, opcode, data, flags)` emits (it picks the minimal form):
every data length below 2^64 — the 125/126 and 65535/65536 boundaries are cases of the proof. -/
theorem write_frame_roundtrip (fin : Bool) (opcode rsv : Nat) (data : Bytes) (mask : Option Mask) (rest : Bytes)
    (hr : rsv < 8) (ho : opcode < 16) (hl : data.length < 18446744073709551616) :
    parseFrame (writeFrame fin opcode data rsv mask ++ rest)
      = some ({ fin, rsv, opcode, ext := minExt data.length, mask, payload := data }, rest) := by
  apply parse_encode
  refine ⟨hr, ho, ?_⟩
  simp only [minExt, extOk]
  split
  · left; exact ⟨rfl, by assumption⟩
  · split
    · right; left; exact ⟨rfl, by omega⟩
    · right; right; exact ⟨rfl, hl⟩

/-- `_receive_frame` run on the bytes of an encoded frame does exactly what the frame-level step does -/
theorem stepBytes_encode (cfg : Cfg) (st : State) (f : Frame) (rest : Bytes) (h : f.wf) :
    stepBytes cfg st (encodeFrame f ++ rest)
      = .done (stepFrame cfg st f).1 (stepFrame cfg st f).2
          (if (stepFrame cfg st f).1.status == .aborted then [] else rest) :=
  stepBytes_encode' cfg st f rest h

/-- the receive loop over the concatenated encodings of a frame list = the loop over the frames -/
theorem runBytes_encode (cfg : Cfg) (frames : List Frame) (hwf : ∀ f ∈ frames, f.wf) (fuel : Nat) (st : State)
    (hfuel : (frames.flatMap encodeFrame).length < fuel) :
    (runBytes cfg fuel st (frames.flatMap encodeFrame)).1 = (runFrames cfg st frames).1
    ∧ (runBytes cfg fuel st (frames.flatMap encodeFrame)).2.1 = (runFrames cfg st frames).2 :=
  runBytes_flatMap cfg frames hwf fuel st hfuel

/-- fuel sufficiency: any fuel above the stream length gives the same run (no theorem is true "by running out") -/
theorem runBytes_fuel_indep (cfg : Cfg) (fuel1 fuel2 : Nat) (st : State) (bs : Bytes)
    (h1 : bs.length < fuel1) (h2 : bs.length < fuel2) : runBytes cfg fuel1 st bs = runBytes cfg fuel2 st bs :=
  runBytes_fuel cfg fuel1 fuel2 st bs h1 h2

/-- pings and pongs (≤ 125 bytes) inserted anywhere — also between the fragments of a compressed message —
change neither the receive state nor the messages delivered by the frames that follow -/
theorem control_frames_transparent (cfg : Cfg) (st : State) (hop : st.status = .open) (cs : List Ctl)
    (hcs : ∀ c ∈ cs, ctlOk cfg c) (rest : List Frame) :
    (runFrames cfg st (cs.map Ctl.frame ++ rest)).1 = (runFrames cfg st rest).1
    ∧ messagesOf (runFrames cfg st (cs.map Ctl.frame ++ rest)).2 = messagesOf (runFrames cfg st rest).2 :=
  ctls_run cfg st hop cs hcs rest

/-- one message, any fragmentation, any control frames around the fragments, compressed or not: exactly that
message is delivered and the machine is idle again for whatever follows -/
theorem message_intact (cfg : Cfg) (comp : Comp) (hist : List Bytes) (hc : Codec cfg comp) (m : SMsg)
    (hm : msgOk cfg comp hist m) (st : State) (hidle : Idle cfg comp hist st) (rest : List Frame) :
    ∃ st', Idle cfg comp (histAfter hist m) st'
      ∧ (runFrames cfg st (msgFrames m ++ rest)).1 = (runFrames cfg st' rest).1
      ∧ messagesOf (runFrames cfg st (msgFrames m ++ rest)).2 = (m.text, m.data) :: messagesOf (runFrames cfg st' rest).2 :=
  message_run cfg comp hist hc m hm st hidle rest

/-- MESSAGES ARRIVE INTACT AND IN ORDER: for every message list, every fragmentation of every message, every
interleaving of ping/pong frames before every fragment, compression on or off per message (any compressor the
decompressor inverts), any masks and length forms: the application receives exactly the sent messages in the
sent order, and the connection is still open. -/
theorem messages_intact (cfg : Cfg) (comp : Comp) (hc : Codec cfg comp) (ms : List SMsg)
    (hok : scriptOk cfg comp [] ms) :
    (runFrames cfg init (scriptFrames ms)).1.status = .open
    ∧ messagesOf (runFrames cfg init (scriptFrames ms)).2 = expected ms :=
  script_run cfg comp hc ms [] init (idle_init cfg comp) hok

/-- the same statement on the wire bytes (`_write_frame` encodings concatenated, `_receive_frame` reading them) -/
theorem messages_intact_bytes (cfg : Cfg) (comp : Comp) (hc : Codec cfg comp) (ms : List SMsg)
    (hok : scriptOk cfg comp [] ms) (hwf : ∀ f ∈ scriptFrames ms, f.wf) (fuel : Nat)
    (hfuel : ((scriptFrames ms).flatMap encodeFrame).length < fuel) :
    (runBytes cfg fuel init ((scriptFrames ms).flatMap encodeFrame)).1.status = .open
    ∧ messagesOf (runBytes cfg fuel init ((scriptFrames ms).flatMap encodeFrame)).2.1 = expected ms := by
  obtain ⟨h1, h2⟩ := runBytes_flatMap cfg (scriptFrames ms) hwf fuel init hfuel
  obtain ⟨m1, m2⟩ := messages_intact cfg comp hc ms hok
  rw [h1, h2]
  exact ⟨m1, m2⟩

/-! ## non-vacuity -/

/-- a history-dependent toy codec: "compression" prefixes the number of payloads compressed before -/
def toyComp : Comp := fun hist d => hist.length :: d
def toyDecomp : Decomp := fun hist z =>
  match z with
  | n :: d => if n = hist.length then .ok d else .error
  | [] => .error
def toyCfg : Cfg := { deflate := true, maxSize := 1000, decomp := toyDecomp }

theorem compFrom_length (comp : Comp) (pre ds : List Bytes) : (compFrom comp pre ds).length = ds.length := by
  induction ds generalizing pre with
  | nil => rfl
  | cons d ds ih => simp [compFrom, ih]

/-- the contract `Codec` is satisfiable by a codec whose output really depends on the history -/
example : Codec toyCfg toyComp := by
  intro hist d _
  simp [toyCfg, toyDecomp, toyComp, compFrom_length]

/-- a script satisfying every hypothesis of `messages_intact`: a compressed text message "hé" cut in three
fragments with a ping before the second and a pong + ping before the third, then an uncompressed binary message -/
def exScript : List SMsg :=
  [ { text := true, data := [104, 195, 169], z := true,
      head := { pre := [], chunk := [0, 104], mask := some ⟨1, 2, 3, 4⟩, ext := 0 },
      tail := [ { pre := [⟨9, [1, 2], none⟩], chunk := [], mask := none, ext := 1 },
                { pre := [⟨10, [], none⟩, ⟨9, [7], some ⟨9, 9, 9, 9⟩⟩], chunk := [195, 169], mask := none, ext := 2 } ] },
    { text := false, data := [0, 255], z := false,
      head := { pre := [⟨9, [], none⟩], chunk := [0, 255], mask := none, ext := 0 }, tail := [] } ]

example : scriptOk toyCfg toyComp [] exScript := by
  simp [scriptOk, exScript, msgOk, partsOk, ctlOk, SMsg.wire, chunksOf, toyComp, toyCfg, histAfter]
  decide

example : ∀ f ∈ scriptFrames exScript, f.wf := by
  simp [exScript, scriptFrames, msgFrames, contFrames, Ctl.frame, dataOp, Frame.wf, extOk]

example : messagesOf (runFrames toyCfg init (scriptFrames exScript)).2 = [(true, [104, 195, 169]), (false, [0, 255])] := by
  decide

/-- a wf frame at each length-form boundary exists (here: 126 bytes in the 16-bit form, masked) -/
example : (⟨true, 4, 2, 1, some ⟨1, 2, 3, 4⟩, List.replicate 126 7⟩ : Frame).wf := by
  simp [Frame.wf, extOk]

/-- TCP SEGMENTATION INDEPENDENCE of `_receive_frame_loop`: however the byte stream is cut into segments
(`runSegs`: the loop runs on what has arrived, the bytes of an incomplete frame stay pending until the next
segment — cuts inside the 2-byte header, the extended length, the mask or the payload included), the final
receive state and the events (messages, pings, close, abort) are those of the loop run once on the whole
stream, and — unless the connection was aborted, when the stream is closed and the rest is gone — so are the
bytes left unread. -/
theorem segmentation_independent (cfg : Cfg) (st : State) (segs : List Bytes) (fuel : Nat)
    (hfuel : segs.flatten.length < fuel) :
    (runSegs cfg st [] segs).1 = (runBytes cfg fuel st segs.flatten).1
    ∧ (runSegs cfg st [] segs).2.1 = (runBytes cfg fuel st segs.flatten).2.1
    ∧ ((runSegs cfg st [] segs).1.status ≠ .aborted →
        (runSegs cfg st [] segs).2.2 = (runBytes cfg fuel st segs.flatten).2.2) := by
  have h := runSegs_runB cfg segs st [] (runB_more cfg st [] rfl)
  rw [List.nil_append, ← runBytes_eq_runB cfg fuel st _ hfuel] at h
  simp only [normRest, Prod.mk.injEq] at h
  obtain ⟨h1, h2, h3⟩ := h
  refine ⟨h1, h2, fun hna => ?_⟩
  have e1 : ((runSegs cfg st [] segs).1.status == Status.aborted) = false := by
    cases hs : (runSegs cfg st [] segs).1.status <;> first | rfl | exact absurd hs hna
  have e2 : ((runBytes cfg fuel st segs.flatten).1.status == Status.aborted) = false := by rw [← h1]; exact e1
  simpa [e1, e2] using h3

/-- two segmentations of the same byte stream are indistinguishable to the application -/
theorem segmentations_agree (cfg : Cfg) (st : State) (segs1 segs2 : List Bytes) (h : segs1.flatten = segs2.flatten) :
    (runSegs cfg st [] segs1).1 = (runSegs cfg st [] segs2).1
    ∧ (runSegs cfg st [] segs1).2.1 = (runSegs cfg st [] segs2).2.1 := by
  obtain ⟨a1, a2, _⟩ := segmentation_independent cfg st segs1 _ (Nat.lt_succ_self _)
  obtain ⟨b1, b2, _⟩ := segmentation_independent cfg st segs2 _ (Nat.lt_succ_self _)
  rw [a1, a2, b1, b2, h]
  exact ⟨rfl, rfl⟩

/-- a masked 300-byte-form text frame "hi" + a ping, cut inside the header, the extended length, the mask and
the payload: same message and ping as in one piece -/
example :
    let wire := encodeFrame ⟨true, 0, 1, 1, some ⟨1, 2, 3, 4⟩, [104, 105]⟩ ++ encodeFrame ⟨true, 0, 9, 0, none, [7]⟩
    (runSegs toyCfg init [] [wire.take 1, (wire.drop 1).take 2, (wire.drop 3).take 3, (wire.drop 6).take 3, wire.drop 9]).2.1
      = [.message true [104, 105], .ping [7]]
    ∧ (runBytes toyCfg 100 init wire).2.1 = [.message true [104, 105], .ping [7]] := by
  decide

end TornadoModel.C14
