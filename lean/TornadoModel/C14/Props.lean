import TornadoModel.C14.Spec
namespace TornadoModel.C14
end TornadoModel.C14
