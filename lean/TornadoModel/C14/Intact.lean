/- C14 — the reassembly invariant and the proof that every well-formed script is delivered intact. -/
import TornadoModel.C14.Lemmas
namespace TornadoModel.C14
open Spec

theorem messagesOf_append (a b : List Event) : messagesOf (a ++ b) = messagesOf a ++ messagesOf b := by
  induction a with
  | nil => rfl
  | cons e es ih => cases e <;> simp [messagesOf, ih]

theorem compFrom_snoc (comp : Comp) (pre ds : List Bytes) (d : Bytes) :
    compFrom comp pre (ds ++ [d]) = compFrom comp pre ds ++ [comp (pre ++ ds) d] := by
  induction ds generalizing pre with
  | nil => simp [compFrom]
  | cons x xs ih => simp [compFrom, ih]

theorem isCtl_dataOp (t : Bool) : isCtl (dataOp t) = false := by cases t <;> rfl

/-- between messages: open, nothing buffered, decompressor history = compressed forms of `hist` -/
structure Idle (cfg : Cfg) (comp : Comp) (hist : List Bytes) (st : State) : Prop where
  op : st.status = .open
  nofrag : st.fragBuf = none
  dh : st.dhist = compFrom comp [] hist
  nz : cfg.deflate = false → st.compressed = false

theorem idle_init (cfg : Cfg) (comp : Comp) : Idle cfg comp [] init :=
  ⟨rfl, rfl, rfl, fun _ => rfl⟩

/-- the event a ping/pong produces -/
def ctlEvent (c : Ctl) : Event := if c.opcode = 9 then .ping c.data else .pong c.data

/-- a ping or pong leaves the receive state untouched, whatever it is -/
theorem ctl_step (cfg : Cfg) (st : State) (c : Ctl) (h : ctlOk cfg c) :
    stepFrame cfg st c.frame = (st, [ctlEvent c]) := by
  obtain ⟨hop, h125, hmax⟩ := h
  have hnb : tooBig cfg st c.opcode c.data.length = false := by
    have hc : isCtl c.opcode = true := by rcases hop with h | h <;> simp [h, isCtl]
    unfold tooBig
    cases st.fragBuf <;> simp [hc] <;> omega
  rcases hop with h9 | h10
  · simp [stepFrame, Ctl.frame, rsvCheck, h9, isCtl, dispatch, handle, deliver, ctlEvent] at hnb ⊢
    simp [hnb]
  · simp [stepFrame, Ctl.frame, rsvCheck, h10, isCtl, dispatch, handle, deliver, ctlEvent] at hnb ⊢
    simp [hnb]

theorem runFrames_cons_open (cfg : Cfg) (st : State) (hop : st.status = .open) (f : Frame) (fs : List Frame) :
    runFrames cfg st (f :: fs)
      = ((runFrames cfg (stepFrame cfg st f).1 fs).1, (stepFrame cfg st f).2 ++ (runFrames cfg (stepFrame cfg st f).1 fs).2) := by
  have : (st.status != .open) = false := by rw [hop]; rfl
  simp [runFrames, this]

theorem messagesOf_ctlEvent (c : Ctl) (es : List Event) : messagesOf (ctlEvent c :: es) = messagesOf es := by
  unfold ctlEvent; split <;> rfl

/-- any list of pings/pongs in front of `rest` changes neither the state `rest` is run from nor the messages -/
theorem ctls_run (cfg : Cfg) (st : State) (hop : st.status = .open) (cs : List Ctl) (hcs : ∀ c ∈ cs, ctlOk cfg c)
    (rest : List Frame) :
    (runFrames cfg st (cs.map Ctl.frame ++ rest)).1 = (runFrames cfg st rest).1
    ∧ messagesOf (runFrames cfg st (cs.map Ctl.frame ++ rest)).2 = messagesOf (runFrames cfg st rest).2 := by
  induction cs with
  | nil => simp
  | cons c cs ih =>
    have hc := hcs c (by simp)
    obtain ⟨i1, i2⟩ := ih (fun d hd => hcs d (by simp [hd]))
    simp only [List.map_cons, List.cons_append, runFrames_cons_open cfg st hop, ctl_step cfg st c hc]
    simp [messagesOf_ctlEvent, i1, i2]

theorem handle_final (cfg : Cfg) (comp : Comp) (hist : List Bytes) (hc : Codec cfg comp) (m : SMsg) (st : State)
    (hop : st.status = .open) (hnf : st.fragBuf = none) (hdh : st.dhist = compFrom comp [] hist)
    (hz : st.compressed = m.z)
    (hw : m.wire = if m.z then comp hist m.data else m.data)
    (hutf : m.text = true → validUtf8 m.data = true)
    (hzd : m.z = true → cfg.deflate = true ∧ m.data.length ≤ cfg.maxSize) :
    ∃ st', Idle cfg comp (histAfter hist m) st'
      ∧ handle cfg st (dataOp m.text) m.wire = (st', [.message m.text m.data]) := by
  cases hzz : m.z with
  | true =>
    obtain ⟨hd, hlen⟩ := hzd hzz
    rw [hzz] at hw hz
    simp only [if_true] at hw
    have hdec : cfg.decomp st.dhist m.wire = .ok m.data := by rw [hdh, hw]; exact hc hist m.data hlen
    refine ⟨{ st with dhist := st.dhist ++ [m.wire] }, ⟨hop, hnf, ?_, ?_⟩, ?_⟩
    · simp only [histAfter, hzz, if_true]
      have := compFrom_snoc comp [] hist m.data
      simp only [List.nil_append] at this
      rw [this, hdh, hw]
    · intro h; rw [h] at hd; exact absurd hd (by decide)
    · simp only [handle, hz, isCtl_dataOp, Bool.not_false, Bool.and_self, if_true, hdec]
      cases ht : m.text with
      | true => simp [deliver, dataOp, hutf ht]
      | false => simp [deliver, dataOp]
  | false =>
    rw [hzz] at hw hz
    simp only [Bool.false_eq_true, if_false] at hw
    refine ⟨st, ⟨hop, hnf, ?_, fun _ => hz⟩, ?_⟩
    · simp [histAfter, hzz, hdh]
    · simp only [handle, hz, Bool.false_and, Bool.false_eq_true, if_false, hw]
      cases ht : m.text with
      | true => simp [deliver, dataOp, hutf ht]
      | false => simp [deliver, dataOp]

/-- a continuation frame within the size limit: append, and deliver when FIN -/
theorem cont_step (cfg : Cfg) (st : State) (buf chunk : Bytes) (fin : Bool) (mask : Option Mask) (ext : Nat)
    (hfrag : st.fragBuf = some buf) (hsize : chunk.length + buf.length ≤ cfg.maxSize) :
    stepFrame cfg st { fin := fin, rsv := 0, opcode := 0, ext := ext, mask := mask, payload := chunk }
      = if fin then handle cfg { st with fragBuf := none } st.fragOp (buf ++ chunk)
        else ({ st with fragBuf := some (buf ++ chunk) }, []) := by
  have hnb : ¬ (cfg.maxSize < chunk.length + buf.length) := by omega
  simp [stepFrame, rsvCheck, isCtl, tooBig, hfrag, hnb, dispatch]

/-- the first frame of a data message -/
theorem first_step (cfg : Cfg) (st : State) (z text fin : Bool) (chunk : Bytes) (mask : Option Mask) (ext : Nat)
    (hnf : st.fragBuf = none) (hsize : chunk.length ≤ cfg.maxSize)
    (hzd : z = true → cfg.deflate = true) (hnz : cfg.deflate = false → st.compressed = false) :
    stepFrame cfg st { fin := fin, rsv := if z then 4 else 0, opcode := dataOp text, ext := ext, mask := mask,
                       payload := chunk }
      = if fin then handle cfg { st with compressed := z } (dataOp text) chunk
        else ({ st with compressed := z, fragBuf := some chunk, fragOp := dataOp text }, []) := by
  have hnb : ¬ (cfg.maxSize < chunk.length) := by omega
  have hrsv : rsvCheck cfg st (if z then 4 else 0) (dataOp text) = some z := by
    cases hd : cfg.deflate with
    | true => cases z <;> cases text <;> simp [rsvCheck, hd, dataOp, isCtl]
    | false =>
      have hz : z = false := by
        cases z with
        | false => rfl
        | true => have := hzd rfl; rw [hd] at this; exact absurd this (by decide)
      subst hz
      simp [rsvCheck, hd, hnz hd]
  have hop : (dataOp text != 1 && dataOp text != 2) = false := by cases text <;> rfl
  have hop0 : dataOp text ≠ 0 := by cases text <;> decide
  simp only [stepFrame, hrsv, isCtl_dataOp, Bool.false_and, Bool.false_eq_true, if_false, tooBig, hnf,
    decide_eq_true_eq, hnb, dispatch, hop0, hop]
  cases fin <;> simp

/-- inside the fragmented message `m`, `buf` received so far -/
structure InFrag (comp : Comp) (hist : List Bytes) (m : SMsg) (buf : Bytes) (st : State) : Prop where
  op : st.status = .open
  frag : st.fragBuf = some buf
  fop : st.fragOp = dataOp m.text
  z : st.compressed = m.z
  dh : st.dhist = compFrom comp [] hist

/-- what "the message `m` was delivered and the machine is idle again" means for the run over `fs ++ rest` -/
def Delivered (cfg : Cfg) (comp : Comp) (hist : List Bytes) (m : SMsg) (st : State) (fs rest : List Frame) : Prop :=
  ∃ st', Idle cfg comp (histAfter hist m) st'
    ∧ (runFrames cfg st (fs ++ rest)).1 = (runFrames cfg st' rest).1
    ∧ messagesOf (runFrames cfg st (fs ++ rest)).2 = (m.text, m.data) :: messagesOf (runFrames cfg st' rest).2

theorem cont_run (cfg : Cfg) (comp : Comp) (hist : List Bytes) (hc : Codec cfg comp) (m : SMsg)
    (hw : m.wire = if m.z then comp hist m.data else m.data)
    (hmax : m.wire.length ≤ cfg.maxSize)
    (hutf : m.text = true → validUtf8 m.data = true)
    (hzd : m.z = true → cfg.deflate = true ∧ m.data.length ≤ cfg.maxSize) (rest : List Frame) :
    ∀ (parts : List Part) (buf : Bytes) (st : State), parts ≠ [] → partsOk cfg parts →
      buf ++ chunksOf parts = m.wire → InFrag comp hist m buf st →
      Delivered cfg comp hist m st (contFrames parts) rest := by
  intro parts
  induction parts with
  | nil => intro _ _ h; exact absurd rfl h
  | cons p ps ih =>
    intro buf st _ hok hcat hin
    obtain ⟨hpre, hps⟩ := hok
    obtain ⟨s1, s2⟩ := ctls_run cfg st hin.op p.pre hpre
      ({ fin := ps.isEmpty, rsv := 0, opcode := 0, ext := p.ext, mask := p.mask, payload := p.chunk }
        :: (contFrames ps ++ rest))
    have hsz : p.chunk.length + buf.length ≤ cfg.maxSize := by
      have : (buf ++ chunksOf (p :: ps)).length = m.wire.length := by rw [hcat]
      simp only [chunksOf, List.length_append] at this
      omega
    have hstep := cont_step cfg st buf p.chunk ps.isEmpty p.mask p.ext hin.frag hsz
    unfold Delivered
    simp only [contFrames, List.append_assoc, List.cons_append, s1, s2, runFrames_cons_open cfg st hin.op, hstep]
    cases ps with
    | nil =>
      simp only [List.isEmpty_nil, if_true, contFrames, List.nil_append]
      have hcat' : buf ++ p.chunk = m.wire := by simpa [chunksOf] using hcat
      obtain ⟨st', hidle, hh⟩ := handle_final cfg comp hist hc m { st with fragBuf := none } hin.op rfl hin.dh hin.z
        hw hutf hzd
      rw [← hin.fop] at hh
      rw [hcat', hh]
      exact ⟨st', hidle, rfl, by simp [messagesOf]⟩
    | cons q qs =>
      simp only [List.isEmpty_cons, Bool.false_eq_true, if_false, List.nil_append]
      have hin' : InFrag comp hist m (buf ++ p.chunk) { st with fragBuf := some (buf ++ p.chunk) } :=
        ⟨hin.op, rfl, hin.fop, hin.z, hin.dh⟩
      have hcat' : (buf ++ p.chunk) ++ chunksOf (q :: qs) = m.wire := by
        simpa [chunksOf, List.append_assoc] using hcat
      exact ih (buf ++ p.chunk) _ (by simp) hps hcat' hin'

/-- one message, whatever its fragmentation and the control frames around its fragments -/
theorem message_run (cfg : Cfg) (comp : Comp) (hist : List Bytes) (hc : Codec cfg comp) (m : SMsg)
    (hm : msgOk cfg comp hist m) (st : State) (hidle : Idle cfg comp hist st) (rest : List Frame) :
    Delivered cfg comp hist m st (msgFrames m) rest := by
  obtain ⟨hparts, hw, hmax, hutf, hzd⟩ := hm
  obtain ⟨hpre, htail⟩ := hparts
  obtain ⟨s1, s2⟩ := ctls_run cfg st hidle.op m.head.pre hpre
    ({ fin := m.tail.isEmpty, rsv := if m.z then 4 else 0, opcode := dataOp m.text, ext := m.head.ext,
       mask := m.head.mask, payload := m.head.chunk } :: (contFrames m.tail ++ rest))
  have hsz : m.head.chunk.length ≤ cfg.maxSize := by
    have : m.wire.length = m.head.chunk.length + (chunksOf m.tail).length := by simp [SMsg.wire]
    omega
  have hstep := first_step cfg st m.z m.text m.tail.isEmpty m.head.chunk m.head.mask m.head.ext hidle.nofrag hsz
    (fun h => (hzd h).1) hidle.nz
  unfold Delivered
  simp only [msgFrames, List.append_assoc, List.cons_append, s1, s2, runFrames_cons_open cfg st hidle.op, hstep]
  cases htl : m.tail with
  | nil =>
    simp only [List.isEmpty_nil, if_true, contFrames, List.nil_append]
    have hwire : m.head.chunk = m.wire := by simp [SMsg.wire, htl, chunksOf]
    obtain ⟨st', hid', hh⟩ := handle_final cfg comp hist hc m { st with compressed := m.z } hidle.op hidle.nofrag
      hidle.dh rfl hw hutf hzd
    rw [hwire, hh]
    exact ⟨st', hid', rfl, by simp [messagesOf]⟩
  | cons q qs =>
    simp only [List.isEmpty_cons, Bool.false_eq_true, if_false, List.nil_append]
    have hin : InFrag comp hist m m.head.chunk
        { st with compressed := m.z, fragBuf := some m.head.chunk, fragOp := dataOp m.text } :=
      ⟨hidle.op, rfl, rfl, rfl, hidle.dh⟩
    have hcat : m.head.chunk ++ chunksOf (q :: qs) = m.wire := by simp [SMsg.wire, htl]
    have := cont_run cfg comp hist hc m hw hmax hutf hzd rest (q :: qs) m.head.chunk _ (by simp) (htl ▸ htail) hcat hin
    exact this

/-- every message of every well-formed script is delivered, in order, and the connection stays open -/
theorem script_run (cfg : Cfg) (comp : Comp) (hc : Codec cfg comp) (ms : List SMsg) :
    ∀ (hist : List Bytes) (st : State), Idle cfg comp hist st → scriptOk cfg comp hist ms →
      (runFrames cfg st (scriptFrames ms)).1.status = .open
      ∧ messagesOf (runFrames cfg st (scriptFrames ms)).2 = expected ms := by
  induction ms with
  | nil => intro hist st hidle _; exact ⟨hidle.op, rfl⟩
  | cons m ms ih =>
    intro hist st hidle hok
    obtain ⟨hm, hrest⟩ := hok
    obtain ⟨st', hid', e1, e2⟩ := message_run cfg comp hist hc m hm st hidle (scriptFrames ms)
    obtain ⟨i1, i2⟩ := ih (histAfter hist m) st' hid' hrest
    simp only [scriptFrames, e1, e2, i1, i2, expected, List.map_cons]
    exact ⟨trivial, trivial⟩

end TornadoModel.C14
