/-
C35 — model of `tornado.queues.Queue / PriorityQueue / LifoQueue` (core Lean only).

Anchors: `Queue.put / put_nowait / get / get_nowait / task_done / join`, `_consume_expired`,
`__put_internal`, `_set_timeout`, `_init/_get/_put` of the three classes, and the `Event` `_finished`
(`tornado.locks.Event`, modelled as in C34).

Granularity and conventions are those of `C33/Model.lean`: one step = one call + full drain; `fire` = jump to
the earliest live timer; `race…` = the call is made in the loop iteration in which that timer expires, just
before its callback.  Futures are numbered in creation order over all of get / put / join; a get future
resolves to `result item`, put and join futures to `result 0` (None).

The container `_queue` is a list: deque (append right / popleft), list (append / pop) and, for the priority
queue, the *sorted* list of the heap's content (`heapq` itself is trusted: `heappop` returns a minimum and
`heappush`/`heappop` keep the multiset; items are naturals, so equal items are indistinguishable).
-/
import TornadoModel.C33.Model
namespace TornadoModel.C35
open TornadoModel.C33 (FState Ev Timer isPend dueTimers minTimer)

inductive Disc where
  | fifo | lifo | prio
  deriving DecidableEq, Repr, Inhabited

def insSorted (x : Nat) : List Nat → List Nat
  | [] => [x]
  | y :: ys => if x ≤ y then x :: y :: ys else y :: insSorted x ys

/-- `_put` -/
def cput : Disc → List Nat → Nat → List Nat
  | .fifo, q, x => q ++ [x]
  | .lifo, q, x => q ++ [x]
  | .prio, q, x => insSorted x q

/-- `_get` on a non-empty container: (item, rest) -/
def cget : Disc → List Nat → Option (Nat × List Nat)
  | .fifo, q => match q with | [] => none | x :: r => some (x, r)
  | .prio, q => match q with | [] => none | x :: r => some (x, r)
  | .lifo, q => match q.getLast? with | none => none | some x => some (x, q.dropLast)

structure St where
  disc : Disc
  maxsize : Nat
  items : List Nat              -- `_queue`
  getters : List Nat            -- `_getters` (future ids, dead ones included until consumed)
  putters : List (Nat × Nat)    -- `_putters` (item, future id)
  futs : List FState
  unfinished : Nat              -- `_unfinished_tasks`
  finished : Bool               -- `_finished._value`
  joiners : List Nat            -- `_finished._waiters`
  timers : List Timer
  now : Nat
  -- history (ghost) variables: never read by the model, used to state conservation and order
  accepted : List Nat           -- every item that went through `__put_internal`, in that order
  delivered : List Nat          -- every item handed out by `_get`, in that order
  done : Nat                    -- successful `task_done` calls
  deriving Repr, DecidableEq

def init (d : Disc) (m : Nat) : St :=
  { disc := d, maxsize := m, items := [], getters := [], putters := [], futs := [], unfinished := 0,
    finished := true, joiners := [], timers := [], now := 0, accepted := [], delivered := [], done := 0 }

inductive Op where
  | put (x : Nat) (deadline : Option Nat)
  | putNowait (x : Nat)
  | get (deadline : Option Nat)
  | getNowait
  | taskDone
  | join (deadline : Option Nat)
  | fire
  | cancel (w : Nat)
  | racePutNowait (x : Nat)
  | raceGetNowait
  | raceTaskDone
  | raceCancel (w : Nat)
  deriving Repr, DecidableEq

inductive Res where
  | unit
  | full                    -- QueueFull
  | empty                   -- QueueEmpty
  | valueError              -- task_done() called too many times
  | assertion               -- one of the two `assert`s failed (theorem: never)
  | val (x : Nat)           -- get_nowait result
  | bool (b : Bool)
  | fired (d : Option Nat)
  deriving Repr, DecidableEq

structure Out where
  res : Res
  evs : List Ev
  qsize : Nat
  ngetters : Nat
  nputters : Nat
  unfinished : Nat
  njoiners : Nat
  ntimers : Nat
  deriving Repr, DecidableEq

def isFull (s : St) : Bool := s.maxsize != 0 && s.items.length ≥ s.maxsize

/-- `_consume_expired`: only the *front* of each deque is cleaned -/
def consume (s : St) : St :=
  { s with putters := s.putters.dropWhile (fun p => !isPend s.futs p.2),
           getters := s.getters.dropWhile (fun g => !isPend s.futs g) }

/-- `__put_internal` -/
def putInternal (s : St) (x : Nat) : St :=
  { s with unfinished := s.unfinished + 1, finished := false, items := cput s.disc s.items x,
           accepted := s.accepted ++ [x] }

/-- `future_set_result_unless_cancelled` -/
def resolveUC (s : St) (w : Nat) (v : FState) : St × List Ev :=
  if s.futs[w]? == some .cancelled then (s, [])
  else ({ s with futs := s.futs.set w v }, [(w, v)])

inductive PN where          -- outcome of put_nowait
  | ok (s : St) (e : List Ev)
  | full (s : St)
  | assertion (s : St)

/-- `put_nowait` -/
def putNowait (s0 : St) (x : Nat) : PN :=
  let s := consume s0
  match s.getters with
  | g :: gs =>
    if !s.items.isEmpty then .assertion s
    else
      let s1 := putInternal { s with getters := gs } x
      match cget s1.disc s1.items with
      | none => .assertion s1          -- unreachable: the container holds `x`
      | some (y, rest) =>
        let (s2, e) := resolveUC { s1 with items := rest, delivered := s1.delivered ++ [y] } g (.result y)
        .ok s2 e
  | [] => if isFull s then .full s else .ok (putInternal s x) []

inductive GN where          -- outcome of get_nowait
  | ok (s : St) (x : Nat) (e : List Ev)
  | empty (s : St)
  | assertion (s : St)

/-- `get_nowait` -/
def getNowait (s0 : St) : GN :=
  let s := consume s0
  match s.putters with
  | (x, p) :: ps =>
    if !isFull s then .assertion s
    else
      let s1 := putInternal { s with putters := ps } x
      let (s2, e) := resolveUC s1 p (.result 0)
      match cget s2.disc s2.items with
      | none => .assertion s2
      | some (y, rest) => .ok { s2 with items := rest, delivered := s2.delivered ++ [y] } y e
  | [] =>
    match cget s.disc s.items with
    | some (y, rest) => .ok { s with items := rest, delivered := s.delivered ++ [y] } y []
    | none => .empty s

def addTimer (s : St) (d : Option Nat) (w : Nat) : St :=
  match d with | some d => { s with timers := s.timers ++ [(d, w)] } | none => s

/-- `put` -/
def put (s : St) (x : Nat) (d : Option Nat) : St × Res × List Ev :=
  let w := s.futs.length
  match putNowait s x with
  | .ok s1 e => ({ s1 with futs := s1.futs ++ [.result 0] }, .unit, e ++ [(w, .result 0)])
  | .full s1 => (addTimer { s1 with putters := s1.putters ++ [(x, w)], futs := s1.futs ++ [.pending] } d w, .unit, [])
  | .assertion s1 => (s1, .assertion, [])

/-- `get` -/
def get (s : St) (d : Option Nat) : St × Res × List Ev :=
  let w := s.futs.length
  match getNowait s with
  | .ok s1 y e => ({ s1 with futs := s1.futs ++ [.result y] }, .unit, e ++ [(w, .result y)])
  | .empty s1 => (addTimer { s1 with getters := s1.getters ++ [w], futs := s1.futs ++ [.pending] } d w, .unit, [])
  | .assertion s1 => (s1, .assertion, [])

def insNat (x : Nat) : List Nat → List Nat
  | [] => [x]
  | y :: ys => if x ≤ y then x :: y :: ys else y :: insNat x ys
def sortNat (l : List Nat) : List Nat := l.foldl (fun acc x => insNat x acc) []

def resolveAll (futs : List FState) (v : FState) : List Nat → List FState × List Ev
  | [] => (futs, [])
  | w :: ws =>
    if isPend futs w then
      let (f2, e2) := resolveAll (futs.set w v) v ws
      (f2, (w, v) :: e2)
    else resolveAll futs v ws

/-- `_finished.set()` (see `C34.Event.set`) -/
def finSet (s : St) (raced : List Nat) : St × List Ev :=
  if s.finished then (s, [])
  else
    let ws := sortNat s.joiners
    let (f1, e1) := resolveAll s.futs .timeout (ws.filter (raced.contains ·))
    let (f2, e2) := resolveAll f1 (.result 0) ws
    ({ s with finished := true, futs := f2 }, e1 ++ e2)

/-- `task_done` -/
def taskDone (s : St) (raced : List Nat) : St × Res × List Ev :=
  if s.unfinished = 0 then (s, .valueError, [])
  else
    let s1 := { s with unfinished := s.unfinished - 1, done := s.done + 1 }
    if s1.unfinished = 0 then let (s2, e) := finSet s1 raced; (s2, .unit, e) else (s1, .unit, [])

/-- `join` = `_finished.wait(timeout)` -/
def join (s : St) (d : Option Nat) : St × List Ev :=
  let w := s.futs.length
  if s.finished then ({ s with futs := s.futs ++ [.result 0] }, [(w, .result 0)])
  else (addTimer { s with joiners := s.joiners ++ [w], futs := s.futs ++ [.pending] } d w, [])

def cancel (s : St) (w : Nat) : St × List Ev × Bool :=
  if isPend s.futs w then ({ s with futs := s.futs.set w .cancelled }, [(w, .cancelled)], true)
  else (s, [], false)

/-! ### the drain -/
def purge (s : St) : St :=
  { s with timers := s.timers.filter (fun t => isPend s.futs t.2), joiners := s.joiners.filter (isPend s.futs) }

def onTimeout (s : St) (w : Nat) : St × List Ev :=
  if isPend s.futs w then ({ s with futs := s.futs.set w .timeout }, [(w, .timeout)]) else (s, [])

def fireList (s : St) : List Timer → St × List Ev
  | [] => (s, [])
  | t :: ts =>
    let (s1, e1) := onTimeout s t.2
    let (s2, e2) := fireList s1 ts
    (s2, e1 ++ e2)

def fireDue (s : St) : St × List Ev :=
  let (s1, e) := fireList s (dueTimers s.now s.timers)
  ({ s1 with timers := s1.timers.filter (fun t => ¬ (t.1 ≤ s1.now)) }, e)

def settle (s : St) : St × List Ev :=
  let (s1, e) := fireDue (purge s)
  (purge s1, e)

def settleRace (s : St) : St × List Ev :=
  let (s1, e) := fireDue s
  (purge s1, e)

def mkOut (s : St) (r : Res) (e : List Ev) : Out :=
  { res := r, evs := e, qsize := s.items.length, ngetters := s.getters.length, nputters := s.putters.length,
    unfinished := s.unfinished, njoiners := s.joiners.length, ntimers := s.timers.length }

def sortEvs (e : List Ev) : List Ev :=
  (sortNat (e.map (·.1))).filterMap (fun i => e.find? (fun x => x.1 == i))

def advance (s : St) : St × Option Nat :=
  match minTimer s.timers with
  | none => (s, none)
  | some t => ({ s with now := max s.now t.1 }, some t.1)

def dueIds (s : St) : List Nat := (s.timers.filter (fun t => t.1 ≤ s.now)).map (·.2)

def step (s : St) : Op → St × Out
  | .put x d =>
    let (s1, r, e1) := put s x d
    let (s2, e2) := settle s1
    (s2, mkOut s2 r (e1 ++ e2))
  | .putNowait x =>
    match putNowait s x with
    | .ok s1 e1 => let (s2, e2) := settle s1; (s2, mkOut s2 .unit (e1 ++ e2))
    | .full s1 => let (s2, e2) := settle s1; (s2, mkOut s2 .full e2)
    | .assertion s1 => let (s2, e2) := settle s1; (s2, mkOut s2 .assertion e2)
  | .get d =>
    let (s1, r, e1) := get s d
    let (s2, e2) := settle s1
    (s2, mkOut s2 r (e1 ++ e2))
  | .getNowait =>
    match getNowait s with
    | .ok s1 y e1 => let (s2, e2) := settle s1; (s2, mkOut s2 (.val y) (e1 ++ e2))
    | .empty s1 => let (s2, e2) := settle s1; (s2, mkOut s2 .empty e2)
    | .assertion s1 => let (s2, e2) := settle s1; (s2, mkOut s2 .assertion e2)
  | .taskDone =>
    let (s1, r, e1) := taskDone s []
    let (s2, e2) := settle s1
    (s2, mkOut s2 r (sortEvs (e1 ++ e2)))
  | .join d =>
    let (s1, e1) := join s d
    let (s2, e2) := settle s1
    (s2, mkOut s2 .unit (e1 ++ e2))
  | .fire =>
    let (s1, d) := advance s
    let (s2, e2) := settle s1
    (s2, mkOut s2 (.fired d) e2)
  | .cancel w =>
    let (s1, e1, b) := cancel s w
    let (s2, e2) := settle s1
    (s2, mkOut s2 (.bool b) (e1 ++ e2))
  | .racePutNowait x =>
    let (s0, _) := advance s
    match putNowait s0 x with
    | .ok s1 e1 => let (s2, e2) := settleRace s1; (s2, mkOut s2 .unit (e1 ++ e2))
    | .full s1 => let (s2, e2) := settleRace s1; (s2, mkOut s2 .full e2)
    | .assertion s1 => let (s2, e2) := settleRace s1; (s2, mkOut s2 .assertion e2)
  | .raceGetNowait =>
    let (s0, _) := advance s
    match getNowait s0 with
    | .ok s1 y e1 => let (s2, e2) := settleRace s1; (s2, mkOut s2 (.val y) (e1 ++ e2))
    | .empty s1 => let (s2, e2) := settleRace s1; (s2, mkOut s2 .empty e2)
    | .assertion s1 => let (s2, e2) := settleRace s1; (s2, mkOut s2 .assertion e2)
  | .raceTaskDone =>
    let (s0, _) := advance s
    let (s1, r, e1) := taskDone s0 (dueIds s0)
    let (s2, e2) := settleRace s1
    (s2, mkOut s2 r (sortEvs (e1 ++ e2)))
  | .raceCancel w =>
    let (s0, _) := advance s
    let (s1, e1, b) := cancel s0 w
    let (s2, e2) := settleRace s1
    (s2, mkOut s2 (.bool b) (e1 ++ e2))

def run (s : St) : List Op → St × List Out
  | [] => (s, [])
  | op :: ops =>
    let (s1, o) := step s op
    let (s2, os) := run s1 ops
    (s2, o :: os)

end TornadoModel.C35
