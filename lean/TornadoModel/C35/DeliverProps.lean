/-
C35 — conservation stated on what get callers RECEIVE (the output trace), not on the ghost list `delivered`.
`gotItems ops outs` (Deliver.lean) reads the items handed to get callers off the outputs of a run: the value a `get`
future is resolved with (at once, or later when a put hands the item to the blocked getter) and the return value of
`get_nowait`.  `delivered_eq_got` proves that the ghost list is exactly that list, in order, for every queue class,
maxsize and op sequence; `conservation_outputs` / `order_fifo_outputs` restate the conservation and FIFO clauses with it.
(Single-call layer `run`.  For the multi-call layer `run2` of Multi.lean the link is not proved.)
-/
import TornadoModel.C35.Props
import TornadoModel.C35.Deliver
namespace TornadoModel.C35

/-- every item appended to the ghost `delivered` is emitted in exactly one get result of the output trace, and
nothing else is: the two lists are equal, in order -/
theorem delivered_eq_got (d : Disc) (m : Nat) (ops : List Op) :
    (after d m ops).delivered = gotItems ops (run (init d m) ops).2 := by
  have h := run_deliver (init d m) ops
  have h0 : (init d m).delivered = [] := rfl
  rw [h0, List.nil_append] at h
  exact h

/-- every successfully put item is returned by exactly one get (as seen in the outputs) or remains queued -/
theorem conservation_outputs (d : Disc) (m : Nat) (ops : List Op) :
    (after d m ops).accepted.Perm (gotItems ops (run (init d m) ops).2 ++ (after d m ops).items) := by
  rw [← delivered_eq_got]
  exact conservation d m ops

/-- FIFO: what get callers received, in the order they received it, followed by the queue, is the acceptance order -/
theorem order_fifo_outputs (m : Nat) (ops : List Op) :
    (after .fifo m ops).accepted = gotItems ops (run (init .fifo m) ops).2 ++ (after .fifo m ops).items := by
  rw [← delivered_eq_got]
  exact order_fifo m ops

/-- non-vacuity: a blocked getter served by a later put, a get served at once, a get_nowait -/
example : gotItems [.get none, .put 7 none, .put 0 none, .get none, .put 5 none, .getNowait]
    (run (init .fifo 1) [.get none, .put 7 none, .put 0 none, .get none, .put 5 none, .getNowait]).2 = [7, 0, 5] := by
  decide

example : gotItems [.put 3 none, .put 1 none, .put 2 (some 4), .get none, .fire, .getNowait]
    (run (init .prio 2) [.put 3 none, .put 1 none, .put 2 (some 4), .get none, .fire, .getNowait]).2 = [1, 2] := by
  decide

end TornadoModel.C35
