/-
C35 — forward simulation Model → Spec, part 1: the abstraction, the second invariant, the containers, the drain.

Abstraction `absF s its`: the Spec state whose wait lists are the *live* entries of the model's deques, whose
timers are the timers of live futures, and whose item list is `its` (for FIFO/LIFO the model's container
itself; for the priority queue the Spec keeps acceptance order while the model keeps the sorted heap content, so
the two are only permutations of each other: `ItemsRel`).
-/
import TornadoModel.C33.Refine
import TornadoModel.C35.Lemmas
namespace TornadoModel.C35
open TornadoModel.C33 (FState Ev Timer isPend dueTimers minTimer isPend_set isPend_set_ne isPend_set_self
  isPend_lt isPend_append_lt isPend_append_self isPend_append isPend_set_eq isPend_append_dead dueTimers_filter
  filter_drop filter_dropT)

/-! ### containers: model container vs. Spec item list -/

def ItemsRel (d : Disc) (mi si : List Nat) : Prop := (d ≠ .prio → si = mi) ∧ (d = .prio → si.Perm mi)

theorem ItemsRel.length {d : Disc} {mi si : List Nat} (h : ItemsRel d mi si) : si.length = mi.length := by
  by_cases hd : d = .prio
  · exact (h.2 hd).length_eq
  · rw [h.1 hd]

theorem ItemsRel.nil {d : Disc} {si : List Nat} (h : ItemsRel d [] si) : si = [] := by
  have := h.length
  exact List.eq_nil_of_length_eq_zero (by simpa using this)

theorem itemsRel_nil (d : Disc) : ItemsRel d [] [] := ⟨fun _ => rfl, fun _ => List.Perm.refl _⟩

theorem itemsRel_cput {d : Disc} {mi si : List Nat} (x : Nat) (h : ItemsRel d mi si) :
    ItemsRel d (cput d mi x) (si ++ [x]) := by
  constructor
  · intro hd
    rw [h.1 hd]
    cases d
    · rfl
    · rfl
    · exact absurd rfl hd
  · intro hd
    subst hd
    have hp := h.2 rfl
    exact (List.perm_append_comm.trans (List.Perm.cons x hp)).trans (insSorted_perm x mi).symm

theorem minOf_none {l : List Nat} (h : Spec.minOf l = none) : l = [] := by
  cases l with
  | nil => rfl
  | cons x xs =>
    simp only [Spec.minOf] at h
    split at h <;> simp at h

theorem minOf_some {l : List Nat} {m : Nat} (h : Spec.minOf l = some m) : m ∈ l ∧ ∀ z ∈ l, m ≤ z := by
  induction l generalizing m with
  | nil => simp [Spec.minOf] at h
  | cons x xs ih =>
    simp only [Spec.minOf] at h
    split at h
    · rename_i hn
      have := minOf_none hn
      subst this
      simp at h
      subst h
      simp
    · rename_i m' hm
      obtain ⟨h1, h2⟩ := ih hm
      simp at h
      by_cases hlt : m' < x
      · rw [if_pos hlt] at h
        subst h
        refine ⟨List.mem_cons_of_mem _ h1, ?_⟩
        intro z hz
        rcases List.mem_cons.mp hz with rfl | hz
        · omega
        · exact h2 z hz
      · rw [if_neg hlt] at h
        subst h
        refine ⟨by simp, ?_⟩
        intro z hz
        rcases List.mem_cons.mp hz with rfl | hz
        · omega
        · have := h2 z hz; omega

theorem minOf_perm_sorted {si r : List Nat} {y : Nat} (hp : si.Perm (y :: r)) (hs : ∀ z ∈ r, y ≤ z) :
    Spec.minOf si = some y := by
  cases hm : Spec.minOf si with
  | none =>
    have := minOf_none hm
    subst this
    have := hp.length_eq
    simp at this
  | some m =>
    obtain ⟨h1, h2⟩ := minOf_some hm
    have hy : y ∈ si := hp.mem_iff.mpr (by simp)
    have h3 := h2 y hy
    have hm' : m ∈ y :: r := hp.mem_iff.mp h1
    rcases List.mem_cons.mp hm' with rfl | hmr
    · rfl
    · have := hs m hmr
      have : m = y := by omega
      rw [this]

theorem cget_prio {q r : List Nat} {y : Nat} (h : cget .prio q = some (y, r)) : q = y :: r := by
  simp only [cget] at h
  split at h <;> simp at h
  obtain ⟨rfl, rfl⟩ := h; rfl

/-- what the model's container delivers is what the Spec's discipline delivers -/
theorem take_of_cget {d : Disc} {mi si r : List Nat} {y : Nat} (h : ItemsRel d mi si)
    (hs : d = .prio → mi.Pairwise (· ≤ ·)) (hc : cget d mi = some (y, r)) :
    ∃ r', Spec.take d si = some (y, r') ∧ ItemsRel d r r' := by
  cases d with
  | fifo =>
    have := h.1 (by simp); subst this
    exact ⟨r, hc, fun _ => rfl, fun hd => by cases hd⟩
  | lifo =>
    have := h.1 (by simp); subst this
    exact ⟨r, hc, fun _ => rfl, fun hd => by cases hd⟩
  | prio =>
    have hp := h.2 rfl
    have hq := cget_prio hc
    subst hq
    have hsr : ∀ z ∈ r, y ≤ z := fun z hz => List.rel_of_pairwise_cons (hs rfl) hz
    refine ⟨si.erase y, ?_, fun hd => absurd rfl hd, fun _ => ?_⟩
    · simp only [Spec.take, minOf_perm_sorted hp hsr]
    · have := hp.erase y
      rwa [List.erase_cons_head] at this

theorem take_nil {d : Disc} {si : List Nat} (h : ItemsRel d [] si) : Spec.take d si = none := by
  have := h.nil; subst this
  cases d <;> simp [Spec.take, Spec.minOf]

/-! ### the abstraction and the second invariant -/

def absF (s : St) (its : List Nat) : Spec.St :=
  { disc := s.disc, maxsize := s.maxsize, items := its,
    getq := s.getters.filter (isPend s.futs),
    putq := s.putters.filter (fun p => isPend s.futs p.2),
    next := s.futs.length, unfinished := s.unfinished,
    joinw := s.joiners.filter (isPend s.futs),
    timers := s.timers.filter (fun t => isPend s.futs t.2), now := s.now }

/-- bookkeeping invariant of the wait lists (holds in every intermediate state) -/
structure Inv2 (s : St) : Prop where
  pend_mem : ∀ w, isPend s.futs w = true → w ∈ s.getters ∨ (∃ p ∈ s.putters, p.2 = w) ∨ w ∈ s.joiners
  jlt : ∀ j ∈ s.joiners, j < s.futs.length
  jsorted : s.joiners.Pairwise (· < ·)
  tlt : ∀ t ∈ s.timers, t.2 < s.futs.length
  gj : ∀ g ∈ s.getters, g ∉ s.joiners
  pj : ∀ p ∈ s.putters, p.2 ∉ s.joiners

/-- every scheduled timer belongs to a pending future (true after every drain) -/
def TInv (s : St) : Prop := ∀ t ∈ s.timers, isPend s.futs t.2 = true

/-- no deadline of the Spec state is reached (true after every drain) -/
def SNotDue (sp : Spec.St) : Prop := ∀ t ∈ sp.timers, sp.now < t.1

theorem inv2_init (d : Disc) (m : Nat) : Inv2 (init d m) := by
  constructor <;> simp [init, isPend]

/-- the wait lists shrink (keeping every waiter that is still pending), futures only get settled -/
theorem inv2_sub {s s' : St} (h : Inv2 s)
    (hg : s'.getters.Sublist s.getters) (hp : s'.putters.Sublist s.putters) (hj : s'.joiners.Sublist s.joiners)
    (hl : s'.futs.length = s.futs.length) (ht : ∀ t ∈ s'.timers, t ∈ s.timers)
    (hpend : ∀ w, isPend s'.futs w = true → isPend s.futs w = true)
    (hkg : ∀ w, isPend s'.futs w = true → w ∈ s.getters → w ∈ s'.getters)
    (hkp : ∀ p, isPend s'.futs p.2 = true → p ∈ s.putters → p ∈ s'.putters)
    (hkj : ∀ w, isPend s'.futs w = true → w ∈ s.joiners → w ∈ s'.joiners) : Inv2 s' := by
  constructor
  · intro w hw
    rcases h.pend_mem w (hpend w hw) with h1 | ⟨p, hp1, rfl⟩ | h1
    · exact Or.inl (hkg w hw h1)
    · exact Or.inr (Or.inl ⟨p, hkp p hw hp1, rfl⟩)
    · exact Or.inr (Or.inr (hkj w hw h1))
  · intro j hj'; rw [hl]; exact h.jlt j (hj.subset hj')
  · exact h.jsorted.sublist hj
  · intro t ht'; rw [hl]; exact h.tlt t (ht t ht')
  · intro g hg' hgj; exact h.gj g (hg.subset hg') (hj.subset hgj)
  · intro p hp' hpj; exact h.pj p (hp.subset hp') (hj.subset hpj)

/-- only futures get settled / the clock or the schedule shrinks -/
theorem inv2_same {s s' : St} (h : Inv2 s) (hg : s'.getters = s.getters) (hp : s'.putters = s.putters)
    (hj : s'.joiners = s.joiners) (hl : s'.futs.length = s.futs.length) (ht : ∀ t ∈ s'.timers, t ∈ s.timers)
    (hpend : ∀ w, isPend s'.futs w = true → isPend s.futs w = true) : Inv2 s' :=
  inv2_sub h (hg ▸ List.Sublist.refl _) (hp ▸ List.Sublist.refl _) (hj ▸ List.Sublist.refl _) hl ht hpend
    (fun _ _ hw => hg ▸ hw) (fun _ _ hw => hp ▸ hw) (fun _ _ hw => hj ▸ hw)

theorem inv2_set {s : St} (h : Inv2 s) (w : Nat) (v : FState) (hv : v ≠ .pending) :
    Inv2 { s with futs := s.futs.set w v } :=
  inv2_same h rfl rfl rfl (by simp) (fun _ ht => ht) (fun _ hx => (isPend_set hv hx).1)

theorem waiting_absF {s : St} (h2 : Inv2 s) (its : List Nat) (w : Nat) :
    Spec.waiting (absF s its) w = isPend s.futs w := by
  rw [Bool.eq_iff_iff]
  simp only [Spec.waiting, absF, Bool.or_eq_true, List.contains_iff_mem, List.mem_filter, List.any_eq_true,
    beq_iff_eq]
  constructor
  · rintro ((h | ⟨p, hp, rfl⟩) | h)
    · exact h.2
    · exact hp.2
    · exact h.2
  · intro hp
    rcases h2.pend_mem w hp with h | ⟨p, hpm, rfl⟩ | h
    · exact Or.inl (Or.inl ⟨h, hp⟩)
    · exact Or.inl (Or.inr ⟨p, ⟨hpm, hp⟩, rfl⟩)
    · exact Or.inr ⟨h, hp⟩

/-- a waiter leaving the Spec's lists = its future being settled in the model -/
theorem drop_absF (s : St) (its : List Nat) (w : Nat) {v : FState} (hv : v ≠ .pending) :
    Spec.drop (absF s its) w = absF { s with futs := s.futs.set w v } its := by
  simp only [Spec.drop, absF, filter_drop _ _ _ hv, filter_dropT _ _ _ hv, List.length_set]

theorem absF_purge (s : St) (its : List Nat) : absF (purge s) its = absF s its := by
  simp [absF, purge, List.filter_filter]

theorem inv2_purge {s : St} (h : Inv2 s) : Inv2 (purge s) :=
  inv2_sub h (List.Sublist.refl _) (List.Sublist.refl _) List.filter_sublist rfl
    (fun _ ht => (List.mem_filter.mp ht).1) (fun _ hw => hw) (fun _ _ hw => hw) (fun _ _ hw => hw)
    (fun _ hw hj => List.mem_filter.mpr ⟨hj, hw⟩)

theorem TInv_purge (s : St) : TInv (purge s) := by
  intro t ht
  simp only [purge, List.mem_filter] at ht
  exact ht.2

theorem absF_timers {s : St} (ht : TInv s) (its : List Nat) : (absF s its).timers = s.timers := by
  simp only [absF]
  exact List.filter_eq_self.mpr (fun t h => ht t h)

/-! ### the drain -/

theorem inv2_onTimeout {s : St} (h : Inv2 s) (w : Nat) : Inv2 (onTimeout s w).1 := by
  unfold onTimeout; split
  · exact inv2_set h w .timeout (by simp)
  · exact h

theorem inv2_fireList {s : St} (h : Inv2 s) (ts : List Timer) : Inv2 (fireList s ts).1 := by
  induction ts generalizing s with
  | nil => exact h
  | cons t ts ih => simp only [fireList]; exact ih (inv2_onTimeout h t.2)

theorem inv2_fireDue {s : St} (h : Inv2 s) : Inv2 (fireDue s).1 := by
  unfold fireDue
  exact inv2_same (inv2_fireList h _) rfl rfl rfl rfl (fun t ht => (List.mem_filter.mp ht).1) (fun _ hw => hw)

theorem inv2_settle {s : St} (h : Inv2 s) : Inv2 (settle s).1 := by
  unfold settle; exact inv2_purge (inv2_fireDue (inv2_purge h))

theorem inv2_settleRace {s : St} (h : Inv2 s) : Inv2 (settleRace s).1 := by
  unfold settleRace; exact inv2_purge (inv2_fireDue h)

theorem onTimeout_sim {s : St} (h : Inv2 s) (its : List Nat) (w : Nat) :
    (if Spec.waiting (absF s its) w then (Spec.drop (absF s its) w, [(w, FState.timeout)]) else (absF s its, []))
      = (absF (onTimeout s w).1 its, (onTimeout s w).2) := by
  rw [waiting_absF h]
  unfold onTimeout
  split
  · rw [drop_absF s its w (v := .timeout) (by simp)]
  · rfl

theorem fireList_sim {s : St} (h : Inv2 s) (its : List Nat) (ts : List Timer) :
    Spec.expireList (absF s its) ts = (absF (fireList s ts).1 its, (fireList s ts).2) := by
  induction ts generalizing s with
  | nil => rfl
  | cons t ts ih =>
    have h1 := onTimeout_sim h its t.2
    have h2 := ih (inv2_onTimeout h t.2)
    simp only [Spec.expireList, fireList]
    split at h1
    · rename_i hc
      simp only [Prod.mk.injEq] at h1
      rw [if_pos hc, h1.1, h2, ← h1.2]
      rfl
    · rename_i hc
      simp only [Prod.mk.injEq] at h1
      rw [if_neg hc, h1.1, h2, ← h1.2]
      rfl

theorem waiting_drop {sp : Spec.St} {w x : Nat} (h : Spec.waiting (Spec.drop sp w) x = true) :
    Spec.waiting sp x = true := by
  simp only [Spec.waiting, Spec.drop, Bool.or_eq_true, List.contains_iff_mem, List.mem_filter, List.any_eq_true,
    beq_iff_eq] at h ⊢
  rcases h with (h | ⟨p, hp, rfl⟩) | h
  · exact Or.inl (Or.inl h.1)
  · exact Or.inl (Or.inr ⟨p, hp.1, rfl⟩)
  · exact Or.inr h.1

theorem expireList_filter (p : Timer → Bool) (l : List Timer) (sp : Spec.St)
    (hp : ∀ t, p t = false → Spec.waiting sp t.2 = false) :
    Spec.expireList sp (l.filter p) = Spec.expireList sp l := by
  induction l generalizing sp with
  | nil => rfl
  | cons t l ih =>
    have hdrop : ∀ w t, p t = false → Spec.waiting (Spec.drop sp w) t.2 = false := by
      intro w t ht
      have := hp t ht
      by_cases hw : Spec.waiting (Spec.drop sp w) t.2 = true
      · rw [waiting_drop hw] at this; simp at this
      · simpa using hw
    by_cases ht : p t = true
    · rw [List.filter_cons, if_pos ht]
      simp only [Spec.expireList]
      split
      · rw [ih _ (hdrop t.2)]
      · exact ih _ hp
    · have ht : p t = false := by simpa using ht
      rw [List.filter_cons, if_neg (by simp [ht])]
      simp only [Spec.expireList, hp t ht]
      exact ih _ hp

theorem fireDue_sim {s : St} (h : Inv2 s) (its : List Nat) :
    Spec.expire (absF s its) = (absF (fireDue s).1 its, (fireDue s).2) := by
  have h1 : dueTimers (absF s its).now (absF s its).timers
      = (dueTimers s.now s.timers).filter (fun t => isPend s.futs t.2) := by
    simp only [absF]; exact dueTimers_filter _ _ _
  have h2 := fireList_sim h its (dueTimers s.now s.timers)
  have h3 : Spec.expireList (absF s its) (dueTimers (absF s its).now (absF s its).timers)
      = (absF (fireList s (dueTimers s.now s.timers)).1 its, (fireList s (dueTimers s.now s.timers)).2) := by
    rw [h1, expireList_filter _ _ _ (fun t ht => by rw [waiting_absF h]; exact ht), h2]
  simp only [Spec.expire, fireDue, h3]
  simp only [absF, List.filter_filter, Prod.mk.injEq, and_true, Spec.St.mk.injEq, true_and]
  apply List.filter_congr
  intro x _
  exact Bool.and_comm _ _

theorem settleRace_sim {s : St} (h : Inv2 s) (its : List Nat) :
    Spec.expire (absF s its) = (absF (settleRace s).1 its, (settleRace s).2) := by
  rw [fireDue_sim h]
  simp only [settleRace, absF_purge]

theorem settle_sim {s : St} (h : Inv2 s) (its : List Nat) :
    Spec.expire (absF s its) = (absF (settle s).1 its, (settle s).2) := by
  rw [← absF_purge s, fireDue_sim (inv2_purge h)]
  simp only [settle, absF_purge]

theorem TInv_settle (s : St) : TInv (settle s).1 := by
  simp only [settle]; exact TInv_purge _

theorem TInv_settleRace (s : St) : TInv (settleRace s).1 := by
  simp only [settleRace]; exact TInv_purge _

/-! ### Spec-level facts about `expire` -/

theorem expireList_frame (sp : Spec.St) (ts : List Timer) :
    (Spec.expireList sp ts).1.now = sp.now ∧ (∀ t ∈ (Spec.expireList sp ts).1.timers, t ∈ sp.timers) := by
  induction ts generalizing sp with
  | nil => exact ⟨rfl, fun _ h => h⟩
  | cons t ts ih =>
    simp only [Spec.expireList]
    split
    · obtain ⟨h1, h2⟩ := ih (Spec.drop sp t.2)
      refine ⟨h1, fun x hx => ?_⟩
      have := h2 x hx
      simp only [Spec.drop, List.mem_filter] at this
      exact this.1
    · exact ih sp

theorem snotDue_expire (sp : Spec.St) : SNotDue (Spec.expire sp).1 := by
  intro t ht
  simp only [Spec.expire, List.mem_filter, decide_eq_true_eq] at ht ⊢
  omega

/-- with no deadline reached `expire` does nothing -/
theorem expire_notDue {sp : Spec.St} (h : SNotDue sp) : Spec.expire sp = (sp, []) := by
  have hd : dueTimers sp.now sp.timers = [] := by
    unfold dueTimers
    have : sp.timers.filter (fun t => decide (t.1 ≤ sp.now)) = [] := by
      rw [List.filter_eq_nil_iff]
      intro t ht
      have := h t ht
      simp; omega
    rw [this]; rfl
  simp only [Spec.expire, hd, Spec.expireList]
  have : sp.timers.filter (fun t => decide ¬ (t.1 ≤ sp.now)) = sp.timers := by
    rw [List.filter_eq_self]
    intro t ht
    have := h t ht
    simp; omega
  rw [this]

end TornadoModel.C35
