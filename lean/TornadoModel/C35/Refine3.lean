/-
C35 — forward simulation Model → Spec, part 3: `put`, `get`, `join`, `cancel`, `advance`, `task_done`.
-/
import TornadoModel.C35.Refine2
namespace TornadoModel.C35
open TornadoModel.C33 (FState Ev Timer isPend dueTimers minTimer isPend_set isPend_set_ne isPend_set_self
  isPend_lt isPend_append_lt isPend_append_self isPend_append isPend_set_eq isPend_append_dead dueTimers_filter
  filter_drop filter_dropT)

/-! ### a new future that is settled at once -/

theorem absF_append_dead (s : St) (its : List Nat) {v : FState} (hv : v ≠ .pending) :
    absF { s with futs := s.futs ++ [v] } its = { absF s its with next := s.futs.length + 1 } := by
  simp only [absF, isPend_append_dead hv, List.length_append, List.length_singleton, Spec.St.mk.injEq, true_and,
    and_true]
  refine ⟨?_, ?_⟩ <;> (apply List.filter_congr; intro a _; exact isPend_append_dead hv _)

theorem inv2_append_dead {s : St} (h : Inv2 s) {v : FState} (hv : v ≠ .pending) :
    Inv2 { s with futs := s.futs ++ [v] } := by
  constructor
  · intro w hw; exact h.pend_mem w (isPend_append hv hw)
  · intro j hj; have := h.jlt j hj; simp; omega
  · exact h.jsorted
  · intro t ht; have := h.tlt t ht; simp; omega
  · exact h.gj
  · exact h.pj

theorem rel_append_dead {s : St} {its : List Nat} (h : Rel s its) {v : FState} (hv : v ≠ .pending) :
    Rel { s with futs := s.futs ++ [v] } its :=
  ⟨inv_append h.inv v, inv2_append_dead h.inv2 hv, h.items⟩

/-! ### a new blocked waiter -/

theorem filter_append_pending_nat {futs : List FState} {l : List Nat} (hl : ∀ a ∈ l, a < futs.length) :
    l.filter (isPend (futs ++ [.pending])) = l.filter (isPend futs) := by
  apply List.filter_congr
  intro a ha
  exact isPend_append_lt (hl a ha)

theorem filter_append_pending_pair {futs : List FState} {l : List (Nat × Nat)} (hl : ∀ a ∈ l, a.2 < futs.length) :
    l.filter (fun a => isPend (futs ++ [.pending]) a.2) = l.filter (fun a => isPend futs a.2) := by
  apply List.filter_congr
  intro a ha
  exact isPend_append_lt (hl a ha)

theorem isPend_new (futs : List FState) : isPend (futs ++ [.pending]) futs.length = true := by
  rw [isPend_append_self]; rfl

theorem spec_addTimer_timers (sp : Spec.St) (d : Option Nat) (w : Nat) :
    Spec.addTimer sp d w = { sp with timers := match d with | some d => sp.timers ++ [(d, w)] | none => sp.timers } := by
  cases d <;> rfl

theorem addTimer_timers (s : St) (d : Option Nat) (w : Nat) :
    addTimer s d w = { s with timers := match d with | some d => s.timers ++ [(d, w)] | none => s.timers } := by
  cases d <;> rfl

theorem timers_new {s : St} (h2 : Inv2 s) (d : Option Nat) :
    List.filter (fun t : Timer => isPend (s.futs ++ [FState.pending]) t.2)
        (match d with | some d => s.timers ++ [(d, s.futs.length)] | none => s.timers : List Timer)
      = (match d with
        | some d => s.timers.filter (fun t => isPend s.futs t.2) ++ [(d, s.futs.length)]
        | none => s.timers.filter (fun t => isPend s.futs t.2) : List Timer) := by
  cases d with
  | none => exact filter_append_pending_pair h2.tlt
  | some d =>
    simp only [List.filter_append, filter_append_pending_pair h2.tlt]
    simp [isPend_new]

theorem absF_add_putter {s : St} {its : List Nat} (h : Rel s its) (x : Nat) (d : Option Nat) :
    absF (addTimer { s with putters := s.putters ++ [(x, s.futs.length)], futs := s.futs ++ [.pending] } d
        s.futs.length) its
      = Spec.addTimer { absF s its with putq := (absF s its).putq ++ [(x, s.futs.length)],
                                        next := s.futs.length + 1 } d s.futs.length := by
  rw [spec_addTimer_timers, addTimer_timers]
  simp only [absF, timers_new h.inv2 d, filter_append_pending_nat h.inv.glt, filter_append_pending_nat h.inv2.jlt,
    List.filter_append, filter_append_pending_pair h.inv.plt, List.length_append, List.length_singleton]
  simp [isPend_new]

theorem absF_add_getter {s : St} {its : List Nat} (h : Rel s its) (d : Option Nat) :
    absF (addTimer { s with getters := s.getters ++ [s.futs.length], futs := s.futs ++ [.pending] } d
        s.futs.length) its
      = Spec.addTimer { absF s its with getq := (absF s its).getq ++ [s.futs.length],
                                        next := s.futs.length + 1 } d s.futs.length := by
  rw [spec_addTimer_timers, addTimer_timers]
  simp only [absF, timers_new h.inv2 d, filter_append_pending_nat h.inv.glt, filter_append_pending_nat h.inv2.jlt,
    List.filter_append, filter_append_pending_pair h.inv.plt, List.length_append, List.length_singleton]
  simp [isPend_new]

theorem absF_add_joiner {s : St} {its : List Nat} (h : Rel s its) (d : Option Nat) :
    absF (addTimer { s with joiners := s.joiners ++ [s.futs.length], futs := s.futs ++ [.pending] } d
        s.futs.length) its
      = Spec.addTimer { absF s its with joinw := (absF s its).joinw ++ [s.futs.length],
                                        next := s.futs.length + 1 } d s.futs.length := by
  rw [spec_addTimer_timers, addTimer_timers]
  simp only [absF, timers_new h.inv2 d, filter_append_pending_nat h.inv.glt, filter_append_pending_nat h.inv2.jlt,
    List.filter_append, filter_append_pending_pair h.inv.plt, List.length_append, List.length_singleton]
  simp [isPend_new]

theorem mem_timers_new {s : St} {d : Option Nat} {t : Timer}
    (ht : t ∈ (match d with | some d => s.timers ++ [(d, s.futs.length)] | none => s.timers : List Timer)) :
    t ∈ s.timers ∨ t.2 = s.futs.length := by
  cases d with
  | none => exact Or.inl ht
  | some d =>
    rcases List.mem_append.mp ht with h | h
    · exact Or.inl h
    · simp at h; exact Or.inr (by rw [h])

/-- pending futures of the extended table: the old ones and the new one -/
theorem isPend_append_pending {futs : List FState} {w : Nat} (h : isPend (futs ++ [.pending]) w = true) :
    isPend futs w = true ∨ w = futs.length := by
  have hl := isPend_lt h
  simp at hl
  by_cases hw : w < futs.length
  · rw [isPend_append_lt hw] at h; exact Or.inl h
  · exact Or.inr (by omega)

theorem inv2_add_getter {s : St} (_h : Inv s) (h2 : Inv2 s) (d : Option Nat) :
    Inv2 (addTimer { s with getters := s.getters ++ [s.futs.length], futs := s.futs ++ [.pending] } d
      s.futs.length) := by
  rw [addTimer_timers]
  constructor
  · intro w hw
    rcases isPend_append_pending hw with hw | rfl
    · rcases h2.pend_mem w hw with h1 | h1 | h1
      · exact Or.inl (List.mem_append_left _ h1)
      · exact Or.inr (Or.inl h1)
      · exact Or.inr (Or.inr h1)
    · exact Or.inl (by simp)
  · intro j hj; have := h2.jlt j hj; simp; omega
  · exact h2.jsorted
  · intro t ht
    rcases mem_timers_new (s := s) (d := d) ht with ht | ht
    · have := h2.tlt t ht; simp; omega
    · simp; omega
  · intro g hg hgj
    rcases List.mem_append.mp hg with hg | hg
    · exact h2.gj g hg hgj
    · simp at hg; subst hg
      have := h2.jlt _ hgj; simp at this
  · exact h2.pj

theorem inv2_add_putter {s : St} (_h : Inv s) (h2 : Inv2 s) (x : Nat) (d : Option Nat) :
    Inv2 (addTimer { s with putters := s.putters ++ [(x, s.futs.length)], futs := s.futs ++ [.pending] } d
      s.futs.length) := by
  rw [addTimer_timers]
  constructor
  · intro w hw
    rcases isPend_append_pending hw with hw | rfl
    · rcases h2.pend_mem w hw with h1 | ⟨p, hp, rfl⟩ | h1
      · exact Or.inl h1
      · exact Or.inr (Or.inl ⟨p, List.mem_append_left _ hp, rfl⟩)
      · exact Or.inr (Or.inr h1)
    · exact Or.inr (Or.inl ⟨(x, s.futs.length), by simp, rfl⟩)
  · intro j hj; have := h2.jlt j hj; simp; omega
  · exact h2.jsorted
  · intro t ht
    rcases mem_timers_new (s := s) (d := d) ht with ht | ht
    · have := h2.tlt t ht; simp; omega
    · simp; omega
  · exact h2.gj
  · intro p hp hpj
    rcases List.mem_append.mp hp with hp | hp
    · exact h2.pj p hp hpj
    · simp at hp; subst hp
      have := h2.jlt _ hpj; simp at this

theorem inv2_add_joiner {s : St} (h : Inv s) (h2 : Inv2 s) (d : Option Nat) :
    Inv2 (addTimer { s with joiners := s.joiners ++ [s.futs.length], futs := s.futs ++ [.pending] } d
      s.futs.length) := by
  rw [addTimer_timers]
  constructor
  · intro w hw
    rcases isPend_append_pending hw with hw | rfl
    · rcases h2.pend_mem w hw with h1 | h1 | h1
      · exact Or.inl h1
      · exact Or.inr (Or.inl h1)
      · exact Or.inr (Or.inr (List.mem_append_left _ h1))
    · exact Or.inr (Or.inr (by simp))
  · intro j hj
    rcases List.mem_append.mp hj with hj | hj
    · have := h2.jlt j hj; simp; omega
    · simp at hj; subst hj; simp
  · show (s.joiners ++ [s.futs.length]).Pairwise (· < ·)
    rw [List.pairwise_append]
    refine ⟨h2.jsorted, by simp, ?_⟩
    intro a ha b hb
    simp at hb; subst hb
    exact h2.jlt a ha
  · intro t ht
    rcases mem_timers_new (s := s) (d := d) ht with ht | ht
    · have := h2.tlt t ht; simp; omega
    · simp; omega
  · intro g hg hgj
    rcases List.mem_append.mp hgj with hgj | hgj
    · exact h2.gj g hg hgj
    · simp at hgj; subst hgj
      have := h.glt _ hg; simp at this
  · intro p hp hpj
    rcases List.mem_append.mp hpj with hpj | hpj
    · exact h2.pj p hp hpj
    · simp at hpj
      have := h.plt _ hp; omega

/-! ### `put`, `get`, `join` -/

theorem put_ok_eq {s s1 : St} {e : List Ev} {x : Nat} (d : Option Nat) (h : putNowait s x = .ok s1 e) :
    put s x d = ({ s1 with futs := s1.futs ++ [.result 0] }, .unit, e ++ [(s.futs.length, .result 0)]) := by
  unfold put; rw [h]

theorem put_full_eq {s s1 : St} {x : Nat} (d : Option Nat) (h : putNowait s x = .full s1) :
    put s x d = (addTimer { s1 with putters := s1.putters ++ [(x, s.futs.length)], futs := s1.futs ++ [.pending] } d
      s.futs.length, .unit, []) := by
  unfold put; rw [h]

theorem put_sim {s : St} {its : List Nat} (h : Rel s its) (x : Nat) (d : Option Nat) :
    ∃ its1, Rel (put s x d).1 its1 ∧ Spec.put (absF s its) x d = (absF (put s x d).1 its1, (put s x d).2.2) ∧
      (put s x d).2.1 = .unit := by
  have hI := (put_good h.inv x d).1
  have hsim := putNowait_sim h x
  cases hpn : putNowait s x with
  | ok s1 e =>
    rw [hpn] at hsim
    obtain ⟨its1, hrel, hsp, hlen⟩ := hsim
    rw [put_ok_eq d hpn] at hI ⊢
    refine ⟨its1, rel_append_dead hrel (by simp), ?_, rfl⟩
    unfold Spec.put
    rw [hsp]
    simp only [absF_append_dead s1 its1 (v := FState.result 0) (by simp), hlen]
    rfl
  | full s1 =>
    rw [hpn] at hsim
    obtain ⟨hrel, hsp, habs, hlen⟩ := hsim
    rw [put_full_eq d hpn] at hI ⊢
    rw [← hlen] at hI ⊢
    refine ⟨its, ⟨hI, inv2_add_putter hrel.inv hrel.inv2 x d, ?_⟩, ?_, rfl⟩
    · have := hrel.items
      cases d <;> exact this
    · unfold Spec.put
      rw [hsp]
      simp only [absF_add_putter hrel x d, habs]
      have hn : (absF s its).next = s1.futs.length := by rw [hlen]; rfl
      simp only [hn]
  | assertion s1 => rw [hpn] at hsim; exact absurd hsim (by simp [PNsim])

theorem get_ok_eq {s s1 : St} {e : List Ev} {y : Nat} (d : Option Nat) (h : getNowait s = .ok s1 y e) :
    get s d = ({ s1 with futs := s1.futs ++ [.result y] }, .unit, e ++ [(s.futs.length, .result y)]) := by
  unfold get; rw [h]

theorem get_empty_eq {s s1 : St} (d : Option Nat) (h : getNowait s = .empty s1) :
    get s d = (addTimer { s1 with getters := s1.getters ++ [s.futs.length], futs := s1.futs ++ [.pending] } d
      s.futs.length, .unit, []) := by
  unfold get; rw [h]

theorem get_sim {s : St} {its : List Nat} (h : Rel s its) (d : Option Nat) :
    ∃ its1, Rel (get s d).1 its1 ∧ Spec.get (absF s its) d = (absF (get s d).1 its1, (get s d).2.2) ∧
      (get s d).2.1 = .unit := by
  have hI := (get_good h.inv d).1
  have hsim := getNowait_sim h
  cases hgn : getNowait s with
  | ok s1 y e =>
    rw [hgn] at hsim
    obtain ⟨its1, hrel, hsp, hlen⟩ := hsim
    rw [get_ok_eq d hgn] at hI ⊢
    refine ⟨its1, rel_append_dead hrel (by simp), ?_, rfl⟩
    unfold Spec.get
    rw [hsp]
    simp only [absF_append_dead s1 its1 (v := FState.result y) (by simp), hlen]
    rfl
  | empty s1 =>
    rw [hgn] at hsim
    obtain ⟨hrel, hsp, habs, hlen⟩ := hsim
    rw [get_empty_eq d hgn] at hI ⊢
    rw [← hlen] at hI ⊢
    refine ⟨its, ⟨hI, inv2_add_getter hrel.inv hrel.inv2 d, ?_⟩, ?_, rfl⟩
    · have := hrel.items
      cases d <;> exact this
    · unfold Spec.get
      rw [hsp]
      simp only [absF_add_getter hrel d, habs]
      have hn : (absF s its).next = s1.futs.length := by rw [hlen]; rfl
      simp only [hn]
  | assertion s1 => rw [hgn] at hsim; exact absurd hsim (by simp [GNsim])

theorem join_sim {s : St} {its : List Nat} (h : Rel s its) (d : Option Nat) :
    Rel (join s d).1 its ∧ Spec.join (absF s its) d = (absF (join s d).1 its, (join s d).2) := by
  have hI := inv_join h.inv d
  have hfin := h.inv.fin
  unfold join at hI ⊢
  unfold Spec.join
  by_cases hu : s.unfinished = 0
  · have hf : s.finished = true := by rw [hfin]; simp [hu]
    have hu' : (absF s its).unfinished = 0 := hu
    rw [if_pos hf] at hI ⊢
    rw [if_pos hu']
    refine ⟨rel_append_dead h (by simp), ?_⟩
    simp only [absF_append_dead s its (v := FState.result 0) (by simp)]
    rfl
  · have hf : ¬ (s.finished = true) := by rw [hfin]; simp [hu]
    have hu' : ¬ ((absF s its).unfinished = 0) := hu
    rw [if_neg hf] at hI ⊢
    rw [if_neg hu']
    refine ⟨⟨hI, inv2_add_joiner h.inv h.inv2 d, ?_⟩, ?_⟩
    · have := h.items
      cases d <;> exact this
    · simp only [absF_add_joiner h d]
      rfl

/-! ### `cancel`, `advance` -/

theorem cancel_sim {s : St} (h2 : Inv2 s) (its : List Nat) (w : Nat) :
    Spec.cancel (absF s its) w = (absF (cancel s w).1 its, (cancel s w).2.1, (cancel s w).2.2) := by
  unfold Spec.cancel cancel
  rw [waiting_absF h2]
  split
  · rw [drop_absF s its w (v := .cancelled) (by simp)]
  · rfl

theorem rel_shrinks {s s' : St} {its : List Nat} (h : Rel s its) (hs : Shrinks s s') (h2 : Inv2 s') : Rel s' its := by
  refine ⟨inv_shrinks h.inv hs, h2, ?_⟩
  have hc := hs.same
  simp only [core, Prod.mk.injEq] at hc
  rw [hc.1, hc.2.2.1]
  exact h.items

theorem inv2_cancel {s : St} (h2 : Inv2 s) (w : Nat) : Inv2 (cancel s w).1 := by
  unfold cancel; split
  · exact inv2_set h2 w .cancelled (by simp)
  · exact h2

theorem inv2_advance {s : St} (h2 : Inv2 s) : Inv2 (advance s).1 := by
  unfold advance; split
  · exact h2
  · exact inv2_same h2 rfl rfl rfl rfl (fun _ ht => ht) (fun _ hw => hw)

theorem rel_cancel {s : St} {its : List Nat} (h : Rel s its) (w : Nat) : Rel (cancel s w).1 its :=
  rel_shrinks h (shrinks_cancel s w) (inv2_cancel h.inv2 w)

theorem rel_advance {s : St} {its : List Nat} (h : Rel s its) : Rel (advance s).1 its :=
  rel_shrinks h (shrinks_advance s) (inv2_advance h.inv2)

theorem rel_settle {s : St} {its : List Nat} (h : Rel s its) : Rel (settle s).1 its :=
  rel_shrinks h (shrinks_settle s) (inv2_settle h.inv2)

theorem rel_settleRace {s : St} {its : List Nat} (h : Rel s its) : Rel (settleRace s).1 its :=
  rel_shrinks h (shrinks_settleRace s) (inv2_settleRace h.inv2)

theorem advance_sim {s : St} (ht : TInv s) (its : List Nat) :
    Spec.advance (absF s its) = (absF (advance s).1 its, (advance s).2) := by
  have hm : minTimer (absF s its).timers = minTimer s.timers := by rw [absF_timers ht]
  unfold Spec.advance advance
  rw [hm]
  cases minTimer s.timers <;> rfl

theorem TInv_advance {s : St} (ht : TInv s) : TInv (advance s).1 := by
  unfold advance; split
  · exact ht
  · exact ht

/-! ### `sortNat`, `resolveAll` -/

theorem insNat_append {x : Nat} {l : List Nat} (h : ∀ a ∈ l, a < x) : insNat x l = l ++ [x] := by
  induction l with
  | nil => rfl
  | cons y ys ih =>
    have hy : y < x := h y (by simp)
    have : ¬ x ≤ y := by omega
    simp only [insNat, this, if_false, List.cons_append]
    rw [ih (fun a ha => h a (List.mem_cons_of_mem _ ha))]

theorem foldl_insNat_sorted (l acc : List Nat) (hl : l.Pairwise (· < ·)) (ha : ∀ a ∈ acc, ∀ b ∈ l, a < b) :
    l.foldl (fun acc x => insNat x acc) acc = acc ++ l := by
  induction l generalizing acc with
  | nil => simp
  | cons b l ih =>
    rw [List.foldl_cons, insNat_append (fun a h => ha a h b (by simp)), ih _ hl.of_cons]
    · simp
    · intro a h c hc
      rcases List.mem_append.mp h with h | h
      · exact ha a h c (List.mem_cons_of_mem _ hc)
      · simp at h; subst h; exact List.rel_of_pairwise_cons hl hc

theorem sortNat_sorted {l : List Nat} (hl : l.Pairwise (· < ·)) : sortNat l = l := by
  unfold sortNat
  rw [foldl_insNat_sorted l [] hl (by simp)]; simp

theorem resolveAll_pend {futs : List FState} {v : FState} (hv : v ≠ .pending) (ws : List Nat) (w : Nat) :
    isPend (resolveAll futs v ws).1 w = (isPend futs w && !ws.contains w) := by
  induction ws generalizing futs with
  | nil => simp [resolveAll]
  | cons a ws ih =>
    by_cases ha : isPend futs a = true
    · rw [resolveAll_pos ha, ih, isPend_set_eq hv]
      by_cases hwa : w = a
      · subst hwa; simp
      · simp [hwa]
    · have ha' : isPend futs a = false := by simpa using ha
      rw [resolveAll_neg ha', ih]
      by_cases hwa : w = a
      · subst hwa; simp [ha']
      · simp [hwa]

theorem resolveAll_evs {futs : List FState} {v : FState} {ws : List Nat} (hn : ws.Nodup) :
    (resolveAll futs v ws).2 = (ws.filter (isPend futs)).map (fun w => (w, v)) := by
  induction ws generalizing futs with
  | nil => rfl
  | cons a ws ih =>
    have hn' := (List.nodup_cons.mp hn)
    by_cases ha : isPend futs a = true
    · simp only [resolveAll, ha, if_true, List.filter_cons, List.map_cons]
      rw [ih hn'.2]
      congr 2
      apply List.filter_congr
      intro x hx
      exact isPend_set_ne (fun e => hn'.1 (e ▸ hx))
    · have ha' : isPend futs a = false := by simpa using ha
      rw [resolveAll_neg ha', ih hn'.2, List.filter_cons]
      simp [ha']

theorem nodup_of_sorted {l : List Nat} (h : l.Pairwise (· < ·)) : l.Nodup :=
  h.imp (fun hab => Nat.ne_of_lt hab)

/-! ### `task_done` (not racing a timer) -/

theorem finSet_plain {s : St} (hf : s.finished = false) (h2 : Inv2 s) :
    finSet s [] = ({ s with finished := true, futs := (resolveAll s.futs (.result 0) s.joiners).1 },
                   (s.joiners.filter (isPend s.futs)).map (fun w => (w, .result 0))) := by
  unfold finSet
  have e : List.filter (fun _ => false) s.joiners = [] := List.filter_eq_nil_iff.mpr (by simp)
  simp only [hf, Bool.false_eq_true, if_false, sortNat_sorted h2.jsorted, List.contains_nil, e,
    resolveAll, List.nil_append, resolveAll_evs (nodup_of_sorted h2.jsorted)]

theorem taskDone_sim {s : St} {its : List Nat} (h : Rel s its) :
    Rel (taskDone s []).1 its ∧
      Spec.taskDone (absF s its) = (absF (taskDone s []).1 its, (taskDone s []).2.1, (taskDone s []).2.2) := by
  have hI := inv_taskDone h.inv []
  have hfin := h.inv.fin
  unfold taskDone at hI ⊢
  unfold Spec.taskDone
  have hu : (absF s its).unfinished = s.unfinished := rfl
  rw [hu]
  by_cases h0 : s.unfinished = 0
  · rw [if_pos h0] at hI ⊢
    rw [if_pos h0]
    exact ⟨h, rfl⟩
  · rw [if_neg h0] at hI ⊢
    rw [if_neg h0]
    have hf : s.finished = false := by rw [hfin]; simp [h0]
    by_cases h1 : s.unfinished = 1
    · have h1' : s.unfinished - 1 = 0 := by omega
      simp only [h1', if_true] at hI ⊢
      rw [if_pos h1]
      have h2' : Inv2 { s with unfinished := 0, done := s.done + 1 } :=
        inv2_same h.inv2 rfl rfl rfl rfl (fun _ ht => ht) (fun _ hw => hw)
      rw [finSet_plain (s := { s with unfinished := 0, done := s.done + 1 }) hf h2'] at hI ⊢
      simp only at hI ⊢
      have hpend : ∀ w, isPend (resolveAll s.futs (FState.result 0) s.joiners).1 w
          = (isPend s.futs w && !s.joiners.contains w) := resolveAll_pend (by simp) _
      refine ⟨⟨hI, ?_, h.items⟩, ?_⟩
      · refine inv2_same h.inv2 rfl rfl rfl (by simp [resolveAll_length]) (fun _ ht => ht) ?_
        intro w hw
        have := hpend w
        simp only at hw
        rw [hw] at this
        simp at this
        exact this.1
      · simp only [absF, resolveAll_length, Prod.mk.injEq, and_true, Spec.St.mk.injEq, true_and]
        refine ⟨?_, ?_, ?_, ?_⟩
        · apply List.filter_congr
          intro g hg
          have := h.inv2.gj g hg
          rw [hpend]; simp [this]
        · apply List.filter_congr
          intro p hp
          have := h.inv2.pj p hp
          rw [hpend]; simp [this]
        · symm
          rw [List.filter_eq_nil_iff]
          intro j hj
          rw [hpend]; simp [hj]
        · rw [List.filter_filter]
          apply List.filter_congr
          intro t _
          rw [hpend]
          by_cases hp : isPend s.futs t.2 = true
          · simp [hp, List.mem_filter]
          · have hp' : isPend s.futs t.2 = false := by simpa using hp
            simp [hp']
    · have h1' : ¬ (s.unfinished - 1 = 0) := by omega
      simp only [h1', if_false] at hI ⊢
      rw [if_neg h1]
      refine ⟨⟨hI, ?_, h.items⟩, rfl⟩
      exact inv2_same h.inv2 rfl rfl rfl rfl (fun _ ht => ht) (fun _ hw => hw)

end TornadoModel.C35
