/-
C35 — property theorems: for EVERY discipline, maxsize and op sequence (put / put_nowait / get / get_nowait /
task_done / join with or without deadlines, fire-next-timer, cancel, same-iteration races).
Last section (`multi_…`): the same clauses for histories with compound ops — several calls made back-to-back inside
one loop iteration, then one drain (`Multi.lean`) — including the states *between* the calls of an iteration.
`accepted`, `delivered`, `done` are history variables of the model (tied to the implementation by wrapping
`_put` / `_get` in the harness).
-/
import TornadoModel.C35.MultiLemmas
namespace TornadoModel.C35
open TornadoModel.C33 (FState Ev Timer isPend)

abbrev after (d : Disc) (m : Nat) (ops : List Op) : St := (run (init d m) ops).1

theorem inv_after (d : Disc) (m : Nat) (ops : List Op) : Inv (after d m ops) := inv_run (inv_init d m) ops

/-! ### frame: discipline and maxsize are constants -/

def Frame (s s' : St) : Prop := s'.disc = s.disc ∧ s'.maxsize = s.maxsize
theorem Frame.trans {a b c : St} (h1 : Frame a b) (h2 : Frame b c) : Frame a c :=
  ⟨h2.1.trans h1.1, h2.2.trans h1.2⟩
theorem frame_of_shrinks {s s' : St} (h : Shrinks s s') : Frame s s' := by
  have := h.same
  simp only [core, Prod.mk.injEq] at this
  exact ⟨this.1, this.2.1⟩

def PNframe (s : St) : PN → Prop
  | .ok s1 _ => Frame s s1
  | .full s1 => Frame s s1
  | .assertion s1 => Frame s s1
def GNframe (s : St) : GN → Prop
  | .ok s1 _ _ => Frame s s1
  | .empty s1 => Frame s s1
  | .assertion s1 => Frame s s1

theorem frame_resolveUC (s : St) (w : Nat) (v : FState) : Frame s (resolveUC s w v).1 := by
  unfold resolveUC; split <;> exact ⟨rfl, rfl⟩

theorem putNowait_frame (s : St) (x : Nat) : PNframe s (putNowait s x) := by
  unfold putNowait
  simp only
  split
  · split
    · exact ⟨rfl, rfl⟩
    · split
      · exact ⟨rfl, rfl⟩
      · exact ⟨(frame_resolveUC _ _ _).1.trans rfl, (frame_resolveUC _ _ _).2.trans rfl⟩
  · split <;> exact ⟨rfl, rfl⟩

theorem getNowait_frame (s : St) : GNframe s (getNowait s) := by
  unfold getNowait
  simp only
  split
  · split
    · exact ⟨rfl, rfl⟩
    · split
      · exact ⟨(frame_resolveUC _ _ _).1.trans rfl, (frame_resolveUC _ _ _).2.trans rfl⟩
      · exact ⟨(frame_resolveUC _ _ _).1.trans rfl, (frame_resolveUC _ _ _).2.trans rfl⟩
  · split <;> exact ⟨rfl, rfl⟩

theorem frame_addTimer (s : St) (d : Option Nat) (w : Nat) : Frame s (addTimer s d w) :=
  frame_of_shrinks (shrinks_addTimer s d w)

theorem frame_put (s : St) (x : Nat) (d : Option Nat) : Frame s (put s x d).1 := by
  have hf := putNowait_frame s x
  unfold put
  cases hpn : putNowait s x with
  | ok s1 e => rw [hpn] at hf; exact ⟨hf.1, hf.2⟩
  | full s1 =>
    rw [hpn] at hf
    exact Frame.trans (b := { s1 with putters := s1.putters ++ [(x, s.futs.length)], futs := s1.futs ++ [.pending] })
      ⟨hf.1, hf.2⟩ (frame_addTimer _ d _)
  | assertion s1 => rw [hpn] at hf; exact hf

theorem frame_get (s : St) (d : Option Nat) : Frame s (get s d).1 := by
  have hf := getNowait_frame s
  unfold get
  cases hgn : getNowait s with
  | ok s1 y e => rw [hgn] at hf; exact ⟨hf.1, hf.2⟩
  | empty s1 =>
    rw [hgn] at hf
    exact Frame.trans (b := { s1 with getters := s1.getters ++ [s.futs.length], futs := s1.futs ++ [.pending] })
      ⟨hf.1, hf.2⟩ (frame_addTimer _ d _)
  | assertion s1 => rw [hgn] at hf; exact hf

theorem frame_join (s : St) (d : Option Nat) : Frame s (join s d).1 := by
  unfold join; split
  · exact ⟨rfl, rfl⟩
  · exact Frame.trans (b := { s with joiners := s.joiners ++ [s.futs.length], futs := s.futs ++ [.pending] })
      ⟨rfl, rfl⟩ (frame_addTimer _ d _)

theorem frame_taskDone (s : St) (r : List Nat) : Frame s (taskDone s r).1 := by
  unfold taskDone; split
  · exact ⟨rfl, rfl⟩
  · simp only
    split
    · unfold finSet; split <;> exact ⟨rfl, rfl⟩
    · exact ⟨rfl, rfl⟩

theorem frame_settle (s : St) : Frame s (settle s).1 := frame_of_shrinks (shrinks_settle s)
theorem frame_settleRace (s : St) : Frame s (settleRace s).1 := frame_of_shrinks (shrinks_settleRace s)
theorem frame_advance (s : St) : Frame s (advance s).1 := frame_of_shrinks (shrinks_advance s)
theorem frame_cancel (s : St) (w : Nat) : Frame s (cancel s w).1 := frame_of_shrinks (shrinks_cancel s w)

theorem frame_step (s : St) (op : Op) : Frame s (step s op).1 := by
  cases op with
  | put x d => simp only [step]; exact Frame.trans (frame_put s x d) (frame_settle _)
  | putNowait x =>
    have hf := putNowait_frame s x
    simp only [step]
    cases hpn : putNowait s x <;> rw [hpn] at hf <;> exact Frame.trans hf (frame_settle _)
  | get d => simp only [step]; exact Frame.trans (frame_get s d) (frame_settle _)
  | getNowait =>
    have hf := getNowait_frame s
    simp only [step]
    cases hgn : getNowait s <;> rw [hgn] at hf <;> exact Frame.trans hf (frame_settle _)
  | taskDone => simp only [step]; exact Frame.trans (frame_taskDone s _) (frame_settle _)
  | join d => simp only [step]; exact Frame.trans (frame_join s d) (frame_settle _)
  | fire => simp only [step]; exact Frame.trans (frame_advance s) (frame_settle _)
  | cancel w => simp only [step]; exact Frame.trans (frame_cancel s w) (frame_settle _)
  | racePutNowait x =>
    have hf := putNowait_frame (advance s).1 x
    simp only [step]
    cases hpn : putNowait (advance s).1 x <;> rw [hpn] at hf <;>
      exact Frame.trans (Frame.trans (frame_advance s) hf) (frame_settleRace _)
  | raceGetNowait =>
    have hf := getNowait_frame (advance s).1
    simp only [step]
    cases hgn : getNowait (advance s).1 <;> rw [hgn] at hf <;>
      exact Frame.trans (Frame.trans (frame_advance s) hf) (frame_settleRace _)
  | raceTaskDone =>
    simp only [step]
    exact Frame.trans (Frame.trans (frame_advance s) (frame_taskDone _ _)) (frame_settleRace _)
  | raceCancel w =>
    simp only [step]
    exact Frame.trans (Frame.trans (frame_advance s) (frame_cancel _ w)) (frame_settleRace _)

theorem frame_run (s : St) (ops : List Op) : Frame s (run s ops).1 := by
  induction ops generalizing s with
  | nil => exact ⟨rfl, rfl⟩
  | cons op ops ih => simp only [run]; exact Frame.trans (frame_step s op) (ih _)

theorem disc_after (d : Disc) (m : Nat) (ops : List Op) : (after d m ops).disc = d :=
  (frame_run (init d m) ops).1
theorem maxsize_after (d : Disc) (m : Nat) (ops : List Op) : (after d m ops).maxsize = m :=
  (frame_run (init d m) ops).2

/-! ### conservation -/

/-- every accepted item has been delivered exactly once or is still queued (multiset equality) -/
theorem conservation (d : Disc) (m : Nat) (ops : List Op) :
    (after d m ops).accepted.Perm ((after d m ops).delivered ++ (after d m ops).items) :=
  (inv_after d m ops).perm

theorem conservation_count (d : Disc) (m : Nat) (ops : List Op) :
    (after d m ops).accepted.length = (after d m ops).delivered.length + (after d m ops).items.length := by
  simpa using (conservation d m ops).length_eq

example : (after .prio 2 [.put 3 none, .put 1 none, .put 2 (some 4), .get none, .fire, .getNowait]).delivered = [1, 2]
    ∧ (after .prio 2 [.put 3 none, .put 1 none, .put 2 (some 4), .get none, .fire, .getNowait]).accepted = [3, 1, 2]
    := by decide

/-! ### the queue never holds more than maxsize items (at op boundaries) -/

theorem size_le_maxsize (d : Disc) (m : Nat) (ops : List Op) (hm : m ≠ 0) :
    (after d m ops).items.length ≤ m := by
  have := (inv_after d m ops).size
  rw [maxsize_after] at this
  exact this hm

/-! ### ordering discipline -/

/-- FIFO: what has been delivered is a prefix of what was accepted, the rest is the queue, in order -/
theorem order_fifo (m : Nat) (ops : List Op) :
    (after .fifo m ops).accepted = (after .fifo m ops).delivered ++ (after .fifo m ops).items :=
  (inv_after .fifo m ops).fifo (disc_after .fifo m ops)

/-- LIFO: the container lists the undelivered items in acceptance order (a subsequence of the acceptance
log), and `_get` takes its last element, i.e. the most recently accepted undelivered item -/
theorem order_lifo (m : Nat) (ops : List Op) :
    (after .lifo m ops).items.Sublist (after .lifo m ops).accepted ∧
    ∀ y r, cget .lifo (after .lifo m ops).items = some (y, r) → (after .lifo m ops).items = r ++ [y] := by
  refine ⟨(inv_after .lifo m ops).sub (by rw [disc_after]; simp), fun y r h => cget_lifo h⟩

/-- priority: the container is sorted and `_get` takes its head, so every delivery is a minimum of
everything accepted and not yet delivered (including the item of a putter admitted by that very get) -/
theorem order_prio (m : Nat) (ops : List Op) :
    (after .prio m ops).items.Pairwise (· ≤ ·) ∧
    ∀ y r, cget .prio (after .prio m ops).items = some (y, r) → ∀ z ∈ r, y ≤ z := by
  have hs := (inv_after .prio m ops).sorted (disc_after .prio m ops)
  exact ⟨hs, fun y r h => (cget_sorted h hs).2⟩

example : (after .lifo 0 [.put 1 none, .put 2 none, .put 3 none, .getNowait, .put 4 none, .getNowait, .getNowait]).delivered
    = [3, 4, 2] := by decide

/-! ### the asserts in put_nowait / get_nowait never fire -/

theorem no_assertion (d : Disc) (m : Nat) (ops : List Op) :
    ∀ o ∈ (run (init d m) ops).2, o.res ≠ .assertion :=
  run_no_assertion (inv_init d m) ops

/-- blocked getters exist only while the queue is empty, blocked putters only while it is full -/
theorem waiters_consistent (d : Disc) (m : Nat) (ops : List Op) :
    ((∃ g ∈ (after d m ops).getters, isPend (after d m ops).futs g = true) → (after d m ops).items = []) ∧
    ((∃ p ∈ (after d m ops).putters, isPend (after d m ops).futs p.2 = true) → isFull (after d m ops) = true) :=
  ⟨(inv_after d m ops).getE, (inv_after d m ops).putF⟩

/-! ### join / task_done -/

/-- the `_finished` event is set exactly when nothing is unfinished … -/
theorem finished_iff (d : Disc) (m : Nat) (ops : List Op) :
    (after d m ops).finished = true ↔ (after d m ops).unfinished = 0 := by
  rw [(inv_after d m ops).fin]; simp

/-- … every put is matched: unfinished = accepted − task_done -/
theorem unfinished_eq (d : Disc) (m : Nat) (ops : List Op) :
    (after d m ops).unfinished + (after d m ops).done = (after d m ops).accepted.length :=
  (inv_after d m ops).count

/-- `join` completes at once iff every accepted put has been matched by a `task_done`, otherwise it waits -/
theorem join_iff (d : Disc) (m : Nat) (ops : List Op) (dl : Option Nat) :
    ((join (after d m ops) dl).2 = [((after d m ops).futs.length, .result 0)] ↔
        (after d m ops).done = (after d m ops).accepted.length) ∧
    ((join (after d m ops) dl).2 = [] ↔ (after d m ops).done ≠ (after d m ops).accepted.length) := by
  have h1 := finished_iff d m ops
  have h2 := unfinished_eq d m ops
  generalize after d m ops = s at *
  unfold join
  by_cases hf : s.finished = true
  · have : s.unfinished = 0 := h1.mp hf
    simp [hf]; omega
  · have hne : s.unfinished ≠ 0 := fun e => hf (h1.mpr e)
    simp [hf]; omega

/-- `task_done` raises ValueError exactly when every accepted put has already been matched -/
theorem extra_task_done_raises (d : Disc) (m : Nat) (ops : List Op) :
    (step (after d m ops) .taskDone).2.res = .valueError ↔
      (after d m ops).done = (after d m ops).accepted.length := by
  have h2 := unfinished_eq d m ops
  generalize after d m ops = s at *
  simp only [step, mkOut, taskDone]
  by_cases hz : s.unfinished = 0
  · simp [hz]; omega
  · simp only [hz, if_false]
    constructor
    · intro h; split at h <;> simp at h
    · intro h; omega

theorem task_done_le_puts (d : Disc) (m : Nat) (ops : List Op) :
    (after d m ops).done ≤ (after d m ops).accepted.length := by
  have := unfinished_eq d m ops; omega

example : (step (after .fifo 1 [.put 1 none, .taskDone]) .taskDone).2.res = .valueError := by decide
example : (join (after .fifo 1 [.put 1 none]) none).2 = [] := by decide

/-! ### blocked getters / putters are served in deque (= arrival) order, skipping only dead ones -/

theorem takeWhile_all {α} (p : α → Bool) (l : List α) : ∀ x ∈ l.takeWhile p, p x = true := by
  induction l with
  | nil => simp
  | cons b l ih =>
    simp only [List.takeWhile_cons]
    split
    · rename_i hb
      intro x hx
      rcases List.mem_cons.mp hx with rfl | hx
      · exact hb
      · exact ih x hx
    · simp

theorem dropWhile_split {α} (p : α → Bool) (l : List α) (a : α) (r : List α) (h : l.dropWhile p = a :: r) :
    ∃ pre, l = pre ++ a :: r ∧ ∀ x ∈ pre, p x = true := by
  refine ⟨l.takeWhile p, ?_, takeWhile_all p l⟩
  rw [← h, List.takeWhile_append_dropWhile]

/-- `put_nowait` hands the item to the first getter of the deque that is still pending -/
theorem getters_fifo (s : St) (g : Nat) (gs : List Nat) (h : (consume s).getters = g :: gs) :
    isPend s.futs g = true ∧ ∃ pre, s.getters = pre ++ g :: gs ∧ ∀ a ∈ pre, isPend s.futs a = false := by
  refine ⟨consume_getters_head h, ?_⟩
  obtain ⟨pre, h1, h2⟩ := dropWhile_split (fun g => !isPend s.futs g) s.getters g gs h
  exact ⟨pre, h1, fun a ha => by simpa using h2 a ha⟩

/-- `get_nowait` admits the item of the first putter of the deque that is still pending -/
theorem putters_fifo (s : St) (p : Nat × Nat) (ps : List (Nat × Nat)) (h : (consume s).putters = p :: ps) :
    isPend s.futs p.2 = true ∧
    ∃ pre, s.putters = pre ++ p :: ps ∧ ∀ a ∈ pre, isPend s.futs a.2 = false := by
  refine ⟨consume_putters_head h, ?_⟩
  obtain ⟨pre, h1, h2⟩ := dropWhile_split (fun p : Nat × Nat => !isPend s.futs p.2) s.putters p ps h
  exact ⟨pre, h1, fun a ha => by simpa using h2 a ha⟩

/-! ### refinement to the sequential specification -/

/-- same results and same resolutions, in the same order, as the sequential queue of `Spec.lean`, for every
discipline, maxsize and op sequence; this is where "blocked getters and putters are served in arrival order"
and "timed-out operations have no effect" live.  Proof: forward simulation (`Refine1`–`Refine5.lean`) along
`absF` (live entries of the deques, timers of live futures; for the priority queue the Spec's item list is a
permutation of the sorted heap content) under the invariants `Inv`, `Inv2`, `TInv`, `SNotDue`. -/
theorem refines_spec (d : Disc) (m : Nat) (ops : List Op) :
    (run (init d m) ops).2.map (fun o => (o.res, o.evs)) =
      (Spec.run (Spec.init d m) ops).2.map (fun o => (o.res, o.evs)) := by
  have h := run_sim (bd_init d m) ops
  rw [absF_init] at h
  exact h.symm

/-- after every history the Spec's state is the abstraction of the model's state: its wait lists are the live
entries of the model's deques, its item list is the model's container (a permutation of it for the heap) -/
theorem refines_spec_state (d : Disc) (m : Nat) (ops : List Op) :
    ∃ its, (Spec.run (Spec.init d m) ops).1 = absF (after d m ops) its ∧
      ItemsRel d (after d m ops).items its := by
  obtain ⟨its, hbd, hst⟩ := run_sim_state (bd_init d m) ops
  rw [absF_init] at hst
  refine ⟨its, hst, ?_⟩
  have := hbd.rel.items
  rwa [disc_after] at this

example : (run (init .prio 1) [.put 3 none, .put 1 (some 9), .join (some 2), .get (some 2), .getNowait, .taskDone,
      .raceTaskDone, .taskDone]).2.map (fun o => (o.res, o.evs)) =
    [(.unit, [(0, .result 0)]), (.unit, []), (.unit, []), (.unit, [(1, .result 0), (3, .result 1)]), (.val 3, []),
     (.unit, []), (.unit, [(2, .timeout)]), (.valueError, [])] := by decide

/-! ### compound ops: several calls inside ONE loop iteration, then one drain (`Multi.lean`)

`run2` extends `run` by the op `multi [c₁,…,cₙ]` = `call c₁ ; … ; call cₙ ; settle`.  Between the calls no
done-callback has run: `_finished._waiters` still holds waiters that were already woken, timer handles of settled
futures are still scheduled, due timers have not fired.  The clauses above hold for these histories too, at op
boundaries *and* between the calls of an iteration. -/

abbrev after2 (d : Disc) (m : Nat) (ops : List Op2) : St := (run2 (init d m) ops).1

/-- a state in the middle of a loop iteration: after the history `ops` and the calls `cs`, before the drain -/
abbrev inside (d : Disc) (m : Nat) (ops : List Op2) (cs : List Call) : St := (calls (after2 d m ops) cs).1

/-- the histories of `run` are exactly the `run2` histories without compound ops: all theorems above are
statements about that sub-language -/
theorem multi_extends (d : Disc) (m : Nat) (ops : List Op) :
    after2 d m (ops.map .prim) = after d m ops ∧
    (run2 (init d m) (ops.map .prim)).2 = (run (init d m) ops).2.map .prim := by
  simp only [after2, after, run2_prim, and_self]

theorem multi_inv_after (d : Disc) (m : Nat) (ops : List Op2) : Inv (after2 d m ops) :=
  inv_run2 (inv_init d m) ops

/-- the invariant also holds after every call inside an iteration (before anything of the drain has happened) -/
theorem multi_inv_inside (d : Disc) (m : Nat) (ops : List Op2) (cs : List Call) : Inv (inside d m ops cs) :=
  (calls_good (multi_inv_after d m ops) cs).1

theorem frame_call (s : St) (c : Call) : Frame s (call s c).1 := by
  cases c with
  | put x d => exact frame_put s x d
  | putNowait x =>
    have hf := putNowait_frame s x
    simp only [call]
    cases hpn : putNowait s x <;> rw [hpn] at hf <;> exact hf
  | get d => exact frame_get s d
  | getNowait =>
    have hf := getNowait_frame s
    simp only [call]
    cases hgn : getNowait s <;> rw [hgn] at hf <;> exact hf
  | taskDone => exact frame_taskDone s _
  | join d => exact frame_join s d
  | cancel w => exact frame_cancel s w

theorem frame_calls (s : St) (cs : List Call) : Frame s (calls s cs).1 := by
  induction cs generalizing s with
  | nil => exact ⟨rfl, rfl⟩
  | cons c cs ih => simp only [calls]; exact Frame.trans (frame_call s c) (ih _)

theorem frame_run2 (s : St) (ops : List Op2) : Frame s (run2 s ops).1 := by
  induction ops generalizing s with
  | nil => exact ⟨rfl, rfl⟩
  | cons op ops ih =>
    simp only [run2]
    refine Frame.trans ?_ (ih _)
    cases op with
    | prim op => exact frame_step s op
    | multi cs => simp only [step2, stepMulti]; exact Frame.trans (frame_calls s cs) (frame_settle _)

theorem multi_disc_maxsize (d : Disc) (m : Nat) (ops : List Op2) (cs : List Call) :
    (inside d m ops cs).disc = d ∧ (inside d m ops cs).maxsize = m := by
  have h := Frame.trans (frame_run2 (init d m) ops) (frame_calls (after2 d m ops) cs)
  exact ⟨h.1, h.2⟩

/-- conservation, at every point of every iteration (`cs = []`: at the op boundary) -/
theorem multi_conservation (d : Disc) (m : Nat) (ops : List Op2) (cs : List Call) :
    (inside d m ops cs).accepted.Perm ((inside d m ops cs).delivered ++ (inside d m ops cs).items) :=
  (multi_inv_inside d m ops cs).perm

/-- the queue never holds more than maxsize items — not even between two calls of one iteration -/
theorem multi_size_le_maxsize (d : Disc) (m : Nat) (ops : List Op2) (cs : List Call) (hm : m ≠ 0) :
    (inside d m ops cs).items.length ≤ m := by
  have := (multi_inv_inside d m ops cs).size
  rw [(multi_disc_maxsize d m ops cs).2] at this
  exact this hm

theorem multi_order_fifo (m : Nat) (ops : List Op2) (cs : List Call) :
    (inside .fifo m ops cs).accepted = (inside .fifo m ops cs).delivered ++ (inside .fifo m ops cs).items :=
  (multi_inv_inside .fifo m ops cs).fifo (multi_disc_maxsize .fifo m ops cs).1

theorem multi_order_lifo (m : Nat) (ops : List Op2) (cs : List Call) :
    (inside .lifo m ops cs).items.Sublist (inside .lifo m ops cs).accepted :=
  (multi_inv_inside .lifo m ops cs).sub (by rw [(multi_disc_maxsize .lifo m ops cs).1]; simp)

theorem multi_order_prio (m : Nat) (ops : List Op2) (cs : List Call) :
    (inside .prio m ops cs).items.Pairwise (· ≤ ·) ∧
    ∀ y r, cget .prio (inside .prio m ops cs).items = some (y, r) → ∀ z ∈ r, y ≤ z := by
  have hs := (multi_inv_inside .prio m ops cs).sorted (multi_disc_maxsize .prio m ops cs).1
  exact ⟨hs, fun y r h => (cget_sorted h hs).2⟩

/-- neither `assert` fails, whatever calls share an iteration -/
theorem multi_no_assertion (d : Disc) (m : Nat) (ops : List Op2) :
    ∀ o ∈ (run2 (init d m) ops).2, o.noAssertion :=
  run2_no_assertion (inv_init d m) ops

theorem multi_finished_iff (d : Disc) (m : Nat) (ops : List Op2) (cs : List Call) :
    (inside d m ops cs).finished = true ↔ (inside d m ops cs).unfinished = 0 := by
  rw [(multi_inv_inside d m ops cs).fin]; simp

theorem multi_unfinished_eq (d : Disc) (m : Nat) (ops : List Op2) (cs : List Call) :
    (inside d m ops cs).unfinished + (inside d m ops cs).done = (inside d m ops cs).accepted.length :=
  (multi_inv_inside d m ops cs).count

/-- at ANY point of an iteration `task_done` either raises ValueError — exactly when every accepted put has
already been matched — or returns normally: a `task_done` that matches a put cannot fail, however often the
unfinished count has already touched zero in this iteration and whatever stale waiters `_finished` still holds -/
theorem multi_task_done (d : Disc) (m : Nat) (ops : List Op2) (cs : List Call) :
    ((call (inside d m ops cs) .taskDone).2.1 = .valueError ↔
        (inside d m ops cs).done = (inside d m ops cs).accepted.length) ∧
    ((call (inside d m ops cs) .taskDone).2.1 = .unit ↔
        (inside d m ops cs).done < (inside d m ops cs).accepted.length) := by
  have h2 := multi_unfinished_eq d m ops cs
  generalize inside d m ops cs = s at *
  simp only [call, taskDone]
  by_cases hz : s.unfinished = 0
  · simp [hz]; omega
  · simp only [hz, if_false]
    constructor
    · constructor
      · intro h; split at h <;> simp at h
      · intro h; omega
    · constructor
      · intro _; omega
      · intro _; split <;> rfl

/-- at any point of an iteration `join` completes at once iff every accepted put has been matched -/
theorem multi_join_iff (d : Disc) (m : Nat) (ops : List Op2) (cs : List Call) (dl : Option Nat) :
    ((call (inside d m ops cs) (.join dl)).2.2 = [((inside d m ops cs).futs.length, .result 0)] ↔
        (inside d m ops cs).done = (inside d m ops cs).accepted.length) ∧
    ((call (inside d m ops cs) (.join dl)).2.2 = [] ↔
        (inside d m ops cs).done ≠ (inside d m ops cs).accepted.length) := by
  have h1 := multi_finished_iff d m ops cs
  have h2 := multi_unfinished_eq d m ops cs
  generalize inside d m ops cs = s at *
  simp only [call]
  unfold join
  by_cases hf : s.finished = true
  · have : s.unfinished = 0 := h1.mp hf
    simp [hf]; omega
  · have hne : s.unfinished ≠ 0 := fun e => hf (h1.mpr e)
    simp [hf]; omega

/-- a join pending when the unfinished count reaches zero *for the second time in one iteration* is woken once and
stays woken: the witness of the seeded change (`Event.set` must skip a waiter it has already resolved) -/
example : (run2 (init .fifo 2) [.prim (.putNowait 1), .prim (.join none),
      .multi [.taskDone, .putNowait 1, .taskDone], .prim .taskDone]).2.map Out2.view =
    [([.unit], []), ([.unit], []), ([.unit, .unit, .unit], [(0, .result 0)]), ([.valueError], [])] := by decide

/-- refinement for histories with compound ops: the results of all calls and the resolutions of every op are those
of the sequential queue, where a compound op is the same calls one after the other with no expiry in between -/
theorem multi_refines_spec (d : Disc) (m : Nat) (ops : List Op2) :
    (run2 (init d m) ops).2.map Out2.view = (Spec.run2 (Spec.init d m) ops).2 := by
  obtain ⟨its, _, h⟩ := run2_sim (bd_init d m) ops
  rw [absF_init] at h
  rw [h]

theorem multi_refines_spec_state (d : Disc) (m : Nat) (ops : List Op2) :
    ∃ its, (Spec.run2 (Spec.init d m) ops).1 = absF (after2 d m ops) its := by
  obtain ⟨its, _, h⟩ := run2_sim (bd_init d m) ops
  rw [absF_init] at h
  exact ⟨its, by rw [h]⟩

end TornadoModel.C35
