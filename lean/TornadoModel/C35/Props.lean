import TornadoModel.C35.Spec
namespace TornadoModel.C35

end TornadoModel.C35
