/-
C35 — the specification: a sequential bounded queue with FIFO wait lists.

State: the accepted-and-undelivered items *in acceptance order*, the live blocked getters and putters in
arrival order (nothing dead is ever kept), the count of unfinished tasks, the pending joins, deadlines, clock.
  take      : FIFO = the oldest item, LIFO = the newest item, priority = a minimal item
  put       : a blocked getter (oldest first) receives the item at once; else the item is accepted if there is
              room; else the putter blocks (put) or QueueFull is raised (put_nowait)
  get       : the oldest blocked putter's item is accepted first (room is being made for it), then `take`;
              an empty queue blocks the getter (get) or raises QueueEmpty (get_nowait)
  timeout / cancel : the waiter leaves its list; nothing else changes
  task_done : ValueError when nothing is unfinished; reaching zero completes every pending join
  join      : completes at once iff nothing is unfinished
-/
import TornadoModel.C35.Model
namespace TornadoModel.C35.Spec
open TornadoModel.C33 (FState Ev Timer dueTimers minTimer)
open TornadoModel.C35

structure St where
  disc : Disc
  maxsize : Nat
  items : List Nat
  getq : List Nat
  putq : List (Nat × Nat)
  next : Nat
  unfinished : Nat
  joinw : List Nat
  timers : List Timer
  now : Nat
  deriving Repr, DecidableEq

def init (d : Disc) (m : Nat) : St :=
  { disc := d, maxsize := m, items := [], getq := [], putq := [], next := 0, unfinished := 0, joinw := [],
    timers := [], now := 0 }

structure Out where
  res : Res
  evs : List Ev
  deriving Repr, DecidableEq

def minOf : List Nat → Option Nat
  | [] => none
  | x :: xs => match minOf xs with | none => some x | some m => some (if m < x then m else x)

/-- the item the discipline delivers next, and what stays -/
def take : Disc → List Nat → Option (Nat × List Nat)
  | .fifo, q => match q with | [] => none | x :: r => some (x, r)
  | .lifo, q => match q.getLast? with | none => none | some x => some (x, q.dropLast)
  | .prio, q => match minOf q with | none => none | some m => some (m, q.erase m)

def isFull (s : St) : Bool := s.maxsize != 0 && s.items.length ≥ s.maxsize

def waiting (s : St) (w : Nat) : Bool :=
  s.getq.contains w || s.putq.any (·.2 == w) || s.joinw.contains w

def drop (s : St) (w : Nat) : St :=
  { s with getq := s.getq.filter (· ≠ w), putq := s.putq.filter (·.2 ≠ w), joinw := s.joinw.filter (· ≠ w),
           timers := s.timers.filter (fun t => t.2 ≠ w) }

def expireList (s : St) : List Timer → St × List Ev
  | [] => (s, [])
  | t :: ts =>
    if waiting s t.2 then
      let (s2, e2) := expireList (drop s t.2) ts
      (s2, (t.2, .timeout) :: e2)
    else expireList s ts

def expire (s : St) : St × List Ev :=
  let (s1, e) := expireList s (dueTimers s.now s.timers)
  ({ s1 with timers := s1.timers.filter (fun t => ¬ (t.1 ≤ s1.now)) }, e)

def accept (s : St) (x : Nat) : St := { s with items := s.items ++ [x], unfinished := s.unfinished + 1 }

inductive PN where | ok (s : St) (e : List Ev) | full
inductive GN where | ok (s : St) (x : Nat) (e : List Ev) | empty

def putNowait (s : St) (x : Nat) : PN :=
  match s.getq with
  | g :: _ =>
    let s1 := accept s x
    match take s1.disc s1.items with
    | some (y, rest) => .ok (drop { s1 with items := rest } g) [(g, .result y)]
    | none => .full
  | [] => if isFull s then .full else .ok (accept s x) []

def getNowait (s : St) : GN :=
  match s.putq with
  | (x, p) :: _ =>
    let s1 := accept (drop s p) x
    match take s1.disc s1.items with
    | some (y, rest) => .ok { s1 with items := rest } y [(p, .result 0)]
    | none => .empty
  | [] =>
    match take s.disc s.items with
    | some (y, rest) => .ok { s with items := rest } y []
    | none => .empty

def addTimer (s : St) (d : Option Nat) (w : Nat) : St :=
  match d with | some d => { s with timers := s.timers ++ [(d, w)] } | none => s

def put (s : St) (x : Nat) (d : Option Nat) : St × List Ev :=
  let w := s.next
  match putNowait s x with
  | .ok s1 e => ({ s1 with next := w + 1 }, e ++ [(w, .result 0)])
  | .full => (addTimer { s with putq := s.putq ++ [(x, w)], next := w + 1 } d w, [])

def get (s : St) (d : Option Nat) : St × List Ev :=
  let w := s.next
  match getNowait s with
  | .ok s1 y e => ({ s1 with next := w + 1 }, e ++ [(w, .result y)])
  | .empty => (addTimer { s with getq := s.getq ++ [w], next := w + 1 } d w, [])

def taskDone (s : St) : St × Res × List Ev :=
  if s.unfinished = 0 then (s, .valueError, [])
  else if s.unfinished = 1 then
    ({ s with unfinished := 0, joinw := [], timers := s.timers.filter (fun t => ¬ s.joinw.contains t.2) },
     .unit, s.joinw.map (fun w => (w, .result 0)))
  else ({ s with unfinished := s.unfinished - 1 }, .unit, [])

def join (s : St) (d : Option Nat) : St × List Ev :=
  let w := s.next
  if s.unfinished = 0 then ({ s with next := w + 1 }, [(w, .result 0)])
  else (addTimer { s with joinw := s.joinw ++ [w], next := w + 1 } d w, [])

def cancel (s : St) (w : Nat) : St × List Ev × Bool :=
  if waiting s w then (drop s w, [(w, .cancelled)], true) else (s, [], false)

def advance (s : St) : St × Option Nat :=
  match minTimer s.timers with
  | none => (s, none)
  | some t => ({ s with now := max s.now t.1 }, some t.1)

def step (s : St) : Op → St × Out
  | .put x d =>
    let (s1, e1) := put s x d
    let (s2, e2) := expire s1
    (s2, ⟨.unit, e1 ++ e2⟩)
  | .putNowait x =>
    match putNowait s x with
    | .ok s1 e1 => let (s2, e2) := expire s1; (s2, ⟨.unit, e1 ++ e2⟩)
    | .full => (s, ⟨.full, []⟩)
  | .get d =>
    let (s1, e1) := get s d
    let (s2, e2) := expire s1
    (s2, ⟨.unit, e1 ++ e2⟩)
  | .getNowait =>
    match getNowait s with
    | .ok s1 y e1 => let (s2, e2) := expire s1; (s2, ⟨.val y, e1 ++ e2⟩)
    | .empty => (s, ⟨.empty, []⟩)
  | .taskDone =>
    let (s1, r, e1) := taskDone s
    (s1, ⟨r, sortEvs e1⟩)
  | .join d =>
    let (s1, e1) := join s d
    let (s2, e2) := expire s1
    (s2, ⟨.unit, e1 ++ e2⟩)
  | .fire =>
    let (s1, d) := advance s
    let (s2, e2) := expire s1
    (s2, ⟨.fired d, e2⟩)
  | .cancel w =>
    let (s1, e1, b) := cancel s w
    (s1, ⟨.bool b, e1⟩)
  | .racePutNowait x =>
    let (s0, _) := advance s
    match putNowait s0 x with
    | .ok s1 e1 => let (s2, e2) := expire s1; (s2, ⟨.unit, e1 ++ e2⟩)
    | .full => let (s2, e2) := expire s0; (s2, ⟨.full, e2⟩)
  | .raceGetNowait =>
    let (s0, _) := advance s
    match getNowait s0 with
    | .ok s1 y e1 => let (s2, e2) := expire s1; (s2, ⟨.val y, e1 ++ e2⟩)
    | .empty => let (s2, e2) := expire s0; (s2, ⟨.empty, e2⟩)
  | .raceTaskDone =>
    let (s0, _) := advance s
    let (s1, e1) := expire s0           -- a join whose deadline is reached was not completed before it
    let (s2, r, e2) := taskDone s1
    (s2, ⟨r, sortEvs (e1 ++ e2)⟩)
  | .raceCancel w =>
    let (s0, _) := advance s
    let (s1, e1, b) := cancel s0 w
    let (s2, e2) := expire s1
    (s2, ⟨.bool b, e1 ++ e2⟩)

def run (s : St) : List Op → St × List Out
  | [] => (s, [])
  | op :: ops =>
    let (s1, o) := step s op
    let (s2, os) := run s1 ops
    (s2, o :: os)

end TornadoModel.C35.Spec
