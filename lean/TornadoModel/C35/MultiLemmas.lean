/-
C35 — compound ops (`Multi.lean`): the queue invariant holds after every call *inside* a loop iteration, and the
forward simulation Model → Spec extends to compound ops.

Every per-call lemma of `Lemmas.lean` / `Refine2–3.lean` is about the call effect alone (no drain) and only needs
`Inv` / `Rel` — not the boundary invariant `Bd` — so the calls of one iteration chain; the single drain at the end
is `settle_sim` / `bd_settle`.
-/
import TornadoModel.C35.Refine5
import TornadoModel.C35.Multi
namespace TornadoModel.C35
open TornadoModel.C33 (FState Ev Timer isPend dueTimers minTimer)

/-! ### invariant -/

theorem call_good {s : St} (h : Inv s) (c : Call) : Inv (call s c).1 ∧ (call s c).2.1 ≠ .assertion := by
  cases c with
  | put x d => exact put_good h x d
  | putNowait x =>
    have hg := putNowait_good h x
    simp only [call]
    cases hpn : putNowait s x with
    | ok s1 e => rw [hpn] at hg; exact ⟨hg.1, by simp⟩
    | full s1 => rw [hpn] at hg; exact ⟨hg.1, by simp⟩
    | assertion s1 => rw [hpn] at hg; simp only [PNgood] at hg
  | get d => exact get_good h d
  | getNowait =>
    have hg := getNowait_good h
    simp only [call]
    cases hgn : getNowait s with
    | ok s1 y e => rw [hgn] at hg; exact ⟨hg.1, by simp⟩
    | empty s1 => rw [hgn] at hg; exact ⟨hg.1, by simp⟩
    | assertion s1 => rw [hgn] at hg; simp only [GNgood] at hg
  | taskDone =>
    refine ⟨inv_taskDone h [], ?_⟩
    simp only [call, taskDone]
    split
    · simp
    · split <;> simp
  | join d => exact ⟨inv_join h d, by simp [call]⟩
  | cancel w => exact ⟨inv_shrinks h (shrinks_cancel s w), by simp [call]⟩

/-- the states between the calls of a compound op -/
def mids (s : St) : List Call → List St
  | [] => []
  | c :: cs => (call s c).1 :: mids (call s c).1 cs

theorem calls_good {s : St} (h : Inv s) (cs : List Call) :
    Inv (calls s cs).1 ∧ (∀ o ∈ (calls s cs).2.1, o.res ≠ .assertion) ∧ (∀ t ∈ mids s cs, Inv t) := by
  induction cs generalizing s with
  | nil => exact ⟨h, by simp [calls], by simp [mids]⟩
  | cons c cs ih =>
    have h1 := call_good h c
    have h2 := ih h1.1
    refine ⟨by simpa only [calls] using h2.1, ?_, ?_⟩
    · intro o ho
      simp only [calls, List.mem_cons] at ho
      rcases ho with rfl | ho
      · simpa [mkOut] using h1.2
      · exact h2.2.1 o ho
    · intro t ht
      simp only [mids, List.mem_cons] at ht
      rcases ht with rfl | ht
      · exact h1.1
      · exact h2.2.2 t ht

/-- the observers reported for the j-th call are those of the j-th intermediate state -/
theorem calls_obs (s : St) (cs : List Call) :
    (calls s cs).2.1.map (·.qsize) = (mids s cs).map (·.items.length) := by
  induction cs generalizing s with
  | nil => rfl
  | cons c cs ih => simp only [calls, mids, List.map_cons, mkOut, ih]

theorem stepMulti_inv {s : St} (h : Inv s) (cs : List Call) : Inv (stepMulti s cs).1 := by
  simp only [stepMulti]
  exact inv_shrinks (calls_good h cs).1 (shrinks_settle _)

def Out2.noAssertion : Out2 → Prop
  | .prim o => o.res ≠ .assertion
  | .multi o => ∀ c ∈ o.calls, c.res ≠ .assertion

theorem step2_good {s : St} (h : Inv s) (op : Op2) : Inv (step2 s op).1 ∧ (step2 s op).2.noAssertion := by
  cases op with
  | prim op => exact ⟨(step_good h op).1, (step_good h op).2⟩
  | multi cs => exact ⟨stepMulti_inv h cs, (calls_good h cs).2.1⟩

theorem inv_run2 {s : St} (h : Inv s) (ops : List Op2) : Inv (run2 s ops).1 := by
  induction ops generalizing s with
  | nil => exact h
  | cons op ops ih => simp only [run2]; exact ih (step2_good h op).1

theorem run2_no_assertion {s : St} (h : Inv s) (ops : List Op2) : ∀ o ∈ (run2 s ops).2, o.noAssertion := by
  induction ops generalizing s with
  | nil => simp [run2]
  | cons op ops ih =>
    simp only [run2]
    intro o ho
    rcases List.mem_cons.mp ho with rfl | ho
    · exact (step2_good h op).2
    · exact ih (step2_good h op).1 o ho

/-- histories without compound ops are the histories of `Model.run`: every theorem about `run` is a theorem
about this sub-language of `run2` -/
theorem run2_prim (s : St) (ops : List Op) :
    run2 s (ops.map .prim) = ((run s ops).1, (run s ops).2.map .prim) := by
  induction ops generalizing s with
  | nil => rfl
  | cons op ops ih => simp only [List.map_cons, run2, step2, run, ih]

theorem Spec.run2_prim (s : Spec.St) (ops : List Op) :
    Spec.run2 s (ops.map .prim) = ((Spec.run s ops).1, (Spec.run s ops).2.map (fun o => ([o.res], o.evs))) := by
  induction ops generalizing s with
  | nil => rfl
  | cons op ops ih => simp only [List.map_cons, Spec.run2, Spec.step2, Spec.run, ih]

/-! ### forward simulation -/

theorem call_sim {s : St} {its : List Nat} (h : Rel s its) (c : Call) :
    ∃ its1, Rel (call s c).1 its1 ∧
      Spec.call (absF s its) c = (absF (call s c).1 its1, (call s c).2.1, (call s c).2.2) := by
  cases c with
  | put x d =>
    obtain ⟨its1, hrel, hsp, hres⟩ := put_sim h x d
    refine ⟨its1, hrel, ?_⟩
    simp only [Spec.call, call, hsp, ← hres]
  | putNowait x =>
    have hps := putNowait_sim h x
    simp only [call, Spec.call]
    cases hpn : putNowait s x with
    | ok s1 e =>
      rw [hpn] at hps
      obtain ⟨its1, hrel, hsp, _⟩ := hps
      exact ⟨its1, hrel, by simp only [hsp]⟩
    | full s1 =>
      rw [hpn] at hps
      obtain ⟨hrel, hsp, habs, _⟩ := hps
      exact ⟨its, hrel, by simp only [hsp, habs]⟩
    | assertion s1 => rw [hpn] at hps; exact absurd hps (by simp [PNsim])
  | get d =>
    obtain ⟨its1, hrel, hsp, hres⟩ := get_sim h d
    refine ⟨its1, hrel, ?_⟩
    simp only [Spec.call, call, hsp, ← hres]
  | getNowait =>
    have hps := getNowait_sim h
    simp only [call, Spec.call]
    cases hgn : getNowait s with
    | ok s1 y e =>
      rw [hgn] at hps
      obtain ⟨its1, hrel, hsp, _⟩ := hps
      exact ⟨its1, hrel, by simp only [hsp]⟩
    | empty s1 =>
      rw [hgn] at hps
      obtain ⟨hrel, hsp, habs, _⟩ := hps
      exact ⟨its, hrel, by simp only [hsp, habs]⟩
    | assertion s1 => rw [hgn] at hps; exact absurd hps (by simp [GNsim])
  | taskDone =>
    obtain ⟨hrel, hsp⟩ := taskDone_sim h
    exact ⟨its, hrel, by simp only [Spec.call, call, hsp]⟩
  | join d =>
    obtain ⟨hrel, hsp⟩ := join_sim h d
    exact ⟨its, hrel, by simp only [Spec.call, call, hsp]⟩
  | cancel w =>
    exact ⟨its, rel_cancel h w, by simp only [Spec.call, call, cancel_sim h.inv2 its w]⟩

theorem calls_sim {s : St} {its : List Nat} (h : Rel s its) (cs : List Call) :
    ∃ its1, Rel (calls s cs).1 its1 ∧
      Spec.calls (absF s its) cs
        = (absF (calls s cs).1 its1, (calls s cs).2.1.map (·.res), (calls s cs).2.2) := by
  induction cs generalizing s its with
  | nil => exact ⟨its, h, rfl⟩
  | cons c cs ih =>
    obtain ⟨its1, hrel1, h1⟩ := call_sim h c
    obtain ⟨its2, hrel2, h2⟩ := ih hrel1
    refine ⟨its2, by simpa only [calls] using hrel2, ?_⟩
    simp only [Spec.calls, calls, h1, h2, List.map_cons, mkOut]

theorem stepMulti_sim {s : St} {its : List Nat} (h : Rel s its) (cs : List Call) :
    ∃ its', Bd (stepMulti s cs).1 its' ∧
      Spec.stepMulti (absF s its) cs
        = (absF (stepMulti s cs).1 its', (stepMulti s cs).2.calls.map (·.res), (stepMulti s cs).2.evs) := by
  obtain ⟨its1, hrel, hsp⟩ := calls_sim h cs
  refine ⟨its1, by simpa only [stepMulti] using bd_settle hrel, ?_⟩
  simp only [Spec.stepMulti, stepMulti, hsp, settle_sim hrel.inv2 its1]

theorem step2_sim {s : St} {its : List Nat} (h : Bd s its) (op : Op2) :
    ∃ its', Bd (step2 s op).1 its' ∧
      Spec.step2 (absF s its) op = (absF (step2 s op).1 its', (step2 s op).2.view) := by
  cases op with
  | prim op =>
    obtain ⟨its', hbd, hst⟩ := step_sim h op
    exact ⟨its', hbd, by simp only [Spec.step2, step2, hst, Out2.view]⟩
  | multi cs =>
    obtain ⟨its', hbd, hst⟩ := stepMulti_sim h.rel cs
    exact ⟨its', hbd, by simp only [Spec.step2, step2, hst, Out2.view]⟩

theorem run2_sim {s : St} {its : List Nat} (h : Bd s its) (ops : List Op2) :
    ∃ its', Bd (run2 s ops).1 its' ∧
      Spec.run2 (absF s its) ops = (absF (run2 s ops).1 its', (run2 s ops).2.map Out2.view) := by
  induction ops generalizing s its with
  | nil => exact ⟨its, h, rfl⟩
  | cons op ops ih =>
    obtain ⟨its1, hbd, hst⟩ := step2_sim h op
    obtain ⟨its2, hbd2, hst2⟩ := ih hbd
    exact ⟨its2, hbd2, by simp only [run2, Spec.run2, hst, hst2, List.map_cons]⟩

end TornadoModel.C35
