/-
C35 — forward simulation Model → Spec, part 4: `task_done` racing the timers.

The model completes the joins first (`finSet … raced`: the raced joiners get `TimeoutError`, the others their
result) and then lets the remaining due timers fire; the Spec expires every due waiter first and completes the
remaining joins afterwards.  Both produce the same *set* of resolutions with pairwise distinct future ids, and
the outputs are compared after `sortEvs` (sorted by future id), which only depends on that set.
-/
import TornadoModel.C35.Refine3
namespace TornadoModel.C35
open TornadoModel.C33 (FState Ev Timer isPend dueTimers minTimer isPend_set isPend_set_ne isPend_set_self
  isPend_lt isPend_append_lt isPend_append_self isPend_append isPend_set_eq isPend_append_dead dueTimers_filter
  filter_drop filter_dropT mem_dueTimers)

/-! ### `sortEvs` only depends on the set of events (distinct ids) -/

theorem insNat_eq_insSorted (x : Nat) (l : List Nat) : insNat x l = insSorted x l := by
  induction l with
  | nil => rfl
  | cons y ys ih => simp only [insNat, insSorted, ih]

theorem foldl_insNat_perm (l acc : List Nat) : (l.foldl (fun acc x => insNat x acc) acc).Perm (l ++ acc) := by
  induction l generalizing acc with
  | nil => exact List.Perm.refl _
  | cons a l ih =>
    rw [List.foldl_cons]
    refine (ih (insNat a acc)).trans ?_
    have h1 : (insNat a acc).Perm (a :: acc) := by rw [insNat_eq_insSorted]; exact insSorted_perm a acc
    exact (List.Perm.append_left l h1).trans List.perm_middle

theorem sortNat_perm (l : List Nat) : (sortNat l).Perm l := by
  have := foldl_insNat_perm l []
  simpa [sortNat] using this

theorem foldl_insNat_le (l acc : List Nat) (h : acc.Pairwise (· ≤ ·)) :
    (l.foldl (fun acc x => insNat x acc) acc).Pairwise (· ≤ ·) := by
  induction l generalizing acc with
  | nil => exact h
  | cons a l ih =>
    rw [List.foldl_cons]
    apply ih
    rw [insNat_eq_insSorted]
    exact insSorted_sorted a acc h

theorem sortNat_le (l : List Nat) : (sortNat l).Pairwise (· ≤ ·) := foldl_insNat_le l [] (by simp)

theorem sorted_perm_eq {l1 l2 : List Nat} (h1 : l1.Pairwise (· ≤ ·)) (h2 : l2.Pairwise (· ≤ ·))
    (hp : l1.Perm l2) : l1 = l2 := by
  induction l1 generalizing l2 with
  | nil => exact (hp.symm.eq_nil).symm
  | cons a t1 ih =>
    cases l2 with
    | nil => exact absurd hp.eq_nil (by simp)
    | cons b t2 =>
      have ha : a ∈ b :: t2 := hp.subset (by simp)
      have hb : b ∈ a :: t1 := hp.symm.subset (by simp)
      have hab : a ≤ b := by
        rcases List.mem_cons.mp hb with rfl | hb
        · exact Nat.le_refl _
        · exact List.rel_of_pairwise_cons h1 hb
      have hba : b ≤ a := by
        rcases List.mem_cons.mp ha with rfl | ha
        · exact Nat.le_refl _
        · exact List.rel_of_pairwise_cons h2 ha
      have : a = b := by omega
      subst this
      rw [ih h1.of_cons h2.of_cons (List.Perm.cons_inv hp)]

theorem sortNat_congr {l1 l2 : List Nat} (h : l1.Perm l2) : sortNat l1 = sortNat l2 :=
  sorted_perm_eq (sortNat_le _) (sortNat_le _) ((sortNat_perm l1).trans (h.trans (sortNat_perm l2).symm))

theorem find_of_mem {e : List Ev} (hn : (e.map (·.1)).Nodup) {i : Nat} {v : FState} (hm : (i, v) ∈ e) :
    e.find? (fun x => x.1 == i) = some (i, v) := by
  induction e with
  | nil => simp at hm
  | cons a e ih =>
    simp only [List.map_cons, List.nodup_cons] at hn
    rw [List.find?_cons]
    by_cases hai : a.1 = i
    · have : a = (i, v) := by
        rcases List.mem_cons.mp hm with h | h
        · exact h.symm
        · exact absurd (List.mem_map.mpr ⟨(i, v), h, rfl⟩) (hai ▸ hn.1)
      subst this
      simp
    · have hne : (i, v) ≠ a := fun e' => hai (by rw [← e'])
      have hm' : (i, v) ∈ e := by
        rcases List.mem_cons.mp hm with h | h
        · exact absurd h hne
        · exact h
      have hb : (a.1 == i) = false := by simpa using hai
      simp only [hb]
      exact ih hn.2 hm'

theorem find_none {e : List Ev} {i : Nat} (h : i ∉ e.map (·.1)) : e.find? (fun x => x.1 == i) = none := by
  rw [List.find?_eq_none]
  intro x hx
  simp only [beq_iff_eq]
  intro hxi
  exact h (List.mem_map.mpr ⟨x, hx, hxi⟩)

theorem sortEvs_congr {e1 e2 : List Ev} (h1 : (e1.map (·.1)).Nodup) (h2 : (e2.map (·.1)).Nodup)
    (hm : ∀ x, x ∈ e1 ↔ x ∈ e2) : sortEvs e1 = sortEvs e2 := by
  have hids : ∀ i, i ∈ e1.map (·.1) ↔ i ∈ e2.map (·.1) := by
    intro i
    simp only [List.mem_map]
    constructor
    · rintro ⟨x, hx, rfl⟩; exact ⟨x, (hm x).mp hx, rfl⟩
    · rintro ⟨x, hx, rfl⟩; exact ⟨x, (hm x).mpr hx, rfl⟩
  have hperm : (e1.map (·.1)).Perm (e2.map (·.1)) := (List.perm_ext_iff_of_nodup h1 h2).mpr hids
  have hfind : ∀ i, e1.find? (fun x => x.1 == i) = e2.find? (fun x => x.1 == i) := by
    intro i
    by_cases hi : i ∈ e1.map (·.1)
    · obtain ⟨x, hx, rfl⟩ := List.mem_map.mp hi
      have hx1 : (x.1, x.2) ∈ e1 := hx
      have hx2 : (x.1, x.2) ∈ e2 := (hm x).mp hx
      rw [find_of_mem h1 hx1, find_of_mem h2 hx2]
    · rw [find_none hi, find_none (fun h => hi ((hids i).mpr h))]
  unfold sortEvs
  rw [sortNat_congr hperm]
  congr 1
  funext i
  exact hfind i

theorem mem_map_pair {l : List Nat} {v : FState} {x : Ev} :
    x ∈ l.map (fun w => (w, v)) ↔ x.1 ∈ l ∧ x.2 = v := by
  simp only [List.mem_map]
  constructor
  · rintro ⟨w, hw, rfl⟩; exact ⟨hw, rfl⟩
  · rintro ⟨hw, hv⟩; exact ⟨x.1, hw, by rw [← hv]⟩

theorem map_pair_ids (l : List Nat) (v : FState) : (l.map (fun w => (w, v))).map (·.1) = l := by
  induction l with
  | nil => rfl
  | cons a l ih => simp only [List.map_cons, ih]

/-! ### what the firing of a list of timers does -/

theorem onTimeout_pos {s : St} {w : Nat} (h : isPend s.futs w = true) :
    onTimeout s w = ({ s with futs := s.futs.set w .timeout }, [(w, .timeout)]) := by
  unfold onTimeout; rw [if_pos h]

theorem onTimeout_neg {s : St} {w : Nat} (h : ¬ isPend s.futs w = true) : onTimeout s w = (s, []) := by
  unfold onTimeout; rw [if_neg h]

theorem fireList_frame (s : St) (ts : List Timer) : ∃ f, (fireList s ts).1 = { s with futs := f } := by
  induction ts generalizing s with
  | nil => exact ⟨s.futs, rfl⟩
  | cons t ts ih =>
    simp only [fireList]
    by_cases hp : isPend s.futs t.2 = true
    · rw [onTimeout_pos hp]
      obtain ⟨f, hf⟩ := ih { s with futs := s.futs.set t.2 .timeout }
      exact ⟨f, by rw [hf]⟩
    · rw [onTimeout_neg hp]
      exact ih s

theorem fireList_pend (s : St) (ts : List Timer) (w : Nat) :
    isPend (fireList s ts).1.futs w = (isPend s.futs w && !(ts.any (fun t => t.2 == w))) := by
  induction ts generalizing s with
  | nil => simp [fireList]
  | cons t ts ih =>
    simp only [fireList]
    by_cases hp : isPend s.futs t.2 = true
    · rw [onTimeout_pos hp, ih, isPend_set_eq (by simp)]
      by_cases hw : w = t.2
      · subst hw; simp
      · have hb : (t.2 == w) = false := by simpa using fun e : t.2 = w => hw e.symm
        simp [hw, hb]
    · rw [onTimeout_neg hp, ih]
      by_cases hw : w = t.2
      · subst hw
        have : isPend s.futs t.2 = false := by simpa using hp
        simp [this]
      · have hb : (t.2 == w) = false := by simpa using fun e : t.2 = w => hw e.symm
        simp [hb]

theorem fireList_evs_mem (s : St) (ts : List Timer) (x : Ev) :
    x ∈ (fireList s ts).2 ↔ x.2 = .timeout ∧ isPend s.futs x.1 = true ∧ ∃ t ∈ ts, t.2 = x.1 := by
  induction ts generalizing s with
  | nil => simp [fireList]
  | cons t ts ih =>
    simp only [fireList]
    by_cases hp : isPend s.futs t.2 = true
    · rw [onTimeout_pos hp]
      simp only [List.mem_append, List.mem_singleton, ih]
      constructor
      · rintro (rfl | ⟨h1, h2, t', ht', e⟩)
        · exact ⟨rfl, hp, t, by simp, rfl⟩
        · exact ⟨h1, (isPend_set (by simp) h2).1, t', List.mem_cons_of_mem _ ht', e⟩
      · rintro ⟨h1, h2, t', ht', e⟩
        by_cases hx : x.1 = t.2
        · left
          exact Prod.ext hx h1
        · right
          refine ⟨h1, by rw [isPend_set_ne hx]; exact h2, ?_⟩
          rcases List.mem_cons.mp ht' with rfl | ht'
          · exact absurd e.symm hx
          · exact ⟨t', ht', e⟩
    · rw [onTimeout_neg hp]
      simp only [List.nil_append, ih]
      constructor
      · rintro ⟨h1, h2, t', ht', e⟩
        exact ⟨h1, h2, t', List.mem_cons_of_mem _ ht', e⟩
      · rintro ⟨h1, h2, t', ht', e⟩
        refine ⟨h1, h2, ?_⟩
        rcases List.mem_cons.mp ht' with rfl | ht'
        · rw [e] at hp; exact absurd h2 hp
        · exact ⟨t', ht', e⟩

theorem fireList_evs_nodup (s : St) (ts : List Timer) : ((fireList s ts).2.map (·.1)).Nodup := by
  induction ts generalizing s with
  | nil => simp [fireList]
  | cons t ts ih =>
    simp only [fireList]
    by_cases hp : isPend s.futs t.2 = true
    · rw [onTimeout_pos hp]
      simp only [List.singleton_append, List.map_cons, List.nodup_cons]
      refine ⟨?_, ih _⟩
      intro hm
      obtain ⟨x, hx, hx1⟩ := List.mem_map.mp hm
      have := ((fireList_evs_mem _ ts x).mp hx).2.1
      simp only at hx1 this
      rw [hx1, isPend_set_self (by simp)] at this
      simp at this
    · rw [onTimeout_neg hp]
      simpa using ih s

theorem dueAny (s : St) (w : Nat) :
    (dueTimers s.now s.timers).any (fun t => t.2 == w) = (dueIds s).contains w := by
  rw [Bool.eq_iff_iff]
  simp only [List.any_eq_true, beq_iff_eq, List.contains_iff_mem, dueIds, List.mem_map, List.mem_filter,
    decide_eq_true_eq, mem_dueTimers]

theorem mem_dueIds (s : St) (w : Nat) : w ∈ dueIds s ↔ ∃ t ∈ dueTimers s.now s.timers, t.2 = w := by
  simp only [dueIds, List.mem_map, List.mem_filter, decide_eq_true_eq, mem_dueTimers]

/-- explicit form of the racing drain -/
theorem settleRace_explicit (s : St) : ∃ f, f.length = s.futs.length ∧
    (∀ w, isPend f w = (isPend s.futs w && !(dueIds s).contains w)) ∧
    (settleRace s).1 = { s with futs := f, joiners := s.joiners.filter (isPend f),
                                timers := (s.timers.filter (fun t => decide ¬ (t.1 ≤ s.now))).filter
                                  (fun t => isPend f t.2) } ∧
    (settleRace s).2 = (fireList s (dueTimers s.now s.timers)).2 := by
  obtain ⟨f, hf⟩ := fireList_frame s (dueTimers s.now s.timers)
  have hff : (fireList s (dueTimers s.now s.timers)).1.futs = f := by rw [hf]
  refine ⟨f, ?_, ?_, ?_, ?_⟩
  · rw [← hff]; exact (shrinks_fireList s _).len
  · intro w; rw [← hff, fireList_pend, dueAny]
  · simp only [settleRace, fireDue, purge, hf]
  · simp only [settleRace, fireDue]

/-! ### `task_done` does not care about the order with the drain unless it completes the joins -/

theorem fireList_unf (s : St) (a b : Nat) (ts : List Timer) :
    fireList { s with unfinished := a, done := b } ts
      = ({ (fireList s ts).1 with unfinished := a, done := b }, (fireList s ts).2) := by
  induction ts generalizing s with
  | nil => rfl
  | cons t ts ih =>
    simp only [fireList]
    by_cases hp : isPend s.futs t.2 = true
    · rw [onTimeout_pos hp, onTimeout_pos (s := { s with unfinished := a, done := b }) hp]
      have := ih { s with futs := s.futs.set t.2 .timeout }
      simp only at this ⊢
      rw [this]
    · rw [onTimeout_neg hp, onTimeout_neg (s := { s with unfinished := a, done := b }) hp]
      have := ih s
      simp only at this ⊢
      rw [this]

theorem settleRace_unf (s : St) (a b : Nat) :
    settleRace { s with unfinished := a, done := b }
      = ({ (settleRace s).1 with unfinished := a, done := b }, (settleRace s).2) := by
  simp only [settleRace, fireDue, fireList_unf, purge]

theorem finSet_core (s : St) (R : List Nat) : (finSet s R).1.disc = s.disc ∧ (finSet s R).1.items = s.items := by
  unfold finSet; split <;> exact ⟨rfl, rfl⟩

theorem taskDone_core (s : St) (R : List Nat) :
    (taskDone s R).1.disc = s.disc ∧ (taskDone s R).1.items = s.items := by
  unfold taskDone
  by_cases h0 : s.unfinished = 0
  · rw [if_pos h0]; exact ⟨rfl, rfl⟩
  · rw [if_neg h0]
    by_cases h1 : s.unfinished - 1 = 0
    · simp only [h1, if_true]; exact finSet_core _ R
    · simp only [h1, if_false]; trivial

theorem inv2_finSet {s : St} (h2 : Inv2 s) (R : List Nat) : Inv2 (finSet s R).1 := by
  unfold finSet
  split
  · exact h2
  · refine inv2_same h2 rfl rfl rfl (by simp [resolveAll_length]) (fun _ ht => ht) ?_
    intro w hw
    exact (resolveAll_mono (by simp) (resolveAll_mono (by simp) hw).1).1

theorem rel_taskDone {s : St} {its : List Nat} (h : Rel s its) (R : List Nat) : Rel (taskDone s R).1 its := by
  refine ⟨inv_taskDone h.inv R, ?_, ?_⟩
  · unfold taskDone
    by_cases h0 : s.unfinished = 0
    · rw [if_pos h0]; exact h.inv2
    · rw [if_neg h0]
      by_cases h1 : s.unfinished - 1 = 0
      · simp only [h1, if_true]
        exact inv2_finSet (s := { s with unfinished := 0, done := s.done + 1 })
          (inv2_same h.inv2 rfl rfl rfl rfl (fun _ ht => ht) (fun _ hw => hw)) R
      · simp only [h1, if_false]
        exact inv2_same h.inv2 rfl rfl rfl rfl (fun _ ht => ht) (fun _ hw => hw)
  · have := taskDone_core s R
    rw [this.1, this.2]
    exact h.items

/-! ### explicit results of `task_done` -/

theorem taskDone_zero {s : St} (h0 : s.unfinished = 0) (R : List Nat) : taskDone s R = (s, .valueError, []) := by
  unfold taskDone; rw [if_pos h0]

theorem taskDone_many {s : St} (h0 : ¬ s.unfinished = 0) (h1 : ¬ s.unfinished = 1) (R : List Nat) :
    taskDone s R = ({ s with unfinished := s.unfinished - 1, done := s.done + 1 }, .unit, []) := by
  unfold taskDone
  have h1' : ¬ (s.unfinished - 1 = 0) := by omega
  rw [if_neg h0]; simp only [h1', if_false]

/-- joiners whose timer is due -/
def JR (s : St) : List Nat := s.joiners.filter (fun x => (dueIds s).contains x)
def f1 (s : St) : List FState := (resolveAll s.futs .timeout (JR s)).1
def f2 (s : St) : List FState := (resolveAll (f1 s) (.result 0) s.joiners).1
/-- the model state after a `task_done` that reached zero while racing the timers -/
def Mst (s : St) : St := { s with unfinished := 0, done := s.done + 1, finished := true, futs := f2 s }
def evA (s : St) : List Ev :=
  ((JR s).filter (isPend s.futs)).map (fun w => (w, FState.timeout)) ++
    (s.joiners.filter (isPend (f1 s))).map (fun w => (w, FState.result 0))
/-- the state after a plain `task_done` that reached zero -/
def Tst (b : St) : St :=
  { b with unfinished := 0, done := b.done + 1, finished := true,
           futs := (resolveAll b.futs (.result 0) b.joiners).1 }

theorem taskDone_one_race {s : St} (h1 : s.unfinished = 1) (hfin : s.finished = false) (h2 : Inv2 s) :
    taskDone s (dueIds s) = (Mst s, .unit, evA s) := by
  unfold taskDone
  have h0 : ¬ s.unfinished = 0 := by omega
  have h1' : s.unfinished - 1 = 0 := by omega
  rw [if_neg h0]
  simp only [h1', if_true]
  unfold finSet
  simp only [hfin, Bool.false_eq_true, if_false, sortNat_sorted h2.jsorted,
    resolveAll_evs (nodup_of_sorted h2.jsorted),
    resolveAll_evs ((nodup_of_sorted h2.jsorted).filter (fun x => (dueIds s).contains x))]
  rfl

theorem taskDone_one_plain {b : St} (h1 : b.unfinished = 1) (hfin : b.finished = false) (h2 : Inv2 b) :
    taskDone b [] = (Tst b, .unit, (b.joiners.filter (isPend b.futs)).map (fun w => (w, FState.result 0))) := by
  unfold taskDone
  have h0 : ¬ b.unfinished = 0 := by omega
  have h1' : b.unfinished - 1 = 0 := by omega
  have h2' : Inv2 { b with unfinished := 0, done := b.done + 1 } :=
    inv2_same h2 rfl rfl rfl rfl (fun _ ht => ht) (fun _ hw => hw)
  rw [if_neg h0]
  simp only [h1', if_true]
  rw [finSet_plain (s := { b with unfinished := 0, done := b.done + 1 }) hfin h2']
  rfl

theorem contains_filter (l : List Nat) (q : Nat → Bool) (w : Nat) :
    (l.filter q).contains w = (l.contains w && q w) := by
  rw [Bool.eq_iff_iff]
  simp [List.mem_filter]

theorem pend_f1 (s : St) (w : Nat) :
    isPend (f1 s) w = (isPend s.futs w && !(s.joiners.contains w && (dueIds s).contains w)) := by
  unfold f1 JR
  rw [resolveAll_pend (by simp), contains_filter]

theorem pend_f2 (s : St) (w : Nat) : isPend (f2 s) w = (isPend s.futs w && !s.joiners.contains w) := by
  unfold f2
  rw [resolveAll_pend (by simp), pend_f1]
  cases isPend s.futs w <;> cases s.joiners.contains w <;> cases (dueIds s).contains w <;> rfl

theorem pend_T (b : St) (w : Nat) : isPend (Tst b).futs w = (isPend b.futs w && !b.joiners.contains w) := by
  unfold Tst
  exact resolveAll_pend (by simp) _ _

theorem f2_length (s : St) : (f2 s).length = s.futs.length := by
  unfold f2 f1; rw [resolveAll_length, resolveAll_length]

/-! ### the race that completes the joins -/

theorem core_settleRace (s : St) :
    (settleRace s).1.unfinished = s.unfinished ∧ (settleRace s).1.finished = s.finished ∧
      (settleRace s).1.done = s.done := by
  have hc := (shrinks_settleRace s).same
  simp only [core, Prod.mk.injEq] at hc
  exact ⟨hc.2.2.2.2.2.1, hc.2.2.2.2.2.2.1, hc.2.2.2.2.2.2.2.2.2⟩

theorem raceTD_one {s : St} {its : List Nat} (h : Rel s its) (h1 : s.unfinished = 1) :
    absF (taskDone (settleRace s).1 []).1 its = absF (settleRace (taskDone s (dueIds s)).1).1 its ∧
    (taskDone (settleRace s).1 []).2.1 = (taskDone s (dueIds s)).2.1 ∧
    sortEvs ((settleRace s).2 ++ (taskDone (settleRace s).1 []).2.2)
      = sortEvs ((taskDone s (dueIds s)).2.2 ++ (settleRace (taskDone s (dueIds s)).1).2) := by
  have hfin : s.finished = false := by rw [h.inv.fin]; simp [h1]
  have h2 := h.inv2
  have hcB := core_settleRace s
  have h2B : Inv2 (settleRace s).1 := inv2_settleRace h2
  rw [taskDone_one_race h1 hfin h2,
    taskDone_one_plain (hcB.1.trans h1) (hcB.2.1.trans hfin) h2B]
  simp only
  obtain ⟨fB, hBlen, hBp, hBeq, hBev⟩ := settleRace_explicit s
  obtain ⟨fA, hAlen, hAp, hAeq, hAev⟩ := settleRace_explicit (Mst s)
  have hAp' : ∀ w, isPend fA w = ((isPend s.futs w && !s.joiners.contains w) && !(dueIds s).contains w) := by
    intro w; rw [hAp, ← pend_f2]; rfl
  rw [hBev, hAev, hAeq, hBeq]
  -- pending-ness in the state after the plain `task_done`
  have hTp : ∀ w, isPend (resolveAll fB (FState.result 0) (s.joiners.filter (isPend fB))).1 w
      = ((isPend s.futs w && !(dueIds s).contains w) &&
          !(s.joiners.contains w && (isPend s.futs w && !(dueIds s).contains w))) := by
    intro w; rw [resolveAll_pend (by simp), contains_filter, hBp]
  refine ⟨?_, by first | trivial | rfl, ?_⟩
  · -- the abstract states agree
    simp only [absF, Tst, Mst, resolveAll_length, hBlen, hAlen, f2_length, Spec.St.mk.injEq, true_and, and_true,
      List.filter_filter]
    refine ⟨?_, ?_, ?_, ?_⟩
    · apply List.filter_congr
      intro g hg
      have hj : s.joiners.contains g = false := by simpa using h2.gj g hg
      rw [hTp, hAp', hj]
      cases isPend s.futs g <;> cases (dueIds s).contains g <;> rfl
    · apply List.filter_congr
      intro q hq
      have hj : s.joiners.contains q.2 = false := by simpa using h2.pj q hq
      rw [hTp, hAp', hj]
      cases isPend s.futs q.2 <;> cases (dueIds s).contains q.2 <;> rfl
    · apply List.filter_congr
      intro j hj'
      have hj : s.joiners.contains j = true := by simpa using hj'
      rw [hTp, hAp', hBp, hj]
      cases isPend s.futs j <;> cases (dueIds s).contains j <;> rfl
    · apply List.filter_congr
      intro t _
      rw [hTp, hAp', hBp]
      cases isPend s.futs t.2 <;> cases (dueIds s).contains t.2 <;> cases s.joiners.contains t.2 <;> rfl
  · -- the same set of resolutions, distinct ids
    have hdue : ∀ w, (∃ t ∈ dueTimers s.now s.timers, t.2 = w) ↔ (dueIds s).contains w = true := by
      intro w; rw [← mem_dueIds]; simp
    apply sortEvs_congr
    · rw [List.map_append, map_pair_ids, List.nodup_append]
      refine ⟨fireList_evs_nodup _ _, ((nodup_of_sorted h2.jsorted).filter _).filter _, ?_⟩
      intro a ha b hb
      obtain ⟨x, hx, rfl⟩ := List.mem_map.mp ha
      have hxd := ((fireList_evs_mem _ _ x).mp hx).2.2
      rw [hdue] at hxd
      have hbp := (List.mem_filter.mp hb).2
      rw [hBp] at hbp
      intro e
      rw [← e, hxd] at hbp
      simp at hbp
    · unfold evA
      rw [List.map_append, List.map_append, map_pair_ids, map_pair_ids, List.nodup_append, List.nodup_append]
      refine ⟨⟨((nodup_of_sorted h2.jsorted).filter _).filter _, (nodup_of_sorted h2.jsorted).filter _, ?_⟩,
        fireList_evs_nodup _ _, ?_⟩
      · intro a ha b hb
        have ha' := (List.mem_filter.mp (List.mem_filter.mp ha).1)
        have hbp := (List.mem_filter.mp hb).2
        rw [pend_f1] at hbp
        intro e
        have hja : s.joiners.contains a = true := by simpa using ha'.1
        rw [← e, hja, ha'.2] at hbp
        simp at hbp
      · intro a ha b hb
        have haj : s.joiners.contains a = true := by
          rcases List.mem_append.mp ha with ha | ha
          · have := (List.mem_filter.mp (List.mem_filter.mp ha).1).1; simpa using this
          · have := (List.mem_filter.mp ha).1; simpa using this
        obtain ⟨x, hx, rfl⟩ := List.mem_map.mp hb
        have hxp := ((fireList_evs_mem _ _ x).mp hx).2.1
        have hxp' : isPend (f2 s) x.1 = true := hxp
        rw [pend_f2] at hxp'
        intro e
        rw [← e, haj] at hxp'
        simp at hxp'
    · intro x
      unfold evA
      simp only [List.mem_append, fireList_evs_mem, mem_map_pair, List.mem_filter, JR, hdue]
      have hM : isPend (Mst s).futs x.1 = (isPend s.futs x.1 && !s.joiners.contains x.1) := pend_f2 s x.1
      have hMn : dueTimers (Mst s).now (Mst s).timers = dueTimers s.now s.timers := rfl
      rw [hMn, hdue, hM, hBp, pend_f1]
      have hjm : x.1 ∈ s.joiners ↔ s.joiners.contains x.1 = true := by simp
      rw [hjm]
      cases isPend s.futs x.1 <;> cases (dueIds s).contains x.1 <;> cases s.joiners.contains x.1 <;> simp

theorem raceTD_key {s : St} {its : List Nat} (h : Rel s its) :
    absF (taskDone (settleRace s).1 []).1 its = absF (settleRace (taskDone s (dueIds s)).1).1 its ∧
    (taskDone (settleRace s).1 []).2.1 = (taskDone s (dueIds s)).2.1 ∧
    sortEvs ((settleRace s).2 ++ (taskDone (settleRace s).1 []).2.2)
      = sortEvs ((taskDone s (dueIds s)).2.2 ++ (settleRace (taskDone s (dueIds s)).1).2) := by
  have hcB := core_settleRace s
  by_cases h0 : s.unfinished = 0
  · rw [taskDone_zero h0, taskDone_zero (hcB.1.trans h0)]
    simp
  · by_cases h1 : s.unfinished = 1
    · exact raceTD_one h h1
    · rw [taskDone_many h0 h1, taskDone_many (by rw [hcB.1]; exact h0) (by rw [hcB.1]; exact h1)]
      simp only [settleRace_unf, hcB.1, hcB.2.2, List.append_nil, List.nil_append]
      exact ⟨by first | trivial | rfl, by first | trivial | rfl, by first | trivial | rfl⟩

theorem raceTaskDone_sim {s : St} {its : List Nat} (h : Rel s its) :
    ∃ e2', Rel (settleRace (taskDone s (dueIds s)).1).1 its ∧
      Spec.taskDone (Spec.expire (absF s its)).1
        = (absF (settleRace (taskDone s (dueIds s)).1).1 its, (taskDone s (dueIds s)).2.1, e2') ∧
      sortEvs ((Spec.expire (absF s its)).2 ++ e2')
        = sortEvs ((taskDone s (dueIds s)).2.2 ++ (settleRace (taskDone s (dueIds s)).1).2) := by
  have hrelB := rel_settleRace h
  have hexp := settleRace_sim h.inv2 its
  have htdB := (taskDone_sim hrelB).2
  obtain ⟨k1, k2, k3⟩ := raceTD_key h
  refine ⟨(taskDone (settleRace s).1 []).2.2, rel_settleRace (rel_taskDone h _), ?_, ?_⟩
  · rw [hexp]
    simp only
    rw [htdB, k1, k2]
  · rw [hexp]
    exact k3

end TornadoModel.C35
