/- C35 driver: `C35 run <disc> <maxsize> [op,…]` (Model), `C35 spec <disc> <maxsize> [op,…]` (Spec).
An op is a primitive op of `Model.lean` or `[multi,[call,…]]` (`Multi.lean`: the calls of one loop iteration). -/
import TornadoModel.Base.Wire
import TornadoModel.C33.Drv
import TornadoModel.C35.Multi
namespace TornadoModel.C35.Drv
open TornadoModel TornadoModel.Wire TornadoModel.C35
open TornadoModel.C33.Drv (encF encEv decDeadline)

def decOp (v : V) : Option Op := do
  let l ← v.list?
  match l with
  | [.atom "put", x, d] => pure (.put (← x.nat?) (← decDeadline d))
  | [.atom "putNowait", x] => pure (.putNowait (← x.nat?))
  | [.atom "get", d] => pure (.get (← decDeadline d))
  | [.atom "getNowait"] => pure .getNowait
  | [.atom "taskDone"] => pure .taskDone
  | [.atom "join", d] => pure (.join (← decDeadline d))
  | [.atom "fire"] => pure .fire
  | [.atom "cancel", w] => pure (.cancel (← w.nat?))
  | [.atom "racePutNowait", x] => pure (.racePutNowait (← x.nat?))
  | [.atom "raceGetNowait"] => pure .raceGetNowait
  | [.atom "raceTaskDone"] => pure .raceTaskDone
  | [.atom "raceCancel", w] => pure (.raceCancel (← w.nat?))
  | _ => none

def decCall (v : V) : Option Call := do
  let l ← v.list?
  match l with
  | [.atom "put", x, d] => pure (.put (← x.nat?) (← decDeadline d))
  | [.atom "putNowait", x] => pure (.putNowait (← x.nat?))
  | [.atom "get", d] => pure (.get (← decDeadline d))
  | [.atom "getNowait"] => pure .getNowait
  | [.atom "taskDone"] => pure .taskDone
  | [.atom "join", d] => pure (.join (← decDeadline d))
  | [.atom "cancel", w] => pure (.cancel (← w.nat?))
  | _ => none

def decOp2 (v : V) : Option Op2 :=
  match v with
  | .list [.atom "multi", cs] => (cs.list? >>= (·.mapM decCall)).map .multi
  | _ => (decOp v).map .prim

def decDisc (v : V) : Option Disc :=
  match v with
  | .atom "fifo" => some .fifo
  | .atom "lifo" => some .lifo
  | .atom "prio" => some .prio
  | _ => none

def encRes : Res → V
  | .unit => .atom "U"
  | .full => .atom "QueueFull"
  | .empty => .atom "QueueEmpty"
  | .valueError => .atom "ValueError"
  | .assertion => .atom "Uncaught:AssertionError"
  | .val x => .list [.atom "V", .int x]
  | .bool b => V.ofBool b
  | .fired d => V.ofOpt (fun n => V.int (Int.ofNat n)) d

def encOut (o : Out) : V :=
  .list [encRes o.res, .list (o.evs.map encEv), .int o.qsize, .int o.ngetters, .int o.nputters,
         .int o.unfinished, .int o.njoiners, .int o.ntimers]

def encSpecOut (o : Spec.Out) : V := .list [encRes o.res, .list (o.evs.map encEv)]

/-- per call of a compound op: result and the observers right after the call -/
def encCallOut (o : Out) : V :=
  .list [encRes o.res, .int o.qsize, .int o.ngetters, .int o.nputters, .int o.unfinished, .int o.njoiners,
         .int o.ntimers]

def encOut2 : Out2 → V
  | .prim o => encOut o
  | .multi o =>
    .list [.list (.atom "M" :: o.calls.map encCallOut), .list (o.evs.map encEv), .int o.qsize, .int o.ngetters,
           .int o.nputters, .int o.unfinished, .int o.njoiners, .int o.ntimers]

/-- Spec side: a primitive op answers `[res, evs]`, a compound op `[[M, res…], evs]` -/
def encSpecOut2 (op : Op2) (o : List Res × List TornadoModel.C33.Ev) : V :=
  match op, o.1 with
  | .prim _, [r] => .list [encRes r, .list (o.2.map encEv)]
  | _, rs => .list [.list (.atom "M" :: rs.map encRes), .list (o.2.map encEv)]

def handle (toks : List String) : String :=
  match toks.mapM V.parse with
  | none => err "bad-arg"
  | some args =>
    match args with
    | [.atom "run", d, m, ops] =>
      match decDisc d, m.nat?, ops.list? >>= (·.mapM decOp2) with
      | some d, some m, some ops =>
        let (s, outs) := run2 (init d m) ops
        ok [.list (outs.map encOut2), .list (s.futs.map encF),
            .list (s.accepted.map (fun n => V.int (Int.ofNat n))), .list (s.delivered.map (fun n => V.int (Int.ofNat n))),
            .int s.done]
      | _, _, _ => err "bad-op"
    | [.atom "spec", d, m, ops] =>
      match decDisc d, m.nat?, ops.list? >>= (·.mapM decOp2) with
      | some d, some m, some ops =>
        ok [.list (List.zipWith encSpecOut2 ops (Spec.run2 (Spec.init d m) ops).2)]
      | _, _, _ => err "bad-op"
    | _ => err "bad-cmd"

end TornadoModel.C35.Drv
