/-
C35 — forward simulation Model → Spec, part 5: one step, whole histories.

Boundary invariant `Bd s its`: `Rel` (queue invariant `Inv`, wait-list bookkeeping `Inv2`, container relation),
`TInv` (every scheduled timer belongs to a pending future) and `SNotDue` (no live deadline is reached) — the last
two hold after every drain and are what makes the Spec's steps without `expire` (`task_done`, `cancel`, a refused
`put_nowait` / `get_nowait`) agree with the model, which always drains.
-/
import TornadoModel.C35.Refine4
namespace TornadoModel.C35
open TornadoModel.C33 (FState Ev Timer isPend dueTimers minTimer)

structure Bd (s : St) (its : List Nat) : Prop where
  rel : Rel s its
  tinv : TInv s
  nd : SNotDue (absF s its)

theorem bd_settle {s : St} {its : List Nat} (h : Rel s its) : Bd (settle s).1 its := by
  refine ⟨rel_settle h, TInv_settle s, ?_⟩
  have e : absF (settle s).1 its = (Spec.expire (absF s its)).1 := by rw [settle_sim h.inv2 its]
  rw [e]; exact snotDue_expire _

theorem bd_settleRace {s : St} {its : List Nat} (h : Rel s its) : Bd (settleRace s).1 its := by
  refine ⟨rel_settleRace h, TInv_settleRace s, ?_⟩
  have e : absF (settleRace s).1 its = (Spec.expire (absF s its)).1 := by rw [settleRace_sim h.inv2 its]
  rw [e]; exact snotDue_expire _

/-- with no live deadline reached the drain is invisible -/
theorem settle_quiet {s : St} {its : List Nat} (h : Rel s its) (hn : SNotDue (absF s its)) :
    absF (settle s).1 its = absF s its ∧ (settle s).2 = [] := by
  have := settle_sim h.inv2 its
  rw [expire_notDue hn] at this
  simp only [Prod.mk.injEq] at this
  exact ⟨this.1.symm, this.2.symm⟩

theorem snotDue_drop {sp : Spec.St} (h : SNotDue sp) (w : Nat) : SNotDue (Spec.drop sp w) := by
  intro t ht
  simp only [Spec.drop, List.mem_filter] at ht
  exact h t ht.1

theorem snotDue_cancel {sp : Spec.St} (h : SNotDue sp) (w : Nat) : SNotDue (Spec.cancel sp w).1 := by
  unfold Spec.cancel; split
  · exact snotDue_drop h w
  · exact h

theorem snotDue_taskDone {sp : Spec.St} (h : SNotDue sp) : SNotDue (Spec.taskDone sp).1 := by
  unfold Spec.taskDone; split
  · exact h
  · split
    · intro t ht
      simp only [List.mem_filter] at ht
      exact h t ht.1
    · exact h

theorem step_sim {s : St} {its : List Nat} (h : Bd s its) (op : Op) :
    ∃ its', Bd (step s op).1 its' ∧
      Spec.step (absF s its) op = (absF (step s op).1 its', ⟨(step s op).2.res, (step s op).2.evs⟩) := by
  cases op with
  | put x d =>
    have hps := put_sim h.rel x d
    rcases hp : put s x d with ⟨s1, r, e1⟩
    rw [hp] at hps
    obtain ⟨its1, hrel, hsp, hres⟩ := hps
    simp only at hrel hsp hres
    subst hres
    refine ⟨its1, ?_, ?_⟩
    · simp only [step, hp]; exact bd_settle hrel
    · simp only [step, Spec.step, hp, hsp, settle_sim hrel.inv2 its1, mkOut]
      try rfl
  | putNowait x =>
    have hps := putNowait_sim h.rel x
    cases hpn : putNowait s x with
    | ok s1 e1 =>
      rw [hpn] at hps
      obtain ⟨its1, hrel, hsp, _⟩ := hps
      refine ⟨its1, ?_, ?_⟩
      · simp only [step, hpn]; exact bd_settle hrel
      · simp only [step, Spec.step, hpn, hsp, settle_sim hrel.inv2 its1, mkOut]
        try rfl
    | full s1 =>
      rw [hpn] at hps
      obtain ⟨hrel, hsp, habs, _⟩ := hps
      have hq := settle_quiet hrel (by rw [habs]; exact h.nd)
      refine ⟨its, ?_, ?_⟩
      · simp only [step, hpn]; exact bd_settle hrel
      · simp only [step, Spec.step, hpn, hsp, mkOut]
        show (absF s its, (⟨.full, []⟩ : Spec.Out)) = (absF (settle s1).1 its, ⟨.full, (settle s1).2⟩)
        rw [hq.1, hq.2, habs]
    | assertion s1 => rw [hpn] at hps; exact absurd hps (by simp [PNsim])
  | get d =>
    have hps := get_sim h.rel d
    rcases hp : get s d with ⟨s1, r, e1⟩
    rw [hp] at hps
    obtain ⟨its1, hrel, hsp, hres⟩ := hps
    simp only at hrel hsp hres
    subst hres
    refine ⟨its1, ?_, ?_⟩
    · simp only [step, hp]; exact bd_settle hrel
    · simp only [step, Spec.step, hp, hsp, settle_sim hrel.inv2 its1, mkOut]
      try rfl
  | getNowait =>
    have hps := getNowait_sim h.rel
    cases hgn : getNowait s with
    | ok s1 y e1 =>
      rw [hgn] at hps
      obtain ⟨its1, hrel, hsp, _⟩ := hps
      refine ⟨its1, ?_, ?_⟩
      · simp only [step, hgn]; exact bd_settle hrel
      · simp only [step, Spec.step, hgn, hsp, settle_sim hrel.inv2 its1, mkOut]
        try rfl
    | empty s1 =>
      rw [hgn] at hps
      obtain ⟨hrel, hsp, habs, _⟩ := hps
      have hq := settle_quiet hrel (by rw [habs]; exact h.nd)
      refine ⟨its, ?_, ?_⟩
      · simp only [step, hgn]; exact bd_settle hrel
      · simp only [step, Spec.step, hgn, hsp, mkOut]
        show (absF s its, (⟨.empty, []⟩ : Spec.Out)) = (absF (settle s1).1 its, ⟨.empty, (settle s1).2⟩)
        rw [hq.1, hq.2, habs]
    | assertion s1 => rw [hgn] at hps; exact absurd hps (by simp [GNsim])
  | taskDone =>
    have hps := taskDone_sim h.rel
    rcases htd : taskDone s [] with ⟨s1, r, e1⟩
    rw [htd] at hps
    obtain ⟨hrel, hsp⟩ := hps
    simp only at hrel hsp
    have hnd : SNotDue (absF s1 its) := by
      have := snotDue_taskDone h.nd; rw [hsp] at this; exact this
    have hq := settle_quiet hrel hnd
    refine ⟨its, ?_, ?_⟩
    · simp only [step, htd]; exact bd_settle hrel
    · simp only [step, Spec.step, htd, hsp, mkOut]
      show (absF s1 its, (⟨r, sortEvs e1⟩ : Spec.Out))
        = (absF (settle s1).1 its, ⟨r, sortEvs (e1 ++ (settle s1).2)⟩)
      rw [hq.1, hq.2, List.append_nil]
  | join d =>
    obtain ⟨hrel, hsp⟩ := join_sim h.rel d
    refine ⟨its, bd_settle hrel, ?_⟩
    simp only [step, Spec.step, hsp, settle_sim hrel.inv2 its, mkOut]
    try rfl
  | fire =>
    have ha := advance_sim h.tinv its
    have hrel := rel_advance h.rel
    refine ⟨its, bd_settle hrel, ?_⟩
    simp only [step, Spec.step, ha, settle_sim hrel.inv2 its, mkOut]
    try rfl
  | cancel w =>
    have hc := cancel_sim h.rel.inv2 its w
    have hrel := rel_cancel h.rel w
    have hnd : SNotDue (absF (cancel s w).1 its) := by
      have := snotDue_cancel h.nd w; rw [hc] at this; exact this
    have hq := settle_quiet hrel hnd
    refine ⟨its, bd_settle hrel, ?_⟩
    simp only [step, Spec.step, hc, mkOut]
    show (absF (cancel s w).1 its, (⟨.bool (cancel s w).2.2, (cancel s w).2.1⟩ : Spec.Out))
      = (absF (settle (cancel s w).1).1 its, ⟨.bool (cancel s w).2.2, (cancel s w).2.1 ++ (settle (cancel s w).1).2⟩)
    rw [hq.1, hq.2, List.append_nil]
  | racePutNowait x =>
    have ha := advance_sim h.tinv its
    have hrel0 := rel_advance h.rel
    have hps := putNowait_sim hrel0 x
    cases hpn : putNowait (advance s).1 x with
    | ok s1 e1 =>
      rw [hpn] at hps
      obtain ⟨its1, hrel, hsp, _⟩ := hps
      refine ⟨its1, ?_, ?_⟩
      · simp only [step, hpn]; exact bd_settleRace hrel
      · simp only [step, Spec.step, ha, hpn, hsp, settleRace_sim hrel.inv2 its1, mkOut]
        try rfl
    | full s1 =>
      rw [hpn] at hps
      obtain ⟨hrel, hsp, habs, _⟩ := hps
      refine ⟨its, ?_, ?_⟩
      · simp only [step, hpn]; exact bd_settleRace hrel
      · rw [← habs] at hsp
        simp only [step, Spec.step, ha, hpn, ← habs, hsp, settleRace_sim hrel.inv2 its, mkOut]
        try rfl
    | assertion s1 => rw [hpn] at hps; exact absurd hps (by simp [PNsim])
  | raceGetNowait =>
    have ha := advance_sim h.tinv its
    have hrel0 := rel_advance h.rel
    have hps := getNowait_sim hrel0
    cases hgn : getNowait (advance s).1 with
    | ok s1 y e1 =>
      rw [hgn] at hps
      obtain ⟨its1, hrel, hsp, _⟩ := hps
      refine ⟨its1, ?_, ?_⟩
      · simp only [step, hgn]; exact bd_settleRace hrel
      · simp only [step, Spec.step, ha, hgn, hsp, settleRace_sim hrel.inv2 its1, mkOut]
        try rfl
    | empty s1 =>
      rw [hgn] at hps
      obtain ⟨hrel, hsp, habs, _⟩ := hps
      refine ⟨its, ?_, ?_⟩
      · simp only [step, hgn]; exact bd_settleRace hrel
      · rw [← habs] at hsp
        simp only [step, Spec.step, ha, hgn, ← habs, hsp, settleRace_sim hrel.inv2 its, mkOut]
        try rfl
    | assertion s1 => rw [hgn] at hps; exact absurd hps (by simp [GNsim])
  | raceTaskDone =>
    have ha := advance_sim h.tinv its
    have hrel0 := rel_advance h.rel
    obtain ⟨e2', hrel, hsp, hev⟩ := raceTaskDone_sim hrel0
    refine ⟨its, ⟨hrel, TInv_settleRace _, ?_⟩, ?_⟩
    · have e : absF (settleRace (taskDone (advance s).1 (dueIds (advance s).1)).1).1 its
          = (Spec.taskDone (Spec.expire (absF (advance s).1 its)).1).1 := by rw [hsp]
      show SNotDue (absF (settleRace (taskDone (advance s).1 (dueIds (advance s).1)).1).1 its)
      rw [e]
      exact snotDue_taskDone (snotDue_expire _)
    · simp only [step, Spec.step, ha, mkOut]
      show ((Spec.taskDone (Spec.expire (absF (advance s).1 its)).1).1,
            (⟨(Spec.taskDone (Spec.expire (absF (advance s).1 its)).1).2.1,
              sortEvs ((Spec.expire (absF (advance s).1 its)).2 ++
                (Spec.taskDone (Spec.expire (absF (advance s).1 its)).1).2.2)⟩ : Spec.Out))
        = (absF (settleRace (taskDone (advance s).1 (dueIds (advance s).1)).1).1 its,
            ⟨(taskDone (advance s).1 (dueIds (advance s).1)).2.1,
             sortEvs ((taskDone (advance s).1 (dueIds (advance s).1)).2.2 ++
               (settleRace (taskDone (advance s).1 (dueIds (advance s).1)).1).2)⟩)
      rw [hsp]
      simp only [hev]
  | raceCancel w =>
    have ha := advance_sim h.tinv its
    have hrel0 := rel_advance h.rel
    have hc := cancel_sim hrel0.inv2 its w
    have hrel := rel_cancel hrel0 w
    refine ⟨its, bd_settleRace hrel, ?_⟩
    simp only [step, Spec.step, ha, hc, settleRace_sim hrel.inv2 its, mkOut]
    try rfl

theorem run_sim {s : St} {its : List Nat} (h : Bd s its) (ops : List Op) :
    (Spec.run (absF s its) ops).2.map (fun o => (o.res, o.evs)) = (run s ops).2.map (fun o => (o.res, o.evs)) := by
  induction ops generalizing s its with
  | nil => rfl
  | cons op ops ih =>
    obtain ⟨its', hbd, hst⟩ := step_sim h op
    simp only [run, Spec.run, hst, List.map_cons, ih hbd]

theorem run_sim_state {s : St} {its : List Nat} (h : Bd s its) (ops : List Op) :
    ∃ its', Bd (run s ops).1 its' ∧ (Spec.run (absF s its) ops).1 = absF (run s ops).1 its' := by
  induction ops generalizing s its with
  | nil => exact ⟨its, h, rfl⟩
  | cons op ops ih =>
    obtain ⟨its1, hbd, hst⟩ := step_sim h op
    obtain ⟨its2, hbd2, hst2⟩ := ih hbd
    refine ⟨its2, hbd2, ?_⟩
    simp only [run, Spec.run, hst, hst2]

theorem absF_init (d : Disc) (m : Nat) : absF (init d m) [] = Spec.init d m := by
  simp [absF, init, Spec.init]

theorem bd_init (d : Disc) (m : Nat) : Bd (init d m) [] := by
  refine ⟨⟨inv_init d m, inv2_init d m, itemsRel_nil _⟩, ?_, ?_⟩
  · intro t ht; simp [init] at ht
  · intro t ht; simp [absF, init] at ht

end TornadoModel.C35
