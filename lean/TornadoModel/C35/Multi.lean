/-
C35 — compound ops: several calls made back-to-back inside ONE event-loop iteration, then one drain.

`Model.step` is "one call + full drain".  Between two calls of the same loop iteration nothing of the drain has
happened yet: done-callbacks have not run, so `_finished._waiters` (`joiners`) still holds futures that were
already resolved, timer handles of resolved futures are still scheduled, and timers that are already due have not
fired.  The primitives of `Model.lean` (`put`, `putNowait`, `get`, `getNowait`, `taskDone`, `join`, `cancel`) are
the *call* effects alone, `settle` is the loop's part; a compound op is their plain sequential composition followed
by ONE `settle`:

    multi [c₁,…,cₙ]  =  call c₁ ; … ; call cₙ ; settle

Observed (and modelled) per call: its result and the observers right after it (`qsize`, `len(_getters)`,
`len(_putters)`, `_unfinished_tasks`, `len(_finished._waiters)` with its stale entries, scheduled timers with the
stale ones); after the drain: every future resolved during the op (sorted by id: `Event.set` iterates a set, and a
timed join's wrapper future lags its waiter by a loop iteration) and the observers.

This is the only way `Event.set` meets a waiter that is in `_waiters` but already done (`task_done` reaching zero,
a put, `task_done` reaching zero again, all before the done-callback removed the waiter): `resolveAll` skips it
(`if not fut.done()`).

The specification side (`Spec.call`, `Spec.stepMulti`) is the same composition over the sequential queue: the
calls one after the other, no waiter expires in between (no loop iteration passes), then `expire`.
-/
import TornadoModel.C35.Spec
namespace TornadoModel.C35
open TornadoModel.C33 (FState Ev Timer isPend dueTimers minTimer)

/-- a call the application can make in the middle of a loop iteration -/
inductive Call where
  | put (x : Nat) (deadline : Option Nat)
  | putNowait (x : Nat)
  | get (deadline : Option Nat)
  | getNowait
  | taskDone
  | join (deadline : Option Nat)
  | cancel (w : Nat)
  deriving Repr, DecidableEq

/-- the effect of the call alone (no loop iteration): new state, result, futures resolved synchronously -/
def call (s : St) : Call → St × Res × List Ev
  | .put x d => put s x d
  | .putNowait x =>
    match putNowait s x with
    | .ok s1 e => (s1, .unit, e)
    | .full s1 => (s1, .full, [])
    | .assertion s1 => (s1, .assertion, [])
  | .get d => get s d
  | .getNowait =>
    match getNowait s with
    | .ok s1 y e => (s1, .val y, e)
    | .empty s1 => (s1, .empty, [])
    | .assertion s1 => (s1, .assertion, [])
  | .taskDone => taskDone s []
  | .join d => let (s1, e) := join s d; (s1, .unit, e)
  | .cancel w => let (s1, e, b) := cancel s w; (s1, .bool b, e)

/-- sequential composition: per-call outputs (result + observers right after the call, `evs` left empty because
resolutions only become observable through done-callbacks) and all synchronous resolutions -/
def calls (s : St) : List Call → St × List Out × List Ev
  | [] => (s, [], [])
  | c :: cs =>
    let (s1, r, e1) := call s c
    let (s2, os, e2) := calls s1 cs
    (s2, mkOut s1 r [] :: os, e1 ++ e2)

structure MOut where
  calls : List Out          -- one per call
  evs : List Ev             -- every resolution of the op, sorted by future id
  qsize : Nat
  ngetters : Nat
  nputters : Nat
  unfinished : Nat
  njoiners : Nat
  ntimers : Nat
  deriving Repr, DecidableEq

def stepMulti (s : St) (cs : List Call) : St × MOut :=
  let (s1, os, e1) := calls s cs
  let (s2, e2) := settle s1
  (s2, { calls := os, evs := sortEvs (e1 ++ e2), qsize := s2.items.length, ngetters := s2.getters.length,
         nputters := s2.putters.length, unfinished := s2.unfinished, njoiners := s2.joiners.length,
         ntimers := s2.timers.length })

/-- ops of the extended history language: the primitive ops of `Model.lean` (unchanged) and compound ops -/
inductive Op2 where
  | prim (op : Op)
  | multi (cs : List Call)
  deriving Repr, DecidableEq

inductive Out2 where
  | prim (o : Out)
  | multi (o : MOut)
  deriving Repr, DecidableEq

def step2 (s : St) : Op2 → St × Out2
  | .prim op => let (s1, o) := step s op; (s1, .prim o)
  | .multi cs => let (s1, o) := stepMulti s cs; (s1, .multi o)

def run2 (s : St) : List Op2 → St × List Out2
  | [] => (s, [])
  | op :: ops =>
    let (s1, o) := step2 s op
    let (s2, os) := run2 s1 ops
    (s2, o :: os)

/-- what the specification speaks about: the results of the calls and the resolutions -/
def Out2.view : Out2 → List Res × List Ev
  | .prim o => ([o.res], o.evs)
  | .multi o => (o.calls.map (·.res), o.evs)

namespace Spec

def call (s : St) : Call → St × Res × List Ev
  | .put x d => let (s1, e) := put s x d; (s1, .unit, e)
  | .putNowait x =>
    match putNowait s x with
    | .ok s1 e => (s1, .unit, e)
    | .full => (s, .full, [])
  | .get d => let (s1, e) := get s d; (s1, .unit, e)
  | .getNowait =>
    match getNowait s with
    | .ok s1 y e => (s1, .val y, e)
    | .empty => (s, .empty, [])
  | .taskDone => taskDone s
  | .join d => let (s1, e) := join s d; (s1, .unit, e)
  | .cancel w => let (s1, e, b) := cancel s w; (s1, .bool b, e)

def calls (s : St) : List Call → St × List Res × List Ev
  | [] => (s, [], [])
  | c :: cs =>
    let (s1, r, e1) := call s c
    let (s2, rs, e2) := calls s1 cs
    (s2, r :: rs, e1 ++ e2)

/-- the calls one after the other — no waiter expires in between, no loop iteration passes — then the loop runs -/
def stepMulti (s : St) (cs : List Call) : St × List Res × List Ev :=
  let (s1, rs, e1) := calls s cs
  let (s2, e2) := expire s1
  (s2, rs, sortEvs (e1 ++ e2))

def step2 (s : St) : Op2 → St × List Res × List Ev
  | .prim op => let (s1, o) := step s op; (s1, [o.res], o.evs)
  | .multi cs => stepMulti s cs

def run2 (s : St) : List Op2 → St × List (List Res × List Ev)
  | [] => (s, [])
  | op :: ops =>
    let (s1, o) := step2 s op
    let (s2, os) := run2 s1 ops
    (s2, o :: os)

end Spec
end TornadoModel.C35
