/-
C35 — the ghost list `delivered` is exactly what get callers receive.

`delivered` (Model.lean) is a history variable appended wherever `_get` hands an item out.  Here it is tied to the
OUTPUT trace: `emitted op out` reads the items handed to get callers off one op's output —
  * `get`        : the value its own future is resolved with (the last `result` event of the op: a blocked putter's
                   future, if one was admitted, is resolved *before* it; drain events are timeouts only),
  * `get_nowait` : the returned value,
  * `put`        : the value a blocked getter's future is resolved with (every `result` event except the last one,
                   which is the put future's own `None`),
  * `put_nowait` : the value a blocked getter's future is resolved with (every `result` event),
  * all other ops hand nothing out (join futures resolve to `None` in `task_done`; never counted) —
and `step_deliver` proves, for EVERY state and op (no invariant needed: `_consume_expired` leaves a live getter at the
head, so `future_set_result_unless_cancelled` always emits), that the op appends to `delivered` exactly `emitted op out`.
-/
import TornadoModel.C35.Lemmas
namespace TornadoModel.C35
open TornadoModel.C33 (FState Ev Timer isPend dueTimers minTimer)

/-- the values of the `result` events of an event list, in order -/
def resultVals (e : List Ev) : List Nat :=
  e.filterMap (fun x => match x.2 with | .result v => some v | _ => none)

theorem resultVals_append (a b : List Ev) : resultVals (a ++ b) = resultVals a ++ resultVals b := by
  simp [resultVals, List.filterMap_append]

theorem resultVals_timeouts {e : List Ev} (h : ∀ x ∈ e, x.2 = .timeout) : resultVals e = [] := by
  induction e with
  | nil => rfl
  | cons x xs ih =>
    have hx : x.2 = .timeout := h x (by simp)
    have ih' := ih (fun y hy => h y (by simp [hy]))
    unfold resultVals at ih' ⊢
    simp only [List.filterMap_cons, hx]
    exact ih'

/-- the items handed to get callers by one op, read off its output -/
def emitted : Op → Out → List Nat
  | .put _ _, o => (resultVals o.evs).dropLast
  | .putNowait _, o => resultVals o.evs
  | .racePutNowait _, o => resultVals o.evs
  | .get _, o => match (resultVals o.evs).getLast? with | some y => [y] | none => []
  | .getNowait, o => match o.res with | .val y => [y] | _ => []
  | .raceGetNowait, o => match o.res with | .val y => [y] | _ => []
  | _, _ => []

def gotItems : List Op → List Out → List Nat
  | op :: ops, o :: os => emitted op o ++ gotItems ops os
  | _, _ => []

/-! ### the drain hands nothing out and emits timeouts only -/

theorem onTimeout_evs (s : St) (w : Nat) : ∀ e ∈ (onTimeout s w).2, e.2 = .timeout := by
  unfold onTimeout; split <;> simp
theorem onTimeout_delivered (s : St) (w : Nat) : (onTimeout s w).1.delivered = s.delivered := by
  unfold onTimeout; split <;> rfl

theorem fireList_evs (s : St) (ts : List Timer) : ∀ e ∈ (fireList s ts).2, e.2 = .timeout := by
  induction ts generalizing s with
  | nil => simp [fireList]
  | cons t ts ih =>
    simp only [fireList]
    intro e he
    rcases List.mem_append.mp he with he | he
    · exact onTimeout_evs s t.2 e he
    · exact ih _ e he
theorem fireList_delivered (s : St) (ts : List Timer) : (fireList s ts).1.delivered = s.delivered := by
  induction ts generalizing s with
  | nil => rfl
  | cons t ts ih => simp only [fireList]; rw [ih, onTimeout_delivered]

theorem fireDue_evs (s : St) : ∀ e ∈ (fireDue s).2, e.2 = .timeout := by
  unfold fireDue; exact fireList_evs _ _
theorem fireDue_delivered (s : St) : (fireDue s).1.delivered = s.delivered := by
  unfold fireDue; simp [fireList_delivered]

theorem settle_rv (s : St) : resultVals (settle s).2 = [] := by
  apply resultVals_timeouts; unfold settle; exact fireDue_evs _
theorem settle_delivered (s : St) : (settle s).1.delivered = s.delivered := by
  unfold settle; simp [purge, fireDue_delivered]
theorem settleRace_rv (s : St) : resultVals (settleRace s).2 = [] := by
  apply resultVals_timeouts; unfold settleRace; exact fireDue_evs _
theorem settleRace_delivered (s : St) : (settleRace s).1.delivered = s.delivered := by
  unfold settleRace; simp [purge, fireDue_delivered]

theorem advance_delivered (s : St) : (advance s).1.delivered = s.delivered := by
  unfold advance; split <;> rfl
theorem cancel_delivered (s : St) (w : Nat) : (cancel s w).1.delivered = s.delivered := by
  unfold cancel; split <;> rfl
theorem join_delivered (s : St) (d : Option Nat) : (join s d).1.delivered = s.delivered := by
  unfold join addTimer; split
  · rfl
  · split <;> rfl
theorem finSet_delivered (s : St) (r : List Nat) : (finSet s r).1.delivered = s.delivered := by
  unfold finSet; split <;> rfl
theorem taskDone_delivered (s : St) (r : List Nat) : (taskDone s r).1.delivered = s.delivered := by
  fun_cases taskDone s r
  · rfl
  · rename_i s2 e hf
    have h2 := congrArg (fun p : St × List Ev => p.1.delivered) hf
    simp only [finSet_delivered] at h2
    exact h2.symm
  · rfl

/-! ### put_nowait / get_nowait -/

theorem resultVals_single (w v : Nat) : resultVals [(w, FState.result v)] = [v] := rfl

theorem resolveUC_delivered (s : St) (w : Nat) (v : FState) : (resolveUC s w v).1.delivered = s.delivered := by
  unfold resolveUC; split <;> rfl

/-- `future_set_result_unless_cancelled` on a live future always emits the result -/
theorem resolveUC_live {s s2 : St} {g y : Nat} {e : List Ev} (hr : resolveUC s g (.result y) = (s2, e))
    (hp : isPend s.futs g = true) : s2.delivered = s.delivered ∧ resultVals e = [y] := by
  have hnc : (s.futs[g]? == some FState.cancelled) = false := by
    unfold isPend at hp
    have : s.futs[g]? = some FState.pending := by simpa using hp
    rw [this]; decide
  unfold resolveUC at hr
  rw [hnc] at hr
  simp at hr
  rw [← hr.1, ← hr.2]
  exact ⟨rfl, rfl⟩

/-- what `put_nowait` hands out: the item a live blocked getter receives, as a `result` event -/
theorem putNowait_deliver (s : St) (x : Nat) :
    match putNowait s x with
    | .ok s1 e => s1.delivered = s.delivered ++ resultVals e
    | .full s1 => s1.delivered = s.delivered
    | .assertion s1 => s1.delivered = s.delivered := by
  fun_cases putNowait s x
  · rfl
  · rfl
  · have hr := ‹resolveUC _ _ _ = _›
    have hg := ‹_ = _ :: _›
    have h := resolveUC_live hr (consume_getters_head (s := s) hg)
    show _ = s.delivered ++ resultVals _
    rw [h.1, h.2]
    rfl
  · rfl
  · exact (List.append_nil _).symm

/-- what `get_nowait` hands out is its return value -/
theorem getNowait_deliver (s : St) :
    match getNowait s with
    | .ok s1 y _ => s1.delivered = s.delivered ++ [y]
    | .empty s1 => s1.delivered = s.delivered
    | .assertion s1 => s1.delivered = s.delivered := by
  fun_cases getNowait s
  · rfl
  · have hr := ‹resolveUC _ _ _ = _›
    have h2 := congrArg (fun p : St × List Ev => p.1.delivered) hr
    simp only [resolveUC_delivered] at h2
    exact h2.symm
  · have hr := ‹resolveUC _ _ _ = _›
    have h2 := congrArg (fun p : St × List Ev => p.1.delivered) hr
    simp only [resolveUC_delivered] at h2
    show _ ++ [_] = s.delivered ++ [_]
    rw [← h2]
    rfl
  · rfl
  · rfl

/-! ### put / get -/

theorem put_deliver (s : St) (x : Nat) (d : Option Nat) :
    (put s x d).1.delivered = s.delivered ++ (resultVals (put s x d).2.2).dropLast := by
  have h := putNowait_deliver s x
  fun_cases put s x d
  · rename_i s1 e hpn
    rw [hpn] at h
    show s1.delivered = s.delivered ++ (resultVals (e ++ [(_, FState.result 0)])).dropLast
    rw [resultVals_append, resultVals_single, List.dropLast_concat]
    exact h
  · rename_i s1 hpn
    rw [hpn] at h
    have h' : s1.delivered = s.delivered := h
    show (addTimer _ d _).delivered = s.delivered ++ _
    unfold addTimer
    split
    · simpa [resultVals] using h'
    · simpa [resultVals] using h'
  · rename_i s1 hpn
    rw [hpn] at h
    have h' : s1.delivered = s.delivered := h
    simpa [resultVals] using h'

theorem get_deliver (s : St) (d : Option Nat) :
    (get s d).1.delivered = s.delivered ++
      (match (resultVals (get s d).2.2).getLast? with | some y => [y] | none => []) := by
  have h := getNowait_deliver s
  fun_cases get s d
  · rename_i s1 y e hgn
    rw [hgn] at h
    have h' : s1.delivered = s.delivered ++ [y] := h
    show s1.delivered = s.delivered ++
      (match (resultVals (e ++ [(_, FState.result y)])).getLast? with | some y => [y] | none => [])
    rw [resultVals_append, resultVals_single, List.getLast?_concat]
    exact h'
  · rename_i s1 hgn
    rw [hgn] at h
    have h' : s1.delivered = s.delivered := h
    show (addTimer _ d _).delivered = s.delivered ++ _
    unfold addTimer
    split
    · simpa [resultVals] using h'
    · simpa [resultVals] using h'
  · rename_i s1 hgn
    rw [hgn] at h
    have h' : s1.delivered = s.delivered := h
    simpa [resultVals] using h'

/-! ### every op appends to `delivered` exactly what its output hands to get callers -/

theorem step_deliver (s : St) (op : Op) :
    (step s op).1.delivered = s.delivered ++ emitted op (step s op).2 := by
  cases op with
  | put x d =>
    simp only [step, emitted, mkOut]
    rw [settle_delivered, resultVals_append, settle_rv, List.append_nil]
    exact put_deliver s x d
  | putNowait x =>
    have h := putNowait_deliver s x
    simp only [step]
    cases hpn : putNowait s x with
    | ok s1 e1 =>
      rw [hpn] at h
      simp only [emitted, mkOut]
      rw [settle_delivered, resultVals_append, settle_rv, List.append_nil]
      exact h
    | full s1 =>
      rw [hpn] at h
      simp only [emitted, mkOut]
      rw [settle_delivered, settle_rv, List.append_nil]
      exact h
    | assertion s1 =>
      rw [hpn] at h
      simp only [emitted, mkOut]
      rw [settle_delivered, settle_rv, List.append_nil]
      exact h
  | get d =>
    simp only [step, emitted, mkOut]
    rw [settle_delivered, resultVals_append, settle_rv, List.append_nil]
    exact get_deliver s d
  | getNowait =>
    have h := getNowait_deliver s
    simp only [step]
    cases hgn : getNowait s with
    | ok s1 y e1 =>
      rw [hgn] at h
      simp only [emitted, mkOut]
      rw [settle_delivered]
      exact h
    | empty s1 =>
      rw [hgn] at h
      simp only [emitted, mkOut]
      rw [settle_delivered, List.append_nil]
      exact h
    | assertion s1 =>
      rw [hgn] at h
      simp only [emitted, mkOut]
      rw [settle_delivered, List.append_nil]
      exact h
  | taskDone =>
    simp only [step, emitted, mkOut]
    rw [settle_delivered, taskDone_delivered, List.append_nil]
  | join d =>
    simp only [step, emitted, mkOut]
    rw [settle_delivered, join_delivered, List.append_nil]
  | fire =>
    simp only [step, emitted, mkOut]
    rw [settle_delivered, advance_delivered, List.append_nil]
  | cancel w =>
    simp only [step, emitted, mkOut]
    rw [settle_delivered, cancel_delivered, List.append_nil]
  | racePutNowait x =>
    have h := putNowait_deliver (advance s).1 x
    rw [advance_delivered] at h
    simp only [step]
    cases hpn : putNowait (advance s).1 x with
    | ok s1 e1 =>
      rw [hpn] at h
      simp only [emitted, mkOut]
      rw [settleRace_delivered, resultVals_append, settleRace_rv, List.append_nil]
      exact h
    | full s1 =>
      rw [hpn] at h
      simp only [emitted, mkOut]
      rw [settleRace_delivered, settleRace_rv, List.append_nil]
      exact h
    | assertion s1 =>
      rw [hpn] at h
      simp only [emitted, mkOut]
      rw [settleRace_delivered, settleRace_rv, List.append_nil]
      exact h
  | raceGetNowait =>
    have h := getNowait_deliver (advance s).1
    rw [advance_delivered] at h
    simp only [step]
    cases hgn : getNowait (advance s).1 with
    | ok s1 y e1 =>
      rw [hgn] at h
      simp only [emitted, mkOut]
      rw [settleRace_delivered]
      exact h
    | empty s1 =>
      rw [hgn] at h
      simp only [emitted, mkOut]
      rw [settleRace_delivered, List.append_nil]
      exact h
    | assertion s1 =>
      rw [hgn] at h
      simp only [emitted, mkOut]
      rw [settleRace_delivered, List.append_nil]
      exact h
  | raceTaskDone =>
    simp only [step, emitted, mkOut]
    rw [settleRace_delivered, taskDone_delivered, advance_delivered, List.append_nil]
  | raceCancel w =>
    simp only [step, emitted, mkOut]
    rw [settleRace_delivered, cancel_delivered, advance_delivered, List.append_nil]

/-- along every run the ghost `delivered` grows by exactly the items the outputs hand to get callers -/
theorem run_deliver (s : St) (ops : List Op) :
    (run s ops).1.delivered = s.delivered ++ gotItems ops (run s ops).2 := by
  induction ops generalizing s with
  | nil => simp [run, gotItems]
  | cons op ops ih =>
    simp only [run, gotItems]
    rw [ih, step_deliver, List.append_assoc]

end TornadoModel.C35
