/-
C35 — forward simulation Model → Spec, part 2: the calls (`put_nowait`, `get_nowait`, `put`, `get`, `join`,
`task_done`, `cancel`, `advance`) each matched by the Spec's primitive.
-/
import TornadoModel.C35.Refine1
namespace TornadoModel.C35
open TornadoModel.C33 (FState Ev Timer isPend dueTimers minTimer isPend_set isPend_set_ne isPend_set_self
  isPend_lt isPend_append_lt isPend_append_self isPend_append isPend_set_eq isPend_append_dead dueTimers_filter
  filter_drop filter_dropT)

/-- a model state and the Spec's item list that goes with it -/
structure Rel (s : St) (its : List Nat) : Prop where
  inv : Inv s
  inv2 : Inv2 s
  items : ItemsRel s.disc s.items its

theorem isFull_absF {s : St} {its : List Nat} (h : ItemsRel s.disc s.items its) :
    Spec.isFull (absF s its) = isFull s := by
  simp only [Spec.isFull, isFull, absF, h.length]

/-! ### `_consume_expired` is invisible -/

theorem filter_dropWhile {α} (p : α → Bool) (l : List α) :
    (l.dropWhile (fun a => !p a)).filter p = l.filter p := by
  induction l with
  | nil => rfl
  | cons a l ih =>
    by_cases ha : p a = true
    · simp [ha]
    · have ha' : p a = false := by simpa using ha
      simp [ha', ih]

theorem mem_dropWhile_of {α} (p : α → Bool) {l : List α} {a : α} (hm : a ∈ l) (ha : p a = true) :
    a ∈ l.dropWhile (fun a => !p a) := by
  induction l with
  | nil => simp at hm
  | cons b l ih =>
    by_cases hb : p b = true
    · simp [hb, hm]
    · have hb' : p b = false := by simpa using hb
      have hne : a ≠ b := fun e => by subst e; rw [ha] at hb'; simp at hb'
      have : a ∈ l := by
        rcases List.mem_cons.mp hm with h | h
        · exact absurd h hne
        · exact h
      simp [hb', ih this]

theorem absF_consume (s : St) (its : List Nat) : absF (consume s) its = absF s its := by
  have h1 := filter_dropWhile (isPend s.futs) s.getters
  have h2 := filter_dropWhile (fun p : Nat × Nat => isPend s.futs p.2) s.putters
  simp only [absF, consume, Spec.St.mk.injEq, true_and, and_true]
  exact ⟨h1, h2⟩

theorem inv2_consume {s : St} (h : Inv2 s) : Inv2 (consume s) :=
  inv2_sub h (List.dropWhile_sublist _) (List.dropWhile_sublist _) (List.Sublist.refl _) rfl (fun _ ht => ht)
    (fun _ hw => hw)
    (fun _ hw hm => mem_dropWhile_of (isPend s.futs) hm hw)
    (fun _ hw hm => mem_dropWhile_of (fun p : Nat × Nat => isPend s.futs p.2) hm hw)
    (fun _ _ hm => hm)

theorem rel_consume {s : St} {its : List Nat} (h : Rel s its) : Rel (consume s) its :=
  ⟨inv_consume h.inv, inv2_consume h.inv2, h.items⟩

theorem resolveUC_pend {s : St} {w : Nat} (v : FState) (h : isPend s.futs w = true) :
    resolveUC s w v = ({ s with futs := s.futs.set w v }, [(w, v)]) := by
  unfold resolveUC
  have : s.futs[w]? = some .pending := by unfold isPend at h; simpa using h
  rw [this]; simp

theorem take_single (d : Disc) (x : Nat) : Spec.take d [x] = some (x, []) := by
  cases d <;> simp [Spec.take, Spec.minOf]

/-! ### Spec-level case equations -/

theorem spec_putNowait_getter {sp : Spec.St} {g : Nat} {q : List Nat} {x y : Nat} {rest : List Nat}
    (h : sp.getq = g :: q)
    (ht : Spec.take (Spec.accept sp x).disc (Spec.accept sp x).items = some (y, rest)) :
    Spec.putNowait sp x = .ok (Spec.drop { Spec.accept sp x with items := rest } g) [(g, .result y)] := by
  unfold Spec.putNowait
  simp only [h, ht]

theorem spec_putNowait_nil {sp : Spec.St} (h : sp.getq = []) (x : Nat) :
    Spec.putNowait sp x = if Spec.isFull sp then .full else .ok (Spec.accept sp x) [] := by
  unfold Spec.putNowait
  simp only [h]

theorem spec_getNowait_putter {sp : Spec.St} {x p : Nat} {q : List (Nat × Nat)} {y : Nat} {rest : List Nat}
    (h : sp.putq = (x, p) :: q)
    (ht : Spec.take (Spec.accept (Spec.drop sp p) x).disc (Spec.accept (Spec.drop sp p) x).items = some (y, rest)) :
    Spec.getNowait sp = .ok { Spec.accept (Spec.drop sp p) x with items := rest } y [(p, .result 0)] := by
  unfold Spec.getNowait
  simp only [h, ht]

theorem spec_getNowait_take {sp : Spec.St} {y : Nat} {rest : List Nat} (h : sp.putq = [])
    (ht : Spec.take sp.disc sp.items = some (y, rest)) :
    Spec.getNowait sp = .ok { sp with items := rest } y [] := by
  unfold Spec.getNowait
  simp only [h, ht]

theorem spec_getNowait_empty {sp : Spec.St} (h : sp.putq = []) (ht : Spec.take sp.disc sp.items = none) :
    Spec.getNowait sp = .empty := by
  unfold Spec.getNowait
  simp only [h, ht]

theorem filter_set_head (futs : List FState) (g : Nat) (gs : List Nat) {v : FState} (hv : v ≠ .pending) :
    (g :: gs).filter (isPend (futs.set g v)) = gs.filter (isPend (futs.set g v)) := by
  rw [List.filter_cons, isPend_set_self hv]; simp

theorem filter_set_headP (futs : List FState) (x p : Nat) (ps : List (Nat × Nat)) {v : FState}
    (hv : v ≠ .pending) :
    ((x, p) :: ps).filter (fun q => isPend (futs.set p v) q.2) = ps.filter (fun q => isPend (futs.set p v) q.2) := by
  rw [List.filter_cons]; simp [isPend_set_self hv]

/-- the head getter is served: it leaves the Spec's queue, its future is settled -/
theorem drop_absF_getter {s : St} {g : Nat} {gs : List Nat} (hg : s.getters = g :: gs) (its : List Nat)
    {v : FState} (hv : v ≠ .pending) :
    Spec.drop (absF s its) g = absF { s with getters := gs, futs := s.futs.set g v } its := by
  rw [drop_absF s its g hv]
  simp only [absF, hg, filter_set_head _ _ _ hv]

theorem drop_absF_putter {s : St} {x p : Nat} {ps : List (Nat × Nat)} (hq : s.putters = (x, p) :: ps)
    (its : List Nat) {v : FState} (hv : v ≠ .pending) :
    Spec.drop (absF s its) p = absF { s with putters := ps, futs := s.futs.set p v } its := by
  rw [drop_absF s its p hv]
  simp only [absF, hq, filter_set_headP _ _ _ _ hv]

/-! ### `put_nowait` -/

/-- state after `put_nowait` handed `x` to the blocked getter `g` -/
def afterPutG (c : St) (g : Nat) (gs : List Nat) (x : Nat) : St :=
  { c with getters := gs, unfinished := c.unfinished + 1, finished := false, items := [],
           accepted := c.accepted ++ [x], delivered := c.delivered ++ [x], futs := c.futs.set g (.result x) }

/-- state after `get_nowait` admitted the item `x` of the blocked putter `p` and delivered `y` -/
def afterGetP (c : St) (p : Nat) (ps : List (Nat × Nat)) (x y : Nat) (rest : List Nat) : St :=
  { c with putters := ps, unfinished := c.unfinished + 1, finished := false, items := rest,
           accepted := c.accepted ++ [x], delivered := c.delivered ++ [y], futs := c.futs.set p (.result 0) }

theorem putNowait_getter {s : St} {g : Nat} {gs : List Nat} (hg : (consume s).getters = g :: gs)
    (hE : (consume s).items = []) (hp : isPend s.futs g = true) (x : Nat) :
    putNowait s x = .ok (afterPutG (consume s) g gs x) [(g, .result x)] := by
  unfold putNowait
  simp only [hg, hE, List.isEmpty_nil, Bool.not_true, Bool.false_eq_true, if_false, putInternal, cget_single]
  rw [resolveUC_pend _ (by exact hp)]
  rfl

theorem putNowait_full {s : St} (hg : (consume s).getters = []) (hf : isFull (consume s) = true) (x : Nat) :
    putNowait s x = .full (consume s) := by
  unfold putNowait
  simp only [hg, hf, if_true]

theorem putNowait_room {s : St} (hg : (consume s).getters = []) (hf : isFull (consume s) = false) (x : Nat) :
    putNowait s x = .ok (putInternal (consume s) x) [] := by
  unfold putNowait
  simp only [hg, hf, Bool.false_eq_true, if_false]

def PNsim (s : St) (its : List Nat) (x : Nat) : PN → Prop
  | .ok s1 e => ∃ its1, Rel s1 its1 ∧ Spec.putNowait (absF s its) x = .ok (absF s1 its1) e ∧
      s1.futs.length = s.futs.length
  | .full s1 => Rel s1 its ∧ Spec.putNowait (absF s its) x = .full ∧ absF s1 its = absF s its ∧
      s1.futs.length = s.futs.length
  | .assertion _ => False

theorem putNowait_sim {s : St} {its : List Nat} (h : Rel s its) (x : Nat) : PNsim s its x (putNowait s x) := by
  have hc := rel_consume h
  have hgood := putNowait_good h.inv x
  rcases hg : (consume s).getters with _ | ⟨g, gs⟩
  · have hq : (absF (consume s) its).getq = [] := by simp only [absF, hg, List.filter_nil]
    by_cases hf : isFull (consume s) = true
    · rw [putNowait_full hg hf]
      refine ⟨hc, ?_, absF_consume s its, rfl⟩
      rw [← absF_consume s its, spec_putNowait_nil hq, isFull_absF hc.items, hf]
      rfl
    · have hf' : isFull (consume s) = false := by simpa using hf
      rw [putNowait_room hg hf'] at hgood ⊢
      refine ⟨its ++ [x], ⟨hgood.1, ?_, ?_⟩, ?_, rfl⟩
      · exact inv2_same hc.inv2 rfl rfl rfl rfl (fun _ ht => ht) (fun _ hw => hw)
      · exact itemsRel_cput x hc.items
      · rw [← absF_consume s its, spec_putNowait_nil hq, isFull_absF hc.items, hf']
        rfl
  · have hp : isPend s.futs g = true := consume_getters_head hg
    have hE : (consume s).items = [] := hc.inv.getE ⟨g, by rw [hg]; simp, hp⟩
    have hits : its = [] := by have := hc.items; rw [hE] at this; exact this.nil
    subst hits
    rw [putNowait_getter hg hE hp] at hgood ⊢
    refine ⟨[], ⟨hgood.1, ?_, itemsRel_nil _⟩, ?_, by simp [afterPutG, consume_futs]⟩
    · refine inv2_sub hc.inv2 ?_ (List.Sublist.refl _) (List.Sublist.refl _) (by simp [afterPutG])
        (fun _ ht => ht) (fun w hw => (isPend_set (by simp) hw).1) ?_ (fun _ _ hm => hm) (fun _ _ hm => hm)
      · show gs.Sublist (consume s).getters
        rw [hg]; exact List.sublist_cons_self g gs
      · intro w hw hm
        show w ∈ gs
        have hm' : w ∈ g :: gs := hg ▸ hm
        rcases List.mem_cons.mp hm' with rfl | hm'
        · have := (isPend_set (v := FState.result x) (by simp) hw).2; exact absurd rfl this
        · exact hm'
    · have hq : (absF (consume s) []).getq = g :: gs.filter (isPend s.futs) := by
        simp only [absF, hg, consume_futs, List.filter_cons, hp, if_true]
      have ht : Spec.take (Spec.accept (absF (consume s) []) x).disc (Spec.accept (absF (consume s) []) x).items
          = some (x, []) := take_single _ x
      have key : Spec.drop { Spec.accept (absF (consume s) []) x with items := [] } g
          = absF (afterPutG (consume s) g gs x) [] := by
        show Spec.drop (absF { consume s with unfinished := (consume s).unfinished + 1 } []) g = _
        rw [drop_absF_getter (s := { consume s with unfinished := (consume s).unfinished + 1 }) hg []
          (v := FState.result x) (by simp)]
        rfl
      rw [← absF_consume s [], spec_putNowait_getter hq ht, key]

/-! ### `get_nowait` -/

theorem getNowait_putter {s : St} {x p y : Nat} {ps : List (Nat × Nat)} {rest : List Nat}
    (hq : (consume s).putters = (x, p) :: ps) (hf : isFull (consume s) = true) (hp : isPend s.futs p = true)
    (hc : cget (consume s).disc (cput (consume s).disc (consume s).items x) = some (y, rest)) :
    getNowait s = .ok (afterGetP (consume s) p ps x y rest) y [(p, .result 0)] := by
  unfold getNowait
  simp only [hq, hf, Bool.not_true, Bool.false_eq_true, if_false]
  rw [resolveUC_pend _ (by exact hp)]
  simp only [putInternal, hc]
  rfl

theorem getNowait_take {s : St} {y : Nat} {rest : List Nat} (hq : (consume s).putters = [])
    (hc : cget (consume s).disc (consume s).items = some (y, rest)) :
    getNowait s = .ok { consume s with items := rest, delivered := (consume s).delivered ++ [y] } y [] := by
  unfold getNowait
  simp only [hq, hc]

theorem getNowait_empty {s : St} (hq : (consume s).putters = [])
    (hc : cget (consume s).disc (consume s).items = none) : getNowait s = .empty (consume s) := by
  unfold getNowait
  simp only [hq, hc]

def GNsim (s : St) (its : List Nat) : GN → Prop
  | .ok s1 y e => ∃ its1, Rel s1 its1 ∧ Spec.getNowait (absF s its) = .ok (absF s1 its1) y e ∧
      s1.futs.length = s.futs.length
  | .empty s1 => Rel s1 its ∧ Spec.getNowait (absF s its) = .empty ∧ absF s1 its = absF s its ∧
      s1.futs.length = s.futs.length
  | .assertion _ => False

theorem getNowait_sim {s : St} {its : List Nat} (h : Rel s its) : GNsim s its (getNowait s) := by
  have hc := rel_consume h
  have hgood := getNowait_good h.inv
  rcases hq : (consume s).putters with _ | ⟨⟨x, p⟩, ps⟩
  · have hpq : (absF (consume s) its).putq = [] := by simp only [absF, hq, List.filter_nil]
    rcases hcg : cget (consume s).disc (consume s).items with _ | ⟨y, rest⟩
    · rw [getNowait_empty hq hcg]
      refine ⟨hc, ?_, absF_consume s its, rfl⟩
      have hnil := cget_none hcg
      have ht : Spec.take (absF (consume s) its).disc (absF (consume s) its).items = none := by
        have := hc.items; rw [hnil] at this
        exact take_nil this
      rw [← absF_consume s its, spec_getNowait_empty hpq ht]
    · rw [getNowait_take hq hcg] at hgood ⊢
      obtain ⟨r', ht, hir⟩ := take_of_cget hc.items hc.inv.sorted hcg
      refine ⟨r', ⟨hgood.1, ?_, hir⟩, ?_, rfl⟩
      · exact inv2_same hc.inv2 rfl rfl rfl rfl (fun _ ht => ht) (fun _ hw => hw)
      · have ht' : Spec.take (absF (consume s) its).disc (absF (consume s) its).items = some (y, r') := ht
        rw [← absF_consume s its, spec_getNowait_take hpq ht']
        rfl
  · have hp : isPend s.futs p = true := consume_putters_head hq
    have hF : isFull (consume s) = true := hc.inv.putF ⟨(x, p), by rw [hq]; simp, hp⟩
    have hrel' := itemsRel_cput x hc.items
    have hsorted : (consume s).disc = .prio → (cput (consume s).disc (consume s).items x).Pairwise (· ≤ ·) := by
      intro hd
      rw [hd]
      exact insSorted_sorted x _ (hc.inv.sorted hd)
    rcases hcg : cget (consume s).disc (cput (consume s).disc (consume s).items x) with _ | ⟨y, rest⟩
    · have := cget_none hcg
      have hl := cput_length (consume s).disc (consume s).items x
      rw [this] at hl; simp at hl
    · rw [getNowait_putter hq hF hp hcg] at hgood ⊢
      obtain ⟨r', ht, hir⟩ := take_of_cget hrel' hsorted hcg
      refine ⟨r', ⟨hgood.1, ?_, hir⟩, ?_, by simp [afterGetP, consume_futs]⟩
      · refine inv2_sub hc.inv2 (List.Sublist.refl _) ?_ (List.Sublist.refl _) (by simp [afterGetP])
          (fun _ ht => ht) (fun w hw => (isPend_set (by simp) hw).1) (fun _ _ hm => hm) ?_ (fun _ _ hm => hm)
        · show ps.Sublist (consume s).putters
          rw [hq]; exact List.sublist_cons_self _ ps
        · intro q hw hm
          show q ∈ ps
          have hm' : q ∈ (x, p) :: ps := hq ▸ hm
          rcases List.mem_cons.mp hm' with rfl | hm'
          · have := (isPend_set (v := FState.result 0) (by simp) hw).2; exact absurd rfl this
          · exact hm'
      · have hpq : (absF (consume s) its).putq = (x, p) :: ps.filter (fun q => isPend s.futs q.2) := by
          simp only [absF, hq, consume_futs, List.filter_cons, hp, if_true]
        have ht' : Spec.take (Spec.accept (Spec.drop (absF (consume s) its) p) x).disc
            (Spec.accept (Spec.drop (absF (consume s) its) p) x).items = some (y, r') := ht
        have key : ({ Spec.accept (Spec.drop (absF (consume s) its) p) x with items := r' } : Spec.St)
            = absF (afterGetP (consume s) p ps x y rest) r' := by
          rw [drop_absF_putter hq its (v := FState.result 0) (by simp)]
          rfl
        rw [← absF_consume s its, spec_getNowait_putter hpq ht', key]

end TornadoModel.C35
