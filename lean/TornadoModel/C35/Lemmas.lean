/-
C35 — lemmas: the three containers, the queue invariant and its preservation by every primitive and step.
-/
import TornadoModel.C33.Lemmas
import TornadoModel.C35.Spec
namespace TornadoModel.C35
open TornadoModel.C33 (FState Ev Timer isPend dueTimers minTimer isPend_set isPend_set_ne isPend_set_self
  isPend_lt isPend_append_lt isPend_append_self isPend_append)

/-! ### containers -/

theorem mem_insSorted {x z : Nat} {q : List Nat} : z ∈ insSorted x q ↔ z = x ∨ z ∈ q := by
  induction q with
  | nil => simp [insSorted]
  | cons a q ih =>
    simp only [insSorted]
    split
    · simp
    · simp [ih]
      constructor
      · rintro (h | h | h) <;> simp [h]
      · rintro (h | h | h) <;> simp [h]

theorem insSorted_perm (x : Nat) (q : List Nat) : (insSorted x q).Perm (x :: q) := by
  induction q with
  | nil => simp [insSorted]
  | cons a q ih =>
    simp only [insSorted]
    split
    · exact List.Perm.refl _
    · exact (List.Perm.cons a ih).trans (List.Perm.swap x a q)

theorem insSorted_sorted (x : Nat) (q : List Nat) (h : q.Pairwise (· ≤ ·)) :
    (insSorted x q).Pairwise (· ≤ ·) := by
  induction q with
  | nil => simp [insSorted]
  | cons a q ih =>
    simp only [insSorted]
    split
    · rename_i hxa
      refine List.Pairwise.cons ?_ h
      intro z hz
      rcases List.mem_cons.mp hz with rfl | hz
      · exact hxa
      · exact Nat.le_trans hxa (List.rel_of_pairwise_cons h hz)
    · rename_i hxa
      refine List.Pairwise.cons ?_ (ih h.of_cons)
      intro z hz
      rcases mem_insSorted.mp hz with rfl | hz
      · omega
      · exact List.rel_of_pairwise_cons h hz

theorem dropLast_getLast {l : List Nat} {x : Nat} (h : l.getLast? = some x) : l.dropLast ++ [x] = l := by
  induction l with
  | nil => simp at h
  | cons a l ih =>
    cases l with
    | nil => simp at h; simp [h]
    | cons b l =>
      rw [List.getLast?_cons_cons] at h
      simp [ih h]

theorem cput_perm (d : Disc) (q : List Nat) (x : Nat) : (cput d q x).Perm (x :: q) := by
  cases d
  · simp only [cput]; exact List.perm_append_comm
  · simp only [cput]; exact List.perm_append_comm
  · exact insSorted_perm x q

theorem cput_length (d : Disc) (q : List Nat) (x : Nat) : (cput d q x).length = q.length + 1 := by
  simpa using (cput_perm d q x).length_eq

theorem cget_perm {d : Disc} {q r : List Nat} {y : Nat} (h : cget d q = some (y, r)) : q.Perm (y :: r) := by
  cases d
  · simp only [cget] at h; split at h <;> simp at h; obtain ⟨rfl, rfl⟩ := h; exact List.Perm.refl _
  · simp only [cget] at h
    split at h
    · simp at h
    · rename_i x hx
      simp at h
      obtain ⟨rfl, rfl⟩ := h
      have := dropLast_getLast hx
      exact (this ▸ List.perm_append_comm : (q.dropLast ++ [x]).Perm (x :: q.dropLast)) |> fun p => by
        rw [this] at p; exact p
  · simp only [cget] at h; split at h <;> simp at h; obtain ⟨rfl, rfl⟩ := h; exact List.Perm.refl _

theorem cget_length {d : Disc} {q r : List Nat} {y : Nat} (h : cget d q = some (y, r)) :
    q.length = r.length + 1 := by
  simpa using (cget_perm h).length_eq

theorem cget_none {d : Disc} {q : List Nat} (h : cget d q = none) : q = [] := by
  cases d
  · simp only [cget] at h; split at h <;> simp at h; rfl
  · simp only [cget] at h
    split at h
    · rename_i hn; simpa using hn
    · simp at h
  · simp only [cget] at h; split at h <;> simp at h; rfl

theorem cget_nil (d : Disc) : cget d [] = none := by cases d <;> rfl

theorem cget_single (d : Disc) (x : Nat) : cget d (cput d [] x) = some (x, []) := by
  cases d <;> simp [cget, cput, insSorted]

theorem cget_sorted {q r : List Nat} {y : Nat} (h : cget .prio q = some (y, r)) (hs : q.Pairwise (· ≤ ·)) :
    r.Pairwise (· ≤ ·) ∧ ∀ z ∈ r, y ≤ z := by
  simp only [cget] at h
  split at h <;> simp at h
  obtain ⟨rfl, rfl⟩ := h
  exact ⟨hs.of_cons, fun z hz => List.rel_of_pairwise_cons hs hz⟩

theorem cget_fifo {q r : List Nat} {y : Nat} (h : cget .fifo q = some (y, r)) : q = y :: r := by
  simp only [cget] at h
  split at h <;> simp at h
  obtain ⟨rfl, rfl⟩ := h; rfl

theorem cget_lifo {q r : List Nat} {y : Nat} (h : cget .lifo q = some (y, r)) : q = r ++ [y] := by
  simp only [cget] at h
  split at h
  · simp at h
  · rename_i x hx
    simp at h
    obtain ⟨rfl, rfl⟩ := h
    exact (dropLast_getLast hx).symm

theorem cget_sublist {d : Disc} {q r : List Nat} {y : Nat} (hd : d ≠ .prio) (h : cget d q = some (y, r)) :
    r.Sublist q := by
  cases d
  · rw [cget_fifo h]; exact List.sublist_cons_self y r
  · rw [cget_lifo h]; exact List.sublist_append_left r [y]
  · exact absurd rfl hd

theorem cput_sublist {d : Disc} {q a : List Nat} {x : Nat} (hd : d ≠ .prio) (h : q.Sublist a) :
    (cput d q x).Sublist (a ++ [x]) := by
  cases d
  · exact List.Sublist.append h (List.Sublist.refl _)
  · exact List.Sublist.append h (List.Sublist.refl _)
  · exact absurd rfl hd

/-! ### the invariant -/

structure Inv (s : St) : Prop where
  fin : s.finished = decide (s.unfinished = 0)
  getE : (∃ g ∈ s.getters, isPend s.futs g = true) → s.items = []
  putF : (∃ p ∈ s.putters, isPend s.futs p.2 = true) → isFull s = true
  size : s.maxsize ≠ 0 → s.items.length ≤ s.maxsize
  perm : s.accepted.Perm (s.delivered ++ s.items)
  count : s.unfinished + s.done = s.accepted.length
  sorted : s.disc = .prio → s.items.Pairwise (· ≤ ·)
  fifo : s.disc = .fifo → s.accepted = s.delivered ++ s.items
  sub : s.disc ≠ .prio → s.items.Sublist s.accepted
  glt : ∀ g ∈ s.getters, g < s.futs.length
  plt : ∀ p ∈ s.putters, p.2 < s.futs.length

theorem inv_init (d : Disc) (m : Nat) : Inv (init d m) := by
  constructor <;> simp [init, isFull]

/-- everything except futures, timers, joiners, clock -/
def core (s : St) :=
  (s.disc, s.maxsize, s.items, s.getters, s.putters, s.unfinished, s.finished, s.accepted, s.delivered, s.done)

/-- `s'` differs from `s` only by futures having been settled (and timers / joiners / clock) -/
structure Shrinks (s s' : St) : Prop where
  same : core s' = core s
  len : s'.futs.length = s.futs.length
  pend : ∀ w, isPend s'.futs w = true → isPend s.futs w = true

theorem Shrinks.refl (s : St) : Shrinks s s := ⟨rfl, rfl, fun _ h => h⟩
theorem Shrinks.trans {a b c : St} (h1 : Shrinks a b) (h2 : Shrinks b c) : Shrinks a c :=
  ⟨h2.same.trans h1.same, h2.len.trans h1.len, fun w h => h1.pend w (h2.pend w h)⟩

theorem inv_shrinks {s s' : St} (h : Inv s) (hs : Shrinks s s') : Inv s' := by
  have hc := hs.same
  simp only [core, Prod.mk.injEq] at hc
  obtain ⟨h1, h2, h3, h4, h5, h6, h7, h8, h9, h10⟩ := hc
  constructor
  · rw [h7, h6]; exact h.fin
  · rintro ⟨g, hg, hp⟩; rw [h3]; exact h.getE ⟨g, h4 ▸ hg, hs.pend g hp⟩
  · rintro ⟨p, hp, hpp⟩
    have := h.putF ⟨p, h5 ▸ hp, hs.pend _ hpp⟩
    simpa [isFull, h2, h3] using this
  · rw [h2, h3]; exact h.size
  · rw [h8, h9, h3]; exact h.perm
  · rw [h6, h10, h8]; exact h.count
  · rw [h1, h3]; exact h.sorted
  · rw [h1, h8, h9, h3]; exact h.fifo
  · rw [h1, h3, h8]; exact h.sub
  · intro g hg; rw [hs.len]; exact h.glt g (h4 ▸ hg)
  · intro p hp; rw [hs.len]; exact h.plt p (h5 ▸ hp)

theorem shrinks_set (s : St) (w : Nat) (v : FState) (hv : v ≠ .pending) :
    Shrinks s { s with futs := s.futs.set w v } :=
  ⟨rfl, by simp, fun _ h => (isPend_set hv h).1⟩

theorem shrinks_onTimeout (s : St) (w : Nat) : Shrinks s (onTimeout s w).1 := by
  unfold onTimeout; split
  · exact shrinks_set s w .timeout (by simp)
  · exact Shrinks.refl s

theorem shrinks_fireList (s : St) (ts : List Timer) : Shrinks s (fireList s ts).1 := by
  induction ts generalizing s with
  | nil => exact Shrinks.refl s
  | cons t ts ih => simp only [fireList]; exact Shrinks.trans (shrinks_onTimeout s t.2) (ih _)

theorem shrinks_fireDue (s : St) : Shrinks s (fireDue s).1 := by
  unfold fireDue
  exact Shrinks.trans (shrinks_fireList s _) ⟨rfl, rfl, fun _ h => h⟩

theorem shrinks_purge (s : St) : Shrinks s (purge s) := ⟨rfl, rfl, fun _ h => h⟩

theorem shrinks_settle (s : St) : Shrinks s (settle s).1 := by
  unfold settle
  exact Shrinks.trans (Shrinks.trans (shrinks_purge s) (shrinks_fireDue _)) (shrinks_purge _)

theorem shrinks_settleRace (s : St) : Shrinks s (settleRace s).1 := by
  unfold settleRace
  exact Shrinks.trans (shrinks_fireDue _) (shrinks_purge _)

theorem shrinks_advance (s : St) : Shrinks s (advance s).1 := by
  unfold advance; split <;> exact ⟨rfl, rfl, fun _ h => h⟩

theorem shrinks_cancel (s : St) (w : Nat) : Shrinks s (cancel s w).1 := by
  unfold cancel; split
  · exact shrinks_set s w .cancelled (by simp)
  · exact Shrinks.refl s

theorem shrinks_resolveUC (s : St) (w : Nat) (v : FState) (hv : v ≠ .pending) :
    Shrinks s (resolveUC s w v).1 := by
  unfold resolveUC; split
  · exact Shrinks.refl s
  · exact shrinks_set s w v hv

theorem resolveAll_pos {futs : List FState} {v : FState} {a : Nat} {ws : List Nat}
    (h : isPend futs a = true) :
    (resolveAll futs v (a :: ws)).1 = (resolveAll (futs.set a v) v ws).1 := by
  simp [resolveAll, h]
theorem resolveAll_neg {futs : List FState} {v : FState} {a : Nat} {ws : List Nat}
    (h : isPend futs a = false) : (resolveAll futs v (a :: ws)) = (resolveAll futs v ws) := by
  simp [resolveAll, h]

theorem resolveAll_length (futs : List FState) (v : FState) (ws : List Nat) :
    (resolveAll futs v ws).1.length = futs.length := by
  induction ws generalizing futs with
  | nil => rfl
  | cons a ws ih =>
    by_cases h : isPend futs a = true
    · rw [resolveAll_pos h, ih]; simp
    · rw [resolveAll_neg (by simpa using h), ih]

theorem resolveAll_mono {futs : List FState} {v : FState} {ws : List Nat} {w : Nat} (hv : v ≠ .pending)
    (h : isPend (resolveAll futs v ws).1 w = true) : isPend futs w = true ∧ w ∉ ws := by
  induction ws generalizing futs with
  | nil => exact ⟨h, by simp⟩
  | cons a ws ih =>
    by_cases ha : isPend futs a = true
    · rw [resolveAll_pos ha] at h
      obtain ⟨h1, h2⟩ := ih h
      obtain ⟨h3, h4⟩ := isPend_set hv h1
      exact ⟨h3, by simp [h4, h2]⟩
    · have ha' : isPend futs a = false := by simpa using ha
      rw [resolveAll_neg ha'] at h
      obtain ⟨h1, h2⟩ := ih h
      refine ⟨h1, ?_⟩
      have : w ≠ a := fun e => by subst e; rw [ha'] at h1; simp at h1
      simp [this, h2]

/-! ### consume -/

theorem dropWhile_head {α} {p : α → Bool} {l r : List α} {a : α} (h : l.dropWhile p = a :: r) :
    p a = false ∧ a ∈ l ∧ ∀ x ∈ r, x ∈ l := by
  induction l with
  | nil => simp at h
  | cons b l ih =>
    simp only [List.dropWhile_cons] at h
    split at h
    · obtain ⟨h1, h2, h3⟩ := ih h
      exact ⟨h1, List.mem_cons_of_mem _ h2, fun x hx => List.mem_cons_of_mem _ (h3 x hx)⟩
    · rename_i hb
      simp at h
      obtain ⟨rfl, rfl⟩ := h
      exact ⟨by simpa using hb, by simp, fun x hx => List.mem_cons_of_mem _ hx⟩

theorem dropWhile_nil {α} {p : α → Bool} {l : List α} (h : l.dropWhile p = []) : ∀ x ∈ l, p x = true := by
  induction l with
  | nil => simp
  | cons b l ih =>
    simp only [List.dropWhile_cons] at h
    split at h
    · rename_i hb
      intro x hx
      rcases List.mem_cons.mp hx with rfl | hx
      · exact hb
      · exact ih h x hx
    · simp at h

theorem mem_dropWhile {α} {p : α → Bool} {l : List α} {x : α} (h : x ∈ l.dropWhile p) : x ∈ l :=
  (List.dropWhile_sublist p).subset h

theorem inv_consume {s : St} (h : Inv s) : Inv (consume s) := by
  unfold consume
  constructor
  · exact h.fin
  · rintro ⟨g, hg, hp⟩; exact h.getE ⟨g, mem_dropWhile hg, hp⟩
  · rintro ⟨p, hp, hpp⟩
    have := h.putF ⟨p, mem_dropWhile hp, hpp⟩
    simpa [isFull] using this
  · exact h.size
  · exact h.perm
  · exact h.count
  · exact h.sorted
  · exact h.fifo
  · exact h.sub
  · intro g hg; exact h.glt g (mem_dropWhile hg)
  · intro p hp; exact h.plt p (mem_dropWhile hp)

theorem consume_getters_head {s : St} {g : Nat} {gs : List Nat} (h : (consume s).getters = g :: gs) :
    isPend s.futs g = true := by
  have := (dropWhile_head (p := fun g => !isPend s.futs g) h).1
  simpa using this

theorem consume_getters_nil {s : St} (h : (consume s).getters = []) :
    ∀ g ∈ s.getters, isPend s.futs g = false := by
  intro g hg
  have := dropWhile_nil (p := fun g => !isPend s.futs g) h g hg
  simpa using this

theorem consume_putters_head {s : St} {p : Nat × Nat} {ps : List (Nat × Nat)}
    (h : (consume s).putters = p :: ps) : isPend s.futs p.2 = true := by
  have := (dropWhile_head (p := fun p : Nat × Nat => !isPend s.futs p.2) h).1
  simpa using this

theorem consume_putters_nil {s : St} (h : (consume s).putters = []) :
    ∀ p ∈ s.putters, isPend s.futs p.2 = false := by
  intro p hp
  have := dropWhile_nil (p := fun p : Nat × Nat => !isPend s.futs p.2) h p hp
  simpa using this

theorem consume_futs (s : St) : (consume s).futs = s.futs := rfl

/-- live getters and live putters never coexist -/
theorem not_both {s : St} (h : Inv s) (hg : ∃ g ∈ s.getters, isPend s.futs g = true)
    (hp : ∃ p ∈ s.putters, isPend s.futs p.2 = true) : False := by
  have h1 := h.getE hg
  have h2 := h.putF hp
  simp [isFull, h1] at h2

/-! ### multiset bookkeeping -/

theorem perm_step {A D I C R : List Nat} {x y : Nat} (h1 : A.Perm (D ++ I)) (h2 : C.Perm (x :: I))
    (h3 : C.Perm (y :: R)) : (A ++ [x]).Perm ((D ++ [y]) ++ R) := by
  rw [List.perm_iff_count]
  intro a
  have e1 := h1.count_eq a
  have e2 := h2.count_eq a
  have e3 := h3.count_eq a
  simp only [List.count_append, List.count_cons, List.count_nil] at *
  omega

theorem perm_step0 {A D I R : List Nat} {y : Nat} (h1 : A.Perm (D ++ I))
    (h3 : I.Perm (y :: R)) : A.Perm ((D ++ [y]) ++ R) := by
  rw [List.perm_iff_count]
  intro a
  have e1 := h1.count_eq a
  have e3 := h3.count_eq a
  simp only [List.count_append, List.count_cons, List.count_nil] at *
  omega

theorem perm_put {A D I C : List Nat} {x : Nat} (h1 : A.Perm (D ++ I)) (h2 : C.Perm (x :: I)) :
    (A ++ [x]).Perm (D ++ C) := by
  rw [List.perm_iff_count]
  intro a
  have e1 := h1.count_eq a
  have e2 := h2.count_eq a
  simp only [List.count_append, List.count_cons, List.count_nil] at *
  omega

/-! ### appending futures, adding waiters -/

theorem inv_append {s : St} (h : Inv s) (v : FState) : Inv { s with futs := s.futs ++ [v] } := by
  constructor
  · exact h.fin
  · rintro ⟨g, hg, hp⟩
    simp only at hp hg
    rw [isPend_append_lt (h.glt g hg)] at hp
    exact h.getE ⟨g, hg, hp⟩
  · rintro ⟨p, hp, hpp⟩
    simp only at hp hpp
    rw [isPend_append_lt (h.plt p hp)] at hpp
    have := h.putF ⟨p, hp, hpp⟩
    simpa [isFull] using this
  · exact h.size
  · exact h.perm
  · exact h.count
  · exact h.sorted
  · exact h.fifo
  · exact h.sub
  · intro g hg; have := h.glt g hg; simp; omega
  · intro p hp; have := h.plt p hp; simp; omega

theorem inv_add_getter {s : St} (h : Inv s) (he : s.items = []) (w : Nat) (hw : w < s.futs.length) :
    Inv { s with getters := s.getters ++ [w] } := by
  constructor
  · exact h.fin
  · intro _; exact he
  · exact h.putF
  · exact h.size
  · exact h.perm
  · exact h.count
  · exact h.sorted
  · exact h.fifo
  · exact h.sub
  · intro g hg
    simp only [List.mem_append, List.mem_singleton] at hg
    rcases hg with hg | rfl
    · exact h.glt g hg
    · exact hw
  · exact h.plt

theorem inv_add_putter {s : St} (h : Inv s) (hf : isFull s = true) (x w : Nat) (hw : w < s.futs.length) :
    Inv { s with putters := s.putters ++ [(x, w)] } := by
  constructor
  · exact h.fin
  · exact h.getE
  · intro _; simpa [isFull] using hf
  · exact h.size
  · exact h.perm
  · exact h.count
  · exact h.sorted
  · exact h.fifo
  · exact h.sub
  · exact h.glt
  · intro p hp
    simp only [List.mem_append, List.mem_singleton] at hp
    rcases hp with hp | rfl
    · exact h.plt p hp
    · exact hw

theorem shrinks_addTimer (s : St) (d : Option Nat) (w : Nat) : Shrinks s (addTimer s d w) := by
  unfold addTimer; split <;> exact ⟨rfl, rfl, fun _ h => h⟩

/-! ### put_nowait / get_nowait -/

def PNgood (s : St) : PN → Prop
  | .ok s1 _ => Inv s1 ∧ s1.futs.length = s.futs.length
  | .full s1 => Inv s1 ∧ isFull s1 = true ∧ s1.futs.length = s.futs.length
  | .assertion _ => False

theorem resolveUC_len (s : St) (w : Nat) (v : FState) : (resolveUC s w v).1.futs.length = s.futs.length := by
  unfold resolveUC; split <;> simp

theorem putNowait_good {s : St} (h : Inv s) (x : Nat) : PNgood s (putNowait s x) := by
  have hc := inv_consume h
  unfold putNowait
  simp only
  split
  · rename_i g gs hg
    have hgp : isPend (consume s).futs g = true := consume_getters_head (s := s) hg
    have hgm : g ∈ (consume s).getters := by rw [hg]; simp
    have hE : (consume s).items = [] := hc.getE ⟨g, hgm, hgp⟩
    have hnp : ¬ ∃ p ∈ (consume s).putters, isPend (consume s).futs p.2 = true :=
      fun hp => not_both hc ⟨g, hgm, hgp⟩ hp
    simp only [hE, List.isEmpty_nil, Bool.not_true, Bool.false_eq_true, if_false, putInternal, cget_single]
    simp only [PNgood]
    refine ⟨inv_shrinks ?_ (shrinks_resolveUC _ g (.result x) (by simp)), by simp [resolveUC_len, consume_futs]⟩
    constructor
    · simp
    · intro _; rfl
    · intro hp; exact absurd hp hnp
    · intro _; simp
    · have := hc.perm; rw [hE] at this
      simp only [List.append_nil] at this ⊢
      exact this.append_right [x]
    · have := hc.count; simp; omega
    · intro _; simp
    · intro hf; have := hc.fifo hf; rw [hE] at this; simp at this; simp [this]
    · intro _; simp
    · intro a ha; exact hc.glt a (by rw [hg]; exact List.mem_cons_of_mem _ ha)
    · exact hc.plt
  · rename_i hg
    split
    · rename_i hfull
      exact ⟨hc, hfull, rfl⟩
    · rename_i hfull
      simp only [PNgood]
      refine ⟨?_, rfl⟩
      unfold putInternal
      constructor
      · simp
      · rintro ⟨g, hgm, _⟩; simp only at hgm; rw [hg] at hgm; simp at hgm
      · rintro ⟨p, hp, hpp⟩
        exact absurd (hc.putF ⟨p, hp, hpp⟩) hfull
      · intro hm
        simp only [cput_length]
        simp [isFull] at hfull
        have := hfull hm
        omega
      · exact perm_put hc.perm (cput_perm _ _ _)
      · have := hc.count; simp; omega
      · intro hp
        simp only at hp ⊢
        rw [hp]
        exact insSorted_sorted x _ (hc.sorted hp)
      · intro hf
        simp only at hf ⊢
        rw [hf, hc.fifo hf]; simp [cput]
      · intro hd; exact cput_sublist hd (hc.sub hd)
      · exact hc.glt
      · exact hc.plt

def GNgood (s : St) : GN → Prop
  | .ok s1 _ _ => Inv s1 ∧ s1.futs.length = s.futs.length
  | .empty s1 => Inv s1 ∧ s1.items = [] ∧ s1.futs.length = s.futs.length
  | .assertion _ => False

theorem getNowait_good {s : St} (h : Inv s) : GNgood s (getNowait s) := by
  have hc := inv_consume h
  unfold getNowait
  simp only
  split
  · rename_i x p ps hp
    have hpp : isPend (consume s).futs p = true := consume_putters_head (s := s) hp
    have hpm : (x, p) ∈ (consume s).putters := by rw [hp]; simp
    have hF : isFull (consume s) = true := hc.putF ⟨(x, p), hpm, hpp⟩
    have hng : ¬ ∃ g ∈ (consume s).getters, isPend (consume s).futs g = true :=
      fun hg => not_both hc hg ⟨(x, p), hpm, hpp⟩
    simp only [hF, Bool.not_true, Bool.false_eq_true, if_false]
    have hres := shrinks_resolveUC (putInternal { consume s with putters := ps } x) p (.result 0) (by simp)
    generalize hs2 : resolveUC (putInternal { consume s with putters := ps } x) p (.result 0) = r2 at *
    obtain ⟨s2, e⟩ := r2
    simp only at hres ⊢
    have hcore := hres.same
    simp only [core, putInternal, Prod.mk.injEq] at hcore
    obtain ⟨c1, c2, c3, c4, c5, c6, c7, c8, c9, c10⟩ := hcore
    split
    · rename_i hnone
      have := cget_none hnone
      rw [c3] at this
      have hl := cput_length (consume s).disc (consume s).items x
      rw [this] at hl; simp at hl
    · rename_i y rest hsome
      rw [c1, c3] at hsome
      simp only [GNgood]
      refine ⟨?_, by rw [hres.len]; simp [putInternal, consume_futs]⟩
      have hlen : rest.length = (consume s).items.length := by
        have a := cget_length hsome
        have b := cput_length (consume s).disc (consume s).items x
        omega
      have hfull' : (consume s).maxsize ≠ 0 ∧ (consume s).maxsize ≤ (consume s).items.length := by
        simpa [isFull] using hF
      constructor
      · simp [c6, c7]
      · rintro ⟨g, hgm, hgp⟩
        simp only at hgm hgp
        rw [c4] at hgm
        exact absurd ⟨g, hgm, (hres.pend g hgp)⟩ hng
      · intro _
        simp [isFull, c2, hlen]
        exact hfull'
      · intro _; simp only [c2, hlen]; exact hc.size hfull'.1
      · simp only [c8, c9]
        exact perm_step hc.perm (cput_perm _ _ _) (cget_perm hsome)
      · simp only [c6, c8, c10]; have := hc.count; simp; omega
      · intro hp'
        simp only [c1] at hp'
        simp only at ⊢
        rw [hp'] at hsome
        exact (cget_sorted hsome (by simpa [cput] using insSorted_sorted x _ (hc.sorted hp'))).1
      · intro hf
        simp only [c1] at hf
        simp only [c8, c9]
        rw [hf] at hsome
        have := cget_fifo hsome
        simp only [cput] at this
        rw [hc.fifo hf, List.append_assoc, this]; simp
      · intro hd
        simp only [c1] at hd
        simp only [c8]
        exact (cget_sublist hd hsome).trans (cput_sublist hd (hc.sub hd))
      · intro g hg; simp only at hg; rw [c4] at hg; rw [hres.len]; simpa [putInternal] using hc.glt g hg
      · intro q hq
        simp only at hq
        rw [c5] at hq
        rw [hres.len]
        simpa [putInternal] using hc.plt q (by rw [hp]; exact List.mem_cons_of_mem _ hq)
  · rename_i hp
    split
    · rename_i y rest hsome
      simp only [GNgood]
      refine ⟨?_, rfl⟩
      have hlen := cget_length hsome
      constructor
      · exact hc.fin
      · rintro ⟨g, hgm, hgp⟩
        have := hc.getE ⟨g, hgm, hgp⟩
        rw [this, cget_nil] at hsome; simp at hsome
      · rintro ⟨q, hq, _⟩; simp only at hq; rw [hp] at hq; simp at hq
      · intro hm; have := hc.size hm; simp only; omega
      · exact perm_step0 hc.perm (cget_perm hsome)
      · exact hc.count
      · intro hp'
        simp only at hp' ⊢
        rw [hp'] at hsome
        exact (cget_sorted hsome (hc.sorted hp')).1
      · intro hf
        simp only at hf ⊢
        rw [hf] at hsome
        rw [hc.fifo hf, cget_fifo hsome]; simp
      · intro hd; exact (cget_sublist hd hsome).trans (hc.sub hd)
      · exact hc.glt
      · exact hc.plt
    · rename_i hnone
      exact ⟨hc, cget_none hnone, rfl⟩

/-! ### put / get / join / task_done -/

theorem put_good {s : St} (h : Inv s) (x : Nat) (d : Option Nat) :
    Inv (put s x d).1 ∧ (put s x d).2.1 ≠ .assertion := by
  have hg := putNowait_good h x
  unfold put
  cases hpn : putNowait s x with
  | ok s1 e =>
    rw [hpn] at hg; simp only [PNgood] at hg
    exact ⟨inv_append hg.1 _, by simp⟩
  | full s1 =>
    rw [hpn] at hg; simp only [PNgood] at hg
    refine ⟨?_, by simp⟩
    simp only
    refine inv_shrinks ?_ (shrinks_addTimer _ d _)
    have h1 := inv_append hg.1 .pending
    have h2 := inv_add_putter h1 (by simpa [isFull] using hg.2.1) x s.futs.length (by simp [hg.2.2])
    exact h2
  | assertion s1 => rw [hpn] at hg; simp only [PNgood] at hg

theorem get_good {s : St} (h : Inv s) (d : Option Nat) :
    Inv (get s d).1 ∧ (get s d).2.1 ≠ .assertion := by
  have hg := getNowait_good h
  unfold get
  cases hgn : getNowait s with
  | ok s1 y e =>
    rw [hgn] at hg; simp only [GNgood] at hg
    exact ⟨inv_append hg.1 _, by simp⟩
  | empty s1 =>
    rw [hgn] at hg; simp only [GNgood] at hg
    refine ⟨?_, by simp⟩
    simp only
    refine inv_shrinks ?_ (shrinks_addTimer _ d _)
    have h1 := inv_append hg.1 .pending
    have h2 := inv_add_getter h1 hg.2.1 s.futs.length (by simp [hg.2.2])
    exact h2
  | assertion s1 => rw [hgn] at hg; simp only [GNgood] at hg

theorem inv_join {s : St} (h : Inv s) (d : Option Nat) : Inv (join s d).1 := by
  unfold join
  split
  · exact inv_append h _
  · refine inv_shrinks ?_ (shrinks_addTimer _ d _)
    exact inv_shrinks (inv_append h .pending) ⟨rfl, rfl, fun _ hp => hp⟩

theorem inv_taskDone {s : St} (h : Inv s) (raced : List Nat) : Inv (taskDone s raced).1 := by
  unfold taskDone
  split
  · exact h
  · rename_i hne
    have hfin : s.finished = false := by rw [h.fin]; simp [hne]
    simp only
    split
    · rename_i hz
      have hbase : Inv { s with unfinished := s.unfinished - 1, done := s.done + 1, finished := true } := by
        constructor
        · simp [hz]
        · exact h.getE
        · intro hp; simpa [isFull] using h.putF hp
        · exact h.size
        · exact h.perm
        · have := h.count; simp only; omega
        · exact h.sorted
        · exact h.fifo
        · exact h.sub
        · exact h.glt
        · exact h.plt
      unfold finSet
      simp only [hfin, Bool.false_eq_true, if_false]
      refine inv_shrinks hbase ⟨rfl, ?_, ?_⟩
      · simp [resolveAll_length]
      · intro w hw
        exact (resolveAll_mono (by simp) (resolveAll_mono (by simp) hw).1).1
    · rename_i hnz
      constructor
      · simp [hfin, hnz]
      · exact h.getE
      · intro hp; simpa [isFull] using h.putF hp
      · exact h.size
      · exact h.perm
      · have := h.count; simp only; omega
      · exact h.sorted
      · exact h.fifo
      · exact h.sub
      · exact h.glt
      · exact h.plt

theorem step_good {s : St} (h : Inv s) (op : Op) : Inv (step s op).1 ∧ (step s op).2.res ≠ .assertion := by
  cases op with
  | put x d =>
    simp only [step]
    exact ⟨inv_shrinks (put_good h x d).1 (shrinks_settle _), by simpa [mkOut] using (put_good h x d).2⟩
  | putNowait x =>
    have hg := putNowait_good h x
    simp only [step]
    cases hpn : putNowait s x with
    | ok s1 e => rw [hpn] at hg; exact ⟨inv_shrinks hg.1 (shrinks_settle _), by simp [mkOut]⟩
    | full s1 => rw [hpn] at hg; exact ⟨inv_shrinks hg.1 (shrinks_settle _), by simp [mkOut]⟩
    | assertion s1 => rw [hpn] at hg; simp only [PNgood] at hg
  | get d =>
    simp only [step]
    exact ⟨inv_shrinks (get_good h d).1 (shrinks_settle _), by simpa [mkOut] using (get_good h d).2⟩
  | getNowait =>
    have hg := getNowait_good h
    simp only [step]
    cases hgn : getNowait s with
    | ok s1 y e => rw [hgn] at hg; exact ⟨inv_shrinks hg.1 (shrinks_settle _), by simp [mkOut]⟩
    | empty s1 => rw [hgn] at hg; exact ⟨inv_shrinks hg.1 (shrinks_settle _), by simp [mkOut]⟩
    | assertion s1 => rw [hgn] at hg; simp only [GNgood] at hg
  | taskDone =>
    simp only [step]
    refine ⟨inv_shrinks (inv_taskDone h []) (shrinks_settle _), ?_⟩
    simp only [mkOut, taskDone]
    split
    · simp
    · split <;> simp
  | join d => simp only [step]; exact ⟨inv_shrinks (inv_join h d) (shrinks_settle _), by simp [mkOut]⟩
  | fire =>
    simp only [step]
    exact ⟨inv_shrinks (inv_shrinks h (shrinks_advance s)) (shrinks_settle _), by simp [mkOut]⟩
  | cancel w =>
    simp only [step]
    exact ⟨inv_shrinks (inv_shrinks h (shrinks_cancel s w)) (shrinks_settle _), by simp [mkOut]⟩
  | racePutNowait x =>
    have h0 := inv_shrinks h (shrinks_advance s)
    have hg := putNowait_good h0 x
    simp only [step]
    cases hpn : putNowait (advance s).1 x with
    | ok s1 e => rw [hpn] at hg; exact ⟨inv_shrinks hg.1 (shrinks_settleRace _), by simp [mkOut]⟩
    | full s1 => rw [hpn] at hg; exact ⟨inv_shrinks hg.1 (shrinks_settleRace _), by simp [mkOut]⟩
    | assertion s1 => rw [hpn] at hg; simp only [PNgood] at hg
  | raceGetNowait =>
    have h0 := inv_shrinks h (shrinks_advance s)
    have hg := getNowait_good h0
    simp only [step]
    cases hgn : getNowait (advance s).1 with
    | ok s1 y e => rw [hgn] at hg; exact ⟨inv_shrinks hg.1 (shrinks_settleRace _), by simp [mkOut]⟩
    | empty s1 => rw [hgn] at hg; exact ⟨inv_shrinks hg.1 (shrinks_settleRace _), by simp [mkOut]⟩
    | assertion s1 => rw [hgn] at hg; simp only [GNgood] at hg
  | raceTaskDone =>
    have h0 := inv_shrinks h (shrinks_advance s)
    simp only [step]
    refine ⟨inv_shrinks (inv_taskDone h0 _) (shrinks_settleRace _), ?_⟩
    simp only [mkOut, taskDone]
    split
    · simp
    · split <;> simp
  | raceCancel w =>
    simp only [step]
    exact ⟨inv_shrinks (inv_shrinks (inv_shrinks h (shrinks_advance s)) (shrinks_cancel _ w))
      (shrinks_settleRace _), by simp [mkOut]⟩

theorem inv_run {s : St} (h : Inv s) (ops : List Op) : Inv (run s ops).1 := by
  induction ops generalizing s with
  | nil => exact h
  | cons op ops ih => simp only [run]; exact ih (step_good h op).1

theorem run_no_assertion {s : St} (h : Inv s) (ops : List Op) :
    ∀ o ∈ (run s ops).2, o.res ≠ .assertion := by
  induction ops generalizing s with
  | nil => simp [run]
  | cons op ops ih =>
    simp only [run]
    intro o ho
    rcases List.mem_cons.mp ho with rfl | ho
    · exact (step_good h op).2
    · exact ih (step_good h op).1 o ho

end TornadoModel.C35
