/- C09 — conservation of request keys through the admission machine:
   `completed ++ roots of the live keys` is a permutation of the keys fetched so far. -/
import TornadoModel.C09.Admission
namespace TornadoModel.C09

/-! ### roots without fuel -/

/-- root of `k` when the parent list was built by consing fresh keys in front (no fuel needed) -/
def rootL : List (Nat × Nat) → Nat → Nat
  | [], k => k
  | (a, b) :: rest, k => if a = k then rootL rest b else rootL rest k

/-- the parent list was built by consing `(fresh key, older key)` in front -/
def WFP : List (Nat × Nat) → Prop
  | [] => True
  | (a, b) :: rest => a ≠ b ∧ (∀ x ∈ rest, x.1 ≠ a ∧ x.2 ≠ a) ∧ WFP rest

theorem lookup_mem (k q : Nat) : ∀ p : List (Nat × Nat), lookup k p = some q → (k, q) ∈ p := by
  intro p
  induction p with
  | nil => intro h; simp [lookup] at h
  | cons x r ih =>
    obtain ⟨a, b⟩ := x
    intro h
    simp only [lookup] at h
    split at h
    · rename_i e
      cases h; subst e
      exact List.mem_cons_self
    · exact List.mem_cons_of_mem _ (ih h)

theorem rootOf_cons_ne (a b : Nat) (rest : List (Nat × Nat)) (h2 : ∀ x ∈ rest, x.2 ≠ a) :
    ∀ (f j : Nat), j ≠ a → rootOf ((a, b) :: rest) f j = rootOf rest f j := by
  intro f
  induction f with
  | zero => intro j _; rfl
  | succ f ih =>
    intro j hj
    have hl : lookup j ((a, b) :: rest) = lookup j rest := by
      simp only [lookup]
      rw [if_neg (fun e => hj e.symm)]
    simp only [rootOf, hl]
    cases hq : lookup j rest with
    | none => rfl
    | some q =>
      simp only
      exact ih q (h2 _ (lookup_mem j q rest hq))

theorem rootOf_eq_rootL : ∀ (p : List (Nat × Nat)), WFP p → ∀ (f k : Nat), p.length ≤ f →
    rootOf p f k = rootL p k := by
  intro p
  induction p with
  | nil =>
    intro _ f k _
    cases f <;> simp [rootOf, rootL, lookup]
  | cons x rest ih =>
    obtain ⟨a, b⟩ := x
    intro hw f k hf
    obtain ⟨hab, hfresh, hwr⟩ := hw
    have h2 : ∀ x ∈ rest, x.2 ≠ a := fun x hx => (hfresh x hx).2
    cases f with
    | zero => simp at hf
    | succ f =>
      have hf' : rest.length ≤ f := by simpa using hf
      by_cases hak : a = k
      · subst hak
        simp only [rootOf, lookup, if_true, rootL]
        rw [rootOf_cons_ne a b rest h2 f b (fun e => hab e.symm)]
        exact ih hwr f b hf'
      · rw [rootOf_cons_ne a b rest h2 (f + 1) k (fun e => hak e.symm)]
        simp only [rootL, if_neg hak]
        exact ih hwr (f + 1) k (by omega)

theorem root_eq_rootL (s : St) (h : WFP s.parent) (k : Nat) : s.root k = rootL s.parent k :=
  rootOf_eq_rootL s.parent h _ k (Nat.le_refl _)

theorem rootL_fresh (k : Nat) : ∀ p : List (Nat × Nat), (∀ x ∈ p, x.1 ≠ k) → rootL p k = k := by
  intro p
  induction p with
  | nil => intro _; rfl
  | cons x rest ih =>
    obtain ⟨a, b⟩ := x
    intro h
    have : a ≠ k := h (a, b) List.mem_cons_self
    simp only [rootL, if_neg this]
    exact ih (fun x hx => h x (List.mem_cons_of_mem _ hx))

theorem rootL_mem (seen : List Nat) : ∀ (p : List (Nat × Nat)) (k : Nat), (∀ x ∈ p, x.2 ∈ seen) → k ∈ seen →
    rootL p k ∈ seen := by
  intro p
  induction p with
  | nil => intro k _ hk; exact hk
  | cons x rest ih =>
    obtain ⟨a, b⟩ := x
    intro k h hk
    have hr : ∀ x ∈ rest, x.2 ∈ seen := fun x hx => h x (List.mem_cons_of_mem _ hx)
    simp only [rootL]
    split
    · exact ih b hr (h (a, b) List.mem_cons_self)
    · exact ih k hr hk

/-! ### live keys -/

def completesOf (evs : List Ev) : List Nat :=
  evs.filterMap (fun e => match e with | .complete r _ => some r | _ => none)

theorem completesOf_append (a b : List Ev) : completesOf (a ++ b) = completesOf a ++ completesOf b := by
  simp [completesOf, List.filterMap_append]

theorem completesOf_cons_start (k : Nat) (l : List Ev) : completesOf (Ev.start k :: l) = completesOf l := rfl
theorem completesOf_cons_complete (r : Nat) (h : How) (l : List Ev) :
    completesOf (Ev.complete r h :: l) = r :: completesOf l := rfl
theorem completesOf_nil : completesOf [] = [] := rfl

/-- keys that still have to complete: waiting in the queue, or owning an open connection -/
def live (s : St) : List Nat := s.waiting.map (·.1) ++ s.conns.map (·.key)

/-- removing the unique element with key `k` -/
theorem perm_filter_key {α} (f : α → Nat) (k : Nat) : ∀ l : List α, k ∈ l.map f → (l.map f).Nodup →
    (l.map f).Perm (k :: (l.filter (fun x => f x != k)).map f) := by
  intro l
  induction l with
  | nil => intro h; simp at h
  | cons x r ih =>
    intro hk hn
    simp only [List.map_cons, List.nodup_cons] at hn
    by_cases hx : f x = k
    · have hnot : k ∉ r.map f := hx ▸ hn.1
      have hfil : r.filter (fun x => f x != k) = r := by
        rw [List.filter_eq_self]
        intro y hy
        have : f y ≠ k := fun e => hnot (e ▸ List.mem_map_of_mem hy)
        simpa using this
      simp only [List.map_cons, List.filter_cons, hx, bne_self_eq_false, Bool.false_eq_true, if_false, hfil]
      exact List.Perm.refl _
    · have hk' : k ∈ r.map f := by
        simp only [List.map_cons, List.mem_cons] at hk
        rcases hk with e | e
        · exact absurd e.symm hx
        · exact e
      have hb : (f x != k) = true := by simpa using hx
      simp only [List.map_cons, List.filter_cons, hb, if_true]
      exact ((ih hk' hn.2).cons (f x)).trans (List.Perm.swap _ _ _)

theorem isWaiting_iff (k : Nat) (w : List (Nat × Option Nat)) : isWaiting k w = true ↔ k ∈ w.map (·.1) := by
  simp only [isWaiting, List.any_eq_true, List.mem_map, beq_iff_eq]

theorem dropKey_keys_sublist (k : Nat) (w : List (Nat × Option Nat)) :
    ((dropKey k w).map (·.1)).Sublist (w.map (·.1)) :=
  (List.filter_sublist).map _

theorem processQueue_live (q : List Nat) : ∀ s : St, (s.waiting.map (·.1)).Nodup →
    (live (processQueue q s).1).Perm (live s) ∧ (processQueue q s).1.parent = s.parent ∧
      completesOf (processQueue q s).2 = [] := by
  induction q with
  | nil => intro s _; exact ⟨List.Perm.refl _, rfl, rfl⟩
  | cons k q ih =>
    intro s hn
    unfold processQueue
    split
    · split
      · rename_i hw
        simp only
        have hk : k ∈ s.waiting.map (·.1) := (isWaiting_iff k s.waiting).1 hw
        have hp := perm_filter_key (fun x : Nat × Option Nat => x.1) k s.waiting hk hn
        have := ih { s with waiting := dropKey k s.waiting, active := s.active ++ [k],
                            conns := s.conns ++ [{ key := k, deadline := s.now + (lookup k s.tmo).getD 0, connected := false }] }
          (hn.sublist (dropKey_keys_sublist k s.waiting))
        refine ⟨this.1.trans ?_, this.2.1, ?_⟩
        · simp only [live, List.map_append, List.map_cons, List.map_nil]
          have h1 : (s.waiting.map (·.1) ++ s.conns.map (·.key)).Perm
              (k :: ((dropKey k s.waiting).map (·.1) ++ s.conns.map (·.key))) :=
            hp.append_right _
          refine List.Perm.trans ?_ h1.symm
          rw [← List.append_assoc]
          exact List.perm_append_singleton _ _ |>.trans (List.Perm.refl _)
        · rw [completesOf_cons_start]; exact this.2.2
      · exact ih s hn
    · exact ⟨List.Perm.refl _, rfl, rfl⟩

theorem live_nodup_waiting (s : St) (h : (live s).Nodup) : (s.waiting.map (·.1)).Nodup :=
  (List.nodup_append.1 h).1

theorem live_nodup_conns (s : St) (h : (live s).Nodup) : (s.conns.map (·.key)).Nodup :=
  (List.nodup_append.1 h).2.1

theorem release_live (s : St) (k : Nat) (hk : k ∈ s.conns.map (·.key)) (hn : (live s).Nodup) :
    (live s).Perm (k :: live (release s k).1) ∧ (release s k).1.parent = s.parent ∧
      completesOf (release s k).2 = [] := by
  unfold release
  have h := processQueue_live s.queue { s with active := s.active.erase k, conns := s.conns.filter (·.key != k) }
    (live_nodup_waiting s hn)
  refine ⟨?_, h.2.1, h.2.2⟩
  have hp := perm_filter_key (fun c : Conn => c.key) k s.conns hk (live_nodup_conns s hn)
  have h1 : (live s).Perm (k :: (s.waiting.map (·.1) ++ (s.conns.filter (·.key != k)).map (·.key))) := by
    simp only [live]
    exact (hp.append_left _).trans List.perm_middle
  exact h1.trans (h.1.symm.cons k)

/-- the state `fetch_impl` hands to `_process_queue` -/
def fetchSt (s : St) (k T : Nat) : St :=
  { s with queue := s.queue ++ [k], tmo := (k, T) :: s.tmo,
           waiting := s.waiting ++ [(k, if (decide (s.active.length ≥ s.maxClients) && decide (T > 0)) = true
             then some (s.now + T) else none)] }

theorem doFetch_eq (s : St) (k T : Nat) : doFetch s k T = processQueue (s.queue ++ [k]) (fetchSt s k T) := rfl

theorem fetchSt_waiting_nodup (s : St) (k T : Nat) (hk : k ∉ live s) (hn : (live s).Nodup) :
    ((fetchSt s k T).waiting.map (·.1)).Nodup := by
  have hkw : k ∉ s.waiting.map (·.1) := fun h => hk (List.mem_append_left _ h)
  simp only [fetchSt, List.map_append, List.map_cons, List.map_nil]
  rw [List.nodup_append]
  refine ⟨live_nodup_waiting s hn, by simp, ?_⟩
  intro a ha b hb
  simp only [List.mem_singleton] at hb
  subst hb
  exact fun e => hkw (e ▸ ha)

theorem doFetch_live (s : St) (k T : Nat) (hk : k ∉ live s) (hn : (live s).Nodup) :
    (live (doFetch s k T).1).Perm (k :: live s) ∧ (doFetch s k T).1.parent = s.parent ∧
      completesOf (doFetch s k T).2 = [] := by
  rw [doFetch_eq]
  have h := processQueue_live (s.queue ++ [k]) (fetchSt s k T) (fetchSt_waiting_nodup s k T hk hn)
  refine ⟨h.1.trans ?_, h.2.1, h.2.2⟩
  simp only [live, fetchSt, List.map_append, List.map_cons, List.map_nil, List.append_assoc]
  exact List.perm_middle

end TornadoModel.C09
