/- C09 — property theorems (part B: redirects; part A: admission). -/
import TornadoModel.C09.Lemmas
import TornadoModel.C09.Admission
import TornadoModel.C09.Active
namespace TornadoModel.C09
open TornadoModel.C06

/-! ### redirects -/

/-- everything `rewrite` guarantees about a followed hop, in one place -/
theorem rewrite_follow (r r' : Req) (hp : Hop) (e : rewrite r hp = .follow r') :
    shouldFollow r hp = true ∧ ∃ h0 h2, copy r.headers = .ok h0 ∧
      delItem (if crossOrigin hp then delIfPresent (delIfPresent h0 nAuthorization) nCookie else h0) nHost = .ok h2 ∧
      r' = { r with
        url := if crossOrigin hp then (if hp.newNetloc.contains 64 then hp.stripped else hp.normalized) else hp.joined,
        headers := if becomesGet r hp then
            delIfPresent (delIfPresent (delIfPresent (delIfPresent h2 nContentLength) nContentType) nContentEncoding)
              nTransferEncoding
          else h2,
        authUser := r.authUser && !crossOrigin hp,
        maxRedirects := r.maxRedirects - 1,
        method := if becomesGet r hp then mGET else r.method,
        hasBody := if becomesGet r hp then false else r.hasBody } := by
  unfold rewrite at e
  split at e
  · cases e
  · rename_i hs
    split at e
    · cases e
    · split at e
      · cases e
      · rename_i h0 hc
        simp only at e
        split at e
        · cases e
        · split at e
          · cases e
          · rename_i h2 hd
            cases e
            exact ⟨by simpa using hs, h0, h2, hc, hd, rfl⟩

/-- a hop is only followed when the new URL could be parsed: `urljoin`/`urlsplit` did not raise, and on the
    cross-origin userinfo path neither did `.port` (otherwise `finish()` raises with `final_callback` still set) -/
theorem rewrite_follow_parses (r r' : Req) (hp : Hop) (e : rewrite r hp = .follow r') :
    hp.joinRaises = false ∧ (crossOrigin hp && hp.newNetloc.contains 64 && hp.portRaises) = false := by
  unfold rewrite at e
  split at e
  · cases e
  · split at e
    · cases e
    · rename_i hj
      split at e
      · cases e
      · simp only at e
        split at e
        · cases e
        · rename_i hpz
          exact ⟨by simpa using hj, by simpa using hpz⟩

/-- a followed hop consumes one unit of `max_redirects`, and there was one to consume -/
theorem follow_decrements (r r' : Req) (hp : Hop) (e : rewrite r hp = .follow r') :
    0 < r.maxRedirects ∧ r'.maxRedirects = r.maxRedirects - 1 := by
  obtain ⟨hs, h0, h2, _, _, rfl⟩ := rewrite_follow r r' hp e
  refine ⟨?_, rfl⟩
  simp [shouldFollow] at hs
  exact hs.1.2

/-- **redirect_bounded**: whatever the servers answer, at most `max_redirects` further requests are issued. -/
theorem redirect_bounded (l : List (Prep × Hop)) : ∀ r : Req, (chain r l).length ≤ r.maxRedirects := by
  induction l with
  | nil => intro r; simp [chain]
  | cons ph rest ih =>
    intro r
    obtain ⟨p, hp⟩ := ph
    simp only [chain]
    split
    · rename_i r' e
      have := follow_decrements _ r' hp e
      have h2 := ih r'
      simp only [List.length_cons]
      simp only at this
      omega
    · simp

/-- **post_becomes_get**: a followed 303 (method ≠ HEAD) or 301/302 (method POST) is re-issued as a GET without a
    body and without Content-Length / Content-Type / Content-Encoding / Transfer-Encoding (any spelling). -/
theorem post_becomes_get (r r' : Req) (hp : Hop) (e : rewrite r hp = .follow r')
    (hc : (hp.code = 303 ∧ r.method ≠ mHEAD) ∨ ((hp.code = 301 ∨ hp.code = 302) ∧ r.method = mPOST)) :
    r'.method = mGET ∧ r'.hasBody = false ∧
      ∀ n, (normalize n = normalize nContentLength ∨ normalize n = normalize nContentType ∨
            normalize n = normalize nContentEncoding ∨ normalize n = normalize nTransferEncoding) →
        contains r'.headers n = false ∧ getList r'.headers n = [] := by
  obtain ⟨_, h0, h2, hcopy, hdel, rfl⟩ := rewrite_follow r r' hp e
  have hb : becomesGet r hp = true := by
    unfold becomesGet
    rcases hc with ⟨h1, h2⟩ | ⟨h1 | h1, h2⟩ <;> simp [h1, h2]
  simp only [hb, if_true]
  refine ⟨trivial, trivial, ?_⟩
  have w0 : WF h0 := wf_copy _ _ hcopy
  have w1 : WF (if crossOrigin hp then delIfPresent (delIfPresent h0 nAuthorization) nCookie else h0) := by
    split
    · exact wf_delIfPresent _ _ (wf_delIfPresent _ _ w0)
    · exact w0
  have w2 : WF h2 := wf_delItem _ _ _ w1 hdel
  have wa := wf_delIfPresent h2 nContentLength w2
  have wb := wf_delIfPresent _ nContentType wa
  have wc := wf_delIfPresent _ nContentEncoding wb
  have key : ∀ m, (m = nContentLength ∨ m = nContentType ∨ m = nContentEncoding ∨ m = nTransferEncoding) →
      contains (delIfPresent (delIfPresent (delIfPresent (delIfPresent h2 nContentLength) nContentType)
        nContentEncoding) nTransferEncoding) m = false := by
    intro m hm
    rcases hm with rfl | rfl | rfl | rfl
    · exact contains_delIfPresent_other _ _ _ (contains_delIfPresent_other _ _ _
        (contains_delIfPresent_other _ _ _ (contains_delIfPresent_self _ _ w2)))
    · exact contains_delIfPresent_other _ _ _ (contains_delIfPresent_other _ _ _ (contains_delIfPresent_self _ _ wa))
    · exact contains_delIfPresent_other _ _ _ (contains_delIfPresent_self _ _ wb)
    · exact contains_delIfPresent_self _ _ wc
  intro n hn
  have hcn : contains (delIfPresent (delIfPresent (delIfPresent (delIfPresent h2 nContentLength) nContentType)
        nContentEncoding) nTransferEncoding) n = false := by
    rcases hn with hn | hn | hn | hn
    · have := key nContentLength (Or.inl rfl); simpa [contains, hn] using this
    · have := key nContentType (Or.inr (Or.inl rfl)); simpa [contains, hn] using this
    · have := key nContentEncoding (Or.inr (Or.inr (Or.inl rfl))); simpa [contains, hn] using this
    · have := key nTransferEncoding (Or.inr (Or.inr (Or.inr rfl))); simpa [contains, hn] using this
  exact ⟨hcn, getList_of_not_contains _ _ hcn⟩

/-- **cross_origin_strips**: when scheme or netloc of the target differ from the original request's, the new request
    has no `auth_username`, its URL is the one with the userinfo removed, and no `Authorization` / `Cookie` value —
    of any multiplicity, under any spelling of the name — is left in its headers. -/
theorem cross_origin_strips (r r' : Req) (hp : Hop) (e : rewrite r hp = .follow r') (hx : crossOrigin hp = true) :
    r'.authUser = false ∧
      r'.url = (if hp.newNetloc.contains 64 then hp.stripped else hp.normalized) ∧
      ∀ n, (normalize n = normalize nAuthorization ∨ normalize n = normalize nCookie) →
        contains r'.headers n = false ∧ getList r'.headers n = [] := by
  obtain ⟨_, h0, h2, hcopy, hdel, rfl⟩ := rewrite_follow r r' hp e
  simp only [hx, if_true, Bool.not_true, Bool.and_false]
  refine ⟨trivial, trivial, ?_⟩
  have w0 : WF h0 := wf_copy _ _ hcopy
  have wA := wf_delIfPresent h0 nAuthorization w0
  simp only [hx, if_true] at hdel
  have cA : contains (delIfPresent (delIfPresent h0 nAuthorization) nCookie) nAuthorization = false :=
    contains_delIfPresent_other _ _ _ (contains_delIfPresent_self _ _ w0)
  have cC : contains (delIfPresent (delIfPresent h0 nAuthorization) nCookie) nCookie = false :=
    contains_delIfPresent_self _ _ wA
  have c2 : ∀ m, (m = nAuthorization ∨ m = nCookie) → contains h2 m = false := by
    intro m hm
    rcases hm with rfl | rfl
    · exact contains_delItem_other _ _ _ _ hdel cA
    · exact contains_delItem_other _ _ _ _ hdel cC
  have c3 : ∀ m, (m = nAuthorization ∨ m = nCookie) →
      contains (if becomesGet r hp = true then
        delIfPresent (delIfPresent (delIfPresent (delIfPresent h2 nContentLength) nContentType) nContentEncoding)
          nTransferEncoding else h2) m = false := by
    intro m hm
    split
    · exact contains_delIfPresent_other _ _ _ (contains_delIfPresent_other _ _ _
        (contains_delIfPresent_other _ _ _ (contains_delIfPresent_other _ _ _ (c2 m hm))))
    · exact c2 m hm
  intro n hn
  have hcn : contains (if becomesGet r hp = true then
        delIfPresent (delIfPresent (delIfPresent (delIfPresent h2 nContentLength) nContentType) nContentEncoding)
          nTransferEncoding else h2) n = false := by
    rcases hn with hn | hn
    · have := c3 nAuthorization (Or.inl rfl); simpa [contains, hn] using this
    · have := c3 nCookie (Or.inr rfl); simpa [contains, hn] using this
  exact ⟨hcn, getList_of_not_contains _ _ hcn⟩

/-- `run()`'s header edits add no credential header when the URL has no userinfo and `auth_username` is unset:
    whatever spelling `m` of Authorization / Cookie is absent from the request's headers stays absent from the
    headers that are written to the wire -/
theorem prepare_no_credentials (r : Req) (p : Prep) (m : Str) (hu : p.urlCreds = none) (ha : r.authUser = false)
    (hm : normalize m = normalize nAuthorization ∨ normalize m = normalize nCookie)
    (c : contains r.headers m = false) : contains (prepare r p) m = false := by
  have ne : ∀ x, (x = nConnection ∨ x = nHost ∨ x = nUserAgent ∨ x = nContentLength ∨ x = nContentType ∨
      x = nAcceptEncoding) → normalize x ≠ normalize m := by
    intro x hx e
    rcases hm with hm | hm <;> rw [hm] at e <;>
      rcases hx with rfl | rfl | rfl | rfl | rfl | rfl <;> revert e <;> decide
  unfold prepare
  simp only [hu, ha, Bool.false_eq_true, if_false]
  have s1 : contains (if contains r.headers nConnection = true then r.headers
      else setItem r.headers nConnection (str "close")) m = false := by
    split
    · exact c
    · exact contains_setItem_other _ _ _ _ (ne _ (by simp)) c
  generalize (if contains r.headers nConnection = true then r.headers
      else setItem r.headers nConnection (str "close")) = h1 at s1 ⊢
  have s2 : contains (if contains h1 nHost = true then h1 else setItem h1 nHost p.host) m = false := by
    split
    · exact s1
    · exact contains_setItem_other _ _ _ _ (ne _ (by simp)) s1
  generalize (if contains h1 nHost = true then h1 else setItem h1 nHost p.host) = h2 at s2 ⊢
  have s3 : contains (if contains h2 nUserAgent = true then h2 else setItem h2 nUserAgent p.userAgent) m = false := by
    split
    · exact s2
    · exact contains_setItem_other _ _ _ _ (ne _ (by simp)) s2
  generalize (if contains h2 nUserAgent = true then h2 else setItem h2 nUserAgent p.userAgent) = h3 at s3 ⊢
  have s4 : contains (if r.hasBody = true then setItem h3 nContentLength p.contentLength else h3) m = false := by
    split
    · exact contains_setItem_other _ _ _ _ (ne _ (by simp)) s3
    · exact s3
  generalize (if r.hasBody = true then setItem h3 nContentLength p.contentLength else h3) = h4 at s4 ⊢
  have s5 : contains (if (decide (r.method = mPOST) && !contains h4 nContentType) = true then
      setItem h4 nContentType (str "application/x-www-form-urlencoded") else h4) m = false := by
    split
    · exact contains_setItem_other _ _ _ _ (ne _ (by simp)) s4
    · exact s4
  generalize (if (decide (r.method = mPOST) && !contains h4 nContentType) = true then
      setItem h4 nContentType (str "application/x-www-form-urlencoded") else h4) = h5 at s5 ⊢
  split
  · exact contains_setItem_other _ _ _ _ (ne _ (by simp)) s5
  · exact s5

/-- **cross_origin_wire_clean** (the wire-level half of the stripping clause): the header block `run()` writes for a
    cross-origin redirect target — `prepare r' p`, i.e. after Host / Authorization-from-credentials / User-Agent /
    Content-Length / … have been (re-)added — contains no `Authorization` and no `Cookie` under any spelling,
    provided the new URL carries no userinfo (`p.urlCreds = none`: what `urlsplit(new_request.url).username is None`
    means; that the rewritten URL `host[:port]` has no userinfo is `urllib.parse`'s contract, checked on the wire by
    the oracle on every run).  `auth_username` cannot re-add it: `rewrite` cleared it. -/
theorem cross_origin_wire_clean (r r' : Req) (hp : Hop) (p : Prep) (e : rewrite r hp = .follow r')
    (hx : crossOrigin hp = true) (hu : p.urlCreds = none) :
    ∀ n, (normalize n = normalize nAuthorization ∨ normalize n = normalize nCookie) →
      contains (prepare r' p) n = false ∧ getList (prepare r' p) n = [] := by
  obtain ⟨ha, _, hh⟩ := cross_origin_strips r r' hp e hx
  intro n hn
  have c := prepare_no_credentials r' p n hu ha hn (hh n hn).1
  exact ⟨c, getList_of_not_contains _ _ c⟩

/-- the code's origin test (scheme and netloc strings) is at least as strict as "scheme, host or port differ",
    whatever function extracts host and port from a netloc -/
theorem cross_origin_of_differs {α : Type} (hostport : Str → α) (hp : Hop)
    (h : hp.origScheme ≠ hp.newScheme ∨ hostport hp.origNetloc ≠ hostport hp.newNetloc) : crossOrigin hp = true := by
  unfold crossOrigin
  rcases h with h | h
  · simp [h]
  · have : hp.origNetloc ≠ hp.newNetloc := fun e => h (by rw [e])
    simp [this]


/-! ### admission -/

/-- **active_le_max**: after any sequence of fetches, connection outcomes, responses, redirects and timer firings the
    number of requests in progress is at most `max_clients`. -/
theorem active_le_max (mx : Nat) (ops : List Op) : (run (init mx) ops).1.active.length ≤ mx := by
  have h := run_bounded ops (init mx) (by simp [Bounded, init])
  have h1 := h.1
  rw [Bounded, h.2] at h1
  exact h1

/-- **fifo_start**: the keys whose connections are started, in the order they are started, form a subsequence of the
    keys in submission order (a request may leave the queue by timing out, never by overtaking). -/
theorem fifo_start (mx : Nat) (ops : List Op) : (starts (run (init mx) ops).2).Sublist (submitted ops) := by
  simpa [init] using run_fifo ops (init mx)

/-- the executable check used on the implementation's traces agrees with `List.Sublist` -/
theorem isSubseq_iff (a b : List Nat) : Spec.isSubseq a b = true ↔ a.Sublist b := by
  induction b generalizing a with
  | nil => cases a <;> simp [Spec.isSubseq]
  | cons y ys ih =>
    cases a with
    | nil => simp [Spec.isSubseq]
    | cons x xs =>
      simp only [Spec.isSubseq]
      split
      · rename_i h; subst h; rw [ih]; exact ⟨fun h => h.cons_cons _, fun h => List.Sublist.of_cons_cons h⟩
      · rename_i h
        rw [ih]
        constructor
        · exact fun hs => hs.cons _
        · intro hs
          cases hs with
          | cons _ h' => exact h'
          | cons_cons _ h' => exact absurd rfl h

/-- non-vacuity: with max_clients = 1, three fetches queue up; the first fails to connect, the second times out in the
    queue (T = 2 ticks) while the third is started after the first is released. -/
example : starts (run (init 1) [.fetch 0 50, .fetch 1 2, .fetch 2 60, .advance 5, .connFail 0]).2 = [0, 2] := by decide
example : (run (init 1) [.fetch 0 50, .fetch 1 2, .fetch 2 60, .advance 5, .connFail 0]).1.active = [2] := by decide
example : completions (run (init 1) [.fetch 0 50, .fetch 1 2, .fetch 2 60, .advance 5, .connFail 0]).2 = [1, 0] := by decide

/-- **admission_conservation** (the partition invariant): at every moment of every run with distinct keys, the fetches
    completed so far together with the roots (the fetch a key ultimately belongs to, through redirects) of the keys
    still waiting in the queue or in `active` are a permutation of the fetched keys — every fetch is in exactly one
    of {completed, waiting, active}, exactly once; and no key is both waiting and active or listed twice. -/
theorem admission_conservation (mx : Nat) (ops : List Op) (hn : (submitted ops).Nodup) :
    (completions (run (init mx) ops).2 ++
      ((run (init mx) ops).1.waiting.map (·.1) ++ (run (init mx) ops).1.active).map
        (run (init mx) ops).1.root).Perm (fetchedOf ops) ∧
    (fetchedOf ops).Nodup ∧ ((run (init mx) ops).1.waiting.map (·.1) ++ (run (init mx) ops).1.active).Nodup := by
  have h := run_init_inv mx ops hn
  have hA : (run (init mx) ops).1.active = (run (init mx) ops).1.conns.map (·.key) := run_init_AC mx ops hn
  rw [hA]
  refine ⟨?_, h.fnodup, h.live_nodup⟩
  have hr : (live (run (init mx) ops).1).map (run (init mx) ops).1.root =
      (live (run (init mx) ops).1).map (rootL (run (init mx) ops).1.parent) :=
    List.map_congr_left (fun k _ => root_eq_rootL _ h.wfp k)
  have hp := h.perm
  rw [← hr] at hp
  exact hp

/-- `active` is exactly the list of keys that own an open connection (so `_release` always finds its key) -/
theorem active_eq_conns (mx : Nat) (ops : List Op) (hn : (submitted ops).Nodup) :
    (run (init mx) ops).1.active = (run (init mx) ops).1.conns.map (·.key) := run_init_AC mx ops hn

/-- no fetch completes twice, at any point of any run -/
theorem completions_nodup (mx : Nat) (ops : List Op) (hn : (submitted ops).Nodup) :
    (completions (run (init mx) ops).2).Nodup := (run_init_inv mx ops hn).done_nodup

/-- **complete_exactly_once** (the former stretch goal, statement unchanged): with distinct keys no fetch is completed
    twice — by a queue timeout *and* a connection callback, or by two connection callbacks. -/
theorem complete_exactly_once :
    ∀ (mx : Nat) (ops : List Op), (submitted ops).Nodup → 0 < mx →
      (∀ k T, Op.fetch k T ∈ ops → 0 < T) →
      let evs := (run (init mx) (ops ++ [.advance 1000000000])).2
      (completions evs).Nodup := by
  intro mx ops hn _ _
  refine completions_nodup mx _ ?_
  rw [submitted_append]
  simpa [submitted] using hn

/-- **every_fetch_completes_once**: if every timeout is positive and at most `B`, then after a final `advance` of at
    least `B` per fetch nothing is waiting or connected any more and the completions are a permutation of the fetched
    keys: every fetch completed, exactly once (queue timeout, connect/request timeout, connection failure or response
    — of the request itself or of the last redirect target). -/
theorem every_fetch_completes_once (mx B dt : Nat) (ops : List Op) (hn : (submitted ops).Nodup)
    (hT : ∀ k T, Op.fetch k T ∈ ops → 0 < T ∧ T ≤ B) (hdt : (fetchedOf ops).length * B ≤ dt) :
    (completions (run (init mx) (ops ++ [.advance dt])).2).Perm (fetchedOf ops) ∧ (fetchedOf ops).Nodup ∧
      (run (init mx) (ops ++ [.advance dt])).1.waiting = [] ∧ (run (init mx) (ops ++ [.advance dt])).1.conns = [] := by
  have hn' : (submitted (ops ++ [.advance dt])).Nodup := by
    rw [submitted_append]; simpa [submitted] using hn
  have h := run_init_inv mx (ops ++ [.advance dt]) hn'
  have hd := drained mx B dt ops hn hT hdt
  have hp := h.perm
  rw [hd, fetchedOf_append] at hp
  have hf : fetchedOf [Op.advance dt] = [] := rfl
  rw [hf] at hp
  simp only [List.map_nil, List.append_nil] at hp
  have hnd := h.fnodup
  rw [fetchedOf_append, hf, List.append_nil] at hnd
  simp only [live, List.append_eq_nil_iff, List.map_eq_nil_iff] at hd
  exact ⟨hp, hnd, hd.1, hd.2⟩

/-- the executable oracle applied to the implementation's traces accepts exactly this situation -/
theorem onceOk_of_perm (roots comps : List Nat) (hn : roots.Nodup) (hp : comps.Perm roots) :
    Spec.onceOk roots comps = true := by
  simp only [Spec.onceOk, Bool.and_eq_true, List.all_eq_true, decide_eq_true_eq, List.contains_iff_mem]
  constructor
  · intro r hr
    rw [hp.count_eq r, hn.count, if_pos hr]
  · intro c hc
    exact hp.mem_iff.1 hc

/-- the model passes the oracle `Spec.onceOk` that the harness applies to the real client -/
theorem every_fetch_onceOk (mx B dt : Nat) (ops : List Op) (hn : (submitted ops).Nodup)
    (hT : ∀ k T, Op.fetch k T ∈ ops → 0 < T ∧ T ≤ B) (hdt : (fetchedOf ops).length * B ≤ dt) :
    Spec.onceOk (fetchedOf ops) (completions (run (init mx) (ops ++ [.advance dt])).2) = true :=
  have h := every_fetch_completes_once mx B dt ops hn hT hdt
  onceOk_of_perm _ _ h.2.1 h.1

/-- non-vacuity: max_clients = 1; fetch 0 is redirected to key 3 (which has to queue behind fetch 1 and times out
    there), fetch 1 fails to connect, fetch 2 times out in the queue: hypotheses hold with B = 60, and the three
    fetches 0, 1, 2 each complete once. -/
def exOps : List Op :=
  [.fetch 0 50, .fetch 1 40, .fetch 2 3, .connOk 0, .advance 5, .redirect 0 3, .connFail 1]
example : (submitted exOps).Nodup ∧ (∀ k T, Op.fetch k T ∈ exOps → 0 < T ∧ T ≤ 60) ∧
    (fetchedOf exOps).length * 60 ≤ 180 := by
  refine ⟨by decide, ?_, by decide⟩
  intro k T h
  simp only [exOps, List.mem_cons, Op.fetch.injEq, List.mem_nil_iff, reduceCtorEq, or_false] at h
  omega
example : completions (run (init 1) (exOps ++ [.advance 180])).2 = [2, 1, 0] ∧ fetchedOf exOps = [0, 1, 2] := by decide
/-- … and in the middle of that run: fetch 2 timed out, key 1 is active, key 3 (root 0) waits -/
example : completions (run (init 1) (exOps.take 6)).2 = [2] ∧ (run (init 1) (exOps.take 6)).1.active = [1] ∧
    (run (init 1) (exOps.take 6)).1.waiting.map (·.1) = [3] ∧ (run (init 1) (exOps.take 6)).1.root 3 = 0 := by decide

/-- non-vacuity for the redirect theorems: a POST with a two-valued Cookie and an Authorization header, redirected by a
    303 to another host: followed, becomes GET, and nothing credential-like survives. -/
def exReq : Req :=
  { method := mPOST, hasBody := true, url := str "http://a.test/", authUser := true, maxRedirects := 2, follow := true,
    decompress := false,
    headers := (C06.run C06.empty [.add (str "Cookie") (str "a=1"), .add (str "cookie") (str "b=2"),
      .set (str "Authorization") (str "Bearer t"), .set (str "Host") (str "a.test")]).1 }
def exHop : Hop :=
  { code := 303, location := some (str "http://u:p@b.test/x"), origScheme := str "http", origNetloc := str "a.test",
    newScheme := str "http", newNetloc := str "u:p@b.test", joined := str "http://u:p@b.test/x",
    normalized := str "http://u:p@b.test/x", stripped := str "http://b.test/x" }
example : ∃ r', rewrite exReq exHop = .follow r' ∧ crossOrigin exHop = true ∧ r'.url = str "http://b.test/x" ∧
    r'.method = mGET ∧ getAll r'.headers = [] := by
  refine ⟨_, rfl, ?_⟩
  decide

/-- non-vacuity for `cross_origin_wire_clean`, and why its hypothesis is needed (the reviewer's witness): for the
    followed cross-origin hop above the wire headers are clean when the new URL has no userinfo — and `prepare` *does*
    write an Authorization header when it has. -/
def exPrep (c : Option Str) : Prep :=
  { host := str "b.test", urlCreds := c, authValue := str "", userAgent := str "t", contentLength := str "0" }
example : ∃ r', rewrite exReq exHop = .follow r' ∧ contains (prepare r' (exPrep none)) nAuthorization = false ∧
    contains (prepare r' (exPrep none)) nCookie = false ∧
    contains (prepare r' (exPrep (some (str "Basic dTpw")))) nAuthorization = true := by
  refine ⟨_, rfl, ?_⟩
  decide

/-- an unparsable `Location` (`urljoin` raises) or a bad port behind userinfo on a cross-origin hop: no request is
    issued, the exception escapes `finish()` (`Out.crash`) -/
example : rewrite exReq { exHop with joinRaises := true } = .crash ∧
    rewrite exReq { exHop with portRaises := true } = .crash ∧
    chain exReq [(exPrep none, { exHop with joinRaises := true })] = [] := by decide

/-- non-vacuity for the post-connect failures: max_clients = 1; fetch 0 is connected and its stream is then closed by
    the peer, which releases the slot to fetch 1; fetch 1 is redirected to key 2, whose response has an unparsable
    Location (`drop 2 crash`): every fetch completes exactly once, nothing is left. -/
def exDrop : List Op :=
  [.fetch 0 50, .fetch 1 40, .connOk 0, .drop 0 .closed, .connOk 1, .redirect 1 2, .connOk 2, .drop 2 .crash, .drop 2 .error]
example : (run (init 1) exDrop).2 =
    [[.start 0], [], [], [.start 1, .complete 0 .closed], [], [.start 2], [], [.complete 1 .crash], []] ∧
    (run (init 1) exDrop).1.active = [] ∧ (submitted exDrop).Nodup ∧ fetchedOf exDrop = [0, 1] := by decide

end TornadoModel.C09
