import TornadoModel.C09.Spec
namespace TornadoModel.C09
end TornadoModel.C09
