/- C09 — every live key has a timer that will fire: after a long enough `advance` nothing is left waiting or open. -/
import TornadoModel.C09.Inv3
namespace TornadoModel.C09

/-- timing invariant (`B` bounds every timeout): whoever waits sits in the queue behind a full `active` list with an
    armed queue timer; every timer is due within `B` of now; every live key has its timeout recorded -/
structure K (B : Nat) (s : St) : Prop where
  wq : ∀ x ∈ s.waiting, x.1 ∈ s.queue
  full : s.waiting ≠ [] → s.maxClients ≤ s.active.length
  armed : ∀ x ∈ s.waiting, ∃ t, x.2 = some t ∧ t ≤ s.now + B
  cdl : ∀ c ∈ s.conns, c.deadline ≤ s.now + B
  tmoB : ∀ x ∈ s.tmo, 0 < x.2 ∧ x.2 ≤ B
  ltmo : ∀ k ∈ live s, ∃ T, lookup k s.tmo = some T

theorem dropKey_length (k : Nat) (w : List (Nat × Option Nat)) (hk : k ∈ w.map (·.1)) (hn : (w.map (·.1)).Nodup) :
    w.length = (dropKey k w).length + 1 := by
  have := (perm_filter_key (fun x : Nat × Option Nat => x.1) k w hk hn).length_eq
  simpa [dropKey] using this

theorem mem_dropKey {k : Nat} {w : List (Nat × Option Nat)} {x : Nat × Option Nat} (h : x ∈ dropKey k w) :
    x ∈ w ∧ x.1 ≠ k := by
  simp only [dropKey, List.mem_filter, bne_iff_ne, ne_eq] at h
  exact h

theorem lookup_bound {B : Nat} {tmo : List (Nat × Nat)} (h : ∀ x ∈ tmo, 0 < x.2 ∧ x.2 ≤ B) (k : Nat) :
    (lookup k tmo).getD 0 ≤ B := by
  cases hl : lookup k tmo with
  | none => simp
  | some T => simpa using (h _ (lookup_mem k T tmo hl)).2

/-- what `_process_queue` establishes -/
theorem processQueue_post (B : Nat) (q : List Nat) : ∀ s : St,
    (∀ x ∈ s.waiting, x.1 ∈ q) → (s.waiting.map (·.1)).Nodup → (∀ x ∈ s.tmo, 0 < x.2 ∧ x.2 ≤ B) →
    (∀ c ∈ s.conns, c.deadline ≤ s.now + B) →
    (∀ x ∈ (processQueue q s).1.waiting, x.1 ∈ (processQueue q s).1.queue) ∧
    ((processQueue q s).1.waiting ≠ [] → (processQueue q s).1.maxClients ≤ (processQueue q s).1.active.length) ∧
    (∀ x ∈ (processQueue q s).1.waiting, x ∈ s.waiting) ∧
    (∀ c ∈ (processQueue q s).1.conns, c.deadline ≤ s.now + B) ∧
    (processQueue q s).1.now = s.now ∧ (processQueue q s).1.tmo = s.tmo ∧
    (processQueue q s).1.active.length + (processQueue q s).1.waiting.length = s.active.length + s.waiting.length := by
  induction q with
  | nil =>
    intro s h1 _ _ h4
    have hw : s.waiting = [] := by
      cases hw : s.waiting with
      | nil => rfl
      | cons x r => exact absurd (h1 x (hw ▸ List.mem_cons_self)) (by simp)
    simp only [processQueue]
    refine ⟨?_, ?_, fun x hx => hx, h4, trivial, trivial, trivial⟩
    · intro x hx; rw [hw] at hx; simp at hx
    · intro h; exact absurd hw h
  | cons k q ih =>
    intro s h1 h2 h3 h4
    unfold processQueue
    split
    · rename_i hlt
      split
      · rename_i hw
        simp only
        have hk : k ∈ s.waiting.map (·.1) := (isWaiting_iff k s.waiting).1 hw
        have := ih { s with waiting := dropKey k s.waiting, active := s.active ++ [k],
                            conns := s.conns ++ [{ key := k, deadline := s.now + (lookup k s.tmo).getD 0, connected := false }] }
          (by
            intro x hx
            have := mem_dropKey hx
            rcases List.mem_cons.1 (h1 x this.1) with e | e
            · exact absurd e this.2
            · exact e)
          (h2.sublist (dropKey_keys_sublist k s.waiting)) h3
          (by
            intro c hc
            rcases List.mem_append.1 hc with e | e
            · exact h4 c e
            · simp only [List.mem_singleton] at e
              subst e
              have := lookup_bound h3 k
              simp only; omega)
        obtain ⟨c1, c2, c3, c4, c5, c6, c7⟩ := this
        refine ⟨c1, c2, fun x hx => (mem_dropKey (c3 x hx)).1, c4, c5, c6, ?_⟩
        rw [c7]
        have := dropKey_length k s.waiting hk h2
        simp only [List.length_append, List.length_cons, List.length_nil]
        omega
      · rename_i hw
        have hk : k ∉ s.waiting.map (·.1) := fun e => hw ((isWaiting_iff k s.waiting).2 e)
        exact ih s (by
          intro x hx
          rcases List.mem_cons.1 (h1 x hx) with e | e
          · exact absurd (e ▸ List.mem_map_of_mem hx) hk
          · exact e) h2 h3 h4
    · rename_i hge
      refine ⟨h1, fun _ => by simpa using hge, fun x hx => hx, h4, rfl, rfl, rfl⟩

theorem release_K {B : Nat} {s : St} (h : K B s) (hn : (live s).Nodup) (k : Nat) : K B (release s k).1 := by
  have hq := processQueue_post B s.queue { s with active := s.active.erase k, conns := s.conns.filter (·.key != k) }
    h.wq (live_nodup_waiting s hn) h.tmoB (fun c hc => h.cdl c (List.mem_filter.1 hc).1)
  have hl := processQueue_live s.queue { s with active := s.active.erase k, conns := s.conns.filter (·.key != k) }
    (live_nodup_waiting s hn)
  obtain ⟨c1, c2, c3, c4, c5, c6, _⟩ := hq
  unfold release
  refine ⟨c1, c2, ?_, ?_, ?_, ?_⟩
  · intro x hx; rw [c5]; exact h.armed x (c3 x hx)
  · intro c hc; rw [c5]; exact c4 c hc
  · rw [c6]; exact h.tmoB
  · intro j hj
    rw [c6]
    have hj' := hl.1.mem_iff.1 hj
    apply h.ltmo
    simp only [live, List.mem_append, List.mem_map] at hj' ⊢
    rcases hj' with e | ⟨c, hc, e⟩
    · exact Or.inl e
    · exact Or.inr ⟨c, (List.mem_filter.1 hc).1, e⟩

theorem doFetch_K {B : Nat} {s : St} (h : K B s) (hn : (live s).Nodup) (k T : Nat) (hk : k ∉ live s)
    (hT : 0 < T ∧ T ≤ B) : K B (doFetch s k T).1 := by
  have hq := processQueue_post B (s.queue ++ [k]) (fetchSt s k T)
    (by
      intro x hx
      rcases List.mem_append.1 hx with e | e
      · exact List.mem_append_left _ (h.wq x e)
      · simp only [List.mem_singleton] at e; subst e; simp)
    (fetchSt_waiting_nodup s k T hk hn)
    (by
      intro x hx
      rcases List.mem_cons.1 hx with e | e
      · subst e; exact hT
      · exact h.tmoB x e)
    h.cdl
  have hl := doFetch_live s k T hk hn
  obtain ⟨c1, c2, c3, c4, c5, c6, c7⟩ := hq
  rw [doFetch_eq] at hl ⊢
  have hnow : (fetchSt s k T).now = s.now := rfl
  have htmo : (fetchSt s k T).tmo = (k, T) :: s.tmo := rfl
  have hact : (fetchSt s k T).active = s.active := rfl
  have hwait : (fetchSt s k T).waiting = s.waiting ++ [(k, if (decide (s.active.length ≥ s.maxClients) &&
      decide (T > 0)) = true then some (s.now + T) else none)] := rfl
  rw [hnow] at c4 c5
  rw [htmo] at c6
  rw [hact, hwait] at c7
  refine ⟨c1, c2, ?_, ?_, ?_, ?_⟩
  · intro x hx
    rw [c5]
    have hx' := c3 x hx
    rw [hwait] at hx'
    rcases List.mem_append.1 hx' with e | e
    · exact h.armed x e
    · simp only [List.mem_singleton] at e
      by_cases ha : s.active.length ≥ s.maxClients
      · have : (decide (s.active.length ≥ s.maxClients) && decide (T > 0)) = true := by simp [ha, hT.1]
        rw [this] at e
        subst e
        exact ⟨s.now + T, rfl, by have := hT.2; omega⟩
      · -- not armed: nobody was waiting, so the queue is walked up to `k` and `k` is started
        exfalso
        have hw : s.waiting = [] := by
          cases hw : s.waiting with
          | nil => rfl
          | cons y r => exact absurd (h.full (by simp [hw])) ha
        have h2 := c2 (List.ne_nil_of_mem hx)
        have hlen := List.length_pos_of_mem hx
        simp only [hw, List.nil_append, List.length_cons, List.length_nil] at c7
        have hmax : (processQueue (s.queue ++ [k]) (fetchSt s k T)).1.maxClients = s.maxClients :=
          (processQueue_bounded _ (fetchSt s k T) (Nat.le_of_lt (Nat.lt_of_not_ge ha))).2
        omega
  · intro c hc; rw [c5]; exact c4 c hc
  · rw [c6]
    intro x hx
    rcases List.mem_cons.1 hx with e | e
    · subst e; exact hT
    · exact h.tmoB x e
  · intro j hj
    rw [c6]
    rcases List.mem_cons.1 (hl.1.mem_iff.1 hj) with e | e
    · subst e; exact ⟨T, by simp [lookup]⟩
    · obtain ⟨T', hT'⟩ := h.ltmo j e
      simp only [lookup]
      split
      · exact ⟨T, rfl⟩
      · exact ⟨T', hT'⟩

theorem K.later {B : Nat} {s : St} (h : K B s) (n : Nat) (hn : s.now ≤ n) : K B { s with now := n } where
  wq := h.wq
  full := h.full
  armed := by
    intro x hx
    obtain ⟨t, e, ht⟩ := h.armed x hx
    exact ⟨t, e, by simp only; omega⟩
  cdl := by
    intro c hc
    have := h.cdl c hc
    simp only; omega
  tmoB := h.tmoB
  ltmo := h.ltmo

theorem K.queueTimeout {B : Nat} {s : St} (h : K B s) (k : Nat) :
    K B { s with queue := s.queue.erase k, waiting := dropKey k s.waiting } where
  wq := by
    intro x hx
    have := mem_dropKey hx
    exact (List.mem_erase_of_ne this.2).2 (h.wq x this.1)
  full := by
    intro hne
    apply h.full
    intro e
    apply hne
    simp [dropKey, e]
  armed := fun x hx => h.armed x (mem_dropKey hx).1
  cdl := h.cdl
  tmoB := h.tmoB
  ltmo := by
    intro j hj
    apply h.ltmo
    simp only [live, List.mem_append, List.mem_map] at hj ⊢
    rcases hj with ⟨x, hx, e⟩ | e
    · exact Or.inl ⟨x, (mem_dropKey hx).1, e⟩
    · exact Or.inr e

/-! ### one timer firing -/

/-- the state after the queue timer of `k` fired at `d` -/
def afterQ (s : St) (d k : Nat) : St :=
  { s with now := max s.now d, queue := s.queue.erase k, waiting := dropKey k s.waiting }
/-- the state after the connection timer of `k` fired at `d` -/
def afterC (s : St) (d k : Nat) : St := (release { s with now := max s.now d } k).1

theorem fireTimers_succ_none (f limit : Nat) (s : St) (h : nextTimer s limit = none) :
    fireTimers (f + 1) limit s = (s, []) := by
  simp only [fireTimers, h]

theorem fireTimers_succ_q (f limit : Nat) (s : St) (d k : Nat) (h : nextTimer s limit = some (d, k, true)) :
    fireTimers (f + 1) limit s =
      ((fireTimers f limit (afterQ s d k)).1, .complete (s.root k) .tmoQueue :: (fireTimers f limit (afterQ s d k)).2) := by
  simp only [fireTimers, h, afterQ]

theorem fireTimers_succ_c (f limit : Nat) (s : St) (d k : Nat) (h : nextTimer s limit = some (d, k, false)) :
    (fireTimers (f + 1) limit s).1 = (fireTimers f limit (afterC s d k)).1 := by
  simp only [fireTimers, h, afterC]

theorem afterQ_live {s : St} {done seen fetched : List Nat} (h : Inv s done seen fetched) (limit d k : Nat)
    (heq : nextTimer s limit = some (d, k, true)) : (live s).Perm (k :: live (afterQ s d k)) := by
  have hk := nextTimer_queue s limit d k heq
  have hp := perm_filter_key (fun x : Nat × Option Nat => x.1) k s.waiting hk (live_nodup_waiting s h.live_nodup)
  simp only [live, afterQ]
  exact hp.append_right _

theorem afterQ_inv {s : St} {done seen fetched : List Nat} (h : Inv s done seen fetched) (limit d k : Nat)
    (heq : nextTimer s limit = some (d, k, true)) :
    Inv (afterQ s d k) (done ++ [rootL s.parent k]) seen fetched :=
  h.complete _ k rfl (afterQ_live h limit d k heq)

theorem afterC_live {s : St} {done seen fetched : List Nat} (h : Inv s done seen fetched) (limit d k : Nat)
    (heq : nextTimer s limit = some (d, k, false)) : (live s).Perm (k :: live (afterC s d k)) :=
  (release_live { s with now := max s.now d } k (nextTimer_conn s limit d k heq) h.live_nodup).1

theorem afterC_inv {s : St} {done seen fetched : List Nat} (h : Inv s done seen fetched) (limit d k : Nat)
    (heq : nextTimer s limit = some (d, k, false)) :
    Inv (afterC s d k) (done ++ [rootL s.parent k]) seen fetched :=
  h.complete _ k (release_live { s with now := max s.now d } k (nextTimer_conn s limit d k heq) h.live_nodup).2.1
    (afterC_live h limit d k heq)

theorem afterQ_K {B : Nat} {s : St} (h : K B s) (d k : Nat) : K B (afterQ s d k) :=
  (h.later (max s.now d) (Nat.le_max_left _ _)).queueTimeout k

theorem afterC_K {B : Nat} {s : St} (h : K B s) (hn : (live s).Nodup) (d k : Nat) : K B (afterC s d k) :=
  release_K (h.later (max s.now d) (Nat.le_max_left _ _)) hn k

theorem afterQ_now (s : St) (d k : Nat) : (afterQ s d k).now = max s.now d := rfl

theorem afterC_now {B : Nat} {s : St} (h : K B s) (hn : (live s).Nodup) (d k : Nat) :
    (afterC s d k).now = max s.now d := by
  have hq := processQueue_post B s.queue
    { s with now := max s.now d, active := s.active.erase k, conns := s.conns.filter (·.key != k) }
    h.wq (live_nodup_waiting s hn) h.tmoB
    (fun c hc => by have := h.cdl c (List.mem_filter.1 hc).1; simp only; omega)
  exact hq.2.2.2.2.1

/-- the timing invariant and `now ≤ limit` survive any number of timer firings -/
theorem fireTimers_K {B : Nat} (limit : Nat) (seen fetched : List Nat) : ∀ (f : Nat) (s : St) (done : List Nat),
    Inv s done seen fetched → K B s → s.now ≤ limit →
      K B (fireTimers f limit s).1 ∧ (fireTimers f limit s).1.now ≤ limit := by
  intro f
  induction f with
  | zero => intro s done h hK hl; exact ⟨hK, hl⟩
  | succ f ih =>
    intro s done h hK hl
    cases heq : nextTimer s limit with
    | none => rw [fireTimers_succ_none f limit s heq]; exact ⟨hK, hl⟩
    | some t =>
      obtain ⟨d, k, b⟩ := t
      have hd := (nextTimer_mem s limit d k b heq).1
      cases b with
      | true =>
        rw [fireTimers_succ_q f limit s d k heq]
        exact ih _ _ (afterQ_inv h limit d k heq) (afterQ_K hK d k) (by rw [afterQ_now]; omega)
      | false =>
        rw [fireTimers_succ_c f limit s d k heq]
        exact ih _ _ (afterC_inv h limit d k heq) (afterC_K hK h.live_nodup d k)
          (by rw [afterC_now hK h.live_nodup]; omega)

/-! ### draining -/

theorem foldl_pick_none (limit : Nat) : ∀ (l : List (Nat × Nat × Bool)) (best : Option (Nat × Nat × Bool)),
    l.foldl (pickF limit) best = none → ∀ t ∈ l, limit < t.1 := by
  intro l
  induction l with
  | nil => intro _ _ t ht; simp at ht
  | cons x l ih =>
    intro best h t ht
    simp only [List.foldl_cons] at h
    rcases List.mem_cons.1 ht with e | e
    · subst e
      rcases Nat.lt_or_ge limit t.1 with hlt | hge
      · exact hlt
      · exfalso
        have hsome : ∃ r, pickF limit best t = some r := by
          unfold pickF
          rw [if_pos hge]
          cases best with
          | none => exact ⟨_, rfl⟩
          | some b => simp only; split <;> exact ⟨_, rfl⟩
        obtain ⟨r, hr⟩ := hsome
        rw [hr] at h
        -- a `some` accumulator never becomes `none`
        have hkeep : ∀ (l : List (Nat × Nat × Bool)) (r : Nat × Nat × Bool),
            ∃ r', l.foldl (pickF limit) (some r) = some r' := by
          intro l
          induction l with
          | nil => intro r; exact ⟨r, rfl⟩
          | cons y l ih2 =>
            intro r
            simp only [List.foldl_cons]
            have : ∃ r'', pickF limit (some r) y = some r'' := by
              unfold pickF
              split
              · simp only; split <;> exact ⟨_, rfl⟩
              · exact ⟨_, rfl⟩
            obtain ⟨r'', e⟩ := this
            rw [e]; exact ih2 r''
        obtain ⟨r', hr'⟩ := hkeep l r
        rw [hr'] at h
        cases h
    · exact ih _ h t e

theorem nextTimer_none (s : St) (limit : Nat) (h : nextTimer s limit = none) :
    (∀ x ∈ s.waiting, ∀ t, x.2 = some t → limit < t) ∧ (∀ c ∈ s.conns, limit < c.deadline) := by
  rw [nextTimer_eq] at h
  have hall := foldl_pick_none limit _ none h
  constructor
  · intro x hx t ht
    obtain ⟨k, d⟩ := x
    simp only at ht
    subst ht
    have := hall (t, k, true) (List.mem_append_left _ (List.mem_filterMap.2 ⟨(k, some t), hx, rfl⟩))
    exact this
  · intro c hc
    exact hall (c.deadline, c.key, false) (List.mem_append_right _ (List.mem_map.2 ⟨c, hc, rfl⟩))

/-- with enough fuel and a far enough limit, firing timers leaves nothing live -/
theorem fireTimers_drain {B : Nat} (limit : Nat) (seen fetched : List Nat) : ∀ (f : Nat) (s : St) (done : List Nat),
    Inv s done seen fetched → K B s → (live s).length ≤ f → s.now + (live s).length * B ≤ limit →
      live (fireTimers f limit s).1 = [] := by
  intro f
  induction f with
  | zero =>
    intro s done _ _ hlen _
    simp only [fireTimers]
    exact List.eq_nil_of_length_eq_zero (by omega)
  | succ f ih =>
    intro s done h hK hlen hlim
    cases heq : nextTimer s limit with
    | none =>
      rw [fireTimers_succ_none f limit s heq]
      have hnone := nextTimer_none s limit heq
      cases hw : s.waiting with
      | cons x r =>
        exfalso
        have hx : x ∈ s.waiting := hw ▸ List.mem_cons_self
        obtain ⟨t, e, ht⟩ := hK.armed x hx
        have := hnone.1 x hx t e
        have hpos : 1 ≤ (live s).length := by simp [live, hw]
        have : B ≤ (live s).length * B := Nat.le_mul_of_pos_left B hpos
        omega
      | nil =>
        cases hc : s.conns with
        | cons c r =>
          exfalso
          have hx : c ∈ s.conns := hc ▸ List.mem_cons_self
          have h1 := hK.cdl c hx
          have h2 := hnone.2 c hx
          have hpos : 1 ≤ (live s).length := by simp [live, hc]; omega
          have : B ≤ (live s).length * B := Nat.le_mul_of_pos_left B hpos
          omega
        | nil => simp [live, hw, hc]
    | some t =>
      obtain ⟨d, k, b⟩ := t
      have hm := nextTimer_mem s limit d k b heq
      cases b with
      | true =>
        rw [fireTimers_succ_q f limit s d k heq]
        have hp := (afterQ_live h limit d k heq).length_eq
        simp only [List.length_cons] at hp
        have hdB : d ≤ s.now + B := by
          rcases hm.2 with ⟨_, hmem⟩ | ⟨hb, _⟩
          · obtain ⟨t, e, ht⟩ := hK.armed _ hmem
            simp only [Option.some.injEq] at e
            omega
          · cases hb
        refine ih _ _ (afterQ_inv h limit d k heq) (afterQ_K hK d k) (by omega) ?_
        rw [afterQ_now]
        rw [hp, Nat.add_mul] at hlim
        have : max s.now d ≤ s.now + B := by omega
        omega
      | false =>
        rw [fireTimers_succ_c f limit s d k heq]
        have hp := (afterC_live h limit d k heq).length_eq
        simp only [List.length_cons] at hp
        have hdB : d ≤ s.now + B := by
          rcases hm.2 with ⟨hb, _⟩ | ⟨_, c, hc, _, hcd⟩
          · cases hb
          · have := hK.cdl c hc
            omega
        refine ih _ _ (afterC_inv h limit d k heq) (afterC_K hK h.live_nodup d k) (by omega) ?_
        rw [afterC_now hK h.live_nodup]
        rw [hp, Nat.add_mul] at hlim
        have : max s.now d ≤ s.now + B := by omega
        omega

end TornadoModel.C09
