/-
C09 — model of `SimpleAsyncHTTPClient` admission control and of the redirect rewrite (core Lean only).

Part A (anchors: `fetch_impl`, `_process_queue`, `_release_fetch`, `_remove_timeout`, `_on_timeout`,
`_HTTPConnection.__init__/run/_on_timeout/_run_callback/_release/finish`): a machine over
`queue / active / waiting` plus the open connections and their timers, driven by
`fetch k T | connFail k | connOk k | respond k | redirect k k' | drop k how | advance dt`.
Time is a `Nat` (1/1024 s); `advance` fires due timers in deadline order (the harness keeps
deadlines distinct).  Outputs per op: keys started (in order), fetches completed (root key, how).

Part B (anchors: `_HTTPConnection.run` header edits, `_should_follow_redirect`, the rewrite in `finish`):
`prepare` and `rewrite` over the C06 header model.  What `urllib.parse` computes (urljoin, urlsplit fields,
urlunsplit) and base64 are data supplied with each hop.

Modelled after the `fix:` commits (HTTPHeaders.__delitem__ — D1; redirect target failing with a non-HTTP
error completes the original fetch — D21).
-/
import TornadoModel.C06.Model
namespace TornadoModel.C09
open TornadoModel.C06

/-! ## Part A — admission -/

inductive How where
  | ok | connFail | tmoQueue | tmoConnect | tmoRequest
  | closed      -- the connected stream was closed before the response was complete (`HTTPStreamClosedError`)
  | error       -- … it failed with an error (`StreamClosedError.real_error`)
  | crash       -- a delegate callback raised (`finish()` on an unparsable `Location`, `on_connection_close` re-raising)
  deriving Repr, BEq, DecidableEq

inductive Ev where
  | start (k : Nat)
  | complete (root : Nat) (how : How)
  deriving Repr, BEq, DecidableEq

structure Conn where
  key : Nat
  deadline : Nat
  connected : Bool
  deriving Repr, BEq, DecidableEq

structure St where
  now : Nat := 0
  maxClients : Nat
  queue : List Nat := []
  active : List Nat := []
  waiting : List (Nat × Option Nat) := []   -- key ↦ deadline of the queue-timeout timer, if one was armed
  conns : List Conn := []                    -- connections whose final_callback is still set
  tmo : List (Nat × Nat) := []               -- key ↦ its connect_timeout = request_timeout
  parent : List (Nat × Nat) := []            -- key of a redirect's new request ↦ key of the request it replaces
  deriving Repr, BEq, DecidableEq

inductive Op where
  | fetch (k T : Nat)
  | connFail (k : Nat)
  | connOk (k : Nat)
  | respond (k : Nat)
  | redirect (k k' : Nat)
  | drop (k : Nat) (how : How)   -- the connected stream ends the request without a usable response
  | advance (dt : Nat)
  deriving Repr, BEq, DecidableEq

def lookup (k : Nat) : List (Nat × Nat) → Option Nat
  | [] => none
  | (a, b) :: r => if a = k then some b else lookup k r

def isWaiting (k : Nat) (w : List (Nat × Option Nat)) : Bool := w.any (·.1 == k)
def dropKey {β} (k : Nat) (w : List (Nat × β)) : List (Nat × β) := w.filter (·.1 != k)

/-- the fetch this key ultimately belongs to (follow `parent` links; fuel = number of links) -/
def rootOf (parent : List (Nat × Nat)) : Nat → Nat → Nat
  | 0, k => k
  | f + 1, k => match lookup k parent with | some p => rootOf parent f p | none => k

def St.root (s : St) (k : Nat) : Nat := rootOf s.parent s.parent.length k

/-- `_process_queue`, iterating over the queue it was called with -/
def processQueue : List Nat → St → St × List Ev
  | [], s => ({ s with queue := [] }, [])
  | k :: q, s =>
    if s.active.length < s.maxClients then
      if isWaiting k s.waiting then
        let T := (lookup k s.tmo).getD 0
        let s' := { s with waiting := dropKey k s.waiting, active := s.active ++ [k],
                           conns := s.conns ++ [{ key := k, deadline := s.now + T, connected := false }] }
        let (s'', evs) := processQueue q s'
        (s'', .start k :: evs)
      else processQueue q s
    else ({ s with queue := k :: q }, [])

/-- `_HTTPConnection._release` → `_release_fetch` (→ `_process_queue`) -/
def release (s : St) (k : Nat) : St × List Ev :=
  let s1 := { s with active := s.active.erase k, conns := s.conns.filter (·.key != k) }
  processQueue s1.queue s1

/-- `fetch_impl` -/
def doFetch (s : St) (k T : Nat) : St × List Ev :=
  let armed := decide (s.active.length ≥ s.maxClients) && decide (T > 0)
  let s1 := { s with queue := s.queue ++ [k], tmo := (k, T) :: s.tmo,
                     waiting := s.waiting ++ [(k, if armed then some (s.now + T) else none)] }
  processQueue s1.queue s1

def findConn (s : St) (k : Nat) : Option Conn := s.conns.find? (·.key == k)

/-- the earliest timer that is due at `limit`: (deadline, key, it is a queue timer) -/
def nextTimer (s : St) (limit : Nat) : Option (Nat × Nat × Bool) :=
  let qs := s.waiting.filterMap (fun (k, d) => d.map (fun d => (d, k, true)))
  let cs := s.conns.map (fun c => (c.deadline, c.key, false))
  (qs ++ cs).foldl (fun best t =>
    if t.1 ≤ limit then
      match best with
      | none => some t
      | some b => if t.1 < b.1 then some t else some b
    else best) none

def fireTimers : Nat → Nat → St → St × List Ev
  | 0, _, s => (s, [])
  | f + 1, limit, s =>
    match nextTimer s limit with
    | none => (s, [])
    | some (d, k, true) =>
      -- SimpleAsyncHTTPClient._on_timeout: leaves the queue without ever starting
      let s1 := { s with now := max s.now d, queue := s.queue.erase k, waiting := dropKey k s.waiting }
      let (s2, evs) := fireTimers f limit s1
      (s2, .complete (s.root k) .tmoQueue :: evs)
    | some (d, k, false) =>
      -- _HTTPConnection._on_timeout → _handle_exception → _run_callback
      let how := match findConn s k with | some c => if c.connected then How.tmoRequest else How.tmoConnect | none => .tmoConnect
      let (s1, evs1) := release { s with now := max s.now d } k
      let (s2, evs2) := fireTimers f limit s1
      (s2, evs1 ++ .complete (s.root k) how :: evs2)

def step (s : St) : Op → St × List Ev
  | .fetch k T => doFetch s k T
  | .connFail k =>
    match findConn s k with
    | some c => if c.connected then (s, []) else
        let (s1, evs) := release s k
        (s1, evs ++ [.complete (s.root k) .connFail])
    | none => (s, [])       -- the connection already timed out: the late failure is dropped
  | .connOk k =>
    match findConn s k with
    | some c => if c.connected then (s, []) else
        ({ s with conns := s.conns.map (fun c => if c.key == k then { c with connected := true } else c) }, [])
    | none => (s, [])       -- timed out meanwhile: the stream is closed, nothing else happens
  | .respond k =>
    match findConn s k with
    | some c => if c.connected then
        let (s1, evs) := release s k
        (s1, evs ++ [.complete (s.root k) .ok])
      else (s, [])
    | none => (s, [])
  | .redirect k k' =>
    match findConn s k with
    | some c => if c.connected then
        -- finish(): final_callback handed over, _release(), then client.fetch(new_request)
        let (s1, evs1) := release s k
        let T := (lookup k s.tmo).getD 0
        let (s2, evs2) := doFetch { s1 with parent := (k', k) :: s1.parent } k' T
        (s2, evs1 ++ evs2)
      else (s, [])
    | none => (s, [])
  | .drop k how =>
    -- after connect: `on_connection_close` / `StreamClosedError` out of `read_response` / an exception escaping
    -- `finish()` (before `final_callback` is handed over) → `_handle_exception` → `_run_callback`
    match findConn s k with
    | some c => if c.connected then
        let (s1, evs) := release s k
        (s1, evs ++ [.complete (s.root k) how])
      else (s, [])
    | none => (s, [])       -- final_callback already gone (completed / timed out): `_handle_exception` does nothing
  | .advance dt =>
    let limit := s.now + dt
    let (s1, evs) := fireTimers (s.waiting.length + s.conns.length + s.queue.length + 1) limit s
    ({ s1 with now := limit }, evs)

def run (s : St) : List Op → St × List (List Ev)
  | [] => (s, [])
  | op :: ops => let (s1, e) := step s op; let (s2, es) := run s1 ops; (s2, e :: es)

def init (maxClients : Nat) : St := { maxClients := maxClients }

/-- keys started so far / fetches completed so far, in order -/
def starts (evs : List (List Ev)) : List Nat :=
  evs.flatten.filterMap (fun e => match e with | .start k => some k | _ => none)
def completions (evs : List (List Ev)) : List Nat :=
  evs.flatten.filterMap (fun e => match e with | .complete r _ => some r | _ => none)
/-- keys in submission order -/
def submitted : List Op → List Nat
  | [] => []
  | .fetch k _ :: r => k :: submitted r
  | .redirect _ k' :: r => k' :: submitted r
  | _ :: r => submitted r

/-! ## Part B — redirects -/

structure Req where
  method : Str
  hasBody : Bool
  url : Str
  headers : Headers
  authUser : Bool          -- auth_username is not None
  maxRedirects : Nat
  follow : Bool
  decompress : Bool
  deriving Repr, BEq, DecidableEq

/-- what the standard library computes for this hop (data) -/
structure Hop where
  code : Nat
  location : Option Str      -- response.headers.get("Location")
  origScheme : Str           -- urlsplit(original_request.url)
  origNetloc : Str
  newScheme : Str            -- urlsplit(urljoin(request.url, location))
  newNetloc : Str
  joined : Str               -- urljoin(request.url, location)
  normalized : Str           -- urlunsplit(urlsplit(joined))
  stripped : Str             -- the same with netloc replaced by host[:port]
  joinRaises : Bool := false -- `urljoin` / `urlsplit` of the new URL raises (`ValueError`: unterminated IPv6 bracket …)
  portRaises : Bool := false -- `.port` of the new URL raises (non-numeric / out of range) or `.hostname` is None
  deriving Repr, BEq, DecidableEq

/-- data for `run()`'s header edits -/
structure Prep where
  host : Str                 -- netloc without userinfo
  urlCreds : Option Str      -- "Basic …" from the URL's userinfo, if any
  authValue : Str            -- "Basic …" from auth_username/auth_password
  userAgent : Str
  contentLength : Str
  deriving Repr, BEq, DecidableEq

def str (s : String) : Str := s.toList.map Char.toNat

def nConnection := str "Connection"
def nHost := str "Host"
def nAuthorization := str "Authorization"
def nCookie := str "Cookie"
def nUserAgent := str "User-Agent"
def nContentLength := str "Content-Length"
def nContentType := str "Content-Type"
def nContentEncoding := str "Content-Encoding"
def nTransferEncoding := str "Transfer-Encoding"
def nAcceptEncoding := str "Accept-Encoding"
def mGET := str "GET"
def mHEAD := str "HEAD"
def mPOST := str "POST"

/-- header edits of `_HTTPConnection.run` before the request is written -/
def prepare (r : Req) (p : Prep) : Headers :=
  let h := r.headers
  let h := if contains h nConnection then h else setItem h nConnection (str "close")
  let h := if contains h nHost then h else setItem h nHost p.host
  let h := match p.urlCreds with
    | some v => setItem h nAuthorization v
    | none => if r.authUser then setItem h nAuthorization p.authValue else h
  let h := if contains h nUserAgent then h else setItem h nUserAgent p.userAgent
  let h := if r.hasBody then setItem h nContentLength p.contentLength else h
  let h := if r.method = mPOST && !contains h nContentType then
      setItem h nContentType (str "application/x-www-form-urlencoded") else h
  if r.decompress then setItem h nAcceptEncoding (str "gzip") else h

/-- `_should_follow_redirect` -/
def shouldFollow (r : Req) (hp : Hop) : Bool :=
  r.follow && [301, 302, 303, 307, 308].contains hp.code && decide (r.maxRedirects > 0) && hp.location.isSome

/-- `try: del headers[h] except KeyError: pass` -/
def delIfPresent (h : Headers) (n : Str) : Headers :=
  match delItem h n with
  | .ok h' => h'
  | .error _ => h

def crossOrigin (hp : Hop) : Bool := hp.origScheme != hp.newScheme || hp.origNetloc != hp.newNetloc

def becomesGet (r : Req) (hp : Hop) : Bool :=
  (hp.code = 303 && r.method != mHEAD) || ((hp.code = 301 || hp.code = 302) && r.method = mPOST)

inductive Out where
  | final                  -- the response is delivered
  | follow (r : Req)       -- `client.fetch(new_request)`
  | crash                  -- an exception escapes finish() (Location unparsable / header copy rejected / bad port
                           -- behind userinfo / no Host header): `final_callback` is still set there, so
                           -- `_handle_exception` completes the fetch with a 599
  deriving Repr, BEq, DecidableEq

/-- the redirect branch of `finish()`; `r.headers` are the headers after `prepare` -/
def rewrite (r : Req) (hp : Hop) : Out :=
  if !shouldFollow r hp then .final
  else if hp.joinRaises then .crash
  else match copy r.headers with
    | .error _ => .crash
    | .ok h0 =>
      let cross := crossOrigin hp
      if cross && hp.newNetloc.contains 64 && hp.portRaises then .crash else
      let url := if cross then (if hp.newNetloc.contains 64 then hp.stripped else hp.normalized) else hp.joined
      let h1 := if cross then delIfPresent (delIfPresent h0 nAuthorization) nCookie else h0
      match delItem h1 nHost with
      | .error _ => .crash
      | .ok h2 =>
        let toGet := becomesGet r hp
        let h3 := if toGet then
            delIfPresent (delIfPresent (delIfPresent (delIfPresent h2 nContentLength) nContentType) nContentEncoding)
              nTransferEncoding
          else h2
        .follow { r with url := url, headers := h3, authUser := r.authUser && !cross,
                         maxRedirects := r.maxRedirects - 1,
                         method := if toGet then mGET else r.method,
                         hasBody := if toGet then false else r.hasBody }

/-- a whole chain: every hop prepares, gets its response, rewrites → the requests issued after the first -/
def chain (r : Req) : List (Prep × Hop) → List Req
  | [] => []
  | (p, hp) :: rest =>
    match rewrite { r with headers := prepare r p } hp with
    | .follow r' => r' :: chain r' rest
    | _ => []

end TornadoModel.C09
