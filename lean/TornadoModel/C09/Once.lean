/- C09 — the timing invariant along whole runs; the final drain. -/
import TornadoModel.C09.Drain
namespace TornadoModel.C09

theorem step_K {B : Nat} {s : St} {done seen fetched : List Nat} (h : Inv s done seen fetched) (hK : K B s) (op : Op)
    (hf : ∀ k ∈ subOf op, k ∉ seen) (hT : ∀ k T, op = .fetch k T → 0 < T ∧ T ≤ B) : K B (step s op).1 := by
  cases op with
  | fetch k T =>
    exact doFetch_K hK h.live_nodup k T (fun e => hf k (by simp [subOf]) (h.lseen k e)) (hT k T rfl)
  | connFail k =>
    simp only [step]
    split
    · split
      · exact hK
      · exact release_K hK h.live_nodup k
    · exact hK
  | connOk k =>
    simp only [step]
    split
    · split
      · exact hK
      · have hkeys : (s.conns.map (fun c => if c.key == k then { c with connected := true } else c)).map (·.key) =
            s.conns.map (·.key) := by
          rw [List.map_map]
          apply List.map_congr_left
          intro c _
          simp only [Function.comp]
          split <;> rfl
        refine ⟨hK.wq, hK.full, hK.armed, ?_, hK.tmoB, ?_⟩
        · intro c' hc'
          obtain ⟨c, hc, e⟩ := List.mem_map.1 hc'
          have := hK.cdl c hc
          subst e
          split <;> simpa using this
        · intro j hj
          apply hK.ltmo
          simp only [live, hkeys] at hj
          exact hj
    · exact hK
  | respond k =>
    simp only [step]
    split
    · split
      · exact release_K hK h.live_nodup k
      · exact hK
    · exact hK
  | drop k how =>
    simp only [step]
    split
    · split
      · exact release_K hK h.live_nodup k
      · exact hK
    · exact hK
  | redirect k k' =>
    have hk' : k' ∉ seen := hf k' (by simp [subOf])
    simp only [step]
    split
    · rename_i c hc
      split
      · have hkc := findConn_mem s k c hc
        have hr := release_live s k hkc h.live_nodup
        have hn1 : (live (release s k).1).Nodup := ((hr.1.nodup_iff).1 h.live_nodup).of_cons
        have hnot : k' ∉ live (release s k).1 :=
          fun e => hk' (h.lseen k' (hr.1.mem_iff.2 (List.mem_cons_of_mem _ e)))
        have hK1 := release_K hK h.live_nodup k
        have hKA : K B { (release s k).1 with parent := (k', k) :: (release s k).1.parent } :=
          ⟨hK1.wq, hK1.full, hK1.armed, hK1.cdl, hK1.tmoB, hK1.ltmo⟩
        obtain ⟨T0, hT0⟩ := hK.ltmo k (List.mem_append_right _ hkc)
        have hb := hK.tmoB _ (lookup_mem k T0 s.tmo hT0)
        have := doFetch_K hKA hn1 k' ((lookup k s.tmo).getD 0) hnot (by rw [hT0]; exact hb)
        exact this
      · exact hK
    · exact hK
  | advance dt =>
    simp only [step]
    have := fireTimers_K (B := B) (s.now + dt) seen fetched
      (s.waiting.length + s.conns.length + s.queue.length + 1) s done h hK (Nat.le_add_right _ _)
    exact this.1.later _ this.2

theorem run_K {B : Nat} (ops : List Op) : ∀ (s : St) (done seen fetched : List Nat), Inv s done seen fetched → K B s →
    (submitted ops).Nodup → (∀ k ∈ submitted ops, k ∉ seen) → (∀ k T, Op.fetch k T ∈ ops → 0 < T ∧ T ≤ B) →
      K B (run s ops).1 := by
  induction ops with
  | nil => intro s _ _ _ _ hK _ _ _; exact hK
  | cons op ops ih =>
    intro s done seen fetched h hK hn hf hT
    rw [submitted_cons] at hn hf
    have hn' := List.nodup_append.1 hn
    have hfo : ∀ k ∈ subOf op, k ∉ seen := fun k hk => hf k (List.mem_append_left _ hk)
    have h1 := step_inv h op hfo
    have hK1 := step_K h hK op hfo (fun k T e => hT k T (e ▸ List.mem_cons_self))
    simp only [run]
    exact ih _ _ _ _ h1 hK1 hn'.2.1 (by
      intro k hk e
      rcases List.mem_append.1 e with e | e
      · exact hf k (List.mem_append_right _ hk) e
      · exact hn'.2.2 k e k hk rfl) (fun k T hm => hT k T (List.mem_cons_of_mem _ hm))

theorem K_init (B mx : Nat) : K B (init mx) where
  wq := by intro x hx; simp [init] at hx
  full := by intro h; simp [init] at h
  armed := by intro x hx; simp [init] at hx
  cdl := by intro c hc; simp [init] at hc
  tmoB := by intro x hx; simp [init] at hx
  ltmo := by intro k hk; simp [init, live] at hk

theorem run_append_fst (a b : List Op) : ∀ s : St, (run s (a ++ b)).1 = (run (run s a).1 b).1 := by
  induction a with
  | nil => intro s; rfl
  | cons op a ih => intro s; simp only [List.cons_append, run]; exact ih _

theorem submitted_append (a b : List Op) : submitted (a ++ b) = submitted a ++ submitted b := by
  induction a with
  | nil => rfl
  | cons op a ih => rw [List.cons_append, submitted_cons, submitted_cons, ih, List.append_assoc]

theorem fetchedOf_append (a b : List Op) : fetchedOf (a ++ b) = fetchedOf a ++ fetchedOf b := by
  induction a with
  | nil => rfl
  | cons op a ih => simp only [List.cons_append, fetchedOf, ih, List.append_assoc]

/-- the state reached and what it satisfies, from `init` -/
theorem run_init_inv (mx : Nat) (ops : List Op) (hn : (submitted ops).Nodup) :
    Inv (run (init mx) ops).1 (completions (run (init mx) ops).2) (submitted ops) (fetchedOf ops) := by
  have := run_inv ops (init mx) [] [] [] (inv_init mx) hn (fun _ _ h => by simp at h)
  simpa using this

/-- after a final `advance` that is long enough nothing is waiting or open any more -/
theorem drained (mx B dt : Nat) (ops : List Op) (hn : (submitted ops).Nodup)
    (hT : ∀ k T, Op.fetch k T ∈ ops → 0 < T ∧ T ≤ B) (hdt : (fetchedOf ops).length * B ≤ dt) :
    live (run (init mx) (ops ++ [.advance dt])).1 = [] := by
  have hI := run_init_inv mx ops hn
  have hK : K B (run (init mx) ops).1 :=
    run_K ops (init mx) [] [] [] (inv_init mx) (K_init B mx) hn (fun _ _ h => by simp at h) hT
  rw [run_append_fst]
  generalize (run (init mx) ops).1 = s at hI hK
  generalize completions (run (init mx) ops).2 = done at hI
  simp only [run, step]
  have hlen : (live s).length ≤ (fetchedOf ops).length := by
    have := hI.perm.length_eq
    simp only [List.length_append, List.length_map] at this
    omega
  have hmul : (live s).length * B ≤ (fetchedOf ops).length * B := Nat.mul_le_mul_right B hlen
  have := fireTimers_drain (B := B) (s.now + dt) (submitted ops) (fetchedOf ops)
    (s.waiting.length + s.conns.length + s.queue.length + 1) s done hI hK
    (by simp only [live, List.length_append, List.length_map]; omega) (by omega)
  exact this

end TornadoModel.C09
