/- C09 — `active` is exactly the list of keys owning an open connection. -/
import TornadoModel.C09.Once
namespace TornadoModel.C09

theorem erase_eq_filter_key {α} (f : α → Nat) (k : Nat) : ∀ l : List α, (l.map f).Nodup →
    (l.map f).erase k = (l.filter (fun x => f x != k)).map f := by
  intro l
  induction l with
  | nil => intro _; rfl
  | cons x r ih =>
    intro hn
    simp only [List.map_cons, List.nodup_cons] at hn
    by_cases hx : f x = k
    · have hnot : k ∉ r.map f := hx ▸ hn.1
      have hfil : r.filter (fun x => f x != k) = r := by
        rw [List.filter_eq_self]
        intro y hy
        have : f y ≠ k := fun e => hnot (e ▸ List.mem_map_of_mem hy)
        simpa using this
      simp only [List.map_cons, List.erase_cons, List.filter_cons, hx, beq_self_eq_true, if_true,
        bne_self_eq_false, Bool.false_eq_true, if_false, hfil]
    · have hb : (f x != k) = true := by simpa using hx
      have hb' : (f x == k) = false := by simpa using hx
      simp only [List.map_cons, List.erase_cons, List.filter_cons, hb, hb', if_true, Bool.false_eq_true, if_false,
        ih hn.2]

/-- `active` lists the keys of the open connections, in order -/
def AC (s : St) : Prop := s.active = s.conns.map (·.key)

theorem processQueue_AC (q : List Nat) : ∀ s : St, AC s → AC (processQueue q s).1 := by
  induction q with
  | nil => intro s h; exact h
  | cons k q ih =>
    intro s h
    unfold processQueue
    split
    · split
      · simp only
        apply ih
        simp only [AC, List.map_append, List.map_cons, List.map_nil]
        rw [h]
      · exact ih s h
    · exact h

theorem release_AC {s : St} (h : AC s) (hn : (live s).Nodup) (k : Nat) : AC (release s k).1 := by
  unfold release
  apply processQueue_AC
  simp only [AC]
  rw [h]
  exact erase_eq_filter_key (fun c : Conn => c.key) k s.conns (live_nodup_conns s hn)

theorem doFetch_AC {s : St} (h : AC s) (k T : Nat) : AC (doFetch s k T).1 := by
  rw [doFetch_eq]
  exact processQueue_AC _ _ h

theorem fireTimers_AC (limit : Nat) (seen fetched : List Nat) : ∀ (f : Nat) (s : St) (done : List Nat),
    Inv s done seen fetched → AC s → AC (fireTimers f limit s).1 := by
  intro f
  induction f with
  | zero => intro s done _ hA; exact hA
  | succ f ih =>
    intro s done h hA
    cases heq : nextTimer s limit with
    | none => rw [fireTimers_succ_none f limit s heq]; exact hA
    | some t =>
      obtain ⟨d, k, b⟩ := t
      cases b with
      | true =>
        rw [fireTimers_succ_q f limit s d k heq]
        exact ih _ _ (afterQ_inv h limit d k heq) hA
      | false =>
        rw [fireTimers_succ_c f limit s d k heq]
        exact ih _ _ (afterC_inv h limit d k heq) (release_AC (s := { s with now := max s.now d }) hA h.live_nodup k)

theorem step_AC {s : St} {done seen fetched : List Nat} (h : Inv s done seen fetched) (hA : AC s) (op : Op) :
    AC (step s op).1 := by
  cases op with
  | fetch k T => exact doFetch_AC hA k T
  | connFail k =>
    simp only [step]
    split
    · split
      · exact hA
      · exact release_AC hA h.live_nodup k
    · exact hA
  | connOk k =>
    simp only [step]
    split
    · split
      · exact hA
      · simp only [AC, List.map_map]
        rw [hA]
        apply List.map_congr_left
        intro c _
        simp only [Function.comp]
        split <;> rfl
    · exact hA
  | respond k =>
    simp only [step]
    split
    · split
      · exact release_AC hA h.live_nodup k
      · exact hA
    · exact hA
  | drop k how =>
    simp only [step]
    split
    · split
      · exact release_AC hA h.live_nodup k
      · exact hA
    · exact hA
  | redirect k k' =>
    simp only [step]
    split
    · split
      · have h1 := release_AC hA h.live_nodup k
        exact doFetch_AC (s := { (release s k).1 with parent := (k', k) :: (release s k).1.parent }) h1 k' _
      · exact hA
    · exact hA
  | advance dt =>
    simp only [step]
    exact fireTimers_AC (s.now + dt) seen fetched _ s done h hA

theorem run_AC (ops : List Op) : ∀ (s : St) (done seen fetched : List Nat), Inv s done seen fetched → AC s →
    (submitted ops).Nodup → (∀ k ∈ submitted ops, k ∉ seen) → AC (run s ops).1 := by
  induction ops with
  | nil => intro s _ _ _ _ hA _ _; exact hA
  | cons op ops ih =>
    intro s done seen fetched h hA hn hf
    rw [submitted_cons] at hn hf
    have hn' := List.nodup_append.1 hn
    have hfo : ∀ k ∈ subOf op, k ∉ seen := fun k hk => hf k (List.mem_append_left _ hk)
    simp only [run]
    exact ih _ _ _ _ (step_inv h op hfo) (step_AC h hA op) hn'.2.1 (by
      intro k hk e
      rcases List.mem_append.1 e with e | e
      · exact hf k (List.mem_append_right _ hk) e
      · exact hn'.2.2 k e k hk rfl)

theorem run_init_AC (mx : Nat) (ops : List Op) (hn : (submitted ops).Nodup) : AC (run (init mx) ops).1 :=
  run_AC ops (init mx) [] [] [] (inv_init mx) rfl hn (fun _ _ h => by simp at h)

end TornadoModel.C09
