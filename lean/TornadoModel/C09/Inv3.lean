/- C09 — the conservation invariant of the admission machine and its preservation by every op. -/
import TornadoModel.C09.Inv2
namespace TornadoModel.C09

/-- `done` = roots completed so far, `seen` = keys submitted so far, `fetched` = keys of the `fetch` ops so far:
    the completed roots together with the roots of the live keys are exactly the fetched keys, each once. -/
structure Inv (s : St) (done seen fetched : List Nat) : Prop where
  wfp : WFP s.parent
  pseen : ∀ x ∈ s.parent, x.1 ∈ seen ∧ x.2 ∈ seen
  lseen : ∀ k ∈ live s, k ∈ seen
  fseen : ∀ k ∈ fetched, k ∈ seen
  fnodup : fetched.Nodup
  perm : (done ++ (live s).map (rootL s.parent)).Perm fetched

theorem nodup_of_map {α β} (f : α → β) (l : List α) (h : (l.map f).Nodup) : l.Nodup := by
  unfold List.Nodup at h ⊢
  exact (List.pairwise_map.1 h).imp (fun hne e => hne (congrArg f e))

theorem Inv.tokens_nodup {s : St} {done seen fetched : List Nat} (h : Inv s done seen fetched) :
    (done ++ (live s).map (rootL s.parent)).Nodup := (h.perm.nodup_iff).2 h.fnodup

theorem Inv.live_nodup {s : St} {done seen fetched : List Nat} (h : Inv s done seen fetched) : (live s).Nodup :=
  nodup_of_map _ _ (List.nodup_append.1 h.tokens_nodup).2.1

theorem Inv.done_nodup {s : St} {done seen fetched : List Nat} (h : Inv s done seen fetched) : done.Nodup :=
  (List.nodup_append.1 h.tokens_nodup).1

/-- keys move between `waiting` and `conns` -/
theorem Inv.shuffle {s : St} {done seen fetched : List Nat} (h : Inv s done seen fetched) (s' : St)
    (hp : s'.parent = s.parent) (hl : (live s').Perm (live s)) : Inv s' done seen fetched where
  wfp := hp ▸ h.wfp
  pseen := hp ▸ h.pseen
  lseen := fun k hk => h.lseen k (hl.mem_iff.1 hk)
  fseen := h.fseen
  fnodup := h.fnodup
  perm := by rw [hp]; exact ((hl.map _).append_left done).trans h.perm

/-- the live key `k` completes -/
theorem Inv.complete {s : St} {done seen fetched : List Nat} (h : Inv s done seen fetched) (s' : St) (k : Nat)
    (hp : s'.parent = s.parent) (hl : (live s).Perm (k :: live s')) :
    Inv s' (done ++ [rootL s.parent k]) seen fetched where
  wfp := hp ▸ h.wfp
  pseen := hp ▸ h.pseen
  lseen := fun j hj => h.lseen j (hl.mem_iff.2 (List.mem_cons_of_mem _ hj))
  fseen := h.fseen
  fnodup := h.fnodup
  perm := by
    rw [hp, List.append_assoc, List.singleton_append]
    have := (hl.map (rootL s.parent)).symm.append_left done
    rw [List.map_cons] at this
    exact this.trans h.perm

/-- a fresh key is fetched -/
theorem Inv.fetch {s : St} {done seen fetched : List Nat} (h : Inv s done seen fetched) (s' : St) (k : Nat)
    (hk : k ∉ seen) (hp : s'.parent = s.parent) (hl : (live s').Perm (k :: live s)) :
    Inv s' done (seen ++ [k]) (fetched ++ [k]) where
  wfp := hp ▸ h.wfp
  pseen := by
    rw [hp]; intro x hx
    exact ⟨List.mem_append_left _ (h.pseen x hx).1, List.mem_append_left _ (h.pseen x hx).2⟩
  lseen := by
    intro j hj
    rcases List.mem_cons.1 (hl.mem_iff.1 hj) with e | e
    · subst e; simp
    · exact List.mem_append_left _ (h.lseen j e)
  fseen := by
    intro j hj
    rcases List.mem_append.1 hj with e | e
    · exact List.mem_append_left _ (h.fseen j e)
    · exact List.mem_append_right _ e
  fnodup := by
    rw [List.nodup_append]
    refine ⟨h.fnodup, by simp, ?_⟩
    intro a ha b hb
    simp only [List.mem_singleton] at hb
    subst hb
    exact fun e => hk (e ▸ h.fseen a ha)
  perm := by
    rw [hp]
    have hr : rootL s.parent k = k := rootL_fresh k s.parent (fun x hx e => hk (e ▸ (h.pseen x hx).1))
    have h1 := (hl.map (rootL s.parent)).append_left done
    rw [List.map_cons, hr] at h1
    refine h1.trans (List.perm_middle.trans ?_)
    exact (h.perm.cons k).trans (List.perm_append_singleton k fetched).symm

/-- the connected key `k` is redirected: the fresh key `k'` takes over its root -/
theorem Inv.redirect {s : St} {done seen fetched : List Nat} (h : Inv s done seen fetched) (s1 s2 : St) (k k' : Nat)
    (hk' : k' ∉ seen) (hp1 : s1.parent = s.parent) (hl1 : (live s).Perm (k :: live s1))
    (hp2 : s2.parent = (k', k) :: s1.parent) (hl2 : (live s2).Perm (k' :: live s1)) :
    Inv s2 done (seen ++ [k']) fetched where
  wfp := by
    rw [hp2, hp1]
    have hkseen : k ∈ seen := h.lseen k (hl1.mem_iff.2 List.mem_cons_self)
    refine ⟨fun e => hk' (e ▸ hkseen), ?_, h.wfp⟩
    intro x hx
    exact ⟨fun e => hk' (e ▸ (h.pseen x hx).1), fun e => hk' (e ▸ (h.pseen x hx).2)⟩
  pseen := by
    rw [hp2, hp1]
    intro x hx
    rcases List.mem_cons.1 hx with e | e
    · subst e
      exact ⟨by simp, List.mem_append_left _ (h.lseen k (hl1.mem_iff.2 List.mem_cons_self))⟩
    · exact ⟨List.mem_append_left _ (h.pseen x e).1, List.mem_append_left _ (h.pseen x e).2⟩
  lseen := by
    intro j hj
    rcases List.mem_cons.1 (hl2.mem_iff.1 hj) with e | e
    · subst e; simp
    · exact List.mem_append_left _ (h.lseen j (hl1.mem_iff.2 (List.mem_cons_of_mem _ e)))
  fseen := fun j hj => List.mem_append_left _ (h.fseen j hj)
  fnodup := h.fnodup
  perm := by
    rw [hp2, hp1]
    have h2 := (hl2.map (rootL ((k', k) :: s.parent))).append_left done
    refine h2.trans ?_
    have hsame : (live s1).map (rootL ((k', k) :: s.parent)) = (live s1).map (rootL s.parent) := by
      apply List.map_congr_left
      intro j hj
      have hjs : j ∈ seen := h.lseen j (hl1.mem_iff.2 (List.mem_cons_of_mem _ hj))
      have : k' ≠ j := fun e => hk' (e ▸ hjs)
      simp only [rootL, if_neg this]
    have hk : rootL ((k', k) :: s.parent) k' = rootL s.parent k := by simp [rootL]
    rw [List.map_cons, hk, hsame]
    have h3 := (hl1.map (rootL s.parent)).symm.append_left done
    rw [List.map_cons] at h3
    exact h3.trans h.perm

theorem Inv.widen {s : St} {done seen fetched : List Nat} (h : Inv s done seen fetched) (extra : List Nat) :
    Inv s done (seen ++ extra) fetched where
  wfp := h.wfp
  pseen := fun x hx => ⟨List.mem_append_left _ (h.pseen x hx).1, List.mem_append_left _ (h.pseen x hx).2⟩
  lseen := fun k hk => List.mem_append_left _ (h.lseen k hk)
  fseen := fun k hk => List.mem_append_left _ (h.fseen k hk)
  fnodup := h.fnodup
  perm := h.perm

/-! ### which key a timer belongs to -/

def pickF (limit : Nat) (best : Option (Nat × Nat × Bool)) (t : Nat × Nat × Bool) : Option (Nat × Nat × Bool) :=
  if t.1 ≤ limit then
    match best with
    | none => some t
    | some b => if t.1 < b.1 then some t else some b
  else best

theorem nextTimer_eq (s : St) (limit : Nat) : nextTimer s limit =
    ((s.waiting.filterMap (fun (k, d) => d.map (fun d => (d, k, true)))) ++
      (s.conns.map (fun c => (c.deadline, c.key, false)))).foldl (pickF limit) none := rfl

theorem foldl_pick (limit : Nat) : ∀ (l : List (Nat × Nat × Bool)) (best : Option (Nat × Nat × Bool))
    (r : Nat × Nat × Bool), l.foldl (pickF limit) best = some r → best = some r ∨ (r ∈ l ∧ r.1 ≤ limit) := by
  intro l
  induction l with
  | nil => intro best r h; exact Or.inl h
  | cons t l ih =>
    intro best r h
    simp only [List.foldl_cons] at h
    rcases ih _ r h with e | e
    · unfold pickF at e
      split at e
      · rename_i hle
        split at e
        · cases e; exact Or.inr ⟨List.mem_cons_self, hle⟩
        · split at e
          · cases e; exact Or.inr ⟨List.mem_cons_self, hle⟩
          · exact Or.inl e
      · exact Or.inl e
    · exact Or.inr ⟨List.mem_cons_of_mem _ e.1, e.2⟩

theorem nextTimer_mem (s : St) (limit d k : Nat) (b : Bool) (h : nextTimer s limit = some (d, k, b)) :
    d ≤ limit ∧ ((b = true ∧ (k, some d) ∈ s.waiting) ∨ (b = false ∧ ∃ c ∈ s.conns, c.key = k ∧ c.deadline = d)) := by
  rw [nextTimer_eq] at h
  rcases foldl_pick limit _ none _ h with e | ⟨e, hle⟩
  · cases e
  · refine ⟨hle, ?_⟩
    rcases List.mem_append.1 e with e | e
    · left
      obtain ⟨⟨k0, d0⟩, hm, he⟩ := List.mem_filterMap.1 e
      cases d0 with
      | none => simp at he
      | some d' =>
        simp only [Option.map_some, Option.some.injEq, Prod.mk.injEq] at he
        obtain ⟨rfl, rfl, rfl⟩ := he
        exact ⟨rfl, hm⟩
    · right
      obtain ⟨c, hm, he⟩ := List.mem_map.1 e
      simp only [Prod.mk.injEq] at he
      obtain ⟨rfl, rfl, rfl⟩ := he
      exact ⟨rfl, c, hm, rfl, rfl⟩

theorem nextTimer_queue (s : St) (limit d k : Nat) (h : nextTimer s limit = some (d, k, true)) :
    k ∈ s.waiting.map (·.1) := by
  rcases (nextTimer_mem s limit d k true h).2 with ⟨_, hm⟩ | ⟨hb, _⟩
  · exact List.mem_map.2 ⟨_, hm, rfl⟩
  · cases hb

theorem nextTimer_conn (s : St) (limit d k : Nat) (h : nextTimer s limit = some (d, k, false)) :
    k ∈ s.conns.map (·.key) := by
  rcases (nextTimer_mem s limit d k false h).2 with ⟨hb, _⟩ | ⟨_, c, hm, hk, _⟩
  · cases hb
  · exact List.mem_map.2 ⟨c, hm, hk⟩

theorem findConn_mem (s : St) (k : Nat) (c : Conn) (h : findConn s k = some c) : k ∈ s.conns.map (·.key) := by
  unfold findConn at h
  have hm := List.mem_of_find?_eq_some h
  have hk := List.find?_some h
  simp only [beq_iff_eq] at hk
  exact List.mem_map.2 ⟨c, hm, hk⟩

/-! ### preservation -/

theorem fireTimers_inv (limit : Nat) (seen fetched : List Nat) : ∀ (f : Nat) (s : St) (done : List Nat),
    Inv s done seen fetched →
      Inv (fireTimers f limit s).1 (done ++ completesOf (fireTimers f limit s).2) seen fetched := by
  intro f
  induction f with
  | zero => intro s done h; simpa [fireTimers, completesOf] using h
  | succ f ih =>
    intro s done h
    unfold fireTimers
    split
    · simpa [completesOf] using h
    · rename_i d k heq
      simp only
      have hk := nextTimer_queue s limit d k heq
      have hp := perm_filter_key (fun x : Nat × Option Nat => x.1) k s.waiting hk (live_nodup_waiting s h.live_nodup)
      have h1 := h.complete { s with now := max s.now d, queue := s.queue.erase k, waiting := dropKey k s.waiting } k rfl
        (by simp only [live]; exact hp.append_right _)
      have h2 := ih _ _ h1
      rw [completesOf_cons_complete, root_eq_rootL s h.wfp]
      simpa [List.append_assoc] using h2
    · rename_i d k heq
      simp only
      have hk := nextTimer_conn s limit d k heq
      have hr := release_live { s with now := max s.now d } k hk h.live_nodup
      have h1 := h.complete (release { s with now := max s.now d } k).1 k hr.2.1 hr.1
      have h2 := ih _ _ h1
      rw [completesOf_append, completesOf_cons_complete, hr.2.2, root_eq_rootL s h.wfp, List.nil_append]
      simpa [List.append_assoc] using h2

def fetchOf : Op → List Nat
  | .fetch k _ => [k]
  | _ => []

def fetchedOf : List Op → List Nat
  | [] => []
  | op :: r => fetchOf op ++ fetchedOf r

theorem step_inv {s : St} {done seen fetched : List Nat} (h : Inv s done seen fetched) (op : Op)
    (hf : ∀ k ∈ subOf op, k ∉ seen) :
    Inv (step s op).1 (done ++ completesOf (step s op).2) (seen ++ subOf op) (fetched ++ fetchOf op) := by
  cases op with
  | fetch k T =>
    have hk : k ∉ seen := hf k (by simp [subOf])
    have hd := doFetch_live s k T (fun e => hk (h.lseen k e)) h.live_nodup
    simp only [step, subOf, fetchOf, hd.2.2, List.append_nil]
    exact h.fetch _ k hk hd.2.1 hd.1
  | connFail k =>
    simp only [step, subOf, fetchOf, List.append_nil]
    split
    · rename_i c hc
      split
      · simpa [completesOf] using h
      · have hr := release_live s k (findConn_mem s k c hc) h.live_nodup
        simp only [completesOf_append, hr.2.2, completesOf_cons_complete, completesOf_nil, List.nil_append,
          root_eq_rootL s h.wfp]
        exact h.complete _ k hr.2.1 hr.1
    · simpa [completesOf] using h
  | connOk k =>
    simp only [step, subOf, fetchOf, List.append_nil]
    split
    · split
      · simpa [completesOf] using h
      · simp only [completesOf_nil, List.append_nil]
        refine h.shuffle _ rfl ?_
        have : (s.conns.map (fun c => if c.key == k then { c with connected := true } else c)).map (·.key) =
            s.conns.map (·.key) := by
          rw [List.map_map]
          apply List.map_congr_left
          intro c _
          simp only [Function.comp]
          split <;> rfl
        simp only [live, this]
        exact List.Perm.refl _
    · simpa [completesOf] using h
  | respond k =>
    simp only [step, subOf, fetchOf, List.append_nil]
    split
    · rename_i c hc
      split
      · have hr := release_live s k (findConn_mem s k c hc) h.live_nodup
        simp only [completesOf_append, hr.2.2, completesOf_cons_complete, completesOf_nil, List.nil_append,
          root_eq_rootL s h.wfp]
        exact h.complete _ k hr.2.1 hr.1
      · simpa [completesOf] using h
    · simpa [completesOf] using h
  | drop k how =>
    simp only [step, subOf, fetchOf, List.append_nil]
    split
    · rename_i c hc
      split
      · have hr := release_live s k (findConn_mem s k c hc) h.live_nodup
        simp only [completesOf_append, hr.2.2, completesOf_cons_complete, completesOf_nil, List.nil_append,
          root_eq_rootL s h.wfp]
        exact h.complete _ k hr.2.1 hr.1
      · simpa [completesOf] using h
    · simpa [completesOf] using h
  | redirect k k' =>
    have hk' : k' ∉ seen := hf k' (by simp [subOf])
    simp only [step, subOf, fetchOf, List.append_nil]
    split
    · rename_i c hc
      split
      · have hr := release_live s k (findConn_mem s k c hc) h.live_nodup
        have hn1 : (live (release s k).1).Nodup := ((hr.1.nodup_iff).1 h.live_nodup).of_cons
        have hnot : k' ∉ live (release s k).1 :=
          fun e => hk' (h.lseen k' (hr.1.mem_iff.2 (List.mem_cons_of_mem _ e)))
        have hd := doFetch_live { (release s k).1 with parent := (k', k) :: (release s k).1.parent } k'
          ((lookup k s.tmo).getD 0) hnot hn1
        simp only [completesOf_append, hr.2.2, hd.2.2, List.append_nil]
        exact h.redirect (release s k).1 _ k k' hk' hr.2.1 hr.1 hd.2.1 hd.1
      · simpa [completesOf] using h.widen [k']
    · simpa [completesOf] using h.widen [k']
  | advance dt =>
    simp only [step, subOf, fetchOf, List.append_nil]
    have := fireTimers_inv (s.now + dt) seen fetched (s.waiting.length + s.conns.length + s.queue.length + 1) s done h
    exact this.shuffle _ rfl (List.Perm.refl _)

theorem completions_cons (e : List Ev) (es : List (List Ev)) :
    completions (e :: es) = completesOf e ++ completions es := by
  simp only [completions, completesOf, List.flatten_cons, List.filterMap_append]
  congr 1 <;> (congr 1; funext e; cases e <;> rfl)

theorem submitted_cons (op : Op) (ops : List Op) : submitted (op :: ops) = subOf op ++ submitted ops := by
  cases op <;> simp [submitted, subOf]

theorem run_inv (ops : List Op) : ∀ (s : St) (done seen fetched : List Nat), Inv s done seen fetched →
    (submitted ops).Nodup → (∀ k ∈ submitted ops, k ∉ seen) →
      Inv (run s ops).1 (done ++ completions (run s ops).2) (seen ++ submitted ops) (fetched ++ fetchedOf ops) := by
  induction ops with
  | nil => intro s done seen fetched h _ _; simpa [run, completions, submitted, fetchedOf] using h
  | cons op ops ih =>
    intro s done seen fetched h hn hf
    rw [submitted_cons] at hn hf
    have hn' := List.nodup_append.1 hn
    have h1 := step_inv h op (fun k hk => hf k (List.mem_append_left _ hk))
    have h2 := ih _ _ _ _ h1 hn'.2.1 (by
      intro k hk e
      rcases List.mem_append.1 e with e | e
      · exact hf k (List.mem_append_right _ hk) e
      · exact hn'.2.2 k e k hk rfl)
    simp only [run]
    rw [completions_cons, submitted_cons, fetchedOf]
    simpa [List.append_assoc] using h2

theorem inv_init (mx : Nat) : Inv (init mx) [] [] [] where
  wfp := trivial
  pseen := by intro x hx; simp [init] at hx
  lseen := by intro k hk; simp [init, live] at hk
  fseen := by intro k hk; simp at hk
  fnodup := List.nodup_nil
  perm := by simp [init, live]

end TornadoModel.C09
