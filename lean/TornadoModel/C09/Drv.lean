/- C09 driver:
   `C09 sched max [[fetch,k,T],[connFail,k],[connOk,k],[respond,k],[redirect,k,k2],[drop,k,closed|error|crash],[advance,dt],…]`
        → `ok [[[start…],[[root,how]…],nActive,nQueue,nWaiting],…]`
   `C09 redir [method,hasBody,url,[[set|add,n,v]…],authUser,maxRedirects,follow,decompress] [[prep,hop],…]`
        prep = [host,urlCreds|~,authValue,userAgent,contentLength]
        hop  = [code,location|~,origScheme,origNetloc,newScheme,newNetloc,joined,normalized,stripped,joinRaises,portRaises]
        → `ok [[method,hasBody,url,[[k,v]…],authUser,maxRedirects],…]`  (the requests issued after the first)
   `C09 speccheck max [submitted] [starts] [roots] [completions] [observedActive]` → `ok fifo once active`
   `C09 specstrip authUser urlHasUserinfo [[k,v]…]` → `ok T|F`
   `C09 specget method hasBody [[k,v]…]` → `ok T|F` -/
import TornadoModel.Base.Wire
import TornadoModel.C09.Spec
namespace TornadoModel.C09.Drv
open TornadoModel TornadoModel.Wire TornadoModel.C06 TornadoModel.C09

def decOp (v : V) : Option Op := do
  match ← v.list? with
  | [.atom "fetch", k, t] => pure (.fetch (← k.nat?) (← t.nat?))
  | [.atom "connFail", k] => pure (.connFail (← k.nat?))
  | [.atom "connOk", k] => pure (.connOk (← k.nat?))
  | [.atom "respond", k] => pure (.respond (← k.nat?))
  | [.atom "redirect", k, k'] => pure (.redirect (← k.nat?) (← k'.nat?))
  | [.atom "drop", k, .atom "closed"] => pure (.drop (← k.nat?) .closed)
  | [.atom "drop", k, .atom "error"] => pure (.drop (← k.nat?) .error)
  | [.atom "drop", k, .atom "crash"] => pure (.drop (← k.nat?) .crash)
  | [.atom "advance", d] => pure (.advance (← d.nat?))
  | _ => none

def encHow : How → V
  | .ok => .atom "ok" | .connFail => .atom "connfail" | .tmoQueue => .atom "timeout-queue"
  | .tmoConnect => .atom "timeout-connect" | .tmoRequest => .atom "timeout-request"
  | .closed => .atom "closed" | .error => .atom "error" | .crash => .atom "crash"

def obsRun (s : St) : List Op → List V
  | [] => []
  | op :: ops =>
    let (s1, evs) := step s op
    let st := evs.filterMap (fun e => match e with | .start k => some (V.int k) | _ => none)
    let co := evs.filterMap (fun e => match e with | .complete r h => some (V.list [.int r, encHow h]) | _ => none)
    .list [.list st, .list co, .int s1.active.length, .int s1.queue.length, .int s1.waiting.length] :: obsRun s1 ops

def decHdrOp (v : V) : Option C06.Op := do
  match ← v.list? with
  | [.atom "set", n, x] => pure (.set (← n.cps?) (← x.cps?))
  | [.atom "add", n, x] => pure (.add (← n.cps?) (← x.cps?))
  | _ => none

def decReq (v : V) : Option Req := do
  match ← v.list? with
  | [m, b, u, hops, au, mr, fo, de] =>
    let ops ← (← hops.list?).mapM decHdrOp
    pure { method := ← m.cps?, hasBody := ← b.bool?, url := ← u.cps?, headers := (C06.run C06.empty ops).1,
           authUser := ← au.bool?, maxRedirects := ← mr.nat?, follow := ← fo.bool?, decompress := ← de.bool? }
  | _ => none

def optStr (v : V) : Option (Option Str) := if v.isNone then some none else (v.cps?).map some

def decPrep (v : V) : Option Prep := do
  match ← v.list? with
  | [h, c, a, ua, cl] =>
    pure { host := ← h.cps?, urlCreds := ← optStr c, authValue := ← a.cps?, userAgent := ← ua.cps?, contentLength := ← cl.cps? }
  | _ => none

def decHop (v : V) : Option Hop := do
  match ← v.list? with
  | [c, l, os, on, ns, nn, j, n, s, jr, pr] =>
    pure { code := ← c.nat?, location := ← optStr l, origScheme := ← os.cps?, origNetloc := ← on.cps?,
           newScheme := ← ns.cps?, newNetloc := ← nn.cps?, joined := ← j.cps?, normalized := ← n.cps?, stripped := ← s.cps?,
           joinRaises := ← jr.bool?, portRaises := ← pr.bool? }
  | _ => none

def decPH (v : V) : Option (Prep × Hop) := do
  match ← v.list? with
  | [p, h] => pure (← decPrep p, ← decHop h)
  | _ => none

def encPairs (ps : List (Str × Str)) : V := .list (ps.map (fun (k, v) => .list [V.ofCps k, V.ofCps v]))
def decPairs (v : V) : Option (List (Str × Str)) := do
  (← v.list?).mapM (fun p => do
    match ← p.list? with
    | [k, x] => pure (← k.cps?, ← x.cps?)
    | _ => none)

def encReq (r : Req) : V :=
  .list [V.ofCps r.method, V.ofBool r.hasBody, V.ofCps r.url, encPairs (getAll r.headers), V.ofBool r.authUser, .int r.maxRedirects]

def nats (v : V) : Option (List Nat) := do (← v.list?).mapM V.nat?

def handle (toks : List String) : String :=
  match toks.mapM V.parse with
  | none => err "bad-arg"
  | some args =>
    match args with
    | [.atom "sched", m, ops] =>
      match m.nat?, ops.list? >>= (·.mapM decOp) with
      | some mx, some os => ok [.list (obsRun (init mx) os)]
      | _, _ => err "bad-arg"
    | [.atom "redir", r, phs] =>
      match decReq r, phs.list? >>= (·.mapM decPH) with
      | some rq, some l => ok [.list ((chain rq l).map encReq)]
      | _, _ => err "bad-arg"
    | [.atom "speccheck", m, su, st, ro, co, ob] =>
      match m.nat?, nats su, nats st, nats ro, nats co, nats ob with
      | some mx, some su, some st, some ro, some co, some ob =>
        ok [V.ofBool (Spec.fifoOk su st), V.ofBool (Spec.onceOk ro co), V.ofBool (Spec.activeOk mx ob)]
      | _, _, _, _, _, _ => err "bad-arg"
    | [.atom "specstrip", a, u, ps] =>
      match a.bool?, u.bool?, decPairs ps with
      | some a, some u, some ps => ok [V.ofBool (Spec.strippedOk a u ps)]
      | _, _, _ => err "bad-arg"
    | [.atom "specget", m, b, ps] =>
      match m.cps?, b.bool?, decPairs ps with
      | some m, some b, some ps => ok [V.ofBool (Spec.getOk m b ps)]
      | _, _, _ => err "bad-arg"
    | _ => err "bad-cmd"

end TornadoModel.C09.Drv
