/- C09 helper lemmas: insertion-ordered dicts with unique keys; header maps produced by `copy`. -/
import TornadoModel.C09.Spec
namespace TornadoModel.C09
open TornadoModel.C06

def keys {β} (l : List (Str × β)) : List Str := l.map (·.1)

theorem dget_isSome_iff {β} (k : Str) (l : List (Str × β)) : (dget k l).isSome = true ↔ k ∈ keys l := by
  induction l with
  | nil => simp [dget, keys]
  | cons p r ih =>
    obtain ⟨k', v⟩ := p
    by_cases h : k' = k
    · simp [dget, keys, h]
    · have h' : ¬ k = k' := fun e => h e.symm
      simp only [dget, h, if_false, ih, keys, List.map_cons, List.mem_cons, h', false_or]

theorem dhas_iff {β} (k : Str) (l : List (Str × β)) : dhas k l = true ↔ k ∈ keys l := by
  unfold dhas; exact dget_isSome_iff k l

theorem keys_dset {β} (k : Str) (v : β) (l : List (Str × β)) :
    keys (dset k v l) = if k ∈ keys l then keys l else keys l ++ [k] := by
  induction l with
  | nil => simp [dset, keys]
  | cons p r ih =>
    obtain ⟨k', v'⟩ := p
    by_cases h : k' = k
    · simp [dset, keys, h]
    · have h' : ¬ k = k' := fun e => h e.symm
      simp only [dset, h, if_false, keys, List.map_cons, List.mem_cons, h', false_or] at ih ⊢
      rw [ih]; split <;> simp [*]

theorem nodup_keys_dset {β} (k : Str) (v : β) (l : List (Str × β)) (h : (keys l).Nodup) :
    (keys (dset k v l)).Nodup := by
  rw [keys_dset]; split
  · exact h
  · rename_i hk
    exact List.nodup_append.mpr ⟨h, by simp, by intro a ha b hb; simp at hb; subst hb; intro e; exact hk (e ▸ ha)⟩

theorem keys_ddel_sub {β} (k : Str) (l : List (Str × β)) : (keys (ddel k l)).Sublist (keys l) := by
  induction l with
  | nil => simp [ddel, keys]
  | cons p r ih =>
    obtain ⟨k', v'⟩ := p
    by_cases h : k' = k
    · simp only [ddel, h, if_true, keys, List.map_cons]
      exact List.Sublist.cons _ ih
    · simp only [ddel, h, if_false, keys, List.map_cons]
      exact List.Sublist.cons_cons _ ih

theorem not_mem_keys_ddel {β} (k : Str) (l : List (Str × β)) (h : (keys l).Nodup) : k ∉ keys (ddel k l) := by
  induction l with
  | nil => simp [ddel, keys]
  | cons p r ih =>
    obtain ⟨k', v'⟩ := p
    simp only [keys, List.map_cons, List.nodup_cons] at h
    by_cases hk : k' = k
    · subst hk; simp only [ddel, if_true]; exact ih h.2
    · have h' : ¬ k = k' := fun e => hk e.symm
      simp only [ddel, hk, if_false, keys, List.map_cons, List.mem_cons, h', false_or]
      exact ih h.2

/-- well-formed header map: unique keys -/
def WF (h : Headers) : Prop := (keys h.asList).Nodup

theorem wf_empty : WF empty := by simp [WF, empty, keys]

theorem wf_setItem (h : Headers) (n v : Str) (w : WF h) : WF (setItem h n v) := by
  unfold WF setItem; exact nodup_keys_dset _ _ _ w

theorem wf_add (h h' : Headers) (n v : Str) (b : Bool) (w : WF h) (e : add h n v b = .ok h') : WF h' := by
  unfold add at e
  split at e; · cases e
  split at e; · cases e
  split at e; · cases e
  simp only at e
  split at e
  · cases e; exact nodup_keys_dset _ _ _ w
  · cases e; exact wf_setItem _ _ _ w

theorem wf_foldlM_add (ps : List (Str × Str)) (acc h' : Headers) (w : WF acc)
    (e : ps.foldlM (fun acc (p : Str × Str) => add acc p.1 p.2) acc = .ok h') : WF h' := by
  induction ps generalizing acc with
  | nil => simp [List.foldlM, pure, Except.pure] at e; subst e; exact w
  | cons p r ih =>
    simp only [List.foldlM, bind, Except.bind] at e
    split at e
    · cases e
    · rename_i a ha; exact ih a (wf_add _ _ _ _ _ w ha) e

theorem wf_copy (h h' : Headers) (e : copy h = .ok h') : WF h' := by
  unfold copy at e
  exact wf_foldlM_add _ _ _ wf_empty e

theorem delItem_ok (h h' : Headers) (n : Str) (e : delItem h n = .ok h') :
    dhas (normalize n) h.asList = true ∧
      h' = { h with cache := ddel (normalize n) h.cache, asList := ddel (normalize n) h.asList } := by
  simp only [delItem] at e
  split at e
  · rename_i hd; cases e; exact ⟨hd, rfl⟩
  · cases e

theorem delItem_err (h : Headers) (n : Str) (x : Err) (e : delItem h n = .error x) :
    dhas (normalize n) h.asList = false := by
  simp only [delItem] at e
  split at e
  · cases e
  · rename_i hd; simpa using hd

theorem wf_delItem (h h' : Headers) (n : Str) (w : WF h) (e : delItem h n = .ok h') : WF h' := by
  obtain ⟨_, rfl⟩ := delItem_ok _ _ _ e
  exact (keys_ddel_sub _ _).nodup w

theorem wf_delIfPresent (h : Headers) (n : Str) (w : WF h) : WF (delIfPresent h n) := by
  unfold delIfPresent; split
  · rename_i h' e; exact wf_delItem _ _ _ w e
  · exact w

theorem contains_delItem_self (h h' : Headers) (n : Str) (w : WF h) (e : delItem h n = .ok h') :
    contains h' n = false := by
  obtain ⟨_, rfl⟩ := delItem_ok _ _ _ e
  have := not_mem_keys_ddel (normalize n) h.asList w
  rw [← dhas_iff] at this
  simpa [contains] using this

theorem contains_delItem_other (h h' : Headers) (n m : Str) (e : delItem h n = .ok h') (c : contains h m = false) :
    contains h' m = false := by
  obtain ⟨_, rfl⟩ := delItem_ok _ _ _ e
  have c' : normalize m ∉ keys h.asList := by rw [← dhas_iff]; simpa [contains] using c
  have : normalize m ∉ keys (ddel (normalize n) h.asList) := fun hm => c' ((keys_ddel_sub _ _).subset hm)
  rw [← dhas_iff] at this
  simpa [contains] using this

theorem contains_delIfPresent_self (h : Headers) (n : Str) (w : WF h) : contains (delIfPresent h n) n = false := by
  unfold delIfPresent; split
  · rename_i h' e; exact contains_delItem_self _ _ _ w e
  · rename_i e' e
    simpa [contains] using delItem_err _ _ _ e

theorem contains_delIfPresent_other (h : Headers) (n m : Str) (c : contains h m = false) :
    contains (delIfPresent h n) m = false := by
  unfold delIfPresent; split
  · rename_i h' e; exact contains_delItem_other _ _ _ _ e c
  · exact c

theorem contains_setItem_other (h : Headers) (n v m : Str) (hne : normalize n ≠ normalize m)
    (c : contains h m = false) : contains (setItem h n v) m = false := by
  have c' : normalize m ∉ keys h.asList := by rw [← dhas_iff]; simpa [contains] using c
  have : normalize m ∉ keys (dset (normalize n) [v] h.asList) := by
    rw [keys_dset]
    split
    · exact c'
    · intro hm
      rcases List.mem_append.1 hm with hm | hm
      · exact c' hm
      · simp at hm; exact hne hm.symm
  rw [← dhas_iff] at this
  simpa [contains, setItem] using this

theorem getList_of_not_contains (h : Headers) (n : Str) (c : contains h n = false) : getList h n = [] := by
  unfold getList
  unfold contains dhas at c
  cases hd : dget (normalize n) h.asList with
  | none => rfl
  | some v => simp [hd] at c

end TornadoModel.C09
