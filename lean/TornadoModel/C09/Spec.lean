/-
C09 — the specification side: what the property demands of an observed run, as small decidable checks
(applied by the harness to the *implementation's* traces, and proved of the model in Props.lean).
-/
import TornadoModel.C09.Model
namespace TornadoModel.C09.Spec
open TornadoModel.C06 TornadoModel.C09

/-- `a` is a subsequence of `b` -/
def isSubseq : List Nat → List Nat → Bool
  | [], _ => true
  | _ :: _, [] => false
  | x :: xs, y :: ys => if x = y then isSubseq xs ys else isSubseq (x :: xs) ys

/-- queued requests start in submission order -/
def fifoOk (submitted starts : List Nat) : Bool := isSubseq starts submitted

/-- every fetch completes exactly once -/
def onceOk (roots completions : List Nat) : Bool :=
  roots.all (fun r => completions.count r = 1) && completions.all (fun c => roots.contains c)

/-- at most `max` requests in progress at every observation -/
def activeOk (max : Nat) (observed : List Nat) : Bool := observed.all (· ≤ max)

def lower (s : Str) : Str := s.map lowerC

/-- a request carries neither Authorization nor Cookie (any spelling, any multiplicity) -/
def noCredentialHeaders (pairs : List (Str × Str)) : Bool :=
  pairs.all (fun p => lower p.1 != lower nAuthorization && lower p.1 != lower nCookie)

/-- what a cross-origin hop must look like -/
def strippedOk (authUser : Bool) (urlHasUserinfo : Bool) (pairs : List (Str × Str)) : Bool :=
  !authUser && !urlHasUserinfo && noCredentialHeaders pairs

/-- what a 303 (non-HEAD) / 301,302 (POST) hop must look like -/
def getOk (method : Str) (hasBody : Bool) (pairs : List (Str × Str)) : Bool :=
  method == mGET && !hasBody &&
    pairs.all (fun p => lower p.1 != lower nContentLength && lower p.1 != lower nTransferEncoding)

end TornadoModel.C09.Spec
