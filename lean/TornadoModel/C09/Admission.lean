/- C09 — admission invariants: `active ≤ max_clients`, FIFO starts. -/
import TornadoModel.C09.Spec
namespace TornadoModel.C09

/-! ### active ≤ max -/

def Bounded (s : St) : Prop := s.active.length ≤ s.maxClients

theorem processQueue_bounded (q : List Nat) : ∀ s : St, Bounded s →
    Bounded (processQueue q s).1 ∧ (processQueue q s).1.maxClients = s.maxClients := by
  induction q with
  | nil => intro s h; exact ⟨h, rfl⟩
  | cons k q ih =>
    intro s h
    unfold processQueue
    split
    · rename_i hlt
      split
      · simp only
        have := ih { s with waiting := dropKey k s.waiting, active := s.active ++ [k],
                            conns := s.conns ++ [{ key := k, deadline := s.now + (lookup k s.tmo).getD 0, connected := false }] }
          (by simp [Bounded]; omega)
        exact this
      · exact ih s h
    · exact ⟨h, rfl⟩

theorem release_bounded (s : St) (k : Nat) (h : Bounded s) :
    Bounded (release s k).1 ∧ (release s k).1.maxClients = s.maxClients := by
  unfold release
  have hb : Bounded { s with active := s.active.erase k, conns := s.conns.filter (·.key != k) } := by
    have := (List.erase_sublist (a := k) (l := s.active)).length_le
    simp [Bounded] at h ⊢; omega
  exact processQueue_bounded _ _ hb

theorem doFetch_bounded (s : St) (k T : Nat) (h : Bounded s) :
    Bounded (doFetch s k T).1 ∧ (doFetch s k T).1.maxClients = s.maxClients := by
  unfold doFetch
  exact processQueue_bounded _ _ (by simpa [Bounded] using h)

theorem fireTimers_bounded (f limit : Nat) : ∀ s : St, Bounded s →
    Bounded (fireTimers f limit s).1 ∧ (fireTimers f limit s).1.maxClients = s.maxClients := by
  induction f with
  | zero => intro s h; exact ⟨h, rfl⟩
  | succ f ih =>
    intro s h
    unfold fireTimers
    split
    · exact ⟨h, rfl⟩
    · simp only
      exact ih _ (by simpa [Bounded] using h)
    · simp only
      rename_i d k heq
      have hr := release_bounded { s with now := max s.now d } k (by simpa [Bounded] using h)
      have := ih _ hr.1
      exact ⟨this.1, by rw [this.2, hr.2]⟩

theorem step_bounded (s : St) (op : Op) (h : Bounded s) :
    Bounded (step s op).1 ∧ (step s op).1.maxClients = s.maxClients := by
  cases op with
  | fetch k T => exact doFetch_bounded s k T h
  | connFail k =>
    simp only [step]
    split
    · split
      · exact ⟨h, rfl⟩
      · exact release_bounded s k h
    · exact ⟨h, rfl⟩
  | connOk k =>
    simp only [step]
    split
    · split
      · exact ⟨h, rfl⟩
      · exact ⟨by simpa [Bounded] using h, rfl⟩
    · exact ⟨h, rfl⟩
  | respond k =>
    simp only [step]
    split
    · split
      · exact release_bounded s k h
      · exact ⟨h, rfl⟩
    · exact ⟨h, rfl⟩
  | drop k how =>
    simp only [step]
    split
    · split
      · exact release_bounded s k h
      · exact ⟨h, rfl⟩
    · exact ⟨h, rfl⟩
  | redirect k k' =>
    simp only [step]
    split
    · split
      · have hr := release_bounded s k h
        have := doFetch_bounded { (release s k).1 with parent := (k', k) :: (release s k).1.parent } k'
          ((lookup k s.tmo).getD 0) (by simpa [Bounded] using hr.1)
        exact ⟨this.1, by rw [this.2]; exact hr.2⟩
      · exact ⟨h, rfl⟩
    · exact ⟨h, rfl⟩
  | advance dt =>
    simp only [step]
    have := fireTimers_bounded (s.waiting.length + s.conns.length + s.queue.length + 1) (s.now + dt) s h
    exact ⟨by simpa [Bounded] using this.1, this.2⟩

theorem run_bounded (ops : List Op) : ∀ s : St, Bounded s →
    Bounded (run s ops).1 ∧ (run s ops).1.maxClients = s.maxClients := by
  induction ops with
  | nil => intro s h; exact ⟨h, rfl⟩
  | cons op ops ih =>
    intro s h
    simp only [run]
    have h1 := step_bounded s op h
    have h2 := ih _ h1.1
    exact ⟨h2.1, by rw [h2.2, h1.2]⟩

/-! ### FIFO -/

def startsOf (evs : List Ev) : List Nat := evs.filterMap (fun e => match e with | .start k => some k | _ => none)

def subOf : Op → List Nat
  | .fetch k _ => [k]
  | .redirect _ k' => [k']
  | _ => []

theorem startsOf_append (a b : List Ev) : startsOf (a ++ b) = startsOf a ++ startsOf b := by
  simp [startsOf, List.filterMap_append]

theorem startsOf_complete (r : Nat) (h : How) : startsOf [Ev.complete r h] = [] := rfl

theorem processQueue_fifo (q : List Nat) : ∀ s : St,
    (startsOf (processQueue q s).2 ++ (processQueue q s).1.queue).Sublist q := by
  induction q with
  | nil => intro s; simp [processQueue, startsOf]
  | cons k q ih =>
    intro s
    unfold processQueue
    split
    · split
      · simp only [startsOf, List.filterMap_cons, List.cons_append]
        exact List.Sublist.cons_cons _ (ih _)
      · exact List.Sublist.cons _ (ih _)
    · simp [startsOf]

theorem release_fifo (s : St) (k : Nat) :
    (startsOf (release s k).2 ++ (release s k).1.queue).Sublist s.queue := by
  unfold release; exact processQueue_fifo _ _

theorem doFetch_fifo (s : St) (k T : Nat) :
    (startsOf (doFetch s k T).2 ++ (doFetch s k T).1.queue).Sublist (s.queue ++ [k]) := by
  unfold doFetch; exact processQueue_fifo _ _

theorem fireTimers_fifo (f limit : Nat) : ∀ s : St,
    (startsOf (fireTimers f limit s).2 ++ (fireTimers f limit s).1.queue).Sublist s.queue := by
  induction f with
  | zero => intro s; simp [fireTimers, startsOf]
  | succ f ih =>
    intro s
    unfold fireTimers
    split
    · simp [startsOf]
    · simp only
      rename_i d k heq
      have := ih { s with now := max s.now d, queue := s.queue.erase k, waiting := dropKey k s.waiting }
      rw [show ∀ (x : Ev) l, startsOf (x :: l) = startsOf [x] ++ startsOf l from fun x l => startsOf_append [x] l,
        startsOf_complete, List.nil_append]
      exact this.trans List.erase_sublist
    · simp only
      rename_i d k heq
      have h1 := release_fifo { s with now := max s.now d } k
      have h2 := ih (release { s with now := max s.now d } k).1
      rw [startsOf_append,
        show ∀ (x : Ev) l, startsOf (x :: l) = startsOf [x] ++ startsOf l from fun x l => startsOf_append [x] l,
        startsOf_complete, List.nil_append, List.append_assoc]
      exact ((List.Sublist.refl _).append h2).trans h1

theorem step_fifo (s : St) (op : Op) :
    (startsOf (step s op).2 ++ (step s op).1.queue).Sublist (s.queue ++ subOf op) := by
  cases op with
  | fetch k T => exact doFetch_fifo s k T
  | connFail k =>
    simp only [step, subOf, List.append_nil]
    split
    · split
      · simp [startsOf]
      · simp only [startsOf_append, startsOf_complete, List.append_nil]; exact release_fifo s k
    · simp [startsOf]
  | connOk k =>
    simp only [step, subOf, List.append_nil]
    split
    · split <;> simp [startsOf]
    · simp [startsOf]
  | respond k =>
    simp only [step, subOf, List.append_nil]
    split
    · split
      · simp only [startsOf_append, startsOf_complete, List.append_nil]; exact release_fifo s k
      · simp [startsOf]
    · simp [startsOf]
  | drop k how =>
    simp only [step, subOf, List.append_nil]
    split
    · split
      · simp only [startsOf_append, startsOf_complete, List.append_nil]; exact release_fifo s k
      · simp [startsOf]
    · simp [startsOf]
  | redirect k k' =>
    simp only [step, subOf]
    split
    · split
      · have h1 := release_fifo s k
        have h2 := doFetch_fifo { (release s k).1 with parent := (k', k) :: (release s k).1.parent } k'
          ((lookup k s.tmo).getD 0)
        simp only [startsOf_append, List.append_assoc]
        have h3 := (List.Sublist.refl (startsOf (release s k).2)).append h2
        have h4 := h1.append (List.Sublist.refl [k'])
        simp only [List.append_assoc] at h3 h4
        exact h3.trans h4
      · simp [startsOf]
    · simp [startsOf]
  | advance dt =>
    simp only [step, subOf, List.append_nil]
    exact fireTimers_fifo _ _ s

theorem starts_cons (e : List Ev) (es : List (List Ev)) : starts (e :: es) = startsOf e ++ starts es := by
  simp only [starts, startsOf, List.flatten_cons, List.filterMap_append]
  congr 1 <;> (congr 1; funext e; cases e <;> rfl)

theorem run_fifo (ops : List Op) : ∀ s : St, (starts (run s ops).2).Sublist (s.queue ++ submitted ops) := by
  induction ops with
  | nil => intro s; simp [run, starts]
  | cons op ops ih =>
    intro s
    simp only [run]
    rw [starts_cons]
    have h1 := step_fifo s op
    have h2 := ih (step s op).1
    have hsub : submitted (op :: ops) = subOf op ++ submitted ops := by
      cases op <;> simp [submitted, subOf]
    rw [hsub, ← List.append_assoc]
    have h3 := (List.Sublist.refl (startsOf (step s op).2)).append h2
    rw [← List.append_assoc] at h3
    exact h3.trans (h1.append (List.Sublist.refl _))

end TornadoModel.C09
