/- C36 helper lemmas: invariants of the four machines (core Lean only). -/
import TornadoModel.C36.Spec
namespace TornadoModel.C36

/-! ## chain_future -/
namespace Chain

/-- reachable-state invariant -/
structure Inv (s : S) : Prop where
  reg_iff : s.reg = s.a.isNone
  sched : s.a ≠ none → s.b ≠ none ∨ Tok.copy ∈ s.ready
  src : s.bEnv = false → s.b = none ∨ s.b = s.a

theorem inv_init (pa pb : FState) : Inv (init pa pb) := by
  cases pa <;> cases pb <;> constructor <;> simp [init, copy]

theorem inv_exec (t : Tok) (r : List Tok) (s : S) (h : Inv s) (hr : s.ready = t :: r) :
    Inv (exec t { s with ready := r }) := by
  obtain ⟨a, b, reg, ready, bEnv⟩ := s
  obtain ⟨h1, h2, h3⟩ := h
  cases t <;> cases a <;> cases b <;> constructor <;>
    simp_all [exec, copy, settleA, settleB] <;> grind

theorem inv_tickN (n : Nat) (s : S) (h : Inv s) : Inv (tickN n s) := by
  induction n generalizing s with
  | zero => exact h
  | succ n ih =>
    unfold tickN
    split
    · exact h
    · rename_i t r hr
      exact ih _ (inv_exec t r s h hr)

theorem inv_step (s : S) (op : Op) (h : Inv s) : Inv (step s op) := by
  cases op with
  | tick => exact inv_tickN _ s h
  | _ =>
    obtain ⟨a, b, reg, ready, bEnv⟩ := s
    obtain ⟨h1, h2, h3⟩ := h
    cases a <;> cases b <;> constructor <;> simp_all [step, settleA, settleB] <;> grind

theorem inv_run (ops : List Op) (s : S) (h : Inv s) : Inv (run s ops) := by
  induction ops generalizing s with
  | nil => exact h
  | cons op ops ih => exact ih _ (inv_step s op h)

/-! `b` never changes once settled -/
theorem b_stable_exec (t : Tok) (s : S) (x : Outcome) (h : s.b = some x) : (exec t s).b = some x := by
  cases t <;> simp only [exec, copy, settleA, settleB] <;> split <;> simp_all

theorem b_stable_tickN (n : Nat) (s : S) (x : Outcome) (h : s.b = some x) : (tickN n s).b = some x := by
  induction n generalizing s with
  | zero => exact h
  | succ n ih =>
    unfold tickN
    split
    · exact h
    · exact ih _ (b_stable_exec _ _ x (by simpa using h))

theorem b_stable_step (s : S) (op : Op) (x : Outcome) (h : s.b = some x) : (step s op).b = some x := by
  cases op with
  | setA o => simp only [step, settleA]; split <;> simp_all
  | setB o => simp only [step, settleB]; split <;> simp_all
  | soonA o => exact h
  | soonB o => exact h
  | tick => exact b_stable_tickN _ s x h

theorem b_stable_run (ops : List Op) (s : S) (x : Outcome) (h : s.b = some x) : (run s ops).b = some x := by
  induction ops generalizing s with
  | nil => exact h
  | cons op ops ih => exact ih _ (b_stable_step s op x h)

end Chain
end TornadoModel.C36

namespace TornadoModel.C36

/-! ## multi_future: what `finish` computes -/
namespace Multi

/-- the fold of `finish`, started with an unsettled output, accumulated values `vs` and log count `l` -/
theorem fold_spec (st : List FState) (ch : List Nat) (hd : ∀ f ∈ ch, get st f ≠ none) (vs : List Nat) (l : Nat) :
    let r := ch.foldl (foldChild st) (none, vs, l)
    (match r.1 with | some o => some o | none => some (MOut.vals r.2.1)) =
      some (match Spec.firstFailure (ch.filterMap (get st)) with
            | some e => MOut.exc e
            | none => MOut.vals (vs ++ Spec.results (ch.filterMap (get st)))) := by
  induction ch generalizing vs l with
  | nil => simp [Spec.firstFailure, Spec.results]
  | cons f fs ih =>
    have hf : get st f ≠ none := hd f (List.mem_cons_self)
    have hfs : ∀ g ∈ fs, get st g ≠ none := fun g hg => hd g (List.mem_cons_of_mem _ hg)
    cases hg : get st f with
    | none => exact absurd hg hf
    | some o =>
      cases o with
      | result v =>
        have := ih hfs (vs ++ [v]) l
        simp only [List.foldl_cons, foldChild, hg, List.filterMap_cons, Spec.firstFailure, Spec.results] at this ⊢
        simpa [List.append_assoc] using this
      | exc e =>
        -- once the output is settled the fold never changes it
        have keep : ∀ (gs : List Nat) (vs' : List Nat) (l' : Nat),
            (gs.foldl (foldChild st) (some (MOut.exc e), vs', l')).1 = some (MOut.exc e) := by
          intro gs
          induction gs with
          | nil => intros; rfl
          | cons g gs ihg =>
            intro vs' l'
            simp only [List.foldl_cons, foldChild]
            cases get st g with
            | none => exact ihg _ _
            | some o' => cases o' <;> exact ihg _ _
        simp only [List.foldl_cons, foldChild, hg, List.filterMap_cons, Spec.firstFailure]
        rw [keep fs vs l]
      | cancelled =>
        have keep : ∀ (gs : List Nat) (vs' : List Nat) (l' : Nat),
            (gs.foldl (foldChild st) (some (MOut.exc cancelledErr), vs', l')).1 = some (MOut.exc cancelledErr) := by
          intro gs
          induction gs with
          | nil => intros; rfl
          | cons g gs ihg =>
            intro vs' l'
            simp only [List.foldl_cons, foldChild]
            cases get st g with
            | none => exact ihg _ _
            | some o' => cases o' <;> exact ihg _ _
        simp only [List.foldl_cons, foldChild, hg, List.filterMap_cons, Spec.firstFailure]
        rw [keep fs vs l]

/-- once settled, the output of `multi` is never overwritten by `finish` / `callback` -/
theorem finish_keeps (s : S) (x : MOut) (h : s.out = some x) : (finish s).out = some x := by
  have keep : ∀ (gs : List Nat) (vs' : List Nat) (l' : Nat),
      (gs.foldl (foldChild s.st) (some x, vs', l')).1 = some x := by
    intro gs
    induction gs with
    | nil => intros; rfl
    | cons g gs ihg =>
      intro vs' l'
      simp only [List.foldl_cons, foldChild]
      cases get s.st g with
      | none => exact ihg _ _
      | some o' => cases o' <;> exact ihg _ _
  simp only [finish, h, keep]

theorem callback_keeps (f : Nat) (s : S) (x : MOut) (h : s.out = some x) : (callback f s).out = some x := by
  simp only [callback]
  split
  · exact finish_keeps _ x h
  · exact h

theorem out_stable_exec (t : Tok) (s : S) (x : MOut) (h : s.out = some x) : (exec t s).out = some x := by
  cases t with
  | cb f => exact callback_keeps f s x h
  | env f o =>
    simp only [exec, settle]
    split
    · split <;> exact h
    · exact h

theorem out_stable_tickN (n : Nat) (s : S) (x : MOut) (h : s.out = some x) : (tickN n s).out = some x := by
  induction n generalizing s with
  | zero => exact h
  | succ n ih =>
    unfold tickN
    split
    · exact h
    · exact ih _ (out_stable_exec _ _ x (by simpa using h))

theorem out_stable_step (s : S) (op : Op) (x : MOut) (h : s.out = some x) : (step s op).out = some x := by
  cases op with
  | set f o => exact out_stable_exec (.env f o) s x h
  | soon f o => exact h
  | tick => exact out_stable_tickN _ s x h

theorem out_stable_run (ops : List Op) (s : S) (x : MOut) (h : s.out = some x) : (run s ops).out = some x := by
  induction ops generalizing s with
  | nil => exact h
  | cons op ops ih => exact ih _ (out_stable_step s op x h)

end Multi

/-! ## with_timeout: the result never changes once settled -/
namespace Timeout

theorem res_stable_exec (t : Tok) (s : S) (x : Outcome) (h : s.res = some x) : (exec t s).res = some x := by
  obtain ⟨a, res, regs, timer, logs, ready⟩ := s
  cases t <;> cases a <;> cases timer <;>
    simp_all [exec, copy, rm, errCb, timeoutCallback, settleA] <;> (try split) <;> simp_all

theorem res_stable_tickN (n : Nat) (s : S) (x : Outcome) (h : s.res = some x) : (tickN n s).res = some x := by
  induction n generalizing s with
  | zero => exact h
  | succ n ih =>
    unfold tickN
    split
    · exact h
    · exact ih _ (res_stable_exec _ _ x (by simpa using h))

theorem res_stable_step (s : S) (op : Op) (x : Outcome) (h : s.res = some x) : (step s op).res = some x := by
  cases op with
  | setA o => exact res_stable_exec (.envA o) s x h
  | soonA o => exact h
  | tick => exact res_stable_tickN _ s x h
  | fire =>
    simp only [step, fire]
    split <;> exact res_stable_tickN _ _ x (by simpa using h)

theorem res_stable_run (ops : List Op) (s : S) (x : Outcome) (h : s.res = some x) : (run s ops).res = some x := by
  induction ops generalizing s with
  | nil => exact h
  | cons op ops ih => exact ih _ (res_stable_step s op x h)

end Timeout
end TornadoModel.C36
