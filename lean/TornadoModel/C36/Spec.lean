/-
C36 — specification side: what the property statement demands of each combinator, as the shortest
executable definitions (also used by the harness as the oracle on the implementation's outputs).
-/
import TornadoModel.C36.Model
namespace TornadoModel.C36.Spec
open TornadoModel.C36

/-- a chained future copies its source's outcome, including cancellation -/
def chain (a : Outcome) : Outcome := a

/-- the exception of the first input in order that failed (a cancelled input counts as failed with CancelledError) -/
def firstFailure : List Outcome → Option Nat
  | [] => none
  | .result _ :: r => firstFailure r
  | .exc e :: _ => some e
  | .cancelled :: _ => some cancelledErr

def results : List Outcome → List Nat
  | [] => []
  | .result v :: r => v :: results r
  | _ :: r => results r

/-- `multi` over inputs with these outcomes (in input order) -/
def multi (os : List Outcome) : Multi.MOut :=
  match firstFailure os with
  | some e => .exc e
  | none => .vals (results os)

/-- position of the first occurrence of `f` in `args` -/
def indexOf (args : List Nat) (f : Nat) : Option Nat :=
  match args with
  | [] => none
  | x :: r => if x = f then some 0 else (indexOf r f).map (· + 1)

/-- WaitIterator with the still unused argument positions `avail` = (future, index) pairs in argument order:
    every completion takes the first unused position of the completed future -/
def waitYieldsFrom (avail : List (Nat × Nat)) (oc : Nat → Option Outcome) :
    List Nat → List (Option Nat × Option Outcome)
  | [] => []
  | f :: r => (Wait.lookup avail f, oc f) :: waitYieldsFrom (Wait.eraseKey avail f) oc r

/-- WaitIterator over the inputs `args` (the same future may be passed at several positions): what the consumer
    must see when the argument positions complete in the order `order` (a future passed n times completes n times)
    with outcomes `oc`: one (index, outcome) per completion, in completion order; the k-th completion of a future
    carries the index of the k-th position it was passed at (for distinct inputs: `indexOf args f`,
    `waitYields_distinct`) -/
def waitYields (args : List Nat) (order : List Nat) (oc : Nat → Option Outcome) : List (Option Nat × Option Outcome) :=
  waitYieldsFrom (Wait.enum args 0) oc order

/-- with_timeout: `aAtDeadline` is the input's state when the loop iteration in which the timer is due begins
    (`none` = the deadline never arrives), `a` the input's final state -/
def timeout (aAtDeadline : Option FState) (a : FState) : FState :=
  match aAtDeadline with
  | none => a                                  -- no deadline: the input's outcome (pending while it is pending)
  | some (some o) => some o                    -- finished before the deadline
  | some none => some (.exc timeoutErr)        -- not finished: TimeoutError

end TornadoModel.C36.Spec
