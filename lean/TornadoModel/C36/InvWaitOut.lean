/- C36: WaitIterator — what the consumer sees: the futures handed out by `next()` carry the outcomes of the
   yielded inputs, in order (core Lean only). -/
import TornadoModel.C36.InvWait
namespace TornadoModel.C36.Wait

/-- the futures `next()` must have handed out: one resolved future per yield, with the outcome of the yielded
    input, plus a pending one while `_running_future` waits -/
def outsOf (s : S) : List NextOut :=
  s.yielded.map (fun p => NextOut.fut (get s.st p.1)) ++ (if runningPending s then [NextOut.fut none] else [])

def InvO (s : S) : Prop := s.outs = outsOf s

theorem invO_ret (s : S) (f k i : Nat)
    (ho : s.outs = s.yielded.map (fun p => NextOut.fut (get s.st p.1)) ++ [NextOut.fut none])
    (hk : k = s.yielded.length) : InvO (ret f k i s) := by
  have hrp : runningPending (ret f k i s) = false := by simp [runningPending, ret]
  simp only [InvO, outsOf, hrp]
  simp only [ret, ho]
  subst hk
  simp

theorem invO_of_eq (s s' : S) (h : InvO s) (h1 : s'.st = s.st) (h3 : s'.yielded = s.yielded)
    (h6 : s'.running = s.running) (h7 : s'.outs = s.outs) : InvO s' := by
  have hrp : runningPending s' = runningPending s := by simp only [runningPending, h6, h7]
  simp only [InvO, outsOf, h1, h3, h7, hrp]
  exact h

theorem invO_doneCallback (s : S) (g : Nat) (h : InvI s) (hO : InvO s) (hc : s.compl.count g < s.args.count g) :
    InvO (doneCallback g s) := by
  cases hrp : runningPending s with
  | false =>
    rw [dc_idle_eq g s hrp]
    exact invO_of_eq s _ hO rfl rfl rfl rfl
  | true =>
    obtain ⟨k, hk, ho⟩ := (rp_iff s).1 hrp
    obtain ⟨i, hl⟩ := pending_lookup s g h hrp hc
    rw [dc_pending_eq g k i s hk ho hl]
    have hO' : s.outs = s.yielded.map (fun p => NextOut.fut (get s.st p.1)) ++ [NextOut.fut none] := by
      have := hO
      simp only [InvO, outsOf, hrp, if_true] at this
      exact this
    apply invO_ret
    · exact hO'
    · have := (h.w9 k ho).2
      rw [hO'] at this
      simp at this
      exact this

theorem invO_next (s : S) (hs : InvS [] s) (h : InvI s) (hO : InvO s) : InvO (next s) := by
  cases hdone : isDone s with
  | true =>
    rw [next_done_eq s hdone]
    exact invO_of_eq s _ hO rfl rfl rfl rfl
  | false =>
    cases hc : canNext s with
    | false => rw [next_blocked_eq s hdone hc]; exact hO
    | true =>
      have hnp := no_pending_of_canNext s h hc
      have hrp : runningPending s = false := by
        cases hh : runningPending s with
        | false => rfl
        | true =>
          obtain ⟨k, _, ho⟩ := (rp_iff s).1 hh
          exact absurd ho (hnp k)
      have hO' : s.outs = s.yielded.map (fun p => NextOut.fut (get s.st p.1)) := by
        have := hO
        simp only [InvO, outsOf, hrp] at this
        simpa using this
      cases hf : s.finished with
      | nil =>
        rw [next_wait_eq s hdone hc hf]
        have hrp' : runningPending { s with outs := s.outs ++ [NextOut.fut none], running := some s.outs.length }
            = true := (rp_iff _).2 ⟨s.outs.length, rfl, by simp⟩
        simp only [InvO, outsOf, hrp', if_true]
        rw [← hO']
      | cons f rest =>
        obtain ⟨i, hl⟩ := finished_lookup s hs h f rest hf
        rw [next_pop_eq s f i rest hdone hc hf hl]
        apply invO_ret
        · show s.outs ++ [NextOut.fut none] = _
          rw [← hO']
        · show s.outs.length = s.yielded.length
          rw [hO']; simp

theorem invO_of_eq' (s s' : S) (h : InvO s) (h1 : ∀ p ∈ s.yielded, get s'.st p.1 = get s.st p.1)
    (h3 : s'.yielded = s.yielded) (h6 : s'.running = s.running) (h7 : s'.outs = s.outs) : InvO s' := by
  have hrp : runningPending s' = runningPending s := by simp only [runningPending, h6, h7]
  have hcongr : s.yielded.map (fun p => NextOut.fut (get s'.st p.1))
      = s.yielded.map (fun p => NextOut.fut (get s.st p.1)) :=
    List.map_congr_left (fun p hp => by rw [h1 p hp])
  simp only [InvO, outsOf, h3, h7, hrp, hcongr]
  exact h

theorem invO_settle (args : List Nat) (s : S) (f : Nat) (o : Outcome) (h : Inv args [] s) (hO : InvO s) :
    InvO (settle f o s) := by
  simp only [settle]
  split
  · split
    · exact hO
    · rename_i hp
      refine invO_of_eq' s _ hO ?_ rfl rfl rfl
      intro p hp'
      have hpc : p.1 ∈ s.compl := by
        rw [h.iter.w1]; exact List.mem_append_left _ (List.mem_map_of_mem hp')
      have hd := h.sched.cd _ hpc
      have hne : p.1 ≠ f := by
        intro e; rw [e] at hd; exact hd hp
      exact get_set_ne _ _ _ _ hne
  · exact hO

theorem invO_exec (args : List Nat) (t : Tok) (r : List Tok) (s : S) (h : Inv args [] s) (hO : InvO s)
    (hr : s.ready = t :: r) : InvO (exec t { s with ready := r }) := by
  cases t with
  | cb g =>
    have hcb : cbs s.ready = g :: cbs r := by rw [hr]; rfl
    have hgc := count_lt_of_ready [] s g h.sched (by rw [hcb]; simp)
    exact invO_doneCallback { s with ready := r } g
      (invI_of_eq s _ h.iter rfl rfl rfl rfl rfl rfl rfl rfl) (invO_of_eq s _ hO rfl rfl rfl rfl) hgc
  | env f o =>
    have hcb : cbs r = cbs s.ready := by rw [hr]; rfl
    exact invO_settle args _ f o
      ⟨invS_of_eq _ s _ h.sched rfl rfl rfl rfl hcb, invI_of_eq s _ h.iter rfl rfl rfl rfl rfl rfl rfl rfl, h.hargs⟩
      (invO_of_eq s _ hO rfl rfl rfl rfl)

theorem invO_tickN (args : List Nat) (n : Nat) (s : S) (h : Inv args [] s) (hO : InvO s) : InvO (tickN n s) := by
  induction n generalizing s with
  | zero => exact hO
  | succ n ih =>
    unfold tickN
    split
    · exact hO
    · rename_i t r hr
      exact ih _ (inv_exec args t r s h hr) (invO_exec args t r s h hO hr)

theorem invO_step (args : List Nat) (s : S) (op : Op) (h : Inv args [] s) (hO : InvO s) : InvO (step s op) := by
  cases op with
  | set f o => exact invO_settle args s f o h hO
  | soon f o => exact invO_of_eq s _ hO rfl rfl rfl rfl
  | tick => exact invO_tickN args _ s h hO
  | next => exact invO_next s h.sched h.iter hO

theorem invO_run (args : List Nat) (ops : List Op) (s : S) (h : Inv args [] s) (hO : InvO s) : InvO (run s ops) := by
  induction ops generalizing s with
  | nil => exact hO
  | cons op ops ih => exact ih _ (inv_step args s op h) (invO_step args s op h hO)

theorem invO_register (args q : List Nat) (g : Nat) (s : S) (h : Inv args (g :: q) s) (hO : InvO s) :
    InvO (register s g) := by
  simp only [register]
  split
  · have h1 := h.sched.w g
    simp only [List.count_cons_self] at h1
    exact invO_doneCallback s g h.iter hO (by omega)
  · exact invO_of_eq s _ hO rfl rfl rfl rfl

theorem invO_foldl_register (args q : List Nat) (s : S) (h : Inv args q s) (hO : InvO s) :
    InvO (q.foldl register s) := by
  induction q generalizing s with
  | nil => exact hO
  | cons g q ih => exact ih _ (inv_register args q g s h) (invO_register args q g s h hO)

theorem reachO (st : List FState) (args : List Nat) (ops : List Op) :
    InvO (run (init st args) ops) := by
  apply invO_run args ops _ (inv_init st args)
  simp only [init]
  apply invO_foldl_register args args _ (inv_init0 st args)
  simp [InvO, outsOf, runningPending]

end TornadoModel.C36.Wait
