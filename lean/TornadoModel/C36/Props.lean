import TornadoModel.C36.Spec
namespace TornadoModel.C36
end TornadoModel.C36
