/- C36 — property theorems (all proved; the only `def … : Prop` left is `waititer_full`, refuted by `waititer_refuted`). -/
import TornadoModel.C36.LemmasTimeout
import TornadoModel.C36.InvWaitOut
namespace TornadoModel.C36

/-! ### chain_future -/

/-- a destination that is settled never changes again, whatever the schedule does ("unless already done") -/
theorem chain_b_stable (s : Chain.S) (ops : List Chain.Op) (x : Outcome) (h : s.b = some x) :
    (Chain.run s ops).b = some x := Chain.b_stable_run ops s x h

/-- for every initial state of `a` and `b` and every schedule: once the source is done and the loop is idle,
    a destination nobody else settled holds exactly the source's outcome — result, exception or cancellation -/
theorem chain_copies (pa pb : FState) (ops : List Chain.Op) (o : Outcome) :
    let s := Chain.run (Chain.init pa pb) ops
    s.a = some o → s.ready = [] → s.bEnv = false → s.b = some (Spec.chain o) := by
  intro s ha hr hb
  have inv := Chain.inv_run ops _ (Chain.inv_init pa pb)
  have h2 := inv.sched (by simp [s] at ha; simp [ha])
  have h3 := inv.src hb
  simp only [Spec.chain]
  rcases h2 with h2 | h2
  · rcases h3 with h3 | h3
    · exact absurd h3 h2
    · rw [h3]; exact ha
  · simp [s] at hr; simp [hr] at h2

example : (Chain.run (Chain.init none none) [.setA .cancelled, .tick]).b = some .cancelled := by decide

/-- never pending for ever: source done and loop idle ⇒ destination done -/
theorem chain_never_pending (pa pb : FState) (ops : List Chain.Op) :
    let s := Chain.run (Chain.init pa pb) ops
    s.a ≠ none → s.ready = [] → s.b ≠ none := by
  intro s ha hr
  have inv := Chain.inv_run ops _ (Chain.inv_init pa pb)
  rcases inv.sched ha with h | h
  · exact h
  · simp [s] at hr; simp [hr] at h

example : (Chain.run (Chain.init none none) [.soonA (.exc 3), .tick, .tick]).a ≠ none ∧
    (Chain.run (Chain.init none none) [.soonA (.exc 3), .tick, .tick]).ready = [] := by decide

/-- the chain never invents an outcome: unless somebody else settled `b`, it is pending or equal to `a` -/
theorem chain_only_from_source (pa pb : FState) (ops : List Chain.Op) :
    let s := Chain.run (Chain.init pa pb) ops
    s.bEnv = false → s.b = none ∨ s.b = s.a :=
  fun h => (Chain.inv_run ops _ (Chain.inv_init pa pb)).src h

/-! #### source is a `concurrent.futures.Future` (`Chain.initCF`: no inline copy for an already-done source) -/

/-- the same guarantee when the source is a concurrent future, pending or already done (any outcome, incl.
    cancellation): source done ∧ loop idle ∧ nobody else settled `b` ⇒ `b` holds the source's outcome -/
theorem chain_cf_copies (pa pb : FState) (ops : List Chain.Op) (o : Outcome) :
    let s := Chain.run (Chain.initCF pa pb) ops
    s.a = some o → s.ready = [] → s.bEnv = false → s.b = some (Spec.chain o) := by
  cases pa with
  | none => exact chain_copies none pb ops o
  | some x => exact chain_copies none pb (.setA x :: ops) o

example : (Chain.run (Chain.initCF (some .cancelled) none) []).b = none ∧
    (Chain.run (Chain.initCF (some .cancelled) none) [.tick]).b = some .cancelled := by decide

/-- … and is never left pending: source done and loop idle ⇒ destination done -/
theorem chain_cf_never_pending (pa pb : FState) (ops : List Chain.Op) :
    let s := Chain.run (Chain.initCF pa pb) ops
    s.a ≠ none → s.ready = [] → s.b ≠ none := by
  cases pa with
  | none => exact chain_never_pending none pb ops
  | some x => exact chain_never_pending none pb (.setA x :: ops)

/-! ### multi -/

/-- the computation `multi` performs when its last child reports: with every child done and the output still
    unset, the output becomes exactly what the property demands — the results in input order, or the exception of
    the first child in order that failed, a cancelled child counting as failed with CancelledError
    (any children list: duplicates, any outcomes) -/
theorem multi_finish_spec (s : Multi.S) (hout : s.out = none) (hd : ∀ f ∈ s.children, get s.st f ≠ none) :
    (Multi.finish s).out = some (Spec.multi (s.children.filterMap (get s.st))) := by
  have h := Multi.fold_spec s.st s.children hd [] s.logs
  simp only [Multi.finish, hout, Spec.multi]
  simp only [List.nil_append] at h
  exact h

example : (Multi.finish ⟨[some (.result 1), some .cancelled, some (.exc 7)], [0, 1, 2, 0], [], [], none, 0, []⟩).out
    = some (.exc cancelledErr) := by decide

/-- the callback of the last unfinished child settles the output with the specified outcome -/
theorem multi_last_callback (s : Multi.S) (f : Nat) (hu : s.unfinished = [f]) (hout : s.out = none)
    (hd : ∀ g ∈ s.children, get s.st g ≠ none) :
    (Multi.callback f s).out = some (Spec.multi (s.children.filterMap (get s.st))) := by
  have : (Multi.callback f s) = Multi.finish { s with unfinished := [] } := by
    simp [Multi.callback, hu]
  rw [this]
  exact multi_finish_spec { s with unfinished := [] } hout hd

example : (Multi.callback 0 ⟨[some (.result 1)], [0], [0], [0], none, 0, []⟩).out = some (.vals [1]) := by decide

/-- the output of `multi`, once settled, is never overwritten (later failures are only logged) -/
theorem multi_out_stable (s : Multi.S) (ops : List Multi.Op) (x : Multi.MOut) (h : s.out = some x) :
    (Multi.run s ops).out = some x := Multi.out_stable_run ops s x h

/-- for every children list (duplicates, out-of-range indices), every initial state and every schedule: once all
    children are done and the loop is idle the output holds exactly the specified outcome — the results in input
    order, or the exception of the first child in order that failed (cancelled = CancelledError).
    (Reachability invariant `Multi.Inv`: `unfinished_children` shrinks exactly by the children whose callback
    ran; a pending child is listened to; a done unfinished child has its callback in the ready queue.) -/
theorem multi_outcome :
  ∀ (st : List FState) (ch : List Nat) (ops : List Multi.Op), (∀ f ∈ ch, f < st.length) →
    let s := Multi.run (Multi.init st ch) ops
    (∀ f ∈ ch, get s.st f ≠ none) → s.ready = [] → s.out = some (Spec.multi (ch.filterMap (get s.st))) := by
  intro st ch ops _ s hd hr
  exact Multi.run_outcome st ch ops hd hr

example : (∀ f ∈ [0, 1, 0], f < [some (Outcome.result 5), none].length) ∧
    (let s := Multi.run (Multi.init [some (.result 5), none] [0, 1, 0]) [.soon 1 .cancelled, .tick, .tick]
     (∀ f ∈ [0, 1, 0], get s.st f ≠ none) ∧ s.ready = [] ∧ s.out = some (.exc cancelledErr)) := by decide

/-- never left pending: all children done and the loop idle ⇒ the output is settled -/
theorem multi_settles :
  ∀ (st : List FState) (ch : List Nat) (ops : List Multi.Op), (∀ f ∈ ch, f < st.length) →
    let s := Multi.run (Multi.init st ch) ops
    (∀ f ∈ ch, get s.st f ≠ none) → s.ready = [] → s.out ≠ none := by
  intro st ch ops hlt s hd hr
  have := multi_outcome st ch ops hlt hd hr
  simp only [s] at this ⊢
  rw [this]; simp

example : (let s := Multi.run (Multi.init [none, none] [0, 1]) [.set 1 (.result 2), .set 0 (.result 1), .tick]
    (∀ f ∈ [0, 1], get s.st f ≠ none) ∧ s.ready = [] ∧ s.out = some (.vals [1, 2])) := by decide

/-- never settled early: whenever the output is settled, every child is done (at construction or later) -/
theorem multi_not_early :
  ∀ (st : List FState) (ch : List Nat) (ops : List Multi.Op), (∀ f ∈ ch, f < st.length) →
    let s := Multi.run (Multi.init st ch) ops
    s.out ≠ none → ∀ f ∈ ch, get s.st f ≠ none := by
  intro st ch ops _ s ho
  obtain ⟨hinv, hch⟩ := Multi.reach st ch ops
  cases hx : s.out with
  | none => exact absurd hx ho
  | some x =>
    have := (hinv.v x hx).1
    rw [hch] at this
    exact this

example : (Multi.run (Multi.init [none, none] [0, 1]) [.set 0 (.exc 7), .tick]).out = none ∧
    (Multi.run (Multi.init [none, none] [0, 1]) [.set 0 (.exc 7), .tick, .set 1 (.result 1), .tick]).out
      = some (.exc 7) := by decide

/-- the settled output is the specified one at every moment of every schedule (not only when the loop is idle) -/
theorem multi_out_correct (st : List FState) (ch : List Nat) (ops : List Multi.Op) (x : Multi.MOut) :
    let s := Multi.run (Multi.init st ch) ops
    s.out = some x → x = Spec.multi (ch.filterMap (get s.st)) := by
  intro s hx
  obtain ⟨hinv, hch⟩ := Multi.reach st ch ops
  have := (hinv.v x hx).2
  rw [hch] at this
  exact this

example : (Multi.run (Multi.init [none] [0, 0]) [.set 0 (.result 3), .tick]).out = some (.vals [3, 3]) := by decide

/-- the loop always drains: whatever is queued, after two iterations nothing is ready (a callback schedules
    nothing, a `call_soon`ed settle only schedules callbacks) … -/
theorem multi_drains (s : Multi.S) : (Multi.run s [.tick, .tick]).ready = [] := Multi.tick_tick_idle s

/-- … hence `multi` is never pending for ever: from any reachable state in which all children are done, two loop
    iterations later the output is settled with the specified outcome -/
theorem multi_never_pending (st : List FState) (ch : List Nat) (ops : List Multi.Op) :
    let s := Multi.run (Multi.init st ch) ops
    (∀ f ∈ ch, get s.st f ≠ none) →
      (Multi.run s [.tick, .tick]).out = some (Spec.multi (ch.filterMap (get s.st))) := by
  intro s hd
  exact Multi.never_pending_aux st ch ops hd

example : (let s := Multi.run (Multi.init [none, none] [0, 1, 1]) [.soon 0 (.result 4), .set 1 (.result 9), .tick]
    (∀ f ∈ [0, 1, 1], get s.st f ≠ none) ∧ s.out = none ∧
      (Multi.run s [.tick, .tick]).out = some (.vals [4, 9, 9])) := by decide

/-! ### with_timeout -/

/-- the result of `with_timeout`, once settled (input outcome or TimeoutError), never changes -/
theorem timeout_res_stable (s : Timeout.S) (ops : List Timeout.Op) (x : Outcome) (h : s.res = some x) :
    (Timeout.run s ops).res = some x := Timeout.res_stable_run ops s x h

/-- the input finished before the loop iteration in which the deadline is due begins (`fire` = that iteration;
    no earlier `fire` in `ops1`): whatever happens afterwards the result is the input's outcome — result,
    exception or cancellation — for every initial state and every schedule -/
theorem with_timeout_before (pa : FState) (ops1 ops2 : List Timeout.Op) (o : Outcome)
    (hnf : Timeout.Op.fire ∉ ops1) (ha : (Timeout.run (Timeout.init pa) ops1).a = some o) :
    (Timeout.run (Timeout.init pa) (ops1 ++ .fire :: ops2)).res = Spec.timeout (some (some o)) (some o) :=
  Timeout.before_aux pa ops1 ops2 o hnf ha

example : Timeout.Op.fire ∉ [Timeout.Op.soonA .cancelled, .tick] ∧
    (Timeout.run (Timeout.init none) [.soonA .cancelled, .tick]).a = some .cancelled := by decide

/-- the input has not finished when that iteration begins: the result is TimeoutError, for every schedule — even
    if a `call_soon`ed callback settles the input inside that very iteration, and whatever the input does later -/
theorem with_timeout_after (pa : FState) (ops1 ops2 : List Timeout.Op)
    (hnf : Timeout.Op.fire ∉ ops1) (ha : (Timeout.run (Timeout.init pa) ops1).a = none) :
    (Timeout.run (Timeout.init pa) (ops1 ++ .fire :: ops2)).res = Spec.timeout (some none) none :=
  Timeout.after_aux pa ops1 ops2 hnf ha

example : Timeout.Op.fire ∉ [Timeout.Op.soonA (.result 1)] ∧
    (Timeout.run (Timeout.init none) [.soonA (.result 1)]).a = none := by decide

/-- as long as the deadline has not arrived: once the loop is idle the result is the input's state
    (settled with the input's outcome when the input is done — never left pending — and pending otherwise) -/
theorem with_timeout_no_deadline (pa : FState) (ops : List Timeout.Op) (hnf : Timeout.Op.fire ∉ ops)
    (hr : (Timeout.run (Timeout.init pa) ops).ready = []) :
    (Timeout.run (Timeout.init pa) ops).res = Spec.timeout none (Timeout.run (Timeout.init pa) ops).a :=
  Timeout.no_deadline_aux pa ops hnf hr

example : Timeout.Op.fire ∉ [Timeout.Op.setA (.exc 3), .tick] ∧
    (Timeout.run (Timeout.init none) [.setA (.exc 3), .tick]).ready = [] := by decide

/-- input is a `concurrent.futures.Future` (`Timeout.initCF`), pending or already done: before the deadline, once
    the loop is idle the result is the input's state — never left pending once the input is done -/
theorem with_timeout_cf_no_deadline (pa : FState) (ops : List Timeout.Op) (hnf : Timeout.Op.fire ∉ ops)
    (hr : (Timeout.run (Timeout.initCF pa) ops).ready = []) :
    (Timeout.run (Timeout.initCF pa) ops).res = Spec.timeout none (Timeout.run (Timeout.initCF pa) ops).a := by
  cases pa with
  | none => exact with_timeout_no_deadline none ops hnf hr
  | some x =>
    exact with_timeout_no_deadline none (.setA x :: ops) (by simp [hnf]) hr

example : (Timeout.run (Timeout.initCF (some .cancelled)) [.tick]).ready = [] ∧
    (Timeout.run (Timeout.initCF (some .cancelled)) [.tick]).res = some .cancelled := by decide

/-! ### WaitIterator -/

/-- the full statement — for ANY argument list (the same future may be passed at several positions), every initial
    state and every schedule (settles, `call_soon`s, loop iterations, `next()` calls in any order): no `KeyError`
    (neither in a loop callback nor from `next()`), the yields are exactly a prefix of the completion order, no
    argument position completes twice (a future completes at most as often as it was passed), every yield carries an
    index at which the yielded future was passed, and no index is yielded twice.
    (Reachability invariant `Wait.Inv`: scheduling part, by counting — every position of a future is still to
    register, or registered on the pending future, or its callback waits in the ready queue, or it has completed —
    and iterator part — `compl = yielded ++ _finished`, `_unfinished ++ yielded` is a permutation of the argument
    positions, `_unfinished` = the positions minus the first free one of each yielded future.)
    Before the `fix:` commit for duplicate arguments this was false (`WaitIterator(f, f)`: `KeyError`). -/
theorem waititer_full :
  ∀ (st : List FState) (args : List Nat) (ops : List Wait.Op),
    let s := Wait.run (Wait.init st args) ops
    s.cbErrs = 0 ∧ Wait.NextOut.keyError ∉ s.outs ∧ (s.yielded.map (·.1)) <+: s.compl ∧
    (∀ f, s.compl.count f ≤ args.count f) ∧
    (∀ p ∈ s.yielded, args[p.2]? = some p.1) ∧ (s.yielded.map (·.2)).Nodup := by
  intro st args ops s
  have h := Wait.reach st args ops
  have hy := Wait.yielded_positions _ h.iter
  rw [h.hargs] at hy
  refine ⟨h.iter.w6.1, h.iter.w6.2, ?_, ?_, hy.1, hy.2⟩
  · rw [h.iter.w1]; exact List.prefix_append _ _
  · intro f
    have := h.sched.w f
    rw [h.hargs] at this
    show (Wait.run (Wait.init st args) ops).compl.count f ≤ args.count f
    omega

example : (let s := Wait.run (Wait.init [none, some (.exc 5)] [1, 0]) [.next, .set 0 .cancelled, .next, .tick]
     s.yielded = [(1, 0), (0, 1)] ∧ s.compl = [1, 0] ∧
     s.outs = [.fut (some (.exc 5)), .fut (some .cancelled)]) := by decide

/-- the former `KeyError` witness `WaitIterator(f, f)`: `f` is yielded once per position -/
example : (let s := Wait.run (Wait.init [none] [0, 0]) [.next, .set 0 (.result 1), .tick, .next, .next]
     s.yielded = [(0, 0), (0, 1)] ∧ s.compl = [0, 0] ∧ s.cbErrs = 0 ∧ Wait.isDone s = true ∧
     s.outs = [.fut (some (.result 1)), .fut (some (.result 1))]) := by decide

/-- every input is yielded exactly once: when the iterator reports `done()`, the yielded futures are the arguments
    (a future passed n times n times) and the yielded indices are all the argument positions, each exactly once -/
theorem waititer_all_yielded (st : List FState) (args : List Nat) (ops : List Wait.Op) :
    let s := Wait.run (Wait.init st args) ops
    Wait.isDone s = true →
      (s.yielded.map (·.1)).Perm args ∧ (s.yielded.map (·.2)).Perm (List.range args.length) := by
  intro s hdone
  have h := Wait.reach st args ops
  have hp := Wait.complete_aux _ h.iter hdone
  rw [h.hargs] at hp
  refine ⟨?_, ?_⟩
  · have := hp.map (·.1)
    rwa [Wait.enum_map_fst] at this
  · have := hp.map (·.2)
    rwa [Wait.enum_map_snd, ← List.range_eq_range'] at this

example : (let s := Wait.run (Wait.init [none, none] [0, 1, 0]) [.set 1 (.result 2), .set 0 (.result 1), .tick, .next, .next, .next]
    Wait.isDone s = true ∧ s.yielded = [(1, 1), (0, 0), (0, 2)]) := by decide

/-- never pending for ever: once every argument is done and the loop is idle, the future returned by the last
    `next()` has resolved … -/
theorem waititer_never_pending (st : List FState) (args : List Nat) (ops : List Wait.Op) :
    let s := Wait.run (Wait.init st args) ops
    (∀ f ∈ args, get s.st f ≠ none) → s.ready = [] → s.outs.getLast? ≠ some (.fut none) := by
  intro s hd hr
  have h := Wait.reach st args ops
  exact Wait.never_pending_aux _ h.sched h.iter (by rw [h.hargs]; exact hd) hr

example : (let s := Wait.run (Wait.init [none, none] [0, 1]) [.next, .set 1 (.result 2), .set 0 .cancelled]
    s.outs.getLast? = some (.fut none) ∧ (∀ f ∈ [0, 1], get s.st f ≠ none) ∧
    (Wait.run s [.tick]).ready = [] ∧ (Wait.run s [.tick]).outs.getLast? = some (.fut (some (.result 2)))) := by decide

/-- … and as long as the iterator is not `done()`, the next `next()` returns an already resolved future: the
    oldest completed input not yet yielded, with its outcome and an index at which it was passed that has not
    been yielded before -/
theorem waititer_next_yields (st : List FState) (args : List Nat) (ops : List Wait.Op) :
    let s := Wait.run (Wait.init st args) ops
    (∀ f ∈ args, get s.st f ≠ none) → s.ready = [] → Wait.isDone s = false →
      ∃ f i rest, s.finished = f :: rest ∧ get s.st f ≠ none ∧ args[i]? = some f ∧ i ∉ s.yielded.map (·.2) ∧
        (Wait.next s).yielded = s.yielded ++ [(f, i)] ∧ (Wait.next s).outs = s.outs ++ [.fut (get s.st f)] ∧
        (Wait.next s).finished = rest := by
  intro s hd hr hdone
  have h := Wait.reach st args ops
  have := Wait.next_yields_aux _ h.sched h.iter (by rw [h.hargs]; exact hd) hr hdone
  rw [h.hargs] at this
  exact this

example : (let s := Wait.run (Wait.init [some (.result 1), some (.exc 9)] [0, 1]) [.next]
    (∀ f ∈ [0, 1], get s.st f ≠ none) ∧ s.ready = [] ∧ Wait.isDone s = false ∧
    (Wait.next s).yielded = [(0, 0), (1, 1)]) := by decide

/-- what the consumer sees (any arguments, every schedule): the futures handed out by the successive `next()`
    calls are exactly one resolved future per yield, carrying the outcome (result / exception / cancellation) of
    the yielded input, in yield order — plus one pending future while `next()` waits for a completion -/
theorem waititer_outcomes (st : List FState) (args : List Nat) (ops : List Wait.Op) :
    let s := Wait.run (Wait.init st args) ops
    s.outs = s.yielded.map (fun p => Wait.NextOut.fut (get s.st p.1))
              ++ (if Wait.runningPending s then [Wait.NextOut.fut none] else []) :=
  Wait.reachO st args ops

/-- … so the (index, outcome) pairs delivered are `Spec.waitYields` of the yielded inputs, themselves a prefix of
    the completion order (`waititer_full`): the k-th completion of a future carries the index of the k-th position
    it was passed at -/
theorem waititer_yields_spec (st : List FState) (args : List Nat) (ops : List Wait.Op) :
    let s := Wait.run (Wait.init st args) ops
    s.yielded.map (fun p => (some p.2, get s.st p.1)) = Spec.waitYields args (s.yielded.map (·.1)) (get s.st) := by
  intro s
  have h := Wait.reach st args ops
  have := h.iter.wY (get s.st)
  rw [h.hargs] at this
  exact this

example : (let s := Wait.run (Wait.init [none, none, none] [2, 0, 1]) [.next, .soon 1 (.exc 4), .set 0 .cancelled, .tick, .next, .tick, .next]
    s.yielded = [(0, 1), (1, 2)] ∧ s.compl = [0, 1] ∧
    s.outs = [.fut (some .cancelled), .fut (some (.exc 4)), .fut none] ∧ Wait.runningPending s = true) := by decide

/-- for completions of pairwise different futures (in particular: distinct arguments) the specified index is the
    position of the future's first occurrence -/
theorem waitYields_distinct (args order : List Nat) (oc : Nat → Option Outcome) (hnd : order.Nodup) :
    Spec.waitYields args order oc = order.map (fun f => (Spec.indexOf args f, oc f)) := by
  simp only [Spec.waitYields, Wait.waitYieldsFrom_nodup _ _ _ hnd]
  apply List.map_congr_left
  intro f _
  rw [Wait.lookup_enum]
  cases Spec.indexOf args f <;> simp

example : Spec.waitYields [5, 7, 5] [5, 7, 5] (fun _ => none) = [(some 0, none), (some 1, none), (some 2, none)] := by
  decide

end TornadoModel.C36
