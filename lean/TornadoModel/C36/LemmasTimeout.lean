/- C36: with_timeout — which of input outcome / TimeoutError the result gets (core Lean only). -/
import TornadoModel.C36.Lemmas
namespace TornadoModel.C36.Timeout

/-- only harness settles and `error_callback`s (no `copy`, `rm`, timer handle) -/
def clean : List Tok → Bool
  | [] => true
  | .envA _ :: r => clean r
  | .err :: r => clean r
  | _ :: _ => false

/-- the first of `copy` / `rm` / timer handle in the queue is `copy` -/
def copyFirst : List Tok → Bool
  | [] => false
  | .copy :: _ => true
  | .envA _ :: r => copyFirst r
  | .err :: r => copyFirst r
  | _ :: _ => false

/-- the first of `copy` / `rm` / timer handle in the queue is the timer handle -/
def timerFirst : List Tok → Bool
  | [] => false
  | .timer :: _ => true
  | .envA _ :: r => timerFirst r
  | .err :: r => timerFirst r
  | _ :: _ => false

/-- number of tokens before the first `copy` / timer handle -/
def posOf (p : Tok → Bool) : List Tok → Nat
  | [] => 0
  | t :: r => if p t then 0 else posOf p r + 1

theorem clean_append_env (l : List Tok) (o : Outcome) (h : clean l = true) : clean (l ++ [Tok.envA o]) = true := by
  induction l with
  | nil => rfl
  | cons t r ih => cases t <;> simp_all [clean]

theorem copyFirst_of_clean (l x : List Tok) (h : clean l = true) : copyFirst (l ++ Tok.copy :: x) = true := by
  induction l with
  | nil => rfl
  | cons t r ih => cases t <;> simp_all [clean, copyFirst]

theorem timerFirst_of_clean (l x : List Tok) (h : clean l = true) : timerFirst (l ++ Tok.timer :: x) = true := by
  induction l with
  | nil => rfl
  | cons t r ih => cases t <;> simp_all [clean, timerFirst]

theorem copyFirst_append (l x : List Tok) (h : copyFirst l = true) : copyFirst (l ++ x) = true := by
  induction l with
  | nil => simp [copyFirst] at h
  | cons t r ih => cases t <;> simp_all [copyFirst]

theorem timerFirst_append (l x : List Tok) (h : timerFirst l = true) : timerFirst (l ++ x) = true := by
  induction l with
  | nil => simp [timerFirst] at h
  | cons t r ih => cases t <;> simp_all [timerFirst]

theorem pos_timer_append (l x : List Tok) (h : timerFirst l = true) :
    posOf (· == Tok.timer) (l ++ x) = posOf (· == Tok.timer) l := by
  induction l with
  | nil => simp [timerFirst] at h
  | cons t r ih => cases t <;> simp_all [timerFirst, posOf]

theorem pos_timer_clean (l x : List Tok) (h : clean l = true) :
    posOf (· == Tok.timer) (l ++ Tok.timer :: x) = l.length := by
  induction l with
  | nil => simp [posOf]
  | cons t r ih => cases t <;> simp_all [clean, posOf]

/-- invariant of every state reached without the deadline arriving -/
def NF (s : S) : Prop :=
  match s.a with
  | none => s.res = none ∧ s.timer = .armed ∧ s.regs = [Tok.copy, Tok.rm] ∧ clean s.ready = true
  | some o => s.res = some o ∨ (s.res = none ∧ copyFirst s.ready = true)

theorem nf_init (pa : FState) : NF (init pa) := by
  cases pa <;> simp [NF, init, copy, rm, clean]

theorem nf_exec (t : Tok) (r : List Tok) (s : S) (h : NF s) (hr : s.ready = t :: r) :
    NF (exec t { s with ready := r }) := by
  obtain ⟨a, res, regs, timer, logs, ready⟩ := s
  simp only at hr
  subst hr
  cases a with
  | none =>
    obtain ⟨h1, h2, h3, h4⟩ := h
    simp only at h1 h2 h3 h4
    subst h1 h2 h3
    cases t with
    | envA o =>
      simp only [clean] at h4
      simp [exec, settleA, NF, copyFirst_of_clean r [Tok.rm] h4]
    | err =>
      simp only [clean] at h4
      simp [exec, errCb, NF, h4]
    | copy => simp [clean] at h4
    | rm => simp [clean] at h4
    | timer => simp [clean] at h4
  | some o =>
    simp only [NF] at h
    rcases h with h | ⟨h1, h2⟩
    · subst h
      have hh := res_stable_exec t
        { a := some o, res := some o, regs := regs, timer := timer, logs := logs, ready := r } o rfl
      have ha : (exec t { a := some o, res := some o, regs := regs, timer := timer, logs := logs, ready := r }).a
          = some o := by
        cases t <;> cases timer <;> simp [exec, copy, rm, errCb, timeoutCallback, settleA] <;>
          (try split) <;> simp_all
      simp only [NF, ha]
      exact Or.inl hh
    · subst h1
      cases t with
      | copy => simp [exec, copy, NF]
      | envA o' => simp only [copyFirst] at h2; simp [exec, settleA, NF, h2]
      | err =>
        simp only [copyFirst] at h2
        cases o <;> simp [exec, errCb, NF, h2]
      | rm => simp [copyFirst] at h2
      | timer => simp [copyFirst] at h2

theorem nf_tickN (n : Nat) (s : S) (h : NF s) : NF (tickN n s) := by
  induction n generalizing s with
  | zero => exact h
  | succ n ih =>
    unfold tickN
    split
    · exact h
    · rename_i t r hr
      exact ih _ (nf_exec t r s h hr)

theorem nf_step (s : S) (op : Op) (hop : op ≠ .fire) (h : NF s) : NF (step s op) := by
  cases op with
  | fire => exact absurd rfl hop
  | tick => exact nf_tickN _ s h
  | soonA o =>
    obtain ⟨a, res, regs, timer, logs, ready⟩ := s
    cases a with
    | none =>
      obtain ⟨h1, h2, h3, h4⟩ := h
      exact ⟨h1, h2, h3, clean_append_env _ o h4⟩
    | some o' =>
      simp only [NF] at h ⊢
      rcases h with h | ⟨h1, h2⟩
      · exact Or.inl h
      · exact Or.inr ⟨h1, copyFirst_append _ _ h2⟩
  | setA o =>
    obtain ⟨a, res, regs, timer, logs, ready⟩ := s
    cases a with
    | none =>
      obtain ⟨h1, h2, h3, h4⟩ := h
      simp only at h1 h2 h3 h4
      subst h1 h2 h3
      simp [step, settleA, NF, copyFirst_of_clean ready [Tok.rm] h4]
    | some o' => simpa [step, settleA, NF] using h

theorem nf_run (ops : List Op) (s : S) (hops : Op.fire ∉ ops) (h : NF s) : NF (run s ops) := by
  induction ops generalizing s with
  | nil => exact h
  | cons op ops ih =>
    simp only [List.mem_cons, not_or] at hops
    exact ih _ hops.2 (nf_step s op (fun e => hops.1 e.symm) h)

/-- the input is done and its `copy` is queued before any `rm` / timer handle: a long enough tick copies it -/
theorem tick_copies (n : Nat) (s : S) (o : Outcome) (ha : s.a = some o) (hres : s.res = none)
    (hc : copyFirst s.ready = true) (hp : posOf (· == Tok.copy) s.ready < n) : (tickN n s).res = some o := by
  induction n generalizing s with
  | zero => omega
  | succ n ih =>
    obtain ⟨a, res, regs, timer, logs, ready⟩ := s
    simp only at ha hres hc hp
    subst ha hres
    cases ready with
    | nil => simp [copyFirst] at hc
    | cons t r =>
      cases t with
      | copy =>
        simp only [tickN]
        exact res_stable_tickN n _ o (by simp [exec, copy])
      | envA o' =>
        simp only [copyFirst] at hc
        simp only [posOf] at hp
        simp only [tickN, exec, settleA]
        exact ih _ rfl rfl hc (by simp at hp; omega)
      | err =>
        simp only [copyFirst] at hc
        simp only [posOf] at hp
        simp only [tickN, exec]
        cases o <;> exact ih _ rfl rfl hc (by simp [errCb] at hp ⊢; omega)
      | rm => simp [copyFirst] at hc
      | timer => simp [copyFirst] at hc

/-- the result is unset, the timer armed and its handle queued before any `copy` / `rm`: a long enough tick
    settles the result with TimeoutError (even if a `call_soon`ed settle of the input runs first) -/
theorem tick_times_out (n : Nat) (s : S) (hres : s.res = none) (ht : s.timer = .armed)
    (hc : timerFirst s.ready = true) (hp : posOf (· == Tok.timer) s.ready < n) :
    (tickN n s).res = some (.exc timeoutErr) := by
  induction n generalizing s with
  | zero => omega
  | succ n ih =>
    obtain ⟨a, res, regs, timer, logs, ready⟩ := s
    simp only at hres ht hc hp
    subst hres ht
    cases ready with
    | nil => simp [timerFirst] at hc
    | cons t r =>
      cases t with
      | timer =>
        simp only [tickN]
        apply res_stable_tickN
        cases a <;> simp [exec, timeoutCallback, errCb] <;> (try split) <;> rfl
      | envA o' =>
        simp only [timerFirst] at hc
        simp only [posOf] at hp
        simp only [tickN, exec, settleA]
        cases a with
        | none =>
          exact ih _ rfl rfl (timerFirst_append _ _ hc) (by rw [pos_timer_append _ _ hc]; simp at hp; omega)
        | some o => exact ih _ rfl rfl hc (by simp at hp; omega)
      | err =>
        simp only [timerFirst] at hc
        simp only [posOf] at hp
        simp only [tickN, exec, errCb]
        cases a with
        | none => exact ih _ rfl rfl hc (by simp at hp; omega)
        | some o => cases o <;> exact ih _ rfl rfl hc (by simp at hp; omega)
      | copy => simp [timerFirst] at hc
      | rm => simp [timerFirst] at hc

theorem run_append (s : S) (a b : List Op) : run s (a ++ b) = run (run s a) b := by
  induction a generalizing s with
  | nil => rfl
  | cons op a ih => exact ih _

theorem pos_copy_le (l : List Tok) : posOf (· == Tok.copy) l ≤ l.length := by
  induction l with
  | nil => simp [posOf]
  | cons t r ih => simp only [posOf]; split <;> simp <;> omega

theorem pos_copy_lt (l x : List Tok) (h : copyFirst l = true) : posOf (· == Tok.copy) (l ++ x) < l.length := by
  induction l with
  | nil => simp [copyFirst] at h
  | cons t r ih => cases t <;> simp_all [copyFirst, posOf]

theorem before_aux (pa : FState) (ops1 ops2 : List Op) (o : Outcome) (hnf : Op.fire ∉ ops1)
    (ha : (run (init pa) ops1).a = some o) :
    (run (init pa) (ops1 ++ Op.fire :: ops2)).res = some o := by
  rw [run_append]
  have nf := nf_run ops1 _ hnf (nf_init pa)
  generalize run (init pa) ops1 = s1 at *
  show (run (step s1 .fire) ops2).res = some o
  apply res_stable_run
  simp only [step, fire]
  unfold NF at nf
  rw [ha] at nf
  rcases nf with h | ⟨h1, h2⟩
  · split <;> exact res_stable_tickN _ _ o (by simpa using h)
  · split
    · exact tick_copies _ _ o (by simpa using ha) (by simpa using h1) (copyFirst_append _ _ h2)
        (by simpa using Nat.lt_succ_of_lt (pos_copy_lt s1.ready [Tok.timer] h2))
    · exact tick_copies _ _ o ha h1 h2 (by simpa using pos_copy_lt s1.ready [] h2)

theorem after_aux (pa : FState) (ops1 ops2 : List Op) (hnf : Op.fire ∉ ops1)
    (ha : (run (init pa) ops1).a = none) :
    (run (init pa) (ops1 ++ Op.fire :: ops2)).res = some (.exc timeoutErr) := by
  rw [run_append]
  have nf := nf_run ops1 _ hnf (nf_init pa)
  generalize run (init pa) ops1 = s1 at *
  show (run (step s1 .fire) ops2).res = some (.exc timeoutErr)
  apply res_stable_run
  unfold NF at nf
  rw [ha] at nf
  obtain ⟨h1, h2, h3, h4⟩ := nf
  simp only [step, fire, h2, tick]
  exact tick_times_out _ _ (by simpa using h1) (by simpa using h2) (timerFirst_of_clean _ [] h4)
    (by simp [pos_timer_clean _ [] h4])

theorem no_deadline_aux (pa : FState) (ops : List Op) (hnf : Op.fire ∉ ops)
    (hr : (run (init pa) ops).ready = []) : (run (init pa) ops).res = (run (init pa) ops).a := by
  have nf := nf_run ops _ hnf (nf_init pa)
  generalize run (init pa) ops = s at *
  unfold NF at nf
  cases ha : s.a with
  | none => rw [ha] at nf; exact nf.1
  | some o =>
    rw [ha] at nf
    rcases nf with h | ⟨_, h2⟩
    · exact h
    · rw [hr] at h2; simp [copyFirst] at h2

end TornadoModel.C36.Timeout
