/- C36: reachability invariant of the `multi` machine over all schedules (core Lean only). -/
import TornadoModel.C36.Lemmas
namespace TornadoModel.C36

theorem get_set_ne (st : List FState) (f g : Nat) (v : FState) (h : g ≠ f) : get (st.set f v) g = get st g := by
  simp [get, List.getElem?_set_ne (Ne.symm h)]

theorem get_set_self (st : List FState) (f : Nat) (v : FState) (h : f < st.length) : get (st.set f v) f = v := by
  simp [get, h]

theorem nodup_eraseDups (l : List Nat) : l.eraseDups.Nodup := by
  suffices h : ∀ n (l : List Nat), l.length ≤ n → l.eraseDups.Nodup from h _ l (Nat.le_refl _)
  intro n
  induction n with
  | zero =>
    intro l hl
    have : l = [] := List.eq_nil_of_length_eq_zero (Nat.le_zero.mp hl)
    subst this; simp
  | succ n ih =>
    intro l hl
    cases l with
    | nil => simp
    | cons a as =>
      rw [List.eraseDups_cons, List.nodup_cons]
      refine ⟨?_, ih _ ?_⟩
      · simp
      · have := List.length_filter_le (fun b => !b == a) as
        simp at hl; omega

theorem filterMap_congr' (l : List Nat) (f g : Nat → Option Outcome) (h : ∀ a ∈ l, f a = g a) :
    l.filterMap f = l.filterMap g := by
  induction l with
  | nil => rfl
  | cons a l ih =>
    simp only [List.filterMap_cons, h a (by simp)]
    rw [ih (fun b hb => h b (List.mem_cons_of_mem _ hb))]

namespace Multi

/-- what `finish` puts into a still unset output when every child is done -/
theorem finish_out_spec (s : S) (hout : s.out = none) (hd : ∀ f ∈ s.children, get s.st f ≠ none) :
    (finish s).out = some (Spec.multi (s.children.filterMap (get s.st))) := by
  have h := fold_spec s.st s.children hd [] s.logs
  simp only [finish, hout, Spec.multi]
  simp only [List.nil_append] at h
  exact h

theorem finish_out_ne_none (s : S) : (finish s).out ≠ none := by
  simp only [finish]; split <;> simp

@[simp] theorem callback_st (g : Nat) (s : S) : (callback g s).st = s.st := by
  simp only [callback]; split <;> rfl
@[simp] theorem callback_children (g : Nat) (s : S) : (callback g s).children = s.children := by
  simp only [callback]; split <;> rfl
@[simp] theorem callback_listening (g : Nat) (s : S) : (callback g s).listening = s.listening := by
  simp only [callback]; split <;> rfl
@[simp] theorem callback_ready (g : Nat) (s : S) : (callback g s).ready = s.ready := by
  simp only [callback]; split <;> rfl
@[simp] theorem callback_unfinished (g : Nat) (s : S) : (callback g s).unfinished = s.unfinished.erase g := by
  simp only [callback]; split <;> rfl

/-- Reachability invariant; `q` = the children the constructor loop has still to register (`[]` afterwards). -/
structure Inv (q : List Nat) (s : S) : Prop where
  sub : ∀ f ∈ s.unfinished, f ∈ s.children
  nd : s.unfinished.Nodup
  qnd : q.Nodup
  a : ∀ f ∈ s.unfinished, f ∈ q ∨ (get s.st f = none ∧ f ∈ s.listening) ∨ Tok.cb f ∈ s.ready
  b : ∀ f ∈ s.children, (f ∈ q ∨ get s.st f = none) → f ∈ s.unfinished
  d : ∀ g, Tok.cb g ∈ s.ready → get s.st g ≠ none ∧ g ∉ q
  e : s.unfinished = [] → s.out ≠ none
  v : ∀ x, s.out = some x →
    (∀ f ∈ s.children, get s.st f ≠ none) ∧ x = Spec.multi (s.children.filterMap (get s.st))

/-- running the done-callback of `g` that is at the head of the ready queue -/
theorem inv_callback (q : List Nat) (s : S) (g : Nat) (r : List Tok) (h : Inv q s) (hr : s.ready = Tok.cb g :: r) :
    Inv q (callback g { s with ready := r }) := by
  have hgd := h.d g (by simp [hr])
  have hmem : ∀ f, f ∈ s.unfinished.erase g ↔ f ≠ g ∧ f ∈ s.unfinished := fun f => h.nd.mem_erase_iff
  have hb : ∀ f ∈ s.children, (f ∈ q ∨ get s.st f = none) → f ∈ s.unfinished.erase g := by
    intro f hf hc
    rw [hmem]
    refine ⟨?_, h.b f hf hc⟩
    rintro rfl
    rcases hc with hc | hc
    · exact hgd.2 hc
    · exact hgd.1 hc
  constructor
  · intro f hf
    simp only [callback_unfinished, callback_children] at hf ⊢
    exact h.sub f ((hmem f).1 hf).2
  · simp only [callback_unfinished]
    exact h.nd.erase g
  · exact h.qnd
  · intro f hf
    simp only [callback_unfinished, callback_st, callback_listening, callback_ready] at hf ⊢
    obtain ⟨hne, hf⟩ := (hmem f).1 hf
    rcases h.a f hf with h1 | h1 | h1
    · exact Or.inl h1
    · exact Or.inr (Or.inl h1)
    · refine Or.inr (Or.inr ?_)
      rw [hr] at h1
      rcases List.mem_cons.1 h1 with h2 | h2
      · injection h2 with h2; exact absurd h2 hne
      · exact h2
  · intro f hf hc
    simp only [callback_unfinished, callback_st, callback_children] at hf hc ⊢
    exact hb f hf hc
  · intro g' hg'
    simp only [callback_st, callback_ready] at hg' ⊢
    exact h.d g' (by rw [hr]; exact List.mem_cons_of_mem _ hg')
  · intro hu
    simp only [callback_unfinished] at hu
    simp only [callback, hu, List.isEmpty_nil, if_true]
    exact finish_out_ne_none _
  · intro x hx
    simp only [callback_st, callback_children]
    simp only [callback] at hx
    split at hx
    · rename_i hemp
      have hemp' : s.unfinished.erase g = [] := by simpa using hemp
      have hall : ∀ f ∈ s.children, get s.st f ≠ none := by
        intro f hf hn
        have := hb f hf (Or.inr hn)
        rw [hemp'] at this
        exact absurd this (by simp)
      refine ⟨hall, ?_⟩
      cases ho : s.out with
      | none =>
        rw [finish_out_spec { s with unfinished := s.unfinished.erase g, ready := r } ho hall] at hx
        exact (Option.some.inj hx).symm
      | some y =>
        rw [finish_keeps { s with unfinished := s.unfinished.erase g, ready := r } y ho] at hx
        have hxy : y = x := Option.some.inj hx
        rw [← hxy]
        exact (h.v y ho).2
    · exact h.v x hx

theorem inv_pop_env (s : S) (f : Nat) (o : Outcome) (r : List Tok) (h : Inv [] s) (hr : s.ready = Tok.env f o :: r) :
    Inv [] { s with ready := r } := by
  constructor
  · exact h.sub
  · exact h.nd
  · exact h.qnd
  · intro g hg
    rcases h.a g hg with h1 | h1 | h1
    · exact Or.inl h1
    · exact Or.inr (Or.inl h1)
    · refine Or.inr (Or.inr ?_)
      rw [hr] at h1
      rcases List.mem_cons.1 h1 with h2 | h2
      · cases h2
      · exact h2
  · exact h.b
  · intro g hg
    exact h.d g (by rw [hr]; exact List.mem_cons_of_mem _ hg)
  · exact h.e
  · exact h.v

theorem inv_settle (s : S) (f : Nat) (o : Outcome) (h : Inv [] s) : Inv [] (settle f o s) := by
  simp only [settle]
  split
  · rename_i hlt
    split
    · exact h
    · rename_i hp
      have hself : get (s.st.set f (some o)) f = some o := get_set_self _ _ _ hlt
      have hmono : ∀ g, get s.st g ≠ none → get (s.st.set f (some o)) g = get s.st g := by
        intro g hg
        by_cases hgf : g = f
        · subst hgf; exact absurd hp hg
        · exact get_set_ne _ _ _ _ hgf
      have hback : ∀ g, get (s.st.set f (some o)) g = none → get s.st g = none ∧ g ≠ f := by
        intro g hg
        by_cases hgf : g = f
        · subst hgf; rw [hself] at hg; cases hg
        · rw [get_set_ne _ _ _ _ hgf] at hg; exact ⟨hg, hgf⟩
      constructor
      · exact h.sub
      · exact h.nd
      · exact h.qnd
      · intro g hg
        rcases h.a g hg with h1 | h1 | h1
        · exact Or.inl h1
        · by_cases hgf : g = f
          · subst hgf
            refine Or.inr (Or.inr ?_)
            simp only [List.mem_append, List.mem_map, List.mem_filter]
            exact Or.inr ⟨g, ⟨h1.2, by simp⟩, rfl⟩
          · exact Or.inr (Or.inl ⟨by simp only; rw [get_set_ne _ _ _ _ hgf]; exact h1.1, h1.2⟩)
        · exact Or.inr (Or.inr (List.mem_append_left _ h1))
      · intro g hg hc
        rcases hc with hc | hc
        · cases hc
        · exact h.b g hg (Or.inr (hback g hc).1)
      · intro g hg
        refine ⟨?_, by simp⟩
        rcases List.mem_append.1 hg with h1 | h1
        · have := (h.d g h1).1
          simp only; rw [hmono g this]; exact this
        · simp only [List.mem_map, List.mem_filter] at h1
          obtain ⟨g', ⟨_, hg'⟩, he⟩ := h1
          injection he with he
          have : g' = f := by simpa using hg'
          subst he; subst this
          simp only; rw [hself]; simp
      · exact h.e
      · intro x hx
        obtain ⟨hall, hxs⟩ := h.v x hx
        have heq : ∀ g ∈ s.children, get (s.st.set f (some o)) g = get s.st g := fun g hg => hmono g (hall g hg)
        refine ⟨fun g hg => by simp only; rw [heq g hg]; exact hall g hg, ?_⟩
        have : s.children.filterMap (get (s.st.set f (some o))) = s.children.filterMap (get s.st) :=
          filterMap_congr' _ _ _ heq
        simp only; rw [this]; exact hxs
  · exact h

theorem inv_exec (t : Tok) (r : List Tok) (s : S) (h : Inv [] s) (hr : s.ready = t :: r) :
    Inv [] (exec t { s with ready := r }) := by
  cases t with
  | cb g => exact inv_callback [] s g r h hr
  | env f o => exact inv_settle _ f o (inv_pop_env s f o r h hr)

theorem inv_tickN (n : Nat) (s : S) (h : Inv [] s) : Inv [] (tickN n s) := by
  induction n generalizing s with
  | zero => exact h
  | succ n ih =>
    unfold tickN
    split
    · exact h
    · rename_i t r hr
      exact ih _ (inv_exec t r s h hr)

theorem inv_soon (s : S) (t : Tok) (ht : ∀ g, t ≠ Tok.cb g) (h : Inv [] s) : Inv [] { s with ready := s.ready ++ [t] } := by
  constructor
  · exact h.sub
  · exact h.nd
  · exact h.qnd
  · intro g hg
    rcases h.a g hg with h1 | h1 | h1
    · exact Or.inl h1
    · exact Or.inr (Or.inl h1)
    · exact Or.inr (Or.inr (List.mem_append_left _ h1))
  · exact h.b
  · intro g hg
    rcases List.mem_append.1 hg with h1 | h1
    · exact h.d g h1
    · simp only [List.mem_singleton] at h1
      exact absurd h1.symm (ht g)
  · exact h.e
  · exact h.v

theorem inv_step (s : S) (op : Op) (h : Inv [] s) : Inv [] (step s op) := by
  cases op with
  | set f o => exact inv_settle s f o h
  | soon f o => exact inv_soon s _ (fun g => by simp) h
  | tick => exact inv_tickN _ s h

theorem inv_run (ops : List Op) (s : S) (h : Inv [] s) : Inv [] (run s ops) := by
  induction ops generalizing s with
  | nil => exact h
  | cons op ops ih => exact ih _ (inv_step s op h)

/-! ### the constructor loop -/

theorem inv_register (q : List Nat) (g : Nat) (s : S) (h : Inv (g :: q) s) (hr : s.ready = []) :
    Inv q (register s g) ∧ (register s g).ready = [] := by
  have hgq : g ∉ q := (List.nodup_cons.1 h.qnd).1
  have hqnd : q.Nodup := (List.nodup_cons.1 h.qnd).2
  simp only [register]
  split
  · rename_i o hdone
    refine ⟨?_, by simp [hr]⟩
    -- pretend the callback was scheduled, then run it
    have h1 : Inv q { s with ready := Tok.cb g :: [] } := by
      constructor
      · exact h.sub
      · exact h.nd
      · exact hqnd
      · intro f hf
        rcases h.a f hf with h1 | h1 | h1
        · rcases List.mem_cons.1 h1 with h2 | h2
          · subst h2; exact Or.inr (Or.inr (by simp))
          · exact Or.inl h2
        · exact Or.inr (Or.inl h1)
        · rw [hr] at h1; cases h1
      · intro f hf hc
        refine h.b f hf ?_
        rcases hc with hc | hc
        · exact Or.inl (List.mem_cons_of_mem _ hc)
        · exact Or.inr hc
      · intro g' hg'
        simp only [List.mem_singleton] at hg'
        injection hg' with hg'
        subst hg'
        exact ⟨by simp [hdone], hgq⟩
      · exact h.e
      · exact h.v
    have h2 := inv_callback q _ g [] h1 rfl
    have hs : ({ s with ready := [] } : S) = s := by
      obtain ⟨_, _, _, _, _, _, _⟩ := s
      simp only at hr; subst hr; rfl
    simpa [hs] using h2
  · rename_i hp
    refine ⟨?_, hr⟩
    constructor
    · exact h.sub
    · exact h.nd
    · exact hqnd
    · intro f hf
      rcases h.a f hf with h1 | h1 | h1
      · rcases List.mem_cons.1 h1 with h2 | h2
        · subst h2; exact Or.inr (Or.inl ⟨hp, by simp⟩)
        · exact Or.inl h2
      · exact Or.inr (Or.inl ⟨h1.1, List.mem_append_left _ h1.2⟩)
      · exact Or.inr (Or.inr h1)
    · intro f hf hc
      refine h.b f hf ?_
      rcases hc with hc | hc
      · exact Or.inl (List.mem_cons_of_mem _ hc)
      · exact Or.inr hc
    · intro g' hg'
      have := h.d g' hg'
      exact ⟨this.1, fun hq => this.2 (List.mem_cons_of_mem _ hq)⟩
    · exact h.e
    · exact h.v

theorem inv_foldl_register (q : List Nat) (s : S) (h : Inv q s) (hr : s.ready = []) :
    Inv [] (q.foldl register s) := by
  induction q generalizing s with
  | nil => exact h
  | cons g q ih =>
    have := inv_register q g s h hr
    exact ih _ this.1 this.2

theorem inv_init (st : List FState) (ch : List Nat) : Inv [] (init st ch) := by
  simp only [init]
  apply inv_foldl_register
  · constructor
    · intro f hf; simpa using hf
    · exact nodup_eraseDups ch
    · exact nodup_eraseDups ch
    · intro f hf; exact Or.inl hf
    · intro f hf _; simpa using hf
    · intro g hg; cases hg
    · intro hu
      have : ch = [] := by
        cases ch with
        | nil => rfl
        | cons a as => simp [List.eraseDups_cons] at hu
      simp [this]
    · intro x hx
      cases ch with
      | nil =>
        simp at hx
        subst hx
        simp [Spec.multi, Spec.firstFailure, Spec.results]
      | cons a as => simp at hx
  · rfl

/-! ### `children` never changes -/

@[simp] theorem settle_children (f : Nat) (o : Outcome) (s : S) : (settle f o s).children = s.children := by
  simp only [settle]; split
  · split <;> rfl
  · rfl

theorem exec_children (t : Tok) (s : S) : (exec t s).children = s.children := by
  cases t <;> simp [exec]

theorem tickN_children (n : Nat) (s : S) : (tickN n s).children = s.children := by
  induction n generalizing s with
  | zero => rfl
  | succ n ih =>
    unfold tickN
    split
    · rfl
    · rw [ih, exec_children]

theorem step_children (s : S) (op : Op) : (step s op).children = s.children := by
  cases op with
  | set f o => exact settle_children f o s
  | soon f o => rfl
  | tick => exact tickN_children _ s

theorem run_children (ops : List Op) (s : S) : (run s ops).children = s.children := by
  induction ops generalizing s with
  | nil => rfl
  | cons op ops ih => rw [run, ih, step_children]

theorem register_children (s : S) (g : Nat) : (register s g).children = s.children := by
  simp only [register]; split <;> simp

theorem foldl_register_children (q : List Nat) (s : S) : (q.foldl register s).children = s.children := by
  induction q generalizing s with
  | nil => rfl
  | cons g q ih => rw [List.foldl_cons, ih, register_children]

theorem init_children (st : List FState) (ch : List Nat) : (init st ch).children = ch := by
  simp only [init, foldl_register_children]

/-- every reachable state satisfies the invariant and still has the children it was constructed with -/
theorem reach (st : List FState) (ch : List Nat) (ops : List Op) :
    Inv [] (run (init st ch) ops) ∧ (run (init st ch) ops).children = ch :=
  ⟨inv_run ops _ (inv_init st ch), by rw [run_children, init_children]⟩

/-- idle loop and every child done ⇒ nothing is unfinished ⇒ the output is set, to the specified value -/
theorem inv_outcome (s : S) (h : Inv [] s) (hd : ∀ f ∈ s.children, get s.st f ≠ none) (hr : s.ready = []) :
    s.out = some (Spec.multi (s.children.filterMap (get s.st))) := by
  have hu : s.unfinished = [] := by
    apply List.eq_nil_iff_forall_not_mem.2
    intro f hf
    rcases h.a f hf with h1 | h1 | h1
    · cases h1
    · exact hd f (h.sub f hf) h1.1
    · rw [hr] at h1; cases h1
  cases ho : s.out with
  | none => exact absurd ho (h.e hu)
  | some x => rw [(h.v x ho).2]

/-! ### the loop drains: after two iterations nothing is ready (callbacks schedule nothing; a `call_soon`ed
settle only schedules callbacks) -/

def isCb : Tok → Bool
  | .cb _ => true
  | .env _ _ => false

theorem tickN_allCb (n : Nat) (s : S) (a b : List Tok) (hs : s.ready = a ++ b) (ha : a.length = n)
    (hb : b.all isCb = true) : (tickN n s).ready.all isCb = true := by
  induction n generalizing s a b with
  | zero =>
    have : a = [] := List.eq_nil_of_length_eq_zero ha
    subst this
    simpa [tickN, hs] using hb
  | succ n ih =>
    cases a with
    | nil => simp at ha
    | cons t a =>
      unfold tickN
      rw [hs]
      simp only [List.cons_append]
      cases t with
      | cb g =>
        exact ih _ a b (by simp [exec]) (by simpa using ha) hb
      | env f o =>
        simp only [exec, settle]
        split
        · split
          · exact ih _ a b rfl (by simpa using ha) hb
          · refine ih _ a (b ++ (s.listening.filter (· == f)).map Tok.cb) (by simp) (by simpa using ha) ?_
            simp only [List.all_append, hb, Bool.true_and]
            simp [List.all_eq_true, isCb]
        · exact ih _ a b rfl (by simpa using ha) hb

theorem tickN_cbs_empty (n : Nat) (s : S) (hn : s.ready.length = n) (hb : s.ready.all isCb = true) :
    (tickN n s).ready = [] := by
  induction n generalizing s with
  | zero => exact List.eq_nil_of_length_eq_zero hn
  | succ n ih =>
    unfold tickN
    split
    · rename_i h; exact h
    · rename_i t r hr
      rw [hr] at hn hb
      cases t with
      | cb g =>
        apply ih
        · simpa [exec] using hn
        · simp only [exec, callback_ready]
          simp only [List.all_cons, Bool.and_eq_true] at hb
          exact hb.2
      | env f o => simp [isCb] at hb

theorem tick_tick_idle (s : S) : (tick (tick s)).ready = [] := by
  apply tickN_cbs_empty _ _ rfl
  exact tickN_allCb _ s s.ready [] (by simp) rfl (by simp)

/-- a done input stays as it is -/
theorem settle_get (f : Nat) (o : Outcome) (s : S) (g : Nat) (h : get s.st g ≠ none) :
    get (settle f o s).st g = get s.st g := by
  simp only [settle]
  split
  · split
    · rfl
    · rename_i hp
      by_cases hgf : g = f
      · subst hgf; exact absurd hp h
      · exact get_set_ne _ _ _ _ hgf
  · rfl

theorem exec_get (t : Tok) (s : S) (g : Nat) (h : get s.st g ≠ none) : get (exec t s).st g = get s.st g := by
  cases t with
  | cb f => simp [exec]
  | env f o => exact settle_get f o s g h

theorem tickN_get (n : Nat) (s : S) (g : Nat) (h : get s.st g ≠ none) : get (tickN n s).st g = get s.st g := by
  induction n generalizing s with
  | zero => rfl
  | succ n ih =>
    unfold tickN
    split
    · rfl
    · rename_i t r hr
      have h1 : get (exec t { s with ready := r }).st g = get s.st g := exec_get t _ g h
      rw [ih _ (by rw [h1]; exact h), h1]

theorem run_append (s : S) (a b : List Op) : run s (a ++ b) = run (run s a) b := by
  induction a generalizing s with
  | nil => rfl
  | cons op a ih => exact ih _

theorem run_outcome (st : List FState) (ch : List Nat) (ops : List Op)
    (hd : ∀ f ∈ ch, get (run (init st ch) ops).st f ≠ none) (hr : (run (init st ch) ops).ready = []) :
    (run (init st ch) ops).out = some (Spec.multi (ch.filterMap (get (run (init st ch) ops).st))) := by
  obtain ⟨hinv, hch⟩ := reach st ch ops
  have := inv_outcome _ hinv (by rw [hch]; exact hd) hr
  rw [hch] at this
  exact this

theorem never_pending_aux (st : List FState) (ch : List Nat) (ops : List Op)
    (hd : ∀ f ∈ ch, get (run (init st ch) ops).st f ≠ none) :
    (run (run (init st ch) ops) [.tick, .tick]).out
      = some (Spec.multi (ch.filterMap (get (run (init st ch) ops).st))) := by
  have hget : ∀ f ∈ ch, get (run (run (init st ch) ops) [.tick, .tick]).st f = get (run (init st ch) ops).st f := by
    intro f hf
    have h1 := tickN_get (run (init st ch) ops).ready.length (run (init st ch) ops) f (hd f hf)
    have h2 := tickN_get (tick (run (init st ch) ops)).ready.length (tick (run (init st ch) ops)) f
      (by rw [tick, h1]; exact hd f hf)
    show get (tick (tick (run (init st ch) ops))).st f = _
    rw [tick, h2, tick, h1]
  have hr : (run (run (init st ch) ops) [.tick, .tick]).ready = [] := tick_tick_idle _
  rw [← run_append] at hr hget ⊢
  rw [run_outcome st ch _ (fun f hf => by rw [hget f hf]; exact hd f hf) hr]
  rw [filterMap_congr' _ _ _ hget]

end Multi
end TornadoModel.C36
