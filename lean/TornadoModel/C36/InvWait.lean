/- C36: reachability invariant of the `WaitIterator` machine over all schedules, for argument lists without
   duplicates (core Lean only). -/
import TornadoModel.C36.InvMulti
namespace TornadoModel.C36

/-! ### `Spec.indexOf` -/
theorem indexOf_of_mem (args : List Nat) (f : Nat) (h : f ∈ args) : ∃ i, Spec.indexOf args f = some i := by
  induction args with
  | nil => cases h
  | cons x r ih =>
    simp only [Spec.indexOf]
    by_cases hx : x = f
    · exact ⟨0, by simp [hx]⟩
    · rcases List.mem_cons.1 h with h1 | h1
      · exact absurd h1.symm hx
      · obtain ⟨i, hi⟩ := ih h1
        exact ⟨i + 1, by simp [hx, hi]⟩

namespace Wait

/-! ### the `_unfinished` dict -/

theorem lookup_nil (f : Nat) : lookup [] f = none := rfl

theorem lookup_cons (p : Nat × Nat) (m : List (Nat × Nat)) (f : Nat) :
    lookup (p :: m) f = if p.1 = f then some p.2 else lookup m f := by
  simp only [lookup, List.find?_cons]
  by_cases h : p.1 = f
  · simp [h]
  · have hb : (p.1 == f) = false := by simpa using h
    simp [h, hb]

theorem lookup_append_single (m : List (Nat × Nat)) (g i f : Nat) :
    lookup (m ++ [(g, i)]) f = match lookup m f with
      | some j => some j
      | none => if g = f then some i else none := by
  induction m with
  | nil => simp [lookup_cons, lookup_nil]
  | cons p m ih =>
    simp only [List.cons_append, lookup_cons]
    by_cases h : p.1 = f
    · simp [h]
    · simp only [h, if_false]; exact ih

theorem lookup_filter_ne (m : List (Nat × Nat)) (f h : Nat) (hne : h ≠ f) :
    lookup (m.filter (·.1 != f)) h = lookup m h := by
  induction m with
  | nil => rfl
  | cons p m ih =>
    simp only [List.filter_cons]
    by_cases hp : p.1 = f
    · have : p.1 ≠ h := fun e => hne (e.symm.trans hp)
      simp [hp, lookup_cons, ih]
      intro e; exact absurd (hp ▸ e) (Ne.symm hne)
    · simp [hp, lookup_cons, ih]

theorem mem_of_mem_filter_keys (m : List (Nat × Nat)) (f : Nat) (p : Nat × Nat)
    (h : p ∈ m.filter (·.1 != f)) : p ∈ m ∧ p.1 ≠ f := by
  simpa using h

theorem lookup_mkUnfinished (fs : List Nat) (i : Nat) (m : List (Nat × Nat)) (f : Nat) (hnd : fs.Nodup)
    (hm : ∀ g ∈ fs, lookup m g = none) :
    lookup (mkUnfinished fs i m) f = match lookup m f with
      | some j => some j
      | none => (Spec.indexOf fs f).map (· + i) := by
  induction fs generalizing i m with
  | nil => simp only [mkUnfinished, Spec.indexOf]; cases lookup m f <;> rfl
  | cons g fs ih =>
    obtain ⟨hg, hnd'⟩ := List.nodup_cons.1 hnd
    have hmg : lookup m g = none := hm g (by simp)
    simp only [mkUnfinished, hmg, Option.isSome_none, Bool.false_eq_true, if_false]
    have hm' : ∀ h ∈ fs, lookup (m ++ [(g, i)]) h = none := by
      intro h hh
      rw [lookup_append_single, hm h (List.mem_cons_of_mem _ hh)]
      have : g ≠ h := fun e => hg (e ▸ hh)
      simp [this]
    rw [ih (i + 1) (m ++ [(g, i)]) hnd' hm', lookup_append_single]
    cases hl : lookup m f with
    | some j => rfl
    | none =>
      simp only [Spec.indexOf]
      by_cases hgf : g = f
      · simp [hgf]
      · simp only [hgf, if_false, Option.map_map]
        cases Spec.indexOf fs f with
        | none => rfl
        | some x => simp; omega

theorem lookup_isSome_of_mem (m : List (Nat × Nat)) (p : Nat × Nat) (h : p ∈ m) : lookup m p.1 ≠ none := by
  induction m with
  | nil => cases h
  | cons x m ih =>
    rw [lookup_cons]
    by_cases hx : x.1 = p.1
    · simp [hx]
    · simp only [hx, if_false]
      rcases List.mem_cons.1 h with h1 | h1
      · subst h1; exact absurd rfl hx
      · exact ih h1

/-! ### callbacks waiting in the ready queue -/

def cbs : List Tok → List Nat
  | [] => []
  | .cb g :: r => g :: cbs r
  | .env _ _ :: r => cbs r

theorem cbs_append (a b : List Tok) : cbs (a ++ b) = cbs a ++ cbs b := by
  induction a with
  | nil => rfl
  | cons t a ih => cases t <;> simp [cbs, ih]

theorem cbs_map_cb (l : List Nat) : cbs (l.map Tok.cb) = l := by
  induction l with
  | nil => rfl
  | cons x l ih => simp [cbs, ih]

/-! ### what the steps leave alone -/

theorem rr_st (f : Nat) (s : S) : (returnResult f s).1.st = s.st := by
  simp only [returnResult]; split
  · rfl
  · split <;> rfl
theorem rr_args (f : Nat) (s : S) : (returnResult f s).1.args = s.args := by
  simp only [returnResult]; split
  · rfl
  · split <;> rfl
theorem rr_listening (f : Nat) (s : S) : (returnResult f s).1.listening = s.listening := by
  simp only [returnResult]; split
  · rfl
  · split <;> rfl
theorem rr_compl (f : Nat) (s : S) : (returnResult f s).1.compl = s.compl := by
  simp only [returnResult]; split
  · rfl
  · split <;> rfl
theorem rr_ready (f : Nat) (s : S) : (returnResult f s).1.ready = s.ready := by
  simp only [returnResult]; split
  · rfl
  · split <;> rfl

theorem dc_st (g : Nat) (s : S) : (doneCallback g s).st = s.st := by
  simp only [doneCallback]; split
  · split <;> simp [rr_st]
  · rfl
theorem dc_args (g : Nat) (s : S) : (doneCallback g s).args = s.args := by
  simp only [doneCallback]; split
  · split <;> simp [rr_args]
  · rfl
theorem dc_listening (g : Nat) (s : S) : (doneCallback g s).listening = s.listening := by
  simp only [doneCallback]; split
  · split <;> simp [rr_listening]
  · rfl
theorem dc_ready (g : Nat) (s : S) : (doneCallback g s).ready = s.ready := by
  simp only [doneCallback]; split
  · split <;> simp [rr_ready]
  · rfl
theorem dc_compl (g : Nat) (s : S) : (doneCallback g s).compl = s.compl ++ [g] := by
  simp only [doneCallback]; split
  · split <;> simp [rr_compl]
  · rfl

/-! ### the scheduling part of the invariant (`q` = arguments the constructor has still to register) -/

structure InvS (q : List Nat) (s : S) : Prop where
  qnd : q.Nodup
  qsub : ∀ f ∈ q, f ∈ s.args ∧ f ∉ s.compl ∧ f ∉ s.listening
  lnd : s.listening.Nodup
  lsub : ∀ f ∈ s.listening, f ∈ s.args
  csub : ∀ f ∈ s.compl, f ∈ s.args ∧ get s.st f ≠ none ∧ f ∉ cbs s.ready
  cnd : s.compl.Nodup
  rd : ∀ g ∈ cbs s.ready, get s.st g ≠ none ∧ g ∈ s.args ∧ g ∉ q
  rc : (cbs s.ready).Nodup
  w7 : ∀ f ∈ s.args, f ∈ q ∨ (get s.st f = none ∧ f ∈ s.listening) ∨ f ∈ cbs s.ready ∨ f ∈ s.compl

theorem invS_of_eq (q : List Nat) (s s' : S) (h : InvS q s) (h1 : s'.st = s.st) (h2 : s'.args = s.args)
    (h3 : s'.listening = s.listening) (h4 : s'.compl = s.compl) (h5 : cbs s'.ready = cbs s.ready) : InvS q s' := by
  constructor
  · exact h.qnd
  · rw [h2, h3, h4]; exact h.qsub
  · rw [h3]; exact h.lnd
  · rw [h2, h3]; exact h.lsub
  · rw [h1, h2, h4, h5]; exact h.csub
  · rw [h4]; exact h.cnd
  · rw [h1, h2, h5]; exact h.rd
  · rw [h5]; exact h.rc
  · rw [h1, h2, h3, h4, h5]; exact h.w7

theorem invS_doneCallback (q : List Nat) (s : S) (g : Nat) (r : List Tok) (h : InvS q s)
    (hr : cbs s.ready = g :: cbs r) : InvS q (doneCallback g { s with ready := r }) := by
  have hg := h.rd g (by rw [hr]; simp)
  have hgc : g ∉ s.compl := fun hc => (h.csub g hc).2.2 (by rw [hr]; simp)
  have hnd := h.rc
  rw [hr] at hnd
  obtain ⟨hgr, hrnd⟩ := List.nodup_cons.1 hnd
  have hsub : ∀ f ∈ cbs r, f ∈ cbs s.ready := by
    rw [hr]; intro f hf; exact List.mem_cons_of_mem _ hf
  constructor
  · exact h.qnd
  · intro f hf
    rw [dc_args, dc_compl, dc_listening]
    obtain ⟨h1, h2, h3⟩ := h.qsub f hf
    refine ⟨h1, ?_, h3⟩
    simp only [List.mem_append, List.mem_singleton, not_or]
    exact ⟨h2, fun e => hg.2.2 (e ▸ hf)⟩
  · rw [dc_listening]; exact h.lnd
  · rw [dc_listening, dc_args]; exact h.lsub
  · intro f hf
    rw [dc_compl] at hf
    rw [dc_args, dc_st, dc_ready]
    rcases List.mem_append.1 hf with h1 | h1
    · obtain ⟨a1, a2, a3⟩ := h.csub f h1
      exact ⟨a1, a2, fun hh => a3 (hsub f hh)⟩
    · simp only [List.mem_singleton] at h1
      subst h1
      exact ⟨hg.2.1, hg.1, hgr⟩
  · rw [dc_compl]
    refine List.nodup_append.2 ⟨h.cnd, by simp, ?_⟩
    intro a ha b hb
    simp only [List.mem_singleton] at hb
    subst hb
    exact fun e => hgc (e ▸ ha)
  · intro g' hg'
    rw [dc_ready] at hg'
    rw [dc_st, dc_args]
    exact h.rd g' (hsub g' hg')
  · rw [dc_ready]; exact hrnd
  · intro f hf
    rw [dc_args] at hf
    rw [dc_st, dc_listening, dc_ready, dc_compl]
    rcases h.w7 f hf with h1 | h1 | h1 | h1
    · exact Or.inl h1
    · exact Or.inr (Or.inl h1)
    · rw [hr] at h1
      rcases List.mem_cons.1 h1 with h2 | h2
      · exact Or.inr (Or.inr (Or.inr (by simp [h2])))
      · exact Or.inr (Or.inr (Or.inl h2))
    · exact Or.inr (Or.inr (Or.inr (List.mem_append_left _ h1)))

theorem invS_settle (s : S) (f : Nat) (o : Outcome) (h : InvS [] s) : InvS [] (settle f o s) := by
  simp only [settle]
  split
  · rename_i hlt
    split
    · exact h
    · rename_i hp
      have hself : get (s.st.set f (some o)) f = some o := get_set_self _ _ _ hlt
      have hmono : ∀ g, get s.st g ≠ none → get (s.st.set f (some o)) g ≠ none := by
        intro g hg
        by_cases hgf : g = f
        · subst hgf; exact absurd hp hg
        · rw [get_set_ne _ _ _ _ hgf]; exact hg
      have hfr : f ∉ cbs s.ready := fun hh => (h.rd f hh).1 hp
      have hL : ∀ x ∈ s.listening.filter (· == f), x = f ∧ x ∈ s.listening := by
        intro x hx
        simp only [List.mem_filter, beq_iff_eq] at hx
        exact ⟨hx.2, hx.1⟩
      constructor
      · exact h.qnd
      · exact h.qsub
      · exact h.lnd
      · exact h.lsub
      · intro g hg
        obtain ⟨a1, a2, a3⟩ := h.csub g hg
        refine ⟨a1, hmono g a2, ?_⟩
        simp only [cbs_append, cbs_map_cb, List.mem_append, not_or]
        refine ⟨a3, fun hh => ?_⟩
        have := (hL g hh).1
        subst this
        exact a2 hp
      · exact h.cnd
      · intro g hg
        simp only [cbs_append, cbs_map_cb, List.mem_append] at hg
        rcases hg with h1 | h1
        · obtain ⟨a1, a2, a3⟩ := h.rd g h1
          exact ⟨hmono g a1, a2, a3⟩
        · obtain ⟨e, hl⟩ := hL g h1
          subst e
          exact ⟨by simp only; rw [hself]; simp, h.lsub _ hl, by simp⟩
      · simp only [cbs_append, cbs_map_cb]
        refine List.nodup_append.2 ⟨h.rc, h.lnd.sublist List.filter_sublist, ?_⟩
        intro a ha b hb
        have := (hL b hb).1
        subst this
        exact fun e => hfr (e ▸ ha)
      · intro g hg
        rcases h.w7 g hg with h1 | h1 | h1 | h1
        · exact Or.inl h1
        · by_cases hgf : g = f
          · subst hgf
            refine Or.inr (Or.inr (Or.inl ?_))
            simp only [cbs_append, cbs_map_cb, List.mem_append, List.mem_filter, beq_iff_eq]
            exact Or.inr (by simpa using h1.2)
          · exact Or.inr (Or.inl ⟨by simp only; rw [get_set_ne _ _ _ _ hgf]; exact h1.1, h1.2⟩)
        · refine Or.inr (Or.inr (Or.inl ?_))
          simp only [cbs_append, List.mem_append]
          exact Or.inl h1
        · exact Or.inr (Or.inr (Or.inr h1))
  · exact h

theorem invS_register (q : List Nat) (g : Nat) (s : S) (h : InvS (g :: q) s) (hr : s.ready = []) :
    InvS q (register s g) ∧ (register s g).ready = [] := by
  obtain ⟨hgq, hqnd⟩ := List.nodup_cons.1 h.qnd
  have hq := h.qsub g (by simp)
  have hsubq : ∀ f ∈ q, f ∈ g :: q := fun f hf => List.mem_cons_of_mem _ hf
  simp only [register]
  split
  · rename_i o hdone
    refine ⟨?_, by rw [dc_ready]; exact hr⟩
    have h1 : InvS q { s with ready := [Tok.cb g] } := by
      constructor
      · exact hqnd
      · intro f hf; exact h.qsub f (hsubq f hf)
      · exact h.lnd
      · exact h.lsub
      · intro f hf
        obtain ⟨a1, a2, _⟩ := h.csub f hf
        refine ⟨a1, a2, ?_⟩
        simp only [cbs, List.mem_singleton]
        rintro rfl
        exact hq.2.1 hf
      · exact h.cnd
      · intro g' hg'
        simp only [cbs, List.mem_singleton] at hg'
        subst hg'
        exact ⟨by simp [hdone], hq.1, hgq⟩
      · simp [cbs]
      · intro f hf
        rcases h.w7 f hf with h1 | h1 | h1 | h1
        · rcases List.mem_cons.1 h1 with h2 | h2
          · exact Or.inr (Or.inr (Or.inl (by simp [cbs, h2])))
          · exact Or.inl h2
        · exact Or.inr (Or.inl h1)
        · rw [hr] at h1; cases h1
        · exact Or.inr (Or.inr (Or.inr h1))
    have h2 := invS_doneCallback q _ g [] h1 (by simp [cbs])
    have hs : ({ s with ready := [] } : S) = s := by
      obtain ⟨_, _, _, _, _, _, _, _, _, _, _, _⟩ := s
      simp only at hr; subst hr; rfl
    simpa [hs] using h2
  · rename_i hp
    refine ⟨?_, hr⟩
    constructor
    · exact hqnd
    · intro f hf
      obtain ⟨a1, a2, a3⟩ := h.qsub f (hsubq f hf)
      refine ⟨a1, a2, ?_⟩
      simp only [List.mem_append, List.mem_singleton, not_or]
      exact ⟨a3, fun e => hgq (e ▸ hf)⟩
    · refine List.nodup_append.2 ⟨h.lnd, by simp, ?_⟩
      intro a ha b hb
      simp only [List.mem_singleton] at hb
      subst hb
      exact fun e => hq.2.2 (e ▸ ha)
    · intro f hf
      rcases List.mem_append.1 hf with h1 | h1
      · exact h.lsub f h1
      · simp only [List.mem_singleton] at h1; subst h1; exact hq.1
    · exact h.csub
    · exact h.cnd
    · intro g' hg'
      obtain ⟨a1, a2, a3⟩ := h.rd g' hg'
      exact ⟨a1, a2, fun hh => a3 (hsubq _ hh)⟩
    · exact h.rc
    · intro f hf
      rcases h.w7 f hf with h1 | h1 | h1 | h1
      · rcases List.mem_cons.1 h1 with h2 | h2
        · subst h2; exact Or.inr (Or.inl ⟨hp, by simp⟩)
        · exact Or.inl h2
      · exact Or.inr (Or.inl ⟨h1.1, List.mem_append_left _ h1.2⟩)
      · exact Or.inr (Or.inr (Or.inl h1))
      · exact Or.inr (Or.inr (Or.inr h1))

end Wait
end TornadoModel.C36
