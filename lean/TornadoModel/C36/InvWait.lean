/- C36: reachability invariant of the `WaitIterator` machine over all schedules, for argument lists without
   duplicates (core Lean only). -/
import TornadoModel.C36.InvMulti
namespace TornadoModel.C36

/-! ### `Spec.indexOf` -/
theorem indexOf_of_mem (args : List Nat) (f : Nat) (h : f ∈ args) : ∃ i, Spec.indexOf args f = some i := by
  induction args with
  | nil => cases h
  | cons x r ih =>
    simp only [Spec.indexOf]
    by_cases hx : x = f
    · exact ⟨0, by simp [hx]⟩
    · rcases List.mem_cons.1 h with h1 | h1
      · exact absurd h1.symm hx
      · obtain ⟨i, hi⟩ := ih h1
        exact ⟨i + 1, by simp [hx, hi]⟩

theorem mem_of_indexOf (args : List Nat) (f : Nat) (h : Spec.indexOf args f ≠ none) : f ∈ args := by
  induction args with
  | nil => exact absurd rfl h
  | cons x r ih =>
    simp only [Spec.indexOf] at h
    by_cases hx : x = f
    · simp [hx]
    · simp only [hx, if_false] at h
      refine List.mem_cons_of_mem _ (ih ?_)
      intro hn; rw [hn] at h; exact h rfl

namespace Wait

/-! ### the `_unfinished` dict -/

theorem lookup_nil (f : Nat) : lookup [] f = none := rfl

theorem lookup_cons (p : Nat × Nat) (m : List (Nat × Nat)) (f : Nat) :
    lookup (p :: m) f = if p.1 = f then some p.2 else lookup m f := by
  simp only [lookup, List.find?_cons]
  by_cases h : p.1 = f
  · simp [h]
  · have hb : (p.1 == f) = false := by simpa using h
    simp [h, hb]

theorem lookup_append_single (m : List (Nat × Nat)) (g i f : Nat) :
    lookup (m ++ [(g, i)]) f = match lookup m f with
      | some j => some j
      | none => if g = f then some i else none := by
  induction m with
  | nil => simp [lookup_cons, lookup_nil]
  | cons p m ih =>
    simp only [List.cons_append, lookup_cons]
    by_cases h : p.1 = f
    · simp [h]
    · simp only [h, if_false]; exact ih

theorem lookup_filter_ne (m : List (Nat × Nat)) (f h : Nat) (hne : h ≠ f) :
    lookup (m.filter (·.1 != f)) h = lookup m h := by
  induction m with
  | nil => rfl
  | cons p m ih =>
    simp only [List.filter_cons]
    by_cases hp : p.1 = f
    · have : p.1 ≠ h := fun e => hne (e.symm.trans hp)
      simp [hp, lookup_cons, ih]
      intro e; exact absurd (hp ▸ e) (Ne.symm hne)
    · simp [hp, lookup_cons, ih]

theorem mem_of_mem_filter_keys (m : List (Nat × Nat)) (f : Nat) (p : Nat × Nat)
    (h : p ∈ m.filter (·.1 != f)) : p ∈ m ∧ p.1 ≠ f := by
  simpa using h

theorem lookup_mkUnfinished (fs : List Nat) (i : Nat) (m : List (Nat × Nat)) (f : Nat) (hnd : fs.Nodup)
    (hm : ∀ g ∈ fs, lookup m g = none) :
    lookup (mkUnfinished fs i m) f = match lookup m f with
      | some j => some j
      | none => (Spec.indexOf fs f).map (· + i) := by
  induction fs generalizing i m with
  | nil => simp only [mkUnfinished, Spec.indexOf]; cases lookup m f <;> rfl
  | cons g fs ih =>
    obtain ⟨hg, hnd'⟩ := List.nodup_cons.1 hnd
    have hmg : lookup m g = none := hm g (by simp)
    simp only [mkUnfinished, hmg, Option.isSome_none, Bool.false_eq_true, if_false]
    have hm' : ∀ h ∈ fs, lookup (m ++ [(g, i)]) h = none := by
      intro h hh
      rw [lookup_append_single, hm h (List.mem_cons_of_mem _ hh)]
      have : g ≠ h := fun e => hg (e ▸ hh)
      simp [this]
    rw [ih (i + 1) (m ++ [(g, i)]) hnd' hm', lookup_append_single]
    cases hl : lookup m f with
    | some j => rfl
    | none =>
      simp only [Spec.indexOf]
      by_cases hgf : g = f
      · simp [hgf]
      · simp only [hgf, if_false, Option.map_map]
        cases Spec.indexOf fs f with
        | none => rfl
        | some x => simp; omega

theorem lookup_isSome_of_mem (m : List (Nat × Nat)) (p : Nat × Nat) (h : p ∈ m) : lookup m p.1 ≠ none := by
  induction m with
  | nil => cases h
  | cons x m ih =>
    rw [lookup_cons]
    by_cases hx : x.1 = p.1
    · simp [hx]
    · simp only [hx, if_false]
      rcases List.mem_cons.1 h with h1 | h1
      · subst h1; exact absurd rfl hx
      · exact ih h1

/-! ### callbacks waiting in the ready queue -/

def cbs : List Tok → List Nat
  | [] => []
  | .cb g :: r => g :: cbs r
  | .env _ _ :: r => cbs r

theorem cbs_append (a b : List Tok) : cbs (a ++ b) = cbs a ++ cbs b := by
  induction a with
  | nil => rfl
  | cons t a ih => cases t <;> simp [cbs, ih]

theorem cbs_map_cb (l : List Nat) : cbs (l.map Tok.cb) = l := by
  induction l with
  | nil => rfl
  | cons x l ih => simp [cbs, ih]

/-! ### what the steps leave alone -/

theorem rr_st (f : Nat) (s : S) : (returnResult f s).1.st = s.st := by
  simp only [returnResult]; split
  · rfl
  · split <;> rfl
theorem rr_args (f : Nat) (s : S) : (returnResult f s).1.args = s.args := by
  simp only [returnResult]; split
  · rfl
  · split <;> rfl
theorem rr_listening (f : Nat) (s : S) : (returnResult f s).1.listening = s.listening := by
  simp only [returnResult]; split
  · rfl
  · split <;> rfl
theorem rr_compl (f : Nat) (s : S) : (returnResult f s).1.compl = s.compl := by
  simp only [returnResult]; split
  · rfl
  · split <;> rfl
theorem rr_ready (f : Nat) (s : S) : (returnResult f s).1.ready = s.ready := by
  simp only [returnResult]; split
  · rfl
  · split <;> rfl

theorem dc_st (g : Nat) (s : S) : (doneCallback g s).st = s.st := by
  simp only [doneCallback]; split
  · split <;> simp [rr_st]
  · rfl
theorem dc_args (g : Nat) (s : S) : (doneCallback g s).args = s.args := by
  simp only [doneCallback]; split
  · split <;> simp [rr_args]
  · rfl
theorem dc_listening (g : Nat) (s : S) : (doneCallback g s).listening = s.listening := by
  simp only [doneCallback]; split
  · split <;> simp [rr_listening]
  · rfl
theorem dc_ready (g : Nat) (s : S) : (doneCallback g s).ready = s.ready := by
  simp only [doneCallback]; split
  · split <;> simp [rr_ready]
  · rfl
theorem dc_compl (g : Nat) (s : S) : (doneCallback g s).compl = s.compl ++ [g] := by
  simp only [doneCallback]; split
  · split <;> simp [rr_compl]
  · rfl

/-! ### the scheduling part of the invariant (`q` = arguments the constructor has still to register) -/

structure InvS (q : List Nat) (s : S) : Prop where
  qnd : q.Nodup
  qsub : ∀ f ∈ q, f ∈ s.args ∧ f ∉ s.compl ∧ f ∉ s.listening
  lnd : s.listening.Nodup
  lsub : ∀ f ∈ s.listening, f ∈ s.args
  csub : ∀ f ∈ s.compl, f ∈ s.args ∧ get s.st f ≠ none ∧ f ∉ cbs s.ready
  cnd : s.compl.Nodup
  rd : ∀ g ∈ cbs s.ready, get s.st g ≠ none ∧ g ∈ s.args ∧ g ∉ q
  rc : (cbs s.ready).Nodup
  w7 : ∀ f ∈ s.args, f ∈ q ∨ (get s.st f = none ∧ f ∈ s.listening) ∨ f ∈ cbs s.ready ∨ f ∈ s.compl

theorem invS_of_eq (q : List Nat) (s s' : S) (h : InvS q s) (h1 : s'.st = s.st) (h2 : s'.args = s.args)
    (h3 : s'.listening = s.listening) (h4 : s'.compl = s.compl) (h5 : cbs s'.ready = cbs s.ready) : InvS q s' := by
  constructor
  · exact h.qnd
  · rw [h2, h3, h4]; exact h.qsub
  · rw [h3]; exact h.lnd
  · rw [h2, h3]; exact h.lsub
  · rw [h1, h2, h4, h5]; exact h.csub
  · rw [h4]; exact h.cnd
  · rw [h1, h2, h5]; exact h.rd
  · rw [h5]; exact h.rc
  · rw [h1, h2, h3, h4, h5]; exact h.w7

theorem invS_doneCallback (q : List Nat) (s : S) (g : Nat) (r : List Tok) (h : InvS q s)
    (hr : cbs s.ready = g :: cbs r) : InvS q (doneCallback g { s with ready := r }) := by
  have hg := h.rd g (by rw [hr]; simp)
  have hgc : g ∉ s.compl := fun hc => (h.csub g hc).2.2 (by rw [hr]; simp)
  have hnd := h.rc
  rw [hr] at hnd
  obtain ⟨hgr, hrnd⟩ := List.nodup_cons.1 hnd
  have hsub : ∀ f ∈ cbs r, f ∈ cbs s.ready := by
    rw [hr]; intro f hf; exact List.mem_cons_of_mem _ hf
  constructor
  · exact h.qnd
  · intro f hf
    rw [dc_args, dc_compl, dc_listening]
    obtain ⟨h1, h2, h3⟩ := h.qsub f hf
    refine ⟨h1, ?_, h3⟩
    simp only [List.mem_append, List.mem_singleton, not_or]
    exact ⟨h2, fun e => hg.2.2 (e ▸ hf)⟩
  · rw [dc_listening]; exact h.lnd
  · rw [dc_listening, dc_args]; exact h.lsub
  · intro f hf
    rw [dc_compl] at hf
    rw [dc_args, dc_st, dc_ready]
    rcases List.mem_append.1 hf with h1 | h1
    · obtain ⟨a1, a2, a3⟩ := h.csub f h1
      exact ⟨a1, a2, fun hh => a3 (hsub f hh)⟩
    · simp only [List.mem_singleton] at h1
      subst h1
      exact ⟨hg.2.1, hg.1, hgr⟩
  · rw [dc_compl]
    refine List.nodup_append.2 ⟨h.cnd, by simp, ?_⟩
    intro a ha b hb
    simp only [List.mem_singleton] at hb
    subst hb
    exact fun e => hgc (e ▸ ha)
  · intro g' hg'
    rw [dc_ready] at hg'
    rw [dc_st, dc_args]
    exact h.rd g' (hsub g' hg')
  · rw [dc_ready]; exact hrnd
  · intro f hf
    rw [dc_args] at hf
    rw [dc_st, dc_listening, dc_ready, dc_compl]
    rcases h.w7 f hf with h1 | h1 | h1 | h1
    · exact Or.inl h1
    · exact Or.inr (Or.inl h1)
    · rw [hr] at h1
      rcases List.mem_cons.1 h1 with h2 | h2
      · exact Or.inr (Or.inr (Or.inr (by simp [h2])))
      · exact Or.inr (Or.inr (Or.inl h2))
    · exact Or.inr (Or.inr (Or.inr (List.mem_append_left _ h1)))

theorem invS_settle (s : S) (f : Nat) (o : Outcome) (h : InvS [] s) : InvS [] (settle f o s) := by
  simp only [settle]
  split
  · rename_i hlt
    split
    · exact h
    · rename_i hp
      have hself : get (s.st.set f (some o)) f = some o := get_set_self _ _ _ hlt
      have hmono : ∀ g, get s.st g ≠ none → get (s.st.set f (some o)) g ≠ none := by
        intro g hg
        by_cases hgf : g = f
        · subst hgf; exact absurd hp hg
        · rw [get_set_ne _ _ _ _ hgf]; exact hg
      have hfr : f ∉ cbs s.ready := fun hh => (h.rd f hh).1 hp
      have hL : ∀ x ∈ s.listening.filter (· == f), x = f ∧ x ∈ s.listening := by
        intro x hx
        simp only [List.mem_filter, beq_iff_eq] at hx
        exact ⟨hx.2, hx.1⟩
      constructor
      · exact h.qnd
      · exact h.qsub
      · exact h.lnd
      · exact h.lsub
      · intro g hg
        obtain ⟨a1, a2, a3⟩ := h.csub g hg
        refine ⟨a1, hmono g a2, ?_⟩
        simp only [cbs_append, cbs_map_cb, List.mem_append, not_or]
        refine ⟨a3, fun hh => ?_⟩
        have := (hL g hh).1
        subst this
        exact a2 hp
      · exact h.cnd
      · intro g hg
        simp only [cbs_append, cbs_map_cb, List.mem_append] at hg
        rcases hg with h1 | h1
        · obtain ⟨a1, a2, a3⟩ := h.rd g h1
          exact ⟨hmono g a1, a2, a3⟩
        · obtain ⟨e, hl⟩ := hL g h1
          subst e
          exact ⟨by simp only; rw [hself]; simp, h.lsub _ hl, by simp⟩
      · simp only [cbs_append, cbs_map_cb]
        refine List.nodup_append.2 ⟨h.rc, h.lnd.sublist List.filter_sublist, ?_⟩
        intro a ha b hb
        have := (hL b hb).1
        subst this
        exact fun e => hfr (e ▸ ha)
      · intro g hg
        rcases h.w7 g hg with h1 | h1 | h1 | h1
        · exact Or.inl h1
        · by_cases hgf : g = f
          · subst hgf
            refine Or.inr (Or.inr (Or.inl ?_))
            simp only [cbs_append, cbs_map_cb, List.mem_append, List.mem_filter, beq_iff_eq]
            exact Or.inr (by simpa using h1.2)
          · exact Or.inr (Or.inl ⟨by simp only; rw [get_set_ne _ _ _ _ hgf]; exact h1.1, h1.2⟩)
        · refine Or.inr (Or.inr (Or.inl ?_))
          simp only [cbs_append, List.mem_append]
          exact Or.inl h1
        · exact Or.inr (Or.inr (Or.inr h1))
  · exact h

theorem invS_register (q : List Nat) (g : Nat) (s : S) (h : InvS (g :: q) s) (hr : s.ready = []) :
    InvS q (register s g) ∧ (register s g).ready = [] := by
  obtain ⟨hgq, hqnd⟩ := List.nodup_cons.1 h.qnd
  have hq := h.qsub g (by simp)
  have hsubq : ∀ f ∈ q, f ∈ g :: q := fun f hf => List.mem_cons_of_mem _ hf
  simp only [register]
  split
  · rename_i o hdone
    refine ⟨?_, by rw [dc_ready]; exact hr⟩
    have h1 : InvS q { s with ready := [Tok.cb g] } := by
      constructor
      · exact hqnd
      · intro f hf; exact h.qsub f (hsubq f hf)
      · exact h.lnd
      · exact h.lsub
      · intro f hf
        obtain ⟨a1, a2, _⟩ := h.csub f hf
        refine ⟨a1, a2, ?_⟩
        simp only [cbs, List.mem_singleton]
        rintro rfl
        exact hq.2.1 hf
      · exact h.cnd
      · intro g' hg'
        simp only [cbs, List.mem_singleton] at hg'
        subst hg'
        exact ⟨by simp [hdone], hq.1, hgq⟩
      · simp [cbs]
      · intro f hf
        rcases h.w7 f hf with h1 | h1 | h1 | h1
        · rcases List.mem_cons.1 h1 with h2 | h2
          · exact Or.inr (Or.inr (Or.inl (by simp [cbs, h2])))
          · exact Or.inl h2
        · exact Or.inr (Or.inl h1)
        · rw [hr] at h1; cases h1
        · exact Or.inr (Or.inr (Or.inr h1))
    have h2 := invS_doneCallback q _ g [] h1 (by simp [cbs])
    have hs : ({ s with ready := [] } : S) = s := by
      obtain ⟨_, _, _, _, _, _, _, _, _, _, _, _⟩ := s
      simp only at hr; subst hr; rfl
    simpa [hs] using h2
  · rename_i hp
    refine ⟨?_, hr⟩
    constructor
    · exact hqnd
    · intro f hf
      obtain ⟨a1, a2, a3⟩ := h.qsub f (hsubq f hf)
      refine ⟨a1, a2, ?_⟩
      simp only [List.mem_append, List.mem_singleton, not_or]
      exact ⟨a3, fun e => hgq (e ▸ hf)⟩
    · refine List.nodup_append.2 ⟨h.lnd, by simp, ?_⟩
      intro a ha b hb
      simp only [List.mem_singleton] at hb
      subst hb
      exact fun e => hq.2.2 (e ▸ ha)
    · intro f hf
      rcases List.mem_append.1 hf with h1 | h1
      · exact h.lsub f h1
      · simp only [List.mem_singleton] at h1; subst h1; exact hq.1
    · exact h.csub
    · exact h.cnd
    · intro g' hg'
      obtain ⟨a1, a2, a3⟩ := h.rd g' hg'
      exact ⟨a1, a2, fun hh => a3 (hsubq _ hh)⟩
    · exact h.rc
    · intro f hf
      rcases h.w7 f hf with h1 | h1 | h1 | h1
      · rcases List.mem_cons.1 h1 with h2 | h2
        · subst h2; exact Or.inr (Or.inl ⟨hp, by simp⟩)
        · exact Or.inl h2
      · exact Or.inr (Or.inl ⟨h1.1, List.mem_append_left _ h1.2⟩)
      · exact Or.inr (Or.inr (Or.inl h1))
      · exact Or.inr (Or.inr (Or.inr h1))

/-! ### the iterator part of the invariant -/

structure InvI (s : S) : Prop where
  w1 : s.compl = s.yielded.map (·.1) ++ s.finished
  w3 : ∀ f, f ∉ s.yielded.map (·.1) → lookup s.unfinished f = Spec.indexOf s.args f
  w3' : ∀ p ∈ s.yielded, Spec.indexOf s.args p.1 = some p.2
  w5 : runningPending s = true → s.finished = []
  w6 : s.cbErrs = 0 ∧ NextOut.keyError ∉ s.outs
  w8 : runningPending s = true → s.unfinished ≠ []
  w9 : ∀ j, s.outs[j]? = some (.fut none) → s.running = some j ∧ j + 1 = s.outs.length
  w11 : ∀ p ∈ s.unfinished, p.1 ∉ s.yielded.map (·.1)

theorem rp_iff (s : S) : runningPending s = true ↔ ∃ k, s.running = some k ∧ s.outs[k]? = some (.fut none) := by
  simp only [runningPending]
  constructor
  · intro h
    split at h
    · rename_i k hk
      refine ⟨k, hk, ?_⟩
      split at h
      · rename_i ho; exact ho
      · cases h
    · cases h
  · rintro ⟨k, hk, ho⟩
    simp [hk, ho]

/-- the state after a successful `_return_result(f)` while `next()`-future number `k` is running -/
def ret (f k i : Nat) (s : S) : S :=
  { s with outs := s.outs.set k (.fut (get s.st f)), running := none,
           unfinished := s.unfinished.filter (·.1 != f), yielded := s.yielded ++ [(f, i)], curIdx := some i }

theorem rr_spec (f k i : Nat) (s : S) (hk : s.running = some k) (ho : s.outs[k]? = some (.fut none))
    (hl : lookup s.unfinished f = some i) : returnResult f s = (ret f k i s, false) := by
  simp only [returnResult, hk, hl, setOut, ho, ret]

theorem invI_ret (s : S) (f k i : Nat)
    (m1 : s.compl = s.yielded.map (·.1) ++ f :: s.finished)
    (h3 : ∀ g, g ∉ s.yielded.map (·.1) → lookup s.unfinished g = Spec.indexOf s.args g)
    (h3' : ∀ p ∈ s.yielded, Spec.indexOf s.args p.1 = some p.2)
    (h11 : ∀ p ∈ s.unfinished, p.1 ∉ s.yielded.map (·.1))
    (hl : lookup s.unfinished f = some i)
    (hfy : f ∉ s.yielded.map (·.1))
    (h9 : ∀ j, s.outs[j]? = some (.fut none) → j = k)
    (hd : get s.st f ≠ none)
    (h6 : s.cbErrs = 0 ∧ NextOut.keyError ∉ s.outs) : InvI (ret f k i s) := by
  constructor
  · simp [ret, m1]
  · intro g hg
    simp only [ret, List.map_append, List.map_cons, List.map_nil, List.mem_append, List.mem_singleton, not_or] at hg ⊢
    rw [lookup_filter_ne _ _ _ hg.2]
    exact h3 g hg.1
  · intro p hp
    simp only [ret, List.mem_append, List.mem_singleton] at hp ⊢
    rcases hp with hp | hp
    · exact h3' p hp
    · subst hp
      simp only
      rw [← h3 f hfy]; exact hl
  · intro h
    simp [runningPending, ret] at h
  · refine ⟨h6.1, ?_⟩
    intro hmem
    simp only [ret] at hmem
    rcases List.mem_or_eq_of_mem_set hmem with h1 | h1
    · exact h6.2 h1
    · cases h1
  · intro h
    simp [runningPending, ret] at h
  · intro j hj
    exfalso
    simp only [ret, List.getElem?_set] at hj
    split at hj
    · split at hj
      · injection hj with hj; injection hj with hj; exact hd hj
      · cases hj
    · rename_i hne
      exact hne (h9 j hj).symm
  · intro p hp
    simp only [ret, List.map_append, List.map_cons, List.map_nil, List.mem_append, List.mem_singleton, not_or] at hp ⊢
    obtain ⟨h1, h2⟩ := mem_of_mem_filter_keys _ _ _ hp
    exact ⟨h11 p h1, h2⟩

theorem dc_idle_eq (g : Nat) (s : S) (h : runningPending s = false) :
    doneCallback g s = { s with compl := s.compl ++ [g], finished := s.finished ++ [g] } := by
  have hrp : runningPending { s with compl := s.compl ++ [g] } = false := h
  simp only [doneCallback, hrp]
  simp

theorem dc_pending_eq (g k i : Nat) (s : S) (hk : s.running = some k) (ho : s.outs[k]? = some (.fut none))
    (hl : lookup s.unfinished g = some i) :
    doneCallback g s = ret g k i { s with compl := s.compl ++ [g] } := by
  have hrp : runningPending { s with compl := s.compl ++ [g] } = true := (rp_iff _).2 ⟨k, hk, ho⟩
  simp only [doneCallback, hrp, if_true]
  rw [rr_spec g k i { s with compl := s.compl ++ [g] } hk ho hl]
  simp

/-- `_done_callback(g)` for an argument `g` that is done and has not completed before -/
theorem invI_doneCallback (s : S) (g : Nat) (h : InvI s) (hgc : g ∉ s.compl) (hga : g ∈ s.args)
    (hgd : get s.st g ≠ none) : InvI (doneCallback g s) := by
  cases hrp : runningPending s with
  | false =>
    rw [dc_idle_eq g s hrp]
    constructor
    · simp [h.w1]
    · exact h.w3
    · exact h.w3'
    · intro h'; have h'' : runningPending s = true := h'; rw [hrp] at h''; cases h''
    · exact h.w6
    · intro h'; have h'' : runningPending s = true := h'; rw [hrp] at h''; cases h''
    · exact h.w9
    · exact h.w11
  | true =>
    obtain ⟨k, hk, ho⟩ := (rp_iff s).1 hrp
    have hfin := h.w5 hrp
    have hgy : g ∉ s.yielded.map (·.1) := by
      intro hh; apply hgc; rw [h.w1]; exact List.mem_append_left _ hh
    obtain ⟨i, hi⟩ := indexOf_of_mem _ _ hga
    have hl : lookup s.unfinished g = some i := by rw [h.w3 g hgy]; exact hi
    rw [dc_pending_eq g k i s hk ho hl]
    apply invI_ret
    · simp [h.w1, hfin]
    · exact h.w3
    · exact h.w3'
    · exact h.w11
    · exact hl
    · exact hgy
    · intro j hj
      have := (h.w9 j hj).1
      rw [hk] at this
      exact (Option.some.inj this).symm
    · exact hgd
    · exact h.w6

theorem canNext_last (s : S) (h : canNext s = true) : s.outs.getLast? ≠ some (.fut none) := by
  intro hl
  simp [canNext, hl] at h

theorem no_pending_of_canNext (s : S) (h : InvI s) (hc : canNext s = true) (j : Nat) :
    s.outs[j]? ≠ some (.fut none) := by
  intro hj
  have h2 := (h.w9 j hj).2
  apply canNext_last s hc
  rw [List.getLast?_eq_getElem?, ← h2]
  simpa using hj

theorem next_done_eq (s : S) (h : isDone s = true) : next s = { s with curIdx := none } := by
  simp [next, h]

theorem next_blocked_eq (s : S) (h : isDone s = false) (hc : canNext s = false) : next s = s := by
  simp [next, h, hc]

theorem next_wait_eq (s : S) (h : isDone s = false) (hc : canNext s = true) (hf : s.finished = []) :
    next s = { s with outs := s.outs ++ [NextOut.fut none], running := some s.outs.length } := by
  simp [next, h, hc, hf]

theorem next_pop_eq (s : S) (f i : Nat) (rest : List Nat) (h : isDone s = false) (hc : canNext s = true)
    (hf : s.finished = f :: rest) (hl : lookup s.unfinished f = some i) :
    next s = ret f s.outs.length i
      { s with outs := s.outs ++ [NextOut.fut none], running := some s.outs.length, finished := rest } := by
  have := rr_spec f s.outs.length i
    { s with outs := s.outs ++ [NextOut.fut none], running := some s.outs.length, finished := rest } rfl (by simp) hl
  simp only [next, h, hc, hf, if_true, Bool.false_eq_true, if_false, this]

theorem inv_next (s : S) (hs : InvS [] s) (h : InvI s) : InvS [] (next s) ∧ InvI (next s) := by
  cases hdone : isDone s with
  | true =>
    rw [next_done_eq s hdone]
    exact ⟨invS_of_eq _ s _ hs rfl rfl rfl rfl rfl,
      ⟨h.w1, h.w3, h.w3', h.w5, h.w6, h.w8, h.w9, h.w11⟩⟩
  | false =>
    cases hc : canNext s with
    | false => rw [next_blocked_eq s hdone hc]; exact ⟨hs, h⟩
    | true =>
      have hnp := no_pending_of_canNext s h hc
      have hidx : ∀ j, (s.outs ++ [NextOut.fut none])[j]? = some (.fut none) → j = s.outs.length := by
        intro j hj
        by_cases hlt : j < s.outs.length
        · rw [List.getElem?_append_left hlt] at hj
          exact absurd hj (hnp j)
        · by_cases hjk : j = s.outs.length
          · exact hjk
          · rw [List.getElem?_eq_none (by simp; omega)] at hj; cases hj
      cases hf : s.finished with
      | nil =>
        rw [next_wait_eq s hdone hc hf]
        refine ⟨invS_of_eq _ s _ hs rfl rfl rfl rfl rfl, ?_⟩
        constructor
        · exact h.w1
        · exact h.w3
        · exact h.w3'
        · intro _; exact hf
        · refine ⟨h.w6.1, ?_⟩
          simp only [List.mem_append, List.mem_singleton, not_or]
          exact ⟨h.w6.2, by simp⟩
        · intro _ hu
          simp [isDone, hf] at hdone
          exact hdone hu
        · intro j hj
          have := hidx j hj
          subst this
          exact ⟨rfl, by simp⟩
        · exact h.w11
      | cons f rest =>
        have hfc : f ∈ s.compl := by rw [h.w1, hf]; simp
        obtain ⟨hfa, hfd, _⟩ := hs.csub f hfc
        have hfy : f ∉ s.yielded.map (·.1) := by
          have hnd := hs.cnd
          rw [h.w1, hf] at hnd
          intro hh
          exact (List.nodup_append.1 hnd).2.2 f hh f (by simp) rfl
        obtain ⟨i, hi⟩ := indexOf_of_mem _ _ hfa
        have hl : lookup s.unfinished f = some i := by rw [h.w3 f hfy]; exact hi
        rw [next_pop_eq s f i rest hdone hc hf hl]
        refine ⟨invS_of_eq _ s _ hs rfl rfl rfl rfl rfl, ?_⟩
        apply invI_ret
        · simp [h.w1, hf]
        · exact h.w3
        · exact h.w3'
        · exact h.w11
        · exact hl
        · exact hfy
        · exact hidx
        · exact hfd
        · refine ⟨h.w6.1, ?_⟩
          simp only [List.mem_append, List.mem_singleton, not_or]
          exact ⟨h.w6.2, by simp⟩

/-! ### all steps -/

/-- reachability invariant of the WaitIterator machine constructed over `args` -/
structure Inv (args : List Nat) (q : List Nat) (s : S) : Prop where
  sched : InvS q s
  iter : InvI s
  hargs : s.args = args

theorem invI_of_eq (s s' : S) (h : InvI s) (h1 : s'.args = s.args) (h2 : s'.compl = s.compl)
    (h3 : s'.yielded = s.yielded) (h4 : s'.finished = s.finished) (h5 : s'.unfinished = s.unfinished)
    (h6 : s'.running = s.running) (h7 : s'.outs = s.outs) (h8 : s'.cbErrs = s.cbErrs) : InvI s' := by
  have hrp : runningPending s' = runningPending s := by simp only [runningPending, h6, h7]
  constructor
  · rw [h2, h3, h4]; exact h.w1
  · rw [h1, h3, h5]; exact h.w3
  · rw [h1, h3]; exact h.w3'
  · rw [hrp, h4]; exact h.w5
  · rw [h7, h8]; exact h.w6
  · rw [hrp, h5]; exact h.w8
  · rw [h6, h7]; exact h.w9
  · rw [h3, h5]; exact h.w11

theorem settle_eq (f : Nat) (o : Outcome) (s : S) :
    (settle f o s).args = s.args ∧ (settle f o s).compl = s.compl ∧ (settle f o s).yielded = s.yielded ∧
    (settle f o s).finished = s.finished ∧ (settle f o s).unfinished = s.unfinished ∧
    (settle f o s).running = s.running ∧ (settle f o s).outs = s.outs ∧ (settle f o s).cbErrs = s.cbErrs := by
  simp only [settle]
  split
  · split <;> simp
  · simp

theorem inv_settle (args : List Nat) (s : S) (f : Nat) (o : Outcome) (h : Inv args [] s) : Inv args [] (settle f o s) := by
  obtain ⟨e1, e2, e3, e4, e5, e6, e7, e8⟩ := settle_eq f o s
  exact ⟨invS_settle s f o h.sched, invI_of_eq s _ h.iter e1 e2 e3 e4 e5 e6 e7 e8, by rw [e1]; exact h.hargs⟩

theorem inv_exec (args : List Nat) (t : Tok) (r : List Tok) (s : S) (h : Inv args [] s) (hr : s.ready = t :: r) :
    Inv args [] (exec t { s with ready := r }) := by
  cases t with
  | cb g =>
    have hcb : cbs s.ready = g :: cbs r := by rw [hr]; rfl
    have hg := h.sched.rd g (by rw [hcb]; simp)
    have hgc : g ∉ s.compl := fun hc => (h.sched.csub g hc).2.2 (by rw [hcb]; simp)
    refine ⟨invS_doneCallback [] s g r h.sched hcb, ?_, ?_⟩
    · exact invI_doneCallback { s with ready := r } g
        (invI_of_eq s _ h.iter rfl rfl rfl rfl rfl rfl rfl rfl) hgc hg.2.1 hg.1
    · show (doneCallback g { s with ready := r }).args = args
      rw [dc_args]; exact h.hargs
  | env f o =>
    have hcb : cbs r = cbs s.ready := by rw [hr]; rfl
    exact inv_settle args _ f o
      ⟨invS_of_eq _ s _ h.sched rfl rfl rfl rfl hcb, invI_of_eq s _ h.iter rfl rfl rfl rfl rfl rfl rfl rfl, h.hargs⟩

theorem inv_tickN (args : List Nat) (n : Nat) (s : S) (h : Inv args [] s) : Inv args [] (tickN n s) := by
  induction n generalizing s with
  | zero => exact h
  | succ n ih =>
    unfold tickN
    split
    · exact h
    · rename_i t r hr
      exact ih _ (inv_exec args t r s h hr)

theorem next_args (s : S) (hs : InvS [] s) (h : InvI s) : (next s).args = s.args := by
  have := (inv_next s hs h).1
  cases hdone : isDone s with
  | true => rw [next_done_eq s hdone]
  | false =>
    cases hc : canNext s with
    | false => rw [next_blocked_eq s hdone hc]
    | true =>
      cases hf : s.finished with
      | nil => rw [next_wait_eq s hdone hc hf]
      | cons f rest =>
        simp only [next, hdone, hc, hf, if_true, Bool.false_eq_true, if_false]
        split <;> simp [rr_args]

theorem inv_step (args : List Nat) (s : S) (op : Op) (h : Inv args [] s) : Inv args [] (step s op) := by
  cases op with
  | set f o => exact inv_settle args s f o h
  | soon f o =>
    have hcb : cbs (s.ready ++ [Tok.env f o]) = cbs s.ready := by simp [cbs_append, cbs]
    exact ⟨invS_of_eq _ s _ h.sched rfl rfl rfl rfl hcb,
      invI_of_eq s _ h.iter rfl rfl rfl rfl rfl rfl rfl rfl, h.hargs⟩
  | tick => exact inv_tickN args _ s h
  | next =>
    have := inv_next s h.sched h.iter
    exact ⟨this.1, this.2, by show (next s).args = args; rw [next_args s h.sched h.iter]; exact h.hargs⟩

theorem inv_run (args : List Nat) (ops : List Op) (s : S) (h : Inv args [] s) : Inv args [] (run s ops) := by
  induction ops generalizing s with
  | nil => exact h
  | cons op ops ih => exact ih _ (inv_step args s op h)

/-! ### the constructor -/

theorem inv_register (args q : List Nat) (g : Nat) (s : S) (h : Inv args (g :: q) s) (hr : s.ready = []) :
    Inv args q (register s g) ∧ (register s g).ready = [] := by
  have hS := invS_register q g s h.sched hr
  refine ⟨⟨hS.1, ?_, ?_⟩, hS.2⟩
  · simp only [register]
    split
    · rename_i o hdone
      have hq := h.sched.qsub g (by simp)
      exact invI_doneCallback s g h.iter hq.2.1 hq.1 (by simp [hdone])
    · exact invI_of_eq s _ h.iter rfl rfl rfl rfl rfl rfl rfl rfl
  · simp only [register]
    split
    · rw [dc_args]; exact h.hargs
    · exact h.hargs

theorem inv_foldl_register (args q : List Nat) (s : S) (h : Inv args q s) (hr : s.ready = []) :
    Inv args [] (q.foldl register s) := by
  induction q generalizing s with
  | nil => exact h
  | cons g q ih =>
    have := inv_register args q g s h hr
    exact ih _ this.1 this.2

theorem inv_init0 (st : List FState) (args : List Nat) (hnd : args.Nodup) :
    Inv args args { st := st, args := args, listening := [], unfinished := mkUnfinished args 0 [], finished := [],
                    running := none, outs := [], yielded := [], curIdx := none, cbErrs := 0, compl := [], ready := [] } := by
  refine ⟨?_, ?_, rfl⟩
  · constructor
    · exact hnd
    · intro f hf; exact ⟨hf, by simp, by simp⟩
    · simp
    · intro f hf; cases hf
    · intro f hf; cases hf
    · simp
    · intro g hg; cases hg
    · simp [cbs]
    · intro f hf; exact Or.inl hf
  · constructor
    · rfl
    · intro f _
      have := lookup_mkUnfinished args 0 [] f hnd (fun g _ => rfl)
      simp only [lookup_nil] at this
      simp only [this]
      cases Spec.indexOf args f <;> simp
    · intro p hp; cases hp
    · intro hh; rfl
    · exact ⟨rfl, by simp⟩
    · intro hh; simp [runningPending] at hh
    · intro j hj; simp at hj
    · intro p _; simp

theorem inv_init (st : List FState) (args : List Nat) (hnd : args.Nodup) : Inv args [] (init st args) := by
  simp only [init]
  exact inv_foldl_register args args _ (inv_init0 st args hnd) rfl

theorem reach (st : List FState) (args : List Nat) (ops : List Op) (hnd : args.Nodup) :
    Inv args [] (run (init st args) ops) := inv_run args ops _ (inv_init st args hnd)

/-! ### consequences: nothing is left pending, everything is yielded -/

/-- all arguments done, loop idle, nothing queued in `_finished`: then nothing is left in `_unfinished` -/
theorem stuck_false (s : S) (hs : InvS [] s) (h : InvI s) (hd : ∀ f ∈ s.args, get s.st f ≠ none)
    (hr : s.ready = []) (hf : s.finished = []) (hu : s.unfinished ≠ []) : False := by
  obtain ⟨p, hp⟩ := List.exists_mem_of_ne_nil _ hu
  have hny := h.w11 p hp
  have hl := lookup_isSome_of_mem _ p hp
  rw [h.w3 _ hny] at hl
  have hpa := mem_of_indexOf _ _ hl
  rcases hs.w7 _ hpa with h1 | h1 | h1 | h1
  · cases h1
  · exact hd _ hpa h1.1
  · rw [hr] at h1; cases h1
  · rw [h.w1, hf, List.append_nil] at h1; exact hny h1

theorem never_pending_aux (s : S) (hs : InvS [] s) (h : InvI s) (hd : ∀ f ∈ s.args, get s.st f ≠ none)
    (hr : s.ready = []) : s.outs.getLast? ≠ some (.fut none) := by
  intro hl
  have hj : s.outs[s.outs.length - 1]? = some (.fut none) := by rw [← List.getLast?_eq_getElem?]; exact hl
  obtain ⟨hrun, _⟩ := h.w9 _ hj
  have hrp := (rp_iff s).2 ⟨_, hrun, hj⟩
  exact stuck_false s hs h hd hr (h.w5 hrp) (h.w8 hrp)

theorem complete_aux (s : S) (hs : InvS [] s) (h : InvI s) (hdone : isDone s = true) :
    ∀ f, f ∈ s.yielded.map (·.1) ↔ f ∈ s.args := by
  intro f
  constructor
  · intro hf
    exact (hs.csub f (by rw [h.w1]; exact List.mem_append_left _ hf)).1
  · intro hf
    have hu : s.unfinished = [] := by
      simp only [isDone, Bool.and_eq_true, List.isEmpty_iff] at hdone
      exact hdone.2
    apply Classical.byContradiction
    intro hny
    have := h.w3 f hny
    rw [hu, lookup_nil] at this
    obtain ⟨i, hi⟩ := indexOf_of_mem _ _ hf
    rw [hi] at this
    cases this

theorem next_yields_aux (s : S) (hs : InvS [] s) (h : InvI s) (hd : ∀ f ∈ s.args, get s.st f ≠ none)
    (hr : s.ready = []) (hdone : isDone s = false) :
    ∃ f i rest, s.finished = f :: rest ∧ get s.st f ≠ none ∧ Spec.indexOf s.args f = some i ∧
      (next s).yielded = s.yielded ++ [(f, i)] ∧ (next s).outs = s.outs ++ [.fut (get s.st f)] ∧
      (next s).finished = rest := by
  have hlast := never_pending_aux s hs h hd hr
  have hc : canNext s = true := by
    unfold canNext
    rw [hdone]
    generalize s.outs.getLast? = l at hlast
    match l, hlast with
    | some (.fut none), hlast => exact absurd rfl hlast
    | some (.fut (some _)), _ => rfl
    | some .keyError, _ => rfl
    | none, _ => rfl
  cases hf : s.finished with
  | nil =>
    exfalso
    refine stuck_false s hs h hd hr hf ?_
    intro hu
    simp [isDone, hf, hu] at hdone
  | cons f rest =>
    have hfc : f ∈ s.compl := by rw [h.w1, hf]; simp
    obtain ⟨hfa, hfd, _⟩ := hs.csub f hfc
    have hfy : f ∉ s.yielded.map (·.1) := by
      have hnd := hs.cnd
      rw [h.w1, hf] at hnd
      intro hh
      exact (List.nodup_append.1 hnd).2.2 f hh f (by simp) rfl
    obtain ⟨i, hi⟩ := indexOf_of_mem _ _ hfa
    have hl : lookup s.unfinished f = some i := by rw [h.w3 f hfy]; exact hi
    refine ⟨f, i, rest, rfl, hfd, hi, ?_, ?_, ?_⟩
    · rw [next_pop_eq s f i rest hdone hc hf hl]; rfl
    · rw [next_pop_eq s f i rest hdone hc hf hl]
      simp [ret]
    · rw [next_pop_eq s f i rest hdone hc hf hl]; rfl

end Wait
end TornadoModel.C36
