/- C36: reachability invariant of the `WaitIterator` machine over all schedules, for ANY argument list (the same
   future may be passed at several positions): counting invariants (core Lean only). -/
import TornadoModel.C36.InvMulti
namespace TornadoModel.C36

/-! ### `Spec.indexOf` -/
theorem indexOf_of_mem (args : List Nat) (f : Nat) (h : f ∈ args) : ∃ i, Spec.indexOf args f = some i := by
  induction args with
  | nil => cases h
  | cons x r ih =>
    simp only [Spec.indexOf]
    by_cases hx : x = f
    · exact ⟨0, by simp [hx]⟩
    · rcases List.mem_cons.1 h with h1 | h1
      · exact absurd h1.symm hx
      · obtain ⟨i, hi⟩ := ih h1
        exact ⟨i + 1, by simp [hx, hi]⟩

namespace Wait

/-! ### the `_unfinished` table -/

theorem lookup_nil (f : Nat) : lookup [] f = none := rfl

theorem lookup_cons (p : Nat × Nat) (m : List (Nat × Nat)) (f : Nat) :
    lookup (p :: m) f = if p.1 = f then some p.2 else lookup m f := by
  simp only [lookup, List.find?_cons]
  by_cases h : p.1 = f
  · simp [h]
  · have hb : (p.1 == f) = false := by simpa using h
    simp [h, hb]

theorem lookup_eq_none_iff (m : List (Nat × Nat)) (f : Nat) : lookup m f = none ↔ f ∉ m.map (·.1) := by
  induction m with
  | nil => simp [lookup_nil]
  | cons p m ih =>
    rw [lookup_cons]
    by_cases h : p.1 = f
    · simp [h]
    · simp only [h, if_false, List.map_cons, List.mem_cons, not_or]
      rw [ih]
      exact ⟨fun x => ⟨fun e => h e.symm, x⟩, fun x => x.2⟩

theorem mem_of_lookup (m : List (Nat × Nat)) (f i : Nat) (h : lookup m f = some i) : (f, i) ∈ m := by
  induction m with
  | nil => simp [lookup_nil] at h
  | cons p m ih =>
    rw [lookup_cons] at h
    by_cases hp : p.1 = f
    · simp only [hp, if_true, Option.some.injEq] at h
      obtain ⟨a, b⟩ := p
      simp only at hp h
      subst hp; subst h
      exact List.mem_cons_self
    · simp only [hp, if_false] at h
      exact List.mem_cons_of_mem _ (ih h)

/-- taking the first index of `f` out of the table only moves that entry -/
theorem perm_eraseKey (m : List (Nat × Nat)) (f i : Nat) (h : lookup m f = some i) :
    m.Perm ((f, i) :: eraseKey m f) := by
  induction m with
  | nil => simp [lookup_nil] at h
  | cons p m ih =>
    rw [lookup_cons] at h
    by_cases hp : p.1 = f
    · simp only [hp, if_true, Option.some.injEq] at h
      obtain ⟨a, b⟩ := p
      simp only at hp h
      subst hp; subst h
      simp [eraseKey]
    · simp only [hp, if_false] at h
      simp only [eraseKey, hp, if_false]
      exact ((ih h).cons p).trans (List.Perm.swap _ _ _)

theorem lookup_eraseKey_ne (m : List (Nat × Nat)) (f g : Nat) (hne : g ≠ f) :
    lookup (eraseKey m f) g = lookup m g := by
  induction m with
  | nil => rfl
  | cons p m ih =>
    simp only [eraseKey]
    by_cases hp : p.1 = f
    · have : p.1 ≠ g := fun e => hne (e.symm.trans hp)
      simp [hp, lookup_cons]
      intro e; exact absurd (e.symm) hne
    · simp [hp, lookup_cons, ih]

theorem enum_map_fst (args : List Nat) (i : Nat) : (enum args i).map (·.1) = args := by
  induction args generalizing i with
  | nil => rfl
  | cons f fs ih => simp [enum, ih]

theorem enum_map_snd (args : List Nat) (i : Nat) : (enum args i).map (·.2) = List.range' i args.length := by
  induction args generalizing i with
  | nil => rfl
  | cons f fs ih => simp [enum, ih, List.range'_succ]

/-- every entry of the table is an argument position with the future passed there -/
theorem enum_spec (args : List Nat) (i : Nat) (p : Nat × Nat) (h : p ∈ enum args i) :
    i ≤ p.2 ∧ args[p.2 - i]? = some p.1 := by
  induction args generalizing i with
  | nil => cases h
  | cons f fs ih =>
    simp only [enum, List.mem_cons] at h
    rcases h with h | h
    · subst h; simp
    · obtain ⟨h1, h2⟩ := ih (i + 1) h
      refine ⟨by omega, ?_⟩
      have : p.2 - i = (p.2 - (i + 1)) + 1 := by omega
      rw [this, List.getElem?_cons_succ]
      exact h2

theorem lookup_enum (args : List Nat) (i f : Nat) : lookup (enum args i) f = (Spec.indexOf args f).map (· + i) := by
  induction args generalizing i with
  | nil => rfl
  | cons g fs ih =>
    simp only [enum, lookup_cons, Spec.indexOf]
    by_cases hg : g = f
    · simp [hg]
    · simp only [hg, if_false, ih, Option.map_map]
      cases Spec.indexOf fs f with
      | none => rfl
      | some x => simp; omega

theorem count_filter_beq (l : List Nat) (f g : Nat) :
    (l.filter (· == f)).count g = if g = f then l.count g else 0 := by
  induction l with
  | nil => simp
  | cons x l ih =>
    by_cases hx : x = f
    · subst hx
      by_cases hg : g = x
      · subst hg; simp [ih]
      · have : ¬ x = g := fun e => hg e.symm
        simp [ih, hg, this]
    · have hb : (x == f) = false := by simpa using hx
      simp only [List.filter_cons, hb, Bool.false_eq_true, if_false, ih]
      by_cases hg : g = f
      · subst hg
        have : ¬ x = g := hx
        simp [this]
      · simp [hg]

/-! ### callbacks waiting in the ready queue -/

def cbs : List Tok → List Nat
  | [] => []
  | .cb g :: r => g :: cbs r
  | .env _ _ :: r => cbs r

theorem cbs_append (a b : List Tok) : cbs (a ++ b) = cbs a ++ cbs b := by
  induction a with
  | nil => rfl
  | cons t a ih => cases t <;> simp [cbs, ih]

theorem cbs_map_cb (l : List Nat) : cbs (l.map Tok.cb) = l := by
  induction l with
  | nil => rfl
  | cons x l ih => simp [cbs, ih]

/-! ### what the steps leave alone -/

theorem rr_st (f : Nat) (s : S) : (returnResult f s).1.st = s.st := by
  simp only [returnResult]; split
  · rfl
  · split <;> rfl
theorem rr_args (f : Nat) (s : S) : (returnResult f s).1.args = s.args := by
  simp only [returnResult]; split
  · rfl
  · split <;> rfl
theorem rr_listening (f : Nat) (s : S) : (returnResult f s).1.listening = s.listening := by
  simp only [returnResult]; split
  · rfl
  · split <;> rfl
theorem rr_compl (f : Nat) (s : S) : (returnResult f s).1.compl = s.compl := by
  simp only [returnResult]; split
  · rfl
  · split <;> rfl
theorem rr_ready (f : Nat) (s : S) : (returnResult f s).1.ready = s.ready := by
  simp only [returnResult]; split
  · rfl
  · split <;> rfl

theorem dc_st (g : Nat) (s : S) : (doneCallback g s).st = s.st := by
  simp only [doneCallback]; split
  · split <;> simp [rr_st]
  · rfl
theorem dc_args (g : Nat) (s : S) : (doneCallback g s).args = s.args := by
  simp only [doneCallback]; split
  · split <;> simp [rr_args]
  · rfl
theorem dc_listening (g : Nat) (s : S) : (doneCallback g s).listening = s.listening := by
  simp only [doneCallback]; split
  · split <;> simp [rr_listening]
  · rfl
theorem dc_ready (g : Nat) (s : S) : (doneCallback g s).ready = s.ready := by
  simp only [doneCallback]; split
  · split <;> simp [rr_ready]
  · rfl
theorem dc_compl (g : Nat) (s : S) : (doneCallback g s).compl = s.compl ++ [g] := by
  simp only [doneCallback]; split
  · split <;> simp [rr_compl]
  · rfl

/-! ### the scheduling part of the invariant (`q` = argument positions the constructor has still to register) -/

/-- callbacks of `f` still registered on the (pending) future -/
def pend (s : S) (f : Nat) : Nat := if get s.st f = none then s.listening.count f else 0

/-- every argument position of a future is accounted for exactly once: still to register, or registered on the
    pending future, or its callback waits in the ready queue, or it has completed -/
structure InvS (q : List Nat) (s : S) : Prop where
  w : ∀ f, s.args.count f = q.count f + pend s f + (cbs s.ready).count f + s.compl.count f
  rd : ∀ g ∈ cbs s.ready, get s.st g ≠ none
  cd : ∀ f ∈ s.compl, get s.st f ≠ none

theorem pend_of_eq (s s' : S) (h1 : s'.st = s.st) (h3 : s'.listening = s.listening) (f : Nat) :
    pend s' f = pend s f := by
  simp only [pend, h1, h3]

theorem invS_of_eq (q : List Nat) (s s' : S) (h : InvS q s) (h1 : s'.st = s.st) (h2 : s'.args = s.args)
    (h3 : s'.listening = s.listening) (h4 : s'.compl = s.compl) (h5 : cbs s'.ready = cbs s.ready) : InvS q s' := by
  constructor
  · intro f; rw [h2, h4, h5, pend_of_eq s s' h1 h3]; exact h.w f
  · rw [h1, h5]; exact h.rd
  · rw [h1, h4]; exact h.cd

/-- `_done_callback(g)` moves one position of `g` to "completed" -/
theorem invS_dc (q : List Nat) (s : S) (g : Nat)
    (hw : ∀ f, s.args.count f = q.count f + pend s f + (cbs s.ready).count f + (s.compl ++ [g]).count f)
    (hrd : ∀ g' ∈ cbs s.ready, get s.st g' ≠ none) (hcd : ∀ f ∈ s.compl, get s.st f ≠ none)
    (hgd : get s.st g ≠ none) : InvS q (doneCallback g s) := by
  constructor
  · intro f
    rw [dc_args, dc_ready, dc_compl, pend_of_eq s _ (dc_st g s) (dc_listening g s)]
    exact hw f
  · rw [dc_ready, dc_st]; exact hrd
  · intro f hf
    rw [dc_compl] at hf
    rw [dc_st]
    rcases List.mem_append.1 hf with h1 | h1
    · exact hcd f h1
    · simp only [List.mem_singleton] at h1; subst h1; exact hgd

theorem invS_doneCallback (q : List Nat) (s : S) (g : Nat) (r : List Tok) (h : InvS q s)
    (hr : cbs s.ready = g :: cbs r) : InvS q (doneCallback g { s with ready := r }) := by
  have hg := h.rd g (by rw [hr]; simp)
  apply invS_dc
  · intro f
    have := h.w f
    rw [hr] at this
    show s.args.count f = q.count f + pend s f + (cbs r).count f + (s.compl ++ [g]).count f
    simp only [List.count_append, List.count_cons, List.count_nil] at this ⊢
    omega
  · intro g' hg'
    exact h.rd g' (by rw [hr]; exact List.mem_cons_of_mem _ hg')
  · exact h.cd
  · exact hg

theorem invS_settle (q : List Nat) (s : S) (f : Nat) (o : Outcome) (h : InvS q s) : InvS q (settle f o s) := by
  simp only [settle]
  split
  · rename_i hlt
    split
    · exact h
    · rename_i hp
      have hself : get (s.st.set f (some o)) f = some o := get_set_self _ _ _ hlt
      have hmono : ∀ g, get s.st g ≠ none → get (s.st.set f (some o)) g ≠ none := by
        intro g hg
        by_cases hgf : g = f
        · subst hgf; exact absurd hp hg
        · rw [get_set_ne _ _ _ _ hgf]; exact hg
      constructor
      · intro g
        have := h.w g
        simp only [cbs_append, cbs_map_cb, List.count_append, count_filter_beq]
        by_cases hgf : g = f
        · subst hgf
          simp only [pend, hself, hp, if_true] at this ⊢
          simp
          omega
        · simp only [pend, get_set_ne _ _ _ _ hgf, hgf, if_false] at this ⊢
          omega
      · intro g hg
        simp only [cbs_append, cbs_map_cb, List.mem_append, List.mem_filter, beq_iff_eq] at hg
        rcases hg with h1 | h1
        · exact hmono g (h.rd g h1)
        · rw [h1.2]; simp only; rw [hself]; simp
      · intro g hg
        exact hmono g (h.cd g hg)
  · exact h

theorem invS_register (q : List Nat) (g : Nat) (s : S) (h : InvS (g :: q) s) : InvS q (register s g) := by
  simp only [register]
  split
  · rename_i o hdone
    apply invS_dc
    · intro f
      have := h.w f
      simp only [List.count_append, List.count_cons, List.count_nil] at this ⊢
      omega
    · exact h.rd
    · exact h.cd
    · simp [hdone]
  · rename_i hp
    constructor
    · intro f
      have := h.w f
      by_cases hfg : f = g
      · subst hfg
        simp only [pend, hp, if_true, List.count_append, List.count_cons, List.count_nil] at this ⊢
        simp at this ⊢
        omega
      · have hgf : ¬ g = f := fun e => hfg e.symm
        simp only [pend, List.count_append, List.count_cons, List.count_nil] at this ⊢
        simp [hgf] at this ⊢
        exact this
    · exact h.rd
    · exact h.cd

/-! ### the specification side: one more completion -/

theorem waitYieldsFrom_append (avail : List (Nat × Nat)) (oc : Nat → Option Outcome) (l : List Nat) (f : Nat) :
    Spec.waitYieldsFrom avail oc (l ++ [f])
      = Spec.waitYieldsFrom avail oc l ++ [(lookup (l.foldl eraseKey avail) f, oc f)] := by
  induction l generalizing avail with
  | nil => simp [Spec.waitYieldsFrom]
  | cons g l ih => simp [Spec.waitYieldsFrom, ih]

/-- completions of pairwise different futures: each one gets the first position of its future -/
theorem waitYieldsFrom_nodup (avail : List (Nat × Nat)) (oc : Nat → Option Outcome) (order : List Nat)
    (hnd : order.Nodup) : Spec.waitYieldsFrom avail oc order = order.map (fun f => (lookup avail f, oc f)) := by
  induction order generalizing avail with
  | nil => rfl
  | cons f r ih =>
    obtain ⟨hf, hr⟩ := List.nodup_cons.1 hnd
    simp only [Spec.waitYieldsFrom, List.map_cons, ih _ hr]
    congr 1
    apply List.map_congr_left
    intro g hg
    have hne : g ≠ f := fun e => hf (e ▸ hg)
    rw [lookup_eraseKey_ne _ _ _ hne]

/-! ### the iterator part of the invariant -/

structure InvI (s : S) : Prop where
  w1 : s.compl = s.yielded.map (·.1) ++ s.finished
  /-- `_unfinished` = the argument positions minus one position per yield (the first one left of that future) -/
  wU : s.unfinished = (s.yielded.map (·.1)).foldl eraseKey (enum s.args 0)
  /-- the yielded indices are the specified ones -/
  wY : ∀ oc : Nat → Option Outcome,
    s.yielded.map (fun p => (some p.2, oc p.1)) = Spec.waitYields s.args (s.yielded.map (·.1)) oc
  /-- not yet yielded + yielded = the argument positions, each exactly once -/
  wP : (s.unfinished ++ s.yielded).Perm (enum s.args 0)
  w5 : runningPending s = true → s.finished = []
  w6 : s.cbErrs = 0 ∧ NextOut.keyError ∉ s.outs
  w8 : runningPending s = true → s.unfinished ≠ []
  w9 : ∀ j, s.outs[j]? = some (.fut none) → s.running = some j ∧ j + 1 = s.outs.length

theorem rp_iff (s : S) : runningPending s = true ↔ ∃ k, s.running = some k ∧ s.outs[k]? = some (.fut none) := by
  simp only [runningPending]
  constructor
  · intro h
    split at h
    · rename_i k hk
      refine ⟨k, hk, ?_⟩
      split at h
      · rename_i ho; exact ho
      · cases h
    · cases h
  · rintro ⟨k, hk, ho⟩
    simp [hk, ho]

/-- a future that has completed fewer times than it was passed still has an index in `_unfinished` -/
theorem lookup_of_count (s : S) (hP : (s.unfinished ++ s.yielded).Perm (enum s.args 0)) (g : Nat)
    (hc : (s.yielded.map (·.1)).count g < s.args.count g) : ∃ i, lookup s.unfinished g = some i := by
  have h1 := (hP.map (·.1)).count_eq g
  rw [enum_map_fst, List.map_append, List.count_append] at h1
  have h2 : 0 < (s.unfinished.map (·.1)).count g := by omega
  have h3 : g ∈ s.unfinished.map (·.1) := List.count_pos_iff.1 h2
  cases hl : lookup s.unfinished g with
  | some i => exact ⟨i, rfl⟩
  | none => exact absurd h3 ((lookup_eq_none_iff _ _).1 hl)

/-- the state after a successful `_return_result(f)` while `next()`-future number `k` is running -/
def ret (f k i : Nat) (s : S) : S :=
  { s with outs := s.outs.set k (.fut (get s.st f)), running := none,
           unfinished := eraseKey s.unfinished f, yielded := s.yielded ++ [(f, i)], curIdx := some i }

theorem rr_spec (f k i : Nat) (s : S) (hk : s.running = some k) (ho : s.outs[k]? = some (.fut none))
    (hl : lookup s.unfinished f = some i) : returnResult f s = (ret f k i s, false) := by
  simp only [returnResult, hk, hl, setOut, ho, ret]

theorem invI_ret (s : S) (f k i : Nat)
    (m1 : s.compl = s.yielded.map (·.1) ++ f :: s.finished)
    (hU : s.unfinished = (s.yielded.map (·.1)).foldl eraseKey (enum s.args 0))
    (hY : ∀ oc : Nat → Option Outcome,
      s.yielded.map (fun p => (some p.2, oc p.1)) = Spec.waitYields s.args (s.yielded.map (·.1)) oc)
    (hP : (s.unfinished ++ s.yielded).Perm (enum s.args 0))
    (hl : lookup s.unfinished f = some i)
    (h9 : ∀ j, s.outs[j]? = some (.fut none) → j = k)
    (hd : get s.st f ≠ none)
    (h6 : s.cbErrs = 0 ∧ NextOut.keyError ∉ s.outs) : InvI (ret f k i s) := by
  constructor
  · simp [ret, m1]
  · simp only [ret, List.map_append, List.map_cons, List.map_nil, List.foldl_append, List.foldl_cons,
      List.foldl_nil, ← hU]
  · intro oc
    simp only [ret, List.map_append, List.map_cons, List.map_nil, Spec.waitYields]
    rw [waitYieldsFrom_append, ← hU, hl]
    have := hY oc
    simp only [Spec.waitYields] at this
    rw [this]
  · simp only [ret]
    have h1 : (eraseKey s.unfinished f ++ (s.yielded ++ [(f, i)])).Perm
        ((f, i) :: (eraseKey s.unfinished f ++ s.yielded)) := by
      rw [← List.append_assoc]
      exact List.perm_append_singleton _ _
    have h2 : ((f, i) :: (eraseKey s.unfinished f ++ s.yielded)).Perm (s.unfinished ++ s.yielded) := by
      have := (perm_eraseKey s.unfinished f i hl).symm.append_right s.yielded
      simpa using this
    exact (h1.trans h2).trans hP
  · intro h
    simp [runningPending, ret] at h
  · refine ⟨h6.1, ?_⟩
    intro hmem
    simp only [ret] at hmem
    rcases List.mem_or_eq_of_mem_set hmem with h1 | h1
    · exact h6.2 h1
    · cases h1
  · intro h
    simp [runningPending, ret] at h
  · intro j hj
    exfalso
    simp only [ret, List.getElem?_set] at hj
    split at hj
    · split at hj
      · injection hj with hj; injection hj with hj; exact hd hj
      · cases hj
    · rename_i hne
      exact hne (h9 j hj).symm

theorem dc_idle_eq (g : Nat) (s : S) (h : runningPending s = false) :
    doneCallback g s = { s with compl := s.compl ++ [g], finished := s.finished ++ [g] } := by
  have hrp : runningPending { s with compl := s.compl ++ [g] } = false := h
  simp only [doneCallback, hrp]
  simp

theorem dc_pending_eq (g k i : Nat) (s : S) (hk : s.running = some k) (ho : s.outs[k]? = some (.fut none))
    (hl : lookup s.unfinished g = some i) :
    doneCallback g s = ret g k i { s with compl := s.compl ++ [g] } := by
  have hrp : runningPending { s with compl := s.compl ++ [g] } = true := (rp_iff _).2 ⟨k, hk, ho⟩
  simp only [doneCallback, hrp, if_true]
  rw [rr_spec g k i { s with compl := s.compl ++ [g] } hk ho hl]
  simp

/-- the index `_done_callback(g)` hands out while a `next()` future is waiting -/
theorem pending_lookup (s : S) (g : Nat) (h : InvI s) (hrp : runningPending s = true)
    (hc : s.compl.count g < s.args.count g) : ∃ i, lookup s.unfinished g = some i := by
  apply lookup_of_count s h.wP g
  have := h.w1
  rw [h.w5 hrp, List.append_nil] at this
  rw [← this]; exact hc

/-- `_done_callback(g)` for a done future `g` that has completed fewer times than it was passed -/
theorem invI_doneCallback (s : S) (g : Nat) (h : InvI s) (hc : s.compl.count g < s.args.count g)
    (hgd : get s.st g ≠ none) : InvI (doneCallback g s) := by
  cases hrp : runningPending s with
  | false =>
    rw [dc_idle_eq g s hrp]
    constructor
    · simp [h.w1]
    · exact h.wU
    · exact h.wY
    · exact h.wP
    · intro h'; have h'' : runningPending s = true := h'; rw [hrp] at h''; cases h''
    · exact h.w6
    · intro h'; have h'' : runningPending s = true := h'; rw [hrp] at h''; cases h''
    · exact h.w9
  | true =>
    obtain ⟨k, hk, ho⟩ := (rp_iff s).1 hrp
    have hfin := h.w5 hrp
    obtain ⟨i, hl⟩ := pending_lookup s g h hrp hc
    rw [dc_pending_eq g k i s hk ho hl]
    apply invI_ret
    · simp [h.w1, hfin]
    · exact h.wU
    · exact h.wY
    · exact h.wP
    · exact hl
    · intro j hj
      have := (h.w9 j hj).1
      rw [hk] at this
      exact (Option.some.inj this).symm
    · exact hgd
    · exact h.w6

theorem canNext_last (s : S) (h : canNext s = true) : s.outs.getLast? ≠ some (.fut none) := by
  intro hl
  simp [canNext, hl] at h

theorem no_pending_of_canNext (s : S) (h : InvI s) (hc : canNext s = true) (j : Nat) :
    s.outs[j]? ≠ some (.fut none) := by
  intro hj
  have h2 := (h.w9 j hj).2
  apply canNext_last s hc
  rw [List.getLast?_eq_getElem?, ← h2]
  simpa using hj

theorem next_done_eq (s : S) (h : isDone s = true) : next s = { s with curIdx := none } := by
  simp [next, h]

theorem next_blocked_eq (s : S) (h : isDone s = false) (hc : canNext s = false) : next s = s := by
  simp [next, h, hc]

theorem next_wait_eq (s : S) (h : isDone s = false) (hc : canNext s = true) (hf : s.finished = []) :
    next s = { s with outs := s.outs ++ [NextOut.fut none], running := some s.outs.length } := by
  simp [next, h, hc, hf]

theorem next_pop_eq (s : S) (f i : Nat) (rest : List Nat) (h : isDone s = false) (hc : canNext s = true)
    (hf : s.finished = f :: rest) (hl : lookup s.unfinished f = some i) :
    next s = ret f s.outs.length i
      { s with outs := s.outs ++ [NextOut.fut none], running := some s.outs.length, finished := rest } := by
  have := rr_spec f s.outs.length i
    { s with outs := s.outs ++ [NextOut.fut none], running := some s.outs.length, finished := rest } rfl (by simp) hl
  simp only [next, h, hc, hf, if_true, Bool.false_eq_true, if_false, this]

/-- the index `next()` hands out for the head of `_finished` -/
theorem finished_lookup (s : S) (hs : InvS [] s) (h : InvI s) (f : Nat) (rest : List Nat)
    (hf : s.finished = f :: rest) : ∃ i, lookup s.unfinished f = some i := by
  apply lookup_of_count s h.wP f
  have h1 := hs.w f
  have h2 : s.compl.count f = (s.yielded.map (·.1)).count f + (f :: rest).count f := by
    rw [h.w1, hf, List.count_append]
  simp only [List.count_cons_self] at h2
  omega

theorem inv_next (s : S) (hs : InvS [] s) (h : InvI s) : InvS [] (next s) ∧ InvI (next s) := by
  cases hdone : isDone s with
  | true =>
    rw [next_done_eq s hdone]
    exact ⟨invS_of_eq _ s _ hs rfl rfl rfl rfl rfl,
      ⟨h.w1, h.wU, h.wY, h.wP, h.w5, h.w6, h.w8, h.w9⟩⟩
  | false =>
    cases hc : canNext s with
    | false => rw [next_blocked_eq s hdone hc]; exact ⟨hs, h⟩
    | true =>
      have hnp := no_pending_of_canNext s h hc
      have hidx : ∀ j, (s.outs ++ [NextOut.fut none])[j]? = some (.fut none) → j = s.outs.length := by
        intro j hj
        by_cases hlt : j < s.outs.length
        · rw [List.getElem?_append_left hlt] at hj
          exact absurd hj (hnp j)
        · by_cases hjk : j = s.outs.length
          · exact hjk
          · rw [List.getElem?_eq_none (by simp; omega)] at hj; cases hj
      cases hf : s.finished with
      | nil =>
        rw [next_wait_eq s hdone hc hf]
        refine ⟨invS_of_eq _ s _ hs rfl rfl rfl rfl rfl, ?_⟩
        constructor
        · exact h.w1
        · exact h.wU
        · exact h.wY
        · exact h.wP
        · intro _; exact hf
        · refine ⟨h.w6.1, ?_⟩
          simp only [List.mem_append, List.mem_singleton, not_or]
          exact ⟨h.w6.2, by simp⟩
        · intro _ hu
          simp [isDone, hf] at hdone
          exact hdone hu
        · intro j hj
          have := hidx j hj
          subst this
          exact ⟨rfl, by simp⟩
      | cons f rest =>
        have hfc : f ∈ s.compl := by rw [h.w1, hf]; simp
        have hfd := hs.cd f hfc
        obtain ⟨i, hl⟩ := finished_lookup s hs h f rest hf
        rw [next_pop_eq s f i rest hdone hc hf hl]
        refine ⟨invS_of_eq _ s _ hs rfl rfl rfl rfl rfl, ?_⟩
        apply invI_ret
        · simp [h.w1, hf]
        · exact h.wU
        · exact h.wY
        · exact h.wP
        · exact hl
        · exact hidx
        · exact hfd
        · refine ⟨h.w6.1, ?_⟩
          simp only [List.mem_append, List.mem_singleton, not_or]
          exact ⟨h.w6.2, by simp⟩

/-! ### all steps -/

/-- reachability invariant of the WaitIterator machine constructed over `args` -/
structure Inv (args : List Nat) (q : List Nat) (s : S) : Prop where
  sched : InvS q s
  iter : InvI s
  hargs : s.args = args

theorem invI_of_eq (s s' : S) (h : InvI s) (h1 : s'.args = s.args) (h2 : s'.compl = s.compl)
    (h3 : s'.yielded = s.yielded) (h4 : s'.finished = s.finished) (h5 : s'.unfinished = s.unfinished)
    (h6 : s'.running = s.running) (h7 : s'.outs = s.outs) (h8 : s'.cbErrs = s.cbErrs) : InvI s' := by
  have hrp : runningPending s' = runningPending s := by simp only [runningPending, h6, h7]
  constructor
  · rw [h2, h3, h4]; exact h.w1
  · rw [h1, h3, h5]; exact h.wU
  · rw [h1, h3]; exact h.wY
  · rw [h1, h3, h5]; exact h.wP
  · rw [hrp, h4]; exact h.w5
  · rw [h7, h8]; exact h.w6
  · rw [hrp, h5]; exact h.w8
  · rw [h6, h7]; exact h.w9

theorem settle_eq (f : Nat) (o : Outcome) (s : S) :
    (settle f o s).args = s.args ∧ (settle f o s).compl = s.compl ∧ (settle f o s).yielded = s.yielded ∧
    (settle f o s).finished = s.finished ∧ (settle f o s).unfinished = s.unfinished ∧
    (settle f o s).running = s.running ∧ (settle f o s).outs = s.outs ∧ (settle f o s).cbErrs = s.cbErrs := by
  simp only [settle]
  split
  · split <;> simp
  · simp

theorem inv_settle (args : List Nat) (s : S) (f : Nat) (o : Outcome) (h : Inv args [] s) : Inv args [] (settle f o s) := by
  obtain ⟨e1, e2, e3, e4, e5, e6, e7, e8⟩ := settle_eq f o s
  exact ⟨invS_settle [] s f o h.sched, invI_of_eq s _ h.iter e1 e2 e3 e4 e5 e6 e7 e8, by rw [e1]; exact h.hargs⟩

/-- a callback in the ready queue belongs to a position that has not completed yet -/
theorem count_lt_of_ready (q : List Nat) (s : S) (g : Nat) (h : InvS q s) (hg : g ∈ cbs s.ready) :
    s.compl.count g < s.args.count g := by
  have h1 := h.w g
  have h2 : 0 < (cbs s.ready).count g := List.count_pos_iff.2 hg
  omega

theorem inv_exec (args : List Nat) (t : Tok) (r : List Tok) (s : S) (h : Inv args [] s) (hr : s.ready = t :: r) :
    Inv args [] (exec t { s with ready := r }) := by
  cases t with
  | cb g =>
    have hcb : cbs s.ready = g :: cbs r := by rw [hr]; rfl
    have hgm : g ∈ cbs s.ready := by rw [hcb]; simp
    have hg := h.sched.rd g hgm
    have hgc := count_lt_of_ready [] s g h.sched hgm
    refine ⟨invS_doneCallback [] s g r h.sched hcb, ?_, ?_⟩
    · exact invI_doneCallback { s with ready := r } g
        (invI_of_eq s _ h.iter rfl rfl rfl rfl rfl rfl rfl rfl) hgc hg
    · show (doneCallback g { s with ready := r }).args = args
      rw [dc_args]; exact h.hargs
  | env f o =>
    have hcb : cbs r = cbs s.ready := by rw [hr]; rfl
    exact inv_settle args _ f o
      ⟨invS_of_eq _ s _ h.sched rfl rfl rfl rfl hcb, invI_of_eq s _ h.iter rfl rfl rfl rfl rfl rfl rfl rfl, h.hargs⟩

theorem inv_tickN (args : List Nat) (n : Nat) (s : S) (h : Inv args [] s) : Inv args [] (tickN n s) := by
  induction n generalizing s with
  | zero => exact h
  | succ n ih =>
    unfold tickN
    split
    · exact h
    · rename_i t r hr
      exact ih _ (inv_exec args t r s h hr)

theorem next_args (s : S) : (next s).args = s.args := by
  simp only [next]
  split
  · rfl
  · split
    · split
      · split <;> simp [rr_args]
      · rfl
    · rfl

theorem inv_step (args : List Nat) (s : S) (op : Op) (h : Inv args [] s) : Inv args [] (step s op) := by
  cases op with
  | set f o => exact inv_settle args s f o h
  | soon f o =>
    have hcb : cbs (s.ready ++ [Tok.env f o]) = cbs s.ready := by simp [cbs_append, cbs]
    exact ⟨invS_of_eq _ s _ h.sched rfl rfl rfl rfl hcb,
      invI_of_eq s _ h.iter rfl rfl rfl rfl rfl rfl rfl rfl, h.hargs⟩
  | tick => exact inv_tickN args _ s h
  | next =>
    have := inv_next s h.sched h.iter
    exact ⟨this.1, this.2, by show (next s).args = args; rw [next_args s]; exact h.hargs⟩

theorem inv_run (args : List Nat) (ops : List Op) (s : S) (h : Inv args [] s) : Inv args [] (run s ops) := by
  induction ops generalizing s with
  | nil => exact h
  | cons op ops ih => exact ih _ (inv_step args s op h)

/-! ### the constructor -/

theorem inv_register (args q : List Nat) (g : Nat) (s : S) (h : Inv args (g :: q) s) :
    Inv args q (register s g) := by
  refine ⟨invS_register q g s h.sched, ?_, ?_⟩
  · simp only [register]
    split
    · rename_i o hdone
      have h1 := h.sched.w g
      simp only [List.count_cons_self] at h1
      exact invI_doneCallback s g h.iter (by omega) (by simp [hdone])
    · exact invI_of_eq s _ h.iter rfl rfl rfl rfl rfl rfl rfl rfl
  · simp only [register]
    split
    · rw [dc_args]; exact h.hargs
    · exact h.hargs

theorem inv_foldl_register (args q : List Nat) (s : S) (h : Inv args q s) :
    Inv args [] (q.foldl register s) := by
  induction q generalizing s with
  | nil => exact h
  | cons g q ih => exact ih _ (inv_register args q g s h)

theorem inv_init0 (st : List FState) (args : List Nat) :
    Inv args args { st := st, args := args, listening := [], unfinished := enum args 0, finished := [],
                    running := none, outs := [], yielded := [], curIdx := none, cbErrs := 0, compl := [], ready := [] } := by
  refine ⟨?_, ?_, rfl⟩
  · constructor
    · intro f; simp [pend, cbs]
    · intro g hg; cases hg
    · intro f hf; cases hf
  · constructor
    · rfl
    · rfl
    · intro oc; simp [Spec.waitYields, Spec.waitYieldsFrom]
    · simp
    · intro hh; rfl
    · exact ⟨rfl, by simp⟩
    · intro hh; simp [runningPending] at hh
    · intro j hj; simp at hj

theorem inv_init (st : List FState) (args : List Nat) : Inv args [] (init st args) := by
  simp only [init]
  exact inv_foldl_register args args _ (inv_init0 st args)

theorem reach (st : List FState) (args : List Nat) (ops : List Op) :
    Inv args [] (run (init st args) ops) := inv_run args ops _ (inv_init st args)

/-! ### consequences: nothing is left pending, every position is yielded -/

/-- all arguments done, loop idle, nothing queued in `_finished`: then nothing is left in `_unfinished` -/
theorem stuck_false (s : S) (hs : InvS [] s) (h : InvI s) (hd : ∀ f ∈ s.args, get s.st f ≠ none)
    (hr : s.ready = []) (hf : s.finished = []) (hu : s.unfinished ≠ []) : False := by
  obtain ⟨p, hp⟩ := List.exists_mem_of_ne_nil _ hu
  have h1 := (h.wP.map (·.1)).count_eq p.1
  rw [enum_map_fst, List.map_append, List.count_append] at h1
  have h2 : 0 < (s.unfinished.map (·.1)).count p.1 := List.count_pos_iff.2 (List.mem_map_of_mem hp)
  have hpa : p.1 ∈ s.args := List.count_pos_iff.1 (by omega)
  have h3 := hs.w p.1
  have h4 : s.compl = s.yielded.map (·.1) := by rw [h.w1, hf, List.append_nil]
  have h5 : pend s p.1 = 0 := by
    simp only [pend]
    rw [if_neg (hd _ hpa)]
  rw [hr, h4, h5] at h3
  simp [cbs] at h3
  omega

theorem never_pending_aux (s : S) (hs : InvS [] s) (h : InvI s) (hd : ∀ f ∈ s.args, get s.st f ≠ none)
    (hr : s.ready = []) : s.outs.getLast? ≠ some (.fut none) := by
  intro hl
  have hj : s.outs[s.outs.length - 1]? = some (.fut none) := by rw [← List.getLast?_eq_getElem?]; exact hl
  obtain ⟨hrun, _⟩ := h.w9 _ hj
  have hrp := (rp_iff s).2 ⟨_, hrun, hj⟩
  exact stuck_false s hs h hd hr (h.w5 hrp) (h.w8 hrp)

/-- when the iterator is `done()`, the yielded (future, index) pairs are the argument positions, each once -/
theorem complete_aux (s : S) (h : InvI s) (hdone : isDone s = true) : s.yielded.Perm (enum s.args 0) := by
  have hu : s.unfinished = [] := by
    simp only [isDone, Bool.and_eq_true, List.isEmpty_iff] at hdone
    exact hdone.2
  have := h.wP
  rw [hu, List.nil_append] at this
  exact this

/-- every yield carries an index at which the yielded future was passed, and no index is yielded twice -/
theorem yielded_positions (s : S) (h : InvI s) :
    (∀ p ∈ s.yielded, s.args[p.2]? = some p.1) ∧ (s.yielded.map (·.2)).Nodup := by
  constructor
  · intro p hp
    have hm : p ∈ enum s.args 0 := h.wP.subset (List.mem_append_right _ hp)
    have := (enum_spec s.args 0 p hm).2
    simpa using this
  · have h1 : ((s.unfinished ++ s.yielded).map (·.2)).Nodup := by
      rw [(h.wP.map (·.2)).nodup_iff, enum_map_snd]
      exact List.nodup_range'
    rw [List.map_append] at h1
    exact (List.nodup_append.1 h1).2.1

theorem next_yields_aux (s : S) (hs : InvS [] s) (h : InvI s) (hd : ∀ f ∈ s.args, get s.st f ≠ none)
    (hr : s.ready = []) (hdone : isDone s = false) :
    ∃ f i rest, s.finished = f :: rest ∧ get s.st f ≠ none ∧ s.args[i]? = some f ∧ i ∉ s.yielded.map (·.2) ∧
      (next s).yielded = s.yielded ++ [(f, i)] ∧ (next s).outs = s.outs ++ [.fut (get s.st f)] ∧
      (next s).finished = rest := by
  have hlast := never_pending_aux s hs h hd hr
  have hc : canNext s = true := by
    unfold canNext
    rw [hdone]
    generalize s.outs.getLast? = l at hlast
    match l, hlast with
    | some (.fut none), hlast => exact absurd rfl hlast
    | some (.fut (some _)), _ => rfl
    | some .keyError, _ => rfl
    | none, _ => rfl
  cases hf : s.finished with
  | nil =>
    exfalso
    refine stuck_false s hs h hd hr hf ?_
    intro hu
    simp [isDone, hf, hu] at hdone
  | cons f rest =>
    have hfc : f ∈ s.compl := by rw [h.w1, hf]; simp
    have hfd := hs.cd f hfc
    obtain ⟨i, hl⟩ := finished_lookup s hs h f rest hf
    have hmem : (f, i) ∈ s.unfinished := mem_of_lookup _ _ _ hl
    have hm : (f, i) ∈ enum s.args 0 := h.wP.subset (List.mem_append_left _ hmem)
    have hidx : s.args[i]? = some f := by simpa using (enum_spec s.args 0 (f, i) hm).2
    have hnd : ((s.unfinished ++ s.yielded).map (·.2)).Nodup := by
      rw [(h.wP.map (·.2)).nodup_iff, enum_map_snd]
      exact List.nodup_range'
    rw [List.map_append] at hnd
    have hny : i ∉ s.yielded.map (·.2) := by
      intro hy
      exact (List.nodup_append.1 hnd).2.2 i (List.mem_map_of_mem (f := (·.2)) hmem) i hy rfl
    refine ⟨f, i, rest, rfl, hfd, hidx, hny, ?_, ?_, ?_⟩
    · rw [next_pop_eq s f i rest hdone hc hf hl]; rfl
    · rw [next_pop_eq s f i rest hdone hc hf hl]
      simp [ret]
    · rw [next_pop_eq s f i rest hdone hc hf hl]; rfl

end Wait
end TornadoModel.C36
