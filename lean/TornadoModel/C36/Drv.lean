/- C36 driver.
   `C36 chain <pa> <pb> [op,…]`, `C36 multi [st…] [children…] [op,…]`, `C36 wait [st…] [args…] [op,…]`,
   `C36 timeout <pa> [op,…]`, `C36 chain-cf …` / `C36 timeout-cf …` (concurrent.futures source) (Model) and `C36 spec-chain|spec-multi|spec-wait|spec-timeout …` (Spec).
   Outcomes: `[r,v]` result, `[e,code]` exception, `c` cancelled; `p` pending. -/
import TornadoModel.Base.Wire
import TornadoModel.C36.Spec
namespace TornadoModel.C36.Drv
open TornadoModel TornadoModel.Wire TornadoModel.C36

def decOutcome : V → Option Outcome
  | .list [.atom "r", v] => v.nat?.map Outcome.result
  | .list [.atom "e", v] => v.nat?.map Outcome.exc
  | .atom "c" => some .cancelled
  | _ => none

def decF : V → Option FState
  | .atom "p" => some none
  | v => (decOutcome v).map some

def encOutcome : Outcome → V
  | .result v => .list [.atom "r", .int v]
  | .exc e => .list [.atom "e", .int e]
  | .cancelled => .atom "c"

def encF : FState → V
  | none => .atom "p"
  | some o => encOutcome o

def encOptNat : Option Nat → V
  | none => .none
  | some n => .int n

def decChainOp : V → Option Chain.Op
  | .list [.atom "setA", o] => (decOutcome o).map .setA
  | .list [.atom "setB", o] => (decOutcome o).map .setB
  | .list [.atom "soonA", o] => (decOutcome o).map .soonA
  | .list [.atom "soonB", o] => (decOutcome o).map .soonB
  | .list [.atom "tick"] => some .tick
  | _ => none

def decMultiOp : V → Option Multi.Op
  | .list [.atom "set", f, o] => do pure (.set (← f.nat?) (← decOutcome o))
  | .list [.atom "soon", f, o] => do pure (.soon (← f.nat?) (← decOutcome o))
  | .list [.atom "tick"] => some .tick
  | _ => none

def decWaitOp : V → Option Wait.Op
  | .list [.atom "set", f, o] => do pure (.set (← f.nat?) (← decOutcome o))
  | .list [.atom "soon", f, o] => do pure (.soon (← f.nat?) (← decOutcome o))
  | .list [.atom "tick"] => some .tick
  | .list [.atom "next"] => some .next
  | _ => none

def decTimeoutOp : V → Option Timeout.Op
  | .list [.atom "setA", o] => (decOutcome o).map .setA
  | .list [.atom "soonA", o] => (decOutcome o).map .soonA
  | .list [.atom "tick"] => some .tick
  | .list [.atom "fire"] => some .fire
  | _ => none

def encMOut : Option Multi.MOut → V
  | none => .atom "p"
  | some (.vals vs) => .list [.atom "v", .list (vs.map V.ofNat)]
  | some (.exc e) => .list [.atom "e", .int e]

def encNextOut : Wait.NextOut → V
  | .fut s => encF s
  | .keyError => .atom "KeyError"

def encTimer : Timeout.Timer → V
  | .armed => .atom "armed"
  | .cancelled => .atom "cancelled"
  | .fired => .atom "fired"

def decList {α} (f : V → Option α) (v : V) : Option (List α) := v.list? >>= (·.mapM f)

def handle (toks : List String) : String :=
  match toks.head?, parseArgs toks.tail with
  | some cmd, some args =>
    match cmd, args with
    | "chain", [pa, pb, ops] =>
      match decF pa, decF pb, decList decChainOp ops with
      | some a, some b, some ops =>
        ok [.list ((Chain.trace (Chain.init a b) ops).map (fun (x, y) => .list [encF x, encF y]))]
      | _, _, _ => err "bad-arg"
    | "chain-cf", [pa, pb, ops] =>
      match decF pa, decF pb, decList decChainOp ops with
      | some a, some b, some ops =>
        ok [.list ((Chain.trace (Chain.initCF a b) ops).map (fun (x, y) => .list [encF x, encF y]))]
      | _, _, _ => err "bad-arg"
    | "timeout-cf", [pa, ops] =>
      match decF pa, decList decTimeoutOp ops with
      | some a, some ops =>
        ok [.list ((Timeout.trace (Timeout.initCF a) ops).map
              (fun (x, r, t, l) => .list [encF x, encF r, encTimer t, .int l]))]
      | _, _ => err "bad-arg"
    | "multi", [st, ch, ops] =>
      match decList decF st, decList V.nat? ch, decList decMultiOp ops with
      | some st, some ch, some ops =>
        ok [.list ((Multi.trace (Multi.init st ch) ops).map (fun (o, l) => .list [encMOut o, .int l]))]
      | _, _, _ => err "bad-arg"
    | "wait", [st, as, ops] =>
      match decList decF st, decList V.nat? as, decList decWaitOp ops with
      | some st, some as, some ops =>
        let s0 := Wait.init st as
        let fin := Wait.run s0 ops
        ok [.list ((Wait.trace s0 ops).map (fun (o, c, e) => .list [.list (o.map encNextOut), encOptNat c, .int e])),
            .list (fin.yielded.map (fun (f, i) => .list [.int f, .int i])),
            .list (fin.compl.map V.ofNat),
            V.ofBool (Wait.isDone fin)]
      | _, _, _ => err "bad-arg"
    | "timeout", [pa, ops] =>
      match decF pa, decList decTimeoutOp ops with
      | some a, some ops =>
        ok [.list ((Timeout.trace (Timeout.init a) ops).map
              (fun (x, r, t, l) => .list [encF x, encF r, encTimer t, .int l]))]
      | _, _ => err "bad-arg"
    | "spec-chain", [o] =>
      match decOutcome o with
      | some o => ok [encOutcome (Spec.chain o)]
      | none => err "bad-arg"
    | "spec-multi", [os] =>
      match decList decOutcome os with
      | some os => ok [encMOut (some (Spec.multi os))]
      | none => err "bad-arg"
    | "spec-wait", [as, order, st] =>
      match decList V.nat? as, decList V.nat? order, decList decF st with
      | some as, some order, some st =>
        ok [.list ((Spec.waitYields as order (get st)).map (fun (i, o) => .list [encOptNat i, encF o]))]
      | _, _, _ => err "bad-arg"
    | "spec-timeout", [d, a] =>
      let dl : Option (Option FState) := match d with
        | .none => some none
        | v => (decF v).map some
      match dl, decF a with
      | some dl, some a => ok [encF (Spec.timeout dl a)]
      | _, _ => err "bad-arg"
    | _, _ => err "bad-cmd"
  | _, _ => err "bad-line"

end TornadoModel.C36.Drv
