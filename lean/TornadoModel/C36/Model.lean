/-
C36 — future combinators (tornado.gen.multi_future / WaitIterator / with_timeout, tornado.concurrent.chain_future)
over an abstraction of asyncio futures and the event loop (core Lean only).

Abstraction (trusted, exercised on every run by the tie against real asyncio futures on core/vloop.py):
* a future is `FState = Option Outcome` (`none` = pending); a settled future never changes;
* `Future.add_done_callback` on a pending future registers the callback; settling the future appends its
  callbacks, in registration order, to the loop's ready FIFO (`call_soon`); they run on a *later* iteration;
* tornado's `future_add_done_callback` runs the callback inline when the future is already done;
* one loop iteration (`tick`) runs exactly the callbacks that were in the ready queue when it started
  (`ntodo = len(_ready)`); callbacks scheduled meanwhile wait for the next iteration;
* a due timer is moved to the END of the ready queue at the start of the iteration (`fire`); a cancelled timer
  handle is skipped when its turn comes.

Each combinator is one small machine: `init` = the constructor call (inputs may already be done), `step` one
environment operation (`set` = settle an input from outside the loop, `soon` = `call_soon(settle)`, `tick`,
`fire`, `next`), `run` a whole schedule.  The code modelled is the code AFTER the `fix:` commits for defect D2
(cancelled inputs): `chain_future.copy` cancels `b` when `a` is cancelled, `multi_future` treats a cancelled
child as failed with `CancelledError` — and for duplicate `WaitIterator` arguments: `_unfinished` keeps, per
future, the queue of indices it was passed at, and `_return_result` hands out one of them per completion.
-/
namespace TornadoModel.C36

inductive Outcome where
  | result (v : Nat)
  | exc (e : Nat)
  | cancelled
  deriving DecidableEq, Repr

/-- `none` = pending -/
abbrev FState := Option Outcome

/-- exception codes: 0 `CancelledError` (as an exception value), 1 `TimeoutError`, 2 `InvalidStateError`;
    the harness uses codes ≥ 3 for the exceptions it sets on inputs. -/
def cancelledErr : Nat := 0
def timeoutErr : Nat := 1
def invalidState : Nat := 2

/-- state of input future `f` (a future outside the table stays pending for ever) -/
def get (st : List FState) (f : Nat) : FState := (st[f]?).join

/-! ## chain_future(a, b) -/
namespace Chain

inductive Tok where
  | copy
  | envA (o : Outcome)
  | envB (o : Outcome)
  deriving DecidableEq, Repr

inductive Op where
  | setA (o : Outcome) | setB (o : Outcome) | soonA (o : Outcome) | soonB (o : Outcome) | tick
  deriving DecidableEq, Repr

structure S where
  a : FState
  b : FState
  reg : Bool            -- `copy` registered on `a`, not yet scheduled
  ready : List Tok
  bEnv : Bool           -- ghost: `b` was settled by somebody other than the chain
  deriving DecidableEq, Repr

/-- `copy(a)`: `if b.done(): return`; `if a.cancelled(): b.cancel()`; else copy exception / result -/
def copy (s : S) : S :=
  match s.b with
  | some _ => s
  | none => { s with b := s.a }

def settleA (o : Outcome) (s : S) : S :=
  match s.a with
  | some _ => s
  | none => { s with a := some o, reg := false, ready := if s.reg then s.ready ++ [Tok.copy] else s.ready }

def settleB (o : Outcome) (s : S) : S :=
  match s.b with
  | some _ => s
  | none => { s with b := some o, bEnv := true }

def exec : Tok → S → S
  | .copy, s => copy s
  | .envA o, s => settleA o s
  | .envB o, s => settleB o s

/-- run the first `n` ready callbacks -/
def tickN : Nat → S → S
  | 0, s => s
  | n + 1, s =>
    match s.ready with
    | [] => s
    | t :: r => tickN n (exec t { s with ready := r })

def tick (s : S) : S := tickN s.ready.length s

/-- `chain_future(a, b)` with `a`, `b` in the given states -/
def init (pa pb : FState) : S :=
  let s : S := { a := pa, b := pb, reg := false, ready := [], bEnv := pb.isSome }
  match pa with
  | some _ => copy s
  | none => { s with reg := true }

/-- `chain_future(a, b)` with `a` a `concurrent.futures.Future`: `IOLoop.add_future(a, copy)` registers
    `lambda f: add_callback(copy, f)`; a concurrent future runs its done-callbacks synchronously when it settles
    (or at once when it is already done), so `copy` joins the ready queue at the moment `a` settles — as for an
    asyncio future — but an already-done source does NOT run `copy` inline: the state is the one reached by
    chaining a pending source and settling it at once. -/
def initCF (pa pb : FState) : S :=
  match pa with
  | some o => settleA o (init none pb)
  | none => init none pb

def step (s : S) : Op → S
  | .setA o => settleA o s
  | .setB o => settleB o s
  | .soonA o => { s with ready := s.ready ++ [Tok.envA o] }
  | .soonB o => { s with ready := s.ready ++ [Tok.envB o] }
  | .tick => tick s

def run (s : S) : List Op → S
  | [] => s
  | op :: ops => run (step s op) ops

/-- states after `init` and after every op -/
def trace (s : S) : List Op → List (FState × FState)
  | [] => [(s.a, s.b)]
  | op :: ops => (s.a, s.b) :: trace (step s op) ops

end Chain

/-! ## multi_future(children) -/
namespace Multi

inductive MOut where
  | vals (vs : List Nat)
  | exc (e : Nat)
  deriving DecidableEq, Repr

inductive Tok where
  | cb (f : Nat)
  | env (f : Nat) (o : Outcome)
  deriving DecidableEq, Repr

inductive Op where
  | set (f : Nat) (o : Outcome) | soon (f : Nat) (o : Outcome) | tick
  deriving DecidableEq, Repr

structure S where
  st : List FState          -- the distinct input futures
  children : List Nat       -- `children_futs` (indices into `st`, duplicates allowed)
  listening : List Nat      -- futures on which `callback` was registered (pending at construction)
  unfinished : List Nat     -- `unfinished_children` (a set)
  out : Option MOut         -- the future returned by `multi`
  logs : Nat                -- "Multiple exceptions in yield list" log records
  ready : List Tok
  deriving DecidableEq, Repr

/-- one round of `for f in children_futs: try: result_list.append(f.result()) except …` -/
def foldChild (st : List FState) (acc : Option MOut × List Nat × Nat) (f : Nat) : Option MOut × List Nat × Nat :=
  let (out, vs, logs) := acc
  match get st f with
  | some (.result v) => (out, vs ++ [v], logs)
  | some (.exc e) =>
    match out with
    | some _ => (out, vs, logs + 1)
    | none => (some (.exc e), vs, logs)
  | some .cancelled =>
    match out with
    | some _ => (out, vs, logs)          -- CancelledError is always quiet
    | none => (some (.exc cancelledErr), vs, logs)
  | none =>                               -- unreachable: `f.result()` on a pending future raises InvalidStateError
    match out with
    | some _ => (out, vs, logs + 1)
    | none => (some (.exc invalidState), vs, logs)

def finish (s : S) : S :=
  let r := s.children.foldl (foldChild s.st) (s.out, [], s.logs)
  { s with out := (match r.1 with | some o => some o | none => some (.vals r.2.1)), logs := r.2.2 }

/-- `callback(fut)` -/
def callback (f : Nat) (s : S) : S :=
  let s := { s with unfinished := s.unfinished.erase f }
  if s.unfinished.isEmpty then finish s else s

def settle (f : Nat) (o : Outcome) (s : S) : S :=
  if f < s.st.length then
    match get s.st f with
    | some _ => s
    | none => { s with st := s.st.set f (some o),
                       ready := s.ready ++ (s.listening.filter (· == f)).map Tok.cb }
  else s

def exec : Tok → S → S
  | .cb f, s => callback f s
  | .env f o, s => settle f o s

def tickN : Nat → S → S
  | 0, s => s
  | n + 1, s =>
    match s.ready with
    | [] => s
    | t :: r => tickN n (exec t { s with ready := r })

def tick (s : S) : S := tickN s.ready.length s

/-- the `for f in children_futs: if f not in listening: …; future_add_done_callback(f, callback)` loop -/
def register (s : S) (f : Nat) : S :=
  match get s.st f with
  | some _ => callback f s
  | none => { s with listening := s.listening ++ [f] }

def init (st : List FState) (children : List Nat) : S :=
  let d := children.eraseDups
  let s0 : S := { st := st, children := children, listening := [], unfinished := d,
                  out := if children.isEmpty then some (.vals []) else none, logs := 0, ready := [] }
  d.foldl register s0

def step (s : S) : Op → S
  | .set f o => settle f o s
  | .soon f o => { s with ready := s.ready ++ [Tok.env f o] }
  | .tick => tick s

def run (s : S) : List Op → S
  | [] => s
  | op :: ops => run (step s op) ops

def trace (s : S) : List Op → List (Option MOut × Nat)
  | [] => [(s.out, s.logs)]
  | op :: ops => (s.out, s.logs) :: trace (step s op) ops

end Multi

/-! ## WaitIterator(*args) -/
namespace Wait

inductive Tok where
  | cb (f : Nat)
  | env (f : Nat) (o : Outcome)
  deriving DecidableEq, Repr

inductive Op where
  | set (f : Nat) (o : Outcome) | soon (f : Nat) (o : Outcome) | tick | next
  deriving DecidableEq, Repr

/-- what a call of `next()` gave: a future, or the call raised `KeyError` -/
inductive NextOut where
  | fut (s : FState)
  | keyError
  deriving DecidableEq, Repr

structure S where
  st : List FState
  args : List Nat                -- the constructor arguments (indices into `st`, duplicates allowed)
  listening : List Nat           -- one entry per registered `_done_callback` (duplicates kept)
  unfinished : List (Nat × Nat)  -- `_unfinished` : one (future, index) entry per argument position, in argument
                                 -- order (the dict future ↦ deque of the indices it was passed at, flattened)
  finished : List Nat            -- `_finished` deque
  running : Option Nat           -- `_running_future`, as an index into `outs`
  outs : List NextOut            -- what the successive `next()` calls returned
  yielded : List (Nat × Nat)     -- (`current_future`, `current_index`) after each successful `_return_result`
  curIdx : Option Nat            -- `current_index`
  cbErrs : Nat                   -- `KeyError`s raised inside loop callbacks
  compl : List Nat               -- ghost: the order in which `_done_callback` calls were issued (completion order)
  ready : List Tok
  deriving DecidableEq, Repr

/-- `_unfinished[f][0]`: the first index not yet handed out under which `f` was passed -/
def lookup (m : List (Nat × Nat)) (f : Nat) : Option Nat := (m.find? (·.1 == f)).map (·.2)

/-- `_unfinished[f].popleft()` (the dict entry disappears with its last index): drop the first entry of `f` -/
def eraseKey : List (Nat × Nat) → Nat → List (Nat × Nat)
  | [], _ => []
  | p :: m, f => if p.1 = f then m else p :: eraseKey m f

/-- `for i, f in enumerate(args): _unfinished.setdefault(f, deque()).append(i)` (counting from `i`): every
    argument position keeps its own index, also when the same future is passed more than once -/
def enum : List Nat → Nat → List (Nat × Nat)
  | [], _ => []
  | f :: fs, i => (f, i) :: enum fs (i + 1)

def setOut (outs : List NextOut) (k : Nat) (v : FState) : List NextOut :=
  match outs[k]? with
  | some (.fut none) => outs.set k (.fut v)      -- `copy`: `if b.done(): return`
  | _ => outs

/-- `_return_result(done)`; the Bool says whether `_unfinished[done]` raised `KeyError` (a future that has no
    index left — unreachable, see `waititer_full`) -/
def returnResult (f : Nat) (s : S) : S × Bool :=
  match s.running with
  | none => (s, false)                            -- unreachable ("no future is running")
  | some k =>
    let s := { s with outs := setOut s.outs k (get s.st f), running := none }
    match lookup s.unfinished f with
    | some i => ({ s with unfinished := eraseKey s.unfinished f, yielded := s.yielded ++ [(f, i)],
                          curIdx := some i }, false)
    | none => (s, true)

def runningPending (s : S) : Bool :=
  match s.running with
  | some k => (match s.outs[k]? with | some (.fut none) => true | _ => false)
  | none => false

/-- `_done_callback(done)` -/
def doneCallback (f : Nat) (s : S) : S :=
  let s := { s with compl := s.compl ++ [f] }
  if runningPending s then
    let (s', ke) := returnResult f s
    if ke then { s' with cbErrs := s'.cbErrs + 1 } else s'
  else { s with finished := s.finished ++ [f] }

def settle (f : Nat) (o : Outcome) (s : S) : S :=
  if f < s.st.length then
    match get s.st f with
    | some _ => s
    | none => { s with st := s.st.set f (some o),
                       ready := s.ready ++ (s.listening.filter (· == f)).map Tok.cb }
  else s

def exec : Tok → S → S
  | .cb f, s => doneCallback f s
  | .env f o, s => settle f o s

def tickN : Nat → S → S
  | 0, s => s
  | n + 1, s =>
    match s.ready with
    | [] => s
    | t :: r => tickN n (exec t { s with ready := r })

def tick (s : S) : S := tickN s.ready.length s

def register (s : S) (f : Nat) : S :=
  match get s.st f with
  | some _ => doneCallback f s
  | none => { s with listening := s.listening ++ [f] }

def init (st : List FState) (args : List Nat) : S :=
  let s0 : S := { st := st, args := args, listening := [], unfinished := enum args 0, finished := [],
                  running := none, outs := [], yielded := [], curIdx := none, cbErrs := 0, compl := [], ready := [] }
  args.foldl register s0

/-- `done()` -/
def isDone (s : S) : Bool := s.finished.isEmpty && s.unfinished.isEmpty

/-- the consumer protocol `while not wi.done(): r = yield wi.next()`: `next` is only called when the iterator
    is not done and the future returned by the previous call has resolved -/
def canNext (s : S) : Bool :=
  !isDone s && (match s.outs.getLast? with | some (.fut none) => false | _ => true)

/-- `if not wi.done(): wi.next()` (only once the previous future has resolved); `done()` clears `current_index`
    when the iteration is over -/
def next (s : S) : S :=
  if isDone s then { s with curIdx := none }
  else if canNext s then
    let k := s.outs.length
    let s := { s with outs := s.outs ++ [NextOut.fut none], running := some k }
    match s.finished with
    | f :: rest =>
      let (s', ke) := returnResult f { s with finished := rest }
      if ke then { s' with outs := s'.outs.set k NextOut.keyError } else s'
    | [] => s
  else s

def step (s : S) : Op → S
  | .set f o => settle f o s
  | .soon f o => { s with ready := s.ready ++ [Tok.env f o] }
  | .tick => tick s
  | .next => next s

def run (s : S) : List Op → S
  | [] => s
  | op :: ops => run (step s op) ops

def trace (s : S) : List Op → List (List NextOut × Option Nat × Nat)
  | [] => [(s.outs, s.curIdx, s.cbErrs)]
  | op :: ops => (s.outs, s.curIdx, s.cbErrs) :: trace (step s op) ops

end Wait

/-! ## with_timeout(deadline, a) -/
namespace Timeout

inductive Timer where
  | armed | cancelled | fired
  deriving DecidableEq, Repr

inductive Tok where
  | copy            -- chain_future's `copy`
  | rm              -- `lambda future: io_loop.remove_timeout(timeout_handle)`
  | err             -- `error_callback`
  | timer           -- the timer handle (runs `timeout_callback` unless cancelled)
  | envA (o : Outcome)
  deriving DecidableEq, Repr

inductive Op where
  | setA (o : Outcome) | soonA (o : Outcome) | tick | fire
  deriving DecidableEq, Repr

structure S where
  a : FState
  res : FState
  regs : List Tok       -- callbacks registered on `a`, in order, not yet scheduled
  timer : Timer
  logs : Nat            -- "Exception in Future … after timeout" log records
  ready : List Tok
  deriving DecidableEq, Repr

def copy (s : S) : S :=
  match s.res with
  | some _ => s
  | none => { s with res := s.a }

def rm (s : S) : S :=
  match s.timer with
  | .armed => { s with timer := .cancelled }
  | _ => s

/-- `error_callback(a)`: log unless `CancelledError` (quiet_exceptions = ()) -/
def errCb (s : S) : S :=
  match s.a with
  | some (.exc _) => { s with logs := s.logs + 1 }
  | _ => s

/-- `timeout_callback()` -/
def timeoutCallback (s : S) : S :=
  let s := match s.res with
    | some _ => s
    | none => { s with res := some (.exc timeoutErr) }
  match s.a with
  | some _ => errCb s
  | none => { s with regs := s.regs ++ [Tok.err] }

def settleA (o : Outcome) (s : S) : S :=
  match s.a with
  | some _ => s
  | none => { s with a := some o, regs := [], ready := s.ready ++ s.regs }

def exec : Tok → S → S
  | .copy, s => copy s
  | .rm, s => rm s
  | .err, s => errCb s
  | .timer, s =>
    match s.timer with
    | .armed => timeoutCallback { s with timer := .fired }
    | _ => s
  | .envA o, s => settleA o s

def tickN : Nat → S → S
  | 0, s => s
  | n + 1, s =>
    match s.ready with
    | [] => s
    | t :: r => tickN n (exec t { s with ready := r })

def tick (s : S) : S := tickN s.ready.length s

/-- the clock reaches the deadline: the handle joins the ready queue and one iteration runs -/
def fire (s : S) : S :=
  match s.timer with
  | .armed => tick { s with ready := s.ready ++ [Tok.timer] }
  | _ => tick s

def init (pa : FState) : S :=
  let s : S := { a := pa, res := none, regs := [], timer := .armed, logs := 0, ready := [] }
  match pa with
  | some _ => rm (copy s)
  | none => { s with regs := [Tok.copy, Tok.rm] }

/-- `with_timeout(deadline, a)` with `a` a `concurrent.futures.Future`: `copy` and the `remove_timeout` lambda are
    both routed through `IOLoop.add_future` (→ `add_callback` when `a` settles), so an already-done input behaves
    like a pending one settled at once (nothing runs inline).  (`logs` is not faithful for this kind: there
    `error_callback` runs synchronously at set time and also logs a cancelled concurrent future; the tie does not
    compare it.) -/
def initCF (pa : FState) : S :=
  match pa with
  | some o => settleA o (init none)
  | none => init none

def step (s : S) : Op → S
  | .setA o => settleA o s
  | .soonA o => { s with ready := s.ready ++ [Tok.envA o] }
  | .tick => tick s
  | .fire => fire s

def run (s : S) : List Op → S
  | [] => s
  | op :: ops => run (step s op) ops

def trace (s : S) : List Op → List (FState × FState × Timer × Nat)
  | [] => [(s.a, s.res, s.timer, s.logs)]
  | op :: ops => (s.a, s.res, s.timer, s.logs) :: trace (step s op) ops

end Timeout

end TornadoModel.C36
