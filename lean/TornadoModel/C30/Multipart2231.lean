/- C30 — the multipart round trip for the RFC 2231 / 5987 form (`name*=utf-8''pct`): the framing argument of
   `Multipart.lean` replayed over `Spec.disposition2231`, with `R.parseHeader_dispValue` (Header2231.lean) in the place of
   the quoted-string `_parse_header` lemma.  Names and filenames may be ANY scalar-valued text (control characters
   included): they travel percent-encoded, so the header line is plain ASCII.
   The proofs below the hand-written lemmas are those of `Multipart.lean` (same names, namespace `R`). -/
import TornadoModel.C30.Multipart
import TornadoModel.C30.Header2231
namespace TornadoModel.C30.R
open TornadoModel.C06 (Str)
open TornadoModel.C43 (ofAscii utf8Enc emailQuote)
open TornadoModel

theorem good_of_ExtC {c : Nat} (h : ExtC c) : Good c := by
  have := h.range
  refine ⟨by omega, ?_⟩
  simp only [Wire.isScalar, Bool.or_eq_true, Bool.and_eq_true, decide_eq_true_eq]
  omega

theorem allGood_ext (s : Str) (hs : s.all Wire.isScalar = true) : AllGood (ext s) :=
  fun c hc => good_of_ExtC (ext_chars s hs c hc)

theorem allGood_dispValue (name : Str) (filename : Option Str) (hn : name.all Wire.isScalar = true)
    (hf : ∀ fn, filename = some fn → fn.all Wire.isScalar = true) : AllGood (dispValue name filename) := by
  unfold dispValue
  have h1 : AllGood (ofAscii "form-data; name*=") := by decide
  have h2 : AllGood (ofAscii "; filename*=") := by decide
  refine (h1.append (allGood_ext name hn)).append ?_
  cases filename with
  | none => intro c hc; cases hc
  | some fn => exact h2.append (allGood_ext fn (hf fn rfl))

/-! ### the header block of one part -/

def line1 (p : Spec.Part) : Str := sCD ++ 58 :: 32 :: dispValue p.name p.filename

/-- the text of the header block the encoder writes -/
def headerText (p : Spec.Part) : Str :=
  line1 p ++ (match p.ctype with | some ct => 13 :: 10 :: line2 ct | none => [])

theorem disposition2231_eq (p : Spec.Part) : Spec.disposition2231 p = line1 p := by
  have h : ofAscii "Content-Disposition: form-data; name*=utf-8''" =
      sCD ++ 58 :: 32 :: (ofAscii "form-data; name*=" ++ sU8) := by decide
  have h2 : ofAscii "; filename*=utf-8''" = ofAscii "; filename*=" ++ sU8 := by decide
  unfold Spec.disposition2231 line1 dispValue ext
  rw [h, h2]
  cases p.filename <;> simp [List.append_assoc]

theorem dispositionQ_eq (p : Spec.Part) : Spec.disposition2231 p = line1 p := disposition2231_eq p

theorem contentOf_eq (p : Spec.Part) :
    Spec.contentOf Spec.disposition2231 p = utf8Enc (headerText p) ++ ([13, 10, 13, 10] ++ (p.value ++ [13, 10])) := by
  unfold Spec.contentOf headerText
  rw [dispositionQ_eq]
  cases p.ctype with
  | none => simp [crlf]
  | some ct =>
    have : (13 : Nat) :: 10 :: line2 ct = [13, 10] ++ line2 ct := rfl
    simp only [ctLine_eq, this, utf8Enc_append, utf8Enc_crlf, crlf]
    simp [List.append_assoc]

structure PartOK0 (p : Spec.Part) : Prop where
  name_ne : p.name ≠ []
  name_good : p.name.all Wire.isScalar = true
  fn_ok : ∀ fn, p.filename = some fn → fn ≠ [] ∧ fn.all Wire.isScalar = true
  ct_ok : ∀ ct, p.ctype = some ct → AllGood ct ∧ C06.stripWs ct = ct

abbrev PartOK (p : Spec.Part) : Prop := PartOK0 p

theorem allGood_line1 (p : Spec.Part) (hp : PartOK0 p) : AllGood (line1 p) := by
  have h1 : AllGood (sCD ++ [58, 32]) := by decide
  have := h1.append (allGood_dispValue p.name p.filename hp.name_good (fun fn h => (hp.fn_ok fn h).2))
  simpa [line1] using this

theorem allGood_headerText_scalar (p : Spec.Part) (hp : PartOK0 p) :
    (headerText p).all Wire.isScalar = true := by
  unfold headerText
  rw [List.all_append, (allGood_line1 p hp).scalar]
  cases hct : p.ctype with
  | none => rfl
  | some ct =>
    have := (allGood_line2 ct (hp.ct_ok ct hct).1).scalar
    simp only [List.all_cons, this, Bool.and_true, Bool.true_and]
    decide

/-- the blank line is found right after the header block -/
theorem findSub_content (p : Spec.Part) (hp : PartOK0 p) (rest : Bytes) :
    findSub [13, 10, 13, 10] (utf8Enc (headerText p) ++ ([13, 10, 13, 10] ++ rest)) = some (utf8Enc (headerText p)).length := by
  have hA : 13 ∉ utf8Enc (line1 p) := not_mem_utf8Enc _ 13 (by decide) (allGood_line1 p hp).noCr
  unfold headerText
  cases hct : p.ctype with
  | none =>
    simp only [List.append_nil]
    rw [findSub_skip 13 _ _ _ hA, findSub_here _ _ (by simp)]
    simp
  | some ct =>
    have hB : 13 ∉ utf8Enc (line2 ct) := not_mem_utf8Enc _ 13 (by decide) (allGood_line2 ct (hp.ct_ok ct hct).1).noCr
    have hB0 : ∃ r, utf8Enc (line2 ct) = 67 :: r := by
      have : line2 ct = 67 :: (ofAscii "ontent-Type" ++ 58 :: 32 :: ct) := by
        have h : sCT = 67 :: ofAscii "ontent-Type" := by decide
        rw [line2, h]; rfl
      rw [this, utf8Enc_cons]
      exact ⟨_, rfl⟩
    obtain ⟨r, hr⟩ := hB0
    have hsp : (13 : Nat) :: 10 :: line2 ct = [13, 10] ++ line2 ct := rfl
    dsimp only
    rw [hsp, utf8Enc_append, utf8Enc_append, utf8Enc_crlf, List.append_assoc, List.append_assoc,
      findSub_skip 13 _ _ _ hA]
    have hmiss : findSub [13, 10, 13, 10] ([13, 10] ++ (utf8Enc (line2 ct) ++ ([13, 10, 13, 10] ++ rest))) =
        (findSub [13, 10, 13, 10] (utf8Enc (line2 ct) ++ ([13, 10, 13, 10] ++ rest))).map (· + 2) := by
      have hp0 : isPrefix [13, 10, 13, 10] (13 :: 10 :: (utf8Enc (line2 ct) ++ ([13, 10, 13, 10] ++ rest))) = false := by
        rw [hr]
        simp [isPrefix]
      have e1 : findSub [13, 10, 13, 10] (13 :: 10 :: (utf8Enc (line2 ct) ++ ([13, 10, 13, 10] ++ rest))) =
          (findSub [13, 10, 13, 10] (10 :: (utf8Enc (line2 ct) ++ ([13, 10, 13, 10] ++ rest)))).map (· + 1) := by
        rw [findSub, hp0]; rfl
      have e2 := findSub_cons_ne 13 [10, 13, 10] 10 (utf8Enc (line2 ct) ++ ([13, 10, 13, 10] ++ rest)) (by decide)
      show findSub [13, 10, 13, 10] (13 :: 10 :: (utf8Enc (line2 ct) ++ ([13, 10, 13, 10] ++ rest))) = _
      rw [e1, e2]
      cases findSub [13, 10, 13, 10] (utf8Enc (line2 ct) ++ ([13, 10, 13, 10] ++ rest)) <;> simp
    rw [hmiss, findSub_skip 13 _ _ _ hB, findSub_here _ _ (by simp)]
    simp only [Option.map_some, List.length_append, List.length_cons, List.length_nil, Option.some.injEq]
    omega


theorem ext_ne_nil (s : Str) : ext s ≠ [] := by
  simp [ext, sU8, ofAscii]

theorem mem_getLast_append (l l' : Str) (h : l' ≠ []) (c : Nat) (hc : c ∈ (l ++ l').getLast?) : c ∈ l' := by
  rw [List.getLast?_append] at hc
  cases hl : l'.getLast? with
  | none => exact absurd (List.getLast?_eq_none_iff.mp hl) h
  | some x =>
    rw [hl] at hc
    have : c = x := by simpa using hc.symm
    subst this
    exact List.mem_of_mem_getLast? hl

theorem stripWs_dispValue (name : Str) (filename : Option Str) (hn : name.all Wire.isScalar = true)
    (hf : ∀ fn, filename = some fn → fn.all Wire.isScalar = true) :
    C06.stripWs (32 :: dispValue name filename) = dispValue name filename := by
  have hws : ∀ c, ExtC c → C06.isWs c = false := by
    intro c h
    have := h.range
    unfold C06.isWs C06.cSp C06.cTab
    simp only [Bool.or_eq_false_iff, decide_eq_false_iff_not]
    omega
  apply C06.stripWs_sp_value
  · intro c hc
    have h : (dispValue name filename).head? = some 102 := by
      have : ofAscii "form-data; name*=" = 102 :: ofAscii "orm-data; name*=" := by decide
      unfold dispValue
      rw [this]; rfl
    rw [h] at hc
    have : c = 102 := by simpa using hc.symm
    subst this; decide
  · intro c hc
    rw [List.head?_reverse] at hc
    unfold dispValue at hc
    cases filename with
    | none =>
      rw [List.append_nil] at hc
      exact hws c (ext_chars name hn c (mem_getLast_append _ _ (ext_ne_nil name) c hc))
    | some fn =>
      rw [← List.append_assoc] at hc
      exact hws c (ext_chars fn (hf fn rfl) c (mem_getLast_append _ _ (ext_ne_nil fn) c hc))

/-- the header block parses to a header map from which `Content-Disposition` and `Content-Type` read back -/
theorem parse_headerText (p : Spec.Part) (hp : PartOK0 p) :
    ∃ hs, C06.parse (headerText p) false = .ok hs ∧
      hget hs "Content-Disposition" = some (dispValue p.name p.filename) ∧
      hget hs "Content-Type" = p.ctype := by
  have hg1 := allGood_line1 p hp
  have hkCD : C06.isToken sCD = true := by decide
  have hkCT : C06.isToken sCT = true := by decide
  have hnCD : C06.normalize sCD = sCD := by decide
  have hnCT : C06.normalize sCT = sCT := by decide
  have hnCD' : C06.normalize (ofAscii "Content-Disposition") = sCD := hnCD
  have hnCT' : C06.normalize (ofAscii "Content-Type") = sCT := hnCT
  have hne : (sCD = sCT) = False := by simp; decide
  have hdv : C06.hasForbidden (dispValue p.name p.filename) = false :=
    (allGood_dispValue p.name p.filename hp.name_good (fun fn h => (hp.fn_ok fn h).2)).noForbidden
  unfold C06.parse headerText
  cases hct : p.ctype with
  | none =>
    rw [List.append_nil, splitKeepLf_noLf _ hg1.noLf]
    simp only [List.foldlM_cons, List.foldlM_nil]
    rw [parseLine_kv C06.empty (line1 p) sCD (dispValue p.name p.filename) (stripEol_noLf _ hg1.noLf) hkCD,
      stripWs_dispValue _ _ hp.name_good (fun fn h => (hp.fn_ok fn h).2), add_fresh _ _ _ hkCD hnCD hdv rfl]
    refine ⟨_, rfl, ?_, ?_⟩
    · simp [hget, C06.getItem, hnCD', C06.empty, C06.dset, C06.dget]
    · simp [hget, C06.getItem, hnCT', C06.empty, C06.dset, C06.dget, hne]
  | some ct =>
    obtain ⟨hgct, hsct⟩ := hp.ct_ok ct hct
    have hsplit : line1 p ++ 13 :: 10 :: line2 ct = (line1 p ++ [13]) ++ C06.cLf :: line2 ct := by
      simp [C06.cLf]
    have hlf : C06.cLf ∉ line1 p ++ [13] := by
      intro hm
      rcases List.mem_append.mp hm with h | h
      · exact hg1.noLf h
      · simp [C06.cLf] at h
    have hg2 := allGood_line2 ct hgct
    rw [hsplit, C06.splitKeepLf_line _ _ hlf, splitKeepLf_noLf _ hg2.noLf]
    simp only [List.foldlM_cons, List.foldlM_nil]
    have hs1 : C06.stripEol (line1 p ++ [13] ++ [C06.cLf]) = sCD ++ 58 :: 32 :: dispValue p.name p.filename := by
      have : line1 p ++ [13] ++ [C06.cLf] = line1 p ++ [13, 10] := by simp [C06.cLf]
      rw [this, stripEol_crlf]; rfl
    rw [parseLine_kv C06.empty _ sCD (dispValue p.name p.filename) hs1 hkCD,
      stripWs_dispValue _ _ hp.name_good (fun fn h => (hp.fn_ok fn h).2), add_fresh _ _ _ hkCD hnCD hdv rfl]
    simp only [bind, Except.bind]
    rw [parseLine_kv _ (line2 ct) sCT ct (stripEol_noLf _ hg2.noLf) hkCT, stripWs_sp, hsct,
      add_fresh _ _ _ hkCT hnCT hgct.noForbidden (by simp [C06.empty, C06.dset, C06.dget, hne])]
    refine ⟨_, rfl, ?_, ?_⟩
    · simp [hget, C06.getItem, hnCD', C06.empty, C06.dset, C06.dget, hne]
    · simp [hget, C06.getItem, hnCT', C06.empty, C06.dset, C06.dget, hne]

/-! ### one part -/
/-- one encoded part, up to `_parse_header` -/
theorem parsePart_content_gen (cfg : Config) (p : Spec.Part) (f : Form) (hp : PartOK0 p) :
    parsePart cfg (Spec.contentOf Spec.disposition2231 p) f =
      if (utf8Enc (headerText p)).length > cfg.maxPartHeaderSize then .error .httpInput
      else finishPart f p (parseHeader (dispValue p.name p.filename)) := by
  obtain ⟨hs, hparse, hcd, hctype⟩ := parse_headerText p hp
  have hfind := findSub_content p hp (p.value ++ [13, 10])
  rw [contentOf_eq]
  unfold parsePart
  by_cases hsize : (utf8Enc (headerText p)).length > cfg.maxPartHeaderSize
  · simp only [hfind, hsize, if_true]
  · have htake : (utf8Enc (headerText p) ++ ([13, 10, 13, 10] ++ (p.value ++ [13, 10]))).take (utf8Enc (headerText p)).length =
        utf8Enc (headerText p) := List.take_left' rfl
    have hstrict := utf8Strict_enc (headerText p) (allGood_headerText_scalar p hp)
    have hends : endsWith (utf8Enc (headerText p) ++ ([13, 10, 13, 10] ++ (p.value ++ [13, 10]))) crlf = true := by
      have e : utf8Enc (headerText p) ++ ([13, 10, 13, 10] ++ (p.value ++ [13, 10])) =
          (utf8Enc (headerText p) ++ [13, 10, 13, 10] ++ p.value) ++ [13, 10] := by simp
      rw [e]; exact endsWith_crlf _
    have hval := value_extract (utf8Enc (headerText p)) p.value
    simp only [hfind, hsize, if_false, htake, hstrict, hparse, hcd, Option.getD_some, hends, Bool.not_true,
      Bool.false_eq_true, or_false, hval, hctype]
    unfold finishPart
    cases parseHeader (dispValue p.name p.filename) with
    | error e => cases e <;> rfl
    | ok v => rfl

theorem parsePart_content (cfg : Config) (p : Spec.Part) (f : Form) (hp : PartOK p) :
    parsePart cfg (Spec.contentOf Spec.disposition2231 p) f =
      if (utf8Enc (headerText p)).length > cfg.maxPartHeaderSize then .error .httpInput else .ok (stepOf f p) := by
  rw [parsePart_content_gen cfg p f hp, parseHeader_dispValue p.name p.filename hp.name_good (fun fn h => (hp.fn_ok fn h).2)]
  have hne : (ofAscii "name" = ofAscii "filename") = False := by simp; decide
  have hnm : p.name.isEmpty = false := by
    cases hnn : p.name with
    | nil => exact absurd hnn hp.name_ne
    | cons a r => rfl
  congr 1
  unfold finishPart stepOf
  simp only [ne_eq, not_true_eq_false, if_false, C43.dget, if_true, hnm, Bool.false_eq_true]
  cases hfn : p.filename with
  | none => simp [fnParams, C43.dget, hne]
  | some fn =>
    have hfne : fn.isEmpty = false := by
      cases hff : fn with
      | nil => exact absurd hff (hp.fn_ok fn hfn).1
      | cons a r => rfl
    simp [fnParams, C43.dget, hne, hfne]

/-! ### the whole body -/

def PartsOK (parts : List Spec.Part) : Prop := ∀ p ∈ parts, PartOK p

/-- every part header block is within the limit -/
def SizesOK (cfg : Config) (parts : List Spec.Part) : Prop :=
  ∀ p ∈ parts, (utf8Enc (headerText p)).length ≤ cfg.maxPartHeaderSize

theorem encodePart_eq (b : Bytes) (p : Spec.Part) :
    Spec.encodePartWith Spec.disposition2231 b p = (dashes ++ b ++ crlf) ++ Spec.contentOf Spec.disposition2231 p := by
  simp [Spec.encodePartWith, Spec.contentOf, List.append_assoc]

theorem content_ne_nil (p : Spec.Part) : Spec.contentOf Spec.disposition2231 p ≠ [] := by
  rw [contentOf_eq]
  simp

theorem splitOn_encoded (b : Bytes) (parts : List Spec.Part) (h10 : 10 ∉ b)
    (hfresh : ∀ p ∈ parts, Spec.occurs (dashes ++ b) (Spec.contentOf Spec.disposition2231 p) = false) :
    splitOn (dashes ++ b ++ crlf) (parts.flatMap (Spec.encodePartWith Spec.disposition2231 b)) =
      [] :: parts.map (Spec.contentOf Spec.disposition2231) := by
  induction parts with
  | nil => rfl
  | cons p ps ih =>
    have ih' := ih (fun q hq => hfresh q (List.mem_cons_of_mem _ hq))
    unfold splitOn at ih' ⊢
    rw [List.flatMap_cons, encodePart_eq,
      List.append_assoc (dashes ++ b ++ crlf) (Spec.contentOf Spec.disposition2231 p) _,
      splitOnAux_sep _ _ (by simp [dashes])]
    congr 1
    have hno : NoOcc (dashes ++ b ++ crlf) (Spec.contentOf Spec.disposition2231 p)
        (ps.flatMap (Spec.encodePartWith Spec.disposition2231 b)) := by
      have hc : Spec.contentOf Spec.disposition2231 p =
          (utf8Enc (headerText p) ++ ([13, 10, 13, 10] ++ (p.value ++ [13]))) ++ [10] := by
        rw [contentOf_eq]; simp
      have hP : findSub (dashes ++ b) (Spec.contentOf Spec.disposition2231 p) = none := by
        have := hfresh p List.mem_cons_self
        unfold Spec.occurs at this
        cases hf : findSub (dashes ++ b) (Spec.contentOf Spec.disposition2231 p) with
        | none => rfl
        | some i => rw [hf] at this; cases this
      rw [hc] at hP ⊢
      exact noOcc_of_fresh (dashes ++ b) crlf _ _ hP (by simp [dashes, h10])
    have := splitOnAux_content _ _ _ [] _ hno ih'
    simpa using this

theorem foldlM_contents (cfg : Config) (parts : List Spec.Part) (f : Form) (h : PartsOK parts) (hsz : SizesOK cfg parts) :
    (parts.map (Spec.contentOf Spec.disposition2231)).foldlM
      (fun acc p => if p.isEmpty then Except.ok acc else parsePart cfg p acc) f = .ok (parts.foldl stepOf f) := by
  induction parts generalizing f with
  | nil => rfl
  | cons p ps ih =>
    have hemp : (Spec.contentOf Spec.disposition2231 p).isEmpty = false := by
      cases hc : Spec.contentOf Spec.disposition2231 p with
      | nil => exact absurd hc (content_ne_nil p)
      | cons a r => rfl
    have hs : ¬ ((utf8Enc (headerText p)).length > cfg.maxPartHeaderSize) := Nat.not_lt.mpr (hsz p List.mem_cons_self)
    simp only [List.map_cons, List.foldlM_cons, hemp, Bool.false_eq_true, if_false,
      parsePart_content cfg p f (h p List.mem_cons_self), hs, List.foldl_cons]
    exact ih (stepOf f p) (fun q hq => h q (List.mem_cons_of_mem _ hq)) (fun q hq => hsz q (List.mem_cons_of_mem _ hq))

/-- one header block over the limit: the whole body is refused with HTTPInputError -/
theorem foldlM_contents_big (cfg : Config) (parts : List Spec.Part) (f : Form) (h : PartsOK parts)
    (hbig : ∃ p ∈ parts, (utf8Enc (headerText p)).length > cfg.maxPartHeaderSize) :
    (parts.map (Spec.contentOf Spec.disposition2231)).foldlM
      (fun acc p => if p.isEmpty then Except.ok acc else parsePart cfg p acc) f = .error .httpInput := by
  induction parts generalizing f with
  | nil => obtain ⟨p, hp, _⟩ := hbig; cases hp
  | cons p ps ih =>
    have hemp : (Spec.contentOf Spec.disposition2231 p).isEmpty = false := by
      cases hc : Spec.contentOf Spec.disposition2231 p with
      | nil => exact absurd hc (content_ne_nil p)
      | cons a r => rfl
    simp only [List.map_cons, List.foldlM_cons, hemp, Bool.false_eq_true, if_false,
      parsePart_content cfg p f (h p List.mem_cons_self)]
    by_cases hs : (utf8Enc (headerText p)).length > cfg.maxPartHeaderSize
    · simp only [hs, if_true]; rfl
    · simp only [hs, if_false, bind, Except.bind]
      obtain ⟨q, hq, hqb⟩ := hbig
      rcases List.mem_cons.mp hq with rfl | hq'
      · exact absurd hqb hs
      · exact ih (stepOf f p) (fun r hr => h r (List.mem_cons_of_mem _ hr)) ⟨q, hq', hqb⟩

theorem rfind_encoded (b : Bytes) (parts : List Spec.Part) :
    rfindSub (dashes ++ b ++ dashes) (Spec.encodeMultipart2231 b parts) =
      some (parts.flatMap (Spec.encodePartWith Spec.disposition2231 b)).length := by
  have e : Spec.encodeMultipart2231 b parts =
      parts.flatMap (Spec.encodePartWith Spec.disposition2231 b) ++ (((dashes ++ b ++ [45]) ++ [45]) ++ [13, 10]) := by
    simp [Spec.encodeMultipart2231, Spec.encodeWith, dashes, crlf, List.append_assoc]
  have e2 : dashes ++ b ++ dashes = (dashes ++ b ++ [45]) ++ [45] := by simp [dashes]
  rw [e, e2, rfindSub_append_left _ _ _ 0 (rfindSub_final _)]
  rfl

theorem take_encoded (b : Bytes) (parts : List Spec.Part) :
    (Spec.encodeMultipart2231 b parts).take (parts.flatMap (Spec.encodePartWith Spec.disposition2231 b)).length =
      parts.flatMap (Spec.encodePartWith Spec.disposition2231 b) := by
  have e : Spec.encodeMultipart2231 b parts =
      parts.flatMap (Spec.encodePartWith Spec.disposition2231 b) ++ (dashes ++ b ++ dashes ++ crlf) := by
    simp [Spec.encodeMultipart2231, Spec.encodeWith, List.append_assoc]
  rw [e, List.take_left' rfl]

theorem unquoteBoundary_plain (b : Bytes) (h : b.head? ≠ some 34) : unquoteBoundary b = b := by
  unfold unquoteBoundary
  simp [h]

/-- what `parse_multipart_form_data` does with an encoded form: the split is exact, so the result is the fold over
    the parts, unless the count is over the limit -/
theorem parseMultipart_encoded_eq (cfg : Config) (b : Bytes) (parts : List Spec.Part) (f : Form)
    (hen : cfg.enabled = true) (hb : b.head? ≠ some 34) (h10 : 10 ∉ b)
    (hfresh : ∀ p ∈ parts, Spec.occurs (dashes ++ b) (Spec.contentOf Spec.disposition2231 p) = false) :
    parseMultipart cfg b (Spec.encodeMultipart2231 b parts) f =
      if parts.length > cfg.maxParts then .error .httpInput
      else (parts.map (Spec.contentOf Spec.disposition2231)).foldlM
        (fun acc p => if p.isEmpty then Except.ok acc else parsePart cfg p acc) f := by
  unfold parseMultipart
  have hlen : ([] :: parts.map (Spec.contentOf Spec.disposition2231)).length - 1 = parts.length := by
    simp only [List.length_cons, List.length_map, Nat.add_sub_cancel]
  simp only [hen, Bool.not_true, Bool.false_eq_true, if_false, unquoteBoundary_plain b hb, rfind_encoded, take_encoded,
    splitOn_encoded b parts h10 hfresh, hlen]
  split
  · rfl
  · rw [List.foldlM_cons]
    simp only [List.isEmpty_nil, if_true]
    rfl

/-- the round trip at the `parse_multipart_form_data` level -/
theorem parseMultipart_encoded (cfg : Config) (b : Bytes) (parts : List Spec.Part)
    (hen : cfg.enabled = true) (hcount : parts.length ≤ cfg.maxParts) (hb : b.head? ≠ some 34) (h10 : 10 ∉ b)
    (hfresh : ∀ p ∈ parts, Spec.occurs (dashes ++ b) (Spec.contentOf Spec.disposition2231 p) = false)
    (hok : PartsOK parts) (hsz : SizesOK cfg parts) :
    parseMultipart cfg b (Spec.encodeMultipart2231 b parts) {} = .ok (Spec.expected parts) := by
  rw [parseMultipart_encoded_eq cfg b parts {} hen hb h10 hfresh, if_neg (Nat.not_lt.mpr hcount)]
  exact foldlM_contents cfg parts {} hok hsz

/-! ### hypotheses of the lossless clause -/

/-- the size of the header block the encoder writes for a part (what `max_part_header_size` is compared with) -/
def headerSize (p : Spec.Part) : Nat :=
  (utf8Enc (Spec.disposition2231 p)).length +
    (match p.ctype with | some ct => 2 + (utf8Enc (ofAscii "Content-Type: " ++ ct)).length | none => 0)

theorem headerSize_eq (p : Spec.Part) : headerSize p = (utf8Enc (headerText p)).length := by
  unfold headerSize headerText
  rw [dispositionQ_eq]
  cases p.ctype with
  | none => simp
  | some ct =>
    have hsp : (13 : Nat) :: 10 :: line2 ct = [13, 10] ++ line2 ct := rfl
    simp only [ctLine_eq, hsp, utf8Enc_append, utf8Enc_crlf, List.length_append, List.length_cons, List.length_nil]
    try omega



/-- hypotheses of the lossless clause for the RFC 2231 form: as `C30.WellFormed`, except that names and filenames are
    arbitrary non-empty scalar-valued text (no character is excluded: everything outside `[A-Za-z0-9._~-]` is
    percent-encoded) -/
structure WellFormed (cfg : Config) (b : Bytes) (parts : List Spec.Part) : Prop where
  enabled : cfg.enabled = true
  count : parts.length ≤ cfg.maxParts
  boundary_ne : b ≠ []
  boundary_plain : b.head? ≠ some 34
  /-- the delimiter `--boundary` occurs nowhere in what the encoder writes for a part -/
  fresh : ∀ p ∈ parts, Spec.occurs (dashes ++ b) (Spec.contentOf Spec.disposition2231 p) = false
  header_size : ∀ p ∈ parts, headerSize p ≤ cfg.maxPartHeaderSize
  names : ∀ p ∈ parts, p.name ≠ [] ∧ p.name.all Wire.isScalar = true
  filenames : ∀ p ∈ parts, ∀ fn, p.filename = some fn → fn ≠ [] ∧ fn.all Wire.isScalar = true
  ctypes : ∀ p ∈ parts, ∀ ct, p.ctype = some ct → C06.hasForbidden ct = false ∧ C06.stripWs ct = ct ∧ ct.all Wire.isScalar = true

/-- the hypotheses that do not mention the configured limits -/
structure Sendable (b : Bytes) (parts : List Spec.Part) : Prop where
  boundary_plain : b.head? ≠ some 34
  boundary_lf : 10 ∉ b
  fresh : ∀ p ∈ parts, Spec.occurs (dashes ++ b) (Spec.contentOf Spec.disposition2231 p) = false
  names : ∀ p ∈ parts, p.name ≠ [] ∧ p.name.all Wire.isScalar = true
  filenames : ∀ p ∈ parts, ∀ fn, p.filename = some fn → fn ≠ [] ∧ fn.all Wire.isScalar = true
  ctypes : ∀ p ∈ parts, ∀ ct, p.ctype = some ct → C06.hasForbidden ct = false ∧ C06.stripWs ct = ct ∧ ct.all Wire.isScalar = true

theorem partOK0_of (p : Spec.Part)
    (hn : p.name ≠ [] ∧ p.name.all Wire.isScalar = true)
    (hf : ∀ fn, p.filename = some fn → fn ≠ [] ∧ fn.all Wire.isScalar = true)
    (hc : ∀ ct, p.ctype = some ct → C06.hasForbidden ct = false ∧ C06.stripWs ct = ct ∧ ct.all Wire.isScalar = true) :
    PartOK0 p :=
  { name_ne := hn.1
    name_good := hn.2
    fn_ok := hf
    ct_ok := fun ct hct => ⟨allGood_of _ (hc ct hct).1 (hc ct hct).2.2, (hc ct hct).2.1⟩ }

theorem Sendable.partsOK {b : Bytes} {parts : List Spec.Part} (h : Sendable b parts) : PartsOK parts := by
  intro p hp
  exact partOK0_of p (h.names p hp) (h.filenames p hp) (h.ctypes p hp)

theorem WellFormed.sendable {cfg : Config} {b : Bytes} {parts : List Spec.Part} (h : WellFormed cfg b parts)
    (hlf : 10 ∉ b) : Sendable b parts :=
  { boundary_plain := h.boundary_plain, boundary_lf := hlf, fresh := h.fresh, names := h.names, filenames := h.filenames,
    ctypes := h.ctypes }

/-- accepted: count and every header size within the limits (equality included) -/
theorem parseMultipart_sendable_accept (cfg : Config) (b : Bytes) (parts : List Spec.Part) (hen : cfg.enabled = true)
    (hs : Sendable b parts) (hcount : parts.length ≤ cfg.maxParts)
    (hsz : ∀ p ∈ parts, headerSize p ≤ cfg.maxPartHeaderSize) :
    parseMultipart cfg b (Spec.encodeMultipart2231 b parts) {} = .ok (Spec.expected parts) :=
  parseMultipart_encoded cfg b parts hen hcount hs.boundary_plain hs.boundary_lf hs.fresh hs.partsOK
    (fun p hp => by rw [← headerSize_eq]; exact hsz p hp)

/-- refused with HTTPInputError: one part too many, or one header block one byte too long -/
theorem parseMultipart_sendable_reject (cfg : Config) (b : Bytes) (parts : List Spec.Part) (hen : cfg.enabled = true)
    (hs : Sendable b parts)
    (hover : parts.length > cfg.maxParts ∨ ∃ p ∈ parts, headerSize p > cfg.maxPartHeaderSize) :
    parseMultipart cfg b (Spec.encodeMultipart2231 b parts) {} = .error .httpInput := by
  rw [parseMultipart_encoded_eq cfg b parts {} hen hs.boundary_plain hs.boundary_lf hs.fresh]
  by_cases hc : parts.length > cfg.maxParts
  · rw [if_pos hc]
  · rw [if_neg hc]
    rcases hover with h | ⟨p, hp, hbig⟩
    · exact absurd h hc
    · exact foldlM_contents_big cfg parts {} hs.partsOK ⟨p, hp, by rw [← headerSize_eq]; exact hbig⟩

end TornadoModel.C30.R
