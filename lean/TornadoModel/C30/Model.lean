/-
C30 — model of form-body parsing (`tornado.httputil.parse_body_arguments`, `parse_multipart_form_data`,
`escape.parse_qs_bytes`), core Lean only.

Bytes are `List Nat` (0..255), text is `List Nat` (code points).  `HTTPHeaders.parse(..., _chars_are_bytes=False)`
is the C06 model; the stdlib helpers and the parameter decoding of `_parse_header` (with the D22 `fix:`) are the
C43 model.  `_parseparam` is modelled here, as it is after the `fix:` commit d01e7a8 (a double quote is escaped only
by an odd number of preceding backslashes); `parseHeader` below is `C43.parseHeader` over that `_parseparam`.
-/
import TornadoModel.C06.Model
import TornadoModel.C43.Model
namespace TornadoModel.C30
open TornadoModel.C06 (Str)
open TornadoModel.C43 (strip splitAll splitFirst ofAscii utf8Dec utf8Enc unquoteLatin1 plusToSpace)

abbrev Bytes := List Nat

/-! ### byte-string primitives -/

def isPrefix : Bytes → Bytes → Bool
  | [], _ => true
  | _ :: _, [] => false
  | p :: ps, c :: cs => p = c && isPrefix ps cs

/-- `s.find(p)` -/
def findSub (p : Bytes) : Bytes → Option Nat
  | [] => if p.isEmpty then some 0 else none
  | c :: cs => if isPrefix p (c :: cs) then some 0 else (findSub p cs).map (· + 1)

/-- `s.rfind(p)` -/
def rfindSub (p : Bytes) : Bytes → Option Nat
  | [] => if p.isEmpty then some 0 else none
  | c :: cs =>
    match rfindSub p cs with
    | some i => some (i + 1)
    | none => if isPrefix p (c :: cs) then some 0 else none

/-- `s.split(sep)` for a non-empty `sep` (left to right, non-overlapping); `skip` = bytes of a matched
    separator still to be passed over -/
def splitOnAux (sep : Bytes) : Nat → Bytes → List Bytes
  | _, [] => [[]]
  | k + 1, _ :: cs => splitOnAux sep k cs
  | 0, c :: cs =>
    if isPrefix sep (c :: cs) then [] :: splitOnAux sep (sep.length - 1) cs
    else match splitOnAux sep 0 cs with
      | w :: ws => (c :: w) :: ws
      | [] => [[c]]

def splitOn (sep s : Bytes) : List Bytes := splitOnAux sep 0 s

def endsWith (s suf : Bytes) : Bool := isPrefix suf.reverse s.reverse

/-- strict UTF-8 decoding: the replacing decoder is exact iff re-encoding gives the bytes back -/
def utf8Strict (b : Bytes) : Option Str :=
  let s := utf8Dec b
  if utf8Enc s = b then some s else none

def crlf : Bytes := [13, 10]
def dashes : Bytes := [45, 45]

/-! ### configuration, results -/

structure Config where
  enabled : Bool := true
  maxParts : Nat := 100
  maxPartHeaderSize : Nat := 10240
  deriving Repr, BEq, DecidableEq

structure File where
  filename : Str
  body : Bytes
  contentType : Str
  deriving Repr, BEq, DecidableEq

structure Form where
  arguments : List (Str × List Bytes) := []     -- insertion-ordered dicts
  files : List (Str × List File) := []
  deriving Repr, BEq, DecidableEq

inductive Err where
  | httpInput
  | uncaught (kind : String)
  | unmodelled
  deriving Repr, BEq, DecidableEq

def dget {β} (k : Str) : List (Str × β) → Option β
  | [] => none
  | (k', v) :: r => if k' = k then some v else dget k r

def dset {β} (k : Str) (v : β) : List (Str × β) → List (Str × β)
  | [] => [(k, v)]
  | (k', v') :: r => if k' = k then (k', v) :: r else (k', v') :: dset k v r

/-- `d.setdefault(k, []).append(v)` -/
def dappend {β} (k : Str) (v : β) (d : List (Str × List β)) : List (Str × List β) :=
  dset k ((dget k d).getD [] ++ [v]) d

def hget (h : C06.Headers) (name : String) : Option Str :=
  match C06.getItem h (ofAscii name) with
  | .ok (v, _) => some v
  | .error _ => none

/-! ### `_parseparam` / `_parse_header` (after the `fix:` commit d01e7a8) -/

/-- `_parseparam(";" + line)` before the `strip()` of each piece: `line` is cut at every `;` at which the number of
    *unescaped* double quotes, counted from the start of the piece, is even.  The Python code counts
    `count('"') - count('\\"')` on a copy of the string in which every escaped backslash (`\\`, replaced left to right) is
    blanked out, so a quote is left out exactly when an odd number of backslashes precedes it.
    `odd` = parity so far, `bs` = the previous character is a backslash that is not itself escaped.
    (Before the fix `bs` was "the previous character is a backslash": `C43.segs`.) -/
def segs : Str → Bool → Bool → List Str
  | [], _, _ => [[]]
  | c :: cs, odd, bs =>
    if c = 59 && !odd then [] :: segs cs false false
    else
      let odd' := if c = 34 && !bs then !odd else odd
      match segs cs odd' (c = 92 && !bs) with
      | w :: ws => (c :: w) :: ws
      | [] => [[c]]

def parseparam (line : Str) : List Str := (segs line false false).map strip

/-- `_parse_header`: `C43.parseHeader` with the fixed `_parseparam` (the decoding of the pieces is unchanged: when
    `decode_params` raises, the parameters are taken as written — `C43.literalParams`) -/
def parseHeader (line : Str) : Except C43.Err (Str × List (Str × Str)) :=
  match parseparam line with
  | [] => .error (.uncaught "StopIteration")     -- unreachable: `segs` never returns []
  | key :: ps =>
    match C43.groupParams (C43.rawParams ps) {} with
    | .error _ => .ok (key, C43.literalParams (C43.rawParams ps))
    | .ok g =>
      let d0 : List (Str × Str) :=
        g.plain.foldl (fun d (n, v) => C43.dset n (C43.emailUnquote ([34] ++ C43.emailQuote v ++ [34])) d) []
      if C43.mixedConts g.ext then
        .ok (key, C43.literalParams (C43.rawParams ps))
      else
        match g.ext.foldlM (fun d (n, conts) => (C43.rfc2231Value conts).map (fun v => C43.dset n v d)) d0 with
        | .error e => .error e
        | .ok d => .ok (key, d)

/-! ### `parse_multipart_form_data` -/

/-- one non-empty part -/
def parsePart (cfg : Config) (part : Bytes) (f : Form) : Except Err Form :=
  match findSub [13, 10, 13, 10] part with
  | none => .error .httpInput                                  -- missing headers
  | some eoh =>
    if eoh > cfg.maxPartHeaderSize then .error .httpInput      -- part header too large
    else
      match utf8Strict (part.take eoh) with
      | none => .error (.uncaught "UnicodeDecodeError")
      | some text =>
        match C06.parse text false with
        | .error .httpInput => .error .httpInput
        | .error .keyError => .error (.uncaught "KeyError")
        | .ok headers =>
          match parseHeader ((hget headers "Content-Disposition").getD []) with
          | .error (.uncaught k) => .error (.uncaught k)
          | .error .unmodelled => .error .unmodelled
          | .error .httpInput => .error .httpInput
          | .ok (disposition, params) =>
            if disposition ≠ ofAscii "form-data" ∨ !endsWith part crlf then .error .httpInput
            else
              let value := (part.take (part.length - 2)).drop (eoh + 4)
              match C43.dget (ofAscii "name") params with
              | none => .error .httpInput
              | some name =>
                if name.isEmpty then .error .httpInput
                else
                  match C43.dget (ofAscii "filename") params with
                  | some fn =>
                    if fn.isEmpty then .ok { f with arguments := dappend name value f.arguments }
                    else
                      let ctype := (hget headers "Content-Type").getD (ofAscii "application/unknown")
                      .ok { f with files := dappend name { filename := fn, body := value, contentType := ctype } f.files }
                  | none => .ok { f with arguments := dappend name value f.arguments }

/-- `boundary[1:-1]` when it starts and ends with a double quote -/
def unquoteBoundary (b : Bytes) : Bytes :=
  if b.head? = some 34 ∧ b.getLast? = some 34 then (b.drop 1).dropLast else b

def parseMultipart (cfg : Config) (boundary0 data : Bytes) (f : Form) : Except Err Form :=
  if !cfg.enabled then .error .httpInput
  else
    let boundary := unquoteBoundary boundary0
    match rfindSub (dashes ++ boundary ++ dashes) data with
    | none => .error .httpInput
    | some idx =>
      let parts := splitOn (dashes ++ boundary ++ crlf) (data.take idx)
      if parts.length - 1 > cfg.maxParts then .error .httpInput      -- after the `fix:` commit: the preamble is not a part
      else parts.foldlM (fun acc p => if p.isEmpty then .ok acc else parsePart cfg p acc) f

/-! ### `parse_body_arguments` -/

def startsWith (s p : Str) : Bool := isPrefix p s

/-- `parse_qs_bytes(body, keep_blank_values=True)` : names are latin-1 text, values bytes; grouped by name -/
def parseQsBytes (body : Bytes) : List (Str × List Bytes) :=
  (splitAll 38 body).foldl (fun d nv =>
    if nv.isEmpty then d
    else
      let (n, v) := match splitFirst 61 nv with
        | some (n, v) => (n, v)
        | none => (nv, [])
      dappend (unquoteLatin1 (plusToSpace n)) (unquoteLatin1 (plusToSpace v)) d) []

/-- the `for field in fields` loop: the first `boundary=<non-empty>` parameter -/
def findBoundary : List Str → Option Str
  | [] => none
  | fld :: rest =>
    match splitFirst 61 (strip fld) with
    | some (k, v) => if k = ofAscii "boundary" ∧ !v.isEmpty then some v else findBoundary rest
    | none => findBoundary rest

/-- any exception inside the multipart branch is re-raised as HTTPInputError -/
def collapse {α} : Except Err α → Except Err α
  | .ok a => .ok a
  | .error .unmodelled => .error .unmodelled
  | .error _ => .error .httpInput

/-- `parse_body_arguments(content_type, body, {}, {}, headers, config=cfg)`;
    `hasCE` = `headers and "Content-Encoding" in headers` -/
def parseBody (cfg : Config) (contentType : Str) (body : Bytes) (hasCE : Bool) : Except Err Form :=
  if startsWith contentType (ofAscii "application/x-www-form-urlencoded") then
    if hasCE then .error .httpInput
    else .ok { arguments := parseQsBytes body }
  else if startsWith contentType (ofAscii "multipart/form-data") then
    if hasCE then .error .httpInput
    else
      let fields := splitAll 59 contentType
      if strip (fields.head?.getD []) ≠ ofAscii "multipart/form-data" then .error .httpInput
      else
        match findBoundary fields with
        | none => .error .httpInput
        | some v =>
          if v.any (fun c => 55296 ≤ c && c ≤ 57343) then .error .httpInput     -- utf8(v) raises, caught
          else collapse (parseMultipart cfg (utf8Enc v) body {})
  else .ok {}

end TornadoModel.C30
