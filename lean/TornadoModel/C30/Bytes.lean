/- C30 — byte-string lemmas for the multipart round trip: `isPrefix`, `findSub`, `rfindSub`, `splitOn` -/
import TornadoModel.C30.Spec
namespace TornadoModel.C30

/-! ### `isPrefix` -/

theorem isPrefix_append (p t : Bytes) : isPrefix p (p ++ t) = true := by
  induction p with
  | nil => cases t <;> rfl
  | cons c cs ih => simp [isPrefix, ih]

theorem isPrefix_nil_right (p : Bytes) (h : p ≠ []) : isPrefix p [] = false := by
  cases p with
  | nil => exact absurd rfl h
  | cons c cs => rfl

theorem isPrefix_cons_cons (p c : Nat) (ps cs : Bytes) :
    isPrefix (p :: ps) (c :: cs) = (decide (p = c) && isPrefix ps cs) := rfl

/-- a match of `P ++ Q` at the start of `u ++ tail` either contains a match of `P` inside `u`, or `u` is a proper
    prefix of `P` -/
theorem isPrefix_append_split (P Q u tail : Bytes) (h : isPrefix (P ++ Q) (u ++ tail) = true) :
    isPrefix P u = true ∨ ∃ v, P = u ++ v := by
  induction P generalizing u with
  | nil => left; cases u <;> rfl
  | cons p ps ih =>
    cases u with
    | nil => right; exact ⟨p :: ps, rfl⟩
    | cons x xs =>
      simp only [List.cons_append, isPrefix_cons_cons, Bool.and_eq_true, decide_eq_true_eq] at h
      obtain ⟨rfl, h2⟩ := h
      rcases ih xs h2 with h3 | ⟨v, hv⟩
      · left; simp [isPrefix_cons_cons, h3]
      · right; exact ⟨v, by rw [hv]; rfl⟩

theorem isPrefix_head_ne (p : Nat) (ps : Bytes) (c : Nat) (cs : Bytes) (h : p ≠ c) : isPrefix (p :: ps) (c :: cs) = false := by
  simp [isPrefix_cons_cons, h]

/-! ### `findSub` -/

/-- no occurrence of `p` in `s` (at any suffix) -/
def NoOcc (p s tail : Bytes) : Prop := ∀ v u, s = v ++ u → u ≠ [] → isPrefix p (u ++ tail) = false

theorem NoOcc_tail {p : Bytes} {c : Nat} {cs tail : Bytes} (h : NoOcc p (c :: cs) tail) : NoOcc p cs tail := by
  intro v u hs hu
  exact h (c :: v) u (by rw [hs]; rfl) hu

theorem NoOcc_head {p : Bytes} {c : Nat} {cs tail : Bytes} (h : NoOcc p (c :: cs) tail) :
    isPrefix p (c :: cs ++ tail) = false := h [] (c :: cs) rfl (by simp)

theorem findSub_none_suffix (p s : Bytes) (h : findSub p s = none) : ∀ v u, s = v ++ u → isPrefix p u = false := by
  induction s with
  | nil =>
    intro v u hs
    have hu : u = [] := (List.append_eq_nil_iff.mp hs.symm).2
    subst hu
    simp only [findSub] at h
    split at h
    · cases h
    · rename_i hp
      cases p with
      | nil => simp at hp
      | cons a as => rfl
  | cons c cs ih =>
    intro v u hs
    simp only [findSub] at h
    split at h
    · cases h
    · rename_i hp
      have hcs : findSub p cs = none := by
        cases hf : findSub p cs with
        | none => rfl
        | some i => rw [hf] at h; cases h
      cases v with
      | nil =>
        simp only [List.nil_append] at hs
        subst hs
        simpa using hp
      | cons x xs =>
        simp only [List.cons_append, List.cons.injEq] at hs
        exact ih hcs xs u hs.2

/-- skip a stretch that does not contain the first byte of the pattern -/
theorem findSub_skip (p0 : Nat) (ps a rest : Bytes) (h : p0 ∉ a) :
    findSub (p0 :: ps) (a ++ rest) = (findSub (p0 :: ps) rest).map (· + a.length) := by
  induction a with
  | nil => simp
  | cons c cs ih =>
    have hc : p0 ≠ c := fun e => h (by simp [e])
    have hcs : p0 ∉ cs := fun e => h (List.mem_cons_of_mem _ e)
    simp only [List.cons_append, findSub, isPrefix_head_ne p0 ps c _ hc, Bool.false_eq_true, if_false, ih hcs,
      List.length_cons]
    cases findSub (p0 :: ps) rest <;> simp [Nat.add_assoc]

theorem findSub_here (p rest : Bytes) (hp : p ≠ []) : findSub p (p ++ rest) = some 0 := by
  cases p with
  | nil => exact absurd rfl hp
  | cons c cs =>
    have := isPrefix_append (c :: cs) rest
    simp only [List.cons_append] at this ⊢
    simp [findSub, this]

theorem findSub_cons_ne (p0 : Nat) (ps : Bytes) (c : Nat) (rest : Bytes) (h : p0 ≠ c) :
    findSub (p0 :: ps) (c :: rest) = (findSub (p0 :: ps) rest).map (· + 1) := by
  simp [findSub, isPrefix_head_ne p0 ps c _ h]

/-! ### `rfindSub` -/

theorem rfindSub_append_left (p xs s : Bytes) (i : Nat) (h : rfindSub p s = some i) :
    rfindSub p (xs ++ s) = some (xs.length + i) := by
  induction xs with
  | nil => simpa using h
  | cons c cs ih =>
    simp only [List.cons_append, rfindSub, ih, List.length_cons]
    congr 1
    omega

theorem rfindSub_none_of_noOcc (p s : Bytes) (hp : p ≠ []) (h : ∀ v u, s = v ++ u → isPrefix p u = false) :
    rfindSub p s = none := by
  induction s with
  | nil =>
    cases p with
    | nil => exact absurd rfl hp
    | cons a as => rfl
  | cons c cs ih =>
    have h1 : rfindSub p cs = none := ih (fun v u hs => h (c :: v) u (by rw [hs]; rfl))
    have h2 : isPrefix p (c :: cs) = false := h [] (c :: cs) rfl
    simp [rfindSub, h1, h2]

theorem isPrefix_exists (p u : Bytes) (h : isPrefix p u = true) : ∃ t, u = p ++ t := by
  induction p generalizing u with
  | nil => exact ⟨u, rfl⟩
  | cons a as ih =>
    cases u with
    | nil => simp [isPrefix] at h
    | cons x xs =>
      simp only [isPrefix_cons_cons, Bool.and_eq_true, decide_eq_true_eq] at h
      obtain ⟨rfl, h2⟩ := h
      obtain ⟨t, ht⟩ := ih xs h2
      exact ⟨t, by rw [ht]; rfl⟩

/-- the final delimiter `q ++ [45]` followed by CRLF: the last occurrence is the one at the front -/
theorem rfindSub_final (q : Bytes) : rfindSub (q ++ [45]) ((q ++ [45]) ++ [13, 10]) = some 0 := by
  have hne : q ++ [45] ≠ [] := by simp
  cases hq : q ++ [45] with
  | nil => exact absurd hq hne
  | cons a as =>
    have hno : rfindSub (a :: as) (as ++ [13, 10]) = none := by
      apply rfindSub_none_of_noOcc _ _ (by simp)
      intro v u hs
      cases hpre : isPrefix (a :: as) u with
      | false => rfl
      | true =>
        exfalso
        obtain ⟨t, ht⟩ := isPrefix_exists _ _ hpre
        rw [ht, ← hq] at hs
        -- as ++ [13,10] = v ++ (q ++ [45]) ++ t, and |as| = |q|
        have hlen : as.length = q.length := by
          have := congrArg List.length hq
          simp at this
          omega
        have hl := congrArg List.length hs
        simp only [List.length_append, List.length_cons, List.length_nil] at hl
        have htl : t.length ≤ 1 := by omega
        match t, htl with
        | [], _ =>
          have h1 := congrArg List.getLast? hs
          simp at h1
        | [x], _ =>
          have hv : v = [] := by
            cases v with
            | nil => rfl
            | cons y ys => simp at hl; omega
          subst hv
          have h1 : as ++ [13, 10] = (q ++ [45]) ++ [x] := by simpa using hs
          have h2 : as ++ [13] ++ [10] = (q ++ [45]) ++ [x] := by simpa using h1
          have h3 := List.append_inj' h2 rfl
          have h4 := congrArg List.getLast? h3.1
          simp at h4
    simp only [List.cons_append, rfindSub, hno]
    have := isPrefix_append (a :: as) [13, 10]
    simp only [List.cons_append] at this
    simp [this]

/-! ### `splitOn` -/

theorem splitOnAux_skip (sep xs rest : Bytes) : splitOnAux sep xs.length (xs ++ rest) = splitOnAux sep 0 rest := by
  induction xs with
  | nil => rfl
  | cons c cs ih => simp only [List.length_cons, List.cons_append, splitOnAux, ih]

theorem splitOnAux_ne_nil (sep : Bytes) (k : Nat) (s : Bytes) : splitOnAux sep k s ≠ [] := by
  induction s generalizing k with
  | nil => simp [splitOnAux]
  | cons c cs ih =>
    cases k with
    | succ k => simp only [splitOnAux]; exact ih k
    | zero =>
      simp only [splitOnAux]
      split
      · simp
      · split <;> simp

/-- a separator at the front -/
theorem splitOnAux_sep (sep rest : Bytes) (h : sep ≠ []) :
    splitOnAux sep 0 (sep ++ rest) = [] :: splitOnAux sep 0 rest := by
  cases sep with
  | nil => exact absurd rfl h
  | cons a as =>
    have := isPrefix_append (a :: as) rest
    simp only [List.cons_append] at this ⊢
    simp only [splitOnAux, this, if_true, List.length_cons, Nat.add_sub_cancel]
    rw [splitOnAux_skip]

/-- content in which the separator does not start anywhere is glued onto the first piece of what follows -/
theorem splitOnAux_content (sep content tail : Bytes) (w : Bytes) (ws : List Bytes)
    (h : NoOcc sep content tail) (ht : splitOnAux sep 0 tail = w :: ws) :
    splitOnAux sep 0 (content ++ tail) = (content ++ w) :: ws := by
  induction content with
  | nil => simpa using ht
  | cons c cs ih =>
    have h0 := NoOcc_head h
    simp only [List.cons_append] at h0 ⊢
    simp only [splitOnAux, h0, Bool.false_eq_true, if_false, ih (NoOcc_tail h)]

/-- `NoOcc` from: the delimiter `P` does not occur in the content, contains no LF, and the content ends in LF -/
theorem noOcc_of_fresh (P Q c' tail : Bytes) (hP : findSub P (c' ++ [10]) = none) (h10 : 10 ∉ P) :
    NoOcc (P ++ Q) (c' ++ [10]) tail := by
  intro v u hs hu
  cases hpre : isPrefix (P ++ Q) (u ++ tail) with
  | false => rfl
  | true =>
    exfalso
    rcases isPrefix_append_split P Q u tail hpre with h1 | ⟨x, hx⟩
    · have := findSub_none_suffix P _ hP v u hs
      rw [h1] at this
      cases this
    · -- u ends in LF, so LF ∈ P
      have hl := congrArg List.getLast? hs
      simp only [List.getLast?_append, List.getLast?_singleton, Option.some_or] at hl
      have : (10 : Nat) ∈ u := by
        cases hg : u.getLast? with
        | none => exact absurd (List.getLast?_eq_none_iff.mp hg) hu
        | some x =>
          rw [hg, Option.some_or] at hl
          have hx : x = 10 := by simpa using hl.symm
          exact List.mem_of_getLast? (hx ▸ hg)
      exact h10 (by rw [hx]; exact List.mem_append_left _ this)

end TornadoModel.C30
