/- C30 — helper lemmas for the urlencoded round trip -/
import TornadoModel.C30.Spec
import TornadoModel.C43.Lemmas
namespace TornadoModel.C30
open TornadoModel.C06 (Str joinWith)
open TornadoModel.C43 (splitAll splitFirst pctBytes plusToSpace unquoteLatin1 asciiRuns isHexDigit hexVal hexUpper isUnreserved
  isAlnum isDigit)

theorem pctBytes_cons_ne (c : Nat) (rest : List Nat) (h : c ≠ 37) : pctBytes (c :: rest) = c :: pctBytes rest := by
  exact C43.pctBytes.eq_3 c rest (fun _ _ _ hc _ => h hc)

theorem pctBytes_pct (a b : Nat) (rest : List Nat) (ha : isHexDigit a = true) (hb : isHexDigit b = true) :
    pctBytes (37 :: a :: b :: rest) = (hexVal a * 16 + hexVal b) :: pctBytes rest := by
  rw [C43.pctBytes.eq_2]
  simp [ha, hb]

theorem hexUpper_ok : ∀ n, n < 16 → isHexDigit (hexUpper n) = true ∧ hexVal (hexUpper n) = n ∧ hexUpper n ≠ 43 := by
  decide

/-- one encoded byte decodes to itself -/
theorem pct_quoteByte (b : Nat) (hb : b < 256) (t : List Nat) :
    pctBytes (plusToSpace (Spec.quoteByte b) ++ t) = b :: pctBytes t := by
  unfold Spec.quoteByte
  split
  · rename_i hu
    have h37 : b ≠ 37 := by intro e; subst e; revert hu; decide
    have h43 : b ≠ 43 := by intro e; subst e; revert hu; decide
    simp only [plusToSpace, List.map_cons, List.map_nil, h43, if_false, List.cons_append, List.nil_append]
    exact pctBytes_cons_ne b t h37
  · split
    · rename_i h32
      subst h32
      simp only [plusToSpace, List.map_cons, List.map_nil, if_true, List.cons_append, List.nil_append]
      exact pctBytes_cons_ne 32 t (by decide)
    · have h1 := hexUpper_ok (b / 16) (by omega)
      have h2 := hexUpper_ok (b % 16) (by omega)
      simp only [plusToSpace, List.map_cons, List.map_nil, h1.2.2, h2.2.2, if_false, List.cons_append, List.nil_append,
        show (37 : Nat) ≠ 43 by decide]
      rw [pctBytes_pct _ _ _ h1.1 h2.1, h1.2.1, h2.2.1]
      congr 1
      omega

theorem plusToSpace_append (a b : List Nat) : plusToSpace (a ++ b) = plusToSpace a ++ plusToSpace b := by
  simp [plusToSpace]

theorem quoteBytes_cons (b : Nat) (x : List Nat) : Spec.quoteBytes (b :: x) = Spec.quoteByte b ++ Spec.quoteBytes x := by
  simp [Spec.quoteBytes]

theorem pct_quoteBytes (x : List Nat) (hx : x.all (· < 256) = true) :
    pctBytes (plusToSpace (Spec.quoteBytes x)) = x := by
  induction x with
  | nil => simp [Spec.quoteBytes, plusToSpace, pctBytes]
  | cons b x ih =>
    simp only [List.all_cons, Bool.and_eq_true, decide_eq_true_eq] at hx
    rw [quoteBytes_cons, plusToSpace_append, pct_quoteByte b hx.1, ih hx.2]

/-- the characters of an encoded string: ASCII, and neither `&` nor `=` -/
def Safe (c : Nat) : Prop := c < 128 ∧ c ≠ 38 ∧ c ≠ 61

theorem hexUpper_safe : ∀ n, n < 16 → hexUpper n < 128 ∧ hexUpper n ≠ 38 ∧ hexUpper n ≠ 61 := by decide

theorem quoteByte_safe (b : Nat) (hb : b < 256) : ∀ c ∈ Spec.quoteByte b, Safe c := by
  unfold Spec.quoteByte
  split
  · rename_i hu
    intro c hc
    simp only [List.mem_singleton] at hc
    subst hc
    simp only [isUnreserved, isAlnum, isDigit, Bool.or_eq_true, Bool.and_eq_true, decide_eq_true_eq] at hu
    unfold Safe
    omega
  · split
    · intro c hc
      simp only [List.mem_singleton] at hc
      subst hc
      unfold Safe; omega
    · intro c hc
      have h1 := hexUpper_safe (b / 16) (by omega)
      have h2 := hexUpper_safe (b % 16) (by omega)
      simp only [List.mem_cons, List.mem_nil_iff, or_false] at hc
      unfold Safe
      rcases hc with rfl | rfl | rfl
      · omega
      · exact h1
      · exact h2

theorem quoteBytes_safe (x : List Nat) (hx : x.all (· < 256) = true) : ∀ c ∈ Spec.quoteBytes x, Safe c := by
  induction x with
  | nil => intro c hc; simp [Spec.quoteBytes] at hc
  | cons b x ih =>
    simp only [List.all_cons, Bool.and_eq_true, decide_eq_true_eq] at hx
    intro c hc
    rw [quoteBytes_cons, List.mem_append] at hc
    rcases hc with hc | hc
    · exact quoteByte_safe b hx.1 c hc
    · exact ih hx.2 c hc

theorem asciiRuns_ascii (s : List Nat) (hne : s ≠ []) (h : ∀ c ∈ s, c < 128) : asciiRuns s = [(true, s)] := by
  induction s with
  | nil => exact absurd rfl hne
  | cons c cs ih =>
    have hc : c < 128 := h c List.mem_cons_self
    cases cs with
    | nil => simp [asciiRuns, hc]
    | cons d ds =>
      have := ih (by simp) (fun x hx => h x (List.mem_cons_of_mem _ hx))
      simp only [asciiRuns] at this ⊢
      rw [this]
      simp [hc]

theorem unquoteLatin1_ascii (s : List Nat) (h : ∀ c ∈ s, c < 128) : unquoteLatin1 s = pctBytes s := by
  cases s with
  | nil => simp [unquoteLatin1, asciiRuns, pctBytes]
  | cons c cs =>
    rw [unquoteLatin1, asciiRuns_ascii (c :: cs) (by simp) h]
    simp

theorem plusToSpace_lt (s : List Nat) (h : ∀ c ∈ s, c < 128) : ∀ c ∈ plusToSpace s, c < 128 := by
  intro c hc
  simp only [plusToSpace, List.mem_map] at hc
  obtain ⟨a, ha, rfl⟩ := hc
  split
  · omega
  · exact h a ha

/-- decoding one encoded component -/
theorem decode_component (x : List Nat) (hx : x.all (· < 256) = true) :
    unquoteLatin1 (plusToSpace (Spec.quoteBytes x)) = x := by
  rw [unquoteLatin1_ascii _ (plusToSpace_lt _ (fun c hc => (quoteBytes_safe x hx c hc).1)), pct_quoteBytes x hx]

/-! ### splitting -/

theorem splitAll_no_sep (sep : Nat) (w : List Nat) (h : sep ∉ w) : splitAll sep w = [w] := by
  induction w with
  | nil => rfl
  | cons c cs ih =>
    have hc : c ≠ sep := fun e => h (by simp [e])
    have hcs : sep ∉ cs := fun e => h (List.mem_cons_of_mem _ e)
    simp [splitAll, hc, ih hcs]

theorem splitAll_append_sep (sep : Nat) (w rest : List Nat) (h : sep ∉ w) :
    splitAll sep (w ++ sep :: rest) = w :: splitAll sep rest := by
  induction w with
  | nil => simp [splitAll]
  | cons c cs ih =>
    have hc : c ≠ sep := fun e => h (by simp [e])
    have hcs : sep ∉ cs := fun e => h (List.mem_cons_of_mem _ e)
    simp [splitAll, hc, ih hcs]

theorem splitAll_joinWith (sep : Nat) (ws : List (List Nat)) (hne : ws ≠ []) (h : ∀ w ∈ ws, sep ∉ w) :
    splitAll sep (joinWith [sep] ws) = ws := by
  induction ws with
  | nil => exact absurd rfl hne
  | cons w ws ih =>
    cases ws with
    | nil => simp [joinWith, splitAll_no_sep sep w (h w List.mem_cons_self)]
    | cons v vs =>
      have := ih (by simp) (fun x hx => h x (List.mem_cons_of_mem _ hx))
      simp only [joinWith, List.append_assoc, List.singleton_append]
      rw [splitAll_append_sep sep w _ (h w List.mem_cons_self), this]

end TornadoModel.C30

namespace TornadoModel.C30
open TornadoModel.C06 (Str joinWith)
open TornadoModel.C43 (splitAll splitFirst plusToSpace unquoteLatin1)

/-- the body of the fold in `parseQsBytes` -/
def qsStep (d : List (Str × List Bytes)) (nv : Bytes) : List (Str × List Bytes) :=
  if nv.isEmpty then d
  else
    let (n, v) := match splitFirst 61 nv with
      | some (n, v) => (n, v)
      | none => (nv, [])
    dappend (unquoteLatin1 (plusToSpace n)) (unquoteLatin1 (plusToSpace v)) d

theorem parseQsBytes_eq (body : Bytes) : parseQsBytes body = (splitAll 38 body).foldl qsStep [] := rfl

def encField (f : Str × Bytes) : Bytes := Spec.quoteBytes f.1 ++ [61] ++ Spec.quoteBytes f.2

theorem qsStep_encField (d : List (Str × List Bytes)) (n : Str) (v : Bytes)
    (hn : n.all (· < 256) = true) (hv : v.all (· < 256) = true) : qsStep d (encField (n, v)) = dappend n v d := by
  have h61 : 61 ∉ Spec.quoteBytes n := fun hm => (quoteBytes_safe n hn 61 hm).2.2 rfl
  have hs : splitFirst 61 (encField (n, v)) = some (Spec.quoteBytes n, Spec.quoteBytes v) := by
    have := C43.splitFirst_append 61 (Spec.quoteBytes n) (Spec.quoteBytes v) h61
    simpa [encField] using this
  have hne : (encField (n, v)).isEmpty = false := by simp [encField]
  simp only [qsStep, hne, hs, Bool.false_eq_true, if_false]
  rw [decode_component n hn, decode_component v hv]

theorem encField_no_amp (n : Str) (v : Bytes) (hn : n.all (· < 256) = true) (hv : v.all (· < 256) = true) :
    38 ∉ encField (n, v) := by
  intro hm
  simp only [encField, List.append_assoc, List.mem_append, List.mem_singleton] at hm
  rcases hm with h | h | h
  · exact (quoteBytes_safe n hn 38 h).2.1 rfl
  · omega
  · exact (quoteBytes_safe v hv 38 h).2.1 rfl

theorem foldl_enc (fields : List (Str × Bytes)) (d : List (Str × List Bytes))
    (hb : ∀ f ∈ fields, f.1.all (· < 256) = true ∧ f.2.all (· < 256) = true) :
    (fields.map encField).foldl qsStep d = fields.foldl (fun d f => dappend f.1 f.2 d) d := by
  induction fields generalizing d with
  | nil => rfl
  | cons f fs ih =>
    obtain ⟨n, v⟩ := f
    have h1 := hb (n, v) List.mem_cons_self
    simp only [List.map_cons, List.foldl_cons]
    rw [qsStep_encField d n v h1.1 h1.2]
    exact ih _ (fun f hf => hb f (List.mem_cons_of_mem _ hf))

end TornadoModel.C30
