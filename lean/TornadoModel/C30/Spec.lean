/-
C30 — specification side: the form encoder (what a well-behaved client sends) and the expected result.
`encodeMultipart` writes each field/file as one part with a quoted-string `Content-Disposition`
(`"` and `\` backslash-escaped, RFC 2045/822 style); `encodeMultipart2231` writes names with the RFC 2231/5987
extended form `name*=utf-8''pct`.  `encodeUrlencoded` is application/x-www-form-urlencoded.
-/
import TornadoModel.C30.Model
namespace TornadoModel.C30.Spec
open TornadoModel.C06 (Str)
open TornadoModel.C43 (ofAscii utf8Enc utf8EncC emailQuote hexUpper isUnreserved)
open TornadoModel.C30

structure Part where
  name : Str
  filename : Option Str := none      -- `some` non-empty = a file upload
  ctype : Option Str := none
  value : Bytes
  deriving Repr, BEq, DecidableEq

def quoted (s : Str) : Str := [34] ++ emailQuote s ++ [34]

def dispositionQ (p : Part) : Str :=
  ofAscii "Content-Disposition: form-data; name=" ++ quoted p.name ++
    (match p.filename with | some fn => ofAscii "; filename=" ++ quoted fn | none => [])

/-- percent-encode every byte that is not an RFC 5987 attr-char -/
def pct5987 (s : Str) : Str :=
  (utf8Enc s).flatMap (fun b => if C43.isAlnum b || b = 45 || b = 46 || b = 95 || b = 126 then [b] else [37, hexUpper (b / 16), hexUpper (b % 16)])

def disposition2231 (p : Part) : Str :=
  ofAscii "Content-Disposition: form-data; name*=utf-8''" ++ pct5987 p.name ++
    (match p.filename with | some fn => ofAscii "; filename*=utf-8''" ++ pct5987 fn | none => [])

def encodePartWith (disp : Part → Str) (b : Bytes) (p : Part) : Bytes :=
  dashes ++ b ++ crlf ++ utf8Enc (disp p) ++ crlf ++
    (match p.ctype with | some ct => utf8Enc (ofAscii "Content-Type: " ++ ct) ++ crlf | none => []) ++
    crlf ++ p.value ++ crlf

def encodeWith (disp : Part → Str) (b : Bytes) (parts : List Part) : Bytes :=
  parts.flatMap (encodePartWith disp b) ++ dashes ++ b ++ dashes ++ crlf

def encodeMultipart := encodeWith dispositionQ
def encodeMultipart2231 := encodeWith disposition2231

/-- what parsing must recover: fields under `arguments`, uploads (non-empty filename) under `files`, each dict in
    order of first appearance, values in order -/
def expected (parts : List Part) : Form :=
  parts.foldl (fun f p =>
    match p.filename with
    | some fn =>
      if fn.isEmpty then { f with arguments := dappend p.name p.value f.arguments }
      else { f with files := dappend p.name { filename := fn, body := p.value,
                                               contentType := p.ctype.getD (ofAscii "application/unknown") } f.files }
    | none => { f with arguments := dappend p.name p.value f.arguments }) {}

/-- does `pat` occur in `s` -/
def occurs (pat s : Bytes) : Bool := (findSub pat s).isSome

/-- the content the boundary must not occur in: every byte the encoder writes besides the delimiters -/
def contentOf (disp : Part → Str) (p : Part) : Bytes :=
  utf8Enc (disp p) ++ crlf ++
    (match p.ctype with | some ct => utf8Enc (ofAscii "Content-Type: " ++ ct) ++ crlf | none => []) ++ crlf ++ p.value ++ crlf

/-! ### urlencoded -/

def quoteByte (b : Nat) : Bytes :=
  if isUnreserved b then [b] else if b = 32 then [43] else [37, hexUpper (b / 16), hexUpper (b % 16)]

def quoteBytes (s : Bytes) : Bytes := s.flatMap quoteByte

/-- `name=value&…` for latin-1 names (code points ≤ 255) and byte values -/
def encodeUrlencoded (fields : List (Str × Bytes)) : Bytes :=
  C06.joinWith [38] (fields.map (fun (n, v) => quoteBytes n ++ [61] ++ quoteBytes v))

/-- the standard (WHATWG / HTML) form encoding of arbitrary text names: the name's UTF-8 bytes, percent-encoded -/
def encodeUrlencodedUtf8 (fields : List (Str × Bytes)) : Bytes :=
  encodeUrlencoded (fields.map (fun (n, v) => (utf8Enc n, v)))

def expectedFields (fields : List (Str × Bytes)) : List (Str × List Bytes) :=
  fields.foldl (fun d (n, v) => dappend n v d) []

def isUncaught {α} : Except Err α → Bool
  | .error (.uncaught _) => true
  | _ => false

end TornadoModel.C30.Spec
