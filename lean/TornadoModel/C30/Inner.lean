/- C30 — which exceptions `parse_multipart_form_data` itself can raise (what the catch-all of `parse_body_arguments` has to
   catch): `HTTPHeaders.parse` from an empty object never raises KeyError, the fixed `_parse_header` never raises, so the
   only exception type other than HTTPInputError is UnicodeDecodeError (a part header block that is not UTF-8). -/
import TornadoModel.C30.Model
import TornadoModel.C06.Lemmas
import TornadoModel.C06.Norm
import TornadoModel.C43.Lemmas
namespace TornadoModel.C30
open TornadoModel.C06 (Str)

/-! ### `HTTPHeaders.parse` never raises KeyError -/

/-- `_last_key` names an existing entry -/
def LastIn (h : C06.Headers) : Prop := ∀ k, h.lastKey = some k → ∃ vs, C06.dget k h.asList = some vs

theorem lastIn_empty : LastIn C06.empty := by
  intro k hk
  cases hk

theorem add_inv (h : C06.Headers) (n v : Str) (cb : Bool) :
    (∀ h', C06.add h n v cb = .ok h' → LastIn h') ∧ C06.add h n v cb ≠ .error .keyError := by
  unfold C06.add
  split
  · exact ⟨fun h' e => (by cases e), fun e => (by cases e)⟩
  · split
    · exact ⟨fun h' e => (by cases e), fun e => (by cases e)⟩
    · split
      · exact ⟨fun h' e => (by cases e), fun e => (by cases e)⟩
      · simp only []
        split
        · refine ⟨fun h' e => ?_, fun e => by cases e⟩
          injection e with e
          subst e
          intro k hk
          simp only [Option.some.injEq] at hk
          subst hk
          exact ⟨_, C06.dget_dset_same _ _ _⟩
        · refine ⟨fun h' e => ?_, fun e => by cases e⟩
          injection e with e
          subst e
          intro k hk
          simp only [C06.setItem, Option.some.injEq] at hk
          subst hk
          simp only [C06.setItem, C06.Norm.normalize_idem]
          exact ⟨_, C06.dget_dset_same _ _ _⟩

theorem parseLine_inv (h : C06.Headers) (hin : LastIn h) (l : Str) (cb : Bool) :
    (∀ h', C06.parseLine h l cb = .ok h' → LastIn h') ∧ C06.parseLine h l cb ≠ .error .keyError := by
  unfold C06.parseLine
  simp only []
  split
  · exact ⟨fun h' e => (by injection e with e; subst e; exact hin), fun e => (by cases e)⟩
  · split
    · cases hk : h.lastKey with
      | none => exact ⟨fun h' e => (by cases e), fun e => (by cases e)⟩
      | some k =>
        simp only []
        split
        · exact ⟨fun h' e => (by cases e), fun e => (by cases e)⟩
        · split
          · exact ⟨fun h' e => (by cases e), fun e => (by cases e)⟩
          · obtain ⟨vs, hvs⟩ := hin k hk
            rw [hvs]
            refine ⟨fun h' e => ?_, fun e => by cases e⟩
            injection e with e
            subst e
            intro k' hk'
            simp only [hk, Option.some.injEq] at hk'
            subst hk'
            exact ⟨_, C06.dget_dset_same _ _ _⟩
    · split
      · exact ⟨fun h' e => (by cases e), fun e => (by cases e)⟩
      · exact add_inv h _ _ cb

theorem foldlM_parseLine_noKeyError (ls : List Str) (h : C06.Headers) (hin : LastIn h) (cb : Bool) :
    ls.foldlM (fun acc l => C06.parseLine acc l cb) h ≠ .error .keyError := by
  induction ls generalizing h with
  | nil => intro e; cases e
  | cons l ls ih =>
    rw [List.foldlM_cons]
    obtain ⟨h1, h2⟩ := parseLine_inv h hin l cb
    cases hp : C06.parseLine h l cb with
    | error e =>
      cases e with
      | httpInput => intro e; cases e
      | keyError => exact absurd hp h2
    | ok h' => exact ih h' (h1 h' hp)

/-- `HTTPHeaders.parse(text)` (a fresh object) never raises KeyError: the only way to it — a continuation line whose
    `_last_key` entry has been deleted — needs a `del` between two `parse_line` calls -/
theorem parse_noKeyError (text : Str) (cb : Bool) : C06.parse text cb ≠ .error .keyError :=
  foldlM_parseLine_noKeyError _ _ lastIn_empty cb

/-! ### the fixed `_parse_header` never raises -/

theorem segs_ne_nil (s : Str) (o b : Bool) : segs s o b ≠ [] := by
  induction s generalizing o b with
  | nil => simp [segs]
  | cons c cs ih =>
    simp only [segs]
    split
    · simp
    · split <;> simp

theorem catchValueError_ne (r : Except C43.Err Str) (t : Str) (k : String) : C43.catchValueError r t ≠ .error (.uncaught k) := by
  cases r with
  | ok v => intro e; cases e
  | error e => cases e <;> (intro e; cases e)

theorem rfc2231Value_ne (conts : List C43.Seg) (k : String)
    (h : (conts.any (fun c => c.1.isNone) && conts.any (fun c => c.1.isSome)) = false) :
    C43.rfc2231Value conts ≠ .error (.uncaught k) := by
  unfold C43.rfc2231Value
  simp only [h, Bool.false_eq_true, if_false]
  split
  · split
    · intro e; cases e
    · split
      · intro e; cases e
      · exact catchValueError_ne _ _ k
  · intro e; cases e

theorem foldlM_rfc2231_ne (l : List (Str × List C43.Seg)) (d0 : List (Str × Str)) (k : String)
    (h : ∀ p ∈ l, C43.rfc2231Value p.2 ≠ .error (.uncaught k)) :
    l.foldlM (fun d (n, conts) => (C43.rfc2231Value conts).map (fun v => C43.dset n v d)) d0 ≠ .error (.uncaught k) := by
  induction l generalizing d0 with
  | nil => intro e; cases e
  | cons p ps ih =>
    obtain ⟨n, conts⟩ := p
    have hp := h (n, conts) List.mem_cons_self
    simp only [List.foldlM_cons]
    cases hv : C43.rfc2231Value conts with
    | error e =>
      intro e'
      apply hp
      rw [hv]
      simp only [Except.map, bind, Except.bind] at e'
      injection e' with e'
      rw [e']
    | ok v => exact ih _ (fun q hq => h q (List.mem_cons_of_mem _ hq))

/-- `_parse_header` (after the `fix:` commits) raises nothing: it returns, or the model gives up (`unmodelled`: an RFC 2231
    charset outside utf-8 / us-ascii / latin-1) -/
theorem parseHeader_ne_uncaught (line : Str) (k : String) : parseHeader line ≠ .error (.uncaught k) := by
  unfold parseHeader
  have hne : parseparam line ≠ [] := by
    simp only [parseparam, ne_eq, List.map_eq_nil_iff]
    exact segs_ne_nil line false false
  cases hp : parseparam line with
  | nil => exact absurd hp hne
  | cons key ps =>
    simp only
    cases hg : C43.groupParams (C43.rawParams ps) {} with
    | error e => intro e'; cases e'
    | ok g =>
      simp only
      cases hm : C43.mixedConts g.ext with
      | true => intro e'; cases e'
      | false =>
        simp only [Bool.false_eq_true, if_false]
        have hall : ∀ p ∈ g.ext, C43.rfc2231Value p.2 ≠ .error (.uncaught k) := by
          intro p hp'
          apply rfc2231Value_ne
          unfold C43.mixedConts at hm
          rw [List.any_eq_false] at hm
          exact Bool.of_not_eq_true (hm p hp')
        have hf := foldlM_rfc2231_ne g.ext
          (g.plain.foldl (fun d (n, v) => C43.dset n (C43.emailUnquote ([34] ++ C43.emailQuote v ++ [34])) d) []) k hall
        intro e'
        split at e'
        · rename_i e0 he0
          injection e' with e'
          subst e'
          exact hf he0
        · cases e'

/-! ### `parse_multipart_form_data` -/

theorem parsePart_uncaught (cfg : Config) (part : Bytes) (f : Form) (k : String)
    (h : parsePart cfg part f = .error (.uncaught k)) : k = "UnicodeDecodeError" := by
  unfold parsePart at h
  split at h
  · cases h
  · split at h
    · cases h
    · split at h
      · injection h with h; injection h with h; exact h.symm
      · split at h
        · cases h
        · rename_i hk
          exact absurd hk (parse_noKeyError _ false)
        · split at h
          · rename_i k' hk'
            exact absurd hk' (parseHeader_ne_uncaught _ k')
          · cases h
          · cases h
          · split at h
            · cases h
            · simp only [] at h
              split at h
              · cases h
              · split at h
                · cases h
                · split at h
                  · split at h <;> cases h
                  · cases h

theorem foldlM_parts_uncaught (cfg : Config) (ps : List Bytes) (f : Form) (k : String)
    (h : ps.foldlM (fun acc p => if p.isEmpty then Except.ok acc else parsePart cfg p acc) f = .error (.uncaught k)) :
    k = "UnicodeDecodeError" := by
  induction ps generalizing f with
  | nil => cases h
  | cons q qs ih =>
    rw [List.foldlM_cons] at h
    cases hq : (if q.isEmpty then Except.ok f else parsePart cfg q f) with
    | error e =>
      rw [hq] at h
      have h' : (Except.error e : Except Err Form) = .error (.uncaught k) := h
      injection h' with h'
      subst h'
      split at hq
      · cases hq
      · exact parsePart_uncaught cfg q f k hq
    | ok f1 =>
      rw [hq] at h
      exact ih f1 h

theorem parseMultipart_uncaught (cfg : Config) (b data : Bytes) (f : Form) (k : String)
    (h : parseMultipart cfg b data f = .error (.uncaught k)) : k = "UnicodeDecodeError" := by
  unfold parseMultipart at h
  split at h
  · cases h
  · simp only [] at h
    split at h
    · cases h
    · split at h
      · cases h
      · exact foldlM_parts_uncaught cfg _ f k h

end TornadoModel.C30
