/- C30 — the Content-Disposition round trip: `_parseparam` on quoted-string parameters, `email.utils.unquote ∘ quote`,
   and `_parse_header` on what `Spec.dispositionQ` writes -/
import TornadoModel.C30.Spec
import TornadoModel.C43.Lemmas
namespace TornadoModel.C30
open TornadoModel.C06 (Str)
open TornadoModel.C43 hiding segs parseparam parseHeader

/-! ### `str.replace` on two-character patterns -/

theorem replace2_ne (p q r c : Nat) (l : Str) (h : c ≠ p) : replace2 p q r (c :: l) = c :: replace2 p q r l := by
  cases l with
  | nil => simp [replace2]
  | cons d rest => simp [replace2, h]

theorem replace2_hit (p q r : Nat) (l : Str) : replace2 p q r (p :: q :: l) = r :: replace2 p q r l := by
  simp [replace2]

theorem replace2_miss (p q r d : Nat) (l : Str) (h : d ≠ q) :
    replace2 p q r (p :: d :: l) = p :: replace2 p q r (d :: l) := by
  simp [replace2, h]

theorem replace2_keep (p q r : Nat) (l : Str) (h : l.head? ≠ some q) : replace2 p q r (p :: l) = p :: replace2 p q r l := by
  cases l with
  | nil => simp [replace2]
  | cons d rest =>
    have : d ≠ q := fun e => h (by simp [e])
    exact replace2_miss p q r d rest this

/-- only the double quotes escaped -/
def half (s : Str) : Str := s.flatMap (fun c => if c = 34 then [92, 34] else [c])

theorem emailQuote_cons (c : Nat) (s : Str) :
    emailQuote (c :: s) = (if c = 92 ∨ c = 34 then [92, c] else [c]) ++ emailQuote s := by
  simp [emailQuote]

theorem emailQuote_append (a b : Str) : emailQuote (a ++ b) = emailQuote a ++ emailQuote b := by
  simp [emailQuote]

theorem half_cons (c : Nat) (s : Str) : half (c :: s) = (if c = 34 then [92, 34] else [c]) ++ half s := by
  simp [half]

theorem half_head (s : Str) : (half s).head? ≠ some 34 := by
  cases s with
  | nil => simp [half]
  | cons d ds =>
    rw [half_cons]
    split
    · simp
    · rename_i h; simp [h]

theorem replace_bs (s : Str) : replace2 92 92 92 (emailQuote s) = half s := by
  induction s with
  | nil => simp [emailQuote, half, replace2]
  | cons c cs ih =>
    rw [emailQuote_cons, half_cons]
    by_cases h92 : c = 92
    · subst h92
      simp only [true_or, if_true, List.cons_append, List.nil_append, show (92 : Nat) ≠ 34 by decide, if_false]
      rw [replace2_hit, ih]
    · by_cases h34 : c = 34
      · subst h34
        simp only [or_true, if_true, List.cons_append, List.nil_append]
        rw [replace2_miss _ _ _ _ _ (by decide), replace2_ne _ _ _ _ _ (by decide), ih]
      · simp only [h92, h34, or_self, if_false, List.cons_append, List.nil_append]
        rw [replace2_ne _ _ _ _ _ h92, ih]

theorem replace_q (s : Str) : replace2 92 34 34 (half s) = s := by
  induction s with
  | nil => simp [half, replace2]
  | cons c cs ih =>
    rw [half_cons]
    by_cases h34 : c = 34
    · subst h34
      simp only [if_true, List.cons_append, List.nil_append]
      rw [replace2_hit, ih]
    · simp only [h34, if_false, List.cons_append, List.nil_append]
      by_cases h92 : c = 92
      · subst h92
        rw [replace2_keep _ _ _ _ (half_head cs), ih]
      · rw [replace2_ne _ _ _ _ _ h92, ih]

/-- `email.utils.unquote` inverts `'"%s"' % email.utils.quote(s)` -/
theorem emailUnquote_quoted (s : Str) : emailUnquote (34 :: (emailQuote s ++ [34])) = s := by
  cases h : emailQuote s ++ [34] with
  | nil => simp at h
  | cons d ds =>
    have hl : (d :: ds).getLast? = some 34 := by rw [← h]; simp
    have hd : (d :: ds).dropLast = emailQuote s := by rw [← h]; simp
    simp only [emailUnquote, hl, Option.getD_some, dropLast, hd, and_self, if_true]
    rw [replace_bs, replace_q]

/-! ### `_parseparam` -/

theorem segs_split (cs : Str) (bs : Bool) : segs (59 :: cs) false bs = [] :: segs cs false false := by
  simp [segs]

theorem segs_step (c : Nat) (cs : Str) (odd bs : Bool) (hd : Str) (tl : List Str)
    (h : (decide (c = 59) && !odd) = false)
    (hr : segs cs (if (decide (c = 34) && !bs) = true then !odd else odd) (decide (c = 92) && !bs) = hd :: tl) :
    segs (c :: cs) odd bs = (c :: hd) :: tl := by
  rw [segs]
  simp only [h, Bool.false_eq_true, if_false]
  rw [hr]

/-- plain text without `;`, `"`, `\` -/
theorem segs_plain (w rest : Str) (odd bs : Bool) (hd : Str) (tl : List Str)
    (hw : ∀ c ∈ w, c ≠ 59 ∧ c ≠ 34 ∧ c ≠ 92) (hne : w ≠ [])
    (hr : segs rest odd false = hd :: tl) : segs (w ++ rest) odd bs = (w ++ hd) :: tl := by
  induction w generalizing bs with
  | nil => exact absurd rfl hne
  | cons c cs ih =>
    obtain ⟨h59, h34, h92⟩ := hw c List.mem_cons_self
    have hcs : ∀ x ∈ cs, x ≠ 59 ∧ x ≠ 34 ∧ x ≠ 92 := fun x hx => hw x (List.mem_cons_of_mem _ hx)
    simp only [List.cons_append]
    apply segs_step
    · simp [h59]
    · simp only [h34, h92, decide_false, Bool.false_and, Bool.false_eq_true, if_false]
      cases cs with
      | nil => simpa using hr
      | cons d ds => exact ih false hcs (by simp)

/-- inside a quoted string (`odd = true`) the escaped text is passed over without a split, without the parity changing
    and — every backslash the encoder writes being half of an escape pair — with the escape flag clear at the end,
    whatever the text ends in -/
theorem segs_quoted (s rest : Str) (hd : Str) (tl : List Str)
    (hr : segs rest true false = hd :: tl) :
    segs (emailQuote s ++ rest) true false = (emailQuote s ++ hd) :: tl := by
  induction s with
  | nil => simpa [emailQuote] using hr
  | cons c cs ih =>
    rw [emailQuote_cons]
    by_cases h92 : c = 92
    · subst h92
      simp only [true_or, if_true, List.cons_append, List.nil_append]
      apply segs_step _ _ _ _ _ _ (by simp)
      simp only [show decide ((92 : Nat) = 34) = false by decide, Bool.false_and, Bool.false_eq_true, if_false]
      apply segs_step _ _ _ _ _ _ (by simp)
      simpa using ih
    · by_cases h34 : c = 34
      · subst h34
        simp only [or_true, if_true, List.cons_append, List.nil_append]
        apply segs_step _ _ _ _ _ _ (by simp)
        simp only [show decide ((92 : Nat) = 34) = false by decide, Bool.false_and, Bool.false_eq_true, if_false]
        apply segs_step _ _ _ _ _ _ (by simp)
        simpa using ih
      · simp only [h92, h34, or_self, if_false, List.cons_append, List.nil_append]
        apply segs_step _ _ _ _ _ _ (by simp)
        simpa [h34, h92] using ih

/-- an unescaped double quote toggles the parity -/
theorem segs_quote (cs : Str) (odd : Bool) (hd : Str) (tl : List Str) (hr : segs cs (!odd) false = hd :: tl) :
    segs (34 :: cs) odd false = (34 :: hd) :: tl := by
  apply segs_step _ _ _ _ _ _ (by simp)
  simpa using hr

theorem segs_last_quote (odd bs : Bool) : segs [34] odd bs = [[34]] := by
  simp [segs]

/-- `"…"` with the escaped text of `s`, opened outside a quoted string: passes to `rest` outside a quoted string —
    also when `s` ends in a backslash (the closing quote then follows the escaped backslash `\\`; before the fix
    d01e7a8 it was taken for an escaped quote) -/
theorem segs_quotedString (s rest : Str) (hd : Str) (tl : List Str)
    (hr : segs rest false false = hd :: tl) :
    segs (34 :: (emailQuote s ++ 34 :: rest)) false false = (34 :: (emailQuote s ++ 34 :: hd)) :: tl := by
  apply segs_quote
  apply segs_quoted
  exact segs_quote rest true hd tl (by simpa using hr)

/-- the last parameter: nothing follows -/
theorem segs_quotedString_last (s : Str) :
    segs (34 :: (emailQuote s ++ [34])) false false = [34 :: (emailQuote s ++ [34])] := by
  apply segs_quote
  apply segs_quoted
  exact segs_last_quote _ _

/-! ### `strip` -/

theorem strip_of_ends (v : Str) (h1 : ∀ c ∈ v.head?, isPySpace c = false) (h2 : ∀ c ∈ v.getLast?, isPySpace c = false) :
    strip v = v := by
  unfold strip lstrip rstrip
  have hl : List.dropWhile isPySpace v = v := by
    cases v with
    | nil => rfl
    | cons a r => exact List.dropWhile_cons_of_neg (by simp [h1 a (by simp)])
  rw [hl]
  cases hv : v.reverse with
  | nil =>
    have : v = [] := by simpa using hv
    simp [this]
  | cons a r =>
    have ha : v.getLast? = some a := by
      rw [List.getLast?_eq_head?_reverse, hv]; rfl
    have := h2 a (by simp [ha])
    rw [List.dropWhile_cons_of_neg (by simp [this]), ← hv]
    simp

theorem strip_sp (v : Str) : strip (32 :: v) = strip v := by
  unfold strip lstrip
  rw [List.dropWhile_cons_of_pos (by decide)]

theorem getLast?_quoted_tail (pre x : Str) : (pre ++ 34 :: (x ++ [34])).getLast? = some 34 := by
  have : pre ++ 34 :: (x ++ [34]) = (pre ++ 34 :: x) ++ [34] := by simp
  rw [this, List.getLast?_append]
  simp

/-! ### `_parse_header` on the encoder's Content-Disposition value -/

/-- the value of the Content-Disposition header the encoder writes -/
def dispValue (name : Str) (filename : Option Str) : Str :=
  ofAscii "form-data; name=" ++ Spec.quoted name ++
    (match filename with | some fn => ofAscii "; filename=" ++ Spec.quoted fn | none => [])

def paramName (name : Str) : Str := ofAscii "name=" ++ Spec.quoted name
def paramFilename (fn : Str) : Str := ofAscii "filename=" ++ Spec.quoted fn

def fnSegs (filename : Option Str) : List Str :=
  match filename with | some fn => [paramFilename fn] | none => []
def fnParams (filename : Option Str) : List (Str × Str) :=
  match filename with | some fn => [(ofAscii "filename", fn)] | none => []

theorem quoted_eq (s : Str) : Spec.quoted s = 34 :: (emailQuote s ++ [34]) := by
  simp [Spec.quoted]

theorem parseparam_dispValue (name : Str) (filename : Option Str) :
    parseparam (dispValue name filename) =
      ofAscii "form-data" :: paramName name :: fnSegs filename := by
  have hsplit : ofAscii "form-data; name=" = ofAscii "form-data" ++ 59 :: ofAscii " name=" := by decide
  have hsplit2 : ofAscii "; filename=" = 59 :: ofAscii " filename=" := by decide
  have hp1 : ∀ c ∈ ofAscii "form-data", c ≠ 59 ∧ c ≠ 34 ∧ c ≠ 92 := by decide
  have hp2 : ∀ c ∈ ofAscii " name=", c ≠ 59 ∧ c ≠ 34 ∧ c ≠ 92 := by decide
  have hp3 : ∀ c ∈ ofAscii " filename=", c ≠ 59 ∧ c ≠ 34 ∧ c ≠ 92 := by decide
  have hs1 : strip (ofAscii "form-data") = ofAscii "form-data" := by decide
  have hname : strip (ofAscii " name=" ++ Spec.quoted name) = paramName name := by
    have : ofAscii " name=" = 32 :: ofAscii "name=" := by decide
    rw [this, List.cons_append, strip_sp, paramName, quoted_eq]
    apply strip_of_ends
    · intro c hc
      have : c = 110 := by
        have h : (ofAscii "name=" ++ 34 :: (emailQuote name ++ [34])).head? = some 110 := by
          have : ofAscii "name=" = 110 :: ofAscii "ame=" := by decide
          rw [this]; rfl
        rw [h] at hc; simpa using hc.symm
      subst this; decide
    · intro c hc
      have h : (ofAscii "name=" ++ 34 :: (emailQuote name ++ [34])).getLast? = some 34 := getLast?_quoted_tail _ _
      rw [h] at hc
      have : c = 34 := by simpa using hc.symm
      subst this; decide
  have hfile : ∀ fn, strip (ofAscii " filename=" ++ Spec.quoted fn) = paramFilename fn := by
    intro fn
    have : ofAscii " filename=" = 32 :: ofAscii "filename=" := by decide
    rw [this, List.cons_append, strip_sp, paramFilename, quoted_eq]
    apply strip_of_ends
    · intro c hc
      have : c = 102 := by
        have h : (ofAscii "filename=" ++ 34 :: (emailQuote fn ++ [34])).head? = some 102 := by
          have : ofAscii "filename=" = 102 :: ofAscii "ilename=" := by decide
          rw [this]; rfl
        rw [h] at hc; simpa using hc.symm
      subst this; decide
    · intro c hc
      have h : (ofAscii "filename=" ++ 34 :: (emailQuote fn ++ [34])).getLast? = some 34 := getLast?_quoted_tail _ _
      rw [h] at hc
      have : c = 34 := by simpa using hc.symm
      subst this; decide
  unfold parseparam dispValue
  cases filename with
  | none =>
    have hsegs : segs (ofAscii "form-data; name=" ++ Spec.quoted name ++ []) false false =
        [ofAscii "form-data", ofAscii " name=" ++ Spec.quoted name] := by
      rw [hsplit, quoted_eq, List.append_nil, List.append_assoc]
      have h2 : segs (59 :: ofAscii " name=" ++ 34 :: (emailQuote name ++ [34])) false false =
          [] :: [ofAscii " name=" ++ 34 :: (emailQuote name ++ [34])] := by
        rw [List.cons_append, segs_split]
        congr 1
        exact segs_plain _ _ _ _ _ _ hp2 (by decide) (segs_quotedString_last name)
      have := segs_plain (ofAscii "form-data") _ false false _ _ hp1 (by decide) h2
      simpa using this
    simp only [hsegs, List.map_cons, List.map_nil, hs1, hname, fnSegs]
  | some fn =>
    have hsegs : segs (ofAscii "form-data; name=" ++ Spec.quoted name ++ (ofAscii "; filename=" ++ Spec.quoted fn)) false false =
        [ofAscii "form-data", ofAscii " name=" ++ Spec.quoted name, ofAscii " filename=" ++ Spec.quoted fn] := by
      rw [hsplit, hsplit2, quoted_eq, quoted_eq]
      have h3 : segs (59 :: ofAscii " filename=" ++ 34 :: (emailQuote fn ++ [34])) false false =
          [] :: [ofAscii " filename=" ++ 34 :: (emailQuote fn ++ [34])] := by
        rw [List.cons_append, segs_split]
        congr 1
        exact segs_plain _ _ _ _ _ _ hp3 (by decide) (segs_quotedString_last fn)
      have h2 : segs (59 :: ofAscii " name=" ++ 34 :: (emailQuote name ++ 34 ::
            (59 :: ofAscii " filename=" ++ 34 :: (emailQuote fn ++ [34])))) false false =
          [] :: [ofAscii " name=" ++ 34 :: (emailQuote name ++ 34 :: []), ofAscii " filename=" ++ 34 :: (emailQuote fn ++ [34])] := by
        rw [List.cons_append, segs_split]
        congr 1
        exact segs_plain _ _ _ _ _ _ hp2 (by decide) (segs_quotedString name _ _ _ h3)
      have := segs_plain (ofAscii "form-data") _ false false _ _ hp1 (by decide) h2
      simpa using this
    simp only [hsegs, List.map_cons, List.map_nil, hs1, hname, hfile, fnSegs]

theorem strip_quoted (s : Str) : strip (Spec.quoted s) = Spec.quoted s := by
  rw [quoted_eq]
  apply strip_of_ends
  · intro c hc
    have : c = 34 := by simpa using hc.symm
    subst this; decide
  · intro c hc
    have h : (34 :: (emailQuote s ++ [34])).getLast? = some 34 := getLast?_quoted_tail [] _
    rw [h] at hc
    have : c = 34 := by simpa using hc.symm
    subst this; decide

/-- `_parse_header` recovers the name and filename the encoder wrote -/
theorem parseHeader_dispValue (name : Str) (filename : Option Str) :
    parseHeader (dispValue name filename) =
      .ok (ofAscii "form-data", (ofAscii "name", name) :: fnParams filename) := by
  have hsf1 : splitFirst 61 (paramName name) = some (ofAscii "name", Spec.quoted name) := by
    have := splitFirst_append 61 (ofAscii "name") (Spec.quoted name) (by decide)
    have h : ofAscii "name=" = ofAscii "name" ++ [61] := by decide
    rw [paramName, h]
    simpa using this
  have hsf2 : ∀ fn, splitFirst 61 (paramFilename fn) = some (ofAscii "filename", Spec.quoted fn) := by
    intro fn
    have := splitFirst_append 61 (ofAscii "filename") (Spec.quoted fn) (by decide)
    have h : ofAscii "filename=" = ofAscii "filename" ++ [61] := by decide
    rw [paramFilename, h]
    simpa using this
  have hl1 : lowerAscii (strip (ofAscii "name")) = ofAscii "name" := by decide
  have hl2 : lowerAscii (strip (ofAscii "filename")) = ofAscii "filename" := by decide
  have hc1 : continuation (ofAscii "name") = none := by decide
  have hc2 : continuation (ofAscii "filename") = none := by decide
  have hne : (ofAscii "name" = ofAscii "filename") = False := by simp; decide
  have hu : ∀ s, emailUnquote (Spec.quoted s) = s := fun s => by rw [quoted_eq]; exact emailUnquote_quoted s
  have hu' : ∀ s : Str, emailUnquote ([34] ++ emailQuote s ++ [34]) = s := fun s => by
    have := emailUnquote_quoted s
    simpa using this
  unfold parseHeader
  rw [parseparam_dispValue name filename]
  cases filename with
  | none =>
    simp only [fnSegs, fnParams, rawParams, List.filterMap_cons, List.filterMap_nil, hsf1, Option.map_some, hl1, strip_quoted,
      groupParams, hc1, hu, List.nil_append, List.foldl_cons, List.foldl_nil, hu', C43.dset, C43.mixedConts, List.any_nil,
      Bool.false_eq_true, if_false, List.foldlM_nil, pure, Except.pure]
  | some fn =>
    simp only [fnSegs, fnParams, rawParams, List.filterMap_cons, List.filterMap_nil, hsf1, hsf2, Option.map_some, hl1, hl2, strip_quoted,
      groupParams, hc1, hc2, hu, List.nil_append, List.cons_append, List.foldl_cons, List.foldl_nil, emailUnquote_quoted, C43.dset, hne,
      C43.mixedConts, List.any_nil, Bool.false_eq_true, if_false, List.foldlM_nil, pure, Except.pure]

end TornadoModel.C30
