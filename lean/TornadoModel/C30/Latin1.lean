/- C30 — every field name `parse_qs_bytes` returns consists of code points below 256 (names are read as latin-1), whatever
   the body: a name with a character above U+00FF cannot be recovered from ANY urlencoded body -/
import TornadoModel.C30.Lemmas
namespace TornadoModel.C30
open TornadoModel.C06 (Str)
open TornadoModel.C43 (splitAll splitFirst pctBytes plusToSpace unquoteLatin1 asciiRuns isHexDigit hexVal isDigit)

abbrev Lt256 (s : List Nat) : Prop := ∀ c ∈ s, c < 256

theorem hexVal_lt (a : Nat) (h : isHexDigit a = true) : hexVal a < 16 := by
  unfold isHexDigit isDigit at h
  unfold hexVal isDigit
  simp only [Bool.or_eq_true, Bool.and_eq_true, decide_eq_true_eq] at h
  split
  · rename_i hd; simp only [Bool.and_eq_true, decide_eq_true_eq] at hd; omega
  · rename_i hd; simp only [Bool.and_eq_true, decide_eq_true_eq] at hd
    split <;> omega

theorem pctBytes_lt (s : List Nat) (h : Lt256 s) : Lt256 (pctBytes s) := by
  induction hn : s.length using Nat.strongRecOn generalizing s with
  | _ n ih =>
    intro c hc
    rw [pctBytes.eq_def] at hc
    split at hc
    · cases hc
    · rename_i a b rest
      split at hc
      · rename_i hh
        simp only [Bool.and_eq_true] at hh
        rcases List.mem_cons.mp hc with rfl | hc'
        · have := hexVal_lt a hh.1
          have := hexVal_lt b hh.2
          omega
        · exact ih rest.length (by subst hn; simp; omega) rest
            (fun x hx => h x (by simp [hx])) rfl c hc'
      · rcases List.mem_cons.mp hc with rfl | hc'
        · decide
        · exact ih (a :: b :: rest).length (by subst hn; simp) (a :: b :: rest)
            (fun x hx => h x (List.mem_cons_of_mem _ hx)) rfl c hc'
    · rename_i c0 rest _
      rcases List.mem_cons.mp hc with rfl | hc'
      · exact h _ List.mem_cons_self
      · exact ih rest.length (by subst hn; simp) rest (fun x hx => h x (List.mem_cons_of_mem _ hx)) rfl c hc'

theorem mem_asciiRuns (s : List Nat) : ∀ p ∈ asciiRuns s, ∀ c ∈ p.2, c ∈ s := by
  induction s with
  | nil => intro p hp; simp [asciiRuns] at hp
  | cons c cs ih =>
    intro p hp x hx
    simp only [asciiRuns] at hp
    split at hp
    · rename_i a' w rest hr
      have ihw : ∀ y ∈ w, y ∈ cs := ih (a', w) (by rw [hr]; exact List.mem_cons_self)
      have ihr : ∀ q ∈ rest, ∀ y ∈ q.2, y ∈ cs := fun q hq => ih q (by rw [hr]; exact List.mem_cons_of_mem _ hq)
      split at hp
      · rcases List.mem_cons.mp hp with rfl | hp'
        · rcases List.mem_cons.mp hx with rfl | hx'
          · exact List.mem_cons_self
          · exact List.mem_cons_of_mem _ (ihw x hx')
        · exact List.mem_cons_of_mem _ (ihr p hp' x hx)
      · rcases List.mem_cons.mp hp with rfl | hp'
        · have : x = c := by simpa using hx
          subst this; exact List.mem_cons_self
        · rcases List.mem_cons.mp hp' with rfl | hp''
          · exact List.mem_cons_of_mem _ (ihw x hx)
          · exact List.mem_cons_of_mem _ (ihr p hp'' x hx)
    · have : p = (decide (c < 128), [c]) := by simpa using hp
      subst this
      have : x = c := by simpa using hx
      subst this; exact List.mem_cons_self

theorem unquoteLatin1_lt (s : List Nat) (h : Lt256 s) : Lt256 (unquoteLatin1 s) := by
  intro c hc
  simp only [unquoteLatin1, List.mem_flatMap] at hc
  obtain ⟨p, hp, hcp⟩ := hc
  obtain ⟨a, w⟩ := p
  have hw : Lt256 w := fun x hx => h x (mem_asciiRuns s (a, w) hp x hx)
  simp only at hcp
  split at hcp
  · exact pctBytes_lt w hw c hcp
  · exact hw c hcp

theorem plusToSpace_lt256 (s : List Nat) (h : Lt256 s) : Lt256 (plusToSpace s) := by
  intro c hc
  simp only [plusToSpace, List.mem_map] at hc
  obtain ⟨a, ha, rfl⟩ := hc
  split
  · omega
  · exact h a ha

theorem mem_splitAll (sep : Nat) (s : Str) : ∀ w ∈ splitAll sep s, ∀ c ∈ w, c ∈ s := by
  induction s with
  | nil => intro w hw c hc; simp [splitAll] at hw; subst hw; cases hc
  | cons x xs ih =>
    intro w hw c hc
    simp only [splitAll] at hw
    split at hw
    · rcases List.mem_cons.mp hw with rfl | hw'
      · cases hc
      · exact List.mem_cons_of_mem _ (ih w hw' c hc)
    · split at hw
      · have : w = [x] := by simpa using hw
        subst this
        have : c = x := by simpa using hc
        subst this; exact List.mem_cons_self
      · rename_i w0 ws hr
        rcases List.mem_cons.mp hw with rfl | hw'
        · rcases List.mem_cons.mp hc with rfl | hc'
          · exact List.mem_cons_self
          · exact List.mem_cons_of_mem _ (ih w0 (by rw [hr]; exact List.mem_cons_self) c hc')
        · exact List.mem_cons_of_mem _ (ih w (by rw [hr]; exact List.mem_cons_of_mem _ hw') c hc)

/-- all keys satisfy `Lt256` -/
def KeysLt (d : List (Str × List Bytes)) : Prop := ∀ kv ∈ d, Lt256 kv.1

theorem keysLt_dset (k : Str) (v : List Bytes) (d : List (Str × List Bytes)) (hk : Lt256 k) (hd : KeysLt d) :
    KeysLt (dset k v d) := by
  induction d with
  | nil => intro kv hkv; simp [dset] at hkv; subst hkv; exact hk
  | cons e r ih =>
    obtain ⟨k', v'⟩ := e
    intro kv hkv
    simp only [dset] at hkv
    split at hkv
    · rcases List.mem_cons.mp hkv with rfl | h'
      · exact hd (k', v') List.mem_cons_self
      · exact hd kv (List.mem_cons_of_mem _ h')
    · rcases List.mem_cons.mp hkv with rfl | h'
      · exact hd (k', v') List.mem_cons_self
      · exact ih (fun x hx => hd x (List.mem_cons_of_mem _ hx)) kv h'

theorem keysLt_qsStep (d : List (Str × List Bytes)) (nv : Bytes) (hd : KeysLt d) (hnv : Lt256 nv) : KeysLt (qsStep d nv) := by
  unfold qsStep
  split
  · exact hd
  · simp only []
    cases hs : splitFirst 61 nv with
    | none =>
      exact keysLt_dset _ _ _ (unquoteLatin1_lt _ (plusToSpace_lt256 _ hnv)) hd
    | some p =>
      obtain ⟨n, v⟩ := p
      obtain ⟨he, _⟩ := C43.splitFirst_some 61 nv n v hs
      have hn : Lt256 n := fun c hc => hnv c (by rw [he]; exact List.mem_append_left _ hc)
      exact keysLt_dset _ _ _ (unquoteLatin1_lt _ (plusToSpace_lt256 _ hn)) hd

theorem keysLt_foldl (ws : List Bytes) (d : List (Str × List Bytes)) (hd : KeysLt d) (hws : ∀ w ∈ ws, Lt256 w) :
    KeysLt (ws.foldl qsStep d) := by
  induction ws generalizing d with
  | nil => exact hd
  | cons w ws ih =>
    exact ih _ (keysLt_qsStep d w hd (hws w List.mem_cons_self)) (fun x hx => hws x (List.mem_cons_of_mem _ hx))

theorem parseQsBytes_keysLt (body : Bytes) (hb : Lt256 body) : KeysLt (parseQsBytes body) := by
  rw [parseQsBytes_eq]
  exact keysLt_foldl _ [] (fun kv h => by cases h) (fun w hw c hc => hb c (mem_splitAll 38 body w hw c hc))

end TornadoModel.C30
