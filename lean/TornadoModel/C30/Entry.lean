/- C30 — the multipart round trip at the `parse_body_arguments` entry: the boundary travels in the Content-Type header
   `multipart/form-data; boundary=<text>` and is found by the `split(";")` / `strip` / `partition("=")` loop -/
import TornadoModel.C30.Multipart
import TornadoModel.C30.Lemmas
namespace TornadoModel.C30
open TornadoModel.C06 (Str)
open TornadoModel.C43 (ofAscii utf8Enc strip splitAll splitFirst isPySpace)
open TornadoModel

def sMP : Str := ofAscii "multipart/form-data"

/-- the Content-Type header carrying the boundary text `bt` -/
def ctHeader (bt : Str) : Str := ofAscii "multipart/form-data; boundary=" ++ bt

/-- a boundary text that the header carries unchanged: non-empty, no `;`, not ending in whitespace, scalar values -/
structure BoundaryText (bt : Str) : Prop where
  ne : bt ≠ []
  semi : 59 ∉ bt
  last : ∀ c ∈ bt.getLast?, isPySpace c = false
  scalar : bt.all Wire.isScalar = true

theorem mem_getLast_append' (l l' : Str) (h : l' ≠ []) (c : Nat) (hc : c ∈ (l ++ l').getLast?) : c ∈ l'.getLast? := by
  rw [List.getLast?_append] at hc
  cases hl : l'.getLast? with
  | none => exact absurd (List.getLast?_eq_none_iff.mp hl) h
  | some x => rw [hl] at hc; simpa using hc

theorem parseBody_multipart (cfg : Config) (bt : Str) (hbt : BoundaryText bt) (body : Bytes) :
    parseBody cfg (ctHeader bt) body false = collapse (parseMultipart cfg (utf8Enc bt) body {}) := by
  have e1 : ctHeader bt = 109 :: (ofAscii "ultipart/form-data; boundary=" ++ bt) := by
    have : ofAscii "multipart/form-data; boundary=" = 109 :: ofAscii "ultipart/form-data; boundary=" := by decide
    rw [ctHeader, this]; rfl
  have e2 : ctHeader bt = sMP ++ 59 :: (ofAscii " boundary=" ++ bt) := by
    have : ofAscii "multipart/form-data; boundary=" = sMP ++ 59 :: ofAscii " boundary=" := by decide
    rw [ctHeader, this]; simp
  have h1 : startsWith (ctHeader bt) (ofAscii "application/x-www-form-urlencoded") = false := by
    have : ofAscii "application/x-www-form-urlencoded" = 97 :: ofAscii "pplication/x-www-form-urlencoded" := by decide
    rw [startsWith, e1, this]
    exact isPrefix_head_ne 97 _ 109 _ (by decide)
  have h2 : startsWith (ctHeader bt) (ofAscii "multipart/form-data") = true := by
    rw [startsWith, e2]
    exact isPrefix_append sMP _
  have hB59 : 59 ∉ ofAscii " boundary=" ++ bt := by
    intro hm
    rcases List.mem_append.mp hm with h | h
    · revert h; decide
    · exact hbt.semi h
  have hfields : splitAll 59 (ctHeader bt) = [sMP, ofAscii " boundary=" ++ bt] := by
    rw [e2, splitAll_append_sep 59 sMP _ (by decide), splitAll_no_sep 59 _ hB59]
  have hs0 : strip sMP = ofAscii "multipart/form-data" := by decide
  have hsf0 : splitFirst 61 (strip sMP) = none := by decide
  have hstrip : strip (ofAscii " boundary=" ++ bt) = ofAscii "boundary" ++ 61 :: bt := by
    have : ofAscii " boundary=" = 32 :: (ofAscii "boundary" ++ [61]) := by decide
    rw [this, List.cons_append, strip_sp]
    have e : ofAscii "boundary" ++ [61] ++ bt = ofAscii "boundary" ++ 61 :: bt := by simp
    rw [e]
    apply strip_of_ends
    · intro c hc
      have h : (ofAscii "boundary" ++ 61 :: bt).head? = some 98 := by
        have : ofAscii "boundary" = 98 :: ofAscii "oundary" := by decide
        rw [this]; rfl
      rw [h] at hc
      have : c = 98 := by simpa using hc.symm
      subst this; decide
    · intro c hc
      have : ofAscii "boundary" ++ 61 :: bt = (ofAscii "boundary" ++ [61]) ++ bt := by simp
      rw [this] at hc
      exact hbt.last c (mem_getLast_append' _ _ hbt.ne c hc)
  have hsf : splitFirst 61 (ofAscii "boundary" ++ 61 :: bt) = some (ofAscii "boundary", bt) :=
    C43.splitFirst_append 61 _ _ (by decide)
  have hne : bt.isEmpty = false := by
    cases hb : bt with
    | nil => exact absurd hb hbt.ne
    | cons a r => rfl
  have hfb : findBoundary [sMP, ofAscii " boundary=" ++ bt] = some bt := by
    simp only [findBoundary, hsf0, hstrip, hsf, hne, Bool.not_false, and_self, if_true]
  have hsur : bt.any (fun c => decide (55296 ≤ c) && decide (c ≤ 57343)) = false := by
    rw [List.any_eq_false]
    intro c hc
    have := List.all_eq_true.mp hbt.scalar c hc
    simp only [Wire.isScalar, Bool.or_eq_true, Bool.and_eq_true, decide_eq_true_eq] at this
    simp only [Bool.and_eq_true, decide_eq_true_eq]
    omega
  unfold parseBody
  simp only [h1, h2, Bool.false_eq_true, if_false, if_true, hfields, List.head?_cons, Option.getD_some, hs0, ne_eq,
    not_true_eq_false, hfb, hsur]

end TornadoModel.C30
