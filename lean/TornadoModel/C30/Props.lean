/- C30 — property theorems -/
import TornadoModel.C30.Lemmas
import TornadoModel.Base.Wire
namespace TornadoModel.C30
open TornadoModel.C06 (Str)
open TornadoModel

theorem collapse_not_uncaught {α} (r : Except Err α) : Spec.isUncaught (collapse r) = false := by
  cases r with
  | ok a => rfl
  | error e => cases e <;> rfl

/-- At the `parse_body_arguments` entry no content type, body, configuration or header set yields an exception
    other than HTTPInputError. -/
theorem only_input_error (cfg : Config) (ct : Str) (body : Bytes) (ce : Bool) :
    Spec.isUncaught (parseBody cfg ct body ce) = false := by
  unfold parseBody
  split
  · split <;> rfl
  · split
    · split
      · rfl
      · simp only []
        split
        · rfl
        · split
          · rfl
          · split
            · rfl
            · exact collapse_not_uncaught _
    · rfl

/-! ### urlencoded forms -/

/-- `urlencoded_roundtrip`: any list of fields (latin-1 names, arbitrary byte values, repeated names, empty values)
    written as `name=value&…` with percent-encoding is parsed back to exactly those fields, grouped by name in order
    of first appearance. -/
theorem urlencoded_roundtrip (fields : List (Str × Bytes))
    (hb : ∀ f ∈ fields, f.1.all (· < 256) = true ∧ f.2.all (· < 256) = true) :
    parseQsBytes (Spec.encodeUrlencoded fields) = Spec.expectedFields fields := by
  rw [parseQsBytes_eq]
  cases fields with
  | nil => rfl
  | cons f fs =>
    have hmap : Spec.encodeUrlencoded (f :: fs) = C06.joinWith [38] ((f :: fs).map encField) := by
      simp only [Spec.encodeUrlencoded, encField]
      congr 1
    rw [hmap, splitAll_joinWith 38 _ (by simp)]
    · exact foldl_enc (f :: fs) [] hb
    · intro w hw
      simp only [List.mem_map] at hw
      obtain ⟨g, hg, rfl⟩ := hw
      exact encField_no_amp g.1 g.2 (hb g hg).1 (hb g hg).2

/-- the same at the `parse_body_arguments` entry -/
theorem urlencoded_roundtrip_entry (cfg : Config) (fields : List (Str × Bytes))
    (hb : ∀ f ∈ fields, f.1.all (· < 256) = true ∧ f.2.all (· < 256) = true) :
    parseBody cfg (C43.ofAscii "application/x-www-form-urlencoded") (Spec.encodeUrlencoded fields) false =
      .ok { arguments := Spec.expectedFields fields } := by
  have hs : startsWith (C43.ofAscii "application/x-www-form-urlencoded") (C43.ofAscii "application/x-www-form-urlencoded") = true := by
    decide
  simp only [parseBody, hs, if_true, Bool.false_eq_true, if_false]
  rw [urlencoded_roundtrip fields hb]

example : ∀ f ∈ [(([97, 32, 233] : Str), ([0, 255, 38, 61] : Bytes)), ([97, 32, 233], [])],
    f.1.all (· < 256) = true ∧ f.2.all (· < 256) = true := by decide

/-! ### multipart round trip (stated; tie only) -/

/-- hypotheses of the lossless clause for the quoted-string form -/
structure WellFormed (cfg : Config) (b : Bytes) (parts : List Spec.Part) : Prop where
  enabled : cfg.enabled = true
  count : parts.length ≤ cfg.maxParts
  boundary_ne : b ≠ []
  boundary_plain : b.head? ≠ some 34
  /-- the delimiter `--boundary` occurs nowhere in what the encoder writes for a part -/
  fresh : ∀ p ∈ parts, Spec.occurs (dashes ++ b) (Spec.contentOf Spec.dispositionQ p) = false
  header_size : ∀ p ∈ parts, (C43.utf8Enc (Spec.dispositionQ p)).length +
      (match p.ctype with | some ct => 2 + (C43.utf8Enc (C43.ofAscii "Content-Type: " ++ ct)).length | none => 0) ≤ cfg.maxPartHeaderSize
  names : ∀ p ∈ parts, p.name ≠ [] ∧ C06.hasForbidden p.name = false ∧ p.name.all Wire.isScalar = true
  filenames : ∀ p ∈ parts, ∀ fn, p.filename = some fn → fn ≠ [] ∧ C06.hasForbidden fn = false ∧ fn.all Wire.isScalar = true
  ctypes : ∀ p ∈ parts, ∀ ct, p.ctype = some ct → C06.hasForbidden ct = false ∧ C06.stripWs ct = ct ∧ ct.all Wire.isScalar = true

/-- the full lossless statement for the quoted-string form (false: see `multipart_trailing_backslash_refuted`) -/
def multipart_roundtrip_full : Prop :=
  ∀ (cfg : Config) (b : Bytes) (parts : List Spec.Part), WellFormed cfg b parts →
    parseMultipart cfg b (Spec.encodeMultipart b parts) {} = .ok (Spec.expected parts)

/-- the statement believed true of the code as it is: additionally no upload's field *name* ends in a backslash.
    Not proved here (tie only: every generated form that satisfies the hypotheses is compared with `Spec.expected`). -/
def multipart_roundtrip_goal : Prop :=
  ∀ (cfg : Config) (b : Bytes) (parts : List Spec.Part), WellFormed cfg b parts →
    (∀ p ∈ parts, p.filename.isSome → p.name.getLast? ≠ some 92) →
    parseMultipart cfg b (Spec.encodeMultipart b parts) {} = .ok (Spec.expected parts)

/-- known finding `multipart/lossy/name-trailing-backslash`, at the `_parse_header` level: the Content-Disposition the
    encoder writes for the upload `name = \`, `filename = f` is parsed into a single parameter
    `name = \"; filename="f` — the escaped backslash makes `_parseparam` count the closing quote as escaped. -/
theorem multipart_trailing_backslash_refuted :
    (C43.parseHeader (C43.ofAscii "form-data; name=\"\\\\\"; filename=\"f\"")).toOption =
      some (C43.ofAscii "form-data", [(C43.ofAscii "name", C43.ofAscii "\"; filename=\"f")]) := by
  decide

/-! ### limits -/

/-- the pieces `parse_multipart_form_data` iterates over, when there is a final boundary -/
def pieces (b data : Bytes) : Option (List Bytes) :=
  (rfindSub (dashes ++ unquoteBoundary b ++ dashes) data).map
    (fun idx => splitOn (dashes ++ unquoteBoundary b ++ crlf) (data.take idx))

/-- `limits_enforced` (part count, both directions): a body is refused *exactly* because of the count when it has more
    than `max_parts` boundary-delimited parts; success implies the count is within the limit. -/
theorem parseMultipart_ok (cfg : Config) (b data : Bytes) (f r : Form)
    (h : parseMultipart cfg b data f = .ok r) :
    ∃ idx, rfindSub (dashes ++ unquoteBoundary b ++ dashes) data = some idx ∧
      ¬ ((splitOn (dashes ++ unquoteBoundary b ++ crlf) (data.take idx)).length - 1 > cfg.maxParts) ∧
      (splitOn (dashes ++ unquoteBoundary b ++ crlf) (data.take idx)).foldlM
        (fun acc p => if p.isEmpty then Except.ok acc else parsePart cfg p acc) f = .ok r := by
  unfold parseMultipart at h
  split at h
  · cases h
  · simp only [] at h
    split at h
    · cases h
    · rename_i idx hi
      split at h
      · cases h
      · rename_i hle
        exact ⟨idx, hi, hle, h⟩

theorem limits_enforced_parts (cfg : Config) (b data : Bytes) (f r : Form)
    (h : parseMultipart cfg b data f = .ok r) :
    ∃ ps, pieces b data = some ps ∧ ps.length - 1 ≤ cfg.maxParts := by
  obtain ⟨idx, hi, hle, _⟩ := parseMultipart_ok cfg b data f r h
  refine ⟨_, ?_, Nat.le_of_not_gt hle⟩
  unfold pieces
  rw [hi]
  rfl

theorem limits_enforced_parts_reject (cfg : Config) (b data : Bytes) (f : Form) (ps : List Bytes)
    (hp : pieces b data = some ps) (hgt : ps.length - 1 > cfg.maxParts) :
    parseMultipart cfg b data f = .error .httpInput := by
  unfold parseMultipart
  split
  · rfl
  · simp only []
    unfold pieces at hp
    split
    · rfl
    · rename_i idx hi
      rw [hi] at hp
      simp only [Option.map_some, Option.some.injEq] at hp
      subst hp
      rw [if_pos hgt]

theorem parsePart_ok_header (cfg : Config) (part : Bytes) (f f' : Form) (h : parsePart cfg part f = .ok f') :
    ∃ eoh, findSub [13, 10, 13, 10] part = some eoh ∧ eoh ≤ cfg.maxPartHeaderSize := by
  unfold parsePart at h
  cases he : findSub [13, 10, 13, 10] part with
  | none => simp [he] at h
  | some eoh =>
    simp only [he] at h
    split at h
    · simp at h
    · rename_i hle
      exact ⟨eoh, rfl, by omega⟩

theorem foldlM_parts_ok (cfg : Config) (ps : List Bytes) (f r : Form)
    (h : ps.foldlM (fun acc p => if p.isEmpty then Except.ok acc else parsePart cfg p acc) f = .ok r) :
    ∀ p ∈ ps, p ≠ [] → ∃ eoh, findSub [13, 10, 13, 10] p = some eoh ∧ eoh ≤ cfg.maxPartHeaderSize := by
  induction ps generalizing f with
  | nil => intro p hp; cases hp
  | cons q qs ih =>
    intro p hp hne
    rw [List.foldlM_cons] at h
    cases hq : (if q.isEmpty then Except.ok f else parsePart cfg q f) with
    | error e =>
      rw [hq] at h
      cases h
    | ok f1 =>
      rw [hq] at h
      have h' : qs.foldlM (fun acc p => if p.isEmpty then Except.ok acc else parsePart cfg p acc) f1 = .ok r := h
      rcases List.mem_cons.mp hp with rfl | hp'
      · have hemp : p.isEmpty = false := by cases p <;> simp_all
        rw [hemp] at hq
        exact parsePart_ok_header cfg p f f1 hq
      · exact ih f1 h' p hp' hne

/-- `limits_enforced` (part header size): when parsing succeeds every non-empty part has its header block
    (the bytes before the first blank line) within `max_part_header_size`. -/
theorem limits_enforced_header (cfg : Config) (b data : Bytes) (f r : Form)
    (h : parseMultipart cfg b data f = .ok r) :
    ∃ ps, pieces b data = some ps ∧
      ∀ p ∈ ps, p ≠ [] → ∃ eoh, findSub [13, 10, 13, 10] p = some eoh ∧ eoh ≤ cfg.maxPartHeaderSize := by
  obtain ⟨idx, hi, _, hf⟩ := parseMultipart_ok cfg b data f r h
  refine ⟨_, ?_, foldlM_parts_ok cfg _ f r hf⟩
  unfold pieces
  rw [hi]
  rfl

end TornadoModel.C30
