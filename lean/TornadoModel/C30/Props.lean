/- C30 — property theorems -/
import TornadoModel.C30.Spec
namespace TornadoModel.C30
open TornadoModel.C06 (Str)

theorem collapse_not_uncaught {α} (r : Except Err α) : Spec.isUncaught (collapse r) = false := by
  cases r with
  | ok a => rfl
  | error e => cases e <;> rfl

/-- At the `parse_body_arguments` entry no content type, body, configuration or header set yields an exception
    other than HTTPInputError. -/
theorem only_input_error (cfg : Config) (ct : Str) (body : Bytes) (ce : Bool) :
    Spec.isUncaught (parseBody cfg ct body ce) = false := by
  unfold parseBody
  split
  · split <;> rfl
  · split
    · split
      · rfl
      · simp only []
        split
        · rfl
        · split
          · rfl
          · split
            · rfl
            · exact collapse_not_uncaught _
    · rfl

end TornadoModel.C30
