/- C30 — property theorems -/
import TornadoModel.C30.Lemmas
import TornadoModel.C30.Multipart
import TornadoModel.C30.Multipart2231
import TornadoModel.C30.Inner
import TornadoModel.C30.Latin1
import TornadoModel.C30.Entry
import TornadoModel.Base.Wire
namespace TornadoModel.C30
open TornadoModel.C06 (Str)
open TornadoModel

theorem collapse_not_uncaught {α} (r : Except Err α) : Spec.isUncaught (collapse r) = false := by
  cases r with
  | ok a => rfl
  | error e => cases e <;> rfl

/-- At the `parse_body_arguments` entry no content type, body, configuration or header set yields an exception
    other than HTTPInputError. -/
theorem only_input_error (cfg : Config) (ct : Str) (body : Bytes) (ce : Bool) :
    Spec.isUncaught (parseBody cfg ct body ce) = false := by
  unfold parseBody
  split
  · split <;> rfl
  · split
    · split
      · rfl
      · simp only []
        split
        · rfl
        · split
          · rfl
          · split
            · rfl
            · exact collapse_not_uncaught _
    · rfl

/-! ### what the catch-all of `parse_body_arguments` has to catch -/

/-- `multipart_inner_exceptions`: at the `parse_multipart_form_data` entry — OUTSIDE the `except Exception` of
    `parse_body_arguments`, where the exception type is observable and is compared with the real code on every case — the
    only exception type other than HTTPInputError is UnicodeDecodeError (a part header block that is not UTF-8), for every
    configuration, boundary, body and pre-filled result.  (`HTTPHeaders.parse` on a fresh object never raises KeyError:
    `part_headers_never_keyerror`; the fixed `_parse_header` raises nothing.)  This is the content behind `only_input_error`,
    which by itself only restates the catch-all. -/
theorem multipart_inner_exceptions (cfg : Config) (b data : Bytes) (f : Form) (k : String)
    (h : parseMultipart cfg b data f = .error (.uncaught k)) : k = "UnicodeDecodeError" :=
  parseMultipart_uncaught cfg b data f k h

theorem utf8Strict_ff : utf8Strict [255, 58, 32, 120] = none := by
  have h : C43.utf8Dec [255, 58, 32, 120] = [65533, 58, 32, 120] := by
    rw [C43.utf8Dec.eq_def]
    simp only [show ¬ (255 < 128) by decide, if_false, show (decide (194 ≤ 255) && decide (255 ≤ 223)) = false by decide,
      show (decide (224 ≤ 255) && decide (255 ≤ 239)) = false by decide,
      show (decide (240 ≤ 255) && decide (255 ≤ 244)) = false by decide, Bool.false_eq_true]
    rw [utf8Dec_1 58 _ (by decide), utf8Dec_1 32 _ (by decide), utf8Dec_1 120 _ (by decide), C43.utf8Dec.eq_def]
  unfold utf8Strict
  simp only [h]
  decide

theorem parsePart_ff (f : Form) :
    parsePart {} [255, 58, 32, 120, 13, 10, 13, 10, 118, 13, 10] f = .error (.uncaught "UnicodeDecodeError") := by
  have hfind : findSub [13, 10, 13, 10] [255, 58, 32, 120, 13, 10, 13, 10, 118, 13, 10] = some 4 := by decide
  have htake : List.take 4 [255, 58, 32, 120, 13, 10, 13, 10, 118, 13, 10] = [255, 58, 32, 120] := by decide
  have hsz : ¬ (4 > ({} : Config).maxPartHeaderSize) := by decide
  unfold parsePart
  simp only [hfind, hsz, if_false, htake, utf8Strict_ff]

/-- and it does happen, so the catch-all is needed: the body `--b CRLF 0xFF: x CRLF CRLF v CRLF --b--` -/
theorem multipart_inner_unicode_error :
    parseMultipart {} [98] [45, 45, 98, 13, 10, 255, 58, 32, 120, 13, 10, 13, 10, 118, 13, 10, 45, 45, 98, 45, 45] {} =
      .error (.uncaught "UnicodeDecodeError") := by
  have hr : rfindSub (dashes ++ unquoteBoundary [98] ++ dashes)
      [45, 45, 98, 13, 10, 255, 58, 32, 120, 13, 10, 13, 10, 118, 13, 10, 45, 45, 98, 45, 45] = some 16 := by decide
  have hs : splitOn (dashes ++ unquoteBoundary [98] ++ crlf)
      (List.take 16 [45, 45, 98, 13, 10, 255, 58, 32, 120, 13, 10, 13, 10, 118, 13, 10, 45, 45, 98, 45, 45]) =
      [[], [255, 58, 32, 120, 13, 10, 13, 10, 118, 13, 10]] := by decide
  have hn : ¬ (([[], [255, 58, 32, 120, 13, 10, 13, 10, 118, 13, 10]] : List Bytes).length - 1 > ({} : Config).maxParts) := by
    decide
  unfold parseMultipart
  simp only [Bool.not_true, Bool.false_eq_true, if_false, hr, hs, hn, List.foldlM_cons, List.foldlM_nil, List.isEmpty_nil,
    List.isEmpty_cons, if_true, parsePart_ff, bind, Except.bind, pure, Except.pure]

/-- `HTTPHeaders.parse(text)` on a fresh object never raises KeyError (its `_last_key` always names an existing entry) -/
theorem part_headers_never_keyerror (text : Str) (cb : Bool) : C06.parse text cb ≠ .error .keyError :=
  parse_noKeyError text cb

/-- the three outcomes at the `parse_body_arguments` entry: a result, HTTPInputError, or the model gives up (`unmodelled`: an
    RFC 2231 charset other than utf-8 / us-ascii / latin-1 in some part — there the clause rests on the tie's oracle) -/
theorem parse_body_outcomes (cfg : Config) (ct : Str) (body : Bytes) (ce : Bool) :
    (∃ f, parseBody cfg ct body ce = .ok f) ∨ parseBody cfg ct body ce = .error .httpInput ∨
      parseBody cfg ct body ce = .error .unmodelled := by
  have h := only_input_error cfg ct body ce
  cases hr : parseBody cfg ct body ce with
  | ok f => exact Or.inl ⟨f, rfl⟩
  | error e =>
    cases e with
    | httpInput => exact Or.inr (Or.inl rfl)
    | unmodelled => exact Or.inr (Or.inr rfl)
    | uncaught k => rw [hr] at h; cases h

/-! ### urlencoded forms -/

/-- `urlencoded_roundtrip`: any list of fields (latin-1 names, arbitrary byte values, repeated names, empty values)
    written as `name=value&…` with percent-encoding is parsed back to exactly those fields, grouped by name in order
    of first appearance. -/
theorem urlencoded_roundtrip (fields : List (Str × Bytes))
    (hb : ∀ f ∈ fields, f.1.all (· < 256) = true ∧ f.2.all (· < 256) = true) :
    parseQsBytes (Spec.encodeUrlencoded fields) = Spec.expectedFields fields := by
  rw [parseQsBytes_eq]
  cases fields with
  | nil => rfl
  | cons f fs =>
    have hmap : Spec.encodeUrlencoded (f :: fs) = C06.joinWith [38] ((f :: fs).map encField) := by
      simp only [Spec.encodeUrlencoded, encField]
      congr 1
    rw [hmap, splitAll_joinWith 38 _ (by simp)]
    · exact foldl_enc (f :: fs) [] hb
    · intro w hw
      simp only [List.mem_map] at hw
      obtain ⟨g, hg, rfl⟩ := hw
      exact encField_no_amp g.1 g.2 (hb g hg).1 (hb g hg).2

/-- the same at the `parse_body_arguments` entry -/
theorem urlencoded_roundtrip_entry (cfg : Config) (fields : List (Str × Bytes))
    (hb : ∀ f ∈ fields, f.1.all (· < 256) = true ∧ f.2.all (· < 256) = true) :
    parseBody cfg (C43.ofAscii "application/x-www-form-urlencoded") (Spec.encodeUrlencoded fields) false =
      .ok { arguments := Spec.expectedFields fields } := by
  have hs : startsWith (C43.ofAscii "application/x-www-form-urlencoded") (C43.ofAscii "application/x-www-form-urlencoded") = true := by
    decide
  simp only [parseBody, hs, if_true, Bool.false_eq_true, if_false]
  rw [urlencoded_roundtrip fields hb]

example : ∀ f ∈ [(([97, 32, 233] : Str), ([0, 255, 38, 61] : Bytes)), ([97, 32, 233], [])],
    f.1.all (· < 256) = true ∧ f.2.all (· < 256) = true := by decide

/-! ### urlencoded forms with non-ASCII names sent as UTF-8 (known finding `urlencoded/lossy/non-ascii-name-utf8`) -/

/-- the lossless clause for urlencoded forms whose names are arbitrary text, sent the standard way (percent-encoded UTF-8).
    False (`urlencoded_utf8_roundtrip_refuted`): `parse_qs_bytes` reads names as latin-1. -/
def urlencoded_utf8_roundtrip_full : Prop :=
  ∀ (fields : List (Str × Bytes)), (∀ f ∈ fields, f.1.all Wire.isScalar = true ∧ f.2.all (· < 256) = true) →
    parseQsBytes (Spec.encodeUrlencodedUtf8 fields) = Spec.expectedFields fields

/-- what comes back instead: every name as the latin-1 reading of its UTF-8 bytes (values are recovered exactly) -/
theorem urlencoded_utf8_names_mojibake (fields : List (Str × Bytes))
    (hb : ∀ f ∈ fields, f.1.all Wire.isScalar = true ∧ f.2.all (· < 256) = true) :
    parseQsBytes (Spec.encodeUrlencodedUtf8 fields) =
      Spec.expectedFields (fields.map (fun (n, v) => (C43.utf8Enc n, v))) := by
  unfold Spec.encodeUrlencodedUtf8
  apply urlencoded_roundtrip
  intro f hf
  simp only [List.mem_map] at hf
  obtain ⟨g, hg, rfl⟩ := hf
  refine ⟨?_, (hb g hg).2⟩
  rw [List.all_eq_true]
  intro b hbm
  simpa using R.utf8Enc_lt g.1 (hb g hg).1 b hbm

/-- `urlencoded_utf8_roundtrip_partial`: with ASCII names (the decidable side condition) the form is recovered exactly -/
theorem urlencoded_utf8_roundtrip_partial (fields : List (Str × Bytes))
    (hb : ∀ f ∈ fields, f.1.all (· < 128) = true ∧ f.2.all (· < 256) = true) :
    parseQsBytes (Spec.encodeUrlencodedUtf8 fields) = Spec.expectedFields fields := by
  have hmap : fields.map (fun (n, v) => (C43.utf8Enc n, v)) = fields := by
    refine (List.map_congr_left (g := id) ?_).trans (List.map_id fields)
    intro f hf
    obtain ⟨n, v⟩ := f
    have h1 := (hb (n, v) hf).1
    rw [List.all_eq_true] at h1
    have : C43.utf8Enc n = n := utf8Enc_ascii n (fun c hc => by simpa using h1 c hc)
    simp [this]
  unfold Spec.encodeUrlencodedUtf8
  rw [hmap]
  apply urlencoded_roundtrip
  intro f hf
  refine ⟨?_, (hb f hf).2⟩
  have h1 := (hb f hf).1
  rw [List.all_eq_true] at h1 ⊢
  intro c hc
  have := h1 c hc
  simp only [decide_eq_true_eq] at this ⊢
  omega

example : ∀ f ∈ [(([97, 32, 37] : Str), ([0, 255, 38, 61] : Bytes))], f.1.all (· < 128) = true ∧ f.2.all (· < 256) = true := by
  decide

/-- the single field `é=` (sent as `%C3%A9=`) comes back under the name `Ã©` -/
theorem urlencoded_utf8_roundtrip_refuted : ¬ urlencoded_utf8_roundtrip_full := by
  intro h
  have h1 := h [([233], [])] (by decide)
  rw [urlencoded_utf8_names_mojibake [([233], [])] (by decide)] at h1
  revert h1
  decide

/-- whatever the body, every field name `parse_qs_bytes` returns consists of code points below 256 (latin-1 reading) -/
theorem urlencoded_names_latin1 (body : Bytes) (hb : ∀ b ∈ body, b < 256) :
    ∀ kv ∈ parseQsBytes body, ∀ c ∈ kv.1, c < 256 :=
  parseQsBytes_keysLt body hb

/-- hence NO urlencoded body — under any client-side encoding — is parsed to a field named `名` (U+540D): for names
    outside latin-1 the urlencoded half of the lossless clause cannot be met by any encoder -/
theorem urlencoded_wide_name_unrecoverable (body : Bytes) (hb : ∀ b ∈ body, b < 256) (v : Bytes) :
    parseQsBytes body ≠ Spec.expectedFields [([21517], v)] := by
  intro h
  have hk := parseQsBytes_keysLt body hb
  rw [h] at hk
  have e : Spec.expectedFields [([21517], v)] = [([21517], [v])] := by
    simp [Spec.expectedFields, dappend, dset, dget]
  rw [e] at hk
  have := hk _ List.mem_cons_self 21517 List.mem_cons_self
  omega

/-! ### multipart round trip -/

/- `WellFormed cfg b parts` (the hypotheses of the lossless clause for the quoted-string form) is defined in
   `Multipart.lean`: parser enabled, count and header sizes within the limits, a non-empty boundary that does not
   start with a double quote and whose delimiter `--boundary` occurs nowhere in the encoded content of a part,
   names / filenames / content types that can be sent in a quoted-string header. -/

/-- the lossless statement for the quoted-string form **as the clause words it** ("a boundary occurring nowhere in the
    content").  False as written (`multipart_roundtrip_refuted`): "the delimiter does not occur in the content" does not
    exclude a boundary containing CR LF whose delimiter straddles the end of a part's content and the next delimiter. -/
def multipart_roundtrip_goal : Prop :=
  ∀ (cfg : Config) (b : Bytes) (parts : List Spec.Part), WellFormed cfg b parts →
    parseMultipart cfg b (Spec.encodeMultipart b parts) {} = .ok (Spec.expected parts)

/-- `multipart_roundtrip`: every list of fields and files (arbitrary byte contents, repeated names, names with quotes,
    backslashes — trailing ones included —, semicolons, non-ASCII) encoded as multipart/form-data with quoted-string
    parameters, under a boundary whose delimiter occurs nowhere in the content, is parsed back to exactly those fields and
    files — provided the boundary contains no LF (every boundary that can be sent in a Content-Type header; without it the
    statement is false, `multipart_roundtrip_refuted`).  Until the `fix:` commit d01e7a8 this needed the side condition
    "no upload's field name ends in a backslash" (finding `multipart/lossy/name-trailing-backslash`). -/
theorem multipart_roundtrip (cfg : Config) (b : Bytes) (parts : List Spec.Part) (hwf : WellFormed cfg b parts)
    (hlf : 10 ∉ b) :
    parseMultipart cfg b (Spec.encodeMultipart b parts) {} = .ok (Spec.expected parts) :=
  parseMultipart_sendable_accept cfg b parts hwf.enabled (hwf.sendable hlf) hwf.count
    (fun p hp => hwf.header_size p hp)

/-- non-vacuity: a field whose name contains a quote, a backslash and a semicolon, and an upload whose field name *and*
    filename end in a backslash, with a content type and binary content containing `--` and CR LF CR LF, under the
    boundary `zZ9` -/
example : WellFormed {} [122, 90, 57]
      [{ name := [97, 34, 92, 59, 233], value := [0, 255, 45, 45] },
       { name := [102, 92], filename := some [120, 92], ctype := some [116, 47, 112], value := [13, 10, 13, 10, 45, 45, 122] }] ∧
    10 ∉ ([122, 90, 57] : Bytes) := by
  refine ⟨?_, by decide⟩
  constructor <;> decide

/-- the boundary `CR LF CR LF CR LF - -` and a first part with content type `--` and an empty value: the delimiter
    `--\r\n\r\n\r\n--` occurs in no part's content, yet the separator `--\r\n\r\n\r\n--\r\n` starts inside the first
    part (`…Content-Type: --\r\n\r\n\r\n` followed by `--\r\n…`), so the first piece is cut inside its header block and
    the body is refused (HTTPInputError, "missing headers").  Such a boundary cannot be sent in a Content-Type header;
    the hypothesis "the delimiter occurs nowhere in the content" of the clause is simply too weak for it. -/
theorem multipart_roundtrip_refuted : ¬ multipart_roundtrip_goal := by
  intro h
  have hwf : WellFormed {} [13, 10, 13, 10, 13, 10, 45, 45]
      [{ name := [97], ctype := some [45, 45], value := [] }, { name := [97], value := [] }] := by
    constructor <;> decide
  have h1 := h {} [13, 10, 13, 10, 13, 10, 45, 45]
    [{ name := [97], ctype := some [45, 45], value := [] }, { name := [97], value := [] }] hwf
  have h2 : (parseMultipart {} [13, 10, 13, 10, 13, 10, 45, 45]
      (Spec.encodeMultipart [13, 10, 13, 10, 13, 10, 45, 45]
        [{ name := [97], ctype := some [45, 45], value := [] }, { name := [97], value := [] }]) {}).toOption = none := by
    decide
  rw [h1] at h2
  cases h2

/-- the witness of the former finding `multipart/lossy/name-trailing-backslash`, at the `_parse_header` level: the
    Content-Disposition the encoder writes for the upload `name = \`, `filename = f` yields both parameters.  (Before the
    `fix:` commit d01e7a8 it was parsed into the single parameter `name = \"; filename="f`: the closing quote after the
    escaped backslash was counted as escaped.) -/
theorem multipart_trailing_backslash_fixed :
    (parseHeader (C43.ofAscii "form-data; name=\"\\\\\"; filename=\"f\"")).toOption =
      some (C43.ofAscii "form-data", [(C43.ofAscii "name", [92]), (C43.ofAscii "filename", [102])]) := by
  decide

/-- `_parseparam` in general: a quoted-string parameter is never split and never swallows the next parameter, whatever
    its text ends in — the Content-Disposition written for any name and filename yields exactly these two parameters -/
theorem multipart_disposition_recovered (name : Str) (filename : Option Str) :
    parseHeader (dispValue name filename) =
      .ok (C43.ofAscii "form-data", (C43.ofAscii "name", name) :: fnParams filename) :=
  parseHeader_dispValue name filename

/-- the same witness at the `parse_multipart_form_data` level (boundary `b`): the upload `name = \`, `filename = f` is
    recovered as a file (it used to come back as an ordinary argument named `"; filename="f`) -/
theorem multipart_trailing_backslash_recovered :
    parseMultipart {} [98] (Spec.encodeMultipart [98] [{ name := [92], filename := some [102], value := [118] }]) {} =
      .ok { files := [([92], [{ filename := [102], body := [118], contentType := C43.ofAscii "application/unknown" }])] } := by
  have hwf : WellFormed {} [98] [{ name := [92], filename := some [102], value := [118] }] := by
    constructor <;> decide
  rw [multipart_roundtrip {} [98] _ hwf (by decide)]
  have : Spec.expected [{ name := [92], filename := some [102], value := [118] }] =
      { files := [([92], [{ filename := [102], body := [118], contentType := C43.ofAscii "application/unknown" }])] } := by
    decide
  rw [this]

/-! ### multipart round trip, RFC 2231 / 5987 parameters (`name*=utf-8''pct`) -/

/-- `_parse_header` on the Content-Disposition value the RFC 2231 encoder writes (`form-data; name*=utf-8''…; filename*=utf-8''…`)
    yields exactly the name and the filename, for ANY scalar-valued text (control characters, quotes, backslashes,
    semicolons, `'`, `%`, `*`, non-ASCII, astral): `_parseparam`, `decode_params`, the percent-decoding, `email.utils.quote`/
    `unquote` around the tick split, and the UTF-8 decoding of `collapse_rfc2231_value` compose to the identity. -/
theorem multipart_disposition2231_recovered (name : Str) (filename : Option Str) (hn : name.all Wire.isScalar = true)
    (hf : ∀ fn, filename = some fn → fn.all Wire.isScalar = true) :
    parseHeader (R.dispValue name filename) =
      .ok (C43.ofAscii "form-data", (C43.ofAscii "name", name) :: fnParams filename) :=
  R.parseHeader_dispValue name filename hn hf

/-- `multipart_roundtrip_2231`: the lossless clause for the RFC 2231 form.  Every list of fields and files (arbitrary byte
    contents, repeated names; names and filenames ANY non-empty scalar-valued text — nothing is excluded, control characters
    included, because everything outside `[A-Za-z0-9._~-]` travels percent-encoded) written by `Spec.encodeMultipart2231`
    under a boundary whose delimiter occurs nowhere in the content is parsed back to exactly those fields and files
    (same side condition `LF ∉ boundary` as `multipart_roundtrip`). -/
theorem multipart_roundtrip_2231 (cfg : Config) (b : Bytes) (parts : List Spec.Part) (hwf : R.WellFormed cfg b parts)
    (hlf : 10 ∉ b) :
    parseMultipart cfg b (Spec.encodeMultipart2231 b parts) {} = .ok (Spec.expected parts) :=
  R.parseMultipart_sendable_accept cfg b parts hwf.enabled (hwf.sendable hlf) hwf.count hwf.header_size

set_option maxRecDepth 8000 in
/-- non-vacuity: a field named `LF " \ ; é 😀 '` and an upload whose field name is `%41*` and whose filename is `NUL \`,
    with a content type and binary content containing `--` and CR LF CR LF, under the boundary `zZ9` -/
example : R.WellFormed {} [122, 90, 57]
      [{ name := [10, 34, 92, 59, 233, 128512, 39], value := [0, 255, 45, 45] },
       { name := [37, 52, 49, 42], filename := some [0, 92], ctype := some [116, 47, 112], value := [13, 10, 13, 10, 45, 45, 122] }] ∧
    10 ∉ ([122, 90, 57] : Bytes) := by
  refine ⟨?_, by decide⟩
  constructor <;> decide

/-- `limits_exact_2231`: both limits are exact on RFC 2231-encoded forms too -/
theorem limits_exact_2231 (cfg : Config) (b : Bytes) (parts : List Spec.Part) (hen : cfg.enabled = true)
    (hs : R.Sendable b parts) :
    ((parts.length ≤ cfg.maxParts ∧ ∀ p ∈ parts, R.headerSize p ≤ cfg.maxPartHeaderSize) →
      parseMultipart cfg b (Spec.encodeMultipart2231 b parts) {} = .ok (Spec.expected parts)) ∧
    ((parts.length > cfg.maxParts ∨ ∃ p ∈ parts, R.headerSize p > cfg.maxPartHeaderSize) →
      parseMultipart cfg b (Spec.encodeMultipart2231 b parts) {} = .error .httpInput) :=
  ⟨fun h => R.parseMultipart_sendable_accept cfg b parts hen hs h.1 h.2,
   fun h => R.parseMultipart_sendable_reject cfg b parts hen hs h⟩

/-- non-vacuity: one part named `é`; its header block `Content-Disposition: form-data; name*=utf-8''%C3%A9` is 51 bytes -/
example : R.Sendable [98] [{ name := [233], value := [118] }] ∧ R.headerSize { name := [233], value := [118] } = 51 := by
  refine ⟨?_, by decide⟩
  constructor <;> decide

/-- `multipart_roundtrip_prefilled`: the same with pre-filled `arguments` / `files` dictionaries (what `parse_multipart_form_data`
    is handed when the query string already produced arguments): the parts are appended to what is there, in order —
    the result is the fold of `Spec.expected`'s step over the pre-filled result.  Both parameter styles. -/
theorem multipart_roundtrip_prefilled (cfg : Config) (b : Bytes) (parts : List Spec.Part) (f : Form)
    (hwf : WellFormed cfg b parts) (hlf : 10 ∉ b) :
    parseMultipart cfg b (Spec.encodeMultipart b parts) f = .ok (parts.foldl stepOf f) := by
  have hs := hwf.sendable hlf
  rw [parseMultipart_encoded_eq cfg b parts f hwf.enabled hs.boundary_plain hs.boundary_lf hs.fresh,
    if_neg (Nat.not_lt.mpr hwf.count)]
  exact foldlM_contents cfg parts f hs.partsOK (fun p hp => by rw [← headerSize_eq]; exact hwf.header_size p hp)

theorem multipart_roundtrip_2231_prefilled (cfg : Config) (b : Bytes) (parts : List Spec.Part) (f : Form)
    (hwf : R.WellFormed cfg b parts) (hlf : 10 ∉ b) :
    parseMultipart cfg b (Spec.encodeMultipart2231 b parts) f = .ok (parts.foldl stepOf f) := by
  have hs := hwf.sendable hlf
  rw [R.parseMultipart_encoded_eq cfg b parts f hwf.enabled hs.boundary_plain hs.boundary_lf hs.fresh,
    if_neg (Nat.not_lt.mpr hwf.count)]
  exact R.foldlM_contents cfg parts f hs.partsOK (fun p hp => by rw [← R.headerSize_eq]; exact hwf.header_size p hp)

/-! ### the multipart round trip at the `parse_body_arguments` entry -/

/-- `multipart_roundtrip_entry`: the lossless clause where the property places it — `parse_body_arguments` with the header
    `Content-Type: multipart/form-data; boundary=<bt>` (boundary text non-empty, without `;`, not ending in whitespace;
    `BoundaryText`): the boundary is extracted from the header, handed over as UTF-8, and the encoded form is recovered
    exactly.  Both parameter styles. -/
theorem multipart_roundtrip_entry (cfg : Config) (bt : Str) (parts : List Spec.Part) (hbt : BoundaryText bt)
    (hwf : WellFormed cfg (C43.utf8Enc bt) parts) (hlf : 10 ∉ C43.utf8Enc bt) :
    parseBody cfg (ctHeader bt) (Spec.encodeMultipart (C43.utf8Enc bt) parts) false = .ok (Spec.expected parts) := by
  rw [parseBody_multipart cfg bt hbt, multipart_roundtrip cfg _ parts hwf hlf]
  rfl

theorem multipart_roundtrip_2231_entry (cfg : Config) (bt : Str) (parts : List Spec.Part) (hbt : BoundaryText bt)
    (hwf : R.WellFormed cfg (C43.utf8Enc bt) parts) (hlf : 10 ∉ C43.utf8Enc bt) :
    parseBody cfg (ctHeader bt) (Spec.encodeMultipart2231 (C43.utf8Enc bt) parts) false = .ok (Spec.expected parts) := by
  rw [parseBody_multipart cfg bt hbt, multipart_roundtrip_2231 cfg _ parts hwf hlf]
  rfl

/-- non-vacuity: the boundary text `zZ9` -/
example : BoundaryText [122, 90, 57] ∧ C43.utf8Enc [122, 90, 57] = [122, 90, 57] := by
  refine ⟨?_, by decide⟩
  constructor <;> decide

/-! ### limits -/

/-- the pieces `parse_multipart_form_data` iterates over, when there is a final boundary -/
def pieces (b data : Bytes) : Option (List Bytes) :=
  (rfindSub (dashes ++ unquoteBoundary b ++ dashes) data).map
    (fun idx => splitOn (dashes ++ unquoteBoundary b ++ crlf) (data.take idx))

/-- `limits_enforced` (part count, both directions): a body is refused *exactly* because of the count when it has more
    than `max_parts` boundary-delimited parts; success implies the count is within the limit. -/
theorem parseMultipart_ok (cfg : Config) (b data : Bytes) (f r : Form)
    (h : parseMultipart cfg b data f = .ok r) :
    ∃ idx, rfindSub (dashes ++ unquoteBoundary b ++ dashes) data = some idx ∧
      ¬ ((splitOn (dashes ++ unquoteBoundary b ++ crlf) (data.take idx)).length - 1 > cfg.maxParts) ∧
      (splitOn (dashes ++ unquoteBoundary b ++ crlf) (data.take idx)).foldlM
        (fun acc p => if p.isEmpty then Except.ok acc else parsePart cfg p acc) f = .ok r := by
  unfold parseMultipart at h
  split at h
  · cases h
  · simp only [] at h
    split at h
    · cases h
    · rename_i idx hi
      split at h
      · cases h
      · rename_i hle
        exact ⟨idx, hi, hle, h⟩

theorem limits_enforced_parts (cfg : Config) (b data : Bytes) (f r : Form)
    (h : parseMultipart cfg b data f = .ok r) :
    ∃ ps, pieces b data = some ps ∧ ps.length - 1 ≤ cfg.maxParts := by
  obtain ⟨idx, hi, hle, _⟩ := parseMultipart_ok cfg b data f r h
  refine ⟨_, ?_, Nat.le_of_not_gt hle⟩
  unfold pieces
  rw [hi]
  rfl

theorem limits_enforced_parts_reject (cfg : Config) (b data : Bytes) (f : Form) (ps : List Bytes)
    (hp : pieces b data = some ps) (hgt : ps.length - 1 > cfg.maxParts) :
    parseMultipart cfg b data f = .error .httpInput := by
  unfold parseMultipart
  split
  · rfl
  · simp only []
    unfold pieces at hp
    split
    · rfl
    · rename_i idx hi
      rw [hi] at hp
      simp only [Option.map_some, Option.some.injEq] at hp
      subst hp
      rw [if_pos hgt]

theorem parsePart_ok_header (cfg : Config) (part : Bytes) (f f' : Form) (h : parsePart cfg part f = .ok f') :
    ∃ eoh, findSub [13, 10, 13, 10] part = some eoh ∧ eoh ≤ cfg.maxPartHeaderSize := by
  unfold parsePart at h
  cases he : findSub [13, 10, 13, 10] part with
  | none => simp [he] at h
  | some eoh =>
    simp only [he] at h
    split at h
    · simp at h
    · rename_i hle
      exact ⟨eoh, rfl, by omega⟩

theorem foldlM_parts_ok (cfg : Config) (ps : List Bytes) (f r : Form)
    (h : ps.foldlM (fun acc p => if p.isEmpty then Except.ok acc else parsePart cfg p acc) f = .ok r) :
    ∀ p ∈ ps, p ≠ [] → ∃ eoh, findSub [13, 10, 13, 10] p = some eoh ∧ eoh ≤ cfg.maxPartHeaderSize := by
  induction ps generalizing f with
  | nil => intro p hp; cases hp
  | cons q qs ih =>
    intro p hp hne
    rw [List.foldlM_cons] at h
    cases hq : (if q.isEmpty then Except.ok f else parsePart cfg q f) with
    | error e =>
      rw [hq] at h
      cases h
    | ok f1 =>
      rw [hq] at h
      have h' : qs.foldlM (fun acc p => if p.isEmpty then Except.ok acc else parsePart cfg p acc) f1 = .ok r := h
      rcases List.mem_cons.mp hp with rfl | hp'
      · have hemp : p.isEmpty = false := by cases p <;> simp_all
        rw [hemp] at hq
        exact parsePart_ok_header cfg p f f1 hq
      · exact ih f1 h' p hp' hne

/-- `limits_enforced` (part header size): when parsing succeeds every non-empty part has its header block
    (the bytes before the first blank line) within `max_part_header_size`. -/
theorem limits_enforced_header (cfg : Config) (b data : Bytes) (f r : Form)
    (h : parseMultipart cfg b data f = .ok r) :
    ∃ ps, pieces b data = some ps ∧
      ∀ p ∈ ps, p ≠ [] → ∃ eoh, findSub [13, 10, 13, 10] p = some eoh ∧ eoh ≤ cfg.maxPartHeaderSize := by
  obtain ⟨idx, hi, _, hf⟩ := parseMultipart_ok cfg b data f r h
  refine ⟨_, ?_, foldlM_parts_ok cfg _ f r hf⟩
  unfold pieces
  rw [hi]
  rfl

/-- `limits_exact`: for an encoded form (hypotheses of the lossless clause other than the limits) the two limits are
    exact — with `parts = max_parts` and a header block of exactly `max_part_header_size` bytes the form is accepted
    and recovered, with one part more or one header byte more it is refused with HTTPInputError. -/
theorem limits_exact (cfg : Config) (b : Bytes) (parts : List Spec.Part) (hen : cfg.enabled = true)
    (hs : Sendable b parts) :
    ((parts.length ≤ cfg.maxParts ∧ ∀ p ∈ parts, headerSize p ≤ cfg.maxPartHeaderSize) →
      parseMultipart cfg b (Spec.encodeMultipart b parts) {} = .ok (Spec.expected parts)) ∧
    ((parts.length > cfg.maxParts ∨ ∃ p ∈ parts, headerSize p > cfg.maxPartHeaderSize) →
      parseMultipart cfg b (Spec.encodeMultipart b parts) {} = .error .httpInput) :=
  ⟨fun h => parseMultipart_sendable_accept cfg b parts hen hs h.1 h.2,
   fun h => parseMultipart_sendable_reject cfg b parts hen hs h⟩

/-- non-vacuity: one part whose header block `Content-Disposition: form-data; name="a"` is 40 bytes; the limits 1 / 40 are
    met with equality, 0 / 39 are exceeded -/
example : Sendable [98] [{ name := [97], value := [118] }] ∧ headerSize { name := [97], value := [118] } = 40 := by
  refine ⟨?_, by decide⟩
  constructor <;> decide

end TornadoModel.C30
