/- C30 — UTF-8: strict decoding inverts encoding on scalar values; ASCII bytes of an encoding come from the text -/
import TornadoModel.C30.Spec
import TornadoModel.Base.Wire
namespace TornadoModel.C30
open TornadoModel.C06 (Str)
open TornadoModel.C43 (utf8Dec utf8Enc utf8EncC isCont)
open TornadoModel

theorem utf8Dec_1 (b0 : Nat) (rest : List Nat) (h0 : b0 < 128) : utf8Dec (b0 :: rest) = b0 :: utf8Dec rest := by
  rw [utf8Dec.eq_def]
  simp only [h0, if_true]

theorem utf8Dec_2 (b0 b1 : Nat) (rest : List Nat) (h0 : 194 ≤ b0 ∧ b0 ≤ 223) (h1 : 128 ≤ b1 ∧ b1 ≤ 191) :
    utf8Dec (b0 :: b1 :: rest) = ((b0 - 192) * 64 + (b1 - 128)) :: utf8Dec rest := by
  rw [utf8Dec.eq_def]
  have a1 : ¬ (b0 < 128) := by omega
  have a4 : isCont b1 = true := by simp [isCont]; omega
  simp only [a1, h0.1, h0.2, a4, if_true, if_false, decide_true, Bool.and_self]

theorem utf8Dec_3 (b0 b1 b2 : Nat) (rest : List Nat) (h0 : 224 ≤ b0 ∧ b0 ≤ 239) (h1 : 128 ≤ b1 ∧ b1 ≤ 191)
    (h1a : b0 = 224 → 160 ≤ b1) (h1b : b0 = 237 → b1 ≤ 159) (h2 : 128 ≤ b2 ∧ b2 ≤ 191) :
    utf8Dec (b0 :: b1 :: b2 :: rest) = ((b0 - 224) * 4096 + (b1 - 128) * 64 + (b2 - 128)) :: utf8Dec rest := by
  rw [utf8Dec.eq_def]
  have a1 : ¬ (b0 < 128) := by omega
  have a2 : decide (b0 ≤ 223) = false := by simp; omega
  have a5 : isCont b2 = true := by simp [isCont]; omega
  have a6 : (if b0 = 224 then decide (160 ≤ b1) && decide (b1 ≤ 191)
      else if b0 = 237 then decide (128 ≤ b1) && decide (b1 ≤ 159)
      else isCont b1) = true := by
    split
    · rename_i h; have := h1a h; simp; omega
    · split
      · rename_i h; have := h1b h; simp; omega
      · simp [isCont]; omega
  simp only [a1, a2, h0.1, h0.2, a5, a6, if_true, if_false, decide_true, Bool.and_self, Bool.and_false, Bool.false_eq_true]

theorem utf8Dec_4 (b0 b1 b2 b3 : Nat) (rest : List Nat) (h0 : 240 ≤ b0 ∧ b0 ≤ 244) (h1 : 128 ≤ b1 ∧ b1 ≤ 191)
    (h1a : b0 = 240 → 144 ≤ b1) (h1b : b0 = 244 → b1 ≤ 143) (h2 : 128 ≤ b2 ∧ b2 ≤ 191) (h3 : 128 ≤ b3 ∧ b3 ≤ 191) :
    utf8Dec (b0 :: b1 :: b2 :: b3 :: rest) =
      ((b0 - 240) * 262144 + (b1 - 128) * 4096 + (b2 - 128) * 64 + (b3 - 128)) :: utf8Dec rest := by
  rw [utf8Dec.eq_def]
  have a1 : ¬ (b0 < 128) := by omega
  have a2 : decide (b0 ≤ 223) = false := by simp; omega
  have a3 : decide (b0 ≤ 239) = false := by simp; omega
  have a5 : isCont b2 = true := by simp [isCont]; omega
  have a5' : isCont b3 = true := by simp [isCont]; omega
  have a6 : (if b0 = 240 then decide (144 ≤ b1) && decide (b1 ≤ 191)
      else if b0 = 244 then decide (128 ≤ b1) && decide (b1 ≤ 143)
      else isCont b1) = true := by
    split
    · rename_i h; have := h1a h; simp; omega
    · split
      · rename_i h; have := h1b h; simp; omega
      · simp [isCont]; omega
  simp only [a1, a2, a3, h0.1, h0.2, a5, a5', a6, if_true, if_false, decide_true, Bool.and_self, Bool.and_false, Bool.false_eq_true]

theorem utf8Dec_encC (c : Nat) (rest : List Nat) (hc : Wire.isScalar c = true) :
    utf8Dec (utf8EncC c ++ rest) = c :: utf8Dec rest := by
  simp only [Wire.isScalar, Bool.or_eq_true, Bool.and_eq_true, decide_eq_true_eq] at hc
  unfold utf8EncC
  by_cases h1 : c < 128
  · simp only [h1, if_true, List.cons_append, List.nil_append]
    exact utf8Dec_1 c rest h1
  · by_cases h2 : c < 2048
    · simp only [h1, h2, if_true, if_false, List.cons_append, List.nil_append]
      have e : (192 + c / 64 - 192) * 64 + (128 + c % 64 - 128) = c := by omega
      rw [utf8Dec_2 _ _ _ (by omega) (by omega), e]
    · by_cases h3 : c < 65536
      · simp only [h1, h2, h3, if_true, if_false, List.cons_append, List.nil_append]
        have e : (224 + c / 4096 - 224) * 4096 + (128 + c / 64 % 64 - 128) * 64 + (128 + c % 64 - 128) = c := by omega
        rw [utf8Dec_3 _ _ _ _ (by omega) (by omega) (by omega) (by omega) (by omega), e]
      · simp only [h1, h2, h3, if_false, List.cons_append, List.nil_append]
        have e : (240 + c / 262144 - 240) * 262144 + (128 + c / 4096 % 64 - 128) * 4096 + (128 + c / 64 % 64 - 128) * 64 +
            (128 + c % 64 - 128) = c := by omega
        rw [utf8Dec_4 _ _ _ _ _ (by omega) (by omega) (by omega) (by omega) (by omega) (by omega), e]

theorem utf8Enc_cons (c : Nat) (s : Str) : utf8Enc (c :: s) = utf8EncC c ++ utf8Enc s := by
  simp [utf8Enc]

theorem utf8Enc_append (a b : Str) : utf8Enc (a ++ b) = utf8Enc a ++ utf8Enc b := by
  simp [utf8Enc]

theorem utf8Dec_enc (s : Str) (hs : s.all Wire.isScalar = true) : utf8Dec (utf8Enc s) = s := by
  induction s with
  | nil =>
    show utf8Dec [] = []
    rw [utf8Dec.eq_def]
  | cons c cs ih =>
    simp only [List.all_cons, Bool.and_eq_true] at hs
    rw [utf8Enc_cons, utf8Dec_encC c _ hs.1, ih hs.2]

theorem utf8Strict_enc (s : Str) (hs : s.all Wire.isScalar = true) : utf8Strict (utf8Enc s) = some s := by
  simp [utf8Strict, utf8Dec_enc s hs]

/-- an ASCII byte of the encoding is a character of the text -/
theorem utf8EncC_ascii (c b : Nat) (hb : b ∈ utf8EncC c) (h : b < 128) : b = c := by
  unfold utf8EncC at hb
  split at hb
  · simpa using hb
  · split at hb
    · simp at hb; omega
    · split at hb
      · simp at hb; omega
      · simp at hb; omega

theorem utf8Enc_ascii_mem (s : Str) (b : Nat) (hb : b ∈ utf8Enc s) (h : b < 128) : b ∈ s := by
  simp only [utf8Enc, List.mem_flatMap] at hb
  obtain ⟨c, hc, hbc⟩ := hb
  rw [utf8EncC_ascii c b hbc h]
  exact hc

theorem utf8Enc_ascii (s : Str) (h : ∀ c ∈ s, c < 128) : utf8Enc s = s := by
  induction s with
  | nil => rfl
  | cons c cs ih =>
    have hc : c < 128 := h c List.mem_cons_self
    rw [utf8Enc_cons, ih (fun x hx => h x (List.mem_cons_of_mem _ hx))]
    simp [utf8EncC, hc]

end TornadoModel.C30
