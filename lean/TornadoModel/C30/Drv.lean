/- C30 driver: `C30 parse enabled maxParts maxHdr contentType body hasCE`, `C30 multipart boundary body`,
   `C30 encode form boundary [[name,filename|~,ctype|~,value],…]`, `C30 expected […]`, `C30 urlenc [[name,value],…]` -/
import TornadoModel.Base.Wire
import TornadoModel.C30.Spec
namespace TornadoModel.C30.Drv
open TornadoModel TornadoModel.Wire TornadoModel.C30

def encErr : Err → V
  | .httpInput => .atom "HTTPInputError"
  | .uncaught k => .atom ("Uncaught:" ++ k)
  | .unmodelled => .atom "Unmodelled"

def encForm (f : Form) : V :=
  .list [.list (f.arguments.map (fun (n, vs) => .list [V.ofCps n, .list (vs.map V.ofByteNats)])),
         .list (f.files.map (fun (n, fs) => .list [V.ofCps n,
            .list (fs.map (fun x => .list [V.ofCps x.filename, V.ofByteNats x.body, V.ofCps x.contentType]))]))]

def encRes : Except Err Form → V
  | .ok f => encForm f
  | .error e => encErr e

def optCps (v : V) : Option (Option (List Nat)) := if v.isNone then some none else v.cps?.map some

def decPart (v : V) : Option Spec.Part := do
  match ← v.list? with
  | [n, fn, ct, val] => pure { name := ← n.cps?, filename := ← optCps fn, ctype := ← optCps ct, value := ← val.byteNats? }
  | _ => none

def decParts (v : V) : Option (List Spec.Part) := do (← v.list?).mapM decPart

def decFields (v : V) : Option (List (List Nat × List Nat)) := do
  (← v.list?).mapM (fun p => do
    match ← p.list? with
    | [a, b] => pure (← a.cps?, ← b.byteNats?)
    | _ => none)

/-- a pre-filled result: `[[[name,[value,…]],…], [[name,[[filename,body,ctype],…]],…]]` (what `encForm` writes) -/
def decForm (v : V) : Option Form := do
  match ← v.list? with
  | [as, fs] =>
    let args ← (← as.list?).mapM (fun p => do
      match ← p.list? with
      | [n, vs] => pure (← n.cps?, ← (← vs.list?).mapM (fun x => x.byteNats?))
      | _ => none)
    let files ← (← fs.list?).mapM (fun p => do
      match ← p.list? with
      | [n, xs] =>
        let l ← (← xs.list?).mapM (fun x => do
          match ← x.list? with
          | [fn, body, ct] => pure ({ filename := ← fn.cps?, body := ← body.byteNats?, contentType := ← ct.cps? } : File)
          | _ => none)
        pure (← n.cps?, l)
      | _ => none)
    pure { arguments := args, files := files }
  | _ => none

def handle (toks : List String) : String :=
  match toks.mapM V.parse with
  | none => err "bad-token"
  | some args =>
    match args with
    | [.atom "parse", en, mp, mh, ct, body, ce] =>
      match en.bool?, mp.nat?, mh.nat?, ct.cps?, body.byteNats?, ce.bool? with
      | some en, some mp, some mh, some ct, some body, some ce =>
        ok [encRes (parseBody { enabled := en, maxParts := mp, maxPartHeaderSize := mh } ct body ce)]
      | _, _, _, _, _, _ => err "bad-arg"
    | [.atom "multipart", en, mp, mh, b, body] =>
      match en.bool?, mp.nat?, mh.nat?, b.byteNats?, body.byteNats? with
      | some en, some mp, some mh, some b, some body =>
        ok [encRes (parseMultipart { enabled := en, maxParts := mp, maxPartHeaderSize := mh } b body {})]
      | _, _, _, _, _ => err "bad-arg"
    | [.atom "multipart", en, mp, mh, b, body, pre] =>
      match en.bool?, mp.nat?, mh.nat?, b.byteNats?, body.byteNats?, decForm pre with
      | some en, some mp, some mh, some b, some body, some f =>
        ok [encRes (parseMultipart { enabled := en, maxParts := mp, maxPartHeaderSize := mh } b body f)]
      | _, _, _, _, _, _ => err "bad-arg"
    | [.atom "encode", form, b, parts] =>
      match form.atom?, b.byteNats?, decParts parts with
      | some "q", some b, some ps => ok [V.ofByteNats (Spec.encodeMultipart b ps)]
      | some "r", some b, some ps => ok [V.ofByteNats (Spec.encodeMultipart2231 b ps)]
      | _, _, _ => err "bad-arg"
    | [.atom "expected", parts] =>
      match decParts parts with
      | some ps => ok [encForm (Spec.expected ps)]
      | none => err "bad-arg"
    | [.atom "formenc", fields] =>
      match decFields fields with
      | some fs => ok [V.ofByteNats (Spec.encodeUrlencoded fs),
                       .list ((Spec.expectedFields fs).map (fun (n, vs) => .list [V.ofCps n, .list (vs.map V.ofByteNats)]))]
      | none => err "bad-arg"
    | [.atom "formenc8", fields] =>
      match decFields fields with
      | some fs => ok [V.ofByteNats (Spec.encodeUrlencodedUtf8 fs),
                       .list ((Spec.expectedFields fs).map (fun (n, vs) => .list [V.ofCps n, .list (vs.map V.ofByteNats)]))]
      | none => err "bad-arg"
    | _ => err "bad-cmd"

end TornadoModel.C30.Drv
