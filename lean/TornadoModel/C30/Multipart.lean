/- C30 — the multipart round trip: one part through `parsePart`, then the whole body through `parseMultipart` -/
import TornadoModel.C30.Bytes
import TornadoModel.C30.Utf8
import TornadoModel.C30.Header
import TornadoModel.C06.Roundtrip
namespace TornadoModel.C30
open TornadoModel.C06 (Str)
open TornadoModel.C43 (ofAscii utf8Enc emailQuote)
open TornadoModel

/-! ### character classes -/

/-- a character `HTTPHeaders` accepts in a value (`_chars_are_bytes=False`) and UTF-8 can encode -/
abbrev Good (c : Nat) : Prop := ¬ (c ≤ 8 ∨ (10 ≤ c ∧ c ≤ 31) ∨ c = 127) ∧ Wire.isScalar c = true
abbrev AllGood (s : Str) : Prop := ∀ c ∈ s, Good c

theorem allGood_of (s : Str) (h1 : C06.hasForbidden s = false) (h2 : s.all Wire.isScalar = true) : AllGood s := by
  intro c hc
  refine ⟨?_, List.all_eq_true.mp h2 c hc⟩
  intro hbad
  have : C06.hasForbidden s = true := by
    simp only [C06.hasForbidden, List.any_eq_true]
    refine ⟨c, hc, ?_⟩
    simp only [Bool.or_eq_true, Bool.and_eq_true, decide_eq_true_eq]
    omega
  rw [h1] at this
  cases this

theorem AllGood.noForbidden {s : Str} (h : AllGood s) : C06.hasForbidden s = false := by
  cases hf : C06.hasForbidden s with
  | false => rfl
  | true =>
    exfalso
    simp only [C06.hasForbidden, List.any_eq_true, Bool.or_eq_true, Bool.and_eq_true, decide_eq_true_eq] at hf
    obtain ⟨c, hc, hbad⟩ := hf
    exact (h c hc).1 (by omega)

theorem AllGood.scalar {s : Str} (h : AllGood s) : s.all Wire.isScalar = true :=
  List.all_eq_true.mpr (fun c hc => (h c hc).2)

theorem AllGood.noLf {s : Str} (h : AllGood s) : 10 ∉ s := fun hm => (h 10 hm).1 (by omega)
theorem AllGood.noCr {s : Str} (h : AllGood s) : 13 ∉ s := fun hm => (h 13 hm).1 (by omega)

theorem AllGood.append {a b : Str} (ha : AllGood a) (hb : AllGood b) : AllGood (a ++ b) := by
  intro c hc
  rcases List.mem_append.mp hc with h | h
  · exact ha c h
  · exact hb c h

theorem mem_emailQuote (s : Str) (c : Nat) (h : c ∈ emailQuote s) : c ∈ s ∨ c = 92 := by
  simp only [emailQuote, List.mem_flatMap] at h
  obtain ⟨x, hx, hc⟩ := h
  split at hc
  · simp only [List.mem_cons, List.not_mem_nil, or_false] at hc
    rcases hc with rfl | rfl
    · right; rfl
    · left; exact hx
  · simp only [List.mem_singleton] at hc
    subst hc
    left; exact hx

theorem allGood_quoted (s : Str) (h : AllGood s) : AllGood (Spec.quoted s) := by
  intro c hc
  rw [quoted_eq] at hc
  simp only [List.mem_cons, List.mem_append, List.not_mem_nil, or_false] at hc
  rcases hc with rfl | hc | rfl
  · decide
  · rcases mem_emailQuote s c hc with h1 | rfl
    · exact h c h1
    · decide
  · decide

theorem allGood_dispValue (name : Str) (filename : Option Str) (hn : AllGood name)
    (hf : ∀ fn, filename = some fn → AllGood fn) : AllGood (dispValue name filename) := by
  unfold dispValue
  have h1 : AllGood (ofAscii "form-data; name=") := by decide
  have h2 : AllGood (ofAscii "; filename=") := by decide
  refine (h1.append (allGood_quoted name hn)).append ?_
  cases filename with
  | none => intro c hc; cases hc
  | some fn => exact h2.append (allGood_quoted fn (hf fn rfl))

/-! ### the header block of one part -/

def sCD : Str := ofAscii "Content-Disposition"
def sCT : Str := ofAscii "Content-Type"

def line1 (p : Spec.Part) : Str := sCD ++ 58 :: 32 :: dispValue p.name p.filename
def line2 (ct : Str) : Str := sCT ++ 58 :: 32 :: ct

/-- the text of the header block the encoder writes -/
def headerText (p : Spec.Part) : Str :=
  line1 p ++ (match p.ctype with | some ct => 13 :: 10 :: line2 ct | none => [])

theorem dispositionQ_eq (p : Spec.Part) : Spec.dispositionQ p = line1 p := by
  have h : ofAscii "Content-Disposition: form-data; name=" = sCD ++ 58 :: 32 :: ofAscii "form-data; name=" := by decide
  unfold Spec.dispositionQ line1 dispValue
  rw [h]
  cases p.filename <;> simp [List.append_assoc]

theorem ctLine_eq (ct : Str) : ofAscii "Content-Type: " ++ ct = line2 ct := by
  have h : ofAscii "Content-Type: " = sCT ++ [58, 32] := by decide
  rw [h, line2]
  simp

theorem utf8Enc_crlf : utf8Enc [13, 10] = [13, 10] := by decide

theorem contentOf_eq (p : Spec.Part) :
    Spec.contentOf Spec.dispositionQ p = utf8Enc (headerText p) ++ ([13, 10, 13, 10] ++ (p.value ++ [13, 10])) := by
  unfold Spec.contentOf headerText
  rw [dispositionQ_eq]
  cases p.ctype with
  | none => simp [crlf]
  | some ct =>
    have : (13 : Nat) :: 10 :: line2 ct = [13, 10] ++ line2 ct := rfl
    simp only [ctLine_eq, this, utf8Enc_append, utf8Enc_crlf, crlf]
    simp [List.append_assoc]

structure PartOK0 (p : Spec.Part) : Prop where
  name_ne : p.name ≠ []
  name_good : AllGood p.name
  fn_ok : ∀ fn, p.filename = some fn → fn ≠ [] ∧ AllGood fn
  ct_ok : ∀ ct, p.ctype = some ct → AllGood ct ∧ C06.stripWs ct = ct

/-- since the `fix:` commit d01e7a8 nothing more is needed (before it: no upload whose field name ends in a backslash) -/
abbrev PartOK (p : Spec.Part) : Prop := PartOK0 p

theorem allGood_line1 (p : Spec.Part) (hp : PartOK0 p) : AllGood (line1 p) := by
  have h1 : AllGood (sCD ++ [58, 32]) := by decide
  have := h1.append (allGood_dispValue p.name p.filename hp.name_good (fun fn h => (hp.fn_ok fn h).2))
  simpa [line1] using this

theorem allGood_line2 (ct : Str) (h : AllGood ct) : AllGood (line2 ct) := by
  have h1 : AllGood (sCT ++ [58, 32]) := by decide
  have := h1.append h
  simpa [line2] using this

theorem allGood_headerText_scalar (p : Spec.Part) (hp : PartOK0 p) :
    (headerText p).all Wire.isScalar = true := by
  unfold headerText
  rw [List.all_append, (allGood_line1 p hp).scalar]
  cases hct : p.ctype with
  | none => rfl
  | some ct =>
    have := (allGood_line2 ct (hp.ct_ok ct hct).1).scalar
    simp only [List.all_cons, this, Bool.and_true, Bool.true_and]
    decide

theorem not_mem_utf8Enc (s : Str) (b : Nat) (hb : b < 128) (h : b ∉ s) : b ∉ utf8Enc s :=
  fun hm => h (utf8Enc_ascii_mem s b hm hb)

/-- the blank line is found right after the header block -/
theorem findSub_content (p : Spec.Part) (hp : PartOK0 p) (rest : Bytes) :
    findSub [13, 10, 13, 10] (utf8Enc (headerText p) ++ ([13, 10, 13, 10] ++ rest)) = some (utf8Enc (headerText p)).length := by
  have hA : 13 ∉ utf8Enc (line1 p) := not_mem_utf8Enc _ 13 (by decide) (allGood_line1 p hp).noCr
  unfold headerText
  cases hct : p.ctype with
  | none =>
    simp only [List.append_nil]
    rw [findSub_skip 13 _ _ _ hA, findSub_here _ _ (by simp)]
    simp
  | some ct =>
    have hB : 13 ∉ utf8Enc (line2 ct) := not_mem_utf8Enc _ 13 (by decide) (allGood_line2 ct (hp.ct_ok ct hct).1).noCr
    have hB0 : ∃ r, utf8Enc (line2 ct) = 67 :: r := by
      have : line2 ct = 67 :: (ofAscii "ontent-Type" ++ 58 :: 32 :: ct) := by
        have h : sCT = 67 :: ofAscii "ontent-Type" := by decide
        rw [line2, h]; rfl
      rw [this, utf8Enc_cons]
      exact ⟨_, rfl⟩
    obtain ⟨r, hr⟩ := hB0
    have hsp : (13 : Nat) :: 10 :: line2 ct = [13, 10] ++ line2 ct := rfl
    dsimp only
    rw [hsp, utf8Enc_append, utf8Enc_append, utf8Enc_crlf, List.append_assoc, List.append_assoc,
      findSub_skip 13 _ _ _ hA]
    have hmiss : findSub [13, 10, 13, 10] ([13, 10] ++ (utf8Enc (line2 ct) ++ ([13, 10, 13, 10] ++ rest))) =
        (findSub [13, 10, 13, 10] (utf8Enc (line2 ct) ++ ([13, 10, 13, 10] ++ rest))).map (· + 2) := by
      have hp0 : isPrefix [13, 10, 13, 10] (13 :: 10 :: (utf8Enc (line2 ct) ++ ([13, 10, 13, 10] ++ rest))) = false := by
        rw [hr]
        simp [isPrefix]
      have e1 : findSub [13, 10, 13, 10] (13 :: 10 :: (utf8Enc (line2 ct) ++ ([13, 10, 13, 10] ++ rest))) =
          (findSub [13, 10, 13, 10] (10 :: (utf8Enc (line2 ct) ++ ([13, 10, 13, 10] ++ rest)))).map (· + 1) := by
        rw [findSub, hp0]; rfl
      have e2 := findSub_cons_ne 13 [10, 13, 10] 10 (utf8Enc (line2 ct) ++ ([13, 10, 13, 10] ++ rest)) (by decide)
      show findSub [13, 10, 13, 10] (13 :: 10 :: (utf8Enc (line2 ct) ++ ([13, 10, 13, 10] ++ rest))) = _
      rw [e1, e2]
      cases findSub [13, 10, 13, 10] (utf8Enc (line2 ct) ++ ([13, 10, 13, 10] ++ rest)) <;> simp
    rw [hmiss, findSub_skip 13 _ _ _ hB, findSub_here _ _ (by simp)]
    simp only [Option.map_some, List.length_append, List.length_cons, List.length_nil, Option.some.injEq]
    omega

/-! ### `HTTPHeaders.parse` on the header block -/

theorem stripEol_noLf (l : Str) (h : 10 ∉ l) : C06.stripEol l = l := by
  unfold C06.stripEol
  cases hr : l.reverse with
  | nil => rfl
  | cons x r =>
    have hx : x ≠ 10 := by
      intro e
      apply h
      have : x ∈ l.reverse := by rw [hr]; exact List.mem_cons_self
      rw [← e]
      exact List.mem_reverse.mp this
    split
    · rename_i heq; simp at heq; exact absurd heq.1 hx
    · rename_i heq; simp at heq; exact absurd heq.1 hx
    · rename_i heq; simp at heq; exact absurd heq.1 hx
    · rename_i heq; simp at heq; exact absurd heq.1 hx
    · rfl

theorem stripEol_crlf (w : Str) : C06.stripEol (w ++ [13, 10]) = w := by
  unfold C06.stripEol
  have hr : (w ++ [13, 10]).reverse = 10 :: 13 :: w.reverse := by simp
  rw [hr]
  split
  · rename_i heq; simp at heq
  · rename_i heq; simp at heq
  · rename_i heq; simp at heq; rw [← heq]; simp
  · rename_i h3 heq; simp at heq; exact absurd heq.symm (h3 _)
  · simp_all

theorem splitKeepLf_noLf (w : Str) (h : 10 ∉ w) : C06.splitKeepLf w = [w] := by
  induction w with
  | nil => rfl
  | cons c cs ih =>
    have hc : ¬ c = C06.cLf := fun e => h (by rw [e]; exact List.mem_cons_self)
    have hcs : 10 ∉ cs := fun e => h (List.mem_cons_of_mem _ e)
    rw [C06.splitKeepLf]
    simp only [hc, if_false, ih hcs]

theorem parseLine_kv (h : C06.Headers) (line0 k v : Str) (hs : C06.stripEol line0 = k ++ 58 :: 32 :: v)
    (hk : C06.isToken k = true) :
    C06.parseLine h line0 false = C06.add h k (C06.stripWs (32 :: v)) false := by
  obtain ⟨hkne, _, hkcol, hkws⟩ := C06.token_props k hk
  unfold C06.parseLine
  simp only [hs]
  cases k with
  | nil => exact absurd rfl hkne
  | cons c cs =>
    have hc : C06.isWs c = false := hkws c (by simp)
    simp only [List.cons_append, hc, Bool.false_eq_true, if_false]
    have := C06.splitColon_line (c :: cs) (32 :: v) hkcol
    simp only [List.cons_append, C06.cColon] at this
    rw [this]

theorem add_fresh (h : C06.Headers) (k v : Str) (hk : C06.isToken k = true) (hn : C06.normalize k = k)
    (hv : C06.hasForbidden v = false) (hd : C06.dget k h.asList = none) :
    C06.add h k v false = .ok { cache := C06.dset k v h.cache, asList := C06.dset k [v] h.asList, lastKey := some k } := by
  unfold C06.add C06.setItem
  simp [hk, hv, hn, hd]

theorem stripWs_sp (v : Str) : C06.stripWs (32 :: v) = C06.stripWs v := by
  unfold C06.stripWs C06.lstripWs
  rw [List.dropWhile_cons_of_pos (by decide)]

theorem stripWs_dispValue (name : Str) (filename : Option Str) :
    C06.stripWs (32 :: dispValue name filename) = dispValue name filename := by
  apply C06.stripWs_sp_value
  · intro c hc
    have h : (dispValue name filename).head? = some 102 := by
      have : ofAscii "form-data; name=" = 102 :: ofAscii "orm-data; name=" := by decide
      unfold dispValue
      rw [this]; rfl
    rw [h] at hc
    have : c = 102 := by simpa using hc.symm
    subst this; decide
  · intro c hc
    have h : (dispValue name filename).reverse.head? = some 34 := by
      unfold dispValue
      cases filename with
      | none => simp [quoted_eq]
      | some fn => simp [quoted_eq]
    rw [h] at hc
    have : c = 34 := by simpa using hc.symm
    subst this; decide

/-- the header block parses to a header map from which `Content-Disposition` and `Content-Type` read back -/
theorem parse_headerText (p : Spec.Part) (hp : PartOK0 p) :
    ∃ hs, C06.parse (headerText p) false = .ok hs ∧
      hget hs "Content-Disposition" = some (dispValue p.name p.filename) ∧
      hget hs "Content-Type" = p.ctype := by
  have hg1 := allGood_line1 p hp
  have hkCD : C06.isToken sCD = true := by decide
  have hkCT : C06.isToken sCT = true := by decide
  have hnCD : C06.normalize sCD = sCD := by decide
  have hnCT : C06.normalize sCT = sCT := by decide
  have hnCD' : C06.normalize (ofAscii "Content-Disposition") = sCD := hnCD
  have hnCT' : C06.normalize (ofAscii "Content-Type") = sCT := hnCT
  have hne : (sCD = sCT) = False := by simp; decide
  have hdv : C06.hasForbidden (dispValue p.name p.filename) = false :=
    (allGood_dispValue p.name p.filename hp.name_good (fun fn h => (hp.fn_ok fn h).2)).noForbidden
  unfold C06.parse headerText
  cases hct : p.ctype with
  | none =>
    rw [List.append_nil, splitKeepLf_noLf _ hg1.noLf]
    simp only [List.foldlM_cons, List.foldlM_nil]
    rw [parseLine_kv C06.empty (line1 p) sCD (dispValue p.name p.filename) (stripEol_noLf _ hg1.noLf) hkCD,
      stripWs_dispValue, add_fresh _ _ _ hkCD hnCD hdv rfl]
    refine ⟨_, rfl, ?_, ?_⟩
    · simp [hget, C06.getItem, hnCD', C06.empty, C06.dset, C06.dget]
    · simp [hget, C06.getItem, hnCT', C06.empty, C06.dset, C06.dget, hne]
  | some ct =>
    obtain ⟨hgct, hsct⟩ := hp.ct_ok ct hct
    have hsplit : line1 p ++ 13 :: 10 :: line2 ct = (line1 p ++ [13]) ++ C06.cLf :: line2 ct := by
      simp [C06.cLf]
    have hlf : C06.cLf ∉ line1 p ++ [13] := by
      intro hm
      rcases List.mem_append.mp hm with h | h
      · exact hg1.noLf h
      · simp [C06.cLf] at h
    have hg2 := allGood_line2 ct hgct
    rw [hsplit, C06.splitKeepLf_line _ _ hlf, splitKeepLf_noLf _ hg2.noLf]
    simp only [List.foldlM_cons, List.foldlM_nil]
    have hs1 : C06.stripEol (line1 p ++ [13] ++ [C06.cLf]) = sCD ++ 58 :: 32 :: dispValue p.name p.filename := by
      have : line1 p ++ [13] ++ [C06.cLf] = line1 p ++ [13, 10] := by simp [C06.cLf]
      rw [this, stripEol_crlf]; rfl
    rw [parseLine_kv C06.empty _ sCD (dispValue p.name p.filename) hs1 hkCD,
      stripWs_dispValue, add_fresh _ _ _ hkCD hnCD hdv rfl]
    simp only [bind, Except.bind]
    rw [parseLine_kv _ (line2 ct) sCT ct (stripEol_noLf _ hg2.noLf) hkCT, stripWs_sp, hsct,
      add_fresh _ _ _ hkCT hnCT hgct.noForbidden (by simp [C06.empty, C06.dset, C06.dget, hne])]
    refine ⟨_, rfl, ?_, ?_⟩
    · simp [hget, C06.getItem, hnCD', C06.empty, C06.dset, C06.dget, hne]
    · simp [hget, C06.getItem, hnCT', C06.empty, C06.dset, C06.dget, hne]

/-! ### one part -/

/-- what one part contributes to the result (the step of `Spec.expected`) -/
def stepOf (f : Form) (p : Spec.Part) : Form :=
  match p.filename with
  | some fn =>
    if fn.isEmpty then { f with arguments := dappend p.name p.value f.arguments }
    else { f with files := dappend p.name { filename := fn, body := p.value,
                                             contentType := p.ctype.getD (ofAscii "application/unknown") } f.files }
  | none => { f with arguments := dappend p.name p.value f.arguments }

theorem expected_eq (parts : List Spec.Part) : Spec.expected parts = parts.foldl stepOf {} := rfl

theorem value_extract (H v : Bytes) :
    ((H ++ ([13, 10, 13, 10] ++ (v ++ [13, 10]))).take ((H ++ ([13, 10, 13, 10] ++ (v ++ [13, 10]))).length - 2)).drop
      (H.length + 4) = v := by
  have e : H ++ ([13, 10, 13, 10] ++ (v ++ [13, 10])) = (H ++ [13, 10, 13, 10] ++ v) ++ [13, 10] := by simp
  have hl : ((H ++ [13, 10, 13, 10] ++ v) ++ [13, 10]).length - 2 = (H ++ [13, 10, 13, 10] ++ v).length := by
    simp only [List.length_append, List.length_cons, List.length_nil]
    omega
  rw [e, hl, List.take_left' rfl]
  have : (H ++ [13, 10, 13, 10]).length = H.length + 4 := by simp
  rw [List.drop_left' this]

theorem endsWith_crlf (x : Bytes) : endsWith (x ++ [13, 10]) crlf = true := by
  simp [endsWith, crlf, isPrefix]

/-- what `parsePart` does with the result of `_parse_header` (the part of the code after the header block) -/
def finishPart (f : Form) (p : Spec.Part) (r : Except C43.Err (Str × List (Str × Str))) : Except Err Form :=
  match r with
  | .error (.uncaught k) => .error (.uncaught k)
  | .error .unmodelled => .error .unmodelled
  | .error .httpInput => .error .httpInput
  | .ok (disposition, params) =>
    if disposition ≠ ofAscii "form-data" then .error .httpInput
    else
      match C43.dget (ofAscii "name") params with
      | none => .error .httpInput
      | some name =>
        if name.isEmpty then .error .httpInput
        else
          match C43.dget (ofAscii "filename") params with
          | some fn =>
            if fn.isEmpty then .ok { f with arguments := dappend name p.value f.arguments }
            else .ok { f with files := dappend name { filename := fn, body := p.value,
                                                      contentType := p.ctype.getD (ofAscii "application/unknown") } f.files }
          | none => .ok { f with arguments := dappend name p.value f.arguments }

/-- one encoded part, up to `_parse_header` -/
theorem parsePart_content_gen (cfg : Config) (p : Spec.Part) (f : Form) (hp : PartOK0 p) :
    parsePart cfg (Spec.contentOf Spec.dispositionQ p) f =
      if (utf8Enc (headerText p)).length > cfg.maxPartHeaderSize then .error .httpInput
      else finishPart f p (parseHeader (dispValue p.name p.filename)) := by
  obtain ⟨hs, hparse, hcd, hctype⟩ := parse_headerText p hp
  have hfind := findSub_content p hp (p.value ++ [13, 10])
  rw [contentOf_eq]
  unfold parsePart
  by_cases hsize : (utf8Enc (headerText p)).length > cfg.maxPartHeaderSize
  · simp only [hfind, hsize, if_true]
  · have htake : (utf8Enc (headerText p) ++ ([13, 10, 13, 10] ++ (p.value ++ [13, 10]))).take (utf8Enc (headerText p)).length =
        utf8Enc (headerText p) := List.take_left' rfl
    have hstrict := utf8Strict_enc (headerText p) (allGood_headerText_scalar p hp)
    have hends : endsWith (utf8Enc (headerText p) ++ ([13, 10, 13, 10] ++ (p.value ++ [13, 10]))) crlf = true := by
      have e : utf8Enc (headerText p) ++ ([13, 10, 13, 10] ++ (p.value ++ [13, 10])) =
          (utf8Enc (headerText p) ++ [13, 10, 13, 10] ++ p.value) ++ [13, 10] := by simp
      rw [e]; exact endsWith_crlf _
    have hval := value_extract (utf8Enc (headerText p)) p.value
    simp only [hfind, hsize, if_false, htake, hstrict, hparse, hcd, Option.getD_some, hends, Bool.not_true,
      Bool.false_eq_true, or_false, hval, hctype]
    unfold finishPart
    cases parseHeader (dispValue p.name p.filename) with
    | error e => cases e <;> rfl
    | ok v => rfl

theorem parsePart_content (cfg : Config) (p : Spec.Part) (f : Form) (hp : PartOK p) :
    parsePart cfg (Spec.contentOf Spec.dispositionQ p) f =
      if (utf8Enc (headerText p)).length > cfg.maxPartHeaderSize then .error .httpInput else .ok (stepOf f p) := by
  rw [parsePart_content_gen cfg p f hp, parseHeader_dispValue p.name p.filename]
  have hne : (ofAscii "name" = ofAscii "filename") = False := by simp; decide
  have hnm : p.name.isEmpty = false := by
    cases hnn : p.name with
    | nil => exact absurd hnn hp.name_ne
    | cons a r => rfl
  congr 1
  unfold finishPart stepOf
  simp only [ne_eq, not_true_eq_false, if_false, C43.dget, if_true, hnm, Bool.false_eq_true]
  cases hfn : p.filename with
  | none => simp [fnParams, C43.dget, hne]
  | some fn =>
    have hfne : fn.isEmpty = false := by
      cases hff : fn with
      | nil => exact absurd hff (hp.fn_ok fn hfn).1
      | cons a r => rfl
    simp [fnParams, C43.dget, hne, hfne]

/-! ### the whole body -/

def PartsOK (parts : List Spec.Part) : Prop := ∀ p ∈ parts, PartOK p

/-- every part header block is within the limit -/
def SizesOK (cfg : Config) (parts : List Spec.Part) : Prop :=
  ∀ p ∈ parts, (utf8Enc (headerText p)).length ≤ cfg.maxPartHeaderSize

theorem encodePart_eq (b : Bytes) (p : Spec.Part) :
    Spec.encodePartWith Spec.dispositionQ b p = (dashes ++ b ++ crlf) ++ Spec.contentOf Spec.dispositionQ p := by
  simp [Spec.encodePartWith, Spec.contentOf, List.append_assoc]

theorem content_ne_nil (p : Spec.Part) : Spec.contentOf Spec.dispositionQ p ≠ [] := by
  rw [contentOf_eq]
  simp

theorem splitOn_encoded (b : Bytes) (parts : List Spec.Part) (h10 : 10 ∉ b)
    (hfresh : ∀ p ∈ parts, Spec.occurs (dashes ++ b) (Spec.contentOf Spec.dispositionQ p) = false) :
    splitOn (dashes ++ b ++ crlf) (parts.flatMap (Spec.encodePartWith Spec.dispositionQ b)) =
      [] :: parts.map (Spec.contentOf Spec.dispositionQ) := by
  induction parts with
  | nil => rfl
  | cons p ps ih =>
    have ih' := ih (fun q hq => hfresh q (List.mem_cons_of_mem _ hq))
    unfold splitOn at ih' ⊢
    rw [List.flatMap_cons, encodePart_eq,
      List.append_assoc (dashes ++ b ++ crlf) (Spec.contentOf Spec.dispositionQ p) _,
      splitOnAux_sep _ _ (by simp [dashes])]
    congr 1
    have hno : NoOcc (dashes ++ b ++ crlf) (Spec.contentOf Spec.dispositionQ p)
        (ps.flatMap (Spec.encodePartWith Spec.dispositionQ b)) := by
      have hc : Spec.contentOf Spec.dispositionQ p =
          (utf8Enc (headerText p) ++ ([13, 10, 13, 10] ++ (p.value ++ [13]))) ++ [10] := by
        rw [contentOf_eq]; simp
      have hP : findSub (dashes ++ b) (Spec.contentOf Spec.dispositionQ p) = none := by
        have := hfresh p List.mem_cons_self
        unfold Spec.occurs at this
        cases hf : findSub (dashes ++ b) (Spec.contentOf Spec.dispositionQ p) with
        | none => rfl
        | some i => rw [hf] at this; cases this
      rw [hc] at hP ⊢
      exact noOcc_of_fresh (dashes ++ b) crlf _ _ hP (by simp [dashes, h10])
    have := splitOnAux_content _ _ _ [] _ hno ih'
    simpa using this

theorem foldlM_contents (cfg : Config) (parts : List Spec.Part) (f : Form) (h : PartsOK parts) (hsz : SizesOK cfg parts) :
    (parts.map (Spec.contentOf Spec.dispositionQ)).foldlM
      (fun acc p => if p.isEmpty then Except.ok acc else parsePart cfg p acc) f = .ok (parts.foldl stepOf f) := by
  induction parts generalizing f with
  | nil => rfl
  | cons p ps ih =>
    have hemp : (Spec.contentOf Spec.dispositionQ p).isEmpty = false := by
      cases hc : Spec.contentOf Spec.dispositionQ p with
      | nil => exact absurd hc (content_ne_nil p)
      | cons a r => rfl
    have hs : ¬ ((utf8Enc (headerText p)).length > cfg.maxPartHeaderSize) := Nat.not_lt.mpr (hsz p List.mem_cons_self)
    simp only [List.map_cons, List.foldlM_cons, hemp, Bool.false_eq_true, if_false,
      parsePart_content cfg p f (h p List.mem_cons_self), hs, List.foldl_cons]
    exact ih (stepOf f p) (fun q hq => h q (List.mem_cons_of_mem _ hq)) (fun q hq => hsz q (List.mem_cons_of_mem _ hq))

/-- one header block over the limit: the whole body is refused with HTTPInputError -/
theorem foldlM_contents_big (cfg : Config) (parts : List Spec.Part) (f : Form) (h : PartsOK parts)
    (hbig : ∃ p ∈ parts, (utf8Enc (headerText p)).length > cfg.maxPartHeaderSize) :
    (parts.map (Spec.contentOf Spec.dispositionQ)).foldlM
      (fun acc p => if p.isEmpty then Except.ok acc else parsePart cfg p acc) f = .error .httpInput := by
  induction parts generalizing f with
  | nil => obtain ⟨p, hp, _⟩ := hbig; cases hp
  | cons p ps ih =>
    have hemp : (Spec.contentOf Spec.dispositionQ p).isEmpty = false := by
      cases hc : Spec.contentOf Spec.dispositionQ p with
      | nil => exact absurd hc (content_ne_nil p)
      | cons a r => rfl
    simp only [List.map_cons, List.foldlM_cons, hemp, Bool.false_eq_true, if_false,
      parsePart_content cfg p f (h p List.mem_cons_self)]
    by_cases hs : (utf8Enc (headerText p)).length > cfg.maxPartHeaderSize
    · simp only [hs, if_true]; rfl
    · simp only [hs, if_false, bind, Except.bind]
      obtain ⟨q, hq, hqb⟩ := hbig
      rcases List.mem_cons.mp hq with rfl | hq'
      · exact absurd hqb hs
      · exact ih (stepOf f p) (fun r hr => h r (List.mem_cons_of_mem _ hr)) ⟨q, hq', hqb⟩

theorem rfind_encoded (b : Bytes) (parts : List Spec.Part) :
    rfindSub (dashes ++ b ++ dashes) (Spec.encodeMultipart b parts) =
      some (parts.flatMap (Spec.encodePartWith Spec.dispositionQ b)).length := by
  have e : Spec.encodeMultipart b parts =
      parts.flatMap (Spec.encodePartWith Spec.dispositionQ b) ++ (((dashes ++ b ++ [45]) ++ [45]) ++ [13, 10]) := by
    simp [Spec.encodeMultipart, Spec.encodeWith, dashes, crlf, List.append_assoc]
  have e2 : dashes ++ b ++ dashes = (dashes ++ b ++ [45]) ++ [45] := by simp [dashes]
  rw [e, e2, rfindSub_append_left _ _ _ 0 (rfindSub_final _)]
  rfl

theorem take_encoded (b : Bytes) (parts : List Spec.Part) :
    (Spec.encodeMultipart b parts).take (parts.flatMap (Spec.encodePartWith Spec.dispositionQ b)).length =
      parts.flatMap (Spec.encodePartWith Spec.dispositionQ b) := by
  have e : Spec.encodeMultipart b parts =
      parts.flatMap (Spec.encodePartWith Spec.dispositionQ b) ++ (dashes ++ b ++ dashes ++ crlf) := by
    simp [Spec.encodeMultipart, Spec.encodeWith, List.append_assoc]
  rw [e, List.take_left' rfl]

theorem unquoteBoundary_plain (b : Bytes) (h : b.head? ≠ some 34) : unquoteBoundary b = b := by
  unfold unquoteBoundary
  simp [h]

/-- what `parse_multipart_form_data` does with an encoded form: the split is exact, so the result is the fold over
    the parts, unless the count is over the limit -/
theorem parseMultipart_encoded_eq (cfg : Config) (b : Bytes) (parts : List Spec.Part) (f : Form)
    (hen : cfg.enabled = true) (hb : b.head? ≠ some 34) (h10 : 10 ∉ b)
    (hfresh : ∀ p ∈ parts, Spec.occurs (dashes ++ b) (Spec.contentOf Spec.dispositionQ p) = false) :
    parseMultipart cfg b (Spec.encodeMultipart b parts) f =
      if parts.length > cfg.maxParts then .error .httpInput
      else (parts.map (Spec.contentOf Spec.dispositionQ)).foldlM
        (fun acc p => if p.isEmpty then Except.ok acc else parsePart cfg p acc) f := by
  unfold parseMultipart
  have hlen : ([] :: parts.map (Spec.contentOf Spec.dispositionQ)).length - 1 = parts.length := by
    simp only [List.length_cons, List.length_map, Nat.add_sub_cancel]
  simp only [hen, Bool.not_true, Bool.false_eq_true, if_false, unquoteBoundary_plain b hb, rfind_encoded, take_encoded,
    splitOn_encoded b parts h10 hfresh, hlen]
  split
  · rfl
  · rw [List.foldlM_cons]
    simp only [List.isEmpty_nil, if_true]
    rfl

/-- the round trip at the `parse_multipart_form_data` level -/
theorem parseMultipart_encoded (cfg : Config) (b : Bytes) (parts : List Spec.Part)
    (hen : cfg.enabled = true) (hcount : parts.length ≤ cfg.maxParts) (hb : b.head? ≠ some 34) (h10 : 10 ∉ b)
    (hfresh : ∀ p ∈ parts, Spec.occurs (dashes ++ b) (Spec.contentOf Spec.dispositionQ p) = false)
    (hok : PartsOK parts) (hsz : SizesOK cfg parts) :
    parseMultipart cfg b (Spec.encodeMultipart b parts) {} = .ok (Spec.expected parts) := by
  rw [parseMultipart_encoded_eq cfg b parts {} hen hb h10 hfresh, if_neg (Nat.not_lt.mpr hcount)]
  exact foldlM_contents cfg parts {} hok hsz

/-! ### hypotheses of the lossless clause -/

/-- the size of the header block the encoder writes for a part (what `max_part_header_size` is compared with) -/
def headerSize (p : Spec.Part) : Nat :=
  (utf8Enc (Spec.dispositionQ p)).length +
    (match p.ctype with | some ct => 2 + (utf8Enc (ofAscii "Content-Type: " ++ ct)).length | none => 0)

theorem headerSize_eq (p : Spec.Part) : headerSize p = (utf8Enc (headerText p)).length := by
  unfold headerSize headerText
  rw [dispositionQ_eq]
  cases p.ctype with
  | none => simp
  | some ct =>
    have hsp : (13 : Nat) :: 10 :: line2 ct = [13, 10] ++ line2 ct := rfl
    simp only [ctLine_eq, hsp, utf8Enc_append, utf8Enc_crlf, List.length_append, List.length_cons, List.length_nil]
    try omega

/-- hypotheses of the lossless clause for the quoted-string form -/
structure WellFormed (cfg : Config) (b : Bytes) (parts : List Spec.Part) : Prop where
  enabled : cfg.enabled = true
  count : parts.length ≤ cfg.maxParts
  boundary_ne : b ≠ []
  boundary_plain : b.head? ≠ some 34
  /-- the delimiter `--boundary` occurs nowhere in what the encoder writes for a part -/
  fresh : ∀ p ∈ parts, Spec.occurs (dashes ++ b) (Spec.contentOf Spec.dispositionQ p) = false
  header_size : ∀ p ∈ parts, (C43.utf8Enc (Spec.dispositionQ p)).length +
      (match p.ctype with | some ct => 2 + (C43.utf8Enc (C43.ofAscii "Content-Type: " ++ ct)).length | none => 0) ≤ cfg.maxPartHeaderSize
  names : ∀ p ∈ parts, p.name ≠ [] ∧ C06.hasForbidden p.name = false ∧ p.name.all Wire.isScalar = true
  filenames : ∀ p ∈ parts, ∀ fn, p.filename = some fn → fn ≠ [] ∧ C06.hasForbidden fn = false ∧ fn.all Wire.isScalar = true
  ctypes : ∀ p ∈ parts, ∀ ct, p.ctype = some ct → C06.hasForbidden ct = false ∧ C06.stripWs ct = ct ∧ ct.all Wire.isScalar = true

/-- the hypotheses that do not mention the configured limits: a boundary without LF that does not start with a double
    quote and occurs nowhere in the content; names, filenames and content types a client can send in a quoted-string
    header -/
structure Sendable (b : Bytes) (parts : List Spec.Part) : Prop where
  boundary_plain : b.head? ≠ some 34
  boundary_lf : 10 ∉ b
  fresh : ∀ p ∈ parts, Spec.occurs (dashes ++ b) (Spec.contentOf Spec.dispositionQ p) = false
  names : ∀ p ∈ parts, p.name ≠ [] ∧ C06.hasForbidden p.name = false ∧ p.name.all Wire.isScalar = true
  filenames : ∀ p ∈ parts, ∀ fn, p.filename = some fn → fn ≠ [] ∧ C06.hasForbidden fn = false ∧ fn.all Wire.isScalar = true
  ctypes : ∀ p ∈ parts, ∀ ct, p.ctype = some ct → C06.hasForbidden ct = false ∧ C06.stripWs ct = ct ∧ ct.all Wire.isScalar = true

theorem partOK0_of (p : Spec.Part)
    (hn : p.name ≠ [] ∧ C06.hasForbidden p.name = false ∧ p.name.all Wire.isScalar = true)
    (hf : ∀ fn, p.filename = some fn → fn ≠ [] ∧ C06.hasForbidden fn = false ∧ fn.all Wire.isScalar = true)
    (hc : ∀ ct, p.ctype = some ct → C06.hasForbidden ct = false ∧ C06.stripWs ct = ct ∧ ct.all Wire.isScalar = true) :
    PartOK0 p :=
  { name_ne := hn.1
    name_good := allGood_of _ hn.2.1 hn.2.2
    fn_ok := fun fn hfn => ⟨(hf fn hfn).1, allGood_of _ (hf fn hfn).2.1 (hf fn hfn).2.2⟩
    ct_ok := fun ct hct => ⟨allGood_of _ (hc ct hct).1 (hc ct hct).2.2, (hc ct hct).2.1⟩ }

theorem WellFormed.partOK0 {cfg : Config} {b : Bytes} {parts : List Spec.Part} (h : WellFormed cfg b parts)
    (p : Spec.Part) (hp : p ∈ parts) : PartOK0 p :=
  partOK0_of p (h.names p hp) (h.filenames p hp) (h.ctypes p hp)

theorem Sendable.partsOK {b : Bytes} {parts : List Spec.Part} (h : Sendable b parts) : PartsOK parts := by
  intro p hp
  exact partOK0_of p (h.names p hp) (h.filenames p hp) (h.ctypes p hp)

theorem WellFormed.sendable {cfg : Config} {b : Bytes} {parts : List Spec.Part} (h : WellFormed cfg b parts)
    (hlf : 10 ∉ b) : Sendable b parts :=
  { boundary_plain := h.boundary_plain, boundary_lf := hlf, fresh := h.fresh, names := h.names, filenames := h.filenames,
    ctypes := h.ctypes }

/-- a body with a single part, whatever its name: the result is decided by `_parse_header` on the Content-Disposition
    value (used to evaluate the witness of the former finding at the `parse_multipart_form_data` level) -/
theorem parseMultipart_single (cfg : Config) (b : Bytes) (p : Spec.Part) (hwf : WellFormed cfg b [p]) (h10 : 10 ∉ b) :
    parseMultipart cfg b (Spec.encodeMultipart b [p]) {} =
      finishPart {} p (parseHeader (dispValue p.name p.filename)) := by
  have hcount : ¬ ([p].length > cfg.maxParts) := Nat.not_lt.mpr hwf.count
  have hsz : ¬ ((utf8Enc (headerText p)).length > cfg.maxPartHeaderSize) := by
    rw [← headerSize_eq]
    exact Nat.not_lt.mpr (hwf.header_size p List.mem_cons_self)
  have hemp : (Spec.contentOf Spec.dispositionQ p).isEmpty = false := by
    cases hc : Spec.contentOf Spec.dispositionQ p with
    | nil => exact absurd hc (content_ne_nil p)
    | cons a r => rfl
  rw [parseMultipart_encoded_eq cfg b [p] {} hwf.enabled hwf.boundary_plain h10 hwf.fresh, if_neg hcount]
  simp only [List.map_cons, List.map_nil, List.foldlM_cons, List.foldlM_nil, hemp, Bool.false_eq_true, if_false,
    parsePart_content_gen cfg p {} (hwf.partOK0 p List.mem_cons_self), hsz]
  cases finishPart {} p (parseHeader (dispValue p.name p.filename)) <;> rfl

/-- accepted: count and every header size within the limits (equality included) -/
theorem parseMultipart_sendable_accept (cfg : Config) (b : Bytes) (parts : List Spec.Part) (hen : cfg.enabled = true)
    (hs : Sendable b parts) (hcount : parts.length ≤ cfg.maxParts)
    (hsz : ∀ p ∈ parts, headerSize p ≤ cfg.maxPartHeaderSize) :
    parseMultipart cfg b (Spec.encodeMultipart b parts) {} = .ok (Spec.expected parts) :=
  parseMultipart_encoded cfg b parts hen hcount hs.boundary_plain hs.boundary_lf hs.fresh hs.partsOK
    (fun p hp => by rw [← headerSize_eq]; exact hsz p hp)

/-- refused with HTTPInputError: one part too many, or one header block one byte too long -/
theorem parseMultipart_sendable_reject (cfg : Config) (b : Bytes) (parts : List Spec.Part) (hen : cfg.enabled = true)
    (hs : Sendable b parts)
    (hover : parts.length > cfg.maxParts ∨ ∃ p ∈ parts, headerSize p > cfg.maxPartHeaderSize) :
    parseMultipart cfg b (Spec.encodeMultipart b parts) {} = .error .httpInput := by
  rw [parseMultipart_encoded_eq cfg b parts {} hen hs.boundary_plain hs.boundary_lf hs.fresh]
  by_cases hc : parts.length > cfg.maxParts
  · rw [if_pos hc]
  · rw [if_neg hc]
    rcases hover with h | ⟨p, hp, hbig⟩
    · exact absurd h hc
    · exact foldlM_contents_big cfg parts {} hs.partsOK ⟨p, hp, by rw [← headerSize_eq]; exact hbig⟩

end TornadoModel.C30
