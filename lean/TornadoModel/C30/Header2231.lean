/- C30 — the Content-Disposition round trip for the RFC 2231 / 5987 form: `_parse_header` (`_parseparam`,
   `email.utils.decode_params`, `collapse_rfc2231_value`) on what `Spec.disposition2231` writes
   (`name*=utf-8''<percent-encoded UTF-8>`) -/
import TornadoModel.C30.Header
import TornadoModel.C30.Lemmas
import TornadoModel.C30.Utf8
namespace TornadoModel.C30.R
open TornadoModel.C06 (Str)
open TornadoModel.C43 hiding segs parseparam parseHeader
open TornadoModel

/-! ### the characters `pct5987` writes -/

/-- alphanumeric, `-._~` or `%` -/
def PctC (c : Nat) : Prop := isAlnum c = true ∨ c = 45 ∨ c = 46 ∨ c = 95 ∨ c = 126 ∨ c = 37

instance (c : Nat) : Decidable (PctC c) := by unfold PctC; infer_instance

theorem PctC.range {c : Nat} (h : PctC c) :
    37 ≤ c ∧ c ≤ 126 ∧ c ≠ 39 ∧ c ≠ 42 ∧ c ≠ 59 ∧ c ≠ 61 ∧ c ≠ 34 ∧ c ≠ 92 ∧ c ≠ 60 ∧ c ≠ 127 := by
  unfold PctC isAlnum isDigit at h
  simp only [Bool.or_eq_true, Bool.and_eq_true, decide_eq_true_eq] at h
  omega

theorem PctC.noSpace {c : Nat} (h : PctC c) : isPySpace c = false := by
  have := h.range
  unfold isPySpace
  simp only [Bool.or_eq_false_iff, Bool.and_eq_false_iff, decide_eq_false_iff_not]
  omega

def pctB (b : Nat) : Str :=
  if isAlnum b || b = 45 || b = 46 || b = 95 || b = 126 then [b] else [37, hexUpper (b / 16), hexUpper (b % 16)]

theorem pct5987_eq (s : Str) : Spec.pct5987 s = (utf8Enc s).flatMap pctB := rfl

theorem hexUpper_alnum : ∀ n, n < 16 → isAlnum (hexUpper n) = true := by decide

theorem pctB_chars (b : Nat) (hb : b < 256) : ∀ c ∈ pctB b, PctC c := by
  intro c hc
  unfold pctB at hc
  split at hc
  · rename_i h
    have : c = b := by simpa using hc
    subst this
    simp only [Bool.or_eq_true, decide_eq_true_eq] at h
    unfold PctC
    rcases h with (((h | h) | h) | h) | h <;> simp [h]
  · simp only [List.mem_cons, List.not_mem_nil, or_false] at hc
    rcases hc with rfl | rfl | rfl
    · exact Or.inr (Or.inr (Or.inr (Or.inr (Or.inr rfl))))
    · exact Or.inl (hexUpper_alnum _ (by omega))
    · exact Or.inl (hexUpper_alnum _ (by omega))

theorem pctBytes_pctB (b : Nat) (hb : b < 256) (t : Str) : pctBytes (pctB b ++ t) = b :: pctBytes t := by
  unfold pctB
  split
  · rename_i h
    have h37 : b ≠ 37 := by intro e; subst e; revert h; decide
    simp only [List.cons_append, List.nil_append]
    exact pctBytes_cons_ne b t h37
  · have h1 := hexUpper_ok (b / 16) (by omega)
    have h2 := hexUpper_ok (b % 16) (by omega)
    simp only [List.cons_append, List.nil_append]
    rw [pctBytes_pct _ _ _ h1.1 h2.1, h1.2.1, h2.2.1]
    congr 1
    omega

theorem utf8EncC_lt (c : Nat) (hc : Wire.isScalar c = true) : ∀ b ∈ utf8EncC c, b < 256 := by
  simp only [Wire.isScalar, Bool.or_eq_true, Bool.and_eq_true, decide_eq_true_eq] at hc
  intro b hb
  unfold utf8EncC at hb
  split at hb
  · simp at hb; omega
  · split at hb
    · simp at hb; omega
    · split at hb
      · simp at hb; omega
      · simp at hb; omega

theorem utf8Enc_lt (s : Str) (hs : s.all Wire.isScalar = true) : ∀ b ∈ utf8Enc s, b < 256 := by
  intro b hb
  simp only [utf8Enc, List.mem_flatMap] at hb
  obtain ⟨c, hc, hbc⟩ := hb
  exact utf8EncC_lt c (List.all_eq_true.mp hs c hc) b hbc

theorem pctBytes_flatMap (x : List Nat) (hx : ∀ b ∈ x, b < 256) : pctBytes (x.flatMap pctB) = x := by
  induction x with
  | nil => simp [pctBytes]
  | cons b x ih =>
    rw [List.flatMap_cons, pctBytes_pctB b (hx b List.mem_cons_self),
      ih (fun c hc => hx c (List.mem_cons_of_mem _ hc))]

theorem flatMap_pctB_chars (x : List Nat) (hx : ∀ b ∈ x, b < 256) : ∀ c ∈ x.flatMap pctB, PctC c := by
  intro c hc
  simp only [List.mem_flatMap] at hc
  obtain ⟨b, hb, hcb⟩ := hc
  exact pctB_chars b (hx b hb) c hcb

/-- percent-decoding inverts `pct5987` (on the UTF-8 bytes) -/
theorem pctBytes_pct5987 (s : Str) (hs : s.all Wire.isScalar = true) : pctBytes (Spec.pct5987 s) = utf8Enc s := by
  rw [pct5987_eq, pctBytes_flatMap _ (utf8Enc_lt s hs)]

theorem pct5987_chars (s : Str) (hs : s.all Wire.isScalar = true) : ∀ c ∈ Spec.pct5987 s, PctC c := by
  rw [pct5987_eq]
  exact flatMap_pctB_chars _ (utf8Enc_lt s hs)

/-! ### the extended value `utf-8''pct` -/

def sU8 : Str := ofAscii "utf-8''"

/-- the extended parameter value the encoder writes -/
def ext (s : Str) : Str := sU8 ++ Spec.pct5987 s

/-- a character of `utf-8''pct` -/
def ExtC (c : Nat) : Prop := PctC c ∨ c = 39

instance (c : Nat) : Decidable (ExtC c) := by unfold ExtC; infer_instance

theorem sU8_chars : ∀ c ∈ sU8, ExtC c := by decide

theorem ext_chars (s : Str) (hs : s.all Wire.isScalar = true) : ∀ c ∈ ext s, ExtC c := by
  intro c hc
  rcases List.mem_append.mp hc with h | h
  · exact sU8_chars c h
  · exact Or.inl (pct5987_chars s hs c h)

theorem ExtC.range {c : Nat} (h : ExtC c) :
    37 ≤ c ∧ c ≤ 126 ∧ c ≠ 42 ∧ c ≠ 59 ∧ c ≠ 61 ∧ c ≠ 34 ∧ c ≠ 92 ∧ c ≠ 60 := by
  rcases h with h | h
  · have := h.range; omega
  · omega

theorem ExtC.noSpace {c : Nat} (h : ExtC c) : isPySpace c = false := by
  have := h.range
  unfold isPySpace
  simp only [Bool.or_eq_false_iff, Bool.and_eq_false_iff, decide_eq_false_iff_not]
  omega

theorem strip_noSpace (v : Str) (h : ∀ c ∈ v, isPySpace c = false) : strip v = v := by
  apply strip_of_ends
  · intro c hc
    exact h c (List.mem_of_mem_head? hc)
  · intro c hc
    exact h c (List.mem_of_mem_getLast? hc)

theorem pctBytes_sU8 (r : Str) : pctBytes (sU8 ++ r) = sU8 ++ pctBytes r := by
  have e : sU8 = [117, 116, 102, 45, 56, 39, 39] := by decide
  rw [e]
  simp only [List.cons_append, List.nil_append]
  rw [pctBytes_cons_ne 117 _ (by decide), pctBytes_cons_ne 116 _ (by decide), pctBytes_cons_ne 102 _ (by decide),
    pctBytes_cons_ne 45 _ (by decide), pctBytes_cons_ne 56 _ (by decide), pctBytes_cons_ne 39 _ (by decide),
    pctBytes_cons_ne 39 _ (by decide)]

theorem unquoteLatin1_ext (s : Str) (hs : s.all Wire.isScalar = true) : unquoteLatin1 (ext s) = sU8 ++ utf8Enc s := by
  rw [unquoteLatin1_ascii _ (fun c hc => by have := (ext_chars s hs c hc).range; omega), ext, pctBytes_sU8,
    pctBytes_pct5987 s hs]

theorem emailUnquote_ext (s : Str) : emailUnquote (ext s) = ext s := by
  have e : ext s = 117 :: 116 :: (ofAscii "f-8''" ++ Spec.pct5987 s) := by
    have : sU8 = 117 :: 116 :: ofAscii "f-8''" := by decide
    rw [ext, this]; rfl
  rw [e]
  simp [emailUnquote]

theorem rawUnicodeEscape_bytes (x : List Nat) (hx : ∀ b ∈ x, b < 256) : rawUnicodeEscape x = x := by
  induction x with
  | nil => rfl
  | cons b x ih =>
    have hb := hx b List.mem_cons_self
    have := ih (fun c hc => hx c (List.mem_cons_of_mem _ hc))
    simp only [rawUnicodeEscape, List.flatMap_cons, hb, if_true] at this ⊢
    rw [this]; rfl

/-- `collapse_rfc2231_value` on the single extended segment the encoder writes gives the text back -/
theorem rfc2231Value_ext (s : Str) (hs : s.all Wire.isScalar = true) :
    rfc2231Value [(none, ext s, true)] = .ok s := by
  have hlt := utf8Enc_lt s hs
  have hq : emailQuote (sU8 ++ utf8Enc s) = sU8 ++ emailQuote (utf8Enc s) := by
    rw [emailQuote_append]
    congr 1
  have hticks : splitTicks (sU8 ++ emailQuote (utf8Enc s)) = some (ofAscii "utf-8", [], emailQuote (utf8Enc s)) := by
    have e : sU8 ++ emailQuote (utf8Enc s) = ofAscii "utf-8" ++ 39 :: (39 :: emailQuote (utf8Enc s)) := by
      have : sU8 = ofAscii "utf-8" ++ [39, 39] := by decide
      rw [this]; simp
    unfold splitTicks
    rw [e, splitFirst_append 39 _ _ (by decide)]
    simp [splitFirst]
  have hu : emailUnquote ([34] ++ emailQuote (utf8Enc s) ++ [34]) = utf8Enc s := by
    have := emailUnquote_quoted (utf8Enc s)
    simpa using this
  have hsur : (ofAscii "utf-8").any (fun c => decide (55296 ≤ c) && decide (c ≤ 57343)) = false := by decide
  have hcs : classifyCharset (ofAscii "utf-8") = .utf8 := by decide
  have hsort : sortSegs [((none : Option Nat), ext s, true)] = [(none, ext s, true)] := rfl
  unfold rfc2231Value
  simp only [List.any_cons, List.any_nil, Option.isNone_none, Option.isSome_none, Bool.or_false, Bool.and_false,
    Bool.false_eq_true, if_false, hsort, if_true, List.map_cons, List.map_nil, List.flatten_cons, List.flatten_nil,
    List.append_nil, unquoteLatin1_ext s hs, hq, hticks, hu, hsur, hcs, decodeCharset, rawUnicodeEscape_bytes _ hlt,
    utf8Dec_enc s hs, catchValueError]

/-! ### `_parse_header` on the encoder's Content-Disposition value -/

/-- the value of the Content-Disposition header the RFC 2231 encoder writes -/
def dispValue (name : Str) (filename : Option Str) : Str :=
  ofAscii "form-data; name*=" ++ ext name ++
    (match filename with | some fn => ofAscii "; filename*=" ++ ext fn | none => [])

def paramName (name : Str) : Str := ofAscii "name*=" ++ ext name
def paramFilename (fn : Str) : Str := ofAscii "filename*=" ++ ext fn

def fnSegs (filename : Option Str) : List Str :=
  match filename with | some fn => [paramFilename fn] | none => []

theorem plain_of_ExtC (w : Str) (h : ∀ c ∈ w, ExtC c) : ∀ c ∈ w, c ≠ 59 ∧ c ≠ 34 ∧ c ≠ 92 := by
  intro c hc
  have := (h c hc).range
  omega

theorem parseparam_dispValue (name : Str) (filename : Option Str) (hn : name.all Wire.isScalar = true)
    (hf : ∀ fn, filename = some fn → fn.all Wire.isScalar = true) :
    parseparam (dispValue name filename) = ofAscii "form-data" :: paramName name :: fnSegs filename := by
  have hsplit : ofAscii "form-data; name*=" = ofAscii "form-data" ++ 59 :: ofAscii " name*=" := by decide
  have hsplit2 : ofAscii "; filename*=" = 59 :: ofAscii " filename*=" := by decide
  have hp1 : ∀ c ∈ ofAscii "form-data", c ≠ 59 ∧ c ≠ 34 ∧ c ≠ 92 := by decide
  have hp2 : ∀ c ∈ ofAscii " name*=", c ≠ 59 ∧ c ≠ 34 ∧ c ≠ 92 := by decide
  have hp3 : ∀ c ∈ ofAscii " filename*=", c ≠ 59 ∧ c ≠ 34 ∧ c ≠ 92 := by decide
  have hs1 : strip (ofAscii "form-data") = ofAscii "form-data" := by decide
  have hw2 : ∀ s : Str, s.all Wire.isScalar = true → ∀ c ∈ ofAscii " name*=" ++ ext s, c ≠ 59 ∧ c ≠ 34 ∧ c ≠ 92 := by
    intro s hs c hc
    rcases List.mem_append.mp hc with h | h
    · exact hp2 c h
    · exact plain_of_ExtC _ (ext_chars s hs) c h
  have hw3 : ∀ s : Str, s.all Wire.isScalar = true → ∀ c ∈ ofAscii " filename*=" ++ ext s, c ≠ 59 ∧ c ≠ 34 ∧ c ≠ 92 := by
    intro s hs c hc
    rcases List.mem_append.mp hc with h | h
    · exact hp3 c h
    · exact plain_of_ExtC _ (ext_chars s hs) c h
  have hname : strip (ofAscii " name*=" ++ ext name) = paramName name := by
    have : ofAscii " name*=" = 32 :: ofAscii "name*=" := by decide
    rw [this, List.cons_append, strip_sp, paramName]
    apply strip_noSpace
    intro c hc
    rcases List.mem_append.mp hc with h | h
    · clear hc; revert c; decide
    · exact (ext_chars name hn c h).noSpace
  have hfile : ∀ fn, fn.all Wire.isScalar = true → strip (ofAscii " filename*=" ++ ext fn) = paramFilename fn := by
    intro fn hfn
    have : ofAscii " filename*=" = 32 :: ofAscii "filename*=" := by decide
    rw [this, List.cons_append, strip_sp, paramFilename]
    apply strip_noSpace
    intro c hc
    rcases List.mem_append.mp hc with h | h
    · clear hc; revert c; decide
    · exact (ext_chars fn hfn c h).noSpace
  have hne2 : ∀ s : Str, ofAscii " name*=" ++ ext s ≠ [] := by
    intro s; simp [ofAscii]
  have hne3 : ∀ s : Str, ofAscii " filename*=" ++ ext s ≠ [] := by
    intro s; simp [ofAscii]
  unfold parseparam dispValue
  cases filename with
  | none =>
    have hsegs : segs (ofAscii "form-data; name*=" ++ ext name ++ []) false false =
        [ofAscii "form-data", ofAscii " name*=" ++ ext name] := by
      rw [hsplit, List.append_nil, List.append_assoc]
      have h2 : segs (59 :: ofAscii " name*=" ++ ext name) false false = [] :: [ofAscii " name*=" ++ ext name] := by
        rw [List.cons_append, segs_split]
        congr 1
        have := segs_plain (ofAscii " name*=" ++ ext name) [] false false [] [] (hw2 name hn) (hne2 name) (by simp [segs])
        simpa using this
      have := segs_plain (ofAscii "form-data") _ false false _ _ hp1 (by decide) h2
      simpa using this
    simp only [hsegs, List.map_cons, List.map_nil, hs1, hname, fnSegs]
  | some fn =>
    have hfn := hf fn rfl
    have hsegs : segs (ofAscii "form-data; name*=" ++ ext name ++ (ofAscii "; filename*=" ++ ext fn)) false false =
        [ofAscii "form-data", ofAscii " name*=" ++ ext name, ofAscii " filename*=" ++ ext fn] := by
      rw [hsplit, hsplit2]
      have h3 : segs (59 :: ofAscii " filename*=" ++ ext fn) false false = [] :: [ofAscii " filename*=" ++ ext fn] := by
        rw [List.cons_append, segs_split]
        congr 1
        have := segs_plain (ofAscii " filename*=" ++ ext fn) [] false false [] [] (hw3 fn hfn) (hne3 fn) (by simp [segs])
        simpa using this
      have h2 : segs (59 :: (ofAscii " name*=" ++ ext name) ++ (59 :: ofAscii " filename*=" ++ ext fn)) false false =
          [] :: [ofAscii " name*=" ++ ext name, ofAscii " filename*=" ++ ext fn] := by
        rw [List.cons_append, segs_split]
        congr 1
        have := segs_plain (ofAscii " name*=" ++ ext name) _ false false _ _ (hw2 name hn) (hne2 name) h3
        simpa using this
      have := segs_plain (ofAscii "form-data") _ false false _ _ hp1 (by decide) h2
      simpa [List.append_assoc] using this
    simp only [hsegs, List.map_cons, List.map_nil, hs1, hname, hfile fn hfn, fnSegs]

theorem strip_ext (s : Str) (hs : s.all Wire.isScalar = true) : strip (ext s) = ext s :=
  strip_noSpace _ (fun c hc => (ext_chars s hs c hc).noSpace)

/-- `_parse_header` recovers the name and filename the RFC 2231 encoder wrote (any scalar-valued text: control
    characters, quotes, backslashes, semicolons, non-ASCII included — all of it travels percent-encoded) -/
theorem parseHeader_dispValue (name : Str) (filename : Option Str) (hn : name.all Wire.isScalar = true)
    (hf : ∀ fn, filename = some fn → fn.all Wire.isScalar = true) :
    parseHeader (dispValue name filename) =
      .ok (ofAscii "form-data", (ofAscii "name", name) :: fnParams filename) := by
  have hsf1 : splitFirst 61 (paramName name) = some (ofAscii "name*", ext name) := by
    have := splitFirst_append 61 (ofAscii "name*") (ext name) (by decide)
    have h : ofAscii "name*=" = ofAscii "name*" ++ [61] := by decide
    rw [paramName, h]
    simpa using this
  have hsf2 : ∀ fn, splitFirst 61 (paramFilename fn) = some (ofAscii "filename*", ext fn) := by
    intro fn
    have := splitFirst_append 61 (ofAscii "filename*") (ext fn) (by decide)
    have h : ofAscii "filename*=" = ofAscii "filename*" ++ [61] := by decide
    rw [paramFilename, h]
    simpa using this
  have hl1 : lowerAscii (strip (ofAscii "name*")) = ofAscii "name*" := by decide
  have hl2 : lowerAscii (strip (ofAscii "filename*")) = ofAscii "filename*" := by decide
  have hc1 : continuation (ofAscii "name*") = some (ofAscii "name", none) := by decide
  have hc2 : continuation (ofAscii "filename*") = some (ofAscii "filename", none) := by decide
  have he1 : (ofAscii "name*").getLast? = some 42 := by decide
  have he2 : (ofAscii "filename*").getLast? = some 42 := by decide
  have hne : (ofAscii "name" = ofAscii "filename") = False := by simp; decide
  unfold parseHeader
  rw [parseparam_dispValue name filename hn hf]
  cases filename with
  | none =>
    simp only [fnSegs, fnParams, rawParams, List.filterMap_cons, List.filterMap_nil, hsf1, Option.map_some, hl1,
      strip_ext name hn, groupParams, hc1, he1, emailUnquote_ext, List.nil_append, List.foldl_nil, C43.dset, C43.dget,
      Option.getD_none, C43.mixedConts, List.any_cons, List.any_nil, Option.isNone_none, Option.isSome_none, Bool.or_false,
      Bool.and_false, Bool.false_eq_true, if_false, List.foldlM_cons, List.foldlM_nil, rfc2231Value_ext name hn,
      decide_true, Except.map, bind, Except.bind, pure, Except.pure]
  | some fn =>
    have hfn := hf fn rfl
    simp only [fnSegs, fnParams, rawParams, List.filterMap_cons, List.filterMap_nil, hsf1, hsf2, Option.map_some, hl1, hl2,
      strip_ext name hn, strip_ext fn hfn, groupParams, hc1, hc2, he1, he2, emailUnquote_ext, List.nil_append,
      List.foldl_nil, C43.dset, C43.dget, hne, if_false, Option.getD_none, C43.mixedConts, List.any_cons, List.any_nil,
      Option.isNone_none, Option.isSome_none, Bool.or_false, Bool.and_false, Bool.false_eq_true, List.foldlM_cons,
      List.foldlM_nil, rfc2231Value_ext name hn, rfc2231Value_ext fn hfn, decide_true, Except.map, bind, Except.bind, pure,
      Except.pure]

end TornadoModel.C30.R
