import TornadoModel.C22.Spec
import TornadoModel.C21.Lemmas
namespace TornadoModel.C22
end TornadoModel.C22
