/- C22 helper lemmas (core tactics only) -/
import TornadoModel.C22.Spec
import TornadoModel.C21.Lemmas
set_option linter.unusedSimpArgs false
set_option linter.unusedVariables false
namespace TornadoModel.C22
open TornadoModel.C21 (Str xhtmlEscape splitOnC)
open TornadoModel.C21.Spec (escapeSafe startsWith entityBodies)
open TornadoModel.C22.Spec

/-! ### list slicing -/

theorem slice_append_drop (t : Str) (a b : Nat) (h : a ≤ b) : slice t a b ++ t.drop b = t.drop a := by
  unfold slice
  have : t.drop b = (t.drop a).drop (b - a) := by rw [List.drop_drop]; congr 1; omega
  rw [this, List.take_append_drop]

theorem mem_slice {t : Str} {a b x : Nat} (h : x ∈ slice t a b) : x ∈ t :=
  List.mem_of_mem_drop (List.mem_of_mem_take h)

theorem slice_length (t : Str) (a b : Nat) (h : b ≤ t.length) : (slice t a b).length = b - a := by
  unfold slice; simp; omega

/-! ### startsWith -/

theorem startsWith_iff (p s : Str) : startsWith p s = true ↔ p <+: s := by
  induction p generalizing s with
  | nil => simp [startsWith]
  | cons a p ih =>
    cases s with
    | nil => simp [startsWith]
    | cons b s =>
      rw [startsWith]
      simp only [Bool.and_eq_true, decide_eq_true_eq, ih, List.cons_prefix_cons]

/-! ### splitting on a character -/

theorem splitOnC_ne_nil (sep : Nat) (s : Str) : splitOnC sep s ≠ [] := by
  cases s with
  | nil => simp [splitOnC]
  | cons c cs =>
    rw [splitOnC]
    split
    · simp
    · split <;> simp

/-- the first piece of `s.split(sep)` is a prefix of `s` -/
theorem splitOnC_head (sep : Nat) (s p0 : Str) (tl : List Str) (h : splitOnC sep s = p0 :: tl) :
    ∃ r, s = p0 ++ r := by
  induction s generalizing p0 tl with
  | nil => simp [splitOnC] at h; exact ⟨[], by simp [h.1]⟩
  | cons c cs ih =>
    rw [splitOnC] at h
    split at h
    · simp only [List.cons.injEq] at h
      exact ⟨c :: cs, by simp [← h.1]⟩
    · split at h
      · rename_i hnil; exact absurd hnil (splitOnC_ne_nil sep cs)
      · rename_i w ws hw
        simp only [List.cons.injEq] at h
        obtain ⟨rfl, rfl⟩ := h
        obtain ⟨r, hr⟩ := ih w ws hw
        exact ⟨r, by simp [← hr]⟩

/-- `s.split(sep)`: the string starts with piece 0, the separator, piece 1 -/
theorem splitOnC_two (sep : Nat) (s p0 p1 : Str) (tl : List Str) (h : splitOnC sep s = p0 :: p1 :: tl) :
    ∃ r, s = p0 ++ sep :: p1 ++ r := by
  induction s generalizing p0 p1 tl with
  | nil => simp [splitOnC] at h
  | cons c cs ih =>
    rw [splitOnC] at h
    split at h
    · rename_i hc
      simp only [List.cons.injEq] at h
      obtain ⟨rfl, h2⟩ := h
      obtain ⟨r, hr⟩ := splitOnC_head sep cs p1 tl h2
      exact ⟨r, by simp [hc, ← hr]⟩
    · split at h
      · rename_i hnil; exact absurd hnil (splitOnC_ne_nil sep cs)
      · rename_i w ws hw
        simp only [List.cons.injEq] at h
        obtain ⟨rfl, rfl⟩ := h
        obtain ⟨r, hr⟩ := ih w p1 _ hw
        exact ⟨r, by simp [hr]⟩

/-! ### shortening produces prefixes -/

theorem firstPiece_prefix (c : Nat) (s : Str) : firstPiece c s <+: s := List.takeWhile_prefix _

theorem clip1_prefix (url : Str) (n : Nat) : clip1 url n <+: url := by
  unfold clip1
  split
  · rename_i p0 p1 tl hsp
    obtain ⟨r, hr⟩ := splitOnC_two 47 _ p0 p1 tl hsp
    have hq : firstPiece 46 (firstPiece 63 (p1.take 8)) <+: p1 :=
      (firstPiece_prefix 46 _).trans ((firstPiece_prefix 63 _).trans (List.take_prefix 8 p1))
    obtain ⟨q', hq'⟩ := hq
    refine ⟨q' ++ r, ?_⟩
    conv => rhs; rw [← List.take_append_drop n url, hr, ← hq']
    simp
  · exact List.prefix_refl _

theorem clip2_prefix (u : Str) : clip2 u <+: u := by
  unfold clip2
  split
  · exact List.take_prefix _ _
  · exact List.prefix_refl _

theorem clip_prefix (url : Str) (n : Nat) : clip url n <+: url :=
  (clip2_prefix _).trans (clip1_prefix url n)

theorem dropCutEntity_prefix (c : Str) : dropCutEntity c <+: c := by
  unfold dropCutEntity
  split
  · split
    · exact List.take_prefix _ _
    · exact List.prefix_refl _
  · exact List.prefix_refl _

/-- the label produced when shortening: the URL itself, or a proper prefix of it followed by `...` -/
theorem shortenLabel_prefix (url : Str) (n : Nat) :
    (shortenLabel url n).1 = url ∨
      ∃ p, p <+: url ∧ p.length < url.length ∧ (shortenLabel url n).1 = p ++ dots ∧ p = dropCutEntity (clip url n) := by
  unfold shortenLabel
  simp only
  split
  · split
    · left; rfl
    · rename_i hlen
      right
      refine ⟨dropCutEntity (clip url n), (dropCutEntity_prefix _).trans (clip_prefix url n), ?_, rfl, rfl⟩
      simp [dots] at hlen; omega
  · left; rfl

/-! ### removing tags -/

theorem stripGo_false_append (s r : Str) (h : ∀ c ∈ s, c ≠ 60) :
    stripGo false (s ++ r) = s ++ stripGo false r := by
  induction s with
  | nil => rfl
  | cons c s ih =>
    simp only [List.cons_append, stripGo, if_neg (h c (by simp))]
    rw [ih (fun y hy => h y (by simp [hy]))]

theorem stripGo_true_skip (a r : Str) (h : ∀ c ∈ a, c ≠ 62) :
    stripGo true (a ++ 62 :: r) = stripGo false r := by
  induction a with
  | nil => simp [stripGo]
  | cons c a ih =>
    simp only [List.cons_append, stripGo, if_neg (h c (by simp))]
    exact ih (fun y hy => h y (by simp [hy]))

theorem stripGo_false_noLt (s : Str) (h : ∀ c ∈ s, c ≠ 60) : stripGo false s = s := by
  have := stripGo_false_append s [] h
  simpa [stripGo] using this

/-- stripping one rendered anchor leaves its label -/
theorem stripGo_renderLink (l : Link) (r : Str) (hh : ∀ c ∈ l.href, c ≠ 62) (hp : ∀ c ∈ l.params, c ≠ 62)
    (hl : ∀ c ∈ l.label, c ≠ 60) :
    stripGo false (renderLink l ++ r) = l.label ++ stripGo false r := by
  unfold renderLink aOpen aClose
  have e1 : ([60, 97, 32, 104, 114, 101, 102, 61, 34] ++ l.href ++ [34] ++ l.params ++ [62] ++ l.label ++ [60, 47, 97, 62]) ++ r
      = 60 :: (([97, 32, 104, 114, 101, 102, 61, 34] ++ l.href ++ [34] ++ l.params) ++ 62 :: (l.label ++ ([60, 47, 97, 62] ++ r))) := by
    simp
  rw [e1]
  simp only [stripGo, if_true]
  rw [stripGo_true_skip]
  · rw [stripGo_false_append _ _ hl]
    simp [stripGo]
  · intro c hc
    simp only [List.mem_append, List.mem_cons, List.mem_nil_iff, or_false] at hc
    rcases hc with ((hc | hc) | hc) | hc
    · rcases hc with rfl | rfl | rfl | rfl | rfl | rfl | rfl | rfl <;> omega
    · exact hh c hc
    · omega
    · exact hp c hc

/-! ### entities are never split -/

theorem escapeSafe_tail (x : Nat) (s : Str) (h : escapeSafe (x :: s) = true) : escapeSafe s = true := by
  simp only [escapeSafe, Bool.and_eq_true] at h; exact h.2

theorem escapeSafe_drop_append (a b : Str) (h : escapeSafe (a ++ b) = true) : escapeSafe b = true := by
  induction a with
  | nil => exact h
  | cons x a ih => exact ih (escapeSafe_tail x _ h)

theorem escapeSafe_cons_ne (x : Nat) (s : Str) (hx : x ≠ 38) :
    escapeSafe (x :: s) = ((x != 60 && x != 62 && x != 34 && x != 39) && escapeSafe s) := by
  have : (x != 38) = true := by simpa using hx
  simp [escapeSafe, this]

theorem escapeSafe_amp (s : Str) (h : escapeSafe (38 :: s) = true) :
    ∃ e, e ∈ entityBodies ∧ ∃ s', s = e ++ s' ∧ escapeSafe s' = true := by
  have ht := escapeSafe_tail _ _ h
  simp only [escapeSafe, Bool.and_eq_true, Bool.or_eq_true, List.any_eq_true] at h
  obtain ⟨⟨_, h2⟩, _⟩ := h
  rcases h2 with h2 | ⟨e, he, hst⟩
  · simp at h2
  · obtain ⟨s', hs'⟩ := (startsWith_iff e s).mp hst
    exact ⟨e, he, s', hs'.symm, escapeSafe_drop_append e s' (by rw [hs']; exact ht)⟩

theorem escapeSafe_entity (e : Str) (he : e ∈ entityBodies) (y : Str) (hy : escapeSafe y = true) :
    escapeSafe (38 :: e ++ y) = true := by
  simp only [entityBodies, List.mem_cons, List.mem_nil_iff, or_false] at he
  rcases he with rfl | rfl | rfl | rfl | rfl
  · exact C21.escapeSafe_escC 38 y hy
  · exact C21.escapeSafe_escC 60 y hy
  · exact C21.escapeSafe_escC 62 y hy
  · exact C21.escapeSafe_escC 34 y hy
  · exact C21.escapeSafe_escC 39 y hy

theorem rfind_append (c : Nat) (a b : Str) :
    rfind c (a ++ b) = match rfind c b with
      | some i => some (a.length + i)
      | none => rfind c a := by
  induction a with
  | nil => simp only [List.nil_append, List.length_nil, Nat.zero_add]; cases rfind c b <;> simp [rfind]
  | cons x a ih =>
    simp only [List.cons_append, rfind, ih]
    cases h : rfind c b with
    | some i => simp; omega
    | none => simp

theorem dropCutEntity_cons_ne (x : Nat) (c : Str) (hx : x ≠ 38) : dropCutEntity (x :: c) = x :: dropCutEntity c := by
  unfold dropCutEntity
  simp only [rfind]
  cases h : rfind 38 c with
  | some i => simp only [List.drop_succ_cons, List.take_succ_cons]; split <;> rfl
  | none => simp [hx]

/-- a cut inside the entity at the very end: everything from its `&` is dropped; a complete entity stays -/
theorem dropCutEntity_partial : ∀ e ∈ entityBodies, ∀ k, k ≤ 6 →
    escapeSafe (dropCutEntity (38 :: e.take k)) = true := by decide

theorem entityBodies_facts : ∀ e ∈ entityBodies, rfind 38 (38 :: e) = some 0 ∧ (38 :: e).contains 59 = true ∧ e.length ≤ 6 := by
  decide

theorem dropCutEntity_entity (e : Str) (he : e ∈ entityBodies) (c : Str) :
    dropCutEntity (38 :: e ++ c) = 38 :: e ++ dropCutEntity c := by
  obtain ⟨hr, hc59, _⟩ := entityBodies_facts e he
  have happ : 38 :: e ++ c = (38 :: e) ++ c := rfl
  unfold dropCutEntity
  rw [happ, rfind_append]
  cases h : rfind 38 c with
  | some i =>
    have hd : ((38 :: e) ++ c).drop ((38 :: e).length + i) = c.drop i := by
      rw [List.drop_append, List.drop_of_length_le (by omega), Nat.add_sub_cancel_left]; rfl
    have htk : ((38 :: e) ++ c).take ((38 :: e).length + i) = (38 :: e) ++ c.take i := by
      rw [List.take_append, List.take_of_length_le (by omega), Nat.add_sub_cancel_left]
    simp only [hd, htk]
    split <;> rfl
  | none =>
    have h59 : 59 ∈ (38 :: e) ++ c := List.mem_append_left c (by simpa using hc59)
    have hcont : (((38 :: e) ++ c).drop 0).contains 59 = true := by simpa using h59
    simp only [hr]
    rw [if_neg (by rw [hcont]; simp)]

/-- cutting escaped text anywhere and then applying the `rfind("&")` repair leaves whole entities only -/
theorem escapeSafe_dropCutEntity_aux : ∀ (n : Nat) (s : Str), s.length ≤ n → escapeSafe s = true →
    ∀ c, c <+: s → escapeSafe (dropCutEntity c) = true := by
  intro n
  induction n with
  | zero =>
    intro s hn _ c hc
    have : s = [] := List.eq_nil_of_length_eq_zero (by omega)
    subst this
    have : c = [] := List.prefix_nil.mp hc
    subst this; rfl
  | succ n ih =>
    intro s hn hs c hc
    cases c with
    | nil => rfl
    | cons y c' =>
      cases s with
      | nil => simp at hc
      | cons x s' =>
        rw [List.cons_prefix_cons] at hc
        obtain ⟨rfl, hc'⟩ := hc
        simp only [List.length_cons] at hn
        by_cases hx : y = 38
        · subst hx
          obtain ⟨e, he, s'', rfl, hs''⟩ := escapeSafe_amp s' hs
          obtain ⟨_, _, hlen⟩ := entityBodies_facts e he
          rcases List.prefix_or_prefix_of_prefix hc' (List.prefix_append e s'') with h1 | h1
          · have : c' = e.take c'.length := List.prefix_iff_eq_take.mp h1
            rw [this]
            exact dropCutEntity_partial e he _ (by have := h1.length_le; omega)
          · obtain ⟨c'', rfl⟩ := h1
            have hc'' : c'' <+: s'' := (List.prefix_append_right_inj e).mp hc'
            rw [← List.cons_append, dropCutEntity_entity e he]
            exact escapeSafe_entity e he _ (ih s'' (by simp at hn; omega) hs'' c'' hc'')
        · rw [dropCutEntity_cons_ne y c' hx, escapeSafe_cons_ne _ _ hx]
          rw [escapeSafe_cons_ne _ _ hx] at hs
          simp only [Bool.and_eq_true] at hs ⊢
          exact ⟨hs.1, ih s' (by omega) hs.2 c' hc'⟩

theorem escapeSafe_dropCutEntity (s c : Str) (hs : escapeSafe s = true) (hc : c <+: s) :
    escapeSafe (dropCutEntity c) = true :=
  escapeSafe_dropCutEntity_aux s.length s (Nat.le_refl _) hs c hc


end TornadoModel.C22
